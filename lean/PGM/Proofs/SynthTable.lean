import PGM.Proofs.SynthTableAux
import PGM.Proofs.SynthSem
/-!
# Synthetic records, the whole table: structure (C11, part 1)

The column loop `synthTable`: the number of rows and their width never change; a step writes only
its own column, so a column generated once is final, and so are the group keys of every later step;
the rows of a group receive exactly the outcome handed to the group.  Hence every `(group, value)`
cell of the final table has the count the verified column checker `colOK` accepted.
-/
namespace PGM.Synth.Table
open PGM.Synth

/-- the loop of `synthTable` from an arbitrary table -/
def run (specs : List ColSpec) (outs : List (List (List Nat))) (rows : List Row) : List Row :=
  (List.zip specs outs).foldl (fun rs (so : ColSpec × List (List Nat)) => genCol so.1 rs so.2) rows

theorem synthTable_eq_run (ncols total : Nat) (specs : List ColSpec) (outs : List (List (List Nat))) :
    synthTable ncols total specs outs = run specs outs (List.replicate total (List.replicate ncols 0)) :=
  rfl

theorem run_nil_left (outs : List (List (List Nat))) (rows : List Row) : run [] outs rows = rows := rfl

theorem run_nil_right (specs : List ColSpec) (rows : List Row) : run specs [] rows = rows := by
  unfold run; rw [List.zip_nil_right]; rfl

theorem run_cons (sp : ColSpec) (sps : List ColSpec) (o : List (List Nat)) (os : List (List (List Nat)))
    (rows : List Row) : run (sp :: sps) (o :: os) rows = run sps os (genCol sp rows o) := rfl

/-! ### unpacking the Boolean predicates -/

theorem specsWF_cons (ncols : Nat) (done : List Nat) (sp : ColSpec) (sps : List ColSpec) :
    specsWF ncols done (sp :: sps) = true ↔
      sp.col < ncols ∧ sp.col ∉ done ∧ (∀ j ∈ sp.proj, j ∈ done) ∧
      (∀ j, j < ncols → sp.proj.count j ≤ 1) ∧ specsWF ncols (done ++ [sp.col]) sps = true := by
  simp only [specsWF, Bool.and_eq_true, decide_eq_true_eq, Bool.not_eq_true', List.all_eq_true,
    List.mem_range, List.contains_iff_mem]
  constructor
  · rintro ⟨⟨⟨⟨h1, h2⟩, h3⟩, h4⟩, h5⟩
    refine ⟨h1, ?_, h3, h4, h5⟩
    intro hm
    rw [← List.contains_iff_mem, h2] at hm
    cases hm
  · rintro ⟨h1, h2, h3, h4, h5⟩
    refine ⟨⟨⟨⟨h1, ?_⟩, h3⟩, h4⟩, h5⟩
    cases hc : done.contains sp.col
    · rfl
    · exact absurd (List.contains_iff_mem.1 hc) h2

theorem outsOK_cons (ncols total : Nat) (sp : ColSpec) (sps : List ColSpec) (o : List (List Nat))
    (os : List (List (List Nat))) (rows : List Row) :
    outsOK ncols total (sp :: sps) (o :: os) rows = true ↔
      colOutsOK sp rows o = true ∧ outsOK ncols total sps os (genCol sp rows o) = true := by
  simp only [outsOK, Bool.and_eq_true]

theorem outsOK_length (ncols total : Nat) (specs : List ColSpec) (outs : List (List (List Nat)))
    (rows : List Row) (h : outsOK ncols total specs outs rows = true) : outs.length = specs.length := by
  induction specs generalizing outs rows with
  | nil =>
    cases outs with
    | nil => rfl
    | cons o os => simp [outsOK] at h
  | cons sp sps ih =>
    cases outs with
    | nil => simp [outsOK] at h
    | cons o os =>
      rw [outsOK_cons] at h
      simp only [List.length_cons]
      rw [ih os _ h.2]

theorem mem_zip_getD {α β : Type} (l : List α) (m : List β) (P : α × β → Bool) :
    (List.zip l m).all P = true ↔ ∀ a b, (a, b) ∈ List.zip l m → P (a, b) = true := by
  rw [List.all_eq_true]
  constructor
  · intro h a b hab; exact h _ hab
  · intro h p hp; exact h p.1 p.2 hp

theorem colOutsOK_unpack (sp : ColSpec) (rows : List Row) (o : List (List Nat)) :
    colOutsOK sp rows o = true ↔
      o.length = (groupKeys sp.proj rows).length ∧
      ∀ g og, (g, og) ∈ List.zip (groupKeys sp.proj rows) o →
        og.length = cellCount sp.proj g rows ∧ (∀ v ∈ og, v < sp.size) ∧
        (sp.cond g).length = sp.size ∧
        colOK (sp.cond g) (cellCount sp.proj g rows) (hist sp.size og) = true := by
  unfold colOutsOK
  simp only [Bool.and_eq_true, beq_iff_eq, List.all_eq_true, decide_eq_true_eq,
    groupSize_eq_cellCount]
  constructor
  · rintro ⟨h1, h2⟩
    refine ⟨h1, fun g og hm => ?_⟩
    obtain ⟨⟨⟨a, b⟩, c⟩, d⟩ := h2 (g, og) hm
    exact ⟨a, b, c, d⟩
  · rintro ⟨h1, h2⟩
    refine ⟨h1, fun p hm => ?_⟩
    obtain ⟨a, b, c, d⟩ := h2 p.1 p.2 hm
    exact ⟨⟨⟨a, b⟩, c⟩, d⟩

/-! ### what the loop leaves alone -/

theorem agree_genCol (sp : ColSpec) (rows : List Row) (o : List (List Nat)) :
    Agree (fun j => j ≠ sp.col) rows (genCol sp rows o) :=
  agree_foldGroups _ _ _ _

/-- no hypothesis: row count and widths -/
theorem agree_run_none (specs : List ColSpec) (outs : List (List (List Nat))) (rows : List Row) :
    Agree (fun _ => False) rows (run specs outs rows) := by
  induction specs generalizing outs rows with
  | nil => exact Agree.refl _ _
  | cons sp sps ih =>
    cases outs with
    | nil => rw [run_nil_right]; exact Agree.refl _ _
    | cons o os =>
      rw [run_cons]
      exact ((agree_genCol sp rows o).mono (fun _ h => h.elim)).trans (ih os _)

/-- a well-formed loop never writes a position generated earlier -/
theorem agree_run (ncols : Nat) (done : List Nat) (specs : List ColSpec)
    (hwf : specsWF ncols done specs = true) (outs : List (List (List Nat))) (rows : List Row) :
    Agree (fun j => j ∈ done) rows (run specs outs rows) := by
  induction specs generalizing done outs rows with
  | nil => exact Agree.refl _ _
  | cons sp sps ih =>
    cases outs with
    | nil => rw [run_nil_right]; exact Agree.refl _ _
    | cons o os =>
      rw [run_cons]
      rw [specsWF_cons] at hwf
      obtain ⟨_, hnd, _, _, hrest⟩ := hwf
      have h1 : Agree (fun j => j ∈ done) rows (genCol sp rows o) :=
        (agree_genCol sp rows o).mono (fun j hj e => hnd (e ▸ hj))
      have h2 : Agree (fun j => j ∈ done) (genCol sp rows o) (run sps os (genCol sp rows o)) :=
        (ih (done ++ [sp.col]) hrest os _).mono (fun j hj => List.mem_append_left _ hj)
      exact h1.trans h2

/-! ### what a step establishes, and that it stays established -/

/-- the table `final` carries the outcome `o` of step `sp`: group by group, the rows of the group
hold exactly the outcome handed to it (an outcome the column checker accepted) -/
def StepOK (sp : ColSpec) (o : List (List Nat)) (final : List Row) : Prop :=
  o.length = (groupKeys sp.proj final).length ∧
  ∀ g og, (g, og) ∈ List.zip (groupKeys sp.proj final) o →
    groupCol sp.col sp.proj g final = og ∧ (∀ v ∈ og, v < sp.size) ∧
    (sp.cond g).length = sp.size ∧ colOK (sp.cond g) og.length (hist sp.size og) = true

theorem StepOK.transfer {sp : ColSpec} {o : List (List Nat)} {a b : List Row} {P : Nat → Prop}
    (h : StepOK sp o a) (hab : Agree P a b) (hc : P sp.col) (hproj : ∀ j ∈ sp.proj, P j) :
    StepOK sp o b := by
  have hk : groupKeys sp.proj a = groupKeys sp.proj b :=
    groupKeys_congr _ _ _ (hab.map_key sp.proj hproj)
  unfold StepOK at *
  rw [← hk]
  refine ⟨h.1, fun g og hm => ?_⟩
  rw [← hab.groupCol sp.col sp.proj g hc hproj]
  exact h.2 g og hm

theorem stepOK_genCol (sp : ColSpec) (rows : List Row) (o : List (List Nat)) (hc : sp.col ∉ sp.proj)
    (hw : ∀ r ∈ rows, sp.col < r.length) (hok : colOutsOK sp rows o = true) :
    StepOK sp o (genCol sp rows o) := by
  rw [colOutsOK_unpack] at hok
  obtain ⟨hlen, hall⟩ := hok
  have hag := agree_genCol sp rows o
  have hk : groupKeys sp.proj rows = groupKeys sp.proj (genCol sp rows o) :=
    groupKeys_congr _ _ _ (hag.map_key sp.proj (fun j hj e => hc (e ▸ hj)))
  unfold StepOK
  rw [← hk]
  refine ⟨hlen, fun g og hm => ?_⟩
  obtain ⟨h1, h2, h3, h4⟩ := hall g og hm
  refine ⟨?_, h2, h3, by rw [h1]; exact h4⟩
  rw [genCol_eq]
  apply foldGroups_groupCol sp.col sp.proj g og hc _ _ hm rows hw h1
  rw [List.map_fst_zip (Nat.le_of_eq hlen.symm)]
  exact nodup_groupKeys _ _

/-- **the master invariant**: after the whole loop, every step's outcome is in the table -/
theorem run_stepOK (ncols total : Nat) (done : List Nat) (specs : List ColSpec)
    (outs : List (List (List Nat))) (rows : List Row)
    (hwf : specsWF ncols done specs = true) (hw : ∀ r ∈ rows, r.length = ncols)
    (hok : outsOK ncols total specs outs rows = true) :
    ∀ sp o, (sp, o) ∈ List.zip specs outs → StepOK sp o (run specs outs rows) := by
  induction specs generalizing done outs rows with
  | nil => intro sp o hm; simp at hm
  | cons sp0 sps ih =>
    cases outs with
    | nil => intro sp o hm; simp at hm
    | cons o0 os =>
      rw [specsWF_cons] at hwf
      obtain ⟨hlt, hnd, hproj, _, hrest⟩ := hwf
      rw [outsOK_cons] at hok
      have hw1 : ∀ r ∈ genCol sp0 rows o0, r.length = ncols := (agree_genCol sp0 rows o0).width ncols hw
      intro sp o hm
      rw [run_cons]
      rw [List.zip_cons_cons, List.mem_cons] at hm
      rcases hm with hm | hm
      · obtain ⟨rfl, rfl⟩ := Prod.mk.inj hm
        have hc : sp.col ∉ sp.proj := fun h => hnd (hproj _ h)
        have h0 := stepOK_genCol sp rows o hc (fun r hr => by rw [hw r hr]; exact hlt) hok.1
        apply h0.transfer (agree_run ncols (done ++ [sp.col]) sps hrest os _)
        · exact List.mem_append_right _ (List.mem_singleton.2 rfl)
        · exact fun j hj => List.mem_append_left _ (hproj j hj)
      · exact ih (done ++ [sp0.col]) os _ hrest hw1 hok.2 sp o hm

/-! ### Part 1 -/

theorem width_init (ncols total : Nat) :
    ∀ r ∈ List.replicate total (List.replicate ncols 0), r.length = ncols := by
  intro r hr
  rw [(List.mem_replicate.1 hr).2, List.length_replicate]

theorem synthTable_length (ncols total : Nat) (specs : List ColSpec) (outs : List (List (List Nat))) :
    (synthTable ncols total specs outs).length = total := by
  rw [synthTable_eq_run, ← (agree_run_none specs outs _).length_eq, List.length_replicate]

theorem synthTable_row_width (ncols total : Nat) (specs : List ColSpec) (outs : List (List (List Nat))) :
    ∀ r ∈ synthTable ncols total specs outs, r.length = ncols := by
  rw [synthTable_eq_run]
  exact (agree_run_none specs outs _).width ncols (width_init ncols total)

/-- the master invariant on `synthTable` -/
theorem synthTable_stepOK (ncols total : Nat) (specs : List ColSpec) (outs : List (List (List Nat)))
    (hwf : specsWF ncols [] specs = true)
    (hok : outsOK ncols total specs outs (List.replicate total (List.replicate ncols 0)) = true) :
    ∀ sp o, (sp, o) ∈ List.zip specs outs → StepOK sp o (synthTable ncols total specs outs) :=
  run_stepOK ncols total [] specs outs _ hwf (width_init ncols total) hok

/-- every step has an outcome -/
theorem exists_out_of_mem {α β : Type} (l : List α) (m : List β) (h : m.length = l.length) (a : α)
    (ha : a ∈ l) : ∃ b, (a, b) ∈ List.zip l m := by
  induction l generalizing m with
  | nil => cases ha
  | cons x l ih =>
    cases m with
    | nil => simp at h
    | cons y m =>
      rcases List.mem_cons.1 ha with rfl | ha
      · exact ⟨y, by simp⟩
      · obtain ⟨b, hb⟩ := ih m (by simpa using h) ha
        exact ⟨b, by rw [List.zip_cons_cons]; exact List.mem_cons_of_mem _ hb⟩

theorem mem_groupCol_of_mem (c : Nat) (proj : List Nat) (rows : List Row) (r : Row) (hr : r ∈ rows) :
    r.getD c 0 ∈ groupCol c proj (key proj r) rows := by
  unfold groupCol
  apply List.mem_map.2
  exact ⟨r, List.mem_filter.2 ⟨hr, by simp⟩, rfl⟩

theorem StepOK.in_domain {sp : ColSpec} {o : List (List Nat)} {final : List Row}
    (h : StepOK sp o final) (r : Row) (hr : r ∈ final) : r.getD sp.col 0 < sp.size := by
  have hg : key sp.proj r ∈ groupKeys sp.proj final :=
    (mem_groupKeys _ _ _).2 (List.mem_map.2 ⟨r, hr, rfl⟩)
  obtain ⟨og, hm⟩ := exists_out_of_mem _ o h.1 _ hg
  obtain ⟨h1, h2, _, _⟩ := h.2 _ og hm
  apply h2
  rw [← h1]
  exact mem_groupCol_of_mem _ _ _ r hr

theorem synthTable_in_domain (ncols total : Nat) (specs : List ColSpec) (outs : List (List (List Nat)))
    (hwf : specsWF ncols [] specs = true)
    (hok : outsOK ncols total specs outs (List.replicate total (List.replicate ncols 0)) = true) :
    ∀ r ∈ synthTable ncols total specs outs, ∀ sp ∈ specs, r.getD sp.col 0 < sp.size := by
  intro r hr sp hsp
  obtain ⟨o, hm⟩ := exists_out_of_mem specs outs (outsOK_length _ _ _ _ _ hok) sp hsp
  exact (synthTable_stepOK ncols total specs outs hwf hok sp o hm).in_domain r hr

/-! ### group histograms -/

theorem hist_getD (size : Nat) (vals : List Nat) (v : Nat) (hv : v < size) :
    (hist size vals).getD v 0 = vals.count v := by
  simp [hist, List.getD_eq_getElem?_getD, hv]

theorem StepOK.cell {sp : ColSpec} {o : List (List Nat)} {final : List Row} (h : StepOK sp o final)
    (g og : List Nat) (hm : (g, og) ∈ List.zip (groupKeys sp.proj final) o) (v : Nat) :
    cellCount (sp.proj ++ [sp.col]) (g ++ [v]) final = og.count v ∧
    og.length = cellCount sp.proj g final := by
  obtain ⟨h1, _, _, _⟩ := h.2 g og hm
  rw [cellCount_snoc, ← groupCol_length sp.col, h1]
  exact ⟨rfl, rfl⟩

/-- nonnegative counts accepted for a nonempty group have positive mass -/
theorem countsOK_of_colOK (counts : List Rat) (n : Nat) (out : List Nat) (hn : 0 < n)
    (hnn : ∀ c ∈ counts, 0 ≤ c) (hok : colOK counts n out = true) : CountsOK counts := by
  refine ⟨hnn, ?_⟩
  rw [Aux.colOK_unpack] at hok
  obtain ⟨hlen, hsum, hcell⟩ := hok
  by_contra hpos
  have hs : sumQ counts = 0 := by
    have h0 : 0 ≤ sumQ counts := by
      rw [Aux.sumQ_eq_sum]; exact List.sum_nonneg hnn
    exact le_antisymm (not_lt.1 hpos) h0
  have hz : ∀ i, i < out.length → out.getD i 0 = 0 := by
    intro i hi
    rcases (hcell i (hlen ▸ hi)).2 with h | h
    · exfalso; apply h; rw [Aux.scaled_getD, hs]; simp
    · exact h
  have : out.sum = 0 := by
    apply List.sum_eq_zero
    intro x hx
    obtain ⟨i, hi, rfl⟩ := List.mem_iff_getElem.1 hx
    have := hz i hi
    rwa [List.getD_eq_getElem?_getD, List.getElem?_eq_getElem hi, Option.getD_some] at this
  rw [Aux.sumN_eq_sum, this] at hsum
  omega

end PGM.Synth.Table
