import PGM.Proofs.BPCorrect
import PGM.Proofs.QueryCorrect
import Mathlib.Algebra.Order.BigOperators.GroupWithZero.List
import Mathlib.Algebra.Order.BigOperators.Group.List
import PGM.Proofs.RealScalar
/-!
# Exact inference stays finite: every answer is a nonnegative number bounded by the total

* `joint_nonneg`, `marginal_nonneg`, `partition_nonneg`, `marginal_le_partition` — the
  specification side: with nonnegative potentials `0 ≤ marginal ≤ Z`
* `scaled_bounds` — hence `0 ≤ total · marginal / Z ≤ total`
* `entries_of_sem` — every stored cell of a well-formed factor is its `sem` at some assignment
* `bp_entries_bounded`, `project_entries_bounded`, `datavector_entries_bounded` — every cell of
  every table returned by `beliefPropagation`, `GMproject`, `datavector` lies in `[0, total]`

* `new_msg`, `AllMsg`, `final_allmsg`, `stored_msg` — every stored message of the BP loop is the
  true message, or `-∞` where the reverse message vanishes; `M_le`, `le_M`, `bp_message_le`,
  `bp_message_bounds` — bounds on every message cell
* namespace `Lse` (over `ℝ`): `lse_shift_bounds`, `lse_shift_eq`, `shifted_sum_bounds`, `lse_abs_le`,
  their `Scalar.lse` / `Scalar.maxL` forms, and `bp_message_magnitude`

Read in log space: the argument handed to the final `exp` is at most `log total`, whatever the
magnitude of the potentials.
-/
namespace PGM.Sem.Bd
open PGM PGM.JT PGM.GM PGM.Sem
variable {K : Type} [Field K] [LinearOrder K] [IsStrictOrderedRing K]
set_option linter.unusedSectionVars false

/-! ### the specification side -/

/-- a cell read (in range or not: the default is `log 1`) of a nonnegative table is nonnegative -/
theorem sem_nonneg (f : Factor (LogOf K)) (h : ∀ x ∈ f.vals.data.toList, 0 ≤ x.v) (τ : Attr → Nat) :
    0 ≤ (f.sem τ).v :=
  BP.getD_nonneg f.vals.data h _

theorem joint_nonneg (pots : CliqueVec (LogOf K))
    (hnn : ∀ p ∈ pots, ∀ x ∈ p.2.vals.data.toList, 0 ≤ x.v) (τ : Attr → Nat) :
    0 ≤ joint pots τ := by
  unfold joint
  apply List.prod_nonneg
  intro a ha
  obtain ⟨p, hp, rfl⟩ := List.mem_map.mp ha
  exact sem_nonneg p.2 (hnn p hp) τ

theorem sumOver_nonneg (d : Dom) (as : List Attr) (σ : Attr → Nat) (f : (Attr → Nat) → K)
    (h : ∀ τ, 0 ≤ f τ) : 0 ≤ sumOver d as σ f := by
  unfold sumOver
  apply List.sum_nonneg
  intro a ha
  obtain ⟨v, _, rfl⟩ := List.mem_map.mp ha
  exact h _

/-- one visited cell of a sum of nonnegative terms is at most the sum -/
theorem le_sumOver (d : Dom) (as : List Attr) (σ : Attr → Nat) (f : (Attr → Nat) → K)
    (h : ∀ τ, 0 ≤ f τ) (v : List Nat) (hv : v ∈ cells (as.map d.cfg)) :
    f (Dom.override σ as v) ≤ sumOver d as σ f := by
  unfold sumOver
  apply List.single_le_sum
  · intro a ha
    obtain ⟨w, _, rfl⟩ := List.mem_map.mp ha
    exact h _
  · exact List.mem_map.mpr ⟨v, hv, rfl⟩

/-- **marginals are nonnegative** (any attribute tuple, any assignment) -/
theorem marginal_nonneg (d : Dom) (pots : CliqueVec (LogOf K)) (as : List Attr) (σ : Attr → Nat)
    (hnn : ∀ p ∈ pots, ∀ x ∈ p.2.vals.data.toList, 0 ≤ x.v) :
    0 ≤ marginal d pots as σ :=
  sumOver_nonneg d _ σ _ (joint_nonneg pots hnn)

theorem partition_nonneg (d : Dom) (pots : CliqueVec (LogOf K))
    (hnn : ∀ p ∈ pots, ∀ x ∈ p.2.vals.data.toList, 0 ≤ x.v) :
    0 ≤ partition d pots :=
  sumOver_nonneg d _ _ _ (joint_nonneg pots hnn)

/-- overriding the attributes `as` by their own values changes nothing -/
theorem override_self (σ : Attr → Nat) (as : List Attr) : Dom.override σ as (as.map σ) = σ := by
  funext a
  by_cases ha : a ∈ as
  · rw [override_of_mem _ _ _ _ ha]
    exact getD_map_idxOf as σ 0 a ha
  · exact override_of_not_mem _ _ _ _ ha

/-- the joint only reads the attributes of the potentials -/
theorem dependsOn_joint (pots : CliqueVec (LogOf K)) (S : List Attr)
    (hsub : ∀ p ∈ pots, ∀ a ∈ p.2.dom.attrs, a ∈ S) : DependsOn (joint pots) S := by
  have := dependsOn_prod (fun x : LogOf K => x.v) (pots.map Prod.snd) S
    (fun f hf => by
      obtain ⟨p, hp, rfl⟩ := List.mem_map.mp hf
      exact hsub p hp)
  intro σ τ h
  have := this σ τ h
  simpa only [prod_snd_eq_joint] using this

/-- `d.invert` only looks at which domain attributes are listed -/
theorem invert_canonical (d : Dom) (as : List Attr) : d.invert (d.canonical as) = d.invert as := by
  unfold Dom.invert Dom.canonical
  apply List.filter_congr
  intro a ha
  by_cases h : a ∈ as <;> simp [h, ha]

/-- **a marginal is at most the partition function**: for nonnegative potentials over attributes of
the domain, any attribute tuple `as` (duplicates and foreign attributes allowed) and any valid
assignment -/
theorem marginal_le_partition (d : Dom) (pots : CliqueVec (LogOf K)) (as : List Attr) (σ : Attr → Nat)
    (hd : d.WF) (hsub : ∀ p ∈ pots, ∀ a ∈ p.2.dom.attrs, a ∈ d.attrs)
    (hnn : ∀ p ∈ pots, ∀ x ∈ p.2.vals.data.toList, 0 ≤ x.v) (hσ : d.Valid σ) :
    marginal d pots as σ ≤ partition d pots := by
  have hcn : (d.canonical as).Nodup := List.Nodup.sublist List.filter_sublist hd
  have hcs : ∀ a ∈ d.canonical as, a ∈ d.attrs := fun a ha => (List.mem_filter.mp ha).1
  have hm : marginal d pots as σ = marginal d pots (d.canonical as) σ := by
    unfold marginal; rw [invert_canonical]
  have hcell : (d.canonical as).map σ ∈ cells ((d.canonical as).map d.cfg) := by
    rw [mem_cells_iff]
    apply NdArr.inRange_map
    intro a ha
    exact (Dom.valid_iff d hd σ).mp hσ a (hcs a ha)
  have h1 := le_sumOver d (d.canonical as) σ (marginal d pots (d.canonical as))
    (fun τ => marginal_nonneg d pots _ τ hnn) _ hcell
  rw [override_self, sumOver_marginal d pots _ σ hd hcn hcs] at h1
  rw [hm]
  refine le_of_le_of_eq h1 ?_
  unfold partition
  exact sumOver_base_congr_of_dependsOn d d.attrs d.attrs σ _ _
    (dependsOn_joint pots d.attrs hsub) (fun a ha hna => absurd ha hna)

/-- the rescaled value `total · m / Z` lies in `[0, total]` -/
theorem scaled_bounds (t m Z : K) (ht : 0 ≤ t) (hm : 0 ≤ m) (hmZ : m ≤ Z) (hZ : Z ≠ 0) :
    0 ≤ t * m / Z ∧ t * m / Z ≤ t := by
  have hZ0 : 0 ≤ Z := le_trans hm hmZ
  have hZpos : 0 < Z := lt_of_le_of_ne hZ0 (Ne.symm hZ)
  refine ⟨div_nonneg (mul_nonneg ht hm) hZ0, ?_⟩
  rw [div_le_iff₀ hZpos]
  exact mul_le_mul_of_nonneg_left hmZ ht

/-! ### from `sem` to the stored cells -/

/-- every stored cell of a well-formed factor is its `sem` at the assignment of some in-range cell -/
theorem entries_of_sem {α : Type} [Scalar α] (f : Factor α) (hf : f.WF) (P : α → Prop)
    (h : ∀ idx, InRange f.dom.shape idx → P (f.sem (Dom.assign f.dom.attrs idx))) :
    ∀ x ∈ f.vals.data.toList, P x := by
  intro x hx
  rw [data_toList_eq _ hf.2.2] at hx
  obtain ⟨idx, hidx, rfl⟩ := List.mem_map.mp hx
  rw [hf.2.1] at hidx
  have hin := mem_cells_inRange _ _ hidx
  have := h idx hin
  unfold Factor.sem at this
  rwa [map_assign_self f.dom hf.1 idx hin] at this

/-- every stored cell sits at the flat offset of some in-range cell -/
theorem mem_data_ravel {α : Type} [Scalar α] (f : Factor α) (hf : f.WF) (y : α)
    (hy : y ∈ f.vals.data.toList) :
    ∃ idx, InRange f.dom.shape idx ∧ f.vals.data.toList[ravel f.dom.shape idx]? = some y := by
  revert y
  apply entries_of_sem f hf
  intro idx hidx
  exact ⟨idx, hidx, data_getElem_ravel f hf idx hidx⟩

theorem size_eq_zero_of_mem (s : List Nat) (h : 0 ∈ s) : size s = 0 := by
  induction s with
  | nil => simp at h
  | cons n ns ih =>
    rcases List.mem_cons.mp h with h | h
    · subst h; simp [size]
    · simp [size, ih h]

theorem cells_eq_nil_of_mem (s : List Nat) (h : 0 ∈ s) : cells s = [] :=
  List.eq_nil_of_length_eq_zero (by rw [length_cells, size_eq_zero_of_mem s h])

/-- a nonzero partition function forces every attribute to have at least one value -/
theorem sizes_pos_of_partition_ne_zero (d : Dom) (pots : CliqueVec (LogOf K)) (hd : d.WF)
    (hZ : partition d pots ≠ 0) : ∀ p ∈ d, 0 < p.2 := by
  intro p hp
  by_contra h0
  have hp0 : p.2 = 0 := by omega
  apply hZ
  have hmem : 0 ∈ d.attrs.map d.cfg := by
    refine List.mem_map.mpr ⟨p.1, List.mem_map_of_mem hp, ?_⟩
    rw [Dom.cfg_of_mem d hd p hp, hp0]
  unfold partition sumOver
  rw [cells_eq_nil_of_mem _ hmem]
  rfl

/-- the assignment of an in-range cell of a sub-domain (zero elsewhere) is valid for the domain -/
theorem valid_assign_sub (d : Dom) (hd : d.WF) (hpos : ∀ p ∈ d, 0 < p.2) (g : Dom) (hg : g.WF)
    (hag : g.Agrees d) (idx : List Nat) (hidx : InRange g.shape idx) :
    d.Valid (Dom.assign g.attrs idx) := by
  rw [assign_eq_override]
  apply valid_override d hd _ _ _ (fun p hp => hpos p hp)
  rw [mem_cells_iff]
  have : g.attrs.map d.cfg = g.shape := by
    rw [Dom.shape_eq_map_cfg g hg]
    apply List.map_congr_left
    intro a ha
    exact (Dom.agrees_iff g d hg).mp hag a ha
  rw [this]
  exact hidx

/-- a bound on `sem` at every valid assignment is a bound on every stored cell -/
theorem entries_bounded_of_sem (d : Dom) (hd : d.WF) (hpos : ∀ p ∈ d, 0 < p.2)
    (f : Factor (LogOf K)) (hf : f.WF) (hag : f.dom.Agrees d) (lo hi : K)
    (h : ∀ σ, d.Valid σ → lo ≤ (f.sem σ).v ∧ (f.sem σ).v ≤ hi) :
    ∀ x ∈ f.vals.data.toList, lo ≤ x.v ∧ x.v ≤ hi :=
  entries_of_sem f hf (fun x => lo ≤ x.v ∧ x.v ≤ hi)
    (fun idx hidx => h _ (valid_assign_sub d hd hpos f.dom hf.1 hag idx hidx))

/-! ### `belief_propagation` -/

theorem modelOK_attrs_sub (d : Dom) (cliques : List Clique) (t : Tree) (order : List (Clique × Clique))
    (pots : CliqueVec (LogOf K)) (hok : ModelOK d cliques t order pots) :
    ∀ p ∈ pots, ∀ a ∈ p.2.dom.attrs, a ∈ d.attrs := by
  intro p hp a ha
  have hp1 : p.1 ∈ cliques := by rw [← hok.keys]; exact List.mem_map_of_mem hp
  exact (hok.clique_ok p.1 hp1).2 a ((hok.pot_ok p hp).2.1.mem_iff.mp ha)

/-- the returned table for a clique: shape data -/
theorem bp_table_ok (d : Dom) (cliques : List Clique) (t : Tree) (order : List (Clique × Clique))
    (pots : CliqueVec (LogOf K)) (hok : ModelOK d cliques t order pots) (total : LogOf K)
    (c : Clique) (hc : c ∈ cliques) :
    (beliefPropagation cliques order pots total).get c
      = (((bpLoop order pots).1.get c).iaddScalar
          (Scalar.sub (Scalar.log total) (logZ cliques order pots))).exp ∧
    ((beliefPropagation cliques order pots total).get c).WF ∧
    ((beliefPropagation cliques order pots total).get c).dom.Agrees d := by
  have mk := BP.mok_of_modelOK d cliques t order pots hok
  have hcn : c ∈ t.nodes := by rw [hok.nodes]; exact hc
  obtain ⟨hbw, hbd, _⟩ := BP.final_belief mk c hcn
  obtain ⟨_, _, hpa⟩ := mk.pot c hcn
  have hget : (beliefPropagation cliques order pots total).get c
      = (((bpLoop order pots).1.get c).iaddScalar
          (Scalar.sub (Scalar.log total) (logZ cliques order pots))).exp := by
    unfold beliefPropagation CliqueVec.get
    dsimp only
    rw [BP.lookup_map_self cliques _ c hc]
    rfl
  refine ⟨hget, ?_, ?_⟩
  · rw [hget]
    apply mapVals_WF Scalar.exp
    exact ⟨hbw.1, hbw.2.1, NdArr.map_WF _ _ hbw.2.2⟩
  · rw [hget]
    show ((bpLoop order pots).1.get c).dom.Agrees d
    rw [hbd]; exact hpa

/-- **every cell of every table returned by `belief_propagation` lies in `[0, total]`** -/
theorem bp_entries_bounded (d : Dom) (cliques : List Clique) (t : Tree) (order : List (Clique × Clique))
    (pots : CliqueVec (LogOf K)) (hok : ModelOK d cliques t order pots) (total : LogOf K)
    (htot : 0 ≤ total.v) (hZ : partition d pots ≠ 0) (c : Clique) (hc : c ∈ cliques) :
    ∀ x ∈ ((beliefPropagation cliques order pots total).get c).vals.data.toList,
      0 ≤ x.v ∧ x.v ≤ total.v := by
  obtain ⟨_, hw, hag⟩ := bp_table_ok d cliques t order pots hok total c hc
  apply entries_bounded_of_sem d hok.dom_wf
    (sizes_pos_of_partition_ne_zero d pots hok.dom_wf hZ) _ hw hag
  intro σ hσ
  rw [(BP.bp_marginals d cliques t order pots hok total hZ c hc σ hσ).2]
  exact scaled_bounds _ _ _ htot (marginal_nonneg d pots c σ hok.nonneg)
    (marginal_le_partition d pots c σ hok.dom_wf
      (modelOK_attrs_sub d cliques t order pots hok) hok.nonneg hσ) hZ

/-- the same through `toPlain` (the plain-space reading of the exponentiated table) -/
theorem bp_entries_bounded_plain (d : Dom) (cliques : List Clique) (t : Tree)
    (order : List (Clique × Clique)) (pots : CliqueVec (LogOf K))
    (hok : ModelOK d cliques t order pots) (total : LogOf K)
    (htot : 0 ≤ total.v) (hZ : partition d pots ≠ 0) (c : Clique) (hc : c ∈ cliques) :
    ∀ x ∈ (toPlain ((beliefPropagation cliques order pots total).get c)).vals.data.toList,
      0 ≤ x.v ∧ x.v ≤ total.v := by
  intro x hx
  have hx' : x ∈ ((beliefPropagation cliques order pots total).get c).vals.data.toList.map
      (fun y => (⟨y.v⟩ : PlainOf K)) := by
    simpa [toPlain] using hx
  obtain ⟨y, hy, rfl⟩ := List.mem_map.mp hx'
  exact bp_entries_bounded d cliques t order pots hok total htot hZ c hc y hy

/-- **no overflow in the final `exp`**: every argument handed to `exp` by `belief_propagation`
(`belief + log total − logZ`, a log-space value `y` standing for `log y.v`) is at most `log total`,
i.e. `y.v ≤ total.v` — however large the potentials are -/
theorem bp_exp_args_bounded (d : Dom) (cliques : List Clique) (t : Tree)
    (order : List (Clique × Clique)) (pots : CliqueVec (LogOf K))
    (hok : ModelOK d cliques t order pots) (total : LogOf K)
    (htot : 0 ≤ total.v) (hZ : partition d pots ≠ 0) (c : Clique) (hc : c ∈ cliques) :
    ∀ y ∈ (((bpLoop order pots).1.get c).iaddScalar
        (Scalar.sub (Scalar.log total) (logZ cliques order pots))).vals.data.toList,
      0 ≤ y.v ∧ y.v ≤ total.v := by
  intro y hy
  apply bp_entries_bounded d cliques t order pots hok total htot hZ c hc y
  rw [(bp_table_ok d cliques t order pots hok total c hc).1]
  show y ∈ (Array.map Scalar.exp _).toList
  rw [Array.toList_map]
  exact List.mem_map.mpr ⟨y, hy, rfl⟩

/-! ### `project` -/

/-- the table returned by `GMproject` is a well-formed factor inside the domain -/
theorem project_ok (d : Dom) (pots : CliqueVec (LogOf K)) (total : LogOf K) (attrs : List Attr)
    (hd : d.WF) (hfs : FactorsOK d (pots.map Prod.snd))
    (hne : pots ≠ []) (hcover : ∀ a ∈ d.attrs, ∃ p ∈ pots, a ∈ p.2.dom.attrs)
    (hnd : attrs.Nodup) (hsub : ∀ a ∈ attrs, a ∈ d.attrs) :
    FactorOK d (GMproject d pots total attrs) := by
  have hcover' : ∀ a ∈ d.attrs, ∃ f ∈ pots.map Prod.snd, a ∈ f.dom.attrs := by
    intro a ha
    obtain ⟨p, hp, hap⟩ := hcover a ha
    exact ⟨p.2, List.mem_map_of_mem hp, hap⟩
  have hpre : preVE (pots.map Prod.snd) (d.invert attrs) = true := by
    rw [preVE_iff]
    refine ⟨fun z hz => hcover' z ((mem_invert d attrs z).mp hz).1, ?_⟩
    intro h
    exact hne (List.map_eq_nil_iff.mp h)
  obtain ⟨hR, hRattrs, _⟩ := veLogspace_spec d (pots.map Prod.snd) (d.invert attrs) total hd hfs
    hpre (invert_nodup d hd attrs) (fun a ha => ((mem_invert d attrs a).mp ha).1) hcover'
  have hmem : ∀ a ∈ attrs, a ∈ (veLogspace (pots.map Prod.snd) (d.invert attrs) total).dom.attrs := by
    intro a h
    rw [hRattrs a, mem_invert]
    exact ⟨fun h' => h'.2 h, hsub a h⟩
  exact FactorOK.project Scalar.sum attrs hR hnd hmem

/-- **every cell of the table returned by `project` lies in `[0, total]`** (hypotheses of
`project_correct`, nonnegative potentials, nonnegative total) -/
theorem project_entries_bounded (d : Dom) (pots : CliqueVec (LogOf K)) (total : LogOf K)
    (attrs : List Attr) (hd : d.WF) (hfs : FactorsOK d (pots.map Prod.snd))
    (hne : pots ≠ []) (hcover : ∀ a ∈ d.attrs, ∃ p ∈ pots, a ∈ p.2.dom.attrs)
    (hnd : attrs.Nodup) (hsub : ∀ a ∈ attrs, a ∈ d.attrs)
    (hnn : ∀ p ∈ pots, ∀ x ∈ p.2.vals.data.toList, 0 ≤ x.v)
    (htot : 0 ≤ total.v) (hZ : partition d pots ≠ 0) :
    ∀ x ∈ (GMproject d pots total attrs).vals.data.toList, 0 ≤ x.v ∧ x.v ≤ total.v := by
  have hok := project_ok d pots total attrs hd hfs hne hcover hnd hsub
  apply entries_bounded_of_sem d hd (sizes_pos_of_partition_ne_zero d pots hd hZ) _ hok.1 hok.2.1
  intro σ hσ
  rw [(project_correct d pots total attrs σ hd hfs hne hcover hnd hsub hσ hZ).2]
  exact scaled_bounds _ _ _ htot (marginal_nonneg d pots attrs σ hnn)
    (marginal_le_partition d pots attrs σ hd
      (fun p hp => (hfs p.2 (List.mem_map_of_mem hp)).2.2) hnn hσ) hZ

/-! ### `datavector` -/

/-- the marginal onto all attributes is the joint itself -/
theorem marginal_full (d : Dom) (pots : CliqueVec (LogOf K)) (τ : Attr → Nat) :
    marginal d pots d.attrs τ = joint pots τ := by
  have : d.invert d.attrs = [] := by
    unfold Dom.invert
    rw [List.filter_eq_nil_iff]
    intro a ha
    simp [ha]
  unfold marginal
  rw [this, sumOver_nil]

/-- the materialised log-space table is well-formed over the whole domain -/
theorem datavectorCore_ok (d : Dom) (cliques : List Clique) (pots : CliqueVec (LogOf K))
    (hd : d.WF) (hfs : FactorsOK d (pots.map Prod.snd))
    (hget : cliques.map pots.get = pots.map Prod.snd) (hne : pots ≠ []) :
    (datavectorCore d cliques pots).WF ∧ (datavectorCore d cliques pots).dom = d := by
  unfold datavectorCore
  rw [hget]
  cases hp : pots.map Prod.snd with
  | nil => exact absurd (List.map_eq_nil_iff.mp hp) hne
  | cons p ps =>
    simp only []
    have hpOK : FactorOK d p := hfs p (by rw [hp]; simp)
    have hpsOK : ∀ f ∈ ps, FactorOK d f := fun f hf => hfs f (by rw [hp]; simp [hf])
    have hlogp : FactorOK d (ps.foldl (Factor.binop Scalar.add) p) :=
      foldl_binop_ok Scalar.add ps p hpOK hpsOK
    show (((((ps.foldl (Factor.binop Scalar.add) p).subScalar
      (ps.foldl (Factor.binop Scalar.add) p).logsumexpAll).exp).expand d)).WF ∧ _
    generalize ps.foldl (Factor.binop Scalar.add) p = logp at hlogp
    have h1 : FactorOK d (logp.subScalar logp.logsumexpAll) :=
      FactorOK.mapVals (fun v => Scalar.sub v logp.logsumexpAll) hlogp
    have h2 : FactorOK d (logp.subScalar logp.logsumexpAll).exp := FactorOK.mapVals Scalar.exp h1
    have hc : d.contains (logp.subScalar logp.logsumexpAll).exp.dom = true :=
      (Dom.contains_iff d _).mpr h2.2.2
    exact ⟨Factor.expand_WF _ d h2.1 hd hc h2.2.1, rfl⟩

/-- **every entry of the materialised data vector lies in `[0, total]`** (hypotheses of
`datavector_correct`, nonnegative potentials, nonnegative total; weight 1) -/
theorem datavector_entries_bounded (d : Dom) (cliques : List Clique) (pots : CliqueVec (LogOf K))
    (total : LogOf K) (hd : d.WF) (hfs : FactorsOK d (pots.map Prod.snd))
    (hkeys : pots.map Prod.fst = cliques) (hnd : cliques.Nodup)
    (hne : cliques ≠ []) (hcover : ∀ a ∈ d.attrs, ∃ p ∈ pots, a ∈ p.2.dom.attrs)
    (hsizes : ∀ p ∈ d, 0 < p.2)
    (hnn : ∀ p ∈ pots, ∀ x ∈ p.2.vals.data.toList, 0 ≤ x.v)
    (htot : 0 ≤ total.v) (hZ : partition d pots ≠ 0) :
    ∀ x ∈ datavectorScale ((datavectorCore d cliques pots).vals.data.toList.map
        (fun x => (⟨x.v⟩ : PlainOf K))) ⟨1⟩ ⟨total.v⟩,
      0 ≤ x.v ∧ x.v ≤ total.v := by
  intro x hx
  have hpne : pots ≠ [] := by
    intro h; apply hne; rw [← hkeys, h]; rfl
  have hget : cliques.map pots.get = pots.map Prod.snd := by
    rw [← hkeys]; exact map_get_eq_of_nodup pots (by rw [hkeys]; exact hnd)
  obtain ⟨hw, hdom⟩ := datavectorCore_ok d cliques pots hd hfs hget hpne
  unfold datavectorScale at hx
  rw [List.map_map] at hx
  obtain ⟨y, hy, rfl⟩ := List.mem_map.mp hx
  obtain ⟨idx, hidx, hat⟩ := mem_data_ravel _ hw y hy
  rw [hdom] at hidx hat
  have hcor := datavector_correct d cliques pots total hd hfs hkeys hnd hne hcover hsizes hZ idx hidx
  unfold datavectorScale at hcor
  rw [List.map_map, List.getElem?_map, hat, Option.map_some, Option.some.injEq] at hcor
  rw [hcor]
  have hσ := valid_assign d hd idx hidx
  have hj : joint pots (Dom.assign d.attrs idx) / partition d pots * 1 * total.v
      = total.v * joint pots (Dom.assign d.attrs idx) / partition d pots := by ring
  show 0 ≤ joint pots (Dom.assign d.attrs idx) / partition d pots * 1 * total.v ∧
    joint pots (Dom.assign d.attrs idx) / partition d pots * 1 * total.v ≤ total.v
  rw [hj]
  refine scaled_bounds _ _ _ htot (joint_nonneg pots hnn _) ?_ hZ
  rw [← marginal_full d pots]
  exact marginal_le_partition d pots d.attrs _ hd
    (fun p hp => (hfs p.2 (List.mem_map_of_mem hp)).2.2) hnn hσ

end PGM.Sem.Bd

/-! ### the stored messages of `belief_propagation`

The refinement invariant of `BPRefine.lean` characterises a stored message only while the reverse
message has not been sent.  Here every stored message is characterised for good: it is the true
(Shafer–Shenoy) message `M a b`, except on the cells where the reverse message vanishes, where
`__sub__`'s `-∞` rule leaves `-∞` (exp-space 0). -/
namespace PGM.Sem.Bd
open PGM PGM.JT PGM.GM PGM.Sem PGM.Sem.BP
variable {K : Type} [Field K] [LinearOrder K] [IsStrictOrderedRing K]
set_option linter.unusedSectionVars false
set_option linter.unusedVariables false

/-- the message computed by one loop step -/
theorem new_msg {d : Dom} {t : Tree} {order : List (Clique × Clique)}
    {pots : CliqueVec (LogOf K)} (mk : MOK d t order pots)
    {pre rest : List (Clique × Clique)} {i j : Clique} (hsplit : order = pre ++ (i, j) :: rest)
    {st : CliqueVec (LogOf K) × Msgs (LogOf K)} (inv : Inv d t pots pre st) :
    ∃ msg, (bpStep st (i, j)).2 = st.2 ++ [((i, j), msg)] ∧ MsgOK d i j msg ∧
      ∀ τ, msg.dom.Valid τ → (msg.sem τ).v = M d t (psi pots) i j τ ∨
        ((msg.sem τ).v = 0 ∧ M d t (psi pots) j i τ = 0) := by
  obtain ⟨hpre_nd, hij_pre, hadj, hpre_sub⟩ := split_facts mk.so hsplit
  have hi := (mk.cx.tree.ends i j hadj).1
  obtain ⟨hbiw, hbid, hbis⟩ := inv.bel i hi
  obtain ⟨hpiw, hpip, hpia⟩ := mk.pot i hi
  have hX := removed_nodup (pots.get i).dom hpiw.1 ((pots.get i).dom.invert (JT.inter i j))
  have hXm := mem_X (pots.get i).dom i j hpip
  have hstep : (bpStep st (i, j)).2 =
       st.2 ++ [((i, j), (tauOf (st.1.get i) (st.2.lookup (j, i))).logsumexp
          ((pots.get i).dom.invert (JT.inter i j)))] := by
    unfold bpStep
    dsimp only
    rw [hbid]
  refine ⟨_, hstep, ?_⟩
  by_cases hji : (j, i) ∈ pre
  · obtain ⟨m, hm, hmo, hms⟩ := inv.msg j i hji hij_pre
    rw [hm]
    have htau : tauOf (st.1.get i) (some m) = (st.1.get i).sub m := rfl
    rw [htau]
    have hsubm : ∀ x ∈ m.dom.attrs, x ∈ i := fun x hx => (hmo.2.1 x hx).2
    have hcont : (st.1.get i).dom.contains m.dom = true := by
      rw [Dom.contains_iff, hbid]
      intro a ha
      exact hpip.mem_iff.mpr (hsubm a ha)
    have hcompat : (st.1.get i).dom.Compatible m.dom := by
      rw [hbid]; exact compatible_of_agrees_both hpiw.1 hmo.1.1 hpia hmo.2.2
    have hw := sub_WF _ _ hbiw hmo.1 hcompat
    have hd : ((st.1.get i).sub m).dom = (pots.get i).dom := by rw [sub_dom _ _ hcont, hbid]
    have hT : ∀ τ', (pots.get i).dom.Valid τ' → (((st.1.get i).sub m).sem τ').v
        = (psi pots i τ' * ((Pin pre i).map (fun k => M d t (psi pots) k i τ')).prod)
          * nia (M d t (psi pots) j i τ') := by
      intro τ' hτ'
      have hv : ((st.1.get i).dom.merge m.dom).Valid τ' := by
        rw [Dom.merge_eq_self_of_contains _ _ hcont, hbid]; exact hτ'
      rw [sub_sem_v _ _ τ' hbiw hmo.1 hcompat hv, hbis τ' hτ',
        hms τ' (valid_msg_of_valid hpiw.1 hpip hpia m hmo hsubm τ' hτ')]
    obtain ⟨hmsgok, hmsgsem⟩ := msg_of_tau (i := i) (j := j) (pots.get i).dom hpiw.1 hpip hpia _ _ hw hd hT
    refine ⟨hmsgok, ?_⟩
    intro τ hτ
    rw [hmsgsem τ hτ, caseB mk hsplit hji _ hX hXm τ]
    by_cases h0 : M d t (psi pots) j i τ = 0
    · right; rw [if_pos h0, mul_zero]; exact ⟨rfl, h0⟩
    · left; rw [if_neg h0, mul_one]
  · have hnone : st.2.lookup (j, i) = none :=
      lookup_none_of_not_mem _ _ (by rw [inv.mkeys]; exact hji)
    rw [hnone]
    have htau : tauOf (st.1.get i) none = st.1.get i := rfl
    rw [htau]
    obtain ⟨hmsgok, hmsgsem⟩ := msg_of_tau (i := i) (j := j) (pots.get i).dom hpiw.1 hpip hpia
      (st.1.get i) _ hbiw hbid hbis
    refine ⟨hmsgok, ?_⟩
    intro τ hτ
    left
    rw [hmsgsem τ hτ, caseA mk hsplit hji _ hX hXm τ]

/-- every message sent so far is stored, is a table over the separator, and is the true message
or (where the reverse message vanishes) `-∞` -/
def AllMsg (d : Dom) (t : Tree) (pots : CliqueVec (LogOf K)) (pre : List (Clique × Clique))
    (msgs : Msgs (LogOf K)) : Prop :=
  ∀ a b, (a, b) ∈ pre → ∃ m, msgs.lookup (a, b) = some m ∧ MsgOK d a b m ∧
    ∀ τ, m.dom.Valid τ → (m.sem τ).v = M d t (psi pots) a b τ ∨
      ((m.sem τ).v = 0 ∧ M d t (psi pots) b a τ = 0)

theorem step_allmsg {d : Dom} {t : Tree} {order : List (Clique × Clique)}
    {pots : CliqueVec (LogOf K)} (mk : MOK d t order pots)
    {pre rest : List (Clique × Clique)} {i j : Clique} (hsplit : order = pre ++ (i, j) :: rest)
    {st : CliqueVec (LogOf K) × Msgs (LogOf K)} (inv : Inv d t pots pre st)
    (all : AllMsg d t pots pre st.2) :
    AllMsg d t pots (pre ++ [(i, j)]) (bpStep st (i, j)).2 := by
  obtain ⟨_, hij_pre, _, _⟩ := split_facts mk.so hsplit
  obtain ⟨msg, hstep, hmsgok, hmsgsem⟩ := new_msg mk hsplit inv
  intro a b hab
  rw [hstep, List.lookup_append]
  rcases List.mem_append.mp hab with hab | hab
  · obtain ⟨m, hm, hmo, hms⟩ := all a b hab
    exact ⟨m, by rw [hm]; rfl, hmo, hms⟩
  · have hab' : (a, b) = (i, j) := by simpa using hab
    have ha : a = i := congrArg Prod.fst hab'
    have hb : b = j := congrArg Prod.snd hab'
    subst ha; subst hb
    have hnone : st.2.lookup (a, b) = none :=
      lookup_none_of_not_mem _ _ (by rw [inv.mkeys]; exact hij_pre)
    refine ⟨msg, ?_, hmsgok, hmsgsem⟩
    rw [hnone]
    simp

theorem loop_allmsg {d : Dom} {t : Tree} {order : List (Clique × Clique)}
    {pots : CliqueVec (LogOf K)} (mk : MOK d t order pots) :
    ∀ (rest pre : List (Clique × Clique)) (st : CliqueVec (LogOf K) × Msgs (LogOf K)),
      order = pre ++ rest → Inv d t pots pre st → AllMsg d t pots pre st.2 →
      AllMsg d t pots order (rest.foldl bpStep st).2 := by
  intro rest
  induction rest with
  | nil =>
    intro pre st h _ all
    rw [List.append_nil] at h
    rw [h]; exact all
  | cons e rest ih =>
    intro pre st h inv all
    obtain ⟨i, j⟩ := e
    rw [List.foldl_cons]
    apply ih (pre ++ [(i, j)])
    · rw [h]; simp
    · exact step_inv mk h inv
    · exact step_allmsg mk h inv all

theorem final_allmsg {d : Dom} {t : Tree} {order : List (Clique × Clique)}
    {pots : CliqueVec (LogOf K)} (mk : MOK d t order pots) :
    AllMsg d t pots order (bpLoop order pots).2 := by
  rw [bpLoop_eq]
  exact loop_allmsg mk order [] (pots, []) rfl (init_inv mk) (by intro a b h; simp at h)

/-! ### bounds on the true messages -/

section prodlemmas
variable {R : Type} [CommSemiring R] [LinearOrder R] [IsStrictOrderedRing R]

theorem prod_map_le_prod_map {β : Type} (L : List β) (f g : β → R) (h0 : ∀ c ∈ L, 0 ≤ f c)
    (h : ∀ c ∈ L, f c ≤ g c) : (L.map f).prod ≤ (L.map g).prod := by
  induction L with
  | nil => simp
  | cons c cs ih =>
    rw [List.map_cons, List.map_cons, List.prod_cons, List.prod_cons]
    apply mul_le_mul (h c (by simp)) (ih (fun x hx => h0 x (by simp [hx])) (fun x hx => h x (by simp [hx])))
    · apply List.prod_nonneg
      intro a ha
      obtain ⟨x, hx, rfl⟩ := List.mem_map.mp ha
      exact h0 x (by simp [hx])
    · exact le_trans (h0 c (by simp)) (h c (by simp))

theorem one_le_prod_map {β : Type} (L : List β) (g : β → R) (h1 : ∀ c ∈ L, 1 ≤ g c) :
    1 ≤ (L.map g).prod := by
  induction L with
  | nil => simp
  | cons c cs ih =>
    rw [List.map_cons, List.prod_cons]
    exact one_le_mul_of_one_le_of_one_le (h1 c (by simp)) (ih (fun x hx => h1 x (by simp [hx])))

/-- dropping factors `≥ 1` can only decrease a product -/
theorem prod_filter_le {β : Type} (L : List β) (p : β → Bool) (g : β → R) (h1 : ∀ c ∈ L, 1 ≤ g c) :
    ((L.filter p).map g).prod ≤ (L.map g).prod := by
  induction L with
  | nil => simp
  | cons c cs ih =>
    have ih' := ih (fun x hx => h1 x (by simp [hx]))
    have hc := h1 c (by simp)
    have hc0 : (0 : R) ≤ g c := le_trans zero_le_one hc
    have htail : (0 : R) ≤ (cs.map g).prod :=
      le_trans zero_le_one (one_le_prod_map cs g (fun x hx => h1 x (by simp [hx])))
    rw [List.filter_cons]
    split
    · rw [List.map_cons, List.map_cons, List.prod_cons, List.prod_cons]
      exact mul_le_mul_of_nonneg_left ih' hc0
    · rw [List.map_cons, List.prod_cons]
      calc ((cs.filter p).map g).prod ≤ (cs.map g).prod := ih'
        _ = 1 * (cs.map g).prod := (one_mul _).symm
        _ ≤ g c * (cs.map g).prod := mul_le_mul_of_nonneg_right hc htail

/-- dropping factors in `(0, 1]` can only increase a product -/
theorem prod_le_prod_filter {β : Type} (L : List β) (p : β → Bool) (g : β → R)
    (h0 : ∀ c ∈ L, 0 ≤ g c) (h1 : ∀ c ∈ L, g c ≤ 1) :
    (L.map g).prod ≤ ((L.filter p).map g).prod := by
  induction L with
  | nil => simp
  | cons c cs ih =>
    have ih' := ih (fun x hx => h0 x (by simp [hx])) (fun x hx => h1 x (by simp [hx]))
    have hfil : (0 : R) ≤ ((cs.filter p).map g).prod := by
      apply List.prod_nonneg
      intro a ha
      obtain ⟨x, hx, rfl⟩ := List.mem_map.mp ha
      exact h0 x (by simp [(List.mem_filter.mp hx).1])
    rw [List.filter_cons]
    split
    · rw [List.map_cons, List.map_cons, List.prod_cons, List.prod_cons]
      exact mul_le_mul_of_nonneg_left ih' (h0 c (by simp))
    · rw [List.map_cons, List.prod_cons]
      calc g c * (cs.map g).prod ≤ g c * ((cs.filter p).map g).prod :=
            mul_le_mul_of_nonneg_left ih' (h0 c (by simp))
        _ ≤ 1 * ((cs.filter p).map g).prod := mul_le_mul_of_nonneg_right (h1 c (by simp)) hfil
        _ = ((cs.filter p).map g).prod := one_mul _
end prodlemmas

theorem size_eq_prod (s : List Nat) : size s = s.prod := by
  induction s with
  | nil => rfl
  | cons n ns ih => simp [size, ih]

/-- an iterated sum of terms `≤ C` is at most (number of cells) `· C` -/
theorem nsum_le (d : Dom) (as : List Attr) (σ : Attr → Nat) (f : (Attr → Nat) → K) (C : K)
    (hf : ∀ τ, f τ ≤ C) : nsum d as σ f ≤ (((as.map d.cfg).prod : Nat) : K) * C := by
  induction as generalizing σ with
  | nil => simpa [nsum_nil] using hf σ
  | cons a as ih =>
    rw [nsum_cons, List.map_cons, List.prod_cons, Nat.cast_mul, mul_assoc]
    calc ∑ x ∈ Finset.range (d.cfg a), nsum d as (Function.update σ a x) f
        ≤ ∑ _x ∈ Finset.range (d.cfg a), (((as.map d.cfg).prod : Nat) : K) * C :=
          Finset.sum_le_sum (fun x _ => ih _)
      _ = (d.cfg a : K) * ((((as.map d.cfg).prod : Nat) : K) * C) := by
          rw [Finset.sum_const, Finset.card_range, nsmul_eq_mul]

/-- an iterated sum of terms `≥ lo ≥ 0` over nonempty ranges is at least `lo` -/
theorem le_nsum (d : Dom) (as : List Attr) (σ : Attr → Nat) (f : (Attr → Nat) → K) (lo : K)
    (hlo : 0 ≤ lo) (hf : ∀ τ, lo ≤ f τ) (hsz : ∀ a ∈ as, 0 < d.cfg a) : lo ≤ nsum d as σ f := by
  induction as generalizing σ with
  | nil => exact hf σ
  | cons a as ih =>
    rw [nsum_cons]
    have hih : ∀ x, lo ≤ nsum d as (Function.update σ a x) f :=
      fun x => ih _ (fun b hb => hsz b (by simp [hb]))
    calc lo ≤ nsum d as (Function.update σ a 0) f := hih 0
      _ ≤ ∑ x ∈ Finset.range (d.cfg a), nsum d as (Function.update σ a x) f :=
        Finset.single_le_sum (f := fun x => nsum d as (Function.update σ a x) f)
          (fun x _ => le_trans hlo (hih x)) (Finset.mem_range.mpr (hsz a (by simp)))

/-- a cell read (in range or not) of a table with entries `≤ hi` is `≤ max 1 hi` -/
theorem sem_le_max (f : Factor (LogOf K)) (hi : K) (h : ∀ x ∈ f.vals.data.toList, x.v ≤ hi)
    (τ : Attr → Nat) : (f.sem τ).v ≤ max 1 hi := by
  show (f.vals.data.getD _ default).v ≤ _
  rw [Array.getD_eq_getD_getElem?]
  cases hx : f.vals.data[ravel f.vals.shape (f.dom.attrs.map τ)]? with
  | none => exact le_max_left _ _
  | some x =>
    exact le_trans (h x (Array.mem_toList_iff.mpr (Array.mem_of_getElem? hx))) (le_max_right _ _)

theorem min_le_sem (f : Factor (LogOf K)) (lo : K) (h : ∀ x ∈ f.vals.data.toList, lo ≤ x.v)
    (τ : Attr → Nat) : min 1 lo ≤ (f.sem τ).v := by
  show _ ≤ (f.vals.data.getD _ default).v
  rw [Array.getD_eq_getD_getElem?]
  cases hx : f.vals.data[ravel f.vals.shape (f.dom.attrs.map τ)]? with
  | none => exact min_le_left _ _
  | some x =>
    exact le_trans (min_le_right _ _) (h x (Array.mem_toList_iff.mpr (Array.mem_of_getElem? hx)))

section Mbounds
variable {d : Dom} {t : Tree} {order : List (Clique × Clique)} {pots : CliqueVec (LogOf K)}
  (mk : MOK d t order pots)
include mk

/-- the table stored for a node is one of the listed potentials -/
theorem get_mem_pots (c : Clique) (hc : c ∈ t.nodes) : (c, pots.get c) ∈ pots := by
  obtain ⟨f, hf, hmem⟩ := lookup_isSome_of_mem pots c (by rw [mk.keys]; exact hc)
  rw [get_of_lookup pots c f hf]; exact hmem

theorem msgAttrs_prod_le (hpos : ∀ p ∈ d, 0 < p.2) (a b : Clique) :
    ((msgAttrs d t a b).map d.cfg).prod ≤ d.size := by
  have hd := mk.cx.dom_wf
  have h1 : ∀ x ∈ d.attrs, 1 ≤ d.cfg x := by
    intro x hx
    have := hpos _ (Dom.mem_of_mem_attrs d hd x hx)
    exact this
  unfold msgAttrs Dom.size
  rw [size_eq_prod, Dom.shape_eq_map_cfg d hd]
  exact prod_filter_le d.attrs _ d.cfg h1

theorem M_le (hpos : ∀ p ∈ d, 0 < p.2) (hi : Clique → K)
    (hB : ∀ p ∈ pots, ∀ x ∈ p.2.vals.data.toList, x.v ≤ hi p.1) (a b : Clique) (τ : Attr → Nat) :
    M d t (psi pots) a b τ ≤ (d.size : K) * (t.nodes.map (fun c => max 1 (hi c))).prod := by
  have hP0 : (0 : K) ≤ (t.nodes.map (fun c => max 1 (hi c))).prod :=
    le_trans zero_le_one (one_le_prod_map _ _ (fun c _ => le_max_left _ _))
  have hF : ∀ τ', F (psi pots) (sideL t a b) τ' ≤ (t.nodes.map (fun c => max 1 (hi c))).prod := by
    intro τ'
    unfold F
    refine le_trans (prod_map_le_prod_map (sideL t a b) _ (fun c => max 1 (hi c)) ?_ ?_) ?_
    · intro c hc
      exact mk.cx.psi_nonneg c ((mem_sideL t a b c).mp hc).1 τ'
    · intro c hc
      exact sem_le_max _ _ (hB _ (get_mem_pots mk c ((mem_sideL t a b c).mp hc).1)) τ'
    · unfold sideL
      exact prod_filter_le t.nodes _ _ (fun c _ => le_max_left _ _)
  unfold M
  refine le_trans (nsum_le d _ τ _ _ hF) ?_
  apply mul_le_mul_of_nonneg_right _ hP0
  exact_mod_cast msgAttrs_prod_le mk hpos a b

theorem le_M (hpos : ∀ p ∈ d, 0 < p.2) (lo : Clique → K) (hlo0 : ∀ c ∈ t.nodes, 0 < lo c)
    (hL : ∀ p ∈ pots, ∀ x ∈ p.2.vals.data.toList, lo p.1 ≤ x.v) (a b : Clique) (τ : Attr → Nat) :
    (t.nodes.map (fun c => min 1 (lo c))).prod ≤ M d t (psi pots) a b τ := by
  have hd := mk.cx.dom_wf
  have hmin0 : ∀ c ∈ t.nodes, (0 : K) ≤ min 1 (lo c) :=
    fun c hc => le_min zero_le_one (hlo0 c hc).le
  have hP0 : (0 : K) ≤ (t.nodes.map (fun c => min 1 (lo c))).prod := by
    apply List.prod_nonneg
    intro x hx
    obtain ⟨c, hc, rfl⟩ := List.mem_map.mp hx
    exact hmin0 c hc
  have hF : ∀ τ', (t.nodes.map (fun c => min 1 (lo c))).prod ≤ F (psi pots) (sideL t a b) τ' := by
    intro τ'
    unfold F
    refine le_trans ?_ (prod_map_le_prod_map (sideL t a b) (fun c => min 1 (lo c)) _ ?_ ?_)
    · unfold sideL
      exact prod_le_prod_filter t.nodes _ _ hmin0 (fun c _ => min_le_left _ _)
    · intro c hc
      exact hmin0 c ((mem_sideL t a b c).mp hc).1
    · intro c hc
      exact min_le_sem _ _ (hL _ (get_mem_pots mk c ((mem_sideL t a b c).mp hc).1)) τ'
  unfold M
  apply le_nsum d _ τ _ _ hP0 hF
  intro x hx
  have hxd := ((mem_msgAttrs d t a b x).mp hx).1
  exact hpos _ (Dom.mem_of_mem_attrs d hd x hxd)

end Mbounds

/-! ### every stored message entry -/

theorem lookup_of_nodup_keys' {κ β : Type} [BEq κ] [LawfulBEq κ] (l : List (κ × β))
    (hnd : (l.map Prod.fst).Nodup) (p : κ × β) (hp : p ∈ l) : l.lookup p.1 = some p.2 := by
  induction l with
  | nil => simp at hp
  | cons q qs ih =>
    obtain ⟨k, v⟩ := q
    simp only [List.map_cons, List.nodup_cons] at hnd
    simp only [List.lookup_cons]
    rcases List.mem_cons.mp hp with h | h
    · subst h; simp
    · have hne : p.1 ≠ k := by
        intro e
        apply hnd.1
        rw [← e]; exact List.mem_map_of_mem h
      have : (p.1 == k) = false := by simpa using hne
      rw [this]
      exact ih hnd.2 h

/-- every stored message: a table over the separator whose cells are the true message or `0` -/
theorem stored_msg {d : Dom} {t : Tree} {order : List (Clique × Clique)}
    {pots : CliqueVec (LogOf K)} (mk : MOK d t order pots)
    (e : (Clique × Clique) × Factor (LogOf K)) (he : e ∈ (bpLoop order pots).2) :
    e.1 ∈ order ∧ MsgOK d e.1.1 e.1.2 e.2 ∧
    ∀ τ, e.2.dom.Valid τ → (e.2.sem τ).v = M d t (psi pots) e.1.1 e.1.2 τ ∨
      ((e.2.sem τ).v = 0 ∧ M d t (psi pots) e.1.2 e.1.1 τ = 0) := by
  have hkeys := (final_inv mk).mkeys
  have hmem : e.1 ∈ order := by rw [← hkeys]; exact List.mem_map_of_mem he
  have hlook := lookup_of_nodup_keys' _ (by rw [hkeys]; exact mk.so.nodup) e he
  obtain ⟨m, hm, hmo, hms⟩ := final_allmsg mk e.1.1 e.1.2 hmem
  rw [hlook, Option.some.injEq] at hm
  subst hm
  exact ⟨hmem, hmo, hms⟩

/-- **upper bound on every stored message entry** (exp-space): with the entries of the potential of
clique `c` at most `hi c`, every cell of every message is in `[0, |domain| · Π_c max(1, hi c)]`;
in log space `msg ≤ log |domain| + Σ_c max(0, log hi c)` -/
theorem bp_message_le (d : Dom) (cliques : List Clique) (t : Tree) (order : List (Clique × Clique))
    (pots : CliqueVec (LogOf K)) (hok : ModelOK d cliques t order pots)
    (hpos : ∀ p ∈ d, 0 < p.2) (hi : Clique → K)
    (hB : ∀ p ∈ pots, ∀ x ∈ p.2.vals.data.toList, x.v ≤ hi p.1) :
    ∀ e ∈ (bpLoop order pots).2, ∀ x ∈ e.2.vals.data.toList,
      0 ≤ x.v ∧ x.v ≤ (d.size : K) * (cliques.map (fun c => max 1 (hi c))).prod := by
  have mk := mok_of_modelOK d cliques t order pots hok
  intro e he
  obtain ⟨_, hmo, hms⟩ := stored_msg mk e he
  apply entries_of_sem e.2 hmo.1
  intro idx hidx
  have hτ := valid_assign e.2.dom hmo.1.1 idx hidx
  have hM0 := M_nonneg mk.cx e.1.1 e.1.2 (Dom.assign e.2.dom.attrs idx)
  have hMle := M_le mk hpos hi hB e.1.1 e.1.2 (Dom.assign e.2.dom.attrs idx)
  rw [hok.nodes] at hMle
  rcases hms _ hτ with h | ⟨h, _⟩
  · rw [h]; exact ⟨hM0, hMle⟩
  · rw [h]; exact ⟨le_refl _, le_trans hM0 hMle⟩

/-- **two-sided bound for strictly positive potentials**: with the entries of the potential of
clique `c` in `[lo c, hi c]`, `lo c > 0`, every cell of every message lies in
`[Π_c min(1, lo c), |domain| · Π_c max(1, hi c)]` — and is the true message -/
theorem bp_message_bounds (d : Dom) (cliques : List Clique) (t : Tree) (order : List (Clique × Clique))
    (pots : CliqueVec (LogOf K)) (hok : ModelOK d cliques t order pots)
    (hpos : ∀ p ∈ d, 0 < p.2) (lo hi : Clique → K) (hlo0 : ∀ c ∈ cliques, 0 < lo c)
    (hLB : ∀ p ∈ pots, ∀ x ∈ p.2.vals.data.toList, lo p.1 ≤ x.v ∧ x.v ≤ hi p.1) :
    ∀ e ∈ (bpLoop order pots).2, ∀ x ∈ e.2.vals.data.toList,
      (cliques.map (fun c => min 1 (lo c))).prod ≤ x.v ∧
      x.v ≤ (d.size : K) * (cliques.map (fun c => max 1 (hi c))).prod := by
  have mk := mok_of_modelOK d cliques t order pots hok
  have hlo0' : ∀ c ∈ t.nodes, 0 < lo c := by rw [hok.nodes]; exact hlo0
  have hLpos : (0 : K) < (t.nodes.map (fun c => min 1 (lo c))).prod := by
    apply List.prod_pos
    intro x hx
    obtain ⟨c, hc, rfl⟩ := List.mem_map.mp hx
    exact lt_min zero_lt_one (hlo0' c hc)
  intro e he
  obtain ⟨_, hmo, hms⟩ := stored_msg mk e he
  apply entries_of_sem e.2 hmo.1
  intro idx hidx
  have hτ := valid_assign e.2.dom hmo.1.1 idx hidx
  have hMle := M_le mk hpos hi (fun p hp x hx => (hLB p hp x hx).2) e.1.1 e.1.2
    (Dom.assign e.2.dom.attrs idx)
  have hleM := le_M mk hpos lo hlo0' (fun p hp x hx => (hLB p hp x hx).1) e.1.1 e.1.2
    (Dom.assign e.2.dom.attrs idx)
  have hleM' := le_M mk hpos lo hlo0' (fun p hp x hx => (hLB p hp x hx).1) e.1.2 e.1.1
    (Dom.assign e.2.dom.attrs idx)
  rw [hok.nodes] at hMle hleM
  rcases hms _ hτ with h | ⟨_, h0⟩
  · rw [h]; exact ⟨hleM, hMle⟩
  · rw [h0] at hleM'
    exact absurd hLpos (not_lt.mpr hleM')

end PGM.Sem.Bd

/-! ### log-sum-exp over ℝ: the shift by the maximum keeps everything in range -/
namespace PGM.Sem.Lse
open PGM

/-- the real reading of `logsumexp` -/
theorem lse_real (l : List ℝ) : (Scalar.lse l : ℝ) = Real.log ((l.map Real.exp).sum) := rfl

theorem exp_sum_pos (l : List ℝ) (hne : l ≠ []) : 0 < (l.map Real.exp).sum := by
  cases l with
  | nil => exact absurd rfl hne
  | cons x xs =>
    rw [List.map_cons, List.sum_cons]
    have : 0 ≤ (xs.map Real.exp).sum := by
      apply List.sum_nonneg
      intro a ha
      obtain ⟨y, _, rfl⟩ := List.mem_map.mp ha
      exact (Real.exp_pos y).le
    linarith [Real.exp_pos x]

theorem exp_le_exp_sum (l : List ℝ) (m : ℝ) (hm : m ∈ l) : Real.exp m ≤ (l.map Real.exp).sum := by
  apply List.single_le_sum
  · intro a ha
    obtain ⟨y, _, rfl⟩ := List.mem_map.mp ha
    exact (Real.exp_pos y).le
  · exact List.mem_map_of_mem hm

theorem exp_sum_le (l : List ℝ) (m : ℝ) (hmax : ∀ x ∈ l, x ≤ m) :
    (l.map Real.exp).sum ≤ (l.length : ℝ) * Real.exp m := by
  have h := List.sum_le_card_nsmul (l.map Real.exp) (Real.exp m) (by
    intro a ha
    obtain ⟨y, hy, rfl⟩ := List.mem_map.mp ha
    exact Real.exp_le_exp.mpr (hmax y hy))
  rwa [List.length_map, nsmul_eq_mul] at h

/-- **log-sum-exp lies between the maximum and the maximum plus `log n`**, and every shifted
argument `x − m` (what scipy's `logsumexp` hands to `exp`) is `≤ 0` -/
theorem lse_shift_bounds (l : List ℝ) (m : ℝ) (hm : m ∈ l) (hmax : ∀ x ∈ l, x ≤ m) :
    (∀ x ∈ l, x - m ≤ 0) ∧
    m ≤ Real.log ((l.map Real.exp).sum) ∧
    Real.log ((l.map Real.exp).sum) ≤ m + Real.log (l.length : ℝ) := by
  have hne : l ≠ [] := List.ne_nil_of_mem hm
  have hpos := exp_sum_pos l hne
  have hlen : (0 : ℝ) < (l.length : ℝ) := by
    have : 0 < l.length := List.length_pos_of_mem hm
    exact_mod_cast this
  refine ⟨fun x hx => sub_nonpos.mpr (hmax x hx), ?_, ?_⟩
  · have := Real.log_le_log (Real.exp_pos m) (exp_le_exp_sum l m hm)
    rwa [Real.log_exp] at this
  · have := Real.log_le_log hpos (exp_sum_le l m hmax)
    rwa [Real.log_mul hlen.ne' (Real.exp_pos m).ne', Real.log_exp, add_comm] at this

/-- the shift identity used by scipy: `log Σ exp x = m + log Σ exp (x − m)` (any shift `m`) -/
theorem lse_shift_eq (l : List ℝ) (hne : l ≠ []) (m : ℝ) :
    Real.log ((l.map Real.exp).sum) = m + Real.log ((l.map (fun x => Real.exp (x - m))).sum) := by
  have h1 : (l.map Real.exp).sum = Real.exp m * (l.map (fun x => Real.exp (x - m))).sum := by
    rw [← List.sum_map_mul_left]
    congr 1
    apply List.map_congr_left
    intro x _
    rw [← Real.exp_add]
    congr 1
    ring
  have hpos : 0 < (l.map (fun x => Real.exp (x - m))).sum := by
    have := exp_sum_pos (l.map (fun x => x - m)) (by simpa using hne)
    rwa [List.map_map] at this
  rw [h1, Real.log_mul (Real.exp_pos m).ne' hpos.ne', Real.log_exp]

/-- after the shift by the maximum every term handed to `log` lies in `[1, n]`: no overflow and
no underflow to `log 0` -/
theorem shifted_sum_bounds (l : List ℝ) (m : ℝ) (hm : m ∈ l) (hmax : ∀ x ∈ l, x ≤ m) :
    (∀ x ∈ l, 0 < Real.exp (x - m) ∧ Real.exp (x - m) ≤ 1) ∧
    1 ≤ (l.map (fun x => Real.exp (x - m))).sum ∧
    (l.map (fun x => Real.exp (x - m))).sum ≤ (l.length : ℝ) := by
  refine ⟨fun x hx => ⟨Real.exp_pos _, Real.exp_le_one_iff.mpr (sub_nonpos.mpr (hmax x hx))⟩, ?_, ?_⟩
  · have h := exp_le_exp_sum (l.map (fun x => x - m)) (m - m) (List.mem_map.mpr ⟨m, hm, rfl⟩)
    rw [List.map_map, sub_self, Real.exp_zero] at h
    exact h
  · have h := exp_sum_le (l.map (fun x => x - m)) 0 (by
      intro a ha
      obtain ⟨y, hy, rfl⟩ := List.mem_map.mp ha
      exact sub_nonpos.mpr (hmax y hy))
    rw [List.map_map, List.length_map, Real.exp_zero, mul_one] at h
    exact h

/-- **magnitude of log-sum-exp**: `|log Σ exp x| ≤ max |x| + log n` (`B` any bound on the `|x|`,
in particular their maximum) -/
theorem lse_abs_le (l : List ℝ) (hne : l ≠ []) (B : ℝ) (hB : ∀ x ∈ l, |x| ≤ B) :
    |Real.log ((l.map Real.exp).sum)| ≤ B + Real.log (l.length : ℝ) := by
  -- a maximal element exists
  have hex : ∃ m ∈ l, ∀ x ∈ l, x ≤ m := by
    clear hB
    induction l with
    | nil => exact absurd rfl hne
    | cons a as ih =>
      cases as with
      | nil => exact ⟨a, by simp, by simp⟩
      | cons b bs =>
        obtain ⟨m, hm, hmax⟩ := ih (by simp)
        by_cases h : a ≤ m
        · exact ⟨m, List.mem_cons_of_mem _ hm, fun x hx => by
            rcases List.mem_cons.mp hx with rfl | hx
            · exact h
            · exact hmax x hx⟩
        · refine ⟨a, by simp, fun x hx => ?_⟩
          rcases List.mem_cons.mp hx with rfl | hx
          · exact le_refl _
          · exact le_trans (hmax x hx) (le_of_not_ge h)
  obtain ⟨m, hm, hmax⟩ := hex
  obtain ⟨_, hlo, hhi⟩ := lse_shift_bounds l m hm hmax
  have hmB := abs_le.mp (hB m hm)
  have hlog : 0 ≤ Real.log (l.length : ℝ) := Real.log_natCast_nonneg _
  rw [abs_le]
  constructor <;> linarith

/-! the model's own maximum (`Scalar.maxL`, numpy `max`) at the real instance -/

theorem foldl_max_spec (xs : List ℝ) (x : ℝ) :
    (xs.foldl Scalar.max x ∈ x :: xs) ∧ ∀ y ∈ x :: xs, y ≤ xs.foldl Scalar.max x := by
  induction xs generalizing x with
  | nil => simp
  | cons a as ih =>
    rw [List.foldl_cons]
    obtain ⟨h1, h2⟩ := ih (Scalar.max x a)
    have hmax : Scalar.max x a = if x < a then a else x := rfl
    constructor
    · rcases List.mem_cons.mp h1 with h | h
      · rw [h, hmax]
        split <;> simp
      · exact List.mem_cons_of_mem _ (List.mem_cons_of_mem _ h)
    · intro y hy
      have hx : x ≤ Scalar.max x a := by rw [hmax]; split <;> linarith
      have ha : a ≤ Scalar.max x a := by rw [hmax]; split <;> linarith
      rcases List.mem_cons.mp hy with rfl | hy
      · exact le_trans hx (h2 _ (by simp))
      · rcases List.mem_cons.mp hy with rfl | hy
        · exact le_trans ha (h2 _ (by simp))
        · exact h2 y (List.mem_cons_of_mem _ hy)

theorem maxL_spec (l : List ℝ) (hne : l ≠ []) :
    (Scalar.maxL l ∈ l) ∧ ∀ y ∈ l, y ≤ Scalar.maxL l := by
  cases l with
  | nil => exact absurd rfl hne
  | cons x xs => exact foldl_max_spec xs x

/-- `lse_shift_bounds` for the model's `Scalar.lse` / `Scalar.maxL` at the real instance -/
theorem lse_shift_bounds_model (l : List ℝ) (hne : l ≠ []) :
    (∀ x ∈ l, Scalar.sub x (Scalar.maxL l) ≤ 0) ∧
    Scalar.maxL l ≤ Scalar.lse l ∧
    Scalar.lse l ≤ Scalar.maxL l + Real.log (l.length : ℝ) := by
  obtain ⟨hm, hmax⟩ := maxL_spec l hne
  obtain ⟨h1, h2, h3⟩ := lse_shift_bounds l (Scalar.maxL l) hm hmax
  refine ⟨fun x hx => ?_, h2, h3⟩
  have : Scalar.sub x (Scalar.maxL l) = x - Scalar.maxL l := (sub_eq_add_neg _ _).symm
  rw [this]
  exact h1 x hx

/-- `lse_abs_le` with the model's maximum of the absolute values -/
theorem lse_abs_le_model (l : List ℝ) (hne : l ≠ []) :
    |(Scalar.lse l : ℝ)| ≤ Scalar.maxL (l.map (fun x => |x|)) + Real.log (l.length : ℝ) := by
  apply lse_abs_le l hne
  intro x hx
  exact (maxL_spec (l.map (fun x => |x|)) (by simpa using hne)).2 _ (List.mem_map_of_mem hx)

/-! ### magnitude of the log-space messages (`K = ℝ`) -/

theorem prod_map_exp {β : Type} (L : List β) (g : β → ℝ) :
    (L.map (fun c => Real.exp (g c))).prod = Real.exp ((L.map g).sum) := by
  rw [Real.exp_list_sum, List.map_map]
  rfl

theorem sum_map_neg' {β : Type} (L : List β) (g : β → ℝ) :
    (L.map (fun c => -(g c))).sum = -(L.map g).sum := by
  induction L with
  | nil => simp
  | cons c cs ih => rw [List.map_cons, List.sum_cons, ih, List.map_cons, List.sum_cons]; ring

/-- **magnitude of every log-space message**: if every log-potential of clique `c` has magnitude at
most `b c` (the exp-space entry `x.v = exp θ` lies in `[exp (−b c), exp (b c)]`), every log-space
message entry `log x.v` has magnitude at most `log |domain| + Σ_c b c` -/
theorem bp_message_magnitude (d : Dom) (cliques : List JT.Clique) (t : JT.Tree)
    (order : List (JT.Clique × JT.Clique)) (pots : CliqueVec (LogOf ℝ))
    (hok : ModelOK d cliques t order pots) (hpos : ∀ p ∈ d, 0 < p.2)
    (b : JT.Clique → ℝ) (hb : ∀ c ∈ cliques, 0 ≤ b c)
    (hθ : ∀ p ∈ pots, ∀ x ∈ p.2.vals.data.toList,
      Real.exp (-(b p.1)) ≤ x.v ∧ x.v ≤ Real.exp (b p.1)) :
    ∀ e ∈ (GM.bpLoop order pots).2, ∀ x ∈ e.2.vals.data.toList,
      0 < x.v ∧ |Real.log x.v| ≤ Real.log (d.size : ℝ) + (cliques.map b).sum := by
  intro e he x hx
  obtain ⟨h1, h2⟩ := Bd.bp_message_bounds d cliques t order pots hok hpos
    (fun c => Real.exp (-(b c))) (fun c => Real.exp (b c)) (fun c _ => Real.exp_pos _) hθ e he x hx
  have e1 : cliques.map (fun c => min 1 (Real.exp (-(b c))))
      = cliques.map (fun c => Real.exp (-(b c))) := by
    apply List.map_congr_left
    intro c hc
    exact min_eq_right (Real.exp_le_one_iff.mpr (neg_nonpos.mpr (hb c hc)))
  have e2 : cliques.map (fun c => max 1 (Real.exp (b c)))
      = cliques.map (fun c => Real.exp (b c)) := by
    apply List.map_congr_left
    intro c hc
    exact max_eq_right (Real.one_le_exp (hb c hc))
  have e3 : (cliques.map (fun c => -(b c))).sum = -(cliques.map b).sum := sum_map_neg' cliques b
  rw [e1, prod_map_exp, e3] at h1
  rw [e2, prod_map_exp] at h2
  have hxpos : 0 < x.v := lt_of_lt_of_le (Real.exp_pos _) h1
  have hsize : (1 : ℝ) ≤ (d.size : ℝ) := by
    have : 1 ≤ d.size := by
      unfold Dom.size
      rw [Bd.size_eq_prod]
      have := Bd.one_le_prod_map d (fun p => p.2) (fun p hp => hpos p hp)
      simpa [Dom.shape] using this
    exact_mod_cast this
  have hlo : -(cliques.map b).sum ≤ Real.log x.v := by
    have := Real.log_le_log (Real.exp_pos _) h1
    rwa [Real.log_exp] at this
  have hhi : Real.log x.v ≤ Real.log (d.size : ℝ) + (cliques.map b).sum := by
    have := Real.log_le_log hxpos h2
    rwa [Real.log_mul (by linarith) (Real.exp_pos _).ne', Real.log_exp] at this
  have hls : 0 ≤ Real.log (d.size : ℝ) := Real.log_nonneg hsize
  refine ⟨hxpos, ?_⟩
  rw [abs_le]
  constructor <;> linarith

end PGM.Sem.Lse
