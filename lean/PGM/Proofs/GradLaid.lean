import PGM.Proofs.LocalE2EShape
import PGM.Proofs.InfGen
import PGM.Proofs.GMGen
import PGM.Properties.C01G
/-!
# The gradient of `_marginal_loss` is laid out on the keys of the marginals (helpers for C10E / C18E)

Every scalar type.  `Factor.iop` (`+=` by a factor) keeps the domain and the well-formedness of the table it updates
whatever the other operand is (`expand` always returns an array of the target shape), so the gradient accumulated under a
clique — `Factor.zeros(mu.domain)` followed by `+= Factor(mu2.domain, grad)` — is a well-formed table over the domain of the
marginal stored under that clique, and the gradient vector has the keys of the marginal vector in their order.  No hypothesis
on the measurements is needed for the LAYOUT (it is needed for the VALUES, C04).

Second part: the tables `belief_propagation` returns are laid out like the potentials it is given.
-/
set_option linter.unusedVariables false
set_option linter.unusedSectionVars false
namespace PGM.GradLaid
open PGM PGM.JT PGM.Loss PGM.LocalE2E PGM.GMGen
variable {α : Type} [Scalar α]

/-! ## `+=` by a factor -/

theorem expand_size (g : Factor α) (d : Dom) : (g.expand d).vals.data.size = size d.shape :=
  NdArr.ofFn_WF d.shape _

/-- in-place `op=` keeps domain and well-formedness of the updated table, for ANY right operand -/
theorem iop_WF' (op : α → α → α) (f g : Factor α) (hf : f.WF) :
    (Factor.iop op f g).WF ∧ (Factor.iop op f g).dom = f.dom := by
  refine ⟨⟨hf.1, hf.2.1, ?_⟩, rfl⟩
  show (Array.zipWith op f.vals.data (g.expand f.dom).vals.data).size = size f.vals.shape
  rw [Array.size_zipWith, expand_size, ← hf.2.1, ← hf.2.2, Nat.min_self]

theorem zeros_WF (D : Dom) (hD : D.WF) : (Factor.zeros D : Factor α).WF := CVSem.const_WF D hD _

/-! ## the two folds of `_marginal_loss` -/

/-- the inner loop (over the measurements grouped under one clique): whatever is added, the accumulator stays a
well-formed table over its initial domain -/
theorem inner_laid {β : Type} (mine : List β) (t : α × Factor α → β → α) (gf : β → Factor α) (s : α × Factor α)
    (hs : s.2.WF) :
    (mine.foldl (fun lg m => (t lg m, lg.2.iadd (gf m))) s).2.WF ∧
    (mine.foldl (fun lg m => (t lg m, lg.2.iadd (gf m))) s).2.dom = s.2.dom := by
  induction mine generalizing s with
  | nil => exact ⟨hs, rfl⟩
  | cons m ms ih =>
    rw [List.foldl_cons]
    obtain ⟨h1, h2⟩ := iop_WF' Scalar.add s.2 (gf m) hs
    obtain ⟨h3, h4⟩ := ih (t s m, s.2.iadd (gf m)) h1
    exact ⟨h3, h4.trans h2⟩

/-- the outer loop (over the items of `marginals`): one entry per item, under the same key, in the same order -/
theorem outer_laid (G : α → Clique → Factor α → α × Factor α)
    (P : Clique × Factor α → Prop) (mu : CliqueVec α) (acc : α × CliqueVec α)
    (hG : ∀ a, ∀ e ∈ mu, P (e.1, (G a e.1 e.2).2)) (hacc : ∀ p ∈ acc.2, P p) :
    ((mu.foldl (fun (acc : α × CliqueVec α) (e : Clique × Factor α) =>
        ((G acc.1 e.1 e.2).1, acc.2 ++ [(e.1, (G acc.1 e.1 e.2).2)])) acc).2.map Prod.fst
      = acc.2.map Prod.fst ++ mu.map Prod.fst) ∧
    ∀ p ∈ (mu.foldl (fun (acc : α × CliqueVec α) (e : Clique × Factor α) =>
        ((G acc.1 e.1 e.2).1, acc.2 ++ [(e.1, (G acc.1 e.1 e.2).2)])) acc).2, P p := by
  induction mu generalizing acc with
  | nil => exact ⟨by simp, hacc⟩
  | cons e mu ih =>
    rw [List.foldl_cons]
    obtain ⟨h1, h2⟩ := ih ((G acc.1 e.1 e.2).1, acc.2 ++ [(e.1, (G acc.1 e.1 e.2).2)])
      (fun a e' he' => hG a e' (List.mem_cons_of_mem _ he'))
      (by
        intro p hp
        rcases List.mem_append.mp hp with h | h
        · exact hacc p h
        · rw [List.mem_singleton.mp h]; exact hG acc.1 e (List.mem_cons_self ..))
    refine ⟨?_, h2⟩
    rw [h1]; simp

/-- a marginal vector whose tables are well formed: the statement about both metrics -/
def TabWF (mu : CliqueVec α) : Prop := ∀ p ∈ mu, p.2.WF

/-- **`_marginal_loss`, L2: the gradient has the keys of the marginals, in their order, and under each key a well-formed
table over the domain of the marginal stored there** -/
theorem marginalLoss_grad_laid (d : Dom) (cliques : List Clique) (meas : List (Meas α)) (mu : CliqueVec α)
    (hmu : TabWF mu) :
    (marginalLoss d cliques meas mu).2.map Prod.fst = mu.map Prod.fst ∧
    ∀ p ∈ (marginalLoss d cliques meas mu).2, p.2.WF ∧ ∃ e ∈ mu, p.1 = e.1 ∧ p.2.dom = e.2.dom := by
  have h := outer_laid (α := α)
    (fun a cl f => (meas.filter (fun m => groupOf d cliques m.proj == some cl)).foldl
      (fun (lg : α × Factor α) m =>
        (Scalar.add lg.1 (Scalar.mul (Scalar.div Scalar.one (Scalar.add Scalar.one Scalar.one))
            (dot (residual m f) (residual m f))),
         lg.2.iadd (Factor.mk' (f.dom.project m.proj) ⟨(f.dom.project m.proj).shape,
            ((matTVec m.Q (f.dom.project m.proj).size (residual m f)).map
              (fun v => Scalar.mul (Scalar.div Scalar.one m.noise) v)).toArray⟩))) (a, Factor.zeros f.dom))
    (fun p => p.2.WF ∧ ∃ e ∈ mu, p.1 = e.1 ∧ p.2.dom = e.2.dom) mu (Scalar.zero, [])
    (by
      intro a e he
      obtain ⟨h1, h2⟩ := inner_laid (meas.filter (fun m => groupOf d cliques m.proj == some e.1))
        (fun lg m => Scalar.add lg.1 (Scalar.mul (Scalar.div Scalar.one (Scalar.add Scalar.one Scalar.one))
            (dot (residual m e.2) (residual m e.2))))
        (fun m => Factor.mk' (e.2.dom.project m.proj) ⟨(e.2.dom.project m.proj).shape,
            ((matTVec m.Q (e.2.dom.project m.proj).size (residual m e.2)).map
              (fun v => Scalar.mul (Scalar.div Scalar.one m.noise) v)).toArray⟩)
        (a, Factor.zeros e.2.dom) (zeros_WF _ (hmu e he).1)
      exact ⟨h1, e, he, rfl, h2⟩)
    (by intro p hp; cases hp)
  exact ⟨h.1, h.2⟩

/-- **`_marginal_loss`, L1**: the same layout -/
theorem marginalLossL1_grad_laid (d : Dom) (cliques : List Clique) (meas : List (Meas α)) (mu : CliqueVec α)
    (hmu : TabWF mu) :
    (marginalLossL1 d cliques meas mu).2.map Prod.fst = mu.map Prod.fst ∧
    ∀ p ∈ (marginalLossL1 d cliques meas mu).2, p.2.WF ∧ ∃ e ∈ mu, p.1 = e.1 ∧ p.2.dom = e.2.dom := by
  have h := outer_laid (α := α)
    (fun a cl f => (meas.filter (fun m => groupOf d cliques m.proj == some cl)).foldl
      (fun (lg : α × Factor α) m =>
        (Scalar.add lg.1 (Scalar.sum ((residual m f).map absS)),
         lg.2.iadd (Factor.mk' (f.dom.project m.proj) ⟨(f.dom.project m.proj).shape,
            ((matTVec m.Q (f.dom.project m.proj).size ((residual m f).map signS)).map
              (fun v => Scalar.mul (Scalar.div Scalar.one m.noise) v)).toArray⟩))) (a, Factor.zeros f.dom))
    (fun p => p.2.WF ∧ ∃ e ∈ mu, p.1 = e.1 ∧ p.2.dom = e.2.dom) mu (Scalar.zero, [])
    (by
      intro a e he
      obtain ⟨h1, h2⟩ := inner_laid (meas.filter (fun m => groupOf d cliques m.proj == some e.1))
        (fun lg m => Scalar.add lg.1 (Scalar.sum ((residual m e.2).map absS)))
        (fun m => Factor.mk' (e.2.dom.project m.proj) ⟨(e.2.dom.project m.proj).shape,
            ((matTVec m.Q (e.2.dom.project m.proj).size ((residual m e.2).map signS)).map
              (fun v => Scalar.mul (Scalar.div Scalar.one m.noise) v)).toArray⟩)
        (a, Factor.zeros e.2.dom) (zeros_WF _ (hmu e he).1)
      exact ⟨h1, e, he, rfl, h2⟩)
    (by intro p hp; cases hp)
  exact ⟨h.1, h.2⟩

/-- in the vocabulary of the end-to-end files: marginals laid out on the model's cliques give a gradient laid out on them -/
theorem marginalLoss_laid (d d' : Dom) (cliques cl' : List Clique) (meas : List (Meas α)) (mu : CliqueVec α)
    (hmu : Laid d cliques mu) : Laid d cliques (marginalLoss d' cl' meas mu).2 := by
  obtain ⟨h1, h2⟩ := marginalLoss_grad_laid d' cl' meas mu (fun p hp => (hmu.2 p hp).1)
  refine ⟨h1.trans hmu.1, fun p hp => ?_⟩
  obtain ⟨hw, e, he, hk, hd⟩ := h2 p hp
  exact ⟨hw, by rw [hd, hk]; exact (hmu.2 e he).2⟩

theorem marginalLossL1_laid (d d' : Dom) (cliques cl' : List Clique) (meas : List (Meas α)) (mu : CliqueVec α)
    (hmu : Laid d cliques mu) : Laid d cliques (marginalLossL1 d' cl' meas mu).2 := by
  obtain ⟨h1, h2⟩ := marginalLossL1_grad_laid d' cl' meas mu (fun p hp => (hmu.2 p hp).1)
  refine ⟨h1.trans hmu.1, fun p hp => ?_⟩
  obtain ⟨hw, e, he, hk, hd⟩ := h2 p hp
  exact ⟨hw, by rw [hd, hk]; exact (hmu.2 e he).2⟩

/-- **the GENERATED `_marginal_loss` (both metrics)**: marginals laid out on the model's (duplicate-free) cliques give a
gradient laid out on them; the measurements are arbitrary -/
theorem gen_marginalLossL2_laid (d : Dom) (cliques cl' : List Clique) (hcn : cliques.Nodup) (meas : List (Meas α))
    (mu : CliqueVec α) (hmu : Laid d cliques mu) : Laid d cliques (InfG.marginalLossL2 d cl' meas mu).2 := by
  rw [InfGen.gen_marginalLossL2 d cl' meas mu (hmu.1 ▸ hcn) (fun p hp => (hmu.2 p hp).2)]
  exact marginalLoss_laid d d cliques cl' meas mu hmu

theorem gen_marginalLossL1_laid (d : Dom) (cliques cl' : List Clique) (hcn : cliques.Nodup) (meas : List (Meas α))
    (mu : CliqueVec α) (hmu : Laid d cliques mu) : Laid d cliques (InfG.marginalLossL1 d cl' meas mu).2 := by
  rw [InfGen.gen_marginalLossL1 d cl' meas mu (hmu.1 ▸ hcn) (fun p hp => (hmu.2 p hp).2)]
  exact marginalLossL1_laid d d cliques cl' meas mu hmu

/-! ## `belief_propagation` keeps the layout -/

theorem foldl_inv_mem {σ ι : Type} (P : σ → Prop) (f : σ → ι → σ) (l : List ι) (s : σ)
    (h0 : P s) (hstep : ∀ s x, x ∈ l → P s → P (f s x)) : P (l.foldl f s) := by
  induction l generalizing s with
  | nil => exact h0
  | cons x xs ih =>
    exact ih _ (hstep s x (List.mem_cons_self ..) h0) (fun s y hy => hstep s y (List.mem_cons_of_mem _ hy))

/-- the beliefs after the message loop are laid out like the potentials: each step replaces the table under the receiving
clique by `that table += message` -/
theorem bpLoop_laid (d : Dom) (cliques : List Clique) (order : List (Clique × Clique)) (pots : CliqueVec α)
    (hp : Laid d cliques pots) (hrecv : ∀ ij ∈ order, ij.2 ∈ cliques) : Laid d cliques (GM.bpLoop order pots).1 := by
  rw [bpLoop_eq]
  apply foldl_inv_mem (fun s : CliqueVec α × GM.Msgs α => Laid d cliques s.1) bpStep order (pots, []) hp
  intro s x hx h
  have hxc := hrecv x hx
  obtain ⟨h1, h2⟩ := h.get x.2 hxc
  obtain ⟨h3, h4⟩ := iop_WF' Scalar.add (s.1.get x.2)
    (((match s.2.lookup (x.2, x.1) with
        | some m => (s.1.get x.1).sub m
        | none => s.1.get x.1)).logsumexp ((s.1.get x.1).dom.invert (JT.inter x.1 x.2))) h1
  refine ⟨?_, ?_⟩
  · show (CliqueVec.set s.1 x.2 _).map Prod.fst = _
    exact (keys_dictSet_of_mem s.1 x.2 _ (by rw [h.1]; exact hxc)).trans h.1
  · intro p hp'
    rcases mem_set s.1 x.2 _ p hp' with h5 | h5
    · exact h.2 p h5
    · rw [h5]; exact ⟨h3, h4.trans h2⟩

/-- the model's `belief_propagation` returns tables laid out on the model's cliques when the potentials are -/
theorem beliefPropagation_laid (d : Dom) (cliques : List Clique) (order : List (Clique × Clique)) (pots : CliqueVec α)
    (total : α) (hp : Laid d cliques pots) (hrecv : ∀ ij ∈ order, ij.2 ∈ cliques) :
    Laid d cliques (GM.beliefPropagation cliques order pots total) := by
  have hb := bpLoop_laid d cliques order pots hp hrecv
  refine ⟨?_, ?_⟩
  · unfold GM.beliefPropagation
    simp only [List.map_map]
    conv => rhs; rw [← List.map_id cliques]
    apply List.map_congr_left
    intro c _; rfl
  · intro p hp'
    unfold GM.beliefPropagation at hp'
    obtain ⟨c, hc, rfl⟩ := List.mem_map.mp hp'
    obtain ⟨h1, h2⟩ := hb.get c hc
    have hw : ((((GM.bpLoop order pots).1.get c).iaddScalar (Scalar.sub (Scalar.log total)
        (((GM.bpLoop order pots).1.get (cliques.headD [])).logsumexpAll)))).WF :=
      ⟨h1.1, h1.2.1, NdArr.map_WF _ _ h1.2.2⟩
    exact ⟨Sem.mapVals_WF Scalar.exp _ hw, h2⟩

/-- **the GENERATED `belief_propagation`**: on a duplicate-free schedule whose receiving cliques are cliques of the model
(what the generated `__init__` stores), potentials laid out on the model's cliques give marginals laid out on them -/
theorem gen_beliefPropagation_laid (d : Dom) (cliques : List Clique) (order : List (Clique × Clique)) (pots : CliqueVec α)
    (total : α) (hord : order.Nodup) (hcl : cliques.Nodup) (hrecv : ∀ ij ∈ order, ij.2 ∈ cliques)
    (hp : Laid d cliques pots) : Laid d cliques (GMG.beliefPropagation cliques order pots total) := by
  rw [PGM.C01.GMG.gen_beliefPropagation cliques order pots total hord hp.1 (fun p hp' => Shaped.of_wf (hp.2 p hp').1) hcl hrecv]
  exact beliefPropagation_laid d cliques order pots total hp hrecv

/-- a schedule the checker accepts is duplicate-free and only sends to nodes of the tree -/
theorem sched_of_check (attrs : List Attr) (cl : List Clique) (t : Tree) (order : List (Clique × Clique))
    (h : checkJT attrs cl t order = true) : order.Nodup ∧ ∀ ij ∈ order, ij.2 ∈ t.nodes := by
  have f := treeFacts t (Sem.BP.isTree_of_check h)
  have v := checkJT_sound attrs cl t order h
  have so := schedOK_of_valid attrs cl t order f v
  refine ⟨so.nodup, fun ij hij => ?_⟩
  rcases (adj_iff_edges t ij.1 ij.2).mp (so.adj_of_mem ij.1 ij.2 hij) with h1 | h1
  · exact (f.ends _ h1).2.1
  · exact (f.ends _ h1).1

end PGM.GradLaid
