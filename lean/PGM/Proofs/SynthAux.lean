import PGM.Model.Synth
import Mathlib.Data.Rat.Floor
import Mathlib.Algebra.Order.Floor.Ring
import Mathlib.Algebra.Order.Ring.Rat
import Mathlib.Algebra.BigOperators.Group.List.Basic
import Mathlib.Data.List.Nodup
import Mathlib.Algebra.Order.BigOperators.Group.List
import Mathlib.Data.List.Perm.Basic
import Mathlib.Tactic.Ring
import Mathlib.Tactic.Linarith
import Mathlib.Tactic.FieldSimp
/-! helper lemmas for C11 (rounding-mode synthetic columns) -/
namespace PGM.Synth.Aux
open PGM.Synth

theorem foldl_add_Q (l : List Rat) (a : Rat) : l.foldl (· + ·) a = a + l.sum := by
  induction l generalizing a with
  | nil => simp
  | cons x xs ih => simp [List.foldl_cons, ih, add_assoc]

theorem foldl_add_N (l : List Nat) (a : Nat) : l.foldl (· + ·) a = a + l.sum := by
  induction l generalizing a with
  | nil => simp
  | cons x xs ih => simp [List.foldl_cons, ih, add_assoc]

theorem sumQ_eq_sum (l : List Rat) : sumQ l = l.sum := by
  simp [sumQ, foldl_add_Q]

theorem sumN_eq_sum (l : List Nat) : sumN l = l.sum := by
  simp [sumN, foldl_add_N]

theorem floor_eq (x : Rat) : x.floor = ⌊x⌋ := rfl


/-! ### scaling -/

theorem sum_map_scale (l : List Rat) (t s : Rat) :
    (l.map (fun c => c * t / s)).sum = l.sum * t / s := by
  induction l with
  | nil => simp
  | cons x xs ih => simp [ih]; ring

theorem scaled_sum' (counts : List Rat) (total : Nat) (h : sumQ counts ≠ 0) :
    (scaled counts total).sum = total := by
  unfold scaled
  rw [sum_map_scale]
  rw [sumQ_eq_sum] at h ⊢
  field_simp

theorem scaled_nonneg (counts : List Rat) (total : Nat) (hn : ∀ c ∈ counts, 0 ≤ c)
    (hp : 0 < sumQ counts) : ∀ x ∈ scaled counts total, 0 ≤ x := by
  intro x hx
  simp only [scaled, List.mem_map] at hx
  obtain ⟨c, hc, rfl⟩ := hx
  have := hn c hc
  positivity

/-! ### floor / fractional part -/

theorem toNat_floor_cast {x : Rat} (hx : 0 ≤ x) : ((x.floor.toNat : Nat) : Rat) = ((⌊x⌋ : Int) : Rat) := by
  rw [floor_eq]
  have h : 0 ≤ ⌊x⌋ := Int.floor_nonneg.2 hx
  have : ((⌊x⌋.toNat : Nat) : Int) = ⌊x⌋ := Int.toNat_of_nonneg h
  exact_mod_cast congrArg (Int.cast : Int → Rat) this

theorem frac_nonneg (x : Rat) : 0 ≤ x - x.floor := by
  rw [floor_eq]; exact sub_nonneg.2 (Int.floor_le x)

theorem frac_lt_one (x : Rat) : x - x.floor < 1 := by
  rw [floor_eq]; have := Int.lt_floor_add_one x; linarith

theorem floors_add_fracs (xs : List Rat) (h : ∀ x ∈ xs, 0 ≤ x) :
    ((floors xs).sum : Rat) + (fracs xs).sum = xs.sum := by
  induction xs with
  | nil => simp [floors, fracs]
  | cons x xs ih =>
    have hx : 0 ≤ x := h x (by simp)
    have ih' := ih (fun y hy => h y (by simp [hy]))
    simp only [floors, fracs, List.map_cons, List.sum_cons, Nat.cast_add] at ih' ⊢
    rw [toNat_floor_cast hx, ← floor_eq]
    linarith

theorem fracs_sum_nonneg (xs : List Rat) : 0 ≤ (fracs xs).sum := by
  apply List.sum_nonneg
  intro f hf
  simp only [fracs, List.mem_map] at hf
  obtain ⟨x, _, rfl⟩ := hf
  exact frac_nonneg x

theorem sum_le_posCount (fs : List Rat) (h : ∀ f ∈ fs, f ≤ 1) :
    fs.sum ≤ ((fs.filter (fun f => decide (0 < f))).length : Rat) := by
  induction fs with
  | nil => simp
  | cons f fs ih =>
    have ih' := ih (fun y hy => h y (by simp [hy]))
    have hf := h f (by simp)
    by_cases hpos : 0 < f
    · simp only [List.sum_cons, List.filter_cons, hpos, decide_true, if_true, List.length_cons,
        Nat.cast_add, Nat.cast_one]
      linarith
    · simp only [List.sum_cons, List.filter_cons, hpos, decide_false]
      have : f ≤ 0 := not_lt.1 hpos
      simp only [Bool.false_eq_true, if_false]
      linarith


/-! ### `zipIdx` / `flatMap` / `replicate` -/

theorem length_flatMap_replicate (l : List Nat) (n : Nat) :
    ((l.zipIdx n).flatMap (fun (k, i) => List.replicate k i)).length = l.sum := by
  induction l generalizing n with
  | nil => simp
  | cons k l ih => simp [List.zipIdx_cons, ih]

theorem count_flatMap_replicate (l : List Nat) (n i : Nat) :
    ((l.zipIdx n).flatMap (fun (k, j) => List.replicate k j)).count i
      = if n ≤ i then l.getD (i - n) 0 else 0 := by
  induction l generalizing n with
  | nil => simp
  | cons k l ih =>
    simp only [List.zipIdx_cons, List.flatMap_cons, List.count_append, ih, List.count_replicate]
    rcases Nat.lt_trichotomy i n with hlt | heq | hgt
    · have h1 : ¬ n ≤ i := by omega
      have h2 : ¬ n + 1 ≤ i := by omega
      have h3 : ¬ n = i := by omega
      simp [h1, h2, h3]
    · subst heq
      simp
    · have h1 : n ≤ i := by omega
      have h2 : n + 1 ≤ i := by omega
      have h3 : ¬ n = i := by omega
      have h4 : i - n = (i - (n + 1)) + 1 := by omega
      simp [h1, h2, h3, h4]

theorem mem_flatMap_replicate (l : List Nat) (n v : Nat)
    (hv : v ∈ (l.zipIdx n).flatMap (fun (k, j) => List.replicate k j)) : v < n + l.length := by
  rw [List.mem_flatMap] at hv
  obtain ⟨⟨k, j⟩, hkj, hv⟩ := hv
  have := List.mem_zipIdx hkj
  simp only [List.mem_replicate] at hv
  omega

theorem sum_bump (fl : List Nat) (p : Nat → Bool) (n : Nat) :
    ((fl.zipIdx n).map (fun (f, i) => if p i then f + 1 else f)).sum
      = fl.sum + ((List.range' n fl.length).filter p).length := by
  induction fl generalizing n with
  | nil => simp
  | cons f fl ih =>
    simp only [List.zipIdx_cons, List.map_cons, List.sum_cons, ih, List.length_cons,
      List.range'_succ, List.filter_cons]
    by_cases hp : p n <;> simp [hp] <;> omega

/-- a duplicate-free list of indices below `m` is hit exactly `length` times by `range m` -/
theorem length_filter_contains (pick : List Nat) (m : Nat) (hnd : pick.Nodup)
    (hlt : ∀ i ∈ pick, i < m) :
    ((List.range m).filter (fun i => pick.contains i)).length = pick.length := by
  apply List.Perm.length_eq
  rw [List.perm_ext_iff_of_nodup ((List.nodup_range).filter _) hnd]
  intro a
  simp only [List.mem_filter, List.mem_range, List.contains_iff_mem]
  constructor
  · exact fun h => h.2
  · exact fun h => ⟨hlt a h, h⟩


/-! ### unpacking the model's definitions -/

@[simp] theorem length_scaled (counts : List Rat) (total : Nat) :
    (scaled counts total).length = counts.length := by simp [scaled]

@[simp] theorem length_floors (xs : List Rat) : (floors xs).length = xs.length := by simp [floors]

@[simp] theorem length_fracs (xs : List Rat) : (fracs xs).length = xs.length := by simp [fracs]

@[simp] theorem length_colCounts (counts : List Rat) (total : Nat) (pick : List Nat) :
    (colCounts counts total pick).length = counts.length := by simp [colCounts]

theorem scaled_getD (counts : List Rat) (total : Nat) (i : Nat) :
    (scaled counts total).getD i 0 = counts.getD i 0 * total / sumQ counts := by
  by_cases hi : i < counts.length
  · simp [scaled, List.getD_eq_getElem?_getD, hi]
  · simp [scaled, List.getD_eq_getElem?_getD, hi]

theorem fracs_getD (xs : List Rat) (i : Nat) :
    (fracs xs).getD i 0 = xs.getD i 0 - (xs.getD i 0).floor := by
  by_cases hi : i < xs.length
  · simp [fracs, List.getD_eq_getElem?_getD, hi]
  · simp [fracs, List.getD_eq_getElem?_getD, hi, floor_eq]

theorem colCounts_getD (counts : List Rat) (total : Nat) (pick : List Nat) (i : Nat)
    (hi : i < counts.length) :
    (colCounts counts total pick).getD i 0 =
      if pick.contains i then ((scaled counts total).getD i 0).floor.toNat + 1
      else ((scaled counts total).getD i 0).floor.toNat := by
  simp [colCounts, floors, List.getD_eq_getElem?_getD, hi]

theorem pickOK_unpack (counts : List Rat) (total : Nat) (pick : List Nat)
    (hp : pickOK counts total pick = true) :
    pick.length = extra counts total ∧
    (∀ i ∈ pick, i < counts.length ∧ 0 < (fracs (scaled counts total)).getD i 0) ∧
    pick.Nodup := by
  simp only [pickOK, Bool.and_eq_true, beq_iff_eq, List.all_eq_true, decide_eq_true_eq,
    length_fracs, length_scaled, List.mem_range] at hp
  obtain ⟨⟨h1, h2⟩, h3⟩ := hp
  refine ⟨h1, h2, ?_⟩
  rw [List.nodup_iff_count_le_one]
  intro a
  by_cases ha : a ∈ pick
  · have := h3 a (h2 a ha).1
    rwa [← List.countP_eq_length_filter] at this
  · rw [List.count_eq_zero_of_not_mem ha]; omega


theorem zip_all_iff (xs : List Rat) (out : List Nat) (P : Rat × Nat → Bool) :
    (List.zip xs out).all P = true ↔
      ∀ i, i < xs.length → i < out.length → P (xs.getD i 0, out.getD i 0) = true := by
  rw [List.all_eq_true]
  constructor
  · intro hall i h1 h2
    apply hall
    rw [List.mem_iff_getElem]
    refine ⟨i, by simp [h1, h2], ?_⟩
    simp [List.getD_eq_getElem?_getD, h1, h2]
  · intro hall p hp
    rw [List.mem_iff_getElem] at hp
    obtain ⟨i, hi, rfl⟩ := hp
    simp only [List.length_zip, lt_min_iff] at hi
    have := hall i hi.1 hi.2
    simpa [List.getD_eq_getElem?_getD, hi.1, hi.2] using this

theorem colOK_unpack (counts : List Rat) (total : Nat) (out : List Nat) :
    colOK counts total out = true ↔
      out.length = counts.length ∧ sumN out = total ∧
      ∀ i, i < counts.length →
        (out.getD i 0 = ((scaled counts total).getD i 0).floor.toNat ∨
         (out.getD i 0 = ((scaled counts total).getD i 0).floor.toNat + 1 ∧
           0 < (scaled counts total).getD i 0 - ((scaled counts total).getD i 0).floor)) ∧
        ((scaled counts total).getD i 0 ≠ 0 ∨ out.getD i 0 = 0) := by
  simp only [colOK, Bool.and_eq_true, beq_iff_eq, zip_all_iff, length_scaled, Bool.or_eq_true,
    bne_iff_ne, ne_eq, decide_eq_true_eq]
  constructor
  · rintro ⟨⟨h1, h2⟩, h3⟩
    exact ⟨h1, h2, fun i hi => h3 i hi (h1 ▸ hi)⟩
  · rintro ⟨h1, h2, h3⟩
    exact ⟨⟨h1, h2⟩, fun i hi _ => h3 i hi⟩

/-- rounding a nonnegative `x` down, or up when it is not an integer, moves it by less than one -/
theorem abs_round_lt_one {x : Rat} (hx : 0 ≤ x) (o : Nat)
    (ho : o = x.floor.toNat ∨ (o = x.floor.toNat + 1 ∧ 0 < x - x.floor)) :
    |(o : Rat) - x| < 1 := by
  have h0 := frac_nonneg x
  have h1 := frac_lt_one x
  have hc := toNat_floor_cast hx
  rw [← floor_eq] at hc
  rw [abs_lt]
  rcases ho with ho | ⟨ho, hpos⟩
  · rw [ho, hc]; constructor <;> linarith
  · rw [ho, Nat.cast_add, hc, Nat.cast_one]; constructor <;> linarith

end PGM.Synth.Aux
