import PGM.Model.GM
import PGM.Proofs.JTree
import Mathlib.Tactic.ByContra
/-! specification of the breadth-first table `bfs t src` used by `calculate_many_marginals` -/
namespace PGM.GM
open PGM PGM.JT
set_option linter.unusedVariables false
set_option linter.unusedSectionVars false

abbrev Entry := Clique × Nat × Clique

/-- the candidate entries produced from a frontier -/
def rawNext (t : Tree) (frontier : List Clique) (seen : List Entry) (d : Nat) : List Entry :=
  frontier.flatMap (fun u =>
    (t.nbrs u).filterMap (fun v => if seen.any (fun s => s.1 == v) then none else some (v, d + 1, u)))

/-- the duplicate-dropping fold -/
def dedupFrom (acc l : List Entry) : List Entry :=
  l.foldl (fun acc e => if acc.any (fun s => s.1 == e.1) then acc else acc ++ [e]) acc

theorem bfs_go_zero (t : Tree) (frontier : List Clique) (seen : List Entry) (d : Nat) :
    bfs.go t 0 frontier seen d = seen := rfl

theorem bfs_go_succ (t : Tree) (fuel : Nat) (frontier : List Clique) (seen : List Entry) (d : Nat) :
    bfs.go t (fuel + 1) frontier seen d =
      if (dedupFrom [] (rawNext t frontier seen d)).isEmpty then seen
      else bfs.go t fuel ((dedupFrom [] (rawNext t frontier seen d)).map (·.1))
        (seen ++ dedupFrom [] (rawNext t frontier seen d)) (d + 1) := rfl

theorem mem_rawNext (t : Tree) (frontier : List Clique) (seen : List Entry) (d : Nat) (e : Entry) :
    e ∈ rawNext t frontier seen d ↔
      ∃ u ∈ frontier, ∃ v ∈ t.nbrs u, (∀ s ∈ seen, s.1 ≠ v) ∧ e = (v, d + 1, u) := by
  simp only [rawNext, List.mem_flatMap, List.mem_filterMap]
  constructor
  · rintro ⟨u, hu, v, hv, h⟩
    by_cases hs : seen.any (fun s => s.1 == v) = true
    · rw [if_pos hs] at h; cases h
    · rw [if_neg hs] at h
      refine ⟨u, hu, v, hv, ?_, (Option.some.inj h).symm⟩
      intro s hs' heq
      apply hs
      rw [List.any_eq_true]
      exact ⟨s, hs', by simp [heq]⟩
  · rintro ⟨u, hu, v, hv, hs, rfl⟩
    refine ⟨u, hu, v, hv, ?_⟩
    have : ¬ seen.any (fun s => s.1 == v) = true := by
      rw [List.any_eq_true]
      rintro ⟨s, hs', heq⟩
      exact hs s hs' (by simpa using heq)
    rw [if_neg this]

theorem dedupFrom_cons (acc : List Entry) (e : Entry) (l : List Entry) :
    dedupFrom acc (e :: l) =
      dedupFrom (if acc.any (fun s => s.1 == e.1) then acc else acc ++ [e]) l := rfl

theorem dedupFrom_mem (l : List Entry) : ∀ (acc : List Entry) (e : Entry),
    e ∈ dedupFrom acc l → e ∈ acc ∨ e ∈ l := by
  induction l with
  | nil => intro acc e h; exact Or.inl h
  | cons x xs ih =>
    intro acc e h
    rw [dedupFrom_cons] at h
    rcases ih _ e h with h' | h'
    · split at h'
      · exact Or.inl h'
      · rcases List.mem_append.mp h' with h'' | h''
        · exact Or.inl h''
        · rw [List.mem_singleton.mp h'']; exact Or.inr (by simp)
    · exact Or.inr (by simp [h'])

theorem dedupFrom_acc_sub (l : List Entry) : ∀ (acc : List Entry) (e : Entry),
    e ∈ acc → e ∈ dedupFrom acc l := by
  induction l with
  | nil => intro acc e h; exact h
  | cons x xs ih =>
    intro acc e h
    rw [dedupFrom_cons]
    apply ih
    split
    · exact h
    · exact List.mem_append_left _ h

theorem dedupFrom_keys (l : List Entry) : ∀ (acc : List Entry) (e : Entry),
    e ∈ l → ∃ e' ∈ dedupFrom acc l, e'.1 = e.1 := by
  induction l with
  | nil => intro acc e h; simp at h
  | cons x xs ih =>
    intro acc e h
    rw [dedupFrom_cons]
    rcases List.mem_cons.mp h with rfl | h
    · by_cases hany : acc.any (fun s => s.1 == e.1) = true
      · rw [if_pos hany]
        rw [List.any_eq_true] at hany
        obtain ⟨s, hs, heq⟩ := hany
        exact ⟨s, dedupFrom_acc_sub xs acc s hs, by simpa using heq⟩
      · rw [if_neg hany]
        exact ⟨e, dedupFrom_acc_sub xs _ e (by simp), rfl⟩
    · exact ih _ e h

theorem dedupFrom_nodup (l : List Entry) : ∀ (acc : List Entry),
    (acc.map (·.1)).Nodup → ((dedupFrom acc l).map (·.1)).Nodup := by
  induction l with
  | nil => intro acc h; exact h
  | cons x xs ih =>
    intro acc h
    rw [dedupFrom_cons]
    apply ih
    by_cases hany : acc.any (fun s => s.1 == x.1) = true
    · rw [if_pos hany]; exact h
    · rw [if_neg hany, List.map_append, List.nodup_append]
      refine ⟨h, by simp, ?_⟩
      intro a ha b hb hab
      simp only [List.map_cons, List.map_nil, List.mem_singleton] at hb
      obtain ⟨s, hs, rfl⟩ := List.mem_map.mp ha
      apply hany
      rw [List.any_eq_true]
      exact ⟨s, hs, by simp [hab, hb]⟩

/-- the loop invariant of `bfs.go` -/
structure BfsInv (t : Tree) (src : Clique) (frontier : List Clique) (seen : List Entry) (d : Nat) :
    Prop where
  keys_nodup : (seen.map (·.1)).Nodup
  keys_nodes : ∀ e ∈ seen, e.1 ∈ t.nodes
  dist_le : ∀ e ∈ seen, e.2.1 ≤ d
  frontier_iff : ∀ v, v ∈ frontier ↔ ∃ e ∈ seen, e.1 = v ∧ e.2.1 = d
  src_mem : (src, 0, src) ∈ seen
  pred_ok : ∀ e ∈ seen, e.1 ≠ src →
    ∃ e' ∈ seen, e'.1 = e.2.2 ∧ e'.2.1 + 1 = e.2.1 ∧ t.adj e.2.2 e.1 = true
  closed : ∀ e ∈ seen, e.2.1 < d → ∀ v ∈ t.nodes, t.adj e.1 v = true →
    ∃ e' ∈ seen, e'.1 = v ∧ e'.2.1 ≤ e.2.1 + 1

/-- what the finished table satisfies -/
structure BfsSpec (t : Tree) (src : Clique) (T : List Entry) : Prop where
  keys_nodup : (T.map (·.1)).Nodup
  keys_nodes : ∀ e ∈ T, e.1 ∈ t.nodes
  src_mem : (src, 0, src) ∈ T
  pred_ok : ∀ e ∈ T, e.1 ≠ src →
    ∃ e' ∈ T, e'.1 = e.2.2 ∧ e'.2.1 + 1 = e.2.1 ∧ t.adj e.2.2 e.1 = true
  closed : ∀ e ∈ T, ∀ v ∈ t.nodes, t.adj e.1 v = true → ∃ e' ∈ T, e'.1 = v ∧ e'.2.1 ≤ e.2.1 + 1

theorem mem_nbrs_iff (t : Tree) (u v : Clique) : v ∈ t.nbrs u ↔ v ∈ t.nodes ∧ t.adj u v = true := by
  simp [Tree.nbrs]

theorem bfs_go_spec (t : Tree) (src : Clique) (hnd : t.nodes.Nodup) :
    ∀ (fuel : Nat) (frontier : List Clique) (seen : List Entry) (d : Nat),
      BfsInv t src frontier seen d → t.nodes.length + 1 ≤ fuel + seen.length →
      BfsSpec t src (bfs.go t fuel frontier seen d) := by
  intro fuel
  induction fuel with
  | zero =>
    intro frontier seen d inv hfuel
    exfalso
    have h1 : (seen.map (·.1)).length ≤ t.nodes.length :=
      List.Nodup.length_le_of_subset inv.keys_nodup (by
        intro a ha
        obtain ⟨e, he, rfl⟩ := List.mem_map.mp ha
        exact inv.keys_nodes e he)
    rw [List.length_map] at h1
    omega
  | succ fuel ih =>
    intro frontier seen d inv hfuel
    rw [bfs_go_succ]
    have hnextmem : ∀ e ∈ dedupFrom [] (rawNext t frontier seen d),
        ∃ u ∈ frontier, ∃ v ∈ t.nbrs u, (∀ s ∈ seen, s.1 ≠ v) ∧ e = (v, d + 1, u) := by
      intro e he
      rcases dedupFrom_mem _ [] e he with h | h
      · simp at h
      · exact (mem_rawNext t frontier seen d e).mp h
    by_cases hemp : (dedupFrom [] (rawNext t frontier seen d)).isEmpty = true
    · rw [if_pos hemp]
      have hraw : ∀ e, e ∉ rawNext t frontier seen d := by
        intro e he
        obtain ⟨e', he', _⟩ := dedupFrom_keys _ [] e he
        rw [List.isEmpty_iff.mp hemp] at he'
        simp at he'
      refine ⟨inv.keys_nodup, inv.keys_nodes, inv.src_mem, inv.pred_ok, ?_⟩
      intro e he v hv hadj
      rcases Nat.lt_or_ge e.2.1 d with hlt | hge
      · exact inv.closed e he hlt v hv hadj
      · have hed : e.2.1 = d := Nat.le_antisymm (inv.dist_le e he) hge
        have hfr : e.1 ∈ frontier := (inv.frontier_iff e.1).mpr ⟨e, he, rfl, hed⟩
        by_contra hcon
        apply hraw (v, d + 1, e.1)
        rw [mem_rawNext]
        refine ⟨e.1, hfr, v, (mem_nbrs_iff t e.1 v).mpr ⟨hv, hadj⟩, ?_, rfl⟩
        intro s hs hsv
        exact hcon ⟨s, hs, hsv, by have := inv.dist_le s hs; omega⟩
    · rw [if_neg hemp]
      apply ih
      · -- the invariant is preserved
        have hkeysnew : ∀ e ∈ dedupFrom [] (rawNext t frontier seen d), ∀ s ∈ seen, s.1 ≠ e.1 := by
          intro e he s hs
          obtain ⟨u, hu, v, hv, hns, rfl⟩ := hnextmem e he
          exact hns s hs
        refine ⟨?_, ?_, ?_, ?_, ?_, ?_, ?_⟩
        · rw [List.map_append, List.nodup_append]
          refine ⟨inv.keys_nodup, dedupFrom_nodup _ [] (by simp), ?_⟩
          intro a ha b hb hab
          obtain ⟨s, hs, rfl⟩ := List.mem_map.mp ha
          obtain ⟨e, he, rfl⟩ := List.mem_map.mp hb
          exact hkeysnew e he s hs hab
        · intro e he
          rcases List.mem_append.mp he with h | h
          · exact inv.keys_nodes e h
          · obtain ⟨u, hu, v, hv, hns, rfl⟩ := hnextmem e h
            exact ((mem_nbrs_iff t u v).mp hv).1
        · intro e he
          rcases List.mem_append.mp he with h | h
          · have := inv.dist_le e h; omega
          · obtain ⟨u, hu, v, hv, hns, rfl⟩ := hnextmem e h
            exact Nat.le_refl _
        · intro v
          constructor
          · intro hv
            obtain ⟨e, he, rfl⟩ := List.mem_map.mp hv
            refine ⟨e, List.mem_append_right _ he, rfl, ?_⟩
            obtain ⟨u, hu, v, hv, hns, rfl⟩ := hnextmem e he
            rfl
          · rintro ⟨e, he, rfl, hed⟩
            rcases List.mem_append.mp he with h | h
            · have := inv.dist_le e h; omega
            · exact List.mem_map_of_mem h
        · exact List.mem_append_left _ inv.src_mem
        · intro e he hne
          rcases List.mem_append.mp he with h | h
          · obtain ⟨e', he', h1, h2, h3⟩ := inv.pred_ok e h hne
            exact ⟨e', List.mem_append_left _ he', h1, h2, h3⟩
          · obtain ⟨u, hu, v, hv, hns, rfl⟩ := hnextmem e h
            obtain ⟨e', he', h1, h2⟩ := (inv.frontier_iff u).mp hu
            exact ⟨e', List.mem_append_left _ he', h1, by simp [h2], ((mem_nbrs_iff t u v).mp hv).2⟩
        · intro e he hlt v hv hadj
          rcases List.mem_append.mp he with h | h
          · rcases Nat.lt_or_ge e.2.1 d with hlt' | hge
            · obtain ⟨e', he', h1, h2⟩ := inv.closed e h hlt' v hv hadj
              exact ⟨e', List.mem_append_left _ he', h1, h2⟩
            · have hed : e.2.1 = d := Nat.le_antisymm (inv.dist_le e h) hge
              have hfr : e.1 ∈ frontier := (inv.frontier_iff e.1).mpr ⟨e, h, rfl, hed⟩
              by_cases hseen : ∃ s ∈ seen, s.1 = v
              · obtain ⟨s, hs, hsv⟩ := hseen
                exact ⟨s, List.mem_append_left _ hs, hsv, by have := inv.dist_le s hs; omega⟩
              · have hraw : (v, d + 1, e.1) ∈ rawNext t frontier seen d := by
                  rw [mem_rawNext]
                  refine ⟨e.1, hfr, v, (mem_nbrs_iff t e.1 v).mpr ⟨hv, hadj⟩, ?_, rfl⟩
                  intro s hs hsv
                  exact hseen ⟨s, hs, hsv⟩
                obtain ⟨e', he', hk⟩ := dedupFrom_keys _ [] _ hraw
                refine ⟨e', List.mem_append_right _ he', hk, ?_⟩
                obtain ⟨u', hu', v', hv', hns', rfl⟩ := hnextmem e' he'
                show d + 1 ≤ e.2.1 + 1
                omega
          · obtain ⟨u, hu, v', hv', hns, rfl⟩ := hnextmem e h
            simp at hlt
      · have : 0 < (dedupFrom [] (rawNext t frontier seen d)).length := by
          rw [List.length_pos_iff]
          intro h
          exact hemp (by rw [h]; rfl)
        rw [List.length_append]
        omega

theorem bfs_spec (t : Tree) (src : Clique) (hnd : t.nodes.Nodup) (hsrc : src ∈ t.nodes) :
    BfsSpec t src (bfs t src) := by
  unfold bfs
  apply bfs_go_spec t src hnd
  · refine ⟨by simp, ?_, ?_, ?_, by simp, ?_, ?_⟩
    · intro e he; simp at he; subst he; exact hsrc
    · intro e he; simp at he; subst he; exact Nat.le_refl _
    · intro v
      simp only [List.mem_singleton]
      constructor
      · rintro rfl; exact ⟨_, rfl, rfl, rfl⟩
      · rintro ⟨e, rfl, rfl, _⟩; rfl
    · intro e he hne; simp at he; subst he; exact absurd rfl hne
    · intro e he hlt; simp at he; subst he; simp at hlt
  · simp

end PGM.GM
