import PGM.Proofs.ExactDisjointCore
import PGM.Proofs.OracleSem
/-!
# On a disjoint family nothing is relaxed: the approximate oracles return the exact marginals

`ExactDisjointCore.lean` proves, over `LogOf K`, that on a pairwise disjoint family the exact
marginal of the product model on clique `c` is `ψ_c(σ) / Σ ψ_c`.  Here this is tied to the
real-number, log-space oracles of `OracleSem.lean`:

* `expImage θ` / `expPots pots` — the exp-space image (`LogOf ℝ`) of log-space real tables;
* `normalise_real_sem` — cell `σ` of `RG.normalise T θ` is `T · exp θ(σ) / Σ exp θ`;
* `gbp_get_disjoint`, `hps_get_disjoint`, `lbp_get_disjoint` — on a disjoint family each of the
  three approximate oracles returns the *table* `RG.normalise T (pots.get c)` (domain, shape and
  data; `OracleSem` states the flat data only);
* `disjoint_oracle_exact` — hence each returns `T · marginal / Z` of the product model `∏ exp θ_c`;
* `exact_eq_approx_disjoint` — hence (C01) exact junction-tree belief propagation, run on any
  accepted junction tree of the family, returns tables with the same semantics.
-/
namespace PGM.ExactDisjoint
open PGM PGM.JT PGM.Sem

/-! ### the exp-space image of a log-space table -/

/-- the exp-space image of a real log-space table: same domain and shape, `exp` of every cell -/
noncomputable def expImage (θ : Factor ℝ) : Factor (LogOf ℝ) :=
  ⟨θ.dom, ⟨θ.vals.shape, θ.vals.data.map (fun x => (⟨Real.exp x⟩ : LogOf ℝ))⟩⟩

/-- the product model `∏_c exp θ_c` of a real potential vector -/
noncomputable def expPots (pots : CliqueVec ℝ) : CliqueVec (LogOf ℝ) :=
  pots.map (fun p => (p.1, expImage p.2))

theorem expImage_dom (θ : Factor ℝ) : (expImage θ).dom = θ.dom := rfl

theorem expImage_WF (θ : Factor ℝ) (h : θ.WF) : (expImage θ).WF := by
  refine ⟨h.1, h.2.1, ?_⟩
  show (θ.vals.data.map _).size = size θ.vals.shape
  rw [Array.size_map]
  exact h.2.2

/-- cell by cell, unconditionally (outside the table both sides are the default, `exp 0 = 1`) -/
theorem expImage_sem (θ : Factor ℝ) (σ : Attr → Nat) :
    ((expImage θ).sem σ).v = Real.exp (θ.sem σ) := by
  show ((θ.vals.data.map (fun x => (⟨Real.exp x⟩ : LogOf ℝ))).getD
      (ravel θ.vals.shape (θ.dom.attrs.map σ)) default).v
    = Real.exp (θ.vals.data.getD (ravel θ.vals.shape (θ.dom.attrs.map σ)) default)
  rw [Array.getD_eq_getD_getElem?, Array.getD_eq_getD_getElem?, Array.getElem?_map]
  cases θ.vals.data[ravel θ.vals.shape (θ.dom.attrs.map σ)]? with
  | none =>
    show (1 : ℝ) = Real.exp 0
    exact Real.exp_zero.symm
  | some x => rfl

theorem expImage_logsumexpAll (θ : Factor ℝ) : ((expImage θ).logsumexpAll).v = Oracle.expSum θ := by
  show (Scalar.lse (θ.vals.data.map (fun x => (⟨Real.exp x⟩ : LogOf ℝ))).toList).v = _
  rw [BP.lse_v, Array.toList_map, List.map_map]
  rfl

/-- the sum of the exp-space image over all cells is `Σ exp θ` -/
theorem sumOver_expImage (d : Dom) (θ : Factor ℝ) (σ : Attr → Nat) (h : θ.WF)
    (hag : θ.dom.Agrees d) :
    sumOver d θ.dom.attrs σ (fun τ => ((expImage θ).sem τ).v) = Oracle.expSum θ := by
  rw [← expImage_logsumexpAll, BP.logsumexpAll_v d (expImage θ) σ (expImage_WF θ h) hag,
    BP.sumOver_eq_nsum d _ h.1]
  rfl

theorem lookup_expPots (pots : CliqueVec ℝ) (c : Clique) :
    (expPots pots).lookup c = (pots.lookup c).map expImage := by
  induction pots with
  | nil => rfl
  | cons q qs ih =>
    obtain ⟨k, v⟩ := q
    show List.lookup c ((k, expImage v) :: expPots qs) = _
    rw [List.lookup_cons, List.lookup_cons]
    cases c == k
    · exact ih
    · rfl

theorem keys_expPots (pots : CliqueVec ℝ) : (expPots pots).map Prod.fst = pots.map Prod.fst := by
  unfold expPots
  rw [List.map_map]
  rfl

theorem get_expPots (pots : CliqueVec ℝ) (c : Clique) (hc : c ∈ pots.map Prod.fst) :
    (expPots pots).get c = expImage (pots.get c) := by
  obtain ⟨f, hf, _⟩ := BP.lookup_isSome_of_mem pots c hc
  unfold CliqueVec.get
  rw [lookup_expPots, hf]
  rfl

/-! ### `RG.normalise` over the reals, cell by cell -/

/-- cell `σ` of `RG.normalise T θ` is `T · softmax(θ)(σ)` -/
theorem normalise_real_sem (T : ℝ) (θ : Factor ℝ) (hT : 0 < T) (h : θ.WF) (σ : Attr → Nat)
    (hσ : θ.dom.Valid σ) :
    (RG.normalise T θ).sem σ = T * Real.exp (θ.sem σ) / Oracle.expSum θ := by
  have hin := Factor.inRange_of_valid θ.dom h.1 σ hσ
  have hi : ravel θ.dom.shape (θ.dom.attrs.map σ) < θ.vals.data.size := by
    have := h.2.2
    unfold NdArr.WF at this
    rw [this, h.2.1]
    exact ravel_lt _ _ hin
  have hsem : θ.sem σ = θ.vals.data[ravel θ.dom.shape (θ.dom.attrs.map σ)] := by
    show θ.vals.data.getD (ravel θ.vals.shape (θ.dom.attrs.map σ)) default = _
    rw [h.2.1, Array.getD_eq_getD_getElem?, Array.getElem?_eq_getElem hi]
    rfl
  show (RG.normalise T θ).vals.data.getD
    (ravel (RG.normalise T θ).vals.shape ((RG.normalise T θ).dom.attrs.map σ)) default = _
  rw [Oracle.normalise_shape, Oracle.normalise_dom, Array.getD_eq_getD_getElem?,
    Oracle.normalise_entry T θ hT _ hi, hsem]
  rfl

/-- `RG.normalise T b` depends on `b` only through its domain and flat data -/
theorem normalise_congr (T : ℝ) (b b' : Factor ℝ) (hdom : b.dom = b'.dom)
    (hdv : b.datavector = b'.datavector) : RG.normalise T b = RG.normalise T b' := by
  have hdata : b.vals.data = b'.vals.data := Array.toList_inj.mp hdv
  have e : ∀ x : Factor ℝ, RG.normalise T x
      = ⟨x.dom, ⟨x.dom.shape, (x.vals.data.map
          (fun v => v + (Real.log T + -Real.log (Oracle.expSum x)))).map Real.exp⟩⟩ := fun _ => rfl
  have hs : Oracle.expSum b = Oracle.expSum b' := by unfold Oracle.expSum; rw [hdata]
  rw [e b, e b', hdom, hdata, hs]

/-! ### the product model of an exp-space image has a positive partition function -/

theorem joint_expPots_pos (pots : CliqueVec ℝ) (τ : Attr → Nat) : 0 < joint (expPots pots) τ := by
  unfold joint
  apply List.prod_pos
  intro x hx
  obtain ⟨p, hp, rfl⟩ := List.mem_map.mp hx
  obtain ⟨q, _, rfl⟩ := List.mem_map.mp hp
  show 0 < ((expImage q.2).sem τ).v
  rw [expImage_sem]
  exact Real.exp_pos _

/-- `Z > 0` as soon as the domain has a valid assignment at all (no attribute of size 0) -/
theorem partition_expPots_pos (d : Dom) (hd : d.WF) (pots : CliqueVec ℝ) (σ : Attr → Nat)
    (hσ : d.Valid σ) : 0 < partition d (expPots pots) := by
  unfold partition sumOver
  apply List.sum_pos
  · intro x hx
    obtain ⟨v, _, rfl⟩ := List.mem_map.mp hx
    exact joint_expPots_pos _ _
  · intro h
    have hin := Factor.inRange_of_valid d hd σ hσ
    rw [Dom.shape_eq_map_cfg d hd] at hin
    have hm := inRange_mem_cells _ _ hin
    rw [List.map_eq_nil_iff.mp h] at hm
    exact absurd hm (by simp)

/-! ### hypotheses on a real (log-space) model over a disjoint family -/

/-- the real-number counterpart of `DisjointOK`: one well-formed log-space table per clique, over
exactly that clique's attributes (any order), with the domain's sizes -/
structure RealOK (d : Dom) (cliques : List Clique) (pots : CliqueVec ℝ) : Prop where
  dom_wf : d.WF
  disjoint : Oracle.Disjoint cliques
  clique_ok : ∀ c ∈ cliques, c.Nodup ∧ ∀ a ∈ c, a ∈ d.attrs
  keys : pots.map Prod.fst = cliques
  pot_ok : ∀ p ∈ pots, p.2.WF ∧ p.2.dom.attrs.Perm p.1 ∧ p.2.dom.Agrees d

theorem RealOK.expOK {d : Dom} {cliques : List Clique} {pots : CliqueVec ℝ}
    (h : RealOK d cliques pots) : DisjointOK d cliques (expPots pots) := by
  refine ⟨h.dom_wf, h.disjoint, h.clique_ok, by rw [keys_expPots]; exact h.keys, ?_⟩
  intro p hp
  obtain ⟨q, hq, rfl⟩ := List.mem_map.mp hp
  obtain ⟨a, b, c⟩ := h.pot_ok q hq
  exact ⟨expImage_WF _ a, b, c⟩

theorem RealOK.get_ok {d : Dom} {cliques : List Clique} {pots : CliqueVec ℝ}
    (h : RealOK d cliques pots) (c : Clique) (hc : c ∈ cliques) :
    (pots.get c).WF ∧ (pots.get c).dom.attrs.Perm c ∧ (pots.get c).dom.Agrees d := by
  obtain ⟨f, hf, hmem⟩ := BP.lookup_isSome_of_mem pots c (by rw [h.keys]; exact hc)
  rw [BP.get_of_lookup pots c f hf]
  exact h.pot_ok _ hmem

/-- **`T · softmax(θ_c)` is the exact marginal**: cell `σ` of `RG.normalise T θ_c` equals
`T · marginal / Z` of the product model `∏ exp θ`, for every disjoint family -/
theorem normalise_real_exact (d : Dom) (cliques : List Clique) (pots : CliqueVec ℝ)
    (h : RealOK d cliques pots) (T : ℝ) (hT : 0 < T) (c : Clique) (hc : c ∈ cliques)
    (σ : Attr → Nat) (hσ : d.Valid σ) :
    (RG.normalise T (pots.get c)).sem σ
      = T * marginal d (expPots pots) c σ / partition d (expPots pots) := by
  have hE := h.expOK
  have hZ : partition d (expPots pots) ≠ 0 := (partition_expPots_pos d h.dom_wf pots σ hσ).ne'
  have hget := get_expPots pots c (by rw [h.keys]; exact hc)
  obtain ⟨hw, hp, ha⟩ := h.get_ok c hc
  have hσc : (pots.get c).dom.Valid σ := by
    have := hE.valid_get c hc σ hσ
    rwa [hget] at this
  have key := marginal_div_partition d h.dom_wf cliques h.disjoint hE.hsub (expPots pots) hE.keys
    hE.hpot hZ c hc (h.clique_ok c hc).1 σ
  rw [hget] at key
  have hsum : sumOver d c σ (fun τ => ((expImage (pots.get c)).sem τ).v)
      = Oracle.expSum (pots.get c) := by
    rw [← sumOver_perm d (pots.get c).dom.attrs c σ _ hp hw.1]
    exact sumOver_expImage d (pots.get c) σ hw ha
  rw [hsum, expImage_sem] at key
  rw [normalise_real_sem T (pots.get c) hT hw σ hσc, mul_div_assoc, mul_div_assoc, key]

/-! ### the three approximate oracles return the table `normalise T θ_c` -/

theorem gbp_get_disjoint (dom : Dom) (cliques : List Clique) (pots : CliqueVec ℝ) (T : ℝ)
    (iters : Nat) (msgs : RG.Msgs ℝ) (hd : Oracle.Disjoint cliques) (hne : ∀ c ∈ cliques, c ≠ [])
    (c : Clique) (hc : c ∈ cliques) :
    (RG.gbp dom (RG.build cliques false true) pots T iters msgs).1.get c
      = RG.normalise T (pots.get c) := by
  have hnd := Oracle.nodup_of_disjoint cliques hd hne
  obtain ⟨h1, hflat⟩ := Oracle.build_disjoint cliques false true hd hnd hne
  rw [Oracle.gbp_flat dom _ hflat, Oracle.get_fill]
  · exact normalise_congr T _ _ rfl (Oracle.addScalar_zero_datavector _)
  · rw [h1, Oracle.buildOn_cliques, Oracle.mem_sortByLen]; exact hc

theorem hps_get_disjoint (dom : Dom) (cliques : List Clique) (pots : CliqueVec ℝ) (T : ℝ)
    (iters : Nat) (rho conv : ℝ) (msgs : RG.Msgs ℝ) (hi : 0 < iters)
    (hd : Oracle.Disjoint cliques) (hne : ∀ c ∈ cliques, c ≠ []) (c : Clique) (hc : c ∈ cliques) :
    (RG.hps dom (RG.build cliques true true) (fun _ => 1) pots T iters rho conv msgs).1.get c
      = RG.normalise T (pots.get c) := by
  have hnd := Oracle.nodup_of_disjoint cliques hd hne
  obtain ⟨h1, hflat⟩ := Oracle.build_disjoint cliques true true hd hnd hne
  rw [Oracle.hps_flat dom _ hflat _ _ _ _ _ _ _ hi, Oracle.get_fill]
  · have hpot : RG.potOf dom (RG.build cliques true true) pots c = pots.get c := by
      unfold RG.potOf
      rw [if_pos]
      rw [h1, Oracle.buildOn_cliques]
      exact List.contains_iff_mem.mpr ((Oracle.mem_sortByLen _ _).mpr hc)
    unfold Oracle.hpsFlatBelief
    rw [hpot]
    exact normalise_congr T _ _ rfl (Oracle.hpsFlatBelief_one_datavector _)
  · rw [h1, Oracle.buildOn_regions]; exact hc

theorem lbp_get_disjoint (dom : Dom) (cliques : List Clique) (pots : CliqueVec ℝ) (T : ℝ)
    (iters : Nat) (hd : Oracle.Disjoint cliques) (hnd : cliques.Nodup)
    (htup : ∀ cl ∈ cliques, cl.Nodup)
    (hpot : ∀ cl ∈ cliques, (pots.get cl).WF ∧ (pots.get cl).dom = dom.project cl)
    (c : Clique) (hc : c ∈ cliques) :
    (FG.lbp dom cliques pots T iters (FG.initMessages dom cliques)).1.get c
      = RG.normalise T (pots.get c) := by
  rw [Oracle.lbp_get _ _ _ _ _ _ c hc]
  have hyp : Oracle.LbpHyp dom cliques pots := ⟨hd, hnd, htup, hpot⟩
  have hs := Oracle.lbp_state_inv dom cliques pots hyp iters
  have hpre := Oracle.pre_zeroSum dom cliques _ hs c hc
  rw [← (hpot c hc).2] at hpre
  obtain ⟨_, h2, h3⟩ := Oracle.addSum_zeroSum (pots.get c) _ (hpot c hc).1 hpre
  unfold Oracle.lbpBelief
  exact normalise_congr T _ _ h2 h3

/-! ### the final statements -/

/-- the hypotheses under which all three approximate oracles are defined and agree (what the Python
guarantees for a disjoint family): non-empty pairwise disjoint duplicate-free cliques inside the
domain, one well-formed log-space table per clique, laid out over `d.project clique` -/
structure OracleOK (d : Dom) (cliques : List Clique) (pots : CliqueVec ℝ) : Prop where
  dom_wf : d.WF
  disjoint : Oracle.Disjoint cliques
  nonempty : ∀ c ∈ cliques, c ≠ []
  clique_ok : ∀ c ∈ cliques, c.Nodup ∧ ∀ a ∈ c, a ∈ d.attrs
  keys : pots.map Prod.fst = cliques
  pot_ok : ∀ p ∈ pots, p.2.WF ∧ p.2.dom = d.project p.1

theorem project_agrees (d : Dom) (as : List Attr) : (d.project as).Agrees d := by
  intro p hp
  obtain ⟨a, _, rfl⟩ := List.mem_map.mp hp
  rfl

theorem OracleOK.realOK {d : Dom} {cliques : List Clique} {pots : CliqueVec ℝ}
    (h : OracleOK d cliques pots) : RealOK d cliques pots := by
  refine ⟨h.dom_wf, h.disjoint, h.clique_ok, h.keys, ?_⟩
  intro p hp
  obtain ⟨hw, hdom⟩ := h.pot_ok p hp
  refine ⟨hw, ?_, ?_⟩
  · rw [hdom, Dom.attrs_project]
  · rw [hdom]; exact project_agrees d p.1

theorem OracleOK.get_ok {d : Dom} {cliques : List Clique} {pots : CliqueVec ℝ}
    (h : OracleOK d cliques pots) (c : Clique) (hc : c ∈ cliques) :
    (pots.get c).WF ∧ (pots.get c).dom = d.project c := by
  obtain ⟨f, hf, hmem⟩ := BP.lookup_isSome_of_mem pots c (by rw [h.keys]; exact hc)
  rw [BP.get_of_lookup pots c f hf]
  exact h.pot_ok _ hmem

/-- **on a disjoint family nothing is relaxed**: generalised belief propagation (any number of
sweeps, any message state), the convex Hazan–Peng–Shashua oracle (any positive number of sweeps,
any damping / tolerance / message state) and loopy belief propagation (any number of sweeps) each
return, on every clique `c` and at every valid assignment `σ`, exactly
`T · marginal(σ) / Z` of the product model `∏_c exp θ_c` -/
theorem disjoint_oracle_exact (d : Dom) (cliques : List Clique) (pots : CliqueVec ℝ)
    (h : OracleOK d cliques pots) (T : ℝ) (hT : 0 < T)
    (i₁ i₂ i₃ : Nat) (rho conv : ℝ) (hi : 0 < i₂) (m₁ m₂ : RG.Msgs ℝ)
    (c : Clique) (hc : c ∈ cliques) (σ : Attr → Nat) (hσ : d.Valid σ) :
    ((RG.gbp d (RG.build cliques false true) pots T i₁ m₁).1.get c).sem σ
      = T * marginal d (expPots pots) c σ / partition d (expPots pots) ∧
    ((RG.hps d (RG.build cliques true true) (fun _ => 1) pots T i₂ rho conv m₂).1.get c).sem σ
      = T * marginal d (expPots pots) c σ / partition d (expPots pots) ∧
    ((FG.lbp d cliques pots T i₃ (FG.initMessages d cliques)).1.get c).sem σ
      = T * marginal d (expPots pots) c σ / partition d (expPots pots) := by
  have hnd := Oracle.nodup_of_disjoint cliques h.disjoint h.nonempty
  have key := normalise_real_exact d cliques pots h.realOK T hT c hc σ hσ
  rw [gbp_get_disjoint d cliques pots T i₁ m₁ h.disjoint h.nonempty c hc,
    hps_get_disjoint d cliques pots T i₂ rho conv m₂ hi h.disjoint h.nonempty c hc,
    lbp_get_disjoint d cliques pots T i₃ h.disjoint hnd (fun cl hcl => (h.clique_ok cl hcl).1)
      (fun cl hcl => h.get_ok cl hcl) c hc]
  exact ⟨key, key, key⟩

/-- `ModelOK` for the exp-space image only needs the structural facts: the sign condition is
automatic (`exp ≥ 0`) -/
theorem modelOK_expPots (d : Dom) (cliques : List Clique) (t : Tree)
    (order : List (Clique × Clique)) (pots : CliqueVec ℝ) (hd : d.WF) (hn : t.nodes = cliques)
    (hjt : checkJT d.attrs [] t order = true)
    (hcl : ∀ c ∈ cliques, c.Nodup ∧ ∀ a ∈ c, a ∈ d.attrs)
    (hkeys : pots.map Prod.fst = cliques)
    (hpot : ∀ p ∈ pots, p.2.WF ∧ p.2.dom.attrs.Perm p.1 ∧ p.2.dom.Agrees d) :
    ModelOK d cliques t order (expPots pots) := by
  refine ⟨hd, hn, hjt, hcl, by rw [keys_expPots]; exact hkeys, ?_, ?_⟩
  · intro p hp
    obtain ⟨q, hq, rfl⟩ := List.mem_map.mp hp
    obtain ⟨a, b, c⟩ := hpot q hq
    exact ⟨expImage_WF _ a, b, c⟩
  · intro p hp x hx
    obtain ⟨q, _, rfl⟩ := List.mem_map.mp hp
    have hx' : x ∈ (q.2.vals.data.map (fun y => (⟨Real.exp y⟩ : LogOf ℝ))).toList := hx
    rw [Array.toList_map] at hx'
    obtain ⟨y, _, rfl⟩ := List.mem_map.mp hx'
    exact (Real.exp_pos y).le

/-- **the exact oracle and the approximate oracles coincide on a disjoint family**: exact
junction-tree belief propagation (C01) on *any* junction tree and schedule accepted by the checker
for the family, run on the exp-space image of the potentials with total `T`, returns on every
clique a table over that clique's attributes whose cells are those returned by generalised belief
propagation, by the convex oracle and by loopy belief propagation -/
theorem exact_eq_approx_disjoint (d : Dom) (cliques : List Clique) (t : Tree)
    (order : List (Clique × Clique)) (pots : CliqueVec ℝ)
    (hok : ModelOK d cliques t order (expPots pots))
    (hdis : Oracle.Disjoint cliques) (hne : ∀ c ∈ cliques, c ≠ [])
    (hpot : ∀ p ∈ pots, p.2.WF ∧ p.2.dom = d.project p.1)
    (T : ℝ) (hT : 0 < T) (i₁ i₂ i₃ : Nat) (rho conv : ℝ) (hi : 0 < i₂) (m₁ m₂ : RG.Msgs ℝ)
    (c : Clique) (hc : c ∈ cliques) (σ : Attr → Nat) (hσ : d.Valid σ) :
    ((GM.beliefPropagation cliques order (expPots pots) ⟨T⟩).get c).dom.attrs = c ∧
    (((GM.beliefPropagation cliques order (expPots pots) ⟨T⟩).get c).sem σ).v
      = ((RG.gbp d (RG.build cliques false true) pots T i₁ m₁).1.get c).sem σ ∧
    (((GM.beliefPropagation cliques order (expPots pots) ⟨T⟩).get c).sem σ).v
      = ((RG.hps d (RG.build cliques true true) (fun _ => 1) pots T i₂ rho conv m₂).1.get c).sem σ ∧
    (((GM.beliefPropagation cliques order (expPots pots) ⟨T⟩).get c).sem σ).v
      = ((FG.lbp d cliques pots T i₃ (FG.initMessages d cliques)).1.get c).sem σ := by
  have hO : OracleOK d cliques pots :=
    ⟨hok.dom_wf, hdis, hne, hok.clique_ok, by rw [← keys_expPots]; exact hok.keys, hpot⟩
  have hZ : partition d (expPots pots) ≠ 0 := (partition_expPots_pos d hok.dom_wf pots σ hσ).ne'
  obtain ⟨b1, b2⟩ := Sem.BP.bp_marginals d cliques t order (expPots pots) hok ⟨T⟩ hZ c hc σ hσ
  obtain ⟨o1, o2, o3⟩ := disjoint_oracle_exact d cliques pots hO T hT i₁ i₂ i₃ rho conv hi m₁ m₂
    c hc σ hσ
  refine ⟨?_, by rw [b2, o1], by rw [b2, o2], by rw [b2, o3]⟩
  rw [b1, get_expPots pots c (by rw [hO.keys]; exact hc), expImage_dom, (hO.get_ok c hc).2,
    Dom.attrs_project]

/-! ## non-vacuity: two disjoint cliques over a 3-attribute domain

`exDom = [a:2, b:3, c:2]`, cliques `[a,b]` and `[c]` (from `OracleSem.lean`), zero log-potentials,
the junction tree with the single edge `[a,b] — [c]` (empty separator). -/
section Examples

def exTree : Tree := ⟨Oracle.exCliques, [(["a", "b"], ["c"])]⟩
def exOrder : List (Clique × Clique) := [(["a", "b"], ["c"]), (["c"], ["a", "b"])]

theorem ex_checkJT : checkJT Oracle.exDom.attrs [] exTree exOrder = true := by decide

theorem zeros_real_WF (D : Dom) (hD : D.WF) : (Factor.zeros D : Factor ℝ).WF := by
  refine ⟨hD, rfl, ?_⟩
  show (Array.replicate (size D.shape) (Scalar.zero : ℝ)).size = size D.shape
  simp

theorem ex_oracleOK : OracleOK Oracle.exDom Oracle.exCliques Oracle.exPots := by
  refine ⟨by decide, Oracle.exCliques_ok.1, Oracle.exCliques_ok.2.2, ?_, rfl, ?_⟩
  · intro c hc
    simp only [Oracle.exCliques, List.mem_cons, List.mem_nil_iff, or_false] at hc
    rcases hc with rfl | rfl <;> exact ⟨by decide, by decide⟩
  · intro p hp
    simp only [Oracle.exPots, List.mem_cons, List.mem_nil_iff, or_false] at hp
    rcases hp with rfl | rfl
    · exact ⟨zeros_real_WF _ (Oracle.project_WF _ _ (by decide)), rfl⟩
    · exact ⟨zeros_real_WF _ (Oracle.project_WF _ _ (by decide)), rfl⟩

theorem ex_modelOK : ModelOK Oracle.exDom Oracle.exCliques exTree exOrder (expPots Oracle.exPots) :=
  modelOK_expPots Oracle.exDom Oracle.exCliques exTree exOrder Oracle.exPots ex_oracleOK.dom_wf rfl ex_checkJT
    ex_oracleOK.clique_ok ex_oracleOK.keys ex_oracleOK.realOK.pot_ok

theorem ex_valid : Oracle.exDom.Valid (fun _ => 0) := by
  intro p hp
  simp only [Oracle.exDom, List.mem_cons, List.mem_nil_iff, or_false] at hp
  rcases hp with rfl | rfl | rfl <;> decide

/-- all hypotheses of `disjoint_oracle_exact` hold for the example, on both cliques -/
example (c : Clique) (hc : c ∈ Oracle.exCliques) (m₁ m₂ : RG.Msgs ℝ) :=
  disjoint_oracle_exact Oracle.exDom Oracle.exCliques Oracle.exPots ex_oracleOK 10 (by norm_num) 3 2 5 0.5 0.001
    (by decide) m₁ m₂ c hc (fun _ => 0) ex_valid

/-- all hypotheses of `exact_eq_approx_disjoint` hold for the example -/
example (m₁ m₂ : RG.Msgs ℝ) :=
  exact_eq_approx_disjoint Oracle.exDom Oracle.exCliques exTree exOrder Oracle.exPots ex_modelOK Oracle.exCliques_ok.1
    Oracle.exCliques_ok.2.2 ex_oracleOK.pot_ok 10 (by norm_num) 3 2 5 0.5 0.001 (by decide) m₁ m₂
    ["a", "b"] (by simp [Oracle.exCliques]) (fun _ => 0) ex_valid

/-- … and of the field-generic `bp_eq_normalise_disjoint` (here `K = ℝ`) -/
example :=
  bp_eq_normalise_disjoint Oracle.exDom Oracle.exCliques exTree exOrder (expPots Oracle.exPots) ex_modelOK
    Oracle.exCliques_ok.1 ⟨10⟩ (partition_expPots_pos Oracle.exDom ex_oracleOK.dom_wf Oracle.exPots _ ex_valid).ne'
    ["c"] (by simp [Oracle.exCliques]) (fun _ => 0) ex_valid

end Examples

end PGM.ExactDisjoint
