import PGM.Proofs.SumOver
import PGM.Proofs.BPCorrect
import PGM.Proofs.OracleGraph
import PGM.Properties.C01
/-!
# On a disjoint family nothing is relaxed (semantic core)

For pairwise disjoint cliques the joint `∏_c ψ_c` is a product of functions of disjoint groups of
variables.  Summing out everything but clique `c` therefore factorises:

* `marginal d pots c σ = ψ_c(σ) · W`
* `partition d pots    = (Σ_{x_c} ψ_c) · W`

with the *same* `W` (the sum of the other potentials over the complement of `c`), so that

  `marginal / partition = ψ_c(σ) / Σ_{x_c} ψ_c`            (`marginal_div_partition`)

— the exact marginal is the softmax of the clique's own potential.  Applying the common last step
`RG.normalise` of the approximate oracles to the raw potential gives exactly
`total · marginal / partition` (`normalise_exact`), which is what exact junction-tree belief
propagation returns (`bp_eq_normalise_disjoint`, via C01).

Everything here is over `LogOf K` for an arbitrary linearly ordered field `K` (the exp-space image
of the log-space code), as in C01.  The bridge to the real-number / log-space oracles of
`OracleSem.lean` is in `ExactDisjoint.lean`.
-/
namespace PGM.ExactDisjoint
open PGM PGM.JT PGM.Sem

variable {K : Type} [Field K] [LinearOrder K] [IsStrictOrderedRing K]
set_option linter.unusedSectionVars false

/-! ### the abstract factorisation -/

theorem mem_invert (d : Dom) (as : List Attr) (a : Attr) :
    a ∈ d.invert as ↔ a ∈ d.attrs ∧ a ∉ as := by
  simp [Dom.invert]

theorem invert_nodup (d : Dom) (hd : d.WF) (as : List Attr) : (d.invert as).Nodup :=
  List.Nodup.filter _ hd

/-- a duplicate-free sub-list of the attributes, followed by its complement, lists every attribute
once -/
theorem append_invert_perm (d : Dom) (hd : d.WF) (c : List Attr) (hc : c.Nodup)
    (hsub : ∀ a ∈ c, a ∈ d.attrs) :
    (c ++ d.invert c).Nodup ∧ (c ++ d.invert c).Perm d.attrs := by
  have hnd : (c ++ d.invert c).Nodup := by
    rw [List.nodup_append]
    refine ⟨hc, invert_nodup d hd c, ?_⟩
    intro a ha b hb hab
    subst hab
    exact ((mem_invert d c a).mp hb).2 ha
  refine ⟨hnd, ?_⟩
  rw [List.perm_ext_iff_of_nodup hnd hd]
  intro a
  rw [List.mem_append, mem_invert]
  constructor
  · rintro (h | h)
    · exact hsub a h
    · exact h.1
  · intro h
    by_cases hac : a ∈ c
    · exact Or.inl hac
    · exact Or.inr ⟨h, hac⟩

/-- **Fubini for a product of two functions of complementary groups of variables**: if `F` reads
only the attributes `c` and `R` only the others, then the sum of `F·R` over the complement of `c`
is `F(σ)·W` and the sum over everything is `(Σ_c F)·W`, with the same `W = Σ_{¬c} R` -/
theorem factorise (d : Dom) (hd : d.WF) (c : List Attr) (hc : c.Nodup)
    (hsub : ∀ a ∈ c, a ∈ d.attrs) (F R : (Attr → Nat) → K)
    (hF : DependsOn F c) (hR : DependsOn R (d.invert c)) (σ σ₀ : Attr → Nat) :
    sumOver d (d.invert c) σ (fun τ => F τ * R τ) = F σ * sumOver d (d.invert c) σ R ∧
    sumOver d d.attrs σ₀ (fun τ => F τ * R τ) = sumOver d c σ F * sumOver d (d.invert c) σ R := by
  have inner : ∀ τ : Attr → Nat,
      sumOver d (d.invert c) τ (fun ρ => F ρ * R ρ) = F τ * sumOver d (d.invert c) τ R := by
    intro τ
    apply sumOver_factor_left
    intro v _
    exact hF.override τ _ v (fun a ha => ((mem_invert d c a).mp ha).2)
  refine ⟨inner σ, ?_⟩
  obtain ⟨hnd, hperm⟩ := append_invert_perm d hd c hc hsub
  rw [← sumOver_perm d _ _ σ₀ _ hperm hnd,
    sumOver_append d c (d.invert c) σ₀ _ hc (fun a ha hb => ((mem_invert d c a).mp hb).2 ha)]
  have e : (fun τ => sumOver d (d.invert c) τ (fun ρ => F ρ * R ρ))
      = fun τ => F τ * sumOver d (d.invert c) σ R := by
    funext τ
    rw [inner τ, sumOver_base_congr_of_dependsOn d (d.invert c) (d.invert c) τ σ R hR
      (fun a ha hna => absurd ha hna)]
  rw [e, sumOver_mul_right,
    sumOver_base_congr_of_dependsOn d c c σ₀ σ F hF (fun a ha hna => absurd ha hna)]

/-! ### potentials as functions of their clique -/

/-- a table reads only the attributes of its domain -/
theorem sem_dependsOn (f : Factor (LogOf K)) (S : List Attr) (h : ∀ a ∈ f.dom.attrs, a ∈ S) :
    DependsOn (fun τ => (f.sem τ).v) S := by
  intro σ τ hστ
  show (f.vals.get (f.dom.attrs.map σ)).v = (f.vals.get (f.dom.attrs.map τ)).v
  have : f.dom.attrs.map σ = f.dom.attrs.map τ :=
    List.map_congr_left (fun a ha => hστ a (h a ha))
  rw [this]

/-- the product of a list of potentials, as a function of the assignment -/
def prodOf (l : CliqueVec (LogOf K)) (τ : Attr → Nat) : K :=
  (l.map (fun p => (p.2.sem τ).v)).prod

theorem prodOf_dependsOn (l : CliqueVec (LogOf K)) (S : List Attr)
    (h : ∀ p ∈ l, ∀ a ∈ p.2.dom.attrs, a ∈ S) : DependsOn (prodOf l) S := by
  intro σ τ hστ
  unfold prodOf
  congr 1
  apply List.map_congr_left
  intro p hp
  exact sem_dependsOn p.2 S (h p hp) σ τ hστ

theorem exists_split_of_lookup (pots : CliqueVec (LogOf K)) (c : Clique) (f : Factor (LogOf K))
    (h : pots.lookup c = some f) : ∃ l₁ l₂, pots = l₁ ++ (c, f) :: l₂ := by
  induction pots with
  | nil => simp at h
  | cons q qs ih =>
    obtain ⟨k, v⟩ := q
    rw [List.lookup_cons] at h
    by_cases hk : c = k
    · subst hk
      simp only [beq_self_eq_true] at h
      cases h
      exact ⟨[], qs, rfl⟩
    · have : (c == k) = false := by simpa using hk
      rw [this] at h
      obtain ⟨l₁, l₂, rfl⟩ := ih h
      exact ⟨(k, v) :: l₁, l₂, rfl⟩

/-- the joint of `l₁ ++ (c,f) :: l₂` splits off the factor `f` -/
theorem joint_split (l₁ l₂ : CliqueVec (LogOf K)) (c : Clique) (f : Factor (LogOf K)) :
    joint (l₁ ++ (c, f) :: l₂) = fun τ => (f.sem τ).v * prodOf (l₁ ++ l₂) τ := by
  funext τ
  unfold joint prodOf
  simp only [List.map_append, List.map_cons, List.prod_append, List.prod_cons]
  ring

/-! ### the semantic core -/

/-- **the sum over the complement of a clique factorises** (hypotheses as weak as they get: the
cliques are pairwise disjoint sub-lists of the domain's attributes, `pots` has one table per
clique, reading only that clique's attributes).  `W` is the contribution of all the *other*
cliques; it is common to the marginal and to the partition function. -/
theorem marginal_partition_factor (d : Dom) (hd : d.WF) (cliques : List Clique)
    (hdis : Oracle.Disjoint cliques) (hsub : ∀ c ∈ cliques, ∀ a ∈ c, a ∈ d.attrs)
    (pots : CliqueVec (LogOf K)) (hkeys : pots.map Prod.fst = cliques)
    (hpot : ∀ p ∈ pots, ∀ a ∈ p.2.dom.attrs, a ∈ p.1)
    (c : Clique) (hc : c ∈ cliques) (hcn : c.Nodup) (σ : Attr → Nat) :
    ∃ W : K,
      marginal d pots c σ = ((pots.get c).sem σ).v * W ∧
      partition d pots = sumOver d c σ (fun τ => ((pots.get c).sem τ).v) * W := by
  obtain ⟨f, hf, _⟩ := BP.lookup_isSome_of_mem pots c (by rw [hkeys]; exact hc)
  rw [BP.get_of_lookup pots c f hf]
  obtain ⟨l₁, l₂, rfl⟩ := exists_split_of_lookup pots c f hf
  -- every other clique is disjoint from `c`
  have hdis' : ∀ p ∈ l₁ ++ l₂, ∀ x ∈ p.1, x ∉ c := by
    subst hkeys
    unfold Oracle.Disjoint at hdis
    rw [List.map_append, List.map_cons, List.pairwise_append] at hdis
    obtain ⟨_, h2, h3⟩ := hdis
    rw [List.pairwise_cons] at h2
    intro p hp x hx hxc
    rcases List.mem_append.mp hp with h | h
    · exact h3 p.1 (List.mem_map_of_mem h) c (by simp) x hx hxc
    · exact h2.1 p.1 (List.mem_map_of_mem h) x hxc hx
  have hmem : ∀ p ∈ l₁ ++ l₂, p ∈ l₁ ++ (c, f) :: l₂ := by
    intro p hp
    rcases List.mem_append.mp hp with h | h
    · exact List.mem_append_left _ h
    · exact List.mem_append_right _ (List.mem_cons_of_mem _ h)
  have hF : DependsOn (fun τ => (f.sem τ).v) c :=
    sem_dependsOn f c (hpot (c, f) (by simp))
  have hR : DependsOn (prodOf (l₁ ++ l₂)) (d.invert c) := by
    apply prodOf_dependsOn
    intro p hp a ha
    have hap : a ∈ p.1 := hpot p (hmem p hp) a ha
    rw [mem_invert]
    refine ⟨hsub p.1 ?_ a hap, hdis' p hp a hap⟩
    rw [← hkeys]
    exact List.mem_map_of_mem (hmem p hp)
  obtain ⟨h1, h2⟩ := factorise d hd c hcn (hsub c hc) _ _ hF hR σ (fun _ => 0)
  refine ⟨sumOver d (d.invert c) σ (prodOf (l₁ ++ l₂)), ?_, ?_⟩
  · unfold marginal
    rw [joint_split]
    exact h1
  · unfold partition
    rw [joint_split]
    exact h2

/-- cross-multiplied form, no hypothesis on `Z` -/
theorem marginal_mul_sum (d : Dom) (hd : d.WF) (cliques : List Clique)
    (hdis : Oracle.Disjoint cliques) (hsub : ∀ c ∈ cliques, ∀ a ∈ c, a ∈ d.attrs)
    (pots : CliqueVec (LogOf K)) (hkeys : pots.map Prod.fst = cliques)
    (hpot : ∀ p ∈ pots, ∀ a ∈ p.2.dom.attrs, a ∈ p.1)
    (c : Clique) (hc : c ∈ cliques) (hcn : c.Nodup) (σ : Attr → Nat) :
    marginal d pots c σ * sumOver d c σ (fun τ => ((pots.get c).sem τ).v)
      = ((pots.get c).sem σ).v * partition d pots := by
  obtain ⟨W, h1, h2⟩ := marginal_partition_factor d hd cliques hdis hsub pots hkeys hpot c hc hcn σ
  rw [h1, h2]
  ring

/-- **on a disjoint family the exact marginal of the product model on clique `c` is the softmax of
`c`'s own potential**: `marginal / Z = ψ_c(σ) / Σ_{x_c} ψ_c(x_c)` -/
theorem marginal_div_partition (d : Dom) (hd : d.WF) (cliques : List Clique)
    (hdis : Oracle.Disjoint cliques) (hsub : ∀ c ∈ cliques, ∀ a ∈ c, a ∈ d.attrs)
    (pots : CliqueVec (LogOf K)) (hkeys : pots.map Prod.fst = cliques)
    (hpot : ∀ p ∈ pots, ∀ a ∈ p.2.dom.attrs, a ∈ p.1)
    (hZ : partition d pots ≠ 0)
    (c : Clique) (hc : c ∈ cliques) (hcn : c.Nodup) (σ : Attr → Nat) :
    marginal d pots c σ / partition d pots
      = ((pots.get c).sem σ).v / sumOver d c σ (fun τ => ((pots.get c).sem τ).v) := by
  obtain ⟨W, h1, h2⟩ := marginal_partition_factor d hd cliques hdis hsub pots hkeys hpot c hc hcn σ
  have hW : W ≠ 0 := by
    intro h0
    apply hZ
    rw [h2, h0, mul_zero]
  rw [h1, h2, mul_div_mul_right _ _ hW]

/-- the clique's own normaliser does not vanish when `Z` does not -/
theorem clique_sum_ne_zero (d : Dom) (hd : d.WF) (cliques : List Clique)
    (hdis : Oracle.Disjoint cliques) (hsub : ∀ c ∈ cliques, ∀ a ∈ c, a ∈ d.attrs)
    (pots : CliqueVec (LogOf K)) (hkeys : pots.map Prod.fst = cliques)
    (hpot : ∀ p ∈ pots, ∀ a ∈ p.2.dom.attrs, a ∈ p.1)
    (hZ : partition d pots ≠ 0)
    (c : Clique) (hc : c ∈ cliques) (hcn : c.Nodup) (σ : Attr → Nat) :
    sumOver d c σ (fun τ => ((pots.get c).sem τ).v) ≠ 0 := by
  obtain ⟨W, _, h2⟩ := marginal_partition_factor d hd cliques hdis hsub pots hkeys hpot c hc hcn σ
  intro h0
  apply hZ
  rw [h2, h0, zero_mul]

/-! ### the hypotheses, bundled: `ModelOK` minus the junction tree and the sign condition -/

/-- a well-formed model on a pairwise disjoint family: one table per clique, over exactly that
clique's attributes (in any order), with the domain's sizes.  No junction tree, no sign condition. -/
structure DisjointOK (d : Dom) (cliques : List Clique) (pots : CliqueVec (LogOf K)) : Prop where
  dom_wf : d.WF
  disjoint : Oracle.Disjoint cliques
  clique_ok : ∀ c ∈ cliques, c.Nodup ∧ ∀ a ∈ c, a ∈ d.attrs
  keys : pots.map Prod.fst = cliques
  pot_ok : ∀ p ∈ pots, p.2.WF ∧ p.2.dom.attrs.Perm p.1 ∧ p.2.dom.Agrees d

theorem DisjointOK.of_modelOK {d : Dom} {cliques : List Clique} {t : Tree}
    {order : List (Clique × Clique)} {pots : CliqueVec (LogOf K)}
    (hok : ModelOK d cliques t order pots) (hdis : Oracle.Disjoint cliques) :
    DisjointOK d cliques pots :=
  ⟨hok.dom_wf, hdis, hok.clique_ok, hok.keys, hok.pot_ok⟩

theorem DisjointOK.hsub {d : Dom} {cliques : List Clique} {pots : CliqueVec (LogOf K)}
    (h : DisjointOK d cliques pots) : ∀ c ∈ cliques, ∀ a ∈ c, a ∈ d.attrs :=
  fun c hc => (h.clique_ok c hc).2

theorem DisjointOK.hpot {d : Dom} {cliques : List Clique} {pots : CliqueVec (LogOf K)}
    (h : DisjointOK d cliques pots) : ∀ p ∈ pots, ∀ a ∈ p.2.dom.attrs, a ∈ p.1 :=
  fun p hp _ ha => (h.pot_ok p hp).2.1.mem_iff.mp ha

/-- the table stored for a clique of the family -/
theorem DisjointOK.get_ok {d : Dom} {cliques : List Clique} {pots : CliqueVec (LogOf K)}
    (h : DisjointOK d cliques pots) (c : Clique) (hc : c ∈ cliques) :
    (pots.get c).WF ∧ (pots.get c).dom.attrs.Perm c ∧ (pots.get c).dom.Agrees d := by
  obtain ⟨f, hf, hmem⟩ := BP.lookup_isSome_of_mem pots c (by rw [h.keys]; exact hc)
  rw [BP.get_of_lookup pots c f hf]
  exact h.pot_ok _ hmem

/-- an assignment valid for the domain is valid for the table of any clique -/
theorem DisjointOK.valid_get {d : Dom} {cliques : List Clique} {pots : CliqueVec (LogOf K)}
    (h : DisjointOK d cliques pots) (c : Clique) (hc : c ∈ cliques) (σ : Attr → Nat)
    (hσ : d.Valid σ) : (pots.get c).dom.Valid σ := by
  obtain ⟨hw, hp, ha⟩ := h.get_ok c hc
  rw [Dom.valid_iff _ hw.1]
  intro a haa
  rw [← BP.agrees_cfg hw.1 ha haa]
  exact (Dom.valid_iff d h.dom_wf σ).mp hσ a (h.hsub c hc a (hp.mem_iff.mp haa))

/-! ### the common last step of the approximate oracles, at `LogOf K` -/

/-- `RG.normalise` (`belief += log total − logsumexp(belief); exp`) read in exp-space: every cell
is `total · b(σ) / Σ b` -/
theorem normalise_sem (d : Dom) (b : Factor (LogOf K)) (total : LogOf K) (σ : Attr → Nat)
    (hb : b.WF) (hag : b.dom.Agrees d) (hσ : b.dom.Valid σ) :
    (RG.normalise total b).dom = b.dom ∧
    ((RG.normalise total b).sem σ).v
      = total.v * (b.sem σ).v / sumOver d b.dom.attrs σ (fun τ => (b.sem τ).v) := by
  obtain ⟨h1, h2⟩ := BP.out_sem b (Scalar.sub (Scalar.log total) b.logsumexpAll) σ hb hσ
  refine ⟨h1, ?_⟩
  have hs : (Scalar.sub (Scalar.log total) b.logsumexpAll).v = total.v * (b.logsumexpAll.v)⁻¹ := rfl
  show (((b.iaddScalar (Scalar.sub (Scalar.log total) b.logsumexpAll)).exp).sem σ).v = _
  rw [h2, hs, BP.logsumexpAll_v d b σ hb hag, ← BP.sumOver_eq_nsum d _ hb.1, div_eq_mul_inv]
  ring

/-- **what the approximate oracles compute on a disjoint family is the exact answer**: applying
their common last step to the raw potential of clique `c` gives `total · marginal / Z` of the
product model -/
theorem normalise_exact (d : Dom) (cliques : List Clique) (pots : CliqueVec (LogOf K))
    (h : DisjointOK d cliques pots) (total : LogOf K) (hZ : partition d pots ≠ 0)
    (c : Clique) (hc : c ∈ cliques) (σ : Attr → Nat) (hσ : d.Valid σ) :
    (RG.normalise total (pots.get c)).dom = (pots.get c).dom ∧
    ((RG.normalise total (pots.get c)).sem σ).v
      = total.v * marginal d pots c σ / partition d pots := by
  obtain ⟨hw, hp, ha⟩ := h.get_ok c hc
  obtain ⟨h1, h2⟩ := normalise_sem d (pots.get c) total σ hw ha (h.valid_get c hc σ hσ)
  refine ⟨h1, ?_⟩
  rw [h2, sumOver_perm d _ c σ _ hp hw.1, mul_div_assoc, mul_div_assoc,
    marginal_div_partition d h.dom_wf cliques h.disjoint h.hsub pots h.keys h.hpot hZ c hc
      (h.clique_ok c hc).1 σ]

/-- **the exact oracle agrees with the approximate oracles' formula on a disjoint family**: for any
junction tree accepted by the checker over a pairwise disjoint family, `belief_propagation`
returns on every clique the table `normalise total (potential)`, cell by cell -/
theorem bp_eq_normalise_disjoint (d : Dom) (cliques : List Clique) (t : Tree)
    (order : List (Clique × Clique)) (pots : CliqueVec (LogOf K))
    (hok : ModelOK d cliques t order pots) (hdis : Oracle.Disjoint cliques) (total : LogOf K)
    (hZ : partition d pots ≠ 0) (c : Clique) (hc : c ∈ cliques) (σ : Attr → Nat)
    (hσ : d.Valid σ) :
    ((GM.beliefPropagation cliques order pots total).get c).dom.attrs
      = (RG.normalise total (pots.get c)).dom.attrs ∧
    (((GM.beliefPropagation cliques order pots total).get c).sem σ).v
      = ((RG.normalise total (pots.get c)).sem σ).v := by
  obtain ⟨b1, b2⟩ := Sem.BP.bp_marginals d cliques t order pots hok total hZ c hc σ hσ
  obtain ⟨n1, n2⟩ := normalise_exact d cliques pots (DisjointOK.of_modelOK hok hdis) total hZ c hc σ hσ
  exact ⟨by rw [b1, n1], by rw [b2, n2]⟩

end PGM.ExactDisjoint
