import PGM.Proofs.CoherentSum
/-! the junction-tree factorisation, abstractly: the product of the clique conditionals
`w_c / (w_c ↓ s_c)` over a running-intersection order has the clique marginals `w_c / T` -/
namespace PGM.Coherent
open PGM PGM.JT PGM.Sem
set_option linter.unusedSectionVars false
set_option linter.unusedVariables false

variable {K : Type} [Field K] [LinearOrder K] [IsStrictOrderedRing K]

/-- exp-space reading of the `-∞`-aware negation: `0 ↦ 1`, `y ↦ y⁻¹` -/
def inv' (y : K) : K := if y = 0 then 1 else y⁻¹

theorem inv'_nonneg {y : K} (h : 0 ≤ y) : 0 ≤ inv' y := by
  unfold inv'
  split
  · exact zero_le_one
  · exact inv_nonneg.mpr h

theorem mul_inv'_self {y : K} (hy : y ≠ 0) : y * inv' y = 1 := by
  unfold inv'
  rw [if_neg hy, mul_inv_cancel₀ hy]

/-- separator of `c` against the attributes seen so far -/
def sepOf (vars : List Attr) (c : Clique) : List Attr := c.filter (fun a => vars.contains a)
/-- the attributes of `c` not in the separator (in `c`'s order) -/
def restOf (vars : List Attr) (c : Clique) : List Attr :=
  c.filter (fun a => !(sepOf vars c).contains a)

theorem mem_sepOf (vars : List Attr) (c : Clique) (a : Attr) :
    a ∈ sepOf vars c ↔ a ∈ c ∧ a ∈ vars := by
  simp [sepOf, List.mem_filter]

theorem mem_restOf (vars : List Attr) (c : Clique) (a : Attr) :
    a ∈ restOf vars c ↔ a ∈ c ∧ a ∉ vars := by
  simp only [restOf, List.mem_filter, Bool.not_eq_eq_eq_not, Bool.not_true, List.contains_eq_mem,
    decide_eq_false_iff_not, mem_sepOf]
  tauto

theorem sepOf_congr (vars vars' : List Attr) (c : Clique) (h : ∀ a, a ∈ vars ↔ a ∈ vars') :
    sepOf vars c = sepOf vars' c := by
  unfold sepOf
  apply List.filter_congr
  intro a _
  rw [Bool.eq_iff_iff, List.contains_iff_mem, List.contains_iff_mem]
  exact h a

section defs
variable (d : Dom) (W : Clique → (Attr → Nat) → K)

/-- the divisor `w_c ↓ s_c` -/
def Sf (vars : List Attr) (c : Clique) : (Attr → Nat) → K :=
  fun τ => sumOver d (restOf vars c) τ (W c)

/-- one potential of the refit, in exp-space -/
def potF (vars : List Attr) (c : Clique) : (Attr → Nat) → K :=
  fun τ => W c τ * inv' (Sf d W vars c τ)

/-- the product of the potentials of the cliques listed *latest first* -/
def Qr : List Clique → (Attr → Nat) → K
  | [], _ => 1
  | c :: r, τ => Qr r τ * potF d W r.flatten c τ

/-- the attributes of the listed cliques outside `c` -/
def Uminus (rl : List Clique) (c : Clique) : List Attr :=
  d.attrs.filter (fun a => rl.any (fun c' => c'.contains a) && !c.contains a)

theorem mem_Uminus (rl : List Clique) (c : Clique) (a : Attr) :
    a ∈ Uminus d rl c ↔ a ∈ d.attrs ∧ (∃ c' ∈ rl, a ∈ c') ∧ a ∉ c := by
  simp [Uminus, List.mem_filter]

theorem Uminus_nodup (hd : d.WF) (rl : List Clique) (c : Clique) : (Uminus d rl c).Nodup :=
  List.Nodup.sublist List.filter_sublist hd

end defs

/-- running intersection for the list taken latest first -/
def RIPr : List Clique → Prop
  | [] => True
  | c :: r => (r = [] ∨ ∃ cj ∈ r, ∀ a ∈ c, (∃ ck ∈ r, a ∈ ck) → a ∈ cj) ∧ RIPr r

/-- the data of the abstract statement -/
structure TreeHyp (d : Dom) (W : Clique → (Attr → Nat) → K) (P : (Attr → Nat) → K) (T : K)
    (rl : List Clique) : Prop where
  hd : d.WF
  P0 : ∀ τ, 0 ≤ P τ
  T0 : T ≠ 0
  Tdef : ∀ σ, d.Valid σ → sumOver d d.attrs σ P = T
  cl : ∀ c ∈ rl, c.Nodup ∧ ∀ a ∈ c, a ∈ d.attrs
  dep : ∀ c ∈ rl, DependsOn (W c) c
  real : ∀ c ∈ rl, ∀ σ, d.Valid σ → W c σ = sumOver d (d.invert c) σ P

section main
variable {d : Dom} {W : Clique → (Attr → Nat) → K} {P : (Attr → Nat) → K} {T : K}

theorem TreeHyp.tail {c : Clique} {r : List Clique} (h : TreeHyp d W P T (c :: r)) :
    TreeHyp d W P T r :=
  ⟨h.hd, h.P0, h.T0, h.Tdef, fun c' hc' => h.cl c' (List.mem_cons_of_mem _ hc'),
    fun c' hc' => h.dep c' (List.mem_cons_of_mem _ hc'),
    fun c' hc' => h.real c' (List.mem_cons_of_mem _ hc')⟩

theorem TreeHyp.W_nonneg {rl : List Clique} (h : TreeHyp d W P T rl) (c : Clique) (hc : c ∈ rl)
    (σ : Attr → Nat) (hσ : d.Valid σ) : 0 ≤ W c σ := by
  rw [h.real c hc σ hσ]
  exact sumOver_nonneg d _ σ P (fun _ _ => h.P0 _)

theorem restOf_nodup {rl : List Clique} (h : TreeHyp d W P T rl) (c : Clique) (hc : c ∈ rl)
    (vars : List Attr) : (restOf vars c).Nodup :=
  List.Nodup.sublist List.filter_sublist (h.cl c hc).1

/-- the divisor is the marginal of `P` onto the separator -/
theorem Sf_eq_marg {rl : List Clique} (h : TreeHyp d W P T rl) (c : Clique) (hc : c ∈ rl)
    (vars : List Attr) (σ : Attr → Nat) (hσ : d.Valid σ) :
    Sf d W vars c σ = sumOver d (d.invert (sepOf vars c)) σ P := by
  unfold Sf
  rw [sumOver_congr_valid d h.hd _ σ _ _ hσ (fun τ hτ => h.real c hc τ hτ)]
  apply marg_merge d h.hd P c (sepOf vars c) (restOf vars c) (restOf_nodup h c hc vars)
  · intro a ha; exact ((mem_restOf vars c a).mp ha).1
  · intro a ha; exact (h.cl c hc).2 a ((mem_restOf vars c a).mp ha).1
  · intro a _
    rw [mem_sepOf, mem_restOf]
    tauto

theorem Sf_nonneg {rl : List Clique} (h : TreeHyp d W P T rl) (c : Clique) (hc : c ∈ rl)
    (vars : List Attr) (σ : Attr → Nat) (hσ : d.Valid σ) : 0 ≤ Sf d W vars c σ := by
  rw [Sf_eq_marg h c hc vars σ hσ]
  exact sumOver_nonneg d _ σ P (fun _ _ => h.P0 _)

/-- where the divisor vanishes so does the table -/
theorem W_zero_of_Sf_zero {rl : List Clique} (h : TreeHyp d W P T rl) (c : Clique) (hc : c ∈ rl)
    (vars : List Attr) (σ : Attr → Nat) (hσ : d.Valid σ) (h0 : Sf d W vars c σ = 0) : W c σ = 0 :=
  term_zero_of_sumOver_zero d h.hd (restOf vars c)
    (fun a ha => (h.cl c hc).2 a ((mem_restOf vars c a).mp ha).1) σ hσ (W c)
    (fun τ hτ => h.W_nonneg c hc τ hτ) h0

theorem Sf_override {rl : List Clique} (h : TreeHyp d W P T rl) (c : Clique) (hc : c ∈ rl)
    (vars : List Attr) (τ : Attr → Nat) (v : List Nat) :
    Sf d W vars c (Dom.override τ (restOf vars c) v) = Sf d W vars c τ := by
  apply ((h.dep c hc).sumOver d (restOf vars c)).override τ (restOf vars c) v
  intro a ha hm
  have := (List.mem_filter.mp hm).2
  simp at this
  exact this ha

theorem potF_dep {rl : List Clique} (h : TreeHyp d W P T rl) (c : Clique) (hc : c ∈ rl)
    (vars : List Attr) : DependsOn (potF d W vars c) c := by
  intro σ τ hστ
  unfold potF
  rw [h.dep c hc σ τ hστ]
  congr 2
  exact (((h.dep c hc).sumOver d (restOf vars c)).mono
    (fun a ha => (List.mem_filter.mp ha).1)) σ τ hστ

/-- summing the non-separator attributes out of a potential gives the indicator of the support
of the divisor -/
theorem sum_potF {rl : List Clique} (h : TreeHyp d W P T rl) (c : Clique) (hc : c ∈ rl)
    (vars : List Attr) (τ : Attr → Nat) :
    sumOver d (restOf vars c) τ (potF d W vars c) = Sf d W vars c τ * inv' (Sf d W vars c τ) := by
  unfold potF
  exact sumOver_factor_right d (restOf vars c) τ (W c) (fun ρ => inv' (Sf d W vars c ρ))
    (fun v _ => by
      show inv' (Sf d W vars c (Dom.override τ (restOf vars c) v)) = inv' (Sf d W vars c τ)
      rw [Sf_override h c hc vars τ v])

theorem Qr_cons (c : Clique) (r : List Clique) :
    Qr d W (c :: r) = fun τ => Qr d W r τ * potF d W r.flatten c τ := by
  funext τ; rfl

theorem Qr_dep {rl : List Clique} (h : TreeHyp d W P T rl) : DependsOn (Qr d W rl) rl.flatten := by
  induction rl with
  | nil => intro σ τ _; rfl
  | cons c r ih =>
    intro σ τ hστ
    show Qr d W r σ * potF d W r.flatten c σ = Qr d W r τ * potF d W r.flatten c τ
    rw [ih h.tail σ τ (fun a ha => hστ a (by simp only [List.flatten_cons, List.mem_append]; exact Or.inr ha)),
      potF_dep h c (by simp) r.flatten σ τ
        (fun a ha => hστ a (by simp only [List.flatten_cons, List.mem_append]; exact Or.inl ha))]

theorem Qr_nonneg {rl : List Clique} (h : TreeHyp d W P T rl) (τ : Attr → Nat) (hτ : d.Valid τ) :
    0 ≤ Qr d W rl τ := by
  induction rl with
  | nil => exact zero_le_one
  | cons c r ih =>
    show 0 ≤ Qr d W r τ * (W c τ * inv' (Sf d W r.flatten c τ))
    exact mul_nonneg (ih h.tail) (mul_nonneg (h.W_nonneg c (by simp) τ hτ)
      (inv'_nonneg (Sf_nonneg h c (by simp) _ τ hτ)))

/-- **the clique marginals of the product of conditionals** (cliques listed latest first) -/
theorem tree_marginals {rl : List Clique} (h : TreeHyp d W P T rl) (hrip : RIPr rl) :
    ∀ c ∈ rl, ∀ σ, d.Valid σ → sumOver d (Uminus d rl c) σ (Qr d W rl) = W c σ / T := by
  induction rl with
  | nil => intro c hc; simp at hc
  | cons c r ih =>
    have hd := h.hd
    have hc0 : c ∈ c :: r := by simp
    have hrestnd := restOf_nodup h c hc0 r.flatten
    obtain ⟨hr, hripr⟩ := hrip
    rcases hr with hr | ⟨cj, hcj, hsep⟩
    · -- first clique
      subst hr
      intro c' hc' σ hσ
      have : c' = c := by simpa using hc'
      subst this
      have hU : Uminus d [c'] c' = [] := by
        unfold Uminus
        rw [List.filter_eq_nil_iff]
        intro a _
        simp
      rw [hU, sumOver_nil]
      show (1 : K) * (W c' σ * inv' (Sf d W [].flatten c' σ)) = _
      have hS : Sf d W [].flatten c' σ = T := by
        rw [Sf_eq_marg h c' hc0 _ σ hσ]
        have : d.invert (sepOf [].flatten c') = d.attrs := by
          unfold Dom.invert sepOf
          simp
        rw [this, h.Tdef σ hσ]
      rw [hS, one_mul]
      unfold inv'
      rw [if_neg h.T0, div_eq_mul_inv]
    · have ih' := ih h.tail hripr
      have hcjr : cj ∈ c :: r := List.mem_cons_of_mem _ hcj
      -- the prefix product vanishes where the divisor does
      have hzero : ∀ τ, d.Valid τ → Sf d W r.flatten c τ = 0 → Qr d W r τ = 0 := by
        intro τ hτ h0
        have hWj : W cj τ = 0 := by
          have hD : (cj.filter (fun a => !c.contains a)).Nodup :=
            List.Nodup.sublist List.filter_sublist (h.cl cj hcjr).1
          have hm := marg_merge d hd P cj (sepOf r.flatten c) (cj.filter (fun a => !c.contains a)) hD
            (fun a ha => (List.mem_filter.mp ha).1)
            (fun a ha => (h.cl cj hcjr).2 a (List.mem_filter.mp ha).1)
            (fun a _ => by
              rw [mem_sepOf, List.mem_filter, List.mem_flatten]
              simp only [Bool.not_eq_eq_eq_not, Bool.not_true, List.contains_eq_mem,
                decide_eq_false_iff_not]
              constructor
              · rintro ⟨h1, ck, hck, h2⟩
                exact ⟨hsep a h1 ⟨ck, hck, h2⟩, fun hh => hh.2 h1⟩
              · rintro ⟨h1, h2⟩
                have : a ∈ c := by
                  by_contra hn
                  exact h2 ⟨h1, hn⟩
                exact ⟨this, cj, hcj, h1⟩) τ
          rw [← Sf_eq_marg h c hc0 r.flatten τ hτ, h0,
            ← sumOver_congr_valid d hd _ τ _ _ hτ (fun ρ hρ => h.real cj hcjr ρ hρ)] at hm
          exact term_zero_of_sumOver_zero d hd _
            (fun a ha => (h.cl cj hcjr).2 a (List.mem_filter.mp ha).1) τ hτ (W cj)
            (fun ρ hρ => h.W_nonneg cj hcjr ρ hρ) hm
        have hs := ih' cj hcj τ hτ
        rw [hWj, zero_div] at hs
        exact term_zero_of_sumOver_zero d hd _
          (fun a ha => ((mem_Uminus d r cj a).mp ha).1) τ hτ (Qr d W r)
          (fun ρ hρ => Qr_nonneg h.tail ρ hρ) hs
      intro c' hc' σ hσ
      rw [Qr_cons]
      rcases List.mem_cons.mp hc' with hcc | hc'r
      · -- the new clique itself
        subst hcc
        have hUeq : ∀ a, a ∈ Uminus d (c' :: r) c' ↔ a ∈ d.attrs ∧ (∃ ck ∈ r, a ∈ ck) ∧ a ∉ c' := by
          intro a
          rw [mem_Uminus]
          constructor
          · rintro ⟨h1, ⟨ck, hck, h2⟩, h3⟩
            rcases List.mem_cons.mp hck with e | e
            · subst e; exact absurd h2 h3
            · exact ⟨h1, ⟨ck, e, h2⟩, h3⟩
          · rintro ⟨h1, ⟨ck, hck, h2⟩, h3⟩
            exact ⟨h1, ⟨ck, List.mem_cons_of_mem _ hck, h2⟩, h3⟩
        rw [sumOver_factor_right d _ σ (Qr d W r) (potF d W r.flatten c')
          (fun v _ => (potF_dep h c' hc0 r.flatten).override σ _ v
            (fun a ha => ((hUeq a).mp ha).2.2))]
        -- the prefix product summed down to the separator
        have hD : (cj.filter (fun a => !c'.contains a)).Nodup :=
          List.Nodup.sublist List.filter_sublist (h.cl cj hcjr).1
        have hsplit := sumOver_merge d (cj.filter (fun a => !c'.contains a)) (Uminus d r cj)
          (Uminus d (c' :: r) c') σ (Qr d W r) hD (Uminus_nodup d hd r cj) (Uminus_nodup d hd _ c')
          (fun a ha hm => ((mem_Uminus d r cj a).mp hm).2.2 (List.mem_filter.mp ha).1)
          (fun a => by
            rw [hUeq a, mem_Uminus, List.mem_filter]
            simp only [Bool.not_eq_eq_eq_not, Bool.not_true, List.contains_eq_mem,
              decide_eq_false_iff_not]
            constructor
            · rintro ⟨h1, ⟨ck, hck, h2⟩, h3⟩
              by_cases haj : a ∈ cj
              · exact Or.inl ⟨haj, h3⟩
              · exact Or.inr ⟨h1, ⟨ck, hck, h2⟩, haj⟩
            · rintro (⟨h1, h2⟩ | ⟨h1, ⟨ck, hck, h2⟩, h3⟩)
              · exact ⟨(h.cl cj hcjr).2 a h1, ⟨cj, hcj, h1⟩, h2⟩
              · exact ⟨h1, ⟨ck, hck, h2⟩, fun hac => h3 (hsep a hac ⟨ck, hck, h2⟩)⟩)
        rw [← hsplit, sumOver_congr_valid d hd _ σ _ _ hσ (fun τ hτ => ih' cj hcj τ hτ),
          sumOver_div, sumOver_congr_valid d hd _ σ _ _ hσ (fun ρ hρ => h.real cj hcjr ρ hρ)]
        have hm := marg_merge d hd P cj (sepOf r.flatten c') (cj.filter (fun a => !c'.contains a)) hD
          (fun a ha => (List.mem_filter.mp ha).1)
          (fun a ha => (h.cl cj hcjr).2 a (List.mem_filter.mp ha).1)
          (fun a _ => by
            rw [mem_sepOf, List.mem_filter, List.mem_flatten]
            simp only [Bool.not_eq_eq_eq_not, Bool.not_true, List.contains_eq_mem,
              decide_eq_false_iff_not]
            constructor
            · rintro ⟨h1, ck, hck, h2⟩
              exact ⟨hsep a h1 ⟨ck, hck, h2⟩, fun hh => hh.2 h1⟩
            · rintro ⟨h1, h2⟩
              have : a ∈ c' := by
                by_contra hn
                exact h2 ⟨h1, hn⟩
              exact ⟨this, cj, hcj, h1⟩) σ
        rw [hm, ← Sf_eq_marg h c' hc0 r.flatten σ hσ]
        unfold potF
        by_cases hS : Sf d W r.flatten c' σ = 0
        · rw [W_zero_of_Sf_zero h c' hc0 _ σ hσ hS, hS]
          simp
        · have := mul_inv'_self hS
          rw [div_mul_eq_mul_div, mul_left_comm, this, mul_one]
      · -- an earlier clique
        have hsplit := sumOver_merge d (Uminus d r c') (restOf r.flatten c)
          (Uminus d (c :: r) c') σ (fun τ => Qr d W r τ * potF d W r.flatten c τ)
          (Uminus_nodup d hd r c') hrestnd (Uminus_nodup d hd _ c')
          (fun a ha hm => by
            obtain ⟨_, ⟨ck, hck, h2⟩, _⟩ := (mem_Uminus d r c' a).mp ha
            exact ((mem_restOf _ _ _).mp hm).2 (List.mem_flatten.mpr ⟨ck, hck, h2⟩))
          (fun a => by
            rw [mem_Uminus, mem_Uminus, mem_restOf, List.mem_flatten]
            constructor
            · rintro ⟨h1, ⟨ck, hck, h2⟩, h3⟩
              by_cases hex : ∃ l ∈ r, a ∈ l
              · exact Or.inl ⟨h1, hex, h3⟩
              · rcases List.mem_cons.mp hck with e | e
                · subst e; exact Or.inr ⟨h2, hex⟩
                · exact absurd ⟨ck, e, h2⟩ hex
            · rintro (⟨h1, ⟨ck, hck, h2⟩, h3⟩ | ⟨h1, h2⟩)
              · exact ⟨h1, ⟨ck, List.mem_cons_of_mem _ hck, h2⟩, h3⟩
              · exact ⟨(h.cl c hc0).2 a h1, ⟨c, hc0, h1⟩, fun hac => h2 ⟨c', hc'r, hac⟩⟩)
        rw [← hsplit, ← ih' c' hc'r σ hσ]
        apply sumOver_congr_valid d hd _ σ _ _ hσ
        intro τ hτ
        rw [sumOver_factor_left d _ τ (Qr d W r) (potF d W r.flatten c)
          (fun v _ => (Qr_dep h.tail).override τ _ v
            (fun a ha => ((mem_restOf _ _ _).mp ha).2)), sum_potF h c hc0]
        by_cases hS : Sf d W r.flatten c τ = 0
        · rw [hzero τ hτ hS, zero_mul]
        · rw [mul_inv'_self hS, mul_one]

end main
end PGM.Coherent
