import PGM.Proofs.JTSchedulePicks
/-!
# the deterministic greedy order is the stochastic loop with "first index of least cost" picks

`greedyOrder` (mode `stochastic=False`) and `greedyOrderPicks` (mode `stochastic=True`) describe the
same loop: when every pick is the index of the first unmarked attribute of least `elimCost`, the
second returns the order of the first together with its accumulated cost `greedyCost`.
-/
namespace PGM.JT

/-- `i` is the index of the first element of `l` of least key -/
def isFirstMinIdx (f : Attr → Nat) (l : List Attr) (i : Nat) : Bool :=
  match l[i]? with
  | none => false
  | some a => l.all (fun x => decide (f a ≤ f x)) && (l.take i).all (fun x => decide (f a < f x))

/-- every pick is the index of the first unmarked attribute of least elimination cost, and the picks
run until no attribute is left -/
def detPicks (d : Dom) : List Clique → List Attr → List Nat → Bool
  | _, unmarked, [] => unmarked.isEmpty
  | cliques, unmarked, i :: picks =>
    match unmarked[i]? with
    | none => false
    | some a =>
      isFirstMinIdx (elimCost d cliques) unmarked i &&
        detPicks d (elimStep cliques a) (unmarked.filter (· != a)) picks

theorem isFirstMinIdx_iff (f : Attr → Nat) (l : List Attr) (i : Nat) :
    isFirstMinIdx f l i = true ↔
      ∃ h : i < l.length, (∀ k (hk : k < l.length), f l[i] ≤ f l[k]) ∧
        ∀ k (hk : k < i), f l[i] < f l[k] := by
  unfold isFirstMinIdx
  by_cases hi : i < l.length
  · rw [List.getElem?_eq_getElem hi]
    simp only [Bool.and_eq_true, List.all_eq_true, decide_eq_true_eq]
    constructor
    · rintro ⟨h1, h2⟩
      refine ⟨hi, fun k hk => h1 _ (List.getElem_mem hk), fun k hk => h2 _ ?_⟩
      rw [List.mem_take_iff_getElem]
      exact ⟨k, by omega, rfl⟩
    · rintro ⟨_, h1, h2⟩
      refine ⟨fun x hx => ?_, fun x hx => ?_⟩
      · obtain ⟨k, hk, rfl⟩ := List.getElem_of_mem hx
        exact h1 k hk
      · rw [List.mem_take_iff_getElem] at hx
        obtain ⟨k, hk, rfl⟩ := hx
        exact h2 k (by omega)
  · rw [List.getElem?_eq_none (by omega)]
    simp only [Bool.false_eq_true, false_iff]
    rintro ⟨h, -⟩
    exact hi h

theorem firstMin_unique (f : Attr → Nat) (pre post : List Attr) (best a : Attr) (i : Nat)
    (hpre : ∀ x ∈ pre, f best < f x) (hpost : ∀ x ∈ post, f best ≤ f x)
    (hget : (pre ++ best :: post)[i]? = some a)
    (hall : ∀ x ∈ pre ++ best :: post, f a ≤ f x)
    (htake : ∀ x ∈ (pre ++ best :: post).take i, f a < f x) : a = best := by
  have hbest := hall best (by simp)
  rcases Nat.lt_trichotomy i pre.length with hlt | heq | hgt
  · rw [List.getElem?_append_left hlt] at hget
    have := hpre a (List.mem_of_getElem? hget)
    omega
  · subst heq
    rw [List.getElem?_append_right (Nat.le_refl _), Nat.sub_self, List.getElem?_cons_zero] at hget
    exact (Option.some.inj hget).symm
  · obtain ⟨k, rfl⟩ : ∃ k, i = pre.length + (k + 1) := ⟨i - pre.length - 1, by omega⟩
    have hmem : best ∈ (pre ++ best :: post).take (pre.length + (k + 1)) := by
      rw [List.take_append]
      simp
    have hlt := htake best hmem
    rcases List.mem_append.1 (List.mem_of_getElem? hget) with hx | hx
    · have := hpre a hx; omega
    · rcases List.mem_cons.1 hx with rfl | hx
      · rfl
      · have := hpost a hx; omega

theorem isFirstMinIdx_eq_best (f : Attr → Nat) (u : Attr) (us : List Attr) (i : Nat) (a : Attr)
    (hget : (u :: us)[i]? = some a) (h : isFirstMinIdx f (u :: us) i = true) :
    a = us.foldl (fun b a => if f a < f b then a else b) u := by
  obtain ⟨pre, post, he, hpre, hpost⟩ := foldl_argmin_split f us [] u [] (by simp) (by simp)
  simp only [List.nil_append, List.cons_append] at he
  simp only [isFirstMinIdx, hget, Bool.and_eq_true, List.all_eq_true, decide_eq_true_eq] at h
  rw [he] at hget h
  exact firstMin_unique f pre post _ a i hpre hpost hget h.1 h.2

theorem greedyOrder_succ (d : Dom) (cliques : List Clique) (u : Attr) (us : List Attr) (fuel : Nat) :
    greedyOrder d cliques (u :: us) (fuel + 1) =
      (us.foldl (fun b a => if elimCost d cliques a < elimCost d cliques b then a else b) u) ::
        greedyOrder d
          (elimStep cliques
            (us.foldl (fun b a => if elimCost d cliques a < elimCost d cliques b then a else b) u))
          ((u :: us).filter
            (· != us.foldl (fun b a => if elimCost d cliques a < elimCost d cliques b then a else b) u))
          fuel := by
  rfl

/-- **the two definitions describe the same loop** -/
theorem greedyOrderPicks_det (d : Dom) (picks : List Nat) :
    ∀ (cliques : List Clique) (attrs : List Attr), attrs.Nodup →
      detPicks d cliques attrs picks = true →
      greedyOrderPicks d cliques attrs picks =
        (greedyOrder d cliques attrs attrs.length,
          greedyCost d cliques (greedyOrder d cliques attrs attrs.length)) := by
  induction picks with
  | nil =>
    intro cliques attrs _ h
    simp only [detPicks, List.isEmpty_iff] at h
    subst h
    rw [greedyOrderPicks_nil]
    rfl
  | cons i ps ih =>
    intro cliques attrs hnd h
    cases attrs with
    | nil => simp [detPicks] at h
    | cons u us =>
      unfold detPicks at h
      cases hget : (u :: us)[i]? with
      | none => simp [hget] at h
      | some a =>
        simp only [hget, Bool.and_eq_true] at h
        obtain ⟨hmin, hrest⟩ := h
        have hbest := isFirstMinIdx_eq_best (elimCost d cliques) u us i a hget hmin
        have hmem : a ∈ u :: us := List.mem_of_getElem? hget
        have hl := length_filter_ne hnd hmem
        simp only [List.length_cons, Nat.add_sub_cancel] at hl
        rw [greedyOrderPicks_cons d cliques u us i ps a hget, ih _ _ (hnd.filter _) hrest, hl,
          List.length_cons, greedyOrder_succ, ← hbest]
        rfl

/-- such picks always exist (and are in range): the link is not vacuous -/
theorem detPicks_exists (d : Dom) : ∀ (n : Nat) (cliques : List Clique) (attrs : List Attr),
    attrs.Nodup → attrs.length = n →
    ∃ picks, detPicks d cliques attrs picks = true ∧ picks.length = n ∧
      picksInRange n picks = true := by
  intro n
  induction n with
  | zero =>
    intro cliques attrs _ hlen
    have : attrs = [] := List.eq_nil_of_length_eq_zero hlen
    subst this
    exact ⟨[], rfl, rfl, rfl⟩
  | succ n ih =>
    intro cliques attrs hnd hlen
    cases attrs with
    | nil => simp at hlen
    | cons u us =>
      obtain ⟨pre, post, he, hpre, hpost⟩ :=
        foldl_argmin_split (elimCost d cliques) us [] u [] (by simp) (by simp)
      simp only [List.nil_append, List.cons_append] at he
      generalize us.foldl
        (fun b a => if elimCost d cliques a < elimCost d cliques b then a else b) u = best at *
      have hget : (u :: us)[pre.length]? = some best := by
        rw [he, List.getElem?_append_right (Nat.le_refl _), Nat.sub_self, List.getElem?_cons_zero]
      have hmem : best ∈ u :: us := List.mem_of_getElem? hget
      have hl := length_filter_ne hnd hmem
      simp only [List.length_cons, Nat.add_sub_cancel] at hl hlen
      obtain ⟨ps, h1, h2, h3⟩ := ih (elimStep cliques best) ((u :: us).filter (· != best))
        (hnd.filter _) (by omega)
      refine ⟨pre.length :: ps, ?_, by simp [h2], ?_⟩
      · unfold detPicks
        simp only [hget, Bool.and_eq_true]
        refine ⟨?_, h1⟩
        simp only [isFirstMinIdx, hget, Bool.and_eq_true, List.all_eq_true, decide_eq_true_eq]
        rw [he]
        refine ⟨fun x hx => ?_, fun x hx => ?_⟩
        · rcases List.mem_append.1 hx with hx | hx
          · exact Nat.le_of_lt (hpre x hx)
          · rcases List.mem_cons.1 hx with rfl | hx
            · exact Nat.le_refl _
            · exact hpost x hx
        · rw [List.take_left] at hx
          exact hpre x hx
      · simp only [picksInRange, Bool.and_eq_true, decide_eq_true_eq, Nat.add_sub_cancel]
        refine ⟨?_, h3⟩
        have : (u :: us).length = (pre ++ best :: post).length := by rw [he]
        simp only [List.length_cons, List.length_append] at this
        omega

end PGM.JT
