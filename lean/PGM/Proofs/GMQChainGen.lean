import PGM.Proofs.GMQStepsGen
import PGM.Proofs.JTExistsDefs
import PGM.Proofs.JTree
/-!
# (A) the conditioning set of every generated column lies inside ONE earlier step's clique

`synthetic_data` generates the attributes in REVERSED elimination order and conditions the new column `col` on
`proj = used ∩ ⋃{cl ∈ self.cliques : col ∈ cl}`.  When `self.cliques` are the maximal cliques of a graph for which the elimination
order is a perfect elimination order (what `JunctionTree` builds: the triangulated graph), `proj` is the set of LATER-ELIMINATED
NEIGHBOURS of `col`; these are pairwise adjacent, so the one generated last (`u`, at position `chainParent`) has all the others among
ITS later-eliminated neighbours: `proj ⊆ proj(u) ∪ {u}` — the hypothesis `chainWF` of the rounding-mode table theorems.
-/
namespace PGM.GMQGen
open PGM PGM.JT PGM.Synth

/-- the model cliques, as far as `synthetic_data` reads them (membership only): each is complete in `g`, and every edge of `g`
between nodes lies inside one of them -/
structure CliquesOf (g : Graph) (cliques : List Clique) : Prop where
  clique : ∀ n ∈ cliques, ∀ a ∈ n, ∀ b ∈ n, a ≠ b → g.adj a b = true
  cover : ∀ a b, a ∈ g.nodes → b ∈ g.nodes → g.adj a b = true → ∃ n ∈ cliques, a ∈ n ∧ b ∈ n

/-- any listing of a maximal-clique family (`tree.maximal_cliques()` lists the nodes of the tree in depth-first order) -/
theorem CliquesOf.of_family (g : Graph) (nodes cliques : List Clique) (hfam : IsMaxCliqueFamily g nodes)
    (hmem : ∀ c, c ∈ cliques ↔ c ∈ nodes) : CliquesOf g cliques := by
  refine ⟨fun n hn a ha b hb hab => ((hfam.clique n ((hmem n).1 hn)).1).2.2 a ha b hb hab, ?_⟩
  intro a b ha hb hab
  have hne : a ≠ b := by
    intro e
    subst e
    simp [Graph.adj] at hab
  have hcl : IsClique g [a, b] := by
    refine ⟨by simp [hne], ?_, ?_⟩
    · intro x hx
      rcases List.mem_pair.1 hx with rfl | rfl
      · exact ha
      · exact hb
    · intro x hx y hy hxy
      rcases List.mem_pair.1 hx with rfl | rfl <;> rcases List.mem_pair.1 hy with rfl | rfl
      · exact absurd rfl hxy
      · exact hab
      · rw [adj_symm]; exact hab
      · exact absurd rfl hxy
  obtain ⟨n, hn, hsub⟩ := hfam.complete [a, b] hcl
  exact ⟨n, (hmem n).2 hn, hsub a (by simp), hsub b (by simp)⟩

/-- the parent of step `k`: the position (in generation order) of the conditioning attribute that was generated last -/
def chainParent (set_order : List Attr → List Attr) (cliques : List Clique) (elimination_order : List Attr) (k : Nat) : Nat :=
  ((stepProj set_order cliques elimination_order.reverse k).map (fun a => elimination_order.reverse.idxOf a)).foldl max 0

theorem foldl_max_ge (l : List Nat) (m : Nat) : m ≤ l.foldl max m ∧ ∀ x ∈ l, x ≤ l.foldl max m := by
  induction l generalizing m with
  | nil => simp
  | cons y l ih =>
    obtain ⟨h1, h2⟩ := ih (max m y)
    refine ⟨le_trans (le_max_left m y) h1, ?_⟩
    intro x hx
    rcases List.mem_cons.1 hx with rfl | hx
    · exact le_trans (le_max_right m x) h1
    · exact h2 x hx

theorem foldl_max_mem (l : List Nat) (m : Nat) : l.foldl max m = m ∨ l.foldl max m ∈ l := by
  induction l generalizing m with
  | nil => simp
  | cons y l ih =>
    rcases ih (max m y) with h | h
    · rw [List.foldl_cons, h]
      rcases max_choice m y with e | e
      · exact Or.inl e
      · exact Or.inr (by rw [e]; simp)
    · exact Or.inr (List.mem_cons_of_mem _ h)

theorem foldl_max_zero_mem (l : List Nat) (hne : l ≠ []) : l.foldl max 0 ∈ l := by
  rcases foldl_max_mem l 0 with h | h
  · cases l with
    | nil => exact absurd rfl hne
    | cons y l =>
      have := (foldl_max_ge (y :: l) 0).2 y (by simp)
      have hy : y = 0 := by omega
      rw [h, hy]; simp
  · exact h

theorem idxOf_lt_of_mem_take (o : List Attr) (hnd : o.Nodup) (k : Nat) (a : Attr) (h : a ∈ o.take k) : o.idxOf a < k := by
  obtain ⟨i, hi, e⟩ := List.getElem_of_mem h
  rw [List.getElem_take] at e
  have hi' : i < k ∧ i < o.length := by
    rw [List.length_take] at hi
    omega
  rw [← e, hnd.idxOf_getElem i hi'.2]
  exact hi'.1

theorem mem_take_of_idxOf_lt (o : List Attr) (j : Nat) (a : Attr) (ha : a ∈ o) (h : o.idxOf a < j) : a ∈ o.take j := by
  have hlt : o.idxOf a < o.length := List.idxOf_lt_length_iff.2 ha
  rw [List.mem_take_iff_getElem]
  exact ⟨o.idxOf a, by omega, List.getElem_idxOf hlt⟩

/-- positions are faithful: distinct attributes of the domain sit in distinct columns -/
theorem mem_posOf (cols : List Attr) (l : List Attr) (a : Attr) (h : a ∈ l) : cols.idxOf a ∈ posOf cols l :=
  List.mem_map.2 ⟨a, h, rfl⟩

/-- **(A)** for the generated steps: with the parent function `chainParent`, every conditional step has an earlier step whose
clique `proj ++ [col]` contains all its conditioning attributes -/
theorem chainWF_genSpecs (project : List Attr → Factor Rat) (set_order : List Attr → List Attr)
    (hso : ∀ s, (set_order s).Perm s) (domain : Dom) (cliques : List Clique) (elimination_order : List Attr)
    (hne : elimination_order ≠ []) (g : Graph) (hpeo : IsPEO g elimination_order) (hcl : CliquesOf g cliques) :
    chainWF (genSpecs project set_order domain cliques elimination_order)
      (chainParent set_order cliques elimination_order) = true := by
  have hnd : elimination_order.Nodup := hpeo.1
  set o := elimination_order.reverse with ho
  have hond : o.Nodup := List.nodup_reverse.2 hnd
  have holen : o.length = elimination_order.length := List.length_reverse
  unfold chainWF
  rw [List.all_eq_true]
  intro k hk
  rw [List.mem_range, genSpecs_length _ _ _ _ _ hne] at hk
  rw [specAt_genSpecs project set_order domain cliques elimination_order hnd k hk]
  by_cases hP : stepProj set_order cliques o k = []
  · simp [specOf, posOf, ← ho, hP]
  · have hk0 : k ≠ 0 := by
      intro e
      apply hP
      simp [stepProj, e]
    rw [Bool.or_eq_true]
    right
    set P := stepProj set_order cliques o k with hPdef
    set j := chainParent set_order cliques elimination_order k with hj
    have hPsub : ∀ a ∈ P, a ∈ o.take k := stepProj_sub set_order hso cliques o k
    have hPo : ∀ a ∈ P, a ∈ o := fun a ha => List.mem_of_mem_take (hPsub a ha)
    have hidx : ∀ a ∈ P, o.idxOf a < k := fun a ha => idxOf_lt_of_mem_take o hond k a (hPsub a ha)
    have hjmem : j ∈ P.map (fun a => o.idxOf a) := by
      rw [hj]
      unfold chainParent
      exact foldl_max_zero_mem _ (by simpa using hP)
    obtain ⟨u, hu, huj⟩ := List.mem_map.1 hjmem
    have hjk : j < k := huj ▸ hidx u hu
    have hjle : ∀ a ∈ P, o.idxOf a ≤ j := by
      intro a ha
      rw [hj]
      unfold chainParent
      exact (foldl_max_ge _ 0).2 _ (List.mem_map.2 ⟨a, ha, rfl⟩)
    have hjlen : j < elimination_order.length := by omega
    have hoj : o.getD j "" = u := by
      have hlt : j < o.length := by omega
      rw [List.getD_eq_getElem?_getD, List.getElem?_eq_getElem hlt, Option.getD_some]
      have h2 : o.idxOf u < o.length := List.idxOf_lt_length_iff.2 (hPo u hu)
      have := List.getElem_idxOf h2
      simp only [huj] at this
      exact this
    rw [Bool.and_eq_true, decide_eq_true_eq]
    refine ⟨hjk, ?_⟩
    rw [specAt_genSpecs project set_order domain cliques elimination_order hnd j hjlen, List.all_eq_true]
    intro p hp
    obtain ⟨a, ha, rfl⟩ := List.mem_map.1 hp
    show (ColSpec.pos _).contains _ = true
    rw [List.contains_iff_mem]
    unfold ColSpec.pos specOf
    simp only
    rw [← ho, hoj, List.mem_append]
    by_cases hau : a = u
    · right; rw [hau]; simp
    · left
      apply mem_posOf
      have hlt : o.idxOf a < j := by
        have h1 := hjle a ha
        have h2 : o.idxOf a ≠ j := by
          intro e
          apply hau
          exact (List.idxOf_inj (hPo a ha) (l := o) (y := u)).1 (e.trans huj.symm)
        omega
      have hj0 : j ≠ 0 := by omega
      rw [mem_stepProj set_order hso cliques o j hj0, hoj]
      refine ⟨mem_take_of_idxOf_lt o j a (hPo a ha) hlt, ?_⟩
      -- adjacency of `a` and `u` from the perfect elimination order at `col = o[k]`
      have hklen : k < o.length := by omega
      obtain ⟨_, cla, hcla, hca1, hca2⟩ := (mem_stepProj set_order hso cliques o k hk0 a).1 ha
      obtain ⟨_, clu, hclu, hcu1, hcu2⟩ := (mem_stepProj set_order hso cliques o k hk0 u).1 hu
      have hok : o.getD k "" = o[k] := by
        rw [List.getD_eq_getElem?_getD, List.getElem?_eq_getElem hklen, Option.getD_some]
      have hsplit : elimination_order = (o.drop (k + 1)).reverse ++ o[k] :: (o.take k).reverse := by
        have h1 : o = o.take k ++ o[k] :: o.drop (k + 1) := by
          rw [List.getElem_cons_drop]; exact (List.take_append_drop k o).symm
        have h2 : elimination_order = o.reverse := by rw [ho, List.reverse_reverse]
        rw [h2]
        conv_lhs => rw [h1]
        simp
      have hnotk : ∀ x ∈ o.take k, x ≠ o[k] := by
        intro x hx e
        have h1 := idxOf_lt_of_mem_take o hond k x hx
        rw [e, hond.idxOf_getElem k hklen] at h1
        omega
      have hadj_a : g.adj o[k] a = true :=
        hcl.clique cla hcla _ (hok ▸ hca1) _ hca2 (Ne.symm (hnotk a (hPsub a ha)))
      have hadj_u : g.adj o[k] u = true :=
        hcl.clique clu hclu _ (hok ▸ hcu1) _ hcu2 (Ne.symm (hnotk u (hPsub u hu)))
      have hau_adj : g.adj a u = true :=
        hpeo.2.2 _ _ _ hsplit a (List.mem_reverse.2 (hPsub a ha)) u (List.mem_reverse.2 (hPsub u hu)) hau hadj_a hadj_u
      have hnode : ∀ x ∈ o, x ∈ g.nodes := fun x hx => (hpeo.2.1 x).2 (by rw [ho] at hx; exact List.mem_reverse.1 hx)
      obtain ⟨n, hn, han, hun⟩ := hcl.cover a u (hnode a (hPo a ha)) (hnode u (hPo u hu)) hau_adj
      exact ⟨n, hn, hun, han⟩

/-! ### the cliques the loop visits are exactly the model's cliques -/

/-- the attributes `proj ++ [col]` of a step are pairwise adjacent -/
theorem step_clique (set_order : List Attr → List Attr) (hso : ∀ s, (set_order s).Perm s) (cliques : List Clique)
    (elimination_order : List Attr) (g : Graph) (hpeo : IsPEO g elimination_order) (hcl : CliquesOf g cliques)
    (k : Nat) (hk : k < elimination_order.length) :
    ∀ a ∈ stepProj set_order cliques elimination_order.reverse k ++ [elimination_order.reverse.getD k ""],
    ∀ b ∈ stepProj set_order cliques elimination_order.reverse k ++ [elimination_order.reverse.getD k ""],
      a ≠ b → g.adj a b = true := by
  have hnd : elimination_order.Nodup := hpeo.1
  set o := elimination_order.reverse with ho
  have hond : o.Nodup := List.nodup_reverse.2 hnd
  have hklen : k < o.length := by simpa [ho] using hk
  have hok : o.getD k "" = o[k] := by
    rw [List.getD_eq_getElem?_getD, List.getElem?_eq_getElem hklen, Option.getD_some]
  have hPsub : ∀ a ∈ stepProj set_order cliques o k, a ∈ o.take k := stepProj_sub set_order hso cliques o k
  have hnotk : ∀ x ∈ o.take k, x ≠ o[k] := by
    intro x hx e
    have h1 := idxOf_lt_of_mem_take o hond k x hx
    rw [e, hond.idxOf_getElem k hklen] at h1
    omega
  have hadj : ∀ x ∈ stepProj set_order cliques o k, g.adj o[k] x = true := by
    intro x hx
    have hk0 : k ≠ 0 := by
      intro e
      rw [e] at hx
      simp [stepProj] at hx
    obtain ⟨_, cl, hcl', hc1, hc2⟩ := (mem_stepProj set_order hso cliques o k hk0 x).1 hx
    exact hcl.clique cl hcl' _ (hok ▸ hc1) _ hc2 (Ne.symm (hnotk x (hPsub x hx)))
  have hsplit : elimination_order = (o.drop (k + 1)).reverse ++ o[k] :: (o.take k).reverse := by
    have h1 : o = o.take k ++ o[k] :: o.drop (k + 1) := by
      rw [List.getElem_cons_drop]; exact (List.take_append_drop k o).symm
    have h2 : elimination_order = o.reverse := by rw [ho, List.reverse_reverse]
    rw [h2]
    conv_lhs => rw [h1]
    simp
  intro a ha b hb hab
  rw [hok] at ha hb
  rcases List.mem_append.1 ha with ha | ha <;> rcases List.mem_append.1 hb with hb | hb
  · exact hpeo.2.2 _ _ _ hsplit a (List.mem_reverse.2 (hPsub a ha)) b (List.mem_reverse.2 (hPsub b hb)) hab
      (hadj a ha) (hadj b hb)
  · rw [List.mem_singleton.1 hb, adj_symm]; exact hadj a ha
  · rw [List.mem_singleton.1 ha]; exact hadj b hb
  · exact absurd ((List.mem_singleton.1 ha).trans (List.mem_singleton.1 hb).symm) hab

/-- the model cliques as MAXIMAL cliques (what `find_cliques` returns) -/
structure MaxCliquesOf (g : Graph) (cliques : List Clique) : Prop where
  toCliquesOf : CliquesOf g cliques
  nonempty : ∀ n ∈ cliques, n ≠ []
  nodes : ∀ n ∈ cliques, ∀ a ∈ n, a ∈ g.nodes
  maximal : ∀ n ∈ cliques, ∀ v ∈ g.nodes, v ∉ n → ∃ a ∈ n, g.adj v a = false

theorem MaxCliquesOf.of_family (g : Graph) (nodes cliques : List Clique) (hfam : IsMaxCliqueFamily g nodes)
    (hmem : ∀ c, c ∈ cliques ↔ c ∈ nodes) : MaxCliquesOf g cliques :=
  ⟨CliquesOf.of_family g nodes cliques hfam hmem, fun n hn => (hfam.clique n ((hmem n).1 hn)).2,
    fun n hn => (hfam.clique n ((hmem n).1 hn)).1.2.1, fun n hn => hfam.maximal n ((hmem n).1 hn)⟩

/-- **every model clique is the clique of a step of the column loop** (as a set): the step generating the clique's attribute that
is eliminated first -/
theorem clique_is_step (set_order : List Attr → List Attr) (hso : ∀ s, (set_order s).Perm s) (cliques : List Clique)
    (elimination_order : List Attr) (g : Graph) (hpeo : IsPEO g elimination_order) (hm : MaxCliquesOf g cliques)
    (cl : Clique) (hcl : cl ∈ cliques) :
    ∃ k, k < elimination_order.length ∧
      ∀ a, a ∈ cl ↔ a ∈ stepProj set_order cliques elimination_order.reverse k ++ [elimination_order.reverse.getD k ""] := by
  have hnd : elimination_order.Nodup := hpeo.1
  set o := elimination_order.reverse with ho
  have hond : o.Nodup := List.nodup_reverse.2 hnd
  have hclo : ∀ a ∈ cl, a ∈ o := fun a ha => List.mem_reverse.2 ((hpeo.2.1 a).1 (hm.nodes cl hcl a ha))
  set k := (cl.map (fun a => o.idxOf a)).foldl max 0 with hk
  have hkmem : k ∈ cl.map (fun a => o.idxOf a) := foldl_max_zero_mem _ (by simpa using hm.nonempty cl hcl)
  obtain ⟨u, hu, huk⟩ := List.mem_map.1 hkmem
  have hklen : k < o.length := huk ▸ List.idxOf_lt_length_iff.2 (hclo u hu)
  have hkle : ∀ a ∈ cl, o.idxOf a ≤ k := fun a ha => (foldl_max_ge _ 0).2 _ (List.mem_map.2 ⟨a, ha, rfl⟩)
  have hoj : o.getD k "" = u := by
    rw [List.getD_eq_getElem?_getD, List.getElem?_eq_getElem hklen, Option.getD_some]
    have h2 : o.idxOf u < o.length := List.idxOf_lt_length_iff.2 (hclo u hu)
    have := List.getElem_idxOf h2
    simp only [huk] at this
    exact this
  have hk' : k < elimination_order.length := by simpa [ho] using hklen
  have hfwd : ∀ a ∈ cl, a ∈ stepProj set_order cliques o k ++ [o.getD k ""] := by
    intro a ha
    rw [hoj, List.mem_append]
    by_cases hau : a = u
    · right; rw [hau]; simp
    · left
      have hlt : o.idxOf a < k := by
        have h1 := hkle a ha
        have h2 : o.idxOf a ≠ k := fun e => hau ((List.idxOf_inj (hclo a ha) (l := o) (y := u)).1 (e.trans huk.symm))
        omega
      have hk0 : k ≠ 0 := by omega
      rw [mem_stepProj set_order hso cliques o k hk0, hoj]
      exact ⟨mem_take_of_idxOf_lt o k a (hclo a ha) hlt, cl, hcl, hu, ha⟩
  refine ⟨k, hk', fun a => ⟨hfwd a, fun ha => ?_⟩⟩
  by_contra hna
  have hao : a ∈ o := by
    rcases List.mem_append.1 ha with h | h
    · exact List.mem_of_mem_take (stepProj_sub set_order hso cliques o k a h)
    · rw [List.mem_singleton.1 h, hoj]; exact hclo u hu
  have hanode : a ∈ g.nodes := (hpeo.2.1 a).2 (List.mem_reverse.1 hao)
  obtain ⟨b, hb, hadj⟩ := hm.maximal cl hcl a hanode hna
  have hab : a ≠ b := fun e => hna (e ▸ hb)
  have := step_clique set_order hso cliques elimination_order g hpeo hm.toCliquesOf k hk' a ha b (hfwd b hb) hab
  rw [hadj] at this
  cases this

end PGM.GMQGen
