import PGM.Proofs.SynthTableClique
import Mathlib.Algebra.BigOperators.Ring.List
/-!
# Synthetic records, the whole table: the chain-rule targets are the model marginals (C11, part 2, item 6)

If the conditional tables of the steps are slices of one consistent family of clique marginals
(the marginal of a step's table onto its conditioning positions is the marginal of its parent's
table), then the chain-rule target of every cell is the model marginal of the cell, rescaled to
`total` records.
-/
namespace PGM.Synth

namespace Table

theorem dropLast_mem_tuplesOver (size : Nat → Nat) (p : List Nat) (a : Nat) (c : List Nat)
    (h : c ∈ tuplesOver size (p ++ [a])) : c.dropLast ∈ tuplesOver size p := by
  induction p generalizing c with
  | nil =>
    simp only [List.nil_append, tuplesOver, List.map_cons, List.map_nil, List.mem_flatMap,
      List.mem_range, List.mem_singleton] at h
    obtain ⟨x, _, rfl⟩ := h
    simp [tuplesOver]
  | cons b p ih =>
    simp only [List.cons_append, tuplesOver, List.mem_flatMap, List.mem_range, List.mem_map] at h
    obtain ⟨x, hx, t, ht, rfl⟩ := h
    have hlen := length_of_mem_tuplesOver size _ t ht
    have hne : t ≠ [] := by
      intro e; rw [e] at hlen; simp at hlen
    rw [List.dropLast_cons_of_ne_nil hne]
    simp only [tuplesOver, List.mem_flatMap, List.mem_range, List.mem_map]
    exact ⟨x, hx, t.dropLast, ih t ht, rfl⟩

theorem margConsistent_root (specs : List ColSpec) (parent : Nat → Nat) (S : Rat)
    (h : margConsistent specs parent S = true) (k : Nat) (hk : k < specs.length)
    (hroot : (specAt specs k).proj = []) : sumQ ((specAt specs k).cond []) = S := by
  unfold margConsistent at h
  rw [List.all_eq_true] at h
  have := h k (List.mem_range.2 hk)
  rw [if_pos hroot] at this
  simpa using this

theorem margConsistent_step (specs : List ColSpec) (parent : Nat → Nat) (S : Rat)
    (h : margConsistent specs parent S = true) (k : Nat) (hk : k < specs.length)
    (hroot : (specAt specs k).proj ≠ []) (g : List Nat)
    (hg : g ∈ tuplesOver (attrSize specs) (specAt specs k).proj) :
    sumQ ((specAt specs k).cond g) =
      ((fiber specs (specAt specs (parent k)) (specAt specs k) g).map
        (fun c => mu specs (parent k) c.dropLast (c.getLastD 0))).sum := by
  unfold margConsistent at h
  rw [List.all_eq_true] at h
  have := h k (List.mem_range.2 hk)
  rw [if_neg hroot, List.all_eq_true] at this
  simpa using this g hg

/-- **the targets are the model marginals**, rescaled to `total` records -/
theorem targets_eq_marginals (total : Nat) (specs : List ColSpec) (parent : Nat → Nat) (S : Rat)
    (hch : chainWF specs parent = true) (hcons : margConsistent specs parent S = true)
    (hnn : ∀ sp ∈ specs, ∀ g, ∀ c ∈ sp.cond g, (0 : Rat) ≤ c) :
    ∀ k, k < specs.length → ∀ g ∈ tuplesOver (attrSize specs) (specAt specs k).proj, ∀ v,
      target specs parent total k g v = (total : Rat) / S * mu specs k g v := by
  intro k
  induction k using Nat.strong_induction_on with
  | _ k ih =>
    intro hk g hg v
    by_cases hroot : (specAt specs k).proj = []
    · rw [target_root _ _ _ _ _ _ hroot]
      have hg' : g = [] := by
        rw [hroot] at hg; simpa [tuplesOver] using hg
      subst hg'
      unfold condProb mu
      rw [margConsistent_root specs parent S hcons k hk hroot]
      ring
    · obtain ⟨hlt, _⟩ := chainWF_step specs parent hch k hk hroot
      have hj : parent k < specs.length := Nat.lt_trans hlt hk
      rw [target_step _ _ _ _ _ _ hroot hlt]
      have hmap : (fiber specs (specAt specs (parent k)) (specAt specs k) g).map
            (fun c => target specs parent total (parent k) c.dropLast (c.getLastD 0))
          = (fiber specs (specAt specs (parent k)) (specAt specs k) g).map
            (fun c => (total : Rat) / S * mu specs (parent k) c.dropLast (c.getLastD 0)) := by
        apply List.map_congr_left
        intro c hc
        have hc' := (List.mem_filter.1 hc).1
        exact ih (parent k) hlt hj c.dropLast (dropLast_mem_tuplesOver _ _ _ c hc') (c.getLastD 0)
      rw [hmap, List.sum_map_mul_left, ← margConsistent_step specs parent S hcons k hk hroot g hg]
      unfold condProb mu
      by_cases hm : sumQ ((specAt specs k).cond g) = 0
      · -- a group of mass zero: every entry of the slice vanishes
        have hsp := specAt_mem specs k hk
        have h0 := condProb_nonneg (specAt specs k) g v (hnn _ hsp g)
        have hz : ((specAt specs k).cond g).getD v 0 = 0 := by
          by_cases hv : v < ((specAt specs k).cond g).length
          · rw [List.getD_eq_getElem?_getD, List.getElem?_eq_getElem hv, Option.getD_some]
            have h1 := List.single_le_sum (hnn _ hsp g) _ (List.getElem_mem hv)
            rw [← Aux.sumQ_eq_sum, hm] at h1
            exact le_antisymm h1 (hnn _ hsp g _ (List.getElem_mem hv))
          · rw [List.getD_eq_getElem?_getD, List.getElem?_eq_none (Nat.le_of_not_lt hv),
              Option.getD_none]
        rw [hz]; simp
      · field_simp

theorem clique_error_marginal (ncols total : Nat) (specs : List ColSpec)
    (outs : List (List (List Nat))) (parent : Nat → Nat) (S : Rat)
    (hwf : specsWF ncols [] specs = true)
    (hok : outsOK ncols total specs outs (List.replicate total (List.replicate ncols 0)) = true)
    (hch : chainWF specs parent = true) (hcons : margConsistent specs parent S = true)
    (hnn : ∀ sp ∈ specs, ∀ g, ∀ c ∈ sp.cond g, (0 : Rat) ≤ c)
    (k : Nat) (hk : k < specs.length) (g : List Nat)
    (hg : g ∈ tuplesOver (attrSize specs) (specAt specs k).proj) (v : Nat) :
    |((cellCount ((specAt specs k).proj ++ [(specAt specs k).col]) (g ++ [v])
          (synthTable ncols total specs outs) : Nat) : Rat)
      - (total : Rat) / S * mu specs k g v| ≤ (errBound specs parent k : Rat) := by
  rw [← targets_eq_marginals total specs parent S hch hcons hnn k hk g hg v]
  exact clique_error ncols total specs outs parent hwf hok hch hnn k hk g v
    (length_of_mem_tuplesOver _ _ g hg)

end Table
end PGM.Synth
