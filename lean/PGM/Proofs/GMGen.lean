import PGM.Generated.GraphicalModelG
import PGM.Proofs.VECore
/-!
# Helper lemmas for `PGM/Properties/C01G.lean`

The generated reading of `src/mbi/graphical_model.py` (`PGM/Generated/GraphicalModelG.lean`) follows the source statement
by statement: dictionaries are updated with Python's semantics (`d[k] = v` keeps the place of an existing key), `reduce` and
`sum` start from the Python int `0` / `1`, `beliefs` is built from copies, the normalising loop updates the dictionary in
place.  The hand model `PGM/Model/GM.lean` uses the shapes that are convenient for the proofs (`messages ++ [·]`,
`cliques.map …`, folds that start from the first factor).  These are the facts that bridge the two.

This file only uses the FIXED prelude of the generated file (`PyVal`, `msgGet`, `expInto`).  The loop bodies of the source are
written here once as named step functions (`bpStepG`, `normStepG`, `veStepG`, `mleStepG`) and each translated function as a
normal form over them (`bpLoopF`, `logZF`, `beliefPropagationF`, `veLogspaceF`, `variableEliminationF`, `datavectorF`, `mleF`);
`C01G.shape_*` proves the regenerated definitions equal to these normal forms by unfolding alone, so a semantic edit of the
source shows up there, and the lemmas below (the real content) relate the normal forms to the hand model.
-/
namespace PGM.GMGen
open PGM PGM.JT
set_option linter.unusedSectionVars false

/-! ## association lists with Python's dictionary semantics -/
section dict
variable {κ β : Type} [BEq κ] [LawfulBEq κ]

theorem any_key_iff (d : List (κ × β)) (k : κ) : d.any (fun p => p.1 == k) = true ↔ k ∈ d.map Prod.fst := by
  simp only [List.any_eq_true, beq_iff_eq, List.mem_map]

theorem lookup_none_of_not_mem (d : List (κ × β)) (k : κ) (h : k ∉ d.map Prod.fst) : d.lookup k = none := by
  induction d with
  | nil => rfl
  | cons p d ih =>
    obtain ⟨a, b⟩ := p
    simp only [List.map_cons, List.mem_cons, not_or] at h
    have : (k == a) = false := by simpa using h.1
    simp only [List.lookup_cons, this]
    exact ih h.2

theorem lookup_map_replace (d : List (κ × β)) (k k' : κ) (v : β) :
    (d.map (fun p => if p.1 == k then (k, v) else p)).lookup k'
      = if k' == k then (if d.any (fun p => p.1 == k) then some v else none) else d.lookup k' := by
  induction d with
  | nil => simp
  | cons p d ih =>
    obtain ⟨a, b⟩ := p
    simp only [List.map_cons, List.any_cons]
    by_cases hak : a = k
    · subst hak
      by_cases hk : k' = a
      · subst hk; simp
      · have e2 : (k' == a) = false := by simpa using hk
        simp [List.lookup_cons, e2, ih]
    · have e1 : (a == k) = false := by simpa using hak
      by_cases hk' : k' = a
      · subst hk'; simp [e1]
      · have e2 : (k' == a) = false := by simpa using hk'
        simp only [List.lookup_cons, e1, e2, Bool.false_or, Bool.false_eq_true, if_false]
        exact ih

/-- reading a dictionary after `d[k] = v` -/
theorem lookup_dictSet (d : List (κ × β)) (k k' : κ) (v : β) :
    (GM.dictSet d k v).lookup k' = if k' == k then some v else d.lookup k' := by
  unfold GM.dictSet
  by_cases h : d.any (fun p => p.1 == k) = true
  · rw [if_pos h, lookup_map_replace, h]; simp
  · rw [if_neg h, List.lookup_append]
    have hk : k ∉ d.map Prod.fst := fun hm => h ((any_key_iff d k).mpr hm)
    by_cases e : k' = k
    · subst e; rw [lookup_none_of_not_mem d k' hk]; simp
    · have e2 : (k' == k) = false := by simpa using e
      simp [List.lookup_cons, e2]

/-- `d[k] = v` for a key that is not there yet appends -/
theorem dictSet_fresh (d : List (κ × β)) (k : κ) (v : β) (h : k ∉ d.map Prod.fst) :
    GM.dictSet d k v = d ++ [(k, v)] := by
  unfold GM.dictSet
  rw [if_neg]
  rw [any_key_iff]; exact h

theorem keys_dictSet_of_mem (d : List (κ × β)) (k : κ) (v : β) (h : k ∈ d.map Prod.fst) :
    (GM.dictSet d k v).map Prod.fst = d.map Prod.fst := by
  unfold GM.dictSet
  rw [if_pos ((any_key_iff d k).mpr h), List.map_map]
  apply List.map_congr_left
  intro p _
  by_cases e : p.1 = k <;> simp [e]

theorem mem_dictSet (d : List (κ × β)) (k : κ) (v : β) (p : κ × β) (h : p ∈ GM.dictSet d k v) :
    p ∈ d ∨ p = (k, v) := by
  unfold GM.dictSet at h
  split at h
  · obtain ⟨q, hq, e⟩ := List.mem_map.mp h
    by_cases c : q.1 = k
    · right; rw [← e]; simp [c]
    · left; rw [← e]; simp [c, hq]
  · rcases List.mem_append.mp h with h | h
    · exact Or.inl h
    · exact Or.inr (List.mem_singleton.mp h)

theorem mem_of_lookup (d : List (κ × β)) (k : κ) (v : β) (h : d.lookup k = some v) : (k, v) ∈ d := by
  induction d with
  | nil => simp at h
  | cons p ps ih =>
    obtain ⟨a, b⟩ := p
    simp only [List.lookup_cons] at h
    by_cases e : k = a
    · subst e; simp at h; subst h; simp
    · have e2 : (k == a) = false := by simpa using e
      rw [e2] at h
      exact List.mem_cons_of_mem _ (ih h)

theorem exists_lookup_of_mem (d : List (κ × β)) (k : κ) (h : k ∈ d.map Prod.fst) : ∃ v, d.lookup k = some v := by
  induction d with
  | nil => simp at h
  | cons q qs ih =>
    obtain ⟨a, b⟩ := q
    by_cases e : k = a
    · subst e; exact ⟨b, by simp⟩
    · have e3 : (k == a) = false := by simpa using e
      simp only [List.map_cons, List.mem_cons] at h
      rcases h with h | h
      · exact absurd h e
      · obtain ⟨v, hv⟩ := ih h; exact ⟨v, by simp [List.lookup_cons, e3, hv]⟩

/-- an entry of a dictionary with distinct keys is what `lookup` finds -/
theorem lookup_of_mem_nodup (d : List (κ × β)) (hnd : (d.map Prod.fst).Nodup) (p : κ × β) (hp : p ∈ d) :
    d.lookup p.1 = some p.2 := by
  induction d with
  | nil => simp at hp
  | cons q qs ih =>
    obtain ⟨k, v⟩ := q
    simp only [List.map_cons, List.nodup_cons] at hnd
    simp only [List.lookup_cons]
    rcases List.mem_cons.mp hp with h | h
    · subst h; simp
    · have hne : p.1 ≠ k := fun e => hnd.1 (e ▸ List.mem_map_of_mem h)
      have : (p.1 == k) = false := by simpa using hne
      rw [this]
      exact ih hnd.2 h

/-- two dictionaries with the same distinct keys, in the same order, and the same value under every key are equal -/
theorem ext_of_keys (d e : List (κ × β)) (hk : d.map Prod.fst = e.map Prod.fst) (hnd : (d.map Prod.fst).Nodup)
    (hl : ∀ k ∈ d.map Prod.fst, d.lookup k = e.lookup k) : d = e := by
  induction d generalizing e with
  | nil => cases e with
    | nil => rfl
    | cons q qs => simp at hk
  | cons p ps ih =>
    cases e with
    | nil => simp at hk
    | cons q qs =>
      obtain ⟨a, b⟩ := p
      obtain ⟨a', b'⟩ := q
      simp only [List.map_cons, List.cons.injEq] at hk
      obtain ⟨rfl, hk'⟩ := hk
      simp only [List.map_cons, List.nodup_cons] at hnd
      have h0 := hl a (by simp)
      simp only [List.lookup_cons, beq_self_eq_true, Option.some.injEq] at h0
      subst h0
      congr 1
      apply ih qs hk' hnd.2
      intro k hkm
      have hne : k ≠ a := fun e => hnd.1 (e ▸ hkm)
      have e2 : (k == a) = false := by simpa using hne
      have := hl k (by simp [hkm])
      simpa only [List.lookup_cons, e2] using this

end dict

/-! ## `Domain.invert` reads its argument as a set -/

/-- `sep_axes[(i,j)] = tuple(set(i) & set(j))` has no specified order; `Domain.invert` only asks `a not in attrs` -/
theorem Dom.invert_congr (d : Dom) (as bs : List Attr) (h : ∀ a, a ∈ as ↔ a ∈ bs) : d.invert as = d.invert bs := by
  unfold Dom.invert
  apply List.filter_congr
  intro a _
  have : as.contains a = bs.contains a := by
    rw [Bool.eq_iff_iff]; simp only [List.contains_iff_mem]; exact h a
  rw [this]

/-- … in particular for any listing of the intersection of the two cliques -/
theorem Dom.invert_sep (d : Dom) (i j sep : List Attr) (h : ∀ a, a ∈ sep ↔ (a ∈ i ∧ a ∈ j)) :
    d.invert sep = d.invert (JT.inter i j) := by
  apply Dom.invert_congr
  intro a
  rw [h a]
  simp [JT.inter, List.mem_filter]

/-! ## factors whose array has the shape of the domain -/
section shape
variable {α : Type} [Scalar α]

/-- the part of `Factor.WF` that `copy`, `0 + f`, `1 * f` and the in-place `exp` need -/
def Shaped (f : Factor α) : Prop := f.vals.shape = f.dom.shape

theorem Shaped.of_wf {f : Factor α} (h : f.WF) : Shaped f := h.2.1

theorem shaped_mk' (d : Dom) (v : NdArr α) : Shaped (Factor.mk' d v) := rfl

theorem shaped_zeros (d : Dom) : Shaped (Factor.zeros d : Factor α) := rfl

theorem factor_ext {f g : Factor α} (hd : f.dom = g.dom) (hs : f.vals.shape = g.vals.shape)
    (hv : f.vals.data = g.vals.data) : f = g := by
  obtain ⟨fd, fs, fv⟩ := f
  obtain ⟨gd, gs, gv⟩ := g
  simp only at hd hs hv
  subst hd hs hv
  rfl

/-- `f.copy()` is `f` -/
theorem copy_eq (f : Factor α) (h : Shaped f) : Factor.copy f = f :=
  factor_ext rfl h.symm rfl

/-- `0 + f` (`Factor.__radd__`) is `f` when `0 + x = x` on the scalar -/
theorem addScalar_zero (hz : ∀ x : α, Scalar.add Scalar.zero x = x) (f : Factor α) (h : Shaped f) :
    Factor.addScalar Scalar.zero f = f := by
  refine factor_ext (f := Factor.addScalar Scalar.zero f) (g := f) rfl h.symm ?_
  show (f.vals.data.map fun v => Scalar.add Scalar.zero v) = f.vals.data
  have : (fun v : α => Scalar.add Scalar.zero v) = id := funext hz
  rw [this, Array.map_id]

/-- `1 * f` (`Factor.__rmul__`, with its `nan_to_num`) is `f` when `nan_to_num (1 * x) = x` on the scalar -/
theorem mulScalar_one (ho : ∀ x : α, Scalar.nanToNum (Scalar.mul Scalar.one x) = x) (f : Factor α) (h : Shaped f) :
    Factor.mulScalar Scalar.one f = f := by
  refine factor_ext (f := Factor.mulScalar Scalar.one f) (g := f) rfl h.symm ?_
  show (f.vals.data.map fun v => Scalar.nanToNum (Scalar.mul Scalar.one v)) = f.vals.data
  have : (fun v : α => Scalar.nanToNum (Scalar.mul Scalar.one v)) = id := funext ho
  rw [this, Array.map_id]

/-- `f.exp(out=f)` is `f.exp()` -/
theorem expInto_self (f : Factor α) (h : Shaped f) : GMG.expInto f f = Factor.exp f :=
  factor_ext rfl h rfl

theorem shaped_iadd (f g : Factor α) (h : Shaped f) : Shaped (Factor.iadd f g) := h

theorem shaped_iaddScalar (f : Factor α) (c : α) (h : Shaped f) : Shaped (Factor.iaddScalar f c) := h

theorem shaped_get (cv : CliqueVec α) (h : ∀ p ∈ cv, Shaped p.2) (c : Clique) : Shaped (cv.get c) := by
  unfold CliqueVec.get
  cases hl : cv.lookup c with
  | none => exact shaped_zeros []
  | some f =>
    exact h _ (mem_of_lookup cv c f hl)


theorem mem_set (cv : CliqueVec α) (c : Clique) (f : Factor α) (p : Clique × Factor α) (h : p ∈ cv.set c f) :
    p ∈ cv ∨ p = (c, f) := mem_dictSet cv c f p h

theorem shaped_set (cv : CliqueVec α) (h : ∀ p ∈ cv, Shaped p.2) (c : Clique) (f : Factor α) (hf : Shaped f) :
    ∀ p ∈ cv.set c f, Shaped p.2 := by
  intro p hp
  rcases mem_set cv c f p hp with h1 | h1
  · exact h p h1
  · rw [h1]; exact hf

theorem get_eq_getD (cv : CliqueVec α) (c : Clique) : cv.get c = (cv.lookup c).getD (Factor.zeros []) := by
  unfold CliqueVec.get
  cases cv.lookup c <;> rfl

theorem get_set (cv : CliqueVec α) (c c' : Clique) (f : Factor α) :
    (cv.set c f).get c' = if c' = c then f else cv.get c' := by
  have e0 : cv.set c f = GM.dictSet cv c f := rfl
  rw [get_eq_getD, get_eq_getD, e0, lookup_dictSet]
  by_cases e : c' = c <;> simp [e]

end shape

/-! ## a fold whose step agrees with another one as long as an invariant holds -/

theorem foldl_congr_inv {σ ι : Type} (P : σ → List ι → Prop) (f g : σ → ι → σ)
    (hstep : ∀ s x xs, P s (x :: xs) → f s x = g s x ∧ P (g s x) xs) :
    ∀ (l : List ι) (s : σ), P s l → l.foldl f s = l.foldl g s := by
  intro l
  induction l with
  | nil => intro s _; rfl
  | cons x xs ih =>
    intro s hs
    obtain ⟨h1, h2⟩ := hstep s x xs hs
    rw [List.foldl_cons, List.foldl_cons, h1]
    exact ih _ h2

theorem foldl_inv {σ ι : Type} (P : σ → Prop) (f : σ → ι → σ) (hstep : ∀ s x, P s → P (f s x)) :
    ∀ (l : List ι) (s : σ), P s → P (l.foldl f s) := by
  intro l
  induction l with
  | nil => intro s h; exact h
  | cons x xs ih => intro s h; exact ih _ (hstep s x h)

/-! ## `belief_propagation`: the message loop -/
section bp
variable {α : Type} [Scalar α]

/-- `{cl: potentials[cl].copy() for cl in potentials}` is `potentials` -/
theorem beliefs_init (pots : CliqueVec α) (hk : (pots.map Prod.fst).Nodup) (hs : ∀ p ∈ pots, Shaped p.2) :
    (pots.map Prod.fst).map (fun cl => (cl, Factor.copy (CliqueVec.get pots cl))) = pots := by
  rw [List.map_map]
  conv => rhs; rw [← List.map_id pots]
  apply List.map_congr_left
  intro p hp
  have hget : CliqueVec.get pots p.1 = p.2 := by
    unfold CliqueVec.get
    rw [lookup_of_mem_nodup pots hk p hp]
  show (p.1, Factor.copy (CliqueVec.get pots p.1)) = p
  rw [hget, copy_eq _ (hs p hp)]

/-- the loop body of the hand model -/
def bpStep (st : CliqueVec α × GM.Msgs α) (ij : Clique × Clique) : CliqueVec α × GM.Msgs α :=
  let bi := st.1.get ij.1
  let sep := bi.dom.invert (JT.inter ij.1 ij.2)
  let tau := match st.2.lookup (ij.2, ij.1) with
    | some m => bi.sub m
    | none => bi
  let msg := tau.logsumexp sep
  (st.1.set ij.2 ((st.1.get ij.2).iadd msg), st.2 ++ [((ij.1, ij.2), msg)])

theorem bpLoop_eq (order : List (Clique × Clique)) (pots : CliqueVec α) :
    GM.bpLoop order pots = order.foldl bpStep (pots, []) := rfl

/-- the loop body of the generated definition -/
def bpStepG (st : CliqueVec α × GM.Msgs α) (ij : Clique × Clique) : CliqueVec α × GM.Msgs α :=
  match st with
  | (beliefs, messages) =>
    match ij with
    | (i, j) =>
      let sep := Dom.invert (Factor.dom (CliqueVec.get beliefs i)) (JT.inter i j)
      let tau := if (List.lookup (j, i) messages).isSome then
          Factor.sub (CliqueVec.get beliefs i) (GMG.msgGet messages (j, i)) else CliqueVec.get beliefs i
      let messages := GM.dictSet messages (i, j) (Factor.logsumexp tau sep)
      let beliefs := CliqueVec.set beliefs j (Factor.iadd (CliqueVec.get beliefs j) (GMG.msgGet messages (i, j)))
      (beliefs, messages)

theorem pair_eta {A B : Type} (s : A × B) : (match s with | (b, m) => (b, m)) = s := by cases s; rfl

/-- normal form of the generated `bpLoop`: a fold of `bpStepG` from the copied potentials and the empty dictionary
(`PGM.C01.GMG.shape_bpLoop` proves the generated definition equal to it) -/
def bpLoopF (order : List (Clique × Clique)) (pots : CliqueVec α) : CliqueVec α × GM.Msgs α :=
  order.foldl bpStepG ((pots.map Prod.fst).map (fun cl => (cl, Factor.copy (CliqueVec.get pots cl))), [])

theorem bpLoopG_eq (order : List (Clique × Clique)) (pots : CliqueVec α) :
    bpLoopF order pots
      = order.foldl bpStepG ((pots.map Prod.fst).map (fun cl => (cl, Factor.copy (CliqueVec.get pots cl))), []) := rfl

theorem msgGet_dictSet_self (m : GM.Msgs α) (k : Clique × Clique) (v : Factor α) :
    GMG.msgGet (GM.dictSet m k v) k = v := by
  unfold GMG.msgGet
  rw [lookup_dictSet]; simp

/-- one step: as long as the message key is new, Python's `messages[(i,j)] = …` is the model's append -/
theorem bpStepG_eq (st : CliqueVec α × GM.Msgs α) (ij : Clique × Clique) (h : ij ∉ st.2.map Prod.fst) :
    bpStepG st ij = bpStep st ij := by
  obtain ⟨b, m⟩ := st
  obtain ⟨i, j⟩ := ij
  unfold bpStepG bpStep
  simp only []
  rw [msgGet_dictSet_self, dictSet_fresh m (i, j) _ h]
  have htau : (if (List.lookup (j, i) m).isSome then Factor.sub (CliqueVec.get b i) (GMG.msgGet m (j, i)) else CliqueVec.get b i)
      = (match List.lookup (j, i) m with | some m' => (CliqueVec.get b i).sub m' | none => CliqueVec.get b i) := by
    unfold GMG.msgGet
    cases List.lookup (j, i) m <;> rfl
  rw [htau]

/-- **the message loop**: on a schedule without repeated edges the generated loop is the model's -/
theorem bpLoopG_eq_model (order : List (Clique × Clique)) (pots : CliqueVec α) (hord : order.Nodup)
    (hk : (pots.map Prod.fst).Nodup) (hs : ∀ p ∈ pots, Shaped p.2) :
    bpLoopF order pots = GM.bpLoop order pots := by
  rw [bpLoopG_eq, bpLoop_eq, beliefs_init pots hk hs]
  apply foldl_congr_inv (fun (s : CliqueVec α × GM.Msgs α) (rest : List (Clique × Clique)) =>
    rest.Nodup ∧ ∀ k ∈ s.2.map Prod.fst, k ∉ rest)
  · intro s x xs ⟨hnd, hfresh⟩
    have hx : x ∉ s.2.map Prod.fst := fun hm => hfresh x hm (by simp)
    refine ⟨bpStepG_eq s x hx, (List.nodup_cons.mp hnd).2, ?_⟩
    intro k hk'
    have : k ∈ s.2.map Prod.fst ∨ k = x := by
      unfold bpStep at hk'
      simpa using hk'
    rcases this with h1 | h1
    · exact fun hm => hfresh k h1 (List.mem_cons_of_mem _ hm)
    · rw [h1]; exact (List.nodup_cons.mp hnd).1
  · exact ⟨hord, by simp⟩

/-- the beliefs keep the shape of their domains through the loop -/
theorem bpLoop_shaped (order : List (Clique × Clique)) (pots : CliqueVec α) (hs : ∀ p ∈ pots, Shaped p.2) :
    ∀ p ∈ (GM.bpLoop order pots).1, Shaped p.2 := by
  rw [bpLoop_eq]
  apply foldl_inv (fun s : CliqueVec α × GM.Msgs α => ∀ p ∈ s.1, Shaped p.2) bpStep _ order (pots, []) hs
  intro s x h
  exact shaped_set s.1 h _ _ (shaped_iadd _ _ (shaped_get s.1 h _))


/-! ## `belief_propagation`: the two exits -/

/-- normal form of the generated `logZ` -/
def logZF (cliques : List Clique) (order : List (Clique × Clique)) (pots : CliqueVec α) : α :=
  Factor.logsumexpAll (CliqueVec.get (bpLoopF order pots).1 (cliques.headD []))

theorem logZG_eq (cliques : List Clique) (order : List (Clique × Clique)) (pots : CliqueVec α) :
    logZF cliques order pots = Factor.logsumexpAll (CliqueVec.get (bpLoopF order pots).1 (cliques.headD [])) := rfl

/-- the body of the normalising loop, as generated -/
def normStepG (shift : α) (beliefs : CliqueVec α) (cl : Clique) : CliqueVec α :=
  let beliefs := CliqueVec.set beliefs cl (Factor.iaddScalar (CliqueVec.get beliefs cl) shift)
  let beliefs := CliqueVec.set beliefs cl (GMG.expInto (CliqueVec.get beliefs cl) (CliqueVec.get beliefs cl))
  beliefs

/-- normal form of the generated `beliefPropagation`: the normalising loop as a fold of `normStepG` over `cliques` -/
def beliefPropagationF (cliques : List Clique) (order : List (Clique × Clique)) (pots : CliqueVec α) (total : α) : CliqueVec α :=
  cliques.foldl (normStepG (Scalar.sub (Scalar.log total)
    (Factor.logsumexpAll (CliqueVec.get (bpLoopF order pots).1 (cliques.headD []))))) (bpLoopF order pots).1

theorem beliefPropagationG_eq (cliques : List Clique) (order : List (Clique × Clique)) (pots : CliqueVec α) (total : α) :
    beliefPropagationF cliques order pots total
      = cliques.foldl (normStepG (Scalar.sub (Scalar.log total)
          (Factor.logsumexpAll (CliqueVec.get (bpLoopF order pots).1 (cliques.headD []))))) (bpLoopF order pots).1 := rfl

/-- what one clique's entry becomes: `+= shift`, then `exp` in place -/
def normEntryG (shift : α) (f : Factor α) : Factor α :=
  GMG.expInto (Factor.iaddScalar f shift) (Factor.iaddScalar f shift)

theorem normEntryG_eq (shift : α) (f : Factor α) (h : Shaped f) :
    normEntryG shift f = (f.iaddScalar shift).exp :=
  expInto_self _ (shaped_iaddScalar f shift h)

theorem get_normStepG (shift : α) (b : CliqueVec α) (cl c : Clique) :
    (normStepG shift b cl).get c = if c = cl then normEntryG shift (b.get cl) else b.get c := by
  unfold normStepG normEntryG
  simp only []
  rw [get_set, get_set]
  by_cases e : c = cl
  · simp [e]
  · simp [e, get_set]

theorem get_foldl_normStepG (shift : α) (l : List Clique) (hnd : l.Nodup) (b : CliqueVec α) (c : Clique) :
    (l.foldl (normStepG shift) b).get c = if c ∈ l then normEntryG shift (b.get c) else b.get c := by
  induction l generalizing b with
  | nil => simp
  | cons x xs ih =>
    obtain ⟨hx, hxs⟩ := List.nodup_cons.mp hnd
    rw [List.foldl_cons, ih hxs, get_normStepG]
    by_cases e : c = x
    · subst e; simp [hx]
    · simp [e]

theorem keys_normStepG (shift : α) (b : CliqueVec α) (cl : Clique) (h : cl ∈ b.map Prod.fst) :
    (normStepG shift b cl).map Prod.fst = b.map Prod.fst := by
  unfold normStepG
  simp only []
  have e1 : (CliqueVec.set b cl (Factor.iaddScalar (CliqueVec.get b cl) shift)).map Prod.fst = b.map Prod.fst :=
    keys_dictSet_of_mem b cl _ h
  have e2 := keys_dictSet_of_mem (CliqueVec.set b cl (Factor.iaddScalar (CliqueVec.get b cl) shift)) cl
    (GMG.expInto (CliqueVec.get (CliqueVec.set b cl (Factor.iaddScalar (CliqueVec.get b cl) shift)) cl)
      (CliqueVec.get (CliqueVec.set b cl (Factor.iaddScalar (CliqueVec.get b cl) shift)) cl)) (by rw [e1]; exact h)
  exact e2.trans e1

theorem keys_foldl_normStepG (shift : α) (l : List Clique) (b : CliqueVec α) (h : ∀ c ∈ l, c ∈ b.map Prod.fst) :
    (l.foldl (normStepG shift) b).map Prod.fst = b.map Prod.fst := by
  induction l generalizing b with
  | nil => rfl
  | cons x xs ih =>
    have e := keys_normStepG shift b x (h x (by simp))
    rw [List.foldl_cons, ih _ (fun c hc => by rw [e]; exact h c (by simp [hc])), e]

theorem lookup_map_key {β : Type} (l : List Clique) (F : Clique → β) (c : Clique) :
    (l.map (fun k => (k, F k))).lookup c = if c ∈ l then some (F c) else none := by
  induction l with
  | nil => simp
  | cons x xs ih =>
    simp only [List.map_cons, List.lookup_cons]
    by_cases e : c = x
    · subst e; simp
    · have e2 : (c == x) = false := by simpa using e
      rw [e2, ih]; simp [e]

/-- the model's result, read under a clique of the model -/
theorem get_beliefPropagation (cliques : List Clique) (order : List (Clique × Clique)) (pots : CliqueVec α) (total : α)
    (c : Clique) (hc : c ∈ cliques) :
    (GM.beliefPropagation cliques order pots total).get c
      = (((GM.bpLoop order pots).1.get c).iaddScalar (Scalar.sub (Scalar.log total)
          (((GM.bpLoop order pots).1.get (cliques.headD [])).logsumexpAll))).exp := by
  rw [get_eq_getD]
  unfold GM.beliefPropagation
  simp only []
  rw [lookup_map_key, if_pos hc]
  rfl

/-- **`belief_propagation(potentials)` read under a clique**: the dictionary Python returns (the keys of `potentials`, updated in
place, in their order) holds under every clique of the model what the model's list holds -/
theorem beliefPropagationG_get (cliques : List Clique) (order : List (Clique × Clique)) (pots : CliqueVec α) (total : α)
    (hord : order.Nodup) (hk : (pots.map Prod.fst).Nodup) (hs : ∀ p ∈ pots, Shaped p.2) (hcl : cliques.Nodup)
    (c : Clique) (hc : c ∈ cliques) :
    (beliefPropagationF cliques order pots total).get c = (GM.beliefPropagation cliques order pots total).get c := by
  rw [beliefPropagationG_eq, bpLoopG_eq_model order pots hord hk hs, get_foldl_normStepG _ _ hcl, if_pos hc,
    normEntryG_eq _ _ (shaped_get _ (bpLoop_shaped order pots hs) c), get_beliefPropagation _ _ _ _ c hc]

/-- the keys of the beliefs after the loop are those of the potentials when every receiving clique is one of them -/
theorem bpLoop_keys (order : List (Clique × Clique)) (pots : CliqueVec α)
    (hrecv : ∀ ij ∈ order, ij.2 ∈ pots.map Prod.fst) :
    (GM.bpLoop order pots).1.map Prod.fst = pots.map Prod.fst := by
  rw [bpLoop_eq]
  have : ∀ (l : List (Clique × Clique)) (s : CliqueVec α × GM.Msgs α), (∀ ij ∈ l, ij.2 ∈ pots.map Prod.fst) →
      s.1.map Prod.fst = pots.map Prod.fst → (l.foldl bpStep s).1.map Prod.fst = pots.map Prod.fst := by
    intro l
    induction l with
    | nil => intro s _ h; exact h
    | cons x xs ih =>
      intro s hl h
      rw [List.foldl_cons]
      apply ih _ (fun ij hij => hl ij (by simp [hij]))
      show (CliqueVec.set s.1 x.2 _).map Prod.fst = _
      have hx : x.2 ∈ s.1.map Prod.fst := by rw [h]; exact hl x (by simp)
      exact (keys_dictSet_of_mem s.1 x.2 _ hx).trans h
  exact this order (pots, []) hrecv rfl

/-- **`belief_propagation(potentials)`, the whole dictionary**: when `potentials` is keyed by the model's cliques in the model's
order, the returned dictionary IS the model's list -/
theorem beliefPropagationG_eq_model (cliques : List Clique) (order : List (Clique × Clique)) (pots : CliqueVec α) (total : α)
    (hord : order.Nodup) (hkeys : pots.map Prod.fst = cliques) (hs : ∀ p ∈ pots, Shaped p.2) (hcl : cliques.Nodup)
    (hrecv : ∀ ij ∈ order, ij.2 ∈ cliques) :
    beliefPropagationF cliques order pots total = GM.beliefPropagation cliques order pots total := by
  have hk : (pots.map Prod.fst).Nodup := hkeys ▸ hcl
  have hbk : (GM.bpLoop order pots).1.map Prod.fst = cliques := by
    rw [bpLoop_keys order pots (by rw [hkeys]; exact hrecv), hkeys]
  have hgk : (beliefPropagationF cliques order pots total).map Prod.fst = cliques := by
    rw [beliefPropagationG_eq, bpLoopG_eq_model order pots hord hk hs, keys_foldl_normStepG, hbk]
    intro c hc; rw [hbk]; exact hc
  have hmk : (GM.beliefPropagation cliques order pots total).map Prod.fst = cliques := by
    unfold GM.beliefPropagation
    simp only [List.map_map]
    conv => rhs; rw [← List.map_id cliques]
    apply List.map_congr_left
    intro c _; rfl
  apply ext_of_keys _ _ (hgk.trans hmk.symm) (by rw [hgk]; exact hcl)
  intro c hc
  rw [hgk] at hc
  have h1 := beliefPropagationG_get cliques order pots total hord hk hs hcl c hc
  rw [get_eq_getD, get_eq_getD] at h1
  obtain ⟨f1, e1⟩ := exists_lookup_of_mem (beliefPropagationF cliques order pots total) c (by rw [hgk]; exact hc)
  obtain ⟨f2, e2⟩ := exists_lookup_of_mem (GM.beliefPropagation cliques order pots total) c (by rw [hmk]; exact hc)
  rw [e1, e2] at h1 ⊢
  simpa using h1

end bp

/-! ## `variable_elimination_logspace`, `variable_elimination` -/
section ve
open PGM.Sem (veStep)
variable {α : Type} [Scalar α]

/-- the loop body of both generated functions: `padd` is Python's `+` / `*`, `c0` the int the `reduce` starts from,
`red` the reduction method called on the product -/
def veStepG (padd : GMG.PyVal α → GMG.PyVal α → GMG.PyVal α) (c0 : α) (red : Factor α → List Attr → Factor α)
    (psi : List (Factor α)) (z : Attr) : List (Factor α) :=
  let psi2 : List (Factor α) := psi.filter (fun f => ((Dom.attrs (Factor.dom f)).contains z))
  let psi := psi.filter (fun f => !((Dom.attrs (Factor.dom f)).contains z))
  let phi := (psi2.foldl (fun x y => padd x (GMG.PyVal.fac y)) (GMG.PyVal.num c0))
  let tau := (red (GMG.PyVal.asFactor phi) [z])
  let psi := (psi ++ [tau])
  psi

/-- normal form of the generated `veLogspace` -/
def veLogspaceF (pots : List (Factor α)) (elim : List Attr) (total : α) : Factor α :=
  let psi := elim.foldl (veStepG GMG.PyVal.add Scalar.zero Factor.logsumexp) pots
  let ans := psi.foldl (fun x y => GMG.PyVal.add x (GMG.PyVal.fac y)) (GMG.PyVal.num Scalar.zero)
  Factor.exp (Factor.addScalar (Scalar.log total)
    (Factor.subScalar (GMG.PyVal.asFactor ans) (Factor.logsumexpAll (GMG.PyVal.asFactor ans))))

theorem veLogspaceG_eq (pots : List (Factor α)) (elim : List Attr) (total : α) :
    veLogspaceF pots elim total =
      (let psi := elim.foldl (veStepG GMG.PyVal.add Scalar.zero Factor.logsumexp) pots
       let ans := psi.foldl (fun x y => GMG.PyVal.add x (GMG.PyVal.fac y)) (GMG.PyVal.num Scalar.zero)
       Factor.exp (Factor.addScalar (Scalar.log total)
        (Factor.subScalar (GMG.PyVal.asFactor ans) (Factor.logsumexpAll (GMG.PyVal.asFactor ans))))) := rfl

/-- normal form of the generated `variableElimination` -/
def variableEliminationF (fs : List (Factor α)) (elim : List Attr) : GMG.PyVal α :=
  (elim.foldl (veStepG GMG.PyVal.mul Scalar.one Factor.sum) fs).foldl (fun x y => GMG.PyVal.mul x (GMG.PyVal.fac y))
    (GMG.PyVal.num Scalar.one)

theorem variableEliminationG_eq (fs : List (Factor α)) (elim : List Attr) :
    variableEliminationF fs elim =
      (elim.foldl (veStepG GMG.PyVal.mul Scalar.one Factor.sum) fs).foldl (fun x y => GMG.PyVal.mul x (GMG.PyVal.fac y))
        (GMG.PyVal.num Scalar.one) := rfl

section generic
variable (op : α → α → α) (r : List α → α) (padd : GMG.PyVal α → GMG.PyVal α → GMG.PyVal α) (c0 : α)
  (red : Factor α → List Attr → Factor α)
  (hred : ∀ f as, red f as = Factor.reduce r f as)
  (hff : ∀ f g, padd (GMG.PyVal.fac f) (GMG.PyVal.fac g) = GMG.PyVal.fac (Factor.binop op f g))
  (hnf : ∀ f, Shaped f → padd (GMG.PyVal.num c0) (GMG.PyVal.fac f) = GMG.PyVal.fac f)
include hff in
theorem foldl_padd_fac (ps : List (Factor α)) (p : Factor α) :
    ps.foldl (fun x y => padd x (GMG.PyVal.fac y)) (GMG.PyVal.fac p) = GMG.PyVal.fac (ps.foldl (Factor.binop op) p) := by
  induction ps generalizing p with
  | nil => rfl
  | cons q qs ih => rw [List.foldl_cons, List.foldl_cons, hff, ih]

include hff hnf in
/-- `reduce(lambda x,y: x+y, p :: ps, 0)` is the model's fold from the first factor -/
theorem foldl_padd_num (ps : List (Factor α)) (p : Factor α) (hp : Shaped p) :
    (p :: ps).foldl (fun x y => padd x (GMG.PyVal.fac y)) (GMG.PyVal.num c0) = GMG.PyVal.fac (ps.foldl (Factor.binop op) p) := by
  rw [List.foldl_cons, hnf p hp, foldl_padd_fac op padd hff]

include hred hff hnf in
/-- one step, when some factor mentions `z` -/
theorem veStepG_eq (psi : List (Factor α)) (z : Attr) (hocc : ∃ f ∈ psi, z ∈ f.dom.attrs) (hs : ∀ f ∈ psi, Shaped f) :
    veStepG padd c0 red psi z = veStep op r psi z := by
  unfold veStepG veStep
  simp only []
  cases h2 : psi.filter (fun f => f.dom.attrs.contains z) with
  | nil =>
    exfalso
    obtain ⟨f, hf, hz⟩ := hocc
    have : f ∈ psi.filter (fun f => f.dom.attrs.contains z) := by simp [List.mem_filter, hf, hz]
    rw [h2] at this; simp at this
  | cons p ps =>
    have hp : Shaped p := hs p (List.mem_filter.mp (h2 ▸ (List.mem_cons_self : p ∈ p :: ps))).1
    rw [foldl_padd_num op padd c0 hff hnf ps p hp, hred]
    rfl

/-- what the model's step keeps: shapes, non-emptiness, the occurrences of the other attributes -/
theorem veStep_shaped (psi : List (Factor α)) (z : Attr) (hs : ∀ f ∈ psi, Shaped f) : ∀ f ∈ veStep op r psi z, Shaped f := by
  unfold veStep
  intro f hf
  split at hf
  · exact hs f (List.mem_filter.mp hf).1
  · rcases List.mem_append.mp hf with h | h
    · exact hs f (List.mem_filter.mp h).1
    · rw [List.mem_singleton.mp h]; exact shaped_mk' _ _

theorem veStep_ne_nil (psi : List (Factor α)) (z : Attr) (hne : psi ≠ []) : veStep op r psi z ≠ [] := by
  unfold veStep
  split
  · rename_i h2
    intro h
    apply hne
    apply List.eq_nil_iff_forall_not_mem.mpr
    intro f hf
    by_cases hz : f.dom.attrs.contains z = true
    · have : f ∈ psi.filter (fun f => f.dom.attrs.contains z) := List.mem_filter.mpr ⟨hf, hz⟩
      rw [h2] at this; simp at this
    · have : f ∈ psi.filter (fun f => !f.dom.attrs.contains z) := List.mem_filter.mpr ⟨hf, by simpa using hz⟩
      rw [h] at this; simp at this
  · simp

theorem veStep_occ (psi : List (Factor α)) (z a : Attr) (hne : a ≠ z) (h : ∃ f ∈ psi, a ∈ f.dom.attrs) :
    ∃ f ∈ veStep op r psi z, a ∈ f.dom.attrs := by
  obtain ⟨f, hf, ha⟩ := h
  unfold veStep
  by_cases hz : f.dom.attrs.contains z = true
  · have hmem : f ∈ psi.filter (fun f => f.dom.attrs.contains z) := List.mem_filter.mpr ⟨hf, hz⟩
    cases h2 : psi.filter (fun f => f.dom.attrs.contains z) with
    | nil => rw [h2] at hmem; simp at hmem
    | cons p ps =>
      refine ⟨_, List.mem_append.mpr (Or.inr (List.mem_singleton.mpr rfl)), ?_⟩
      rw [Sem.reduce_mem_attrs, Sem.foldl_binop_mem_attrs]
      exact ⟨⟨f, h2 ▸ hmem, ha⟩, by simpa using hne⟩
  · have hmem : f ∈ psi.filter (fun f => !f.dom.attrs.contains z) := List.mem_filter.mpr ⟨hf, by simpa using hz⟩
    split
    · exact ⟨f, hmem, ha⟩
    · exact ⟨f, List.mem_append.mpr (Or.inl hmem), ha⟩

include hred hff hnf in
/-- the elimination loop: with a duplicate-free elimination list whose attributes all occur, the generated loop is the model's -/
theorem veFoldG_eq (elim : List Attr) (psi : List (Factor α)) (hnd : elim.Nodup)
    (hocc : ∀ z ∈ elim, ∃ f ∈ psi, z ∈ f.dom.attrs) (hs : ∀ f ∈ psi, Shaped f) :
    elim.foldl (veStepG padd c0 red) psi = elim.foldl (veStep op r) psi := by
  apply foldl_congr_inv (fun (psi : List (Factor α)) (rest : List Attr) =>
    rest.Nodup ∧ (∀ z ∈ rest, ∃ f ∈ psi, z ∈ f.dom.attrs) ∧ ∀ f ∈ psi, Shaped f)
  · intro psi z zs ⟨h1, h2, h3⟩
    obtain ⟨hz, hzs⟩ := List.nodup_cons.mp h1
    refine ⟨veStepG_eq op r padd c0 red hred hff hnf psi z (h2 z (by simp)) h3, hzs, ?_, veStep_shaped op r psi z h3⟩
    intro z' hz'
    exact veStep_occ op r psi z z' (fun e => hz (e ▸ hz')) (h2 z' (by simp [hz']))
  · exact ⟨hnd, hocc, hs⟩

theorem veFold_shaped (elim : List Attr) (psi : List (Factor α)) (hs : ∀ f ∈ psi, Shaped f) (hne : psi ≠ []) :
    (∀ f ∈ elim.foldl (veStep op r) psi, Shaped f) ∧ elim.foldl (veStep op r) psi ≠ [] :=
  foldl_inv (fun psi : List (Factor α) => (∀ f ∈ psi, Shaped f) ∧ psi ≠ []) (veStep op r)
    (fun psi z h => ⟨veStep_shaped op r psi z h.1, veStep_ne_nil op r psi z h.2⟩) elim psi ⟨hs, hne⟩

end generic

theorem preVE_iff (pots : List (Factor α)) (elim : List Attr) :
    GM.preVE pots elim = true ↔ (∀ z ∈ elim, ∃ f ∈ pots, z ∈ f.dom.attrs) ∧ pots ≠ [] := by
  unfold GM.preVE
  simp [List.all_eq_true, List.any_eq_true]

/-- **`variable_elimination_logspace`** -/
theorem veLogspaceG_eq_model (hz : ∀ x : α, Scalar.add Scalar.zero x = x)
    (pots : List (Factor α)) (elim : List Attr) (total : α) (hs : ∀ f ∈ pots, Shaped f) (hnd : elim.Nodup)
    (hpre : GM.preVE pots elim = true) :
    veLogspaceF pots elim total = GM.veLogspace pots elim total := by
  obtain ⟨hocc, hne⟩ := (preVE_iff pots elim).mp hpre
  have hff : ∀ f g : Factor α, GMG.PyVal.add (GMG.PyVal.fac f) (GMG.PyVal.fac g) = GMG.PyVal.fac (Factor.binop Scalar.add f g) := fun _ _ => rfl
  have hnf : ∀ f : Factor α, Shaped f → GMG.PyVal.add (GMG.PyVal.num Scalar.zero) (GMG.PyVal.fac f) = GMG.PyVal.fac f := by
    intro f hf
    show GMG.PyVal.fac (Factor.addScalar Scalar.zero f) = _
    rw [addScalar_zero hz f hf]
  rw [veLogspaceG_eq, Sem.veLogspace_eq,
    veFoldG_eq Scalar.add Scalar.lse GMG.PyVal.add Scalar.zero Factor.logsumexp (fun _ _ => rfl) hff hnf elim pots hnd hocc hs]
  obtain ⟨h1, h2⟩ := veFold_shaped Scalar.add Scalar.lse elim pots hs hne
  cases hres : elim.foldl (veStep Scalar.add Scalar.lse) pots with
  | nil => exact absurd hres h2
  | cons p ps =>
    simp only []
    rw [foldl_padd_num Scalar.add GMG.PyVal.add Scalar.zero hff hnf ps p (h1 p (by rw [hres]; simp))]
    rfl

/-- **`variable_elimination`**: the Python value returned is the Factor the model returns -/
theorem variableEliminationG_eq_model (ho : ∀ x : α, Scalar.nanToNum (Scalar.mul Scalar.one x) = x)
    (fs : List (Factor α)) (elim : List Attr) (hs : ∀ f ∈ fs, Shaped f) (hnd : elim.Nodup)
    (hpre : GM.preVE fs elim = true) :
    variableEliminationF fs elim = GMG.PyVal.fac (GM.variableElimination fs elim) := by
  obtain ⟨hocc, hne⟩ := (preVE_iff fs elim).mp hpre
  have hff : ∀ f g : Factor α, GMG.PyVal.mul (GMG.PyVal.fac f) (GMG.PyVal.fac g) = GMG.PyVal.fac (Factor.binop Scalar.mul f g) := fun _ _ => rfl
  have hnf : ∀ f : Factor α, Shaped f → GMG.PyVal.mul (GMG.PyVal.num Scalar.one) (GMG.PyVal.fac f) = GMG.PyVal.fac f := by
    intro f hf
    show GMG.PyVal.fac (Factor.mulScalar Scalar.one f) = _
    rw [mulScalar_one ho f hf]
  rw [variableEliminationG_eq, Sem.variableElimination_eq,
    veFoldG_eq Scalar.mul Scalar.sum GMG.PyVal.mul Scalar.one Factor.sum (fun _ _ => rfl) hff hnf elim fs hnd hocc hs]
  obtain ⟨h1, h2⟩ := veFold_shaped Scalar.mul Scalar.sum elim fs hs hne
  cases hres : elim.foldl (veStep Scalar.mul Scalar.sum) fs with
  | nil => exact absurd hres h2
  | cons p ps =>
    simp only []
    rw [foldl_padd_num Scalar.mul GMG.PyVal.mul Scalar.one hff hnf ps p (h1 p (by rw [hres]; simp))]

end ve

/-! ## `datavector` -/
section dv
variable {α : Type} [Scalar α] {β : Type} [Scalar β]

/-- the model's `logp`: the sum of the clique potentials, folded from the first one -/
def logpOf (cliques : List Clique) (pots : CliqueVec α) : Factor α :=
  match cliques.map pots.get with
  | [] => Factor.zeros []
  | p :: ps => ps.foldl Factor.add p

/-- `wgt = ans.domain.size() / self.domain.size()` as the generated definition computes it -/
def wgtOf (d : Dom) (cliques : List Clique) (pots : CliqueVec α) : β :=
  Scalar.div (Scalar.ofNat (Dom.size (logpOf cliques pots).dom)) (Scalar.ofNat (Dom.size d))

/-- normal form of the generated `datavector` (the `let`s of the source, one per statement) -/
def datavectorF (plain : α → β) (domain : Dom) (cliques : List Clique) (potentials : CliqueVec α) (total : β) : List β :=
  let logp := ((cliques.map (fun cl => (CliqueVec.get potentials cl))).foldl (fun x y => GMG.PyVal.add x (GMG.PyVal.fac y)) (GMG.PyVal.num Scalar.zero))
  let ans := (Factor.exp (Factor.subScalar (GMG.PyVal.asFactor logp) (Factor.logsumexpAll (GMG.PyVal.asFactor logp))))
  let wgt := (Scalar.div (Scalar.ofNat (Dom.size (Factor.dom ans))) (Scalar.ofNat (Dom.size domain)) : β)
  ((((Factor.datavector (Factor.expand ans domain)).map plain).map (fun v => Scalar.mul v wgt)).map (fun v => Scalar.mul v total))

/-- **`datavector()`**: the generated function is the model's `datavectorCore` (in log space) followed by `datavectorScale` (in plain
space) with the weight `|dom(logp)| / |domain|` -/
theorem datavectorG_eq_model (hz : ∀ x : α, Scalar.add Scalar.zero x = x) (plain : α → β) (d : Dom) (cliques : List Clique)
    (pots : CliqueVec α) (total : β) (hne : cliques ≠ []) (hs : Shaped (pots.get (cliques.headD []))) :
    datavectorF plain d cliques pots total
      = GM.datavectorScale ((GM.datavectorCore d cliques pots).datavector.map plain) (wgtOf d cliques pots) total := by
  cases cliques with
  | nil => exact absurd rfl hne
  | cons c cs =>
    have hff : ∀ f g : Factor α, GMG.PyVal.add (GMG.PyVal.fac f) (GMG.PyVal.fac g) = GMG.PyVal.fac (Factor.binop Scalar.add f g) :=
      fun _ _ => rfl
    have hnf : ∀ f : Factor α, Shaped f → GMG.PyVal.add (GMG.PyVal.num Scalar.zero) (GMG.PyVal.fac f) = GMG.PyVal.fac f := by
      intro f hf
      show GMG.PyVal.fac (Factor.addScalar Scalar.zero f) = _
      rw [addScalar_zero hz f hf]
    unfold datavectorF GM.datavectorCore GM.datavectorScale wgtOf logpOf
    simp only [List.map_cons]
    have hs' : Shaped (pots.get c) := hs
    rw [foldl_padd_num Scalar.add GMG.PyVal.add Scalar.zero hff hnf (cs.map (fun cl => pots.get cl)) (pots.get c) hs']
    simp only [List.map_map]
    rfl

end dv

/-! ## `mle` -/
section mle
variable {α : Type} [Scalar α] {β : Type} [Scalar β]

theorem foldl_rel {σ τ ι : Type} (R : σ → τ → List ι → Prop) (f : σ → ι → σ) (g : τ → ι → τ)
    (hstep : ∀ s t x xs, R s t (x :: xs) → R (f s x) (g t x) xs) :
    ∀ (l : List ι) (s : σ) (t : τ), R s t l → R (l.foldl f s) (l.foldl g t) [] := by
  intro l
  induction l with
  | nil => intro s t h; exact h
  | cons x xs ih => intro s t h; exact ih _ _ (hstep s t x xs h)

/-- the loop body of the hand model (state `(variables, potentials)`) -/
def mleStep (logf : Factor β → Factor α) (marg : CliqueVec β) (st : List Attr × CliqueVec α) (cl : Clique) :
    List Attr × CliqueVec α :=
  match st with
  | (vars, out) =>
    let new := cl.filter (fun a => vars.contains a)
    let m := marg.get cl
    let pot := (logf m).sub (logf (m.projectSum new))
    (JT.union vars cl, out ++ [(cl, pot)])

theorem mle_eq (logf : Factor β → Factor α) (cliques : List Clique) (marg : CliqueVec β) :
    GM.mle logf cliques marg = (cliques.foldl (mleStep logf marg) ([], [])).2 := rfl

/-- the loop body of the generated definition (state `(potentials, variables)`) -/
def mleStepG (logf : Factor β → Factor α) (marginals : CliqueVec β) (st : CliqueVec α × List Attr) (cl : Clique) :
    CliqueVec α × List Attr :=
  match st with
  | (potentials, vars) =>
    let new := (JT.inter cl vars)
    let vars := (JT.union vars cl)
    let potentials := (CliqueVec.set potentials cl (Factor.sub (logf (CliqueVec.get marginals cl)) (logf (Factor.projectSum (CliqueVec.get marginals cl) new))))
    (potentials, vars)

theorem pair_fst {A B : Type} (s : A × B) : (match s with | (p, _) => p) = s.1 := by cases s; rfl

/-- normal form of the generated `mle` -/
def mleF (logf : Factor β → Factor α) (cliques : List Clique) (marg : CliqueVec β) : CliqueVec α :=
  (cliques.foldl (mleStepG logf marg) ([], [])).1

theorem mleG_eq (logf : Factor β → Factor α) (cliques : List Clique) (marg : CliqueVec β) :
    mleF logf cliques marg = (cliques.foldl (mleStepG logf marg) ([], [])).1 := rfl

/-- **`mle`**: on a duplicate-free clique list Python's `potentials[cl] = …` is the model's append -/
theorem mleG_eq_model (logf : Factor β → Factor α) (cliques : List Clique) (marg : CliqueVec β) (hnd : cliques.Nodup) :
    mleF logf cliques marg = GM.mle logf cliques marg := by
  rw [mleG_eq, mle_eq]
  have := foldl_rel (fun (s : CliqueVec α × List Attr) (t : List Attr × CliqueVec α) (rest : List Clique) =>
      s = (t.2, t.1) ∧ rest.Nodup ∧ ∀ c ∈ rest, c ∉ t.2.map Prod.fst) (mleStepG logf marg) (mleStep logf marg)
    (by
      intro s t x xs ⟨h1, h2, h3⟩
      obtain ⟨vars, out⟩ := t
      subst h1
      obtain ⟨hx, hxs⟩ := List.nodup_cons.mp h2
      have hfresh : x ∉ out.map Prod.fst := h3 x (by simp)
      refine ⟨?_, hxs, ?_⟩
      · unfold mleStepG mleStep
        simp only []
        have e0 : ∀ f, CliqueVec.set out x f = GM.dictSet out x f := fun _ => rfl
        rw [e0, dictSet_fresh out x _ hfresh]
        rfl
      · intro c hc
        unfold mleStep
        simp only [List.map_append, List.map_cons, List.map_nil, List.mem_append, List.mem_singleton, not_or]
        exact ⟨h3 c (by simp [hc]), fun e => hx (e ▸ hc)⟩)
    cliques ([], []) ([], []) ⟨rfl, hnd, by simp⟩
  rw [this.1]

end mle
end PGM.GMGen
