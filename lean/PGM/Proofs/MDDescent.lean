import Mathlib.Analysis.SpecialFunctions.Log.Basic
import Mathlib.Algebra.BigOperators.Group.List.Basic
import Mathlib.Algebra.BigOperators.Ring.List
import Mathlib.Algebra.Order.BigOperators.Group.List
import Mathlib.Algebra.BigOperators.Group.Finset.Basic
import Mathlib.Tactic.Ring
import Mathlib.Tactic.Linarith
import Mathlib.Tactic.FieldSimp
/-!
# Monotonicity of the exponential-family mean map, and the Armijo test (pure real analysis)

For base weights `h ≥ 0` (structural zeros: `h i = 0`), parameters `θ`, a direction `g` and a step
`α`, with `p θ i = h i · exp (θ i) / Σ_j h j · exp (θ j)`:

`0 ≤ α · Σ_i g i · (p θ i − p (θ − α g) i)`     (for every real `α`), hence
`0 ≤     Σ_i g i · (p θ i − p (θ − α g) i)`     for `α ≥ 0`.

The proof adds the two first-order (Jensen) inequalities of the log-partition function, in the
multiplicative form `Σ w exp x ≥ (Σ w) · exp (Σ w x / Σ w)`; no logarithm is needed.
Nothing here mentions the model.
-/
namespace PGM.MD

variable {ι : Type}

/-- `p θ i = h i · exp (θ i) / Σ_j h j · exp (θ j)` over the index list `l` -/
noncomputable def expfamMean (l : List ι) (h θ : ι → ℝ) (i : ι) : ℝ :=
  h i * Real.exp (θ i) / (l.map (fun j => h j * Real.exp (θ j))).sum

/-! ### list sums -/

theorem sum_map_sub' (l : List ι) (f g : ι → ℝ) :
    (l.map (fun i => f i - g i)).sum = (l.map f).sum - (l.map g).sum := by
  induction l with
  | nil => simp
  | cons a l ih => simp only [List.map_cons, List.sum_cons, ih]; ring

theorem sum_map_nonneg (l : List ι) (f : ι → ℝ) (hf : ∀ i ∈ l, 0 ≤ f i) : 0 ≤ (l.map f).sum := by
  apply List.sum_nonneg
  intro x hx
  obtain ⟨i, hi, rfl⟩ := List.mem_map.mp hx
  exact hf i hi

/-- a positive total of nonnegative weights stays positive after multiplying each weight by a
positive factor -/
theorem sum_mul_pos_of_sum_pos (l : List ι) (w e : ι → ℝ) (hw : ∀ i ∈ l, 0 ≤ w i)
    (he : ∀ i ∈ l, 0 < e i) (hs : 0 < (l.map w).sum) : 0 < (l.map (fun i => w i * e i)).sum := by
  induction l with
  | nil => simp at hs
  | cons a l ih =>
    simp only [List.map_cons, List.sum_cons] at hs ⊢
    have hwa := hw a List.mem_cons_self
    have hea := he a List.mem_cons_self
    have hw' : ∀ i ∈ l, 0 ≤ w i := fun i hi => hw i (List.mem_cons_of_mem _ hi)
    have he' : ∀ i ∈ l, 0 < e i := fun i hi => he i (List.mem_cons_of_mem _ hi)
    have hrest : 0 ≤ (l.map (fun i => w i * e i)).sum :=
      sum_map_nonneg l _ (fun i hi => mul_nonneg (hw' i hi) (he' i hi).le)
    rcases hwa.eq_or_lt with h0 | hpos
    · rw [← h0] at hs ⊢
      have := ih hw' he' (by linarith)
      linarith
    · have : 0 < w a * e a := mul_pos hpos hea
      linarith

/-- **Jensen's inequality for `exp`**, multiplicative form, with weights of total `Z > 0`:
`Z · exp (Σ w x / Z) ≤ Σ w · exp x` -/
theorem jensen_exp (l : List ι) (w x : ι → ℝ) (hw : ∀ i ∈ l, 0 ≤ w i)
    (hZ : 0 < (l.map w).sum) :
    (l.map w).sum * Real.exp ((l.map (fun i => w i * x i)).sum / (l.map w).sum)
      ≤ (l.map (fun i => w i * Real.exp (x i))).sum := by
  set Z := (l.map w).sum with hZdef
  set m := (l.map (fun i => w i * x i)).sum / Z with hm
  have hterm : ∀ i ∈ l, w i * (Real.exp m * (1 + (x i - m))) ≤ w i * Real.exp (x i) := by
    intro i hi
    apply mul_le_mul_of_nonneg_left _ (hw i hi)
    have h1 : x i - m + 1 ≤ Real.exp (x i - m) := Real.add_one_le_exp _
    have h2 : Real.exp (x i) = Real.exp m * Real.exp (x i - m) := by
      rw [← Real.exp_add]; congr 1; ring
    rw [h2]
    apply mul_le_mul_of_nonneg_left _ (Real.exp_pos m).le
    linarith
  have hsum : (l.map (fun i => w i * (Real.exp m * (1 + (x i - m))))).sum = Z * Real.exp m := by
    have e1 : ∀ i ∈ l, w i * (Real.exp m * (1 + (x i - m)))
        = w i * (Real.exp m * (1 - m)) + w i * x i * Real.exp m := by
      intro i _; ring
    rw [List.map_congr_left e1, List.sum_map_add, List.sum_map_mul_right, List.sum_map_mul_right,
      ← hZdef]
    have : (l.map (fun i => w i * x i)).sum = m * Z := by
      rw [hm]; field_simp
    rw [this]
    ring
  rw [← hsum]
  exact List.sum_le_sum hterm

/-! ### the two first-order inequalities, added -/

/-- the core inequality, in un-normalised form: with `w' i = w i · exp (−α g i)`,
`α · (Σ w' g / Σ w' − Σ w g / Σ w) ≤ 0` -/
theorem tilt_mean_le (l : List ι) (w g : ι → ℝ) (α : ℝ) (hw : ∀ i ∈ l, 0 ≤ w i)
    (hZ : 0 < (l.map w).sum) :
    α * ((l.map (fun i => w i * Real.exp (-(α * g i)) * g i)).sum
          / (l.map (fun i => w i * Real.exp (-(α * g i)))).sum
        - (l.map (fun i => w i * g i)).sum / (l.map w).sum) ≤ 0 := by
  set Z := (l.map w).sum with hZdef
  set w' : ι → ℝ := fun i => w i * Real.exp (-(α * g i)) with hw'def
  have hw' : ∀ i ∈ l, 0 ≤ w' i := fun i hi => mul_nonneg (hw i hi) (Real.exp_pos _).le
  have hZ' : 0 < (l.map w').sum :=
    sum_mul_pos_of_sum_pos l w _ hw (fun i _ => Real.exp_pos _) hZ
  set Z' := (l.map w').sum with hZ'def
  -- A(θ') ≥ A(θ) + ⟨p, θ' − θ⟩
  have j1 := jensen_exp l w (fun i => -(α * g i)) hw hZ
  -- A(θ) ≥ A(θ') + ⟨p', θ − θ'⟩
  have j2 := jensen_exp l w' (fun i => α * g i) hw' hZ'
  have e2 : (l.map (fun i => w' i * Real.exp (α * g i))).sum = Z := by
    rw [hZdef]
    congr 1
    apply List.map_congr_left
    intro i _
    rw [hw'def]
    show w i * Real.exp (-(α * g i)) * Real.exp (α * g i) = w i
    rw [mul_assoc, ← Real.exp_add]
    simp
  rw [e2] at j2
  change Z * Real.exp ((l.map (fun i => w i * -(α * g i))).sum / Z) ≤ Z' at j1
  change Z' * Real.exp ((l.map (fun i => w' i * (α * g i))).sum / Z') ≤ Z at j2
  set a := (l.map (fun i => w i * g i)).sum / Z with ha
  set a' := (l.map (fun i => w' i * g i)).sum / Z' with ha'
  have m1 : (l.map (fun i => w i * -(α * g i))).sum / Z = -(α * a) := by
    have : ∀ i ∈ l, w i * -(α * g i) = w i * g i * (-α) := fun i _ => by ring
    rw [List.map_congr_left this, List.sum_map_mul_right, ha]
    ring
  have m2 : (l.map (fun i => w' i * (α * g i))).sum / Z' = α * a' := by
    have : ∀ i ∈ l, w' i * (α * g i) = w' i * g i * α := fun i _ => by ring
    rw [List.map_congr_left this, List.sum_map_mul_right, ha']
    ring
  rw [m1] at j1
  rw [m2] at j2
  -- multiply the two: Z Z' exp(α (a' − a)) ≤ Z' Z
  have hprod : Z * Z' * Real.exp (α * (a' - a)) ≤ Z * Z' := by
    have h1 : Z * Z' * Real.exp (α * (a' - a))
        = (Z * Real.exp (-(α * a))) * (Z' * Real.exp (α * a')) := by
      have : α * (a' - a) = -(α * a) + α * a' := by ring
      rw [this, Real.exp_add]; ring
    rw [h1]
    calc (Z * Real.exp (-(α * a))) * (Z' * Real.exp (α * a'))
        ≤ Z' * Z := by
          apply mul_le_mul j1 j2 (by positivity) hZ'.le
      _ = Z * Z' := by ring
  have hle : Real.exp (α * (a' - a)) ≤ 1 := by
    have hpos : 0 < Z * Z' := mul_pos hZ hZ'
    by_contra hc
    rw [not_le] at hc
    have := mul_lt_mul_of_pos_left hc hpos
    linarith
  have : α * (a' - a) ≤ 0 := by
    by_contra hc
    rw [not_le] at hc
    have := Real.one_lt_exp_iff.mpr hc
    linarith
  exact this

/-- the weights of the tilted parameter `θ − α g` -/
theorem tilt_weight (h θ g : ι → ℝ) (α : ℝ) (i : ι) :
    h i * Real.exp (θ i - α * g i) = h i * Real.exp (θ i) * Real.exp (-(α * g i)) := by
  rw [sub_eq_add_neg, Real.exp_add]; ring

/-- `Σ g · p θ` as a ratio of sums -/
theorem sum_mul_expfamMean (l : List ι) (h θ g : ι → ℝ) :
    (l.map (fun i => g i * expfamMean l h θ i)).sum
      = (l.map (fun i => h i * Real.exp (θ i) * g i)).sum
          / (l.map (fun i => h i * Real.exp (θ i))).sum := by
  unfold expfamMean
  set Z := (l.map (fun j => h j * Real.exp (θ j))).sum
  have : ∀ i ∈ l, g i * (h i * Real.exp (θ i) / Z) = h i * Real.exp (θ i) * g i * Z⁻¹ :=
    fun i _ => by ring
  rw [List.map_congr_left this, List.sum_map_mul_right]
  ring

/-- **monotonicity of the mean map, signed form**: for every real step `α`,
`0 ≤ α · ⟨g, p θ − p (θ − α g)⟩`, i.e. `⟨θ' − θ, p θ' − p θ⟩ ≥ 0` with `θ' = θ − α g` -/
theorem expfam_mean_monotone_signed (l : List ι) (h θ g : ι → ℝ) (α : ℝ)
    (hh : ∀ i ∈ l, 0 ≤ h i) (hZ : 0 < (l.map (fun i => h i * Real.exp (θ i))).sum) :
    0 ≤ α * (l.map (fun i => g i *
        (expfamMean l h θ i - expfamMean l h (fun j => θ j - α * g j) i))).sum := by
  have e0 : ∀ i ∈ l, g i * (expfamMean l h θ i - expfamMean l h (fun j => θ j - α * g j) i)
      = g i * expfamMean l h θ i - g i * expfamMean l h (fun j => θ j - α * g j) i :=
    fun i _ => by ring
  rw [List.map_congr_left e0, sum_map_sub', sum_mul_expfamMean, sum_mul_expfamMean]
  have hw : ∀ i ∈ l, 0 ≤ h i * Real.exp (θ i) := fun i hi => mul_nonneg (hh i hi) (Real.exp_pos _).le
  have key := tilt_mean_le l (fun i => h i * Real.exp (θ i)) g α hw hZ
  have e1 : (fun i => h i * Real.exp (θ i - α * g i) * g i)
      = (fun i => h i * Real.exp (θ i) * Real.exp (-(α * g i)) * g i) := by
    funext i; rw [tilt_weight]
  have e2 : (fun i => h i * Real.exp (θ i - α * g i))
      = (fun i => h i * Real.exp (θ i) * Real.exp (-(α * g i))) := by
    funext i; rw [tilt_weight]
  rw [e1, e2]
  linarith

/-- **monotonicity of the exponential-family mean map** (deliverable 1): base weights `h ≥ 0` with
`Σ h exp θ > 0`, `α ≥ 0`:  `0 ≤ Σ_i g i · (p θ i − p (θ − α g) i)` -/
theorem expfam_mean_monotone (l : List ι) (h θ g : ι → ℝ) (α : ℝ)
    (hh : ∀ i ∈ l, 0 ≤ h i) (hZ : 0 < (l.map (fun i => h i * Real.exp (θ i))).sum) (hα : 0 ≤ α) :
    0 ≤ (l.map (fun i => g i *
        (expfamMean l h θ i - expfamMean l h (fun j => θ j - α * g j) i))).sum := by
  rcases hα.eq_or_lt with h0 | hpos
  · subst h0
    have : ∀ i ∈ l, g i * (expfamMean l h θ i - expfamMean l h (fun j => θ j - 0 * g j) i) = 0 := by
      intro i _
      have : (fun j => θ j - 0 * g j) = θ := by funext j; ring
      rw [this]; ring
    rw [List.map_congr_left this]
    simp
  · have := expfam_mean_monotone_signed l h θ g α hh hZ
    exact nonneg_of_mul_nonneg_right this hpos

/-- the same as an inequality between the two means `⟨g, p (θ − α g)⟩ ≤ ⟨g, p θ⟩`, each written as a
ratio of sums (the form used when lifting to clique marginals) -/
theorem expfam_mean_monotone_ratio (l : List ι) (h θ g : ι → ℝ) (α : ℝ)
    (hh : ∀ i ∈ l, 0 ≤ h i) (hZ : 0 < (l.map (fun i => h i * Real.exp (θ i))).sum) (hα : 0 ≤ α) :
    (l.map (fun i => h i * Real.exp (θ i - α * g i) * g i)).sum
        / (l.map (fun i => h i * Real.exp (θ i - α * g i))).sum
      ≤ (l.map (fun i => h i * Real.exp (θ i) * g i)).sum
        / (l.map (fun i => h i * Real.exp (θ i))).sum := by
  have key := expfam_mean_monotone l h θ g α hh hZ hα
  have e0 : ∀ i ∈ l, g i * (expfamMean l h θ i - expfamMean l h (fun j => θ j - α * g j) i)
      = g i * expfamMean l h θ i - g i * expfamMean l h (fun j => θ j - α * g j) i :=
    fun i _ => by ring
  rw [List.map_congr_left e0, sum_map_sub', sum_mul_expfamMean, sum_mul_expfamMean] at key
  linarith

/-- the signed form as an inequality between ratios of sums, for every real `α` -/
theorem expfam_mean_signed_ratio (l : List ι) (h θ g : ι → ℝ) (α : ℝ)
    (hh : ∀ i ∈ l, 0 ≤ h i) (hZ : 0 < (l.map (fun i => h i * Real.exp (θ i))).sum) :
    α * ((l.map (fun i => h i * Real.exp (θ i - α * g i) * g i)).sum
          / (l.map (fun i => h i * Real.exp (θ i - α * g i))).sum
        - (l.map (fun i => h i * Real.exp (θ i) * g i)).sum
          / (l.map (fun i => h i * Real.exp (θ i))).sum) ≤ 0 := by
  have hw : ∀ i ∈ l, 0 ≤ h i * Real.exp (θ i) := fun i hi => mul_nonneg (hh i hi) (Real.exp_pos _).le
  have key := tilt_mean_le l (fun i => h i * Real.exp (θ i)) g α hw hZ
  have e1 : (fun i => h i * Real.exp (θ i - α * g i) * g i)
      = (fun i => h i * Real.exp (θ i) * Real.exp (-(α * g i)) * g i) := by
    funext i; rw [tilt_weight]
  have e2 : (fun i => h i * Real.exp (θ i - α * g i))
      = (fun i => h i * Real.exp (θ i) * Real.exp (-(α * g i))) := by
    funext i; rw [tilt_weight]
  rw [e1, e2]
  exact key

/-- the same over a finite index type, with `Finset` sums -/
theorem expfam_mean_monotone_fintype {κ : Type} [Fintype κ] (h θ g : κ → ℝ) (α : ℝ)
    (hh : ∀ i, 0 ≤ h i) (hZ : 0 < ∑ i, h i * Real.exp (θ i)) (hα : 0 ≤ α) :
    0 ≤ ∑ i, g i * (h i * Real.exp (θ i) / ∑ j, h j * Real.exp (θ j)
        - h i * Real.exp (θ i - α * g i) / ∑ j, h j * Real.exp (θ j - α * g j)) := by
  have key := expfam_mean_monotone (Finset.univ : Finset κ).toList h θ g α (fun i _ => hh i)
    (by rw [Finset.sum_map_toList]; exact hZ) hα
  unfold expfamMean at key
  rw [Finset.sum_map_toList] at key
  simp only [Finset.sum_map_toList] at key
  exact key

/-! ### the Armijo acceptance test -/

/-- **an accepted step does not increase the loss** (deliverable 2): `α ≥ 0`, `d ≥ 0` and
`curr − new ≥ 0.5·α·d` give `new ≤ curr` -/
theorem armijo_accept_no_increase (curr new α d : ℝ) (hα : 0 ≤ α) (hd : 0 ≤ d)
    (hacc : curr - new ≥ 0.5 * α * d) : new ≤ curr := by
  have : 0 ≤ 0.5 * α * d := by positivity
  linarith

/-- the same from the signed product `α·d ≥ 0` alone -/
theorem armijo_accept_no_increase' (curr new α d : ℝ) (had : 0 ≤ α * d)
    (hacc : curr - new ≥ 0.5 * α * d) : new ≤ curr := by
  have : 0.5 * α * d = 0.5 * (α * d) := by ring
  rw [this] at hacc
  have : 0 ≤ 0.5 * (α * d) := by positivity
  linarith

/-! ### the hypotheses are satisfiable: three cells, the middle one a structural zero -/

example : (∀ i ∈ [0, 1, 2], 0 ≤ (if i = 1 then (0:ℝ) else 1)) ∧
    0 < ([0, 1, 2].map (fun i : Nat => (if i = 1 then (0:ℝ) else 1) * Real.exp ((i : ℝ)))).sum := by
  constructor
  · intro i _; split <;> norm_num
  · simp
    positivity

/-- the Armijo hypotheses on a concrete accepted step (`curr = 3`, `new = 2`, `α = 1`, `d = 2`) -/
example : (0:ℝ) ≤ 1 ∧ (0:ℝ) ≤ 2 ∧ (3:ℝ) - 2 ≥ 0.5 * 1 * 2 := by norm_num

end PGM.MD
