import PGM.Proofs.E2EGen
import PGM.Proofs.GMGen
import PGM.Proofs.ZerosSem
import PGM.Proofs.BPBounded
import PGM.Proofs.GMQJointGen
/-!
# Where the cells of a table come from; sign of the exp-space parameters along mirror descent (helpers for C10E)

Part A (every scalar type): every cell of `expand` / `transpose`-like re-indexings is a cell of the source or `default`
(the out-of-range read); every cell of `binop op f g` / `iop op f g` is `op u v` with `u`, `v` such cells.

Part B (`LogOf K`, the exp-space reading of log-space parameters — `-inf ↦ 0`, `+` is `*`, `default = log 1`): for a
predicate `P` on `K` with `P 1` closed under `*` (`0 ≤ ·`, `0 < ·`): `P` on every cell is kept by `theta + h`, by
`combine`, and by the mirror-descent update `theta - alpha*dL` for EVERY `alpha`, `dL` (at this reading `c * x` reads `c`, so
the subtracted table is the constant `-1 ↦ 1⁻¹ = 1`: the reading records the layout and the zero pattern, not the values).
Hence the parameters the generated `mirror_descent` returns are nonnegative in exp-space, positive when no structural zero is
declared, and then `Z > 0` on a domain without an attribute of size 0.
-/
set_option linter.unusedVariables false
set_option linter.unusedSectionVars false
namespace PGM.CellsPos
open PGM PGM.JT PGM.Sem PGM.Zeros PGM.GMGen

/-! ## A. provenance of cells -/
section prov
variable {α : Type} [Scalar α]

theorem get_from (a : NdArr α) (idx : List Nat) : a.get idx ∈ a.data.toList ∨ a.get idx = default := by
  unfold NdArr.get
  rw [Array.getD_eq_getD_getElem?]
  cases hx : a.data[ravel a.shape idx]? with
  | none => right; rfl
  | some x => left; exact Array.mem_toList_iff.mpr (Array.mem_of_getElem? hx)

theorem mem_ofFn (s : List Nat) (g : List Nat → α) (x : α) (h : x ∈ (NdArr.ofFn s g).data.toList) : ∃ idx, x = g idx := by
  unfold NdArr.ofFn at h
  simp only [List.mem_map] at h
  obtain ⟨i, _, rfl⟩ := h
  exact ⟨i, rfl⟩

theorem transposeAx_from (a : NdArr α) (perm : List Nat) (x : α) (h : x ∈ (a.transposeAx perm).data.toList) :
    x ∈ a.data.toList ∨ x = default := by
  obtain ⟨idx, rfl⟩ := mem_ofFn _ _ x h
  exact get_from a _

theorem broadcastTo_from (a : NdArr α) (s : List Nat) (x : α) (h : x ∈ (a.broadcastTo s).data.toList) :
    x ∈ a.data.toList ∨ x = default := by
  obtain ⟨idx, rfl⟩ := mem_ofFn _ _ x h
  exact get_from a _

/-- **cells of `expand`**: source cells or `default` -/
theorem expand_from (f : Factor α) (d : Dom) (x : α) (h : x ∈ (f.expand d).vals.data.toList) :
    x ∈ f.vals.data.toList ∨ x = default := by
  rcases broadcastTo_from _ d.shape x h with h1 | h1
  · rcases transposeAx_from _ _ x h1 with h2 | h2
    · exact Or.inl h2
    · exact Or.inr h2
  · exact Or.inr h1

theorem mem_zipWith {β γ δ : Type} (op : β → γ → δ) (l1 : List β) (l2 : List γ) (x : δ) (h : x ∈ List.zipWith op l1 l2) :
    ∃ u ∈ l1, ∃ v ∈ l2, x = op u v := by
  induction l1 generalizing l2 with
  | nil => simp at h
  | cons a as ih =>
    cases l2 with
    | nil => simp at h
    | cons b bs =>
      rw [List.zipWith_cons_cons, List.mem_cons] at h
      rcases h with rfl | h
      · exact ⟨a, List.mem_cons_self .., b, List.mem_cons_self .., rfl⟩
      · obtain ⟨u, hu, v, hv, e⟩ := ih bs h
        exact ⟨u, List.mem_cons_of_mem _ hu, v, List.mem_cons_of_mem _ hv, e⟩

/-- **cells of `binop`**: `op u v`, `u` a cell of `f` or `default`, `v` a cell of `g` or `default` -/
theorem binop_from (op : α → α → α) (f g : Factor α) (x : α) (h : x ∈ (Factor.binop op f g).vals.data.toList) :
    ∃ u v, (u ∈ f.vals.data.toList ∨ u = default) ∧ (v ∈ g.vals.data.toList ∨ v = default) ∧ x = op u v := by
  have h' : x ∈ (Array.zipWith op (f.expand (f.dom.merge g.dom)).vals.data (g.expand (f.dom.merge g.dom)).vals.data).toList := h
  rw [Array.toList_zipWith] at h'
  obtain ⟨u, hu, v, hv, e⟩ := mem_zipWith op _ _ x h'
  exact ⟨u, v, expand_from f _ u hu, expand_from g _ v hv, e⟩

/-- **cells of `iop`** (`+=`): `op u v`, `u` a cell of `f`, `v` a cell of `g` or `default` -/
theorem iop_from (op : α → α → α) (f g : Factor α) (x : α) (h : x ∈ (Factor.iop op f g).vals.data.toList) :
    ∃ u v, u ∈ f.vals.data.toList ∧ (v ∈ g.vals.data.toList ∨ v = default) ∧ x = op u v := by
  have h' : x ∈ (Array.zipWith op f.vals.data (g.expand f.dom).vals.data).toList := h
  rw [Array.toList_zipWith] at h'
  obtain ⟨u, hu, v, hv, e⟩ := mem_zipWith op _ _ x h'
  exact ⟨u, v, hu, expand_from g _ v hv, e⟩

end prov

/-! ## B. a multiplicative predicate on the exp-space cells -/
section sign
variable {K : Type} [Field K] [LinearOrder K] [IsStrictOrderedRing K]

/-- every stored cell satisfies `P` -/
def CellsP (P : K → Prop) (f : Factor (LogOf K)) : Prop := ∀ x ∈ f.vals.data.toList, P x.v
def VecP (P : K → Prop) (θ : CliqueVec (LogOf K)) : Prop := ∀ p ∈ θ, CellsP P p.2

variable (P : K → Prop) (hP1 : P 1) (hmul : ∀ a b, P a → P b → P (a * b))
include hP1

theorem from_P (l : List (LogOf K)) (hl : ∀ y ∈ l, P y.v) (x : LogOf K) (h : x ∈ l ∨ x = default) : P x.v := by
  rcases h with h | h
  · exact hl x h
  · rw [h]; exact hP1

theorem zeros_P (D : Dom) : CellsP P (Factor.zeros D : Factor (LogOf K)) := by
  intro x hx
  have hx' : x ∈ (Array.replicate (size D.shape) (Scalar.zero : LogOf K)).toList := hx
  rw [Array.toList_replicate] at hx'
  rw [List.eq_of_mem_replicate hx']
  exact hP1

theorem get_P (θ : CliqueVec (LogOf K)) (hθ : VecP P θ) (c : Clique) : CellsP P (θ.get c) := by
  rw [get_eq_getD]
  cases h : θ.lookup c with
  | none => exact zeros_P P hP1 []
  | some f => exact hθ (c, f) (mem_of_lookup θ c f h)

/-- `c * b` at this reading: every cell reads `c` -/
theorem mulScalar_P (c : LogOf K) (hc : P c.v) (f : Factor (LogOf K)) : CellsP P (Factor.mulScalar c f) := by
  intro x hx
  have hx' : x ∈ (f.vals.data.map (fun v => Scalar.nanToNum (Scalar.mul c v))).toList := hx
  rw [Array.toList_map, List.mem_map] at hx'
  obtain ⟨v, _, rfl⟩ := hx'
  exact hc

theorem smul_P (c : LogOf K) (hc : P c.v) (b : CliqueVec (LogOf K)) : VecP P (CliqueVec.smul c b) := by
  intro p hp
  obtain ⟨q, _, rfl⟩ := List.mem_map.mp hp
  exact mulScalar_P P hP1 c hc q.2

include hmul

theorem add_P (f g : Factor (LogOf K)) (hf : CellsP P f) (hg : CellsP P g) : CellsP P (f.add g) := by
  intro x hx
  obtain ⟨u, v, hu, hv, rfl⟩ := binop_from Scalar.add f g x hx
  exact hmul _ _ (from_P P hP1 _ hf u hu) (from_P P hP1 _ hg v hv)

theorem iadd_P (f g : Factor (LogOf K)) (hf : CellsP P f) (hg : CellsP P g) : CellsP P (f.iadd g) := by
  intro x hx
  obtain ⟨u, v, hu, hv, rfl⟩ := iop_from Scalar.add f g x hx
  exact hmul _ _ (hf u hu) (from_P P hP1 _ hg v hv)

theorem addV_P (θ h : CliqueVec (LogOf K)) (hθ : VecP P θ) (hh : VecP P h) : VecP P (CliqueVec.addV θ h) := by
  intro p hp
  obtain ⟨q, hq, rfl⟩ := List.mem_map.mp hp
  exact add_P P hP1 hmul q.2 _ (hθ q hq) (get_P P hP1 h hh q.1)

/-- **the mirror-descent update keeps `P`, for every step size and every gradient** -/
theorem update_P (θ g : CliqueVec (LogOf K)) (al : LogOf K) (hθ : VecP P θ) :
    VecP P (CliqueVec.subV θ (CliqueVec.smul al g)) :=
  addV_P P hP1 hmul θ _ hθ (smul_P P hP1 _ (by show P ((1 : K)⁻¹); rw [inv_one]; exact hP1) _)

theorem combine_P (b o : CliqueVec (LogOf K)) (hb : VecP P b) (ho : VecP P o) : VecP P (CliqueVec.combine b o) := by
  unfold CliqueVec.combine
  apply E2EGen.foldl_inv_mem (VecP P) _ o b hb
  intro acc x hx hacc
  split
  · rename_i p hfind
    have hp := List.mem_of_find?_eq_some hfind
    intro q hq
    rcases mem_set acc p.1 _ q hq with h | h
    · exact hacc q h
    · rw [h]; exact iadd_P P hP1 hmul p.2 x.2 (hacc p hp) (ho x hx)
  · exact hacc

omit hmul in
theorem zerosV_P (d : Dom) (cliques : List Clique) : VecP P (CliqueVec.zerosV d cliques : CliqueVec (LogOf K)) := by
  intro p hp
  obtain ⟨c, _, rfl⟩ := List.mem_map.mp hp
  exact zeros_P P hP1 _

/-- **the generated `mirror_descent` keeps `P`** on every cell of the parameters: any oracle, any loss, any iteration count,
every exit -/
theorem md_P (bp : CliqueVec (LogOf K) → CliqueVec (LogOf K)) (lossgrad : CliqueVec (LogOf K) → LogOf K × CliqueVec (LogOf K))
    (iters : Nat) (theta0 : CliqueVec (LogOf K)) (total : LogOf K) (h0 : VecP P theta0) :
    VecP P (InfG.mirrorDescent bp lossgrad iters theta0 total).potentials :=
  (E2EGen.md_inv (VecP P) bp lossgrad iters theta0 total h0
    (fun omega al m hω => update_P P hP1 hmul omega _ al hω)).1

end sign

/-! ## the two instances -/
section inst
variable {K : Type} [Field K] [LinearOrder K] [IsStrictOrderedRing K]

/-- the structural-zero tables hold `0` (`-inf`) and `1` (`log 1`) -/
theorem zeroVec_nonneg (d : Dom) (zs : List ZeroSpec) : VecP (fun x : K => 0 ≤ x) (zeroVec d zs) := by
  intro p hp
  obtain ⟨z, _, rfl⟩ := List.mem_map.mp hp
  intro x hx
  obtain ⟨idx, rfl⟩ := mem_ofFn _ _ x hx
  split
  · exact le_refl _
  · exact zero_le_one

/-- the parameters `_setup` stores on a cold / first call are nonnegative in exp-space -/
theorem theta0_nonneg (d : Dom) (cliques : List Clique) (zs : List ZeroSpec) :
    VecP (fun x : K => 0 ≤ x) (CliqueVec.combine (CliqueVec.zerosV d cliques) (zeroVec d zs)) :=
  combine_P _ zero_le_one (fun a b => mul_nonneg) _ _ (zerosV_P _ zero_le_one d cliques) (zeroVec_nonneg d zs)

/-- … and positive when no structural zero is declared -/
theorem theta0_pos (d : Dom) (cliques : List Clique) :
    VecP (fun x : K => 0 < x) (CliqueVec.combine (CliqueVec.zerosV d cliques) (zeroVec d [])) :=
  combine_P _ zero_lt_one (fun a b => mul_pos) _ _ (zerosV_P _ zero_lt_one d cliques) (by intro p hp; cases hp)

theorem sem_pos (f : Factor (LogOf K)) (hf : CellsP (fun x : K => 0 < x) f) (τ : Attr → Nat) : 0 < (f.sem τ).v :=
  from_P _ zero_lt_one _ hf _ (get_from f.vals _)

/-- **`Z > 0`**: all potentials positive in exp-space (all log-potentials finite) on a domain with a valid assignment -/
theorem partition_pos (d : Dom) (hd : d.WF) (pots : CliqueVec (LogOf K)) (hpos : VecP (fun x : K => 0 < x) pots)
    (σ : Attr → Nat) (hσ : d.Valid σ) : 0 < partition d pots := by
  unfold partition sumOver
  apply List.sum_pos
  · intro x hx
    obtain ⟨v, _, rfl⟩ := List.mem_map.mp hx
    unfold joint
    apply List.prod_pos
    intro a ha
    obtain ⟨p, hp, rfl⟩ := List.mem_map.mp ha
    exact sem_pos p.2 (hpos p hp) _
  · intro h
    have hin := Factor.inRange_of_valid d hd σ hσ
    rw [Dom.shape_eq_map_cfg d hd] at hin
    have hm := inRange_mem_cells _ _ hin
    rw [List.map_eq_nil_iff.mp h] at hm
    exact absurd hm (by simp)

theorem valid_zero (d : Dom) (hsizes : ∀ p ∈ d, 0 < p.2) : d.Valid (fun _ => 0) := fun p hp => hsizes p hp

end inst

end PGM.CellsPos
