import PGM.Proofs.ConvexSweep
/-!
# One sweep of `generalized_belief_propagation`, edge by edge; its fixed points

* `newMsg` / `newDict`: the un-damped message of one edge and the dictionary `new` of a sweep;
* `gbpSweep_eq`: a sweep = the damping fold over the message order applied to `newDict`;
* `newDict_get`: when every edge of `D[e]` precedes `e` in the message order, the entry of `new` at `e`
  is `newMsg` evaluated on the *finished* dictionary (the Gauss–Seidel reads hit written keys only);
* `fixed_point_edge`: at a fixed point of the sweep every edge satisfies
  `m[e] = 0.5·m[e] + 0.5·new[e]` (an equation between tables).
-/
namespace PGM.GbpFixed
open PGM PGM.JT PGM.RG PGM.Convex
open PGM.GM (dictSet)
set_option linter.unusedSectionVars false
set_option linter.unusedVariables false

/-- lines 262-268 for one edge: the new message of `e`, reading the old messages `msgs` in the numerator and the
dictionary `new` (as far as it is written) in the denominator -/
noncomputable def newMsg (g : RG.Graph) (pot : Region → Factor ℝ) (msgs new : Msgs ℝ) (e : Edge) : Factor ℝ :=
  let num := addSum (pot e.1) (pySum ((look g.N e).map msgs.get))
  let denom := pySum ((look g.D e).map (Msgs.get new))
  let m := subSum (num.logsumexp (diff e.1 e.2)) denom
  m.subScalar m.logsumexpAll

/-- the dictionary `new` at the end of the first inner loop -/
noncomputable def newDict (g : RG.Graph) (pot : Region → Factor ℝ) (msgs : Msgs ℝ) : Msgs ℝ :=
  g.messageOrder.foldl (fun (new : Msgs ℝ) e => dictSet new e (newMsg g pot msgs new e)) []

/-- `0.5*a + 0.5*b` -/
noncomputable def damp2 (a b : Factor ℝ) : Factor ℝ :=
  (Factor.mulScalar half a).add (Factor.mulScalar half b)

theorem gbpSweep_eq (g : RG.Graph) (pot : Region → Factor ℝ) (msgs : Msgs ℝ) :
    gbpSweep g pot msgs =
      g.messageOrder.foldl (fun (m : Msgs ℝ) e => dictSet m e (damp2 (m.get e) ((newDict g pot msgs).get e))) msgs := by
  unfold gbpSweep
  have h1 : (g.messageOrder.foldl (fun (new : Msgs ℝ) (e : Edge) =>
      let (ru, rd) := e
      let num := pot ru
      let num := addSum num (RG.pySum (((g.N.lookup e).getD []).map msgs.get))
      let denom := RG.pySum (((g.D.lookup e).getD []).map (Msgs.get new))
      let m := subSum (num.logsumexp (RG.diff ru rd)) denom
      let m := m.subScalar m.logsumexpAll
      dictSet new e m) []) = newDict g pot msgs := by
    unfold newDict
    apply List.foldl_ext
    intro new e _
    obtain ⟨ru, rd⟩ := e
    rfl
  show g.messageOrder.foldl _ msgs = _
  rw [h1]
  rfl

/-! ### folds of `dictSet` over a duplicate-free key list -/

/-- a fold that rewrites each key of `l` once, from the entry it finds there -/
theorem get_foldl_update (F : Factor ℝ → Edge → Factor ℝ) (l : List Edge) (hl : l.Nodup) (m0 : Msgs ℝ) (e : Edge) :
    (l.foldl (fun (m : Msgs ℝ) k => dictSet m k (F (m.get k) k)) m0).get e
      = if e ∈ l then F (m0.get e) e else m0.get e := by
  induction l generalizing m0 with
  | nil => simp
  | cons a l ih =>
    rw [List.foldl_cons, ih (List.nodup_cons.mp hl).2]
    have ha : a ∉ l := (List.nodup_cons.mp hl).1
    by_cases hea : e = a
    · subst hea
      rw [if_neg ha, get_dictSet, if_pos rfl, if_pos List.mem_cons_self]
    · rw [get_dictSet, if_neg hea]
      by_cases hel : e ∈ l
      · rw [if_pos hel, if_pos (List.mem_cons_of_mem _ hel)]
      · rw [if_neg hel, if_neg (by simp [hea, hel])]

/-- position of a key in a duplicate-free list, as a prefix statement -/
theorem mem_prefix_of_idxOf_lt (xs ys : List Edge) (x k : Edge) (hx : x ∉ xs)
    (h : (xs ++ x :: ys).idxOf k < (xs ++ x :: ys).idxOf x) : k ∈ xs := by
  by_contra hk
  have h1 : (xs ++ x :: ys).idxOf x = xs.length := by
    rw [List.idxOf_append_of_notMem hx]
    simp
  have h2 : xs.length ≤ (xs ++ x :: ys).idxOf k := by
    rw [List.idxOf_append_of_notMem hk]
    omega
  omega

/-- **Gauss–Seidel reads hit written keys only**: a fold `new[e] = val new e` over a duplicate-free key list, where
`val new e` reads `new` only at keys of `D e`, all of which precede `e`.  Then every entry is `val` of the finished
dictionary, and any key-indexed property that `val` propagates from `D e` to `e` holds for every entry. -/
theorem foldl_val (val : Msgs ℝ → Edge → Factor ℝ) (D : Edge → List Edge) (l : List Edge) (hl : l.Nodup)
    (hloc : ∀ e A A', (∀ k ∈ D e, Msgs.get A k = Msgs.get A' k) → val A e = val A' e)
    (hord : ∀ e ∈ l, ∀ k ∈ D e, l.idxOf k < l.idxOf e) :
    ∀ xs ys, l = xs ++ ys → ∀ e ∈ xs,
      (xs.foldl (fun (new : Msgs ℝ) e => dictSet new e (val new e)) []).get e
        = val (xs.foldl (fun (new : Msgs ℝ) e => dictSet new e (val new e)) []) e := by
  intro xs
  induction xs using List.reverseRecOn with
  | nil => intro ys _ e he; simp at he
  | append_singleton xs x ih =>
    intro ys hl' e he
    have hl2 : l = xs ++ x :: ys := by rw [hl']; simp
    have hnd : (xs ++ x :: ys).Nodup := hl2 ▸ hl
    have hx : x ∉ xs := by
      intro hmem
      have := (List.nodup_append.mp hnd).2.2 x hmem x (by simp)
      exact this rfl
    have hD : ∀ e' ∈ xs ++ [x], ∀ k ∈ D e', k ∈ xs ∧ k ≠ x := by
      intro e' he' k hk
      have he'l : e' ∈ l := by rw [hl']; exact List.mem_append_left _ he'
      have hlt := hord e' he'l k hk
      rcases List.mem_append.mp he' with h | h
      · -- e' is in xs: split xs around e'
        obtain ⟨s, t, rfl⟩ := List.append_of_mem h
        have hl3 : l = s ++ e' :: (t ++ x :: ys) := by rw [hl2]; simp
        have hnd3 : (s ++ e' :: (t ++ x :: ys)).Nodup := hl3 ▸ hl
        have he's : e' ∉ s := by
          intro hmem
          exact (List.nodup_append.mp hnd3).2.2 e' hmem e' (by simp) rfl
        rw [hl3] at hlt
        have hks := mem_prefix_of_idxOf_lt s _ e' k he's hlt
        refine ⟨List.mem_append_left _ hks, ?_⟩
        intro hkx
        exact hx (hkx ▸ List.mem_append_left _ hks)
      · have : e' = x := by simpa using h
        subst this
        rw [hl2] at hlt
        have hks := mem_prefix_of_idxOf_lt xs ys e' k hx hlt
        exact ⟨hks, fun hkx => hx (hkx ▸ hks)⟩
    rw [List.foldl_append, List.foldl_cons, List.foldl_nil]
    have hsame : ∀ e' ∈ xs ++ [x],
        val (dictSet (xs.foldl (fun (new : Msgs ℝ) e => dictSet new e (val new e)) []) x
          (val (xs.foldl (fun (new : Msgs ℝ) e => dictSet new e (val new e)) []) x)) e'
        = val (xs.foldl (fun (new : Msgs ℝ) e => dictSet new e (val new e)) []) e' := by
      intro e' he'
      apply hloc
      intro k hk
      rw [get_dictSet, if_neg (hD e' he' k hk).2]
    rw [hsame e he, get_dictSet]
    by_cases hex : e = x
    · rw [if_pos hex, hex]
    · rw [if_neg hex]
      have hexs : e ∈ xs := by
        rcases List.mem_append.mp he with h | h
        · exact h
        · exact absurd (by simpa using h) hex
      exact ih (x :: ys) hl2 e hexs

/-- propagation of a key-indexed property along the order -/
theorem foldl_val_inv (R : Edge → Factor ℝ → Prop) (D : Edge → List Edge) (l : List Edge) (hl : l.Nodup)
    (final : Msgs ℝ) (val : Edge → Factor ℝ)
    (hget : ∀ e ∈ l, Msgs.get final e = val e)
    (hord : ∀ e ∈ l, ∀ k ∈ D e, l.idxOf k < l.idxOf e)
    (hR : ∀ e ∈ l, (∀ k ∈ D e, R k (Msgs.get final k)) → R e (val e)) :
    ∀ e ∈ l, R e (Msgs.get final e) := by
  have key : ∀ xs ys, l = xs ++ ys → ∀ e ∈ xs, R e (Msgs.get final e) := by
    intro xs
    induction xs using List.reverseRecOn with
    | nil => intro ys _ e he; simp at he
    | append_singleton xs x ih =>
      intro ys hl' e he
      have hl2 : l = xs ++ x :: ys := by rw [hl']; simp
      rcases List.mem_append.mp he with h | h
      · exact ih (x :: ys) hl2 e h
      · have hex : e = x := by simpa using h
        subst hex
        have hel : e ∈ l := by rw [hl2]; simp
        have hnd : (xs ++ e :: ys).Nodup := hl2 ▸ hl
        have hx : e ∉ xs := by
          intro hmem
          exact (List.nodup_append.mp hnd).2.2 e hmem e (by simp) rfl
        rw [hget e hel]
        apply hR e hel
        intro k hk
        have hlt := hord e hel k hk
        rw [hl2] at hlt
        exact ih (e :: ys) hl2 k (mem_prefix_of_idxOf_lt xs ys e k hx hlt)
  intro e he
  exact key l [] (by simp) e he

/-! ### the dictionary `new` and fixed points -/

/-- `D[e]` precedes `e` in the message order -/
def DBefore (g : RG.Graph) : Prop :=
  ∀ e ∈ g.messageOrder, ∀ k ∈ look g.D e, g.messageOrder.idxOf k < g.messageOrder.idxOf e

instance (g : RG.Graph) : Decidable (DBefore g) := by unfold DBefore; infer_instance

theorem newDict_get (g : RG.Graph) (pot : Region → Factor ℝ) (msgs : Msgs ℝ) (hnd : g.messageOrder.Nodup)
    (hD : DBefore g) (e : Edge) (he : e ∈ g.messageOrder) :
    (newDict g pot msgs).get e = newMsg g pot msgs (newDict g pot msgs) e := by
  unfold newDict
  apply foldl_val (fun new e => newMsg g pot msgs new e) (fun e => look g.D e) g.messageOrder hnd ?_ hD
    g.messageOrder [] (by simp) e he
  intro e A A' h
  unfold newMsg
  have : (look g.D e).map (Msgs.get A) = (look g.D e).map (Msgs.get A') := List.map_congr_left h
  simp only [this]

/-- **the fixed-point equation, edge by edge** -/
theorem fixed_point_edge (g : RG.Graph) (pot : Region → Factor ℝ) (m : Msgs ℝ) (hnd : g.messageOrder.Nodup)
    (hfix : gbpSweep g pot m = m) (e : Edge) (he : e ∈ g.messageOrder) :
    m.get e = damp2 (m.get e) ((newDict g pot m).get e) := by
  have h : Msgs.get (gbpSweep g pot m) e = Msgs.get m e := by rw [hfix]
  rw [gbpSweep_eq,
    get_foldl_update (fun f k => damp2 f ((newDict g pot m).get k)) g.messageOrder hnd m e, if_pos he] at h
  exact h.symm

/-- conversely the sweep only rewrites the keys of the message order -/
theorem gbpSweep_get (g : RG.Graph) (pot : Region → Factor ℝ) (m : Msgs ℝ) (hnd : g.messageOrder.Nodup) (e : Edge) :
    (gbpSweep g pot m).get e
      = if e ∈ g.messageOrder then damp2 (m.get e) ((newDict g pot m).get e) else m.get e := by
  rw [gbpSweep_eq]
  exact get_foldl_update (fun f k => damp2 f ((newDict g pot m).get k)) g.messageOrder hnd m e

end PGM.GbpFixed
