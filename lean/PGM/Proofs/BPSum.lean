import PGM.Proofs.Semantics
import Mathlib.Algebra.BigOperators.Group.Finset.Basic
import Mathlib.Algebra.BigOperators.Group.Finset.Sigma
import Mathlib.Algebra.BigOperators.Ring.Finset
import Mathlib.Algebra.Order.BigOperators.Group.Finset
import Mathlib.Algebra.Order.BigOperators.GroupWithZero.List
import Mathlib.Tactic.Ring
/-!
# Semantic layer for belief propagation: iterated finite sums over assignments

`nsum d as σ f` is `sumOver d as σ f` written as nested `Finset.range` sums with `Function.update`;
all the algebra of the BP proof (Fubini, permutation of the summed attributes, pulling out factors
that ignore the summed attributes, positivity) is done on `nsum`.
-/
namespace PGM.Sem.BP
open PGM
set_option linter.unusedSectionVars false
set_option linter.unusedSimpArgs false

variable {K : Type} [Field K] [LinearOrder K] [IsStrictOrderedRing K]

/-- iterated finite sum over the attributes `as` (sizes from `d`) -/
def nsum (d : Dom) : List Attr → (Attr → Nat) → ((Attr → Nat) → K) → K
  | [], σ, f => f σ
  | a :: as, σ, f => ∑ x ∈ Finset.range (d.cfg a), nsum d as (Function.update σ a x) f

theorem nsum_nil (d : Dom) (σ : Attr → Nat) (f : (Attr → Nat) → K) : nsum d [] σ f = f σ := rfl

theorem nsum_cons (d : Dom) (a : Attr) (as : List Attr) (σ : Attr → Nat) (f : (Attr → Nat) → K) :
    nsum d (a :: as) σ f = ∑ x ∈ Finset.range (d.cfg a), nsum d as (Function.update σ a x) f := rfl

theorem list_sum_range (n : Nat) (f : Nat → K) :
    ((List.range n).map f).sum = ∑ i ∈ Finset.range n, f i := by
  induction n with
  | zero => simp
  | succ k ih => simp [List.range_succ, Finset.sum_range_succ, ih]

theorem list_sum_flatMap {β : Type} (l : List β) (g : β → List K) :
    (l.flatMap g).sum = (l.map (fun x => (g x).sum)).sum := by
  induction l with
  | nil => simp
  | cons x xs ih => simp [List.flatMap_cons, List.sum_append, ih]

theorem override_nil (σ : Attr → Nat) (v : List Nat) : Dom.override σ [] v = σ := by
  funext b; simp [Dom.override]

theorem override_cons (σ : Attr → Nat) (a : Attr) (as : List Attr) (i : Nat) (v : List Nat)
    (h : a ∉ as) :
    Dom.override σ (a :: as) (i :: v) = Dom.override (Function.update σ a i) as v := by
  funext b
  unfold Dom.override
  by_cases hb : b = a
  · subst hb
    simp [h]
  · have h1 : (a == b) = false := by simpa using (fun e => hb e.symm)
    by_cases hc : as.contains b = true
    · have : (a :: as).contains b = true := by
        simp only [List.contains_iff_mem] at hc ⊢; simp [hc]
      rw [if_pos this, if_pos hc, List.idxOf_cons, h1]
      simp
    · have hc' : as.contains b = false := by simpa using hc
      have : (a :: as).contains b = false := by
        rw [Bool.eq_false_iff]
        intro hh
        rw [List.contains_iff_mem, List.mem_cons] at hh
        rcases hh with hh | hh
        · exact hb hh
        · rw [← List.contains_iff_mem] at hh; rw [hh] at hc'; exact absurd hc' (by simp)
      rw [this, hc']
      simp [Function.update, hb]

theorem sumOver_eq_nsum (d : Dom) (as : List Attr) (h : as.Nodup) (σ : Attr → Nat)
    (f : (Attr → Nat) → K) : sumOver d as σ f = nsum d as σ f := by
  induction as generalizing σ with
  | nil => simp [sumOver, cells, nsum, override_nil]
  | cons a as ih =>
    rw [List.nodup_cons] at h
    rw [nsum_cons, ← list_sum_range]
    unfold sumOver
    simp only [List.map_cons, cells, List.map_flatMap, List.map_map]
    rw [list_sum_flatMap]
    congr 1
    apply List.map_congr_left
    intro i _
    rw [← ih h.2]
    unfold sumOver
    congr 1
    apply List.map_congr_left
    intro v _
    simp only [Function.comp]
    rw [override_cons σ a as i v h.1]

/-! ### structure of `nsum` -/

theorem nsum_append (d : Dom) (as bs : List Attr) (σ : Attr → Nat) (f : (Attr → Nat) → K) :
    nsum d (as ++ bs) σ f = nsum d as σ (fun τ => nsum d bs τ f) := by
  induction as generalizing σ with
  | nil => rfl
  | cons a as ih =>
    simp only [List.cons_append, nsum_cons]
    exact Finset.sum_congr rfl (fun x _ => ih _)

theorem nsum_congr_fun (d : Dom) (as : List Attr) (σ : Attr → Nat) (f g : (Attr → Nat) → K)
    (h : ∀ τ, (∀ a, a ∉ as → τ a = σ a) → (∀ a ∈ as, τ a < d.cfg a) → f τ = g τ) :
    nsum d as σ f = nsum d as σ g := by
  induction as generalizing σ with
  | nil => exact h σ (fun _ _ => rfl) (by simp)
  | cons a as ih =>
    simp only [nsum_cons]
    apply Finset.sum_congr rfl
    intro x hx
    have hx' : x < d.cfg a := Finset.mem_range.mp hx
    apply ih
    intro τ h1 h2
    by_cases ha : a ∈ as
    · apply h τ
      · intro b hb
        have hb' : b ∉ as := fun hh => hb (List.mem_cons_of_mem _ hh)
        rw [h1 b hb']
        have : b ≠ a := fun e => hb (by simp [e])
        simp [Function.update, this]
      · intro b hb
        rcases List.mem_cons.mp hb with rfl | hb
        · exact h2 _ ha
        · exact h2 _ hb
    · apply h τ
      · intro b hb
        have hb' : b ∉ as := fun hh => hb (List.mem_cons_of_mem _ hh)
        rw [h1 b hb']
        have : b ≠ a := fun e => hb (by simp [e])
        simp [Function.update, this]
      · intro b hb
        rcases List.mem_cons.mp hb with rfl | hb
        · rw [h1 _ ha]; simpa using hx'
        · exact h2 _ hb

theorem update_comm' (σ : Attr → Nat) (a b : Attr) (x y : Nat) (h : a ≠ b) :
    Function.update (Function.update σ a x) b y = Function.update (Function.update σ b y) a x :=
  (Function.update_comm h x y σ).symm ▸ rfl

theorem nsum_perm (d : Dom) (as bs : List Attr) (hp : as.Perm bs) (σ : Attr → Nat)
    (f : (Attr → Nat) → K) : nsum d as σ f = nsum d bs σ f := by
  induction hp generalizing σ with
  | nil => rfl
  | cons a _ ih =>
    simp only [nsum_cons]
    exact Finset.sum_congr rfl (fun x _ => ih _)
  | swap a b l =>
    simp only [nsum_cons]
    by_cases hab : a = b
    · subst hab; rfl
    · rw [Finset.sum_comm]
      apply Finset.sum_congr rfl
      intro x _
      apply Finset.sum_congr rfl
      intro y _
      rw [Function.update_comm hab]
  | trans _ _ ih1 ih2 => rw [ih1, ih2]

/-! ### dependence on coordinates -/

/-- `f` only looks at the coordinates satisfying `P` -/
def DepOn (f : (Attr → Nat) → K) (P : Attr → Prop) : Prop :=
  ∀ σ σ' : Attr → Nat, (∀ a, P a → σ a = σ' a) → f σ = f σ'

/-- `f` ignores the coordinates in `bs` -/
def Indep (f : (Attr → Nat) → K) (bs : List Attr) : Prop :=
  ∀ σ σ' : Attr → Nat, (∀ a, a ∉ bs → σ a = σ' a) → f σ = f σ'

theorem DepOn.indep {f : (Attr → Nat) → K} {P : Attr → Prop} (h : DepOn f P) (bs : List Attr)
    (hd : ∀ a ∈ bs, ¬ P a) : Indep f bs :=
  fun σ σ' hs => h σ σ' (fun a ha => hs a (fun hb => hd a hb ha))

theorem DepOn.mono {f : (Attr → Nat) → K} {P Q : Attr → Prop} (h : DepOn f P)
    (hpq : ∀ a, P a → Q a) : DepOn f Q :=
  fun σ σ' hs => h σ σ' (fun a ha => hs a (hpq a ha))

theorem Indep.mul {f g : (Attr → Nat) → K} {bs : List Attr} (hf : Indep f bs) (hg : Indep g bs) :
    Indep (fun τ => f τ * g τ) bs :=
  fun σ σ' hs => by show f σ * g σ = f σ' * g σ'; rw [hf σ σ' hs, hg σ σ' hs]

theorem DepOn.mul {f g : (Attr → Nat) → K} {P : Attr → Prop} (hf : DepOn f P) (hg : DepOn g P) :
    DepOn (fun τ => f τ * g τ) P :=
  fun σ σ' hs => by show f σ * g σ = f σ' * g σ'; rw [hf σ σ' hs, hg σ σ' hs]

theorem DepOn.list_prod {β : Type} (l : List β) (g : β → (Attr → Nat) → K) (P : Attr → Prop)
    (h : ∀ x ∈ l, DepOn (g x) P) : DepOn (fun τ => (l.map (fun x => g x τ)).prod) P := by
  intro σ σ' hs
  show (l.map (fun x => g x σ)).prod = (l.map (fun x => g x σ')).prod
  congr 1
  apply List.map_congr_left
  intro x hx
  exact h x hx σ σ' hs

theorem Indep.list_prod {β : Type} (l : List β) (g : β → (Attr → Nat) → K) (bs : List Attr)
    (h : ∀ x ∈ l, Indep (g x) bs) : Indep (fun τ => (l.map (fun x => g x τ)).prod) bs := by
  intro σ σ' hs
  show (l.map (fun x => g x σ)).prod = (l.map (fun x => g x σ')).prod
  congr 1
  apply List.map_congr_left
  intro x hx
  exact h x hx σ σ' hs

/-- agreement of two assignments propagates through `nsum` -/
theorem nsum_congr_sigma (d : Dom) (as : List Attr) (σ σ' : Attr → Nat) (f : (Attr → Nat) → K)
    (P : Attr → Prop) (hf : DepOn f P) (hs : ∀ a, P a → a ∉ as → σ a = σ' a) :
    nsum d as σ f = nsum d as σ' f := by
  induction as generalizing σ σ' with
  | nil => exact hf σ σ' (fun a ha => hs a ha (by simp))
  | cons a as ih =>
    simp only [nsum_cons]
    apply Finset.sum_congr rfl
    intro x _
    apply ih
    intro b hb hbn
    by_cases hba : b = a
    · subst hba; simp
    · simp only [Function.update, hba, dite_false]
      exact hs b hb (by simp [hba, hbn])

theorem nsum_depOn (d : Dom) (as : List Attr) (f : (Attr → Nat) → K) (P : Attr → Prop)
    (hf : DepOn f P) : DepOn (fun τ => nsum d as τ f) (fun a => P a ∧ a ∉ as) :=
  fun σ σ' hs => nsum_congr_sigma d as σ σ' f P hf (fun a h1 h2 => hs a ⟨h1, h2⟩)

theorem nsum_indep (d : Dom) (as : List Attr) (f : (Attr → Nat) → K) (bs : List Attr)
    (hf : Indep f bs) : Indep (fun τ => nsum d as τ f) bs := by
  intro σ σ' hs
  exact nsum_congr_sigma d as σ σ' f (fun a => a ∉ bs) hf (fun a h1 _ => hs a h1)

theorem nsum_const_mul (d : Dom) (as : List Attr) (σ : Attr → Nat) (c : K) (g : (Attr → Nat) → K) :
    nsum d as σ (fun τ => c * g τ) = c * nsum d as σ g := by
  induction as generalizing σ with
  | nil => rfl
  | cons a as ih =>
    simp only [nsum_cons]
    rw [Finset.mul_sum]
    exact Finset.sum_congr rfl (fun x _ => ih _)

/-- a factor ignoring the summed attributes comes out of the sum -/
theorem nsum_mul_left (d : Dom) (as : List Attr) (σ : Attr → Nat) (f g : (Attr → Nat) → K)
    (hf : Indep f as) : nsum d as σ (fun τ => f τ * g τ) = f σ * nsum d as σ g := by
  rw [← nsum_const_mul]
  apply nsum_congr_fun
  intro τ h1 _
  rw [hf τ σ h1]

theorem nsum_mul_right (d : Dom) (as : List Attr) (σ : Attr → Nat) (f g : (Attr → Nat) → K)
    (hg : Indep g as) : nsum d as σ (fun τ => f τ * g τ) = nsum d as σ f * g σ := by
  rw [mul_comm, ← nsum_mul_left d as σ g f hg]
  apply nsum_congr_fun
  intro τ _ _
  exact mul_comm _ _

theorem nsum_nonneg (d : Dom) (as : List Attr) (σ : Attr → Nat) (f : (Attr → Nat) → K)
    (hf : ∀ τ, 0 ≤ f τ) : 0 ≤ nsum d as σ f := by
  induction as generalizing σ with
  | nil => exact hf σ
  | cons a as ih =>
    rw [nsum_cons]
    exact Finset.sum_nonneg (fun x _ => ih _)

/-- no cancellation: a vanishing sum of nonnegative terms has only vanishing terms -/
theorem nsum_eq_zero (d : Dom) (as : List Attr) (σ : Attr → Nat) (f : (Attr → Nat) → K)
    (hf : ∀ τ, 0 ≤ f τ) (h0 : nsum d as σ f = 0) (hσ : ∀ a ∈ as, σ a < d.cfg a) : f σ = 0 := by
  induction as generalizing σ with
  | nil => exact h0
  | cons a as ih =>
    rw [nsum_cons] at h0
    have h1 := (Finset.sum_eq_zero_iff_of_nonneg (fun x _ => nsum_nonneg d as _ f hf)).mp h0
      (σ a) (Finset.mem_range.mpr (hσ a (by simp)))
    rw [Function.update_eq_self] at h1
    exact ih σ h1 (fun b hb => hσ b (by simp [hb]))

/-! ### the factorisation lemma: a product of functions living on pairwise separated attribute
sets is summed factor by factor -/

theorem nsum_prod_factor {β : Type} (d : Dom) (Ks : List β) (B : β → List Attr)
    (g : β → (Attr → Nat) → K) (h : (Attr → Nat) → K) (σ : Attr → Nat)
    (hnd : Ks.Nodup)
    (hh : ∀ k ∈ Ks, Indep h (B k))
    (hg : ∀ k ∈ Ks, ∀ k' ∈ Ks, k ≠ k' → Indep (g k) (B k')) :
    nsum d (Ks.flatMap B) σ (fun τ => h τ * (Ks.map (fun k => g k τ)).prod)
      = h σ * (Ks.map (fun k => nsum d (B k) σ (g k))).prod := by
  induction Ks generalizing h σ with
  | nil => simp [nsum]
  | cons k Ks ih =>
    rw [List.nodup_cons] at hnd
    simp only [List.flatMap_cons, List.map_cons, List.prod_cons]
    rw [nsum_append]
    have hne : ∀ k' ∈ Ks, k ≠ k' := fun k' hk' e => hnd.1 (e ▸ hk')
    have step : ∀ τ, nsum d (Ks.flatMap B) τ (fun τ' => h τ' * (g k τ' * (Ks.map (fun k => g k τ')).prod))
        = (h τ * g k τ) * (Ks.map (fun k' => nsum d (B k') τ (g k'))).prod := by
      intro τ
      have := ih (fun τ' => h τ' * g k τ') τ hnd.2
        (fun k' hk' => (hh k' (by simp [hk'])).mul (hg k (by simp) k' (by simp [hk']) (hne k' hk')))
        (fun k1 h1 k2 h2 hne' => hg k1 (by simp [h1]) k2 (by simp [h2]) hne')
      rw [← this]
      apply nsum_congr_fun
      intro τ' _ _
      ring
    rw [show (fun τ => nsum d (Ks.flatMap B) τ (fun τ' => h τ' * (g k τ' * (Ks.map (fun k => g k τ')).prod)))
        = (fun τ => (h τ * g k τ) * (Ks.map (fun k' => nsum d (B k') τ (g k'))).prod) from funext step]
    have hrest : Indep (fun τ => (Ks.map (fun k' => nsum d (B k') τ (g k'))).prod) (B k) :=
      Indep.list_prod Ks (fun k' τ => nsum d (B k') τ (g k')) (B k)
        (fun k' hk' => nsum_indep d (B k') (g k') (B k)
          (hg k' (by simp [hk']) k (by simp) (fun e => hne k' hk' e.symm)))
    rw [nsum_mul_right d (B k) σ _ _ hrest]
    rw [nsum_mul_left d (B k) σ h (g k) (hh k (by simp))]
    ring

end PGM.Sem.BP
