import PGM.Proofs.VECore
/-!
# The two scalar readings, and the specification of `veLogspace`

* `PlainOf K` with `Scalar.mul` / `Scalar.sum`, `LogOf K` with `Scalar.add` / `Scalar.lse`:
  in both cases `(·.v)` turns the binary operation into `*` and the reduction into a list sum.
* `veLogspace_spec`: the result of `veLogspace` is a well-formed factor over the non-eliminated
  attributes whose cells are `total · (Σ_elim Π fs) / Z`.
-/
namespace PGM.Sem
open PGM PGM.GM
set_option linter.unusedSectionVars false
set_option linter.unusedVariables false
variable {K : Type} [Field K] [LinearOrder K] [IsStrictOrderedRing K]

/-! ### the two scalar readings -/

theorem plain_mul_v (x y : PlainOf K) : (Scalar.mul x y).v = x.v * y.v := rfl
theorem plain_add_v (x y : PlainOf K) : (Scalar.add x y).v = x.v + y.v := rfl
theorem log_add_v (x y : LogOf K) : (Scalar.add x y).v = x.v * y.v := rfl
theorem log_sub_v (x y : LogOf K) : (Scalar.sub x y).v = x.v * y.v⁻¹ := rfl
theorem log_exp (x : LogOf K) : Scalar.exp x = x := rfl
theorem log_log (x : LogOf K) : Scalar.log x = x := rfl
theorem log_zero_v : (Scalar.zero : LogOf K).v = 1 := rfl

theorem plain_foldl_add_v (l : List (PlainOf K)) (acc : PlainOf K) :
    (l.foldl Scalar.add acc).v = acc.v + (l.map (fun x => x.v)).sum := by
  induction l generalizing acc with
  | nil => simp
  | cons x xs ih =>
    rw [List.foldl_cons, ih]
    show acc.v + x.v + _ = _
    simp [add_assoc]

theorem plain_sum_v (l : List (PlainOf K)) : (Scalar.sum l).v = (l.map (fun x => x.v)).sum := by
  unfold Scalar.sum
  rw [plain_foldl_add_v]
  show (0 : K) + _ = _
  rw [zero_add]

theorem foldl_add_eq_sum (l : List K) (a : K) : l.foldl (· + ·) a = a + l.sum := by
  induction l generalizing a with
  | nil => simp
  | cons x xs ih => rw [List.foldl_cons, ih, List.sum_cons, add_assoc]

theorem log_lse_v (l : List (LogOf K)) : (Scalar.lse l).v = (l.map (fun x => x.v)).sum := by
  show (l.map (·.v)).foldl (· + ·) 0 = _
  rw [foldl_add_eq_sum, zero_add]

/-- log-space `Scalar.sum` of a one-element list (what `projectSum` does when nothing is left to sum) -/
theorem log_sum_singleton_v (x : LogOf K) : (Scalar.sum [x]).v = x.v := by
  show (1 : K) * x.v = x.v
  rw [one_mul]

/-! ### `veLogspace` -/

theorem veLogspace_spec (d : Dom) (fs : List (Factor (LogOf K))) (elim : List Attr)
    (total : LogOf K) (hd : d.WF) (hfs : ∀ f ∈ fs, FactorOK d f) (hpre : preVE fs elim = true)
    (hnd : elim.Nodup) (hsub : ∀ a ∈ elim, a ∈ d.attrs)
    (hcover : ∀ a ∈ d.attrs, ∃ f ∈ fs, a ∈ f.dom.attrs) :
    FactorOK d (veLogspace fs elim total) ∧
    (∀ a, a ∈ (veLogspace fs elim total).dom.attrs ↔ (a ∉ elim ∧ a ∈ d.attrs)) ∧
    (∀ σ, d.Valid σ → ((veLogspace fs elim total).sem σ).v
      = total.v * sumOver d elim σ (fun τ => (fs.map (fun f => (f.sem τ).v)).prod)
        / sumOver d d.attrs (fun _ => 0) (fun τ => (fs.map (fun f => (f.sem τ).v)).prod)) := by
  obtain ⟨hocc, hne⟩ := (preVE_iff fs elim).mp hpre
  obtain ⟨p, ps, hfold, hok, hattrs, hsem⟩ :=
    veLoop_final Scalar.add Scalar.lse (fun x : LogOf K => x.v) log_add_v log_lse_v
      d hd elim fs hfs hne hocc hnd hsub
  simp only [veLogspace_eq, hfold]
  generalize ps.foldl (Factor.binop Scalar.add) p = ans at hok hattrs hsem
  have hattrs' : ∀ a, a ∈ ans.dom.attrs ↔ (a ∉ elim ∧ a ∈ d.attrs) := by
    intro a
    rw [hattrs a]
    constructor
    · rintro ⟨h1, f, hf, ha⟩
      exact ⟨h1, (hfs f hf).2.2 a ha⟩
    · rintro ⟨h1, h2⟩
      exact ⟨h1, hcover a h2⟩
  have h1 : FactorOK d (ans.subScalar ans.logsumexpAll) :=
    FactorOK.mapVals (fun v => Scalar.sub v ans.logsumexpAll) hok
  have h2 : FactorOK d ((ans.subScalar ans.logsumexpAll).addScalar (Scalar.log total)) :=
    FactorOK.mapVals (fun v => Scalar.add (Scalar.log total) v) h1
  have h3 : FactorOK d ((ans.subScalar ans.logsumexpAll).addScalar (Scalar.log total)).exp :=
    FactorOK.mapVals Scalar.exp h2
  refine ⟨h3, hattrs', ?_⟩
  intro σ hσ
  have e3 : (((ans.subScalar ans.logsumexpAll).addScalar (Scalar.log total)).exp).sem σ
      = Scalar.exp (((ans.subScalar ans.logsumexpAll).addScalar (Scalar.log total)).sem σ) :=
    sem_mapVals Scalar.exp _ σ h2.1 (h2.valid hd hσ)
  have e2 : ((ans.subScalar ans.logsumexpAll).addScalar (Scalar.log total)).sem σ
      = Scalar.add (Scalar.log total) ((ans.subScalar ans.logsumexpAll).sem σ) :=
    sem_mapVals (fun v => Scalar.add (Scalar.log total) v) _ σ h1.1 (h1.valid hd hσ)
  have e1 : (ans.subScalar ans.logsumexpAll).sem σ = Scalar.sub (ans.sem σ) ans.logsumexpAll :=
    sem_mapVals (fun v => Scalar.sub v ans.logsumexpAll) _ σ hok.1 (hok.valid hd hσ)
  rw [e3, e2, e1, log_exp, log_add_v, log_log, log_sub_v, hsem σ hσ]
  -- the normaliser
  have hnodup : (ans.dom.attrs ++ elim).Nodup := by
    rw [List.nodup_append]
    exact ⟨hok.1.1, hnd, fun a ha b hb hab => ((hattrs' a).mp ha).1 (hab ▸ hb)⟩
  have hperm : (ans.dom.attrs ++ elim).Perm d.attrs := by
    rw [List.perm_ext_iff_of_nodup hnodup hd]
    intro a
    rw [List.mem_append, hattrs' a]
    constructor
    · rintro (h | h)
      · exact h.2
      · exact hsub a h
    · intro h
      by_cases he : a ∈ elim
      · exact Or.inr he
      · exact Or.inl ⟨he, h⟩
  have hZ : ans.logsumexpAll.v
      = sumOver d d.attrs (fun _ => 0) (fun τ => (fs.map (fun f => (f.sem τ).v)).prod) := by
    unfold Factor.logsumexpAll
    rw [val_reduceAll Scalar.lse (fun x : LogOf K => x.v) log_lse_v hok σ,
      sumOver_congr_valid d hd ans.dom.attrs σ _ _ hσ (fun τ hτ => hsem τ hτ),
      ← sumOver_append d ans.dom.attrs elim σ _ hok.1.1 (fun a ha => ((hattrs' a).mp ha).1),
      sumOver_perm d _ _ σ _ hperm hnodup]
    exact sumOver_base_congr_of_dependsOn d d.attrs d.attrs σ _ _
      (dependsOn_prod (fun x : LogOf K => x.v) fs d.attrs (fun f hf => (hfs f hf).2.2))
      (fun a ha hna => absurd ha hna)
  rw [hZ, div_eq_mul_inv, mul_assoc]

end PGM.Sem
