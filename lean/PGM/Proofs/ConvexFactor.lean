import PGM.Model.RegionGraph
import PGM.Proofs.RealScalar
import PGM.Proofs.VEFactor
import PGM.Proofs.ConvexGibbs
/-!
# Real-number readings of the factor operations used by the convex oracle

`On dom r f`   — `f` is a well-formed table laid out on `dom.project r`;
`Sub dom r f`  — `f` is a well-formed table over (a subset of) the attributes `r`, sizes from `dom`.
Python's `sum(generator)` (`pySum`), `x + sum(…)`, `x - sum(…)` are read cell-wise (`sem`), and
`sumAll`, `logsumexpAll`, `entropy`, `datavector` are read as `sumOver` of the cell-wise values.
-/
namespace PGM.Convex
open PGM PGM.JT PGM.RG PGM.Sem
set_option linter.unusedSectionVars false
set_option linter.unusedVariables false

/-! ### the real scalar -/

theorem foldl_add (l : List ℝ) (z : ℝ) : l.foldl Scalar.add z = z + l.sum := by
  induction l generalizing z with
  | nil => simp
  | cons a l ih =>
    rw [List.foldl_cons, ih, List.sum_cons]
    show z + a + l.sum = z + (a + l.sum)
    ring

theorem rsum_eq (l : List ℝ) : Scalar.sum l = l.sum := by
  unfold Scalar.sum
  rw [foldl_add]
  show (0 : ℝ) + l.sum = l.sum
  ring

theorem negInfAware_eq (x : ℝ) : Factor.negInfAware x = -x := by
  unfold Factor.negInfAware
  show (if false = true then (0 : ℝ) else -x) = -x
  simp

theorem entropy_fun (T : ℝ) :
    (fun v : ℝ => if Scalar.gt0 v then Scalar.mul v (Scalar.log (Scalar.div v T)) else Scalar.zero)
      = hent T := by
  funext v
  unfold hent
  show (if decide (0 < v) = true then v * Real.log (v / T) else (0 : ℝ)) = _
  simp

/-! ### layouts -/

/-- a region usable with `dom` -/
def RegOK (dom : Dom) (r : Region) : Prop := r.Nodup ∧ ∀ a ∈ r, a ∈ dom.attrs

/-- `f` is a well-formed table laid out exactly on `dom.project r` -/
def On (dom : Dom) (r : Region) (f : Factor ℝ) : Prop := f.WF ∧ f.dom = dom.project r

/-- `f` is a well-formed table over attributes inside `r`, with `dom`'s sizes -/
def Sub (dom : Dom) (r : Region) (f : Factor ℝ) : Prop := FactorOK dom f ∧ ∀ a ∈ f.dom.attrs, a ∈ r

theorem On.attrs {dom : Dom} {r : Region} {f : Factor ℝ} (h : On dom r f) : f.dom.attrs = r := by
  rw [h.2, Dom.attrs_project]

theorem On.factorOK {dom : Dom} {r : Region} {f : Factor ℝ} (hr : RegOK dom r) (h : On dom r f) :
    FactorOK dom f := by
  refine ⟨h.1, ?_, ?_⟩
  · rw [h.2]
    intro p hp
    simp only [Dom.project, List.mem_map] at hp
    obtain ⟨a, _, rfl⟩ := hp
    rfl
  · rw [h.attrs]; exact hr.2

theorem On.sub {dom : Dom} {r : Region} {f : Factor ℝ} (hr : RegOK dom r) (h : On dom r f) :
    Sub dom r f :=
  ⟨h.factorOK hr, by rw [h.attrs]; exact fun a ha => ha⟩

theorem Sub.mono {dom : Dom} {r s : Region} {f : Factor ℝ} (h : Sub dom r f) (hrs : ∀ a ∈ r, a ∈ s) :
    Sub dom s f :=
  ⟨h.1, fun a ha => hrs a (h.2 a ha)⟩

theorem zeros_nil_sub (dom : Dom) (r : Region) : Sub dom r (Factor.zeros ([] : Dom)) := by
  refine ⟨⟨?_, ?_, ?_⟩, ?_⟩
  · refine ⟨?_, rfl, ?_⟩
    · show (Dom.attrs ([] : Dom)).Nodup
      simp [Dom.attrs]
    · show (Array.replicate (size (Dom.shape ([] : Dom))) (Scalar.zero : ℝ)).size
        = size (Dom.shape ([] : Dom))
      simp
  · intro p hp; simp [Factor.zeros, Factor.mk'] at hp
  · intro a ha; simp [Factor.zeros, Factor.mk', Dom.attrs] at ha
  · intro a ha; simp [Factor.zeros, Factor.mk', Dom.attrs] at ha

/-! ### cell-wise maps and binary operations on layouts -/

theorem mapVals_on {dom : Dom} {r : Region} {f : Factor ℝ} (g : ℝ → ℝ) (h : On dom r f) :
    On dom r (Factor.mk' f.dom (f.vals.map g)) :=
  ⟨mapVals_WF g f h.1, h.2⟩

theorem mapVals_sub {dom : Dom} {r : Region} {f : Factor ℝ} (g : ℝ → ℝ) (h : Sub dom r f) :
    Sub dom r (Factor.mk' f.dom (f.vals.map g)) :=
  ⟨FactorOK.mapVals g h.1, h.2⟩

theorem sem_mapVals_ok {dom : Dom} {f : Factor ℝ} (g : ℝ → ℝ) (hd : dom.WF) (h : FactorOK dom f)
    {σ : Attr → Nat} (hσ : dom.Valid σ) :
    (Factor.mk' f.dom (f.vals.map g)).sem σ = g (f.sem σ) :=
  sem_mapVals g f σ h.1 (h.valid hd hσ)

theorem binop_sub {dom : Dom} {r : Region} {f g : Factor ℝ} (op : ℝ → ℝ → ℝ)
    (hf : Sub dom r f) (hg : Sub dom r g) : Sub dom r (Factor.binop op f g) := by
  refine ⟨FactorOK.binop op hf.1 hg.1, ?_⟩
  intro a ha
  rcases (binop_mem_attrs op f g a).mp ha with h | h
  · exact hf.2 a h
  · exact hg.2 a h

theorem binop_on {dom : Dom} {r : Region} {f g : Factor ℝ} (op : ℝ → ℝ → ℝ) (hr : RegOK dom r)
    (hf : On dom r f) (hg : Sub dom r g) : On dom r (Factor.binop op f g) := by
  refine ⟨(FactorOK.binop op (hf.factorOK hr) hg.1).1, ?_⟩
  rw [Factor.binop_dom, Dom.merge_eq_self_of_contains, hf.2]
  rw [Dom.contains_iff, hf.attrs]
  exact hg.2

/-! ### `sum(generator)`, `x + sum(…)`, `x - sum(…)` -/

/-- the loop body of Python's `sum` -/
noncomputable def pyStep (acc : PySum ℝ) (f : Factor ℝ) : PySum ℝ :=
  match acc with
  | .zero => .fac (f.addScalar Scalar.zero)
  | .fac g => .fac (g.add f)

theorem pySum_eq_foldl (l : List (Factor ℝ)) : pySum l = l.foldl pyStep .zero := by
  unfold pySum
  congr 1
  funext acc f
  cases acc <;> rfl

/-- cell-wise value of a partial sum -/
noncomputable def psVal : PySum ℝ → (Attr → Nat) → ℝ
  | .zero, _ => 0
  | .fac g, σ => g.sem σ

def psSub (dom : Dom) (r : Region) : PySum ℝ → Prop
  | .zero => True
  | .fac g => Sub dom r g

theorem pyStep_ok {dom : Dom} {r : Region} (hd : dom.WF) (acc : PySum ℝ) (f : Factor ℝ)
    (hacc : psSub dom r acc) (hf : Sub dom r f) :
    psSub dom r (pyStep acc f) ∧
      ∀ σ, dom.Valid σ → psVal (pyStep acc f) σ = psVal acc σ + f.sem σ := by
  cases acc with
  | zero =>
    refine ⟨mapVals_sub _ hf, ?_⟩
    intro σ hσ
    show (Factor.mk' f.dom (f.vals.map (fun v => Scalar.add Scalar.zero v))).sem σ = 0 + f.sem σ
    rw [sem_mapVals_ok _ hd hf.1 hσ]
    rfl
  | fac g =>
    refine ⟨binop_sub _ hacc hf, ?_⟩
    intro σ hσ
    show (Factor.binop Scalar.add g f).sem σ = g.sem σ + f.sem σ
    rw [sem_binop_ok Scalar.add hd hacc.1 hf.1 hσ]
    rfl

theorem foldl_pyStep_ok {dom : Dom} {r : Region} (hd : dom.WF) (l : List (Factor ℝ)) (acc : PySum ℝ)
    (hacc : psSub dom r acc) (hl : ∀ f ∈ l, Sub dom r f) :
    psSub dom r (l.foldl pyStep acc) ∧
      ∀ σ, dom.Valid σ → psVal (l.foldl pyStep acc) σ = psVal acc σ + (l.map (fun f => f.sem σ)).sum := by
  induction l generalizing acc with
  | nil => exact ⟨hacc, fun σ _ => by simp⟩
  | cons f l ih =>
    obtain ⟨h1, h2⟩ := pyStep_ok hd acc f hacc (hl f List.mem_cons_self)
    obtain ⟨h3, h4⟩ := ih (pyStep acc f) h1 (fun x hx => hl x (List.mem_cons_of_mem _ hx))
    refine ⟨h3, ?_⟩
    intro σ hσ
    rw [List.foldl_cons, h4 σ hσ, h2 σ hσ, List.map_cons, List.sum_cons]
    ring

theorem pySum_ok {dom : Dom} {r : Region} (hd : dom.WF) (l : List (Factor ℝ))
    (hl : ∀ f ∈ l, Sub dom r f) :
    psSub dom r (pySum l) ∧
      ∀ σ, dom.Valid σ → psVal (pySum l) σ = (l.map (fun f => f.sem σ)).sum := by
  obtain ⟨h1, h2⟩ := foldl_pyStep_ok hd l .zero trivial hl
  rw [pySum_eq_foldl]
  refine ⟨h1, ?_⟩
  intro σ hσ
  rw [h2 σ hσ]
  show (0 : ℝ) + _ = _
  ring

theorem addSum_ok {dom : Dom} {r : Region} (hd : dom.WF) (hr : RegOK dom r) (x : Factor ℝ) (s : PySum ℝ)
    (hx : On dom r x) (hs : psSub dom r s) :
    On dom r (addSum x s) ∧ ∀ σ, dom.Valid σ → (addSum x s).sem σ = x.sem σ + psVal s σ := by
  cases s with
  | zero =>
    refine ⟨mapVals_on _ hx, ?_⟩
    intro σ hσ
    show (Factor.mk' x.dom (x.vals.map (fun v => Scalar.add Scalar.zero v))).sem σ = x.sem σ + 0
    rw [sem_mapVals_ok _ hd (hx.factorOK hr) hσ]
    show (0 : ℝ) + x.sem σ = x.sem σ + 0
    ring
  | fac g =>
    refine ⟨binop_on _ hr hx hs, ?_⟩
    intro σ hσ
    show (Factor.binop Scalar.add x g).sem σ = x.sem σ + g.sem σ
    rw [sem_binop_ok Scalar.add hd (hx.factorOK hr) hs.1 hσ]
    rfl

theorem subSum_ok {dom : Dom} {r : Region} (hd : dom.WF) (hr : RegOK dom r) (x : Factor ℝ) (s : PySum ℝ)
    (hx : On dom r x) (hs : psSub dom r s) :
    On dom r (subSum x s) ∧ ∀ σ, dom.Valid σ → (subSum x s).sem σ = x.sem σ - psVal s σ := by
  cases s with
  | zero =>
    refine ⟨mapVals_on _ hx, ?_⟩
    intro σ hσ
    show (Factor.mk' x.dom (x.vals.map (fun v => Scalar.sub v Scalar.zero))).sem σ = x.sem σ - 0
    rw [sem_mapVals_ok _ hd (hx.factorOK hr) hσ]
    show x.sem σ + -(0 : ℝ) = x.sem σ - 0
    ring
  | fac g =>
    have hg' : Sub dom r (Factor.mk' g.dom (g.vals.map Factor.negInfAware)) := mapVals_sub _ hs
    refine ⟨binop_on _ hr hx hg', ?_⟩
    intro σ hσ
    show (Factor.binop Scalar.add x (Factor.mk' g.dom (g.vals.map Factor.negInfAware))).sem σ
      = x.sem σ - g.sem σ
    rw [sem_binop_ok Scalar.add hd (hx.factorOK hr) hg'.1 hσ, sem_mapVals_ok _ hd hs.1 hσ,
      negInfAware_eq]
    show x.sem σ + -g.sem σ = x.sem σ - g.sem σ
    ring

/-- `x + sum(l1) - sum(l2)` cell-wise -/
theorem theta_ok {dom : Dom} {r : Region} (hd : dom.WF) (hr : RegOK dom r) (x : Factor ℝ)
    (l1 l2 : List (Factor ℝ)) (hx : On dom r x)
    (h1 : ∀ f ∈ l1, Sub dom r f) (h2 : ∀ f ∈ l2, Sub dom r f) :
    On dom r (subSum (addSum x (pySum l1)) (pySum l2)) ∧
      ∀ σ, dom.Valid σ → (subSum (addSum x (pySum l1)) (pySum l2)).sem σ
        = x.sem σ + (l1.map (fun f => f.sem σ)).sum - (l2.map (fun f => f.sem σ)).sum := by
  obtain ⟨a1, a2⟩ := pySum_ok hd l1 h1
  obtain ⟨b1, b2⟩ := pySum_ok hd l2 h2
  obtain ⟨c1, c2⟩ := addSum_ok hd hr x (pySum l1) hx a1
  obtain ⟨d1, d2⟩ := subSum_ok hd hr (addSum x (pySum l1)) (pySum l2) c1 b1
  refine ⟨d1, ?_⟩
  intro σ hσ
  rw [d2 σ hσ, c2 σ hσ, a2 σ hσ, b2 σ hσ]

/-! ### tables as functions of assignments -/

/-- the all-zero assignment is valid when every attribute has a positive size -/
theorem valid_zero (dom : Dom) (hsz : ∀ p ∈ dom, 0 < p.2) : dom.Valid (fun _ => 0) :=
  fun p hp => hsz p hp

/-- `Σ` over the cells of region `r` -/
noncomputable def S (dom : Dom) (r : Region) (F : (Attr → Nat) → ℝ) : ℝ :=
  sumOver dom r (fun _ => 0) F

/-- the cells of region `r` as assignments -/
def asg (r : Region) (v : List Nat) : Attr → Nat := Dom.override (fun _ => 0) r v

theorem S_eq (dom : Dom) (r : Region) (F : (Attr → Nat) → ℝ) :
    S dom r F = ((cells (r.map dom.cfg)).map (fun v => F (asg r v))).sum := rfl

theorem valid_asg (dom : Dom) (hd : dom.WF) (hsz : ∀ p ∈ dom, 0 < p.2) (r : Region) (v : List Nat)
    (hv : v ∈ cells (r.map dom.cfg)) : dom.Valid (asg r v) :=
  valid_override dom hd _ r v (valid_zero dom hsz) hv

theorem datavector_eq {dom : Dom} {r : Region} {f : Factor ℝ} (hr : RegOK dom r) (hf : On dom r f) :
    f.datavector = (cells (r.map dom.cfg)).map (fun v => f.sem (asg r v)) := by
  unfold Factor.datavector
  rw [data_toList_eq _ hf.1.2.2, hf.1.2.1, hf.2, Dom.shape_project]
  apply List.map_congr_left
  intro v hv
  have hl : v.length = r.length := by
    have := (mem_cells_inRange _ _ hv).length_eq
    simpa using this
  unfold Factor.sem asg
  rw [hf.attrs, map_override_self _ r v hr.1 hl]

theorem sumAll_eq {dom : Dom} {r : Region} {f : Factor ℝ} (hr : RegOK dom r) (hf : On dom r f) :
    f.sumAll = S dom r f.sem := by
  have h := datavector_eq hr hf
  unfold Factor.datavector at h
  unfold Factor.sumAll NdArr.reduceAll
  rw [rsum_eq, h, S_eq]

theorem logsumexpAll_eq {dom : Dom} {r : Region} {f : Factor ℝ} (hr : RegOK dom r) (hf : On dom r f) :
    f.logsumexpAll = Real.log (S dom r (fun τ => Real.exp (f.sem τ))) := by
  have h := datavector_eq hr hf
  unfold Factor.datavector at h
  unfold Factor.logsumexpAll NdArr.reduceAll
  show Real.log ((f.vals.data.toList.map Real.exp).sum) = _
  rw [h, S_eq, List.map_map]
  rfl

theorem entropy_eq {dom : Dom} {r : Region} {f : Factor ℝ} (T : ℝ) (hr : RegOK dom r) (hf : On dom r f) :
    entropy T f = - S dom r (fun τ => hent T (f.sem τ)) := by
  unfold entropy
  rw [entropy_fun, rsum_eq, datavector_eq hr hf, S_eq, List.map_map]
  rfl

theorem S_congr (dom : Dom) (hd : dom.WF) (hsz : ∀ p ∈ dom, 0 < p.2) (r : Region)
    (F G : (Attr → Nat) → ℝ) (h : ∀ τ, dom.Valid τ → F τ = G τ) : S dom r F = S dom r G :=
  sumOver_congr_valid dom hd r _ F G (valid_zero dom hsz) h

theorem S_add (dom : Dom) (r : Region) (F G : (Attr → Nat) → ℝ) :
    S dom r (fun τ => F τ + G τ) = S dom r F + S dom r G := sumOver_add dom r _ F G

theorem S_sub (dom : Dom) (r : Region) (F G : (Attr → Nat) → ℝ) :
    S dom r (fun τ => F τ - G τ) = S dom r F - S dom r G := by
  simp only [S_eq]
  exact sum_map_sub _ _ _

theorem S_sum {ι : Type} (dom : Dom) (r : Region) (l : List ι) (G : ι → (Attr → Nat) → ℝ) :
    S dom r (fun τ => (l.map (fun i => G i τ)).sum) = (l.map (fun i => S dom r (G i))).sum :=
  sumOver_sum dom r _ l G

/-- `⟨x, y⟩` for two tables on the same region -/
theorem mul_sumAll_eq {dom : Dom} {r : Region} {x y : Factor ℝ} (hd : dom.WF) (hsz : ∀ p ∈ dom, 0 < p.2)
    (hr : RegOK dom r) (hx : On dom r x) (hy : On dom r y) :
    (x.mul y).sumAll = S dom r (fun τ => x.sem τ * y.sem τ) := by
  have hm : On dom r (Factor.binop Scalar.mul x y) := binop_on _ hr hx (hy.sub hr)
  show (Factor.binop Scalar.mul x y).sumAll = _
  rw [sumAll_eq hr hm]
  apply S_congr dom hd hsz
  intro τ hτ
  rw [sem_binop_ok Scalar.mul hd (hx.factorOK hr) (hy.factorOK hr) hτ]
  rfl

/-! ### marginal consistency, cell-wise -/

theorem sem_eq_of_data (f g : Factor ℝ) (hdata : f.vals.data = g.vals.data)
    (hs : f.vals.shape = g.vals.shape) (ha : f.dom.attrs = g.dom.attrs) (σ : Attr → Nat) :
    f.sem σ = g.sem σ := by
  unfold Factor.sem NdArr.get
  rw [hdata, hs, ha]

theorem projectSum_shape {dom : Dom} {p c : Region} {qp : Factor ℝ} (hp : On dom p qp)
    (hcp : ∀ a ∈ c, a ∈ p) : (qp.projectSum c).vals.shape = c.map dom.cfg := by
  show ((Factor.reduce Scalar.sum qp (qp.dom.marginalize c).attrs).transpose c).vals.shape = _
  rw [Factor.transpose_vals]
  show c.map (Factor.reduce Scalar.sum qp (qp.dom.marginalize c).attrs).dom.cfg = _
  apply List.map_congr_left
  intro a ha
  rw [Factor.reduce_dom, Dom.marginalize, Dom.marginalize, Dom.attrs_project]
  have hap : a ∈ qp.dom.attrs := by rw [hp.attrs]; exact hcp a ha
  rw [Dom.cfg_project _ _ a (by
    simp only [Dom.invert, List.mem_filter, hap, true_and, Bool.not_eq_eq_eq_not, Bool.not_true]
    simp [ha])]
  rw [hp.2]
  exact Dom.cfg_project dom p a (hcp a ha)

/-- local consistency along an edge, cell-wise: `q_c(τ) = Σ_{p \ c} q_p(τ)` -/
theorem proj_sem {dom : Dom} {p c : Region} {qp qc : Factor ℝ} (hd : dom.WF)
    (hrp : RegOK dom p) (hrc : RegOK dom c) (hcp : ∀ a ∈ c, a ∈ p)
    (hp : On dom p qp) (hc : On dom c qc)
    (h : (qp.projectSum c).datavector = qc.datavector) {σ : Attr → Nat} (hσ : dom.Valid σ) :
    qc.sem σ = sumOver dom (p.filter (fun a => !c.contains a)) σ qp.sem := by
  have hdata : (qp.projectSum c).vals.data = qc.vals.data := by
    unfold Factor.datavector at h
    exact Array.toList_inj.mp h
  have hshape : (qp.projectSum c).vals.shape = qc.vals.shape := by
    rw [projectSum_shape hp hcp, hc.1.2.1, hc.2, Dom.shape_project]
  have hattrs : (qp.projectSum c).dom.attrs = qc.dom.attrs := by
    rw [hc.attrs]; exact Factor.project_attrs _ _ _
  rw [← sem_eq_of_data _ _ hdata hshape hattrs σ]
  have hpo := hp.factorOK hrp
  show (Factor.project Scalar.sum qp c).sem σ = _
  rw [Factor.sem_project Scalar.sum qp c σ hp.1 hrc.1 (by rw [hp.attrs]; exact hcp) (hpo.valid hd hσ),
    rsum_eq]
  unfold sumOver
  have e1 : qp.dom.invert c = p.filter (fun a => !c.contains a) := by
    unfold Dom.invert; rw [hp.attrs]
  rw [e1]
  have e2 : (p.filter (fun a => !c.contains a)).map qp.dom.cfg
      = (p.filter (fun a => !c.contains a)).map dom.cfg := by
    apply List.map_congr_left
    intro a ha
    rw [hp.2]
    exact Dom.cfg_project dom p a (List.mem_filter.mp ha).1
  rw [e2]

/-- **the multiplier terms move from the parent to the child**:
`⟨expand λ, q_p⟩ = ⟨λ, proj_c q_p⟩ = ⟨λ, q_c⟩` -/
theorem S_parent_child {dom : Dom} {p c : Region} {lam qp qc : Factor ℝ} (hd : dom.WF)
    (hsz : ∀ p ∈ dom, 0 < p.2)
    (hrp : RegOK dom p) (hrc : RegOK dom c) (hcp : ∀ a ∈ c, a ∈ p)
    (hlam : Sub dom c lam) (hp : On dom p qp) (hc : On dom c qc)
    (h : (qp.projectSum c).datavector = qc.datavector) :
    S dom p (fun τ => lam.sem τ * qp.sem τ) = S dom c (fun τ => lam.sem τ * qc.sem τ) := by
  unfold S
  rw [← sumOver_split dom p (fun a => c.contains a) (fun _ => 0) _ hrp.1]
  have hperm : (p.filter (fun a => c.contains a)).Perm c := by
    rw [List.perm_ext_iff_of_nodup (hrp.1.sublist List.filter_sublist) hrc.1]
    intro a
    simp only [List.mem_filter, List.contains_iff_mem]
    exact ⟨fun h => h.2, fun h => ⟨hcp a h, h⟩⟩
  rw [sumOver_perm dom _ c _ _ hperm (hrp.1.sublist List.filter_sublist)]
  apply sumOver_congr_valid dom hd c _ _ _ (valid_zero dom hsz)
  intro τ hτ
  rw [sumOver_factor_left dom _ τ (fun ρ => lam.sem ρ) (fun ρ => qp.sem ρ)]
  · rw [proj_sem hd hrp hrc hcp hp hc h hτ]
  · intro v _
    apply sem_override_of_disjoint
    intro a ha hal
    have h1 := (List.mem_filter.mp ha).2
    have h2 := hlam.2 a hal
    simp [h2] at h1

/-! ### the projection of a table on a region is a table on the sub-region -/

theorem projectSum_cfg {dom : Dom} {p c : Region} {qp : Factor ℝ} (hp : On dom p qp)
    (hcp : ∀ a ∈ c, a ∈ p) {a : Attr} (ha : a ∈ c) :
    (Factor.reduce Scalar.sum qp (qp.dom.marginalize c).attrs).dom.cfg a = dom.cfg a := by
  rw [Factor.reduce_dom, Dom.marginalize, Dom.marginalize, Dom.attrs_project]
  have hap : a ∈ qp.dom.attrs := by rw [hp.attrs]; exact hcp a ha
  rw [Dom.cfg_project _ _ a (by
    simp only [Dom.invert, List.mem_filter, hap, true_and, Bool.not_eq_eq_eq_not, Bool.not_true]
    simp [ha])]
  rw [hp.2]
  exact Dom.cfg_project dom p a (hcp a ha)

theorem projectSum_on {dom : Dom} {p c : Region} {qp : Factor ℝ} (hrp : RegOK dom p)
    (hrc : RegOK dom c) (hcp : ∀ a ∈ c, a ∈ p) (hp : On dom p qp) : On dom c (qp.projectSum c) := by
  have hrw := Factor.reduce_WF Scalar.sum qp (qp.dom.marginalize c).attrs hp.1
  have hperm : c.Perm (Factor.reduce Scalar.sum qp (qp.dom.marginalize c).attrs).dom.attrs := by
    rw [List.perm_ext_iff_of_nodup hrc.1 hrw.1, Factor.reduce_attrs, Dom.marginalize,
      Dom.attrs_project]
    intro a
    simp only [Dom.invert, List.mem_filter, Bool.not_eq_eq_eq_not, Bool.not_true]
    constructor
    · intro ha
      refine ⟨by rw [hp.attrs]; exact hcp a ha, ?_⟩
      simp [ha]
    · rintro ⟨h1, h2⟩
      simpa [h1] using h2
  refine ⟨Factor.transpose_WF _ c hrw hperm, ?_⟩
  show ((Factor.reduce Scalar.sum qp (qp.dom.marginalize c).attrs).transpose c).dom = _
  rw [Factor.transpose_dom]
  unfold Dom.project
  apply List.map_congr_left
  intro a ha
  rw [projectSum_cfg hp hcp ha]

/-- cell-wise value of a projection -/
theorem projectSum_sem {dom : Dom} {p c : Region} {qp : Factor ℝ} (hd : dom.WF)
    (hrp : RegOK dom p) (hrc : RegOK dom c) (hcp : ∀ a ∈ c, a ∈ p) (hp : On dom p qp)
    {σ : Attr → Nat} (hσ : dom.Valid σ) :
    (qp.projectSum c).sem σ = sumOver dom (p.filter (fun a => !c.contains a)) σ qp.sem :=
  (proj_sem hd hrp hrc hcp hp (projectSum_on hrp hrc hcp hp) rfl hσ)

/-- two tables on the same region with the same cell values have the same flat data -/
theorem datavector_ext {dom : Dom} {r : Region} {f g : Factor ℝ} (hd : dom.WF)
    (hsz : ∀ p ∈ dom, 0 < p.2) (hr : RegOK dom r) (hf : On dom r f) (hg : On dom r g)
    (h : ∀ σ, dom.Valid σ → f.sem σ = g.sem σ) : f.datavector = g.datavector := by
  rw [datavector_eq hr hf, datavector_eq hr hg]
  apply List.map_congr_left
  intro v hv
  exact h _ (valid_asg dom hd hsz r v hv)

end PGM.Convex
