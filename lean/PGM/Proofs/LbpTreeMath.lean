import PGM.Proofs.LbpTreeState
/-!
# Fixed points of belief propagation on a forest give the exact marginals (pure mathematics)

No tables here: `θ cl` is a real function of the assignment that depends only on the attributes of
`cl`, `f cl v` a real function of the value of `v` (the message `cl → v`), `e v` an *external field*
on `v` (needed for the induction: the message of a removed leaf clique becomes a field).

`n_{u→cl} = e_u + Σ_{g ∋ u, g ≠ cl} f_{g→u}`, `bel cl = θ_cl + Σ_{u ∈ cl} n_{u→cl}`,
`logW = Σ_k θ_k + Σ_{v ∈ A} e_v`.

`marginal_of_consistent`: on a forest, if every message towards a shared attribute satisfies the
update equation up to an additive constant, then `Σ_{A ∖ t} exp(logW) = K · exp(bel t)`.
The proof removes a leaf clique (one that shares at most one attribute with the others) at a time.
-/
namespace PGM.LbpTree
open PGM PGM.JT PGM.Oracle
set_option linter.unusedSectionVars false
set_option linter.unusedVariables false

/-! ### definitions -/

noncomputable def nmsg (cliques : List Clique) (e : Attr → Nat → ℝ) (f : Clique → Attr → Nat → ℝ)
    (u : Attr) (cl : Clique) (x : Nat) : ℝ :=
  e u x + nOf cliques f u cl x

noncomputable def bel (cliques : List Clique) (θ : Clique → (Attr → Nat) → ℝ) (e : Attr → Nat → ℝ)
    (f : Clique → Attr → Nat → ℝ) (cl : Clique) (σ : Attr → Nat) : ℝ :=
  θ cl σ + (cl.map (fun u => nmsg cliques e f u cl (σ u))).sum

noncomputable def logW (cliques : List Clique) (A : List Attr) (θ : Clique → (Attr → Nat) → ℝ)
    (e : Attr → Nat → ℝ) (σ : Attr → Nat) : ℝ :=
  (cliques.map (fun k => θ k σ)).sum + (A.map (fun v => e v (σ v))).sum

/-- `v` also belongs to another clique -/
def Shared (cliques : List Clique) (cl : Clique) (v : Attr) : Prop := ∃ g ∈ cliques, g ≠ cl ∧ v ∈ g

/-- the update equation of the message `cl → v`, up to an additive constant `κ` -/
def MsgEq (d : Dom) (cliques : List Clique) (θ : Clique → (Attr → Nat) → ℝ) (e : Attr → Nat → ℝ)
    (f : Clique → Attr → Nat → ℝ) (cl : Clique) (v : Attr) : Prop :=
  ∃ κ : ℝ, ∀ σ, d.Valid σ →
    Sem.sumOver d (cl.filter (fun var => var != v)) σ (fun τ =>
        Real.exp (θ cl τ + ((cl.filter (fun var => var != v)).map (fun u => nmsg cliques e f u cl (τ u))).sum))
      = Real.exp (f cl v (σ v) + κ)

/-! ### list sums -/

theorem sum_map_split {ι : Type} (l : List ι) (p : ι → Bool) (g : ι → ℝ) :
    (l.map g).sum = ((l.filter p).map g).sum + ((l.filter (fun a => !p a)).map g).sum := by
  have := ((List.filter_append_perm p l).map g).sum_eq
  rw [List.map_append, List.sum_append] at this
  exact this.symm

theorem sum_ind_single {ι : Type} [DecidableEq ι] (l : List ι) (hl : l.Nodup) (s : ι) (hs : s ∈ l)
    (p : ι → Prop) [DecidablePred p] (hp : ∀ v ∈ l, p v ↔ v = s) (g : ι → ℝ) :
    (l.map (fun v => if p v then g v else 0)).sum = g s := by
  induction l with
  | nil => simp at hs
  | cons x xs ih =>
    rw [List.nodup_cons] at hl
    simp only [List.map_cons, List.sum_cons]
    by_cases hx : x = s
    · subst hx
      have h0 : (xs.map (fun v => if p v then g v else 0)).sum = 0 := by
        apply List.sum_eq_zero
        intro y hy
        obtain ⟨v, hv, rfl⟩ := List.mem_map.mp hy
        have : ¬ p v := fun h => hl.1 (((hp v (by simp [hv])).mp h) ▸ hv)
        simp [this]
      have : p x := (hp x (by simp)).mpr rfl
      simp [this, h0]
    · have hs' : s ∈ xs := by
        rcases List.mem_cons.mp hs with h | h
        · exact absurd h.symm hx
        · exact h
      have : ¬ p x := fun h => hx ((hp x (by simp)).mp h)
      simp only [this, if_false, zero_add]
      exact ih hl.2 hs' (fun v hv => hp v (by simp [hv]))

theorem sum_ind_none {ι : Type} (l : List ι) (p : ι → Prop) [DecidablePred p] (hp : ∀ v ∈ l, ¬ p v)
    (g : ι → ℝ) : (l.map (fun v => if p v then g v else 0)).sum = 0 := by
  apply List.sum_eq_zero
  intro y hy
  obtain ⟨v, hv, rfl⟩ := List.mem_map.mp hy
  simp [hp v hv]

/-! ### removing a clique from the list -/

theorem nOf_erase (cliques : List Clique) (c : Clique) (hc : c ∈ cliques) (f : Clique → Attr → Nat → ℝ)
    (u : Attr) (cl : Clique) (x : Nat) :
    nOf cliques f u cl x = (if u ∈ c ∧ c ≠ cl then f c u x else 0) + nOf (cliques.erase c) f u cl x := by
  unfold nOf
  have := ((List.perm_cons_erase hc).map (fun g => if u ∈ g ∧ g ≠ cl then f g u x else 0)).sum_eq
  rw [this, List.map_cons, List.sum_cons]

/-- the external field after the leaf `c` has been removed: its messages are absorbed -/
noncomputable def eAdd (f : Clique → Attr → Nat → ℝ) (e : Attr → Nat → ℝ) (c : Clique) : Attr → Nat → ℝ :=
  fun u x => e u x + if u ∈ c then f c u x else 0

theorem nmsg_erase (cliques : List Clique) (hnd : cliques.Nodup) (c : Clique) (hc : c ∈ cliques)
    (e : Attr → Nat → ℝ) (f : Clique → Attr → Nat → ℝ) (u : Attr) (cl : Clique) (hcl : cl ∈ cliques.erase c)
    (x : Nat) :
    nmsg cliques e f u cl x = nmsg (cliques.erase c) (eAdd f e c) f u cl x := by
  have hne : c ≠ cl := by
    intro h
    rw [← h] at hcl
    exact ((List.Nodup.mem_erase_iff hnd).mp hcl).1 rfl
  unfold nmsg eAdd
  rw [nOf_erase cliques c hc]
  by_cases huc : u ∈ c
  · simp [huc, hne]; ring
  · simp [huc]

theorem bel_erase (cliques : List Clique) (hnd : cliques.Nodup) (c : Clique) (hc : c ∈ cliques)
    (θ : Clique → (Attr → Nat) → ℝ) (e : Attr → Nat → ℝ) (f : Clique → Attr → Nat → ℝ)
    (cl : Clique) (hcl : cl ∈ cliques.erase c) (σ : Attr → Nat) :
    bel cliques θ e f cl σ = bel (cliques.erase c) θ (eAdd f e c) f cl σ := by
  unfold bel
  congr 2
  apply List.map_congr_left
  intro u _
  exact nmsg_erase cliques hnd c hc e f u cl hcl _

/-! ### leaves -/

/-- a forest has a clique with at most one shared attribute -/
theorem exists_leaf (cliques : List Clique) (hne : cliques ≠ []) (h : Clique → Attr → Nat)
    (hF : Forest cliques h) :
    ∃ c ∈ cliques, (∀ u ∈ c, ¬ Shared cliques c u) ∨
      (∃ s ∈ c, Shared cliques c s ∧ ∀ u ∈ c, u ≠ s → ¬ Shared cliques c u) := by
  by_cases hex : ∃ k, ∃ cl ∈ cliques, ∃ v ∈ cl, Shared cliques cl v ∧ h cl v = k
  · classical
    obtain ⟨cl, hcl, v, hv, hsh, hk⟩ := Nat.find_spec hex
    refine ⟨cl, hcl, Or.inr ⟨v, hv, hsh, ?_⟩⟩
    intro u hu huv hshu
    obtain ⟨g, hg, hgc, hug⟩ := hshu
    have hlt := hF cl hcl v hv u hu huv g hg hgc hug
    rw [hk] at hlt
    exact Nat.find_min hex hlt ⟨g, hg, u, hug, ⟨cl, hcl, fun h => hgc h.symm, hu⟩, rfl⟩
  · obtain ⟨c, hc⟩ := List.exists_mem_of_ne_nil cliques hne
    refine ⟨c, hc, Or.inl ?_⟩
    intro u hu hsh
    exact hex ⟨h c u, c, hc, u, hu, hsh, rfl⟩

theorem Forest.erase {cliques : List Clique} {h : Clique → Attr → Nat} (hF : Forest cliques h) (c : Clique) :
    Forest (cliques.erase c) h := by
  intro cl hcl v hv u hu huv g hg hgc hug
  exact hF cl (List.mem_of_mem_erase hcl) v hv u hu huv g (List.mem_of_mem_erase hg) hgc hug


/-! ### helpers about `sumOver` and `DependsOn` -/

theorem sumOver_split' (d : Dom) (as : List Attr) (q : Attr → Bool) (σ : Attr → Nat)
    (F : (Attr → Nat) → ℝ) (has : as.Nodup) :
    Sem.sumOver d (as.filter (fun a => !q a)) σ (fun τ => Sem.sumOver d (as.filter q) τ F)
      = Sem.sumOver d as σ F := by
  have := Sem.sumOver_split d as (fun a => !q a) σ F has
  simp only [Bool.not_not] at this
  exact this

theorem dependsOn_theta_sum (L : List Clique) (θ : Clique → (Attr → Nat) → ℝ) (S : List Attr)
    (h : ∀ k ∈ L, Sem.DependsOn (θ k) S) : Sem.DependsOn (fun σ => (L.map (fun k => θ k σ)).sum) S := by
  intro σ τ hστ
  show (L.map (fun k => θ k σ)).sum = (L.map (fun k => θ k τ)).sum
  congr 1
  apply List.map_congr_left
  intro k hk
  exact h k hk σ τ hστ

theorem dependsOn_field_sum (L : List Attr) (e : Attr → Nat → ℝ) (S : List Attr) (h : ∀ v ∈ L, v ∈ S) :
    Sem.DependsOn (fun σ => (L.map (fun v => e v (σ v))).sum) S := by
  intro σ τ hστ
  show (L.map (fun v => e v (σ v))).sum = (L.map (fun v => e v (τ v))).sum
  congr 1
  apply List.map_congr_left
  intro v hv
  rw [hστ v (h v hv)]

theorem dependsOn_logW (L : List Clique) (A : List Attr) (θ : Clique → (Attr → Nat) → ℝ)
    (e : Attr → Nat → ℝ) (hθ : ∀ k ∈ L, Sem.DependsOn (θ k) k) (hsub : ∀ k ∈ L, ∀ a ∈ k, a ∈ A) :
    Sem.DependsOn (logW L A θ e) A := by
  intro σ τ hστ
  unfold logW
  have h1 := dependsOn_theta_sum L θ A (fun k hk => (hθ k hk).mono (hsub k hk)) σ τ hστ
  have h2 := dependsOn_field_sum A e A (fun _ h => h) σ τ hστ
  simp only at h1 h2
  rw [h1, h2]

/-- a sum over attributes that include everything the summand depends on is a constant -/
theorem sumOver_const_of_dependsOn (d : Dom) (as S : List Attr) (F : (Attr → Nat) → ℝ)
    (hF : Sem.DependsOn F S) (h : ∀ a ∈ S, a ∈ as) (σ τ : Attr → Nat) :
    Sem.sumOver d as σ F = Sem.sumOver d as τ F :=
  Sem.sumOver_base_congr_of_dependsOn d as S σ τ F hF (fun a ha hna => absurd (h a ha) hna)

end PGM.LbpTree
