import PGM.Proofs.LbpTreeOps
/-!
# The structure of one sweep of loopy belief propagation

`lbpSweep = phase2 ∘ phase1`.  Phase 1 only writes `mu_f` and only reads `mu_n`; phase 2 only writes
`mu_n` and only reads `mu_f`.  Hence both are "parallel" updates: every written entry is a function
of the state at the beginning of the phase (`facMsg`, `varMsg`), whatever the order of the loops and
whether or not keys repeat.
-/
namespace PGM.LbpTree
open PGM PGM.JT PGM.RG PGM.Oracle
set_option linter.unusedSectionVars false
set_option linter.unusedVariables false

/-- the message `cl → v` given the already summed incoming messages `pre` and `N = mu_n[v][cl]` -/
noncomputable def msgOf (pots : CliqueVec ℝ) (cl : Clique) (pre : PySum ℝ) (N : Factor ℝ) (v : Attr) :
    Factor ℝ :=
  let m := (addSum (pots.get cl) pre).sub N
  let m := m.logsumexp (cl.filter (fun var => var != v))
  m.subScalar m.logsumexpAll

/-- the factor-to-variable message written by a sweep started in state `s` -/
noncomputable def facMsg (pots : CliqueVec ℝ) (s : FG.State ℝ) (cl : Clique) (v : Attr) : Factor ℝ :=
  msgOf pots cl (pySum (cl.map (fun c => FG.getN s c cl))) (FG.getN s v cl) v

noncomputable def preOf (s : PySum ℝ) : Factor ℝ :=
  match s with
  | .zero => Factor.zeros []
  | .fac g => g

/-- the cliques containing `v`, in list order (`self.potentials` order in Python) -/
def facOf (cliques : List Clique) (v : Attr) : List Clique := cliques.filter (fun cl => cl.contains v)

/-- the variable-to-factor message written by phase 2 started in state `s` -/
noncomputable def varMsg (cliques : List Clique) (s : FG.State ℝ) (v : Attr) (f : Clique) : Factor ℝ :=
  (preOf (pySum ((facOf cliques v).map (fun cl => FG.getF s cl v)))).sub (FG.getF s f v)

noncomputable def phase1 (cliques : List Clique) (pots : CliqueVec ℝ) (s : FG.State ℝ) : FG.State ℝ :=
  cliques.foldl (fun (s : FG.State ℝ) cl =>
    let pre := pySum (cl.map (fun c => FG.getN s c cl))
    cl.foldl (fun (s : FG.State ℝ) v =>
      let complement := cl.filter (fun var => var != v)
      let m := (addSum (pots.get cl) pre).sub (FG.getN s v cl)
      let m := m.logsumexp complement
      let m := m.subScalar m.logsumexpAll
      { s with muF := GM.dictSet s.muF (cl, v) m }) s) s

/-! ### phase 1 -/

theorem phase1_inner (pots : CliqueVec ℝ) (cl : Clique) (pre : PySum ℝ) (l : List Attr) (s : FG.State ℝ) :
    l.foldl (fun (s : FG.State ℝ) v =>
      let complement := cl.filter (fun var => var != v)
      let m := (addSum (pots.get cl) pre).sub (FG.getN s v cl)
      let m := m.logsumexp complement
      let m := m.subScalar m.logsumexpAll
      { s with muF := GM.dictSet s.muF (cl, v) m }) s
    = ⟨s.muN, l.foldl (fun d v => GM.dictSet d (cl, v) (msgOf pots cl pre (FG.getN s v cl) v)) s.muF⟩ := by
  induction l generalizing s with
  | nil => rfl
  | cons x xs ih =>
    rw [List.foldl_cons, List.foldl_cons, ih]
    rfl

theorem phase1_outer (pots : CliqueVec ℝ) (L : List Clique) (s : FG.State ℝ) :
    L.foldl (fun (s : FG.State ℝ) cl =>
      let pre := pySum (cl.map (fun c => FG.getN s c cl))
      cl.foldl (fun (s : FG.State ℝ) v =>
        let complement := cl.filter (fun var => var != v)
        let m := (addSum (pots.get cl) pre).sub (FG.getN s v cl)
        let m := m.logsumexp complement
        let m := m.subScalar m.logsumexpAll
        { s with muF := GM.dictSet s.muF (cl, v) m }) s) s
    = ⟨s.muN, L.foldl (fun d cl => cl.foldl (fun d v => GM.dictSet d (cl, v) (facMsg pots s cl v)) d) s.muF⟩ := by
  induction L generalizing s with
  | nil => rfl
  | cons c cs ih =>
    rw [List.foldl_cons, List.foldl_cons]
    simp only []
    rw [phase1_inner, ih]
    rfl

/-- the keys written by phase 1 -/
def keysF (cliques : List Clique) : List (Clique × Attr) :=
  cliques.flatMap (fun cl => cl.map (fun v => (cl, v)))

theorem mem_keysF (cliques : List Clique) (cl : Clique) (v : Attr) :
    (cl, v) ∈ keysF cliques ↔ cl ∈ cliques ∧ v ∈ cl := by
  unfold keysF
  simp only [List.mem_flatMap, List.mem_map, Prod.mk.injEq]
  constructor
  · rintro ⟨c, hc, u, hu, rfl, rfl⟩; exact ⟨hc, hu⟩
  · rintro ⟨h1, h2⟩; exact ⟨cl, h1, v, h2, rfl, rfl⟩

theorem nested_eq_fill {κ₁ κ₂ β : Type} [BEq (κ₁ × κ₂)] (L : List κ₁) (g : κ₁ → List κ₂)
    (F : κ₁ × κ₂ → β) (d : List ((κ₁ × κ₂) × β)) :
    L.foldl (fun d c => (g c).foldl (fun d v => GM.dictSet d (c, v) (F (c, v))) d) d
      = fill F (L.flatMap (fun c => (g c).map (fun v => (c, v)))) d := by
  unfold fill
  rw [List.foldl_flatMap]
  congr 1
  funext d c
  rw [List.foldl_map]

theorem phase1_eq (cliques : List Clique) (pots : CliqueVec ℝ) (s : FG.State ℝ) :
    phase1 cliques pots s = ⟨s.muN, fill (fun k => facMsg pots s k.1 k.2) (keysF cliques) s.muF⟩ := by
  unfold phase1
  rw [phase1_outer]
  congr 1
  exact nested_eq_fill cliques (fun cl => cl) (fun k => facMsg pots s k.1 k.2) s.muF

theorem phase1_getN (cliques : List Clique) (pots : CliqueVec ℝ) (s : FG.State ℝ) (v : Attr) (cl : Clique) :
    FG.getN (phase1 cliques pots s) v cl = FG.getN s v cl := by
  rw [phase1_eq]; rfl

theorem phase1_getF (cliques : List Clique) (pots : CliqueVec ℝ) (s : FG.State ℝ) (cl : Clique) (v : Attr)
    (hcl : cl ∈ cliques) (hv : v ∈ cl) :
    FG.getF (phase1 cliques pots s) cl v = facMsg pots s cl v := by
  rw [phase1_eq]
  unfold FG.getF
  simp only
  rw [lookup_fill, if_pos ((mem_keysF cliques cl v).mpr ⟨hcl, hv⟩)]

/-! ### phase 2 -/

theorem pySum_nil : pySum ([] : List (Factor ℝ)) = PySum.zero := rfl

theorem pySum_ne_nil (l : List (Factor ℝ)) (h : l ≠ []) : ∃ g, pySum l = PySum.fac g := by
  induction l using List.reverseRecOn with
  | nil => exact absurd rfl h
  | append_singleton xs x _ =>
    cases hs : pySum xs with
    | zero => exact ⟨_, pySum_snoc_zero xs x hs⟩
    | fac g => exact ⟨_, pySum_snoc_fac xs x g hs⟩

theorem phase2_inner (v : Attr) (pre : Factor ℝ) (l : List Clique) (s : FG.State ℝ) :
    l.foldl (fun (s : FG.State ℝ) f =>
        { s with muN := GM.dictSet s.muN (v, f) (pre.sub (FG.getF s f v)) }) s
    = ⟨l.foldl (fun d f => GM.dictSet d (v, f) (pre.sub (FG.getF s f v))) s.muN, s.muF⟩ := by
  induction l generalizing s with
  | nil => rfl
  | cons x xs ih =>
    rw [List.foldl_cons, List.foldl_cons, ih]
    rfl

/-- any step function that acts like phase 2 on one attribute -/
theorem phase2_outer (cliques : List Clique) (step : FG.State ℝ → Attr → FG.State ℝ)
    (hstep : ∀ s v, step s v =
      ⟨(facOf cliques v).foldl (fun d f => GM.dictSet d (v, f) (varMsg cliques s v f)) s.muN, s.muF⟩)
    (L : List Attr) (s : FG.State ℝ) :
    L.foldl step s
    = ⟨L.foldl (fun d v => (facOf cliques v).foldl (fun d f => GM.dictSet d (v, f) (varMsg cliques s v f)) d) s.muN,
        s.muF⟩ := by
  induction L generalizing s with
  | nil => rfl
  | cons c cs ih =>
    rw [List.foldl_cons, List.foldl_cons, hstep, ih]
    rfl

/-- the keys written by phase 2 -/
def keysN (dom : Dom) (cliques : List Clique) : List (Attr × Clique) :=
  dom.attrs.flatMap (fun v => (facOf cliques v).map (fun f => (v, f)))

theorem mem_keysN (dom : Dom) (cliques : List Clique) (v : Attr) (cl : Clique) :
    (v, cl) ∈ keysN dom cliques ↔ v ∈ dom.attrs ∧ cl ∈ cliques ∧ v ∈ cl := by
  unfold keysN facOf
  simp only [List.mem_flatMap, List.mem_map, Prod.mk.injEq, List.mem_filter, List.contains_iff_mem]
  constructor
  · rintro ⟨u, hu, c, ⟨hc, huc⟩, rfl, rfl⟩; exact ⟨hu, hc, huc⟩
  · rintro ⟨h1, h2, h3⟩; exact ⟨v, h1, cl, ⟨h2, h3⟩, rfl, rfl⟩

theorem phase2_fill (dom : Dom) (cliques : List Clique) (step : FG.State ℝ → Attr → FG.State ℝ)
    (hstep : ∀ s v, step s v =
      ⟨(facOf cliques v).foldl (fun d f => GM.dictSet d (v, f) (varMsg cliques s v f)) s.muN, s.muF⟩)
    (s : FG.State ℝ) :
    dom.attrs.foldl step s
      = ⟨fill (fun k => varMsg cliques s k.1 k.2) (keysN dom cliques) s.muN, s.muF⟩ := by
  rw [phase2_outer cliques step hstep]
  congr 1
  exact nested_eq_fill dom.attrs (fun v => facOf cliques v) (fun k => varMsg cliques s k.1 k.2) s.muN

/-- the state after one sweep: phase 1, then the dictionary `mu_n` refilled from the new `mu_f` -/
noncomputable def afterPhase2 (dom : Dom) (cliques : List Clique) (s : FG.State ℝ) : FG.State ℝ :=
  ⟨fill (fun k => varMsg cliques s k.1 k.2) (keysN dom cliques) s.muN, s.muF⟩

theorem lbpSweep_eq (dom : Dom) (cliques : List Clique) (pots : CliqueVec ℝ) (s : FG.State ℝ) :
    FG.lbpSweep dom cliques pots s = afterPhase2 dom cliques (phase1 cliques pots s) := by
  unfold FG.lbpSweep afterPhase2
  show dom.attrs.foldl _ (phase1 cliques pots s) = _
  apply phase2_fill dom cliques
  intro s v
  by_cases hnil : facOf cliques v = []
  · have h1 : cliques.filter (fun cl => cl.contains v) = [] := hnil
    simp only [h1, hnil]
    rfl
  · have hne : (facOf cliques v).map (fun cl => FG.getF s cl v) ≠ [] := by
      intro h; exact hnil (List.map_eq_nil_iff.mp h)
    obtain ⟨g, hg⟩ := pySum_ne_nil _ hne
    have hg' : pySum ((cliques.filter (fun cl => cl.contains v)).map (fun cl => FG.getF s cl v)) = PySum.fac g := hg
    simp only [hg']
    rw [phase2_inner]
    unfold varMsg
    rw [hg]
    rfl

theorem phase2_getF (dom : Dom) (cliques : List Clique) (s : FG.State ℝ) (cl : Clique) (v : Attr) :
    FG.getF (afterPhase2 dom cliques s) cl v = FG.getF s cl v := rfl

theorem phase2_getN (dom : Dom) (cliques : List Clique) (s : FG.State ℝ) (v : Attr) (cl : Clique)
    (hv : v ∈ dom.attrs) (hcl : cl ∈ cliques) (hvc : v ∈ cl) :
    FG.getN (afterPhase2 dom cliques s) v cl = varMsg cliques s v cl := by
  unfold afterPhase2 FG.getN
  simp only
  rw [lookup_fill, if_pos ((mem_keysN dom cliques v cl).mpr ⟨hv, hcl, hvc⟩)]

/-! ### the sweep -/

/-- **one sweep, factor-to-variable**: the new `mu_f[cl][v]` is computed from the old `mu_n[·][cl]` -/
theorem sweep_getF (dom : Dom) (cliques : List Clique) (pots : CliqueVec ℝ) (s : FG.State ℝ)
    (cl : Clique) (v : Attr) (hcl : cl ∈ cliques) (hv : v ∈ cl) :
    FG.getF (FG.lbpSweep dom cliques pots s) cl v = facMsg pots s cl v := by
  rw [lbpSweep_eq, phase2_getF, phase1_getF cliques pots s cl v hcl hv]

/-- **one sweep, variable-to-factor**: the new `mu_n[v][cl]` is computed from the new `mu_f[·][v]` -/
theorem sweep_getN (dom : Dom) (cliques : List Clique) (pots : CliqueVec ℝ) (s : FG.State ℝ)
    (v : Attr) (cl : Clique) (hv : v ∈ dom.attrs) (hcl : cl ∈ cliques) (hvc : v ∈ cl) :
    FG.getN (FG.lbpSweep dom cliques pots s) v cl = varMsg cliques (FG.lbpSweep dom cliques pots s) v cl := by
  rw [lbpSweep_eq, phase2_getN dom cliques _ v cl hv hcl hvc]
  rfl

end PGM.LbpTree
