import PGM.Model.Total
import PGM.Proofs.TotalLin
import PGM.Proofs.TotalQual
import Mathlib.Algebra.Order.Field.Basic
import Mathlib.Algebra.BigOperators.Group.List.Basic
import Mathlib.Algebra.Order.BigOperators.Ring.Finset
import Mathlib.Tactic.Linarith
import Mathlib.Tactic.FieldSimp
import Mathlib.Tactic.Ring
/-!
# The estimated total is the best linear unbiased estimate (statements for C09)
`K` is any linearly ordered field; the model `PGM/Model/Total.lean` is instantiated at `K`.
-/
namespace PGM.Total
open Finset
set_option linter.unusedSectionVars false
variable {K : Type} [Field K] [LinearOrder K] [IsStrictOrderedRing K]

def ones (n : Nat) : List K := List.replicate n 1
/-- all rows have the same length -/
def Rect (Q : List (List K)) : Prop := ∀ r ∈ Q, r.length = ncols Q

/-- a supplied total is used exactly -/
theorem total_given_used (t : K) (meas : List (Meas K)) : totalOf (some t) meas = t := by
  rfl

/-- whatever is estimated is at least 1 … -/
theorem total_ge_one (meas : List (Meas K)) : 1 ≤ totalEstimate meas := by
  unfold totalEstimate
  simp only
  split_ifs with h1 h2
  · exact le_refl _
  · exact le_refl _
  · exact not_lt.mp h2

/-- … and exactly 1 when no measurement's queries can express the overall count -/
theorem total_no_qualifying (meas : List (Meas K)) (h : ∀ m ∈ meas, unbiasedVec m.Q = none) :
    totalEstimate meas = 1 := by
  have : estimates meas = [] := by
    unfold estimates
    rw [List.filterMap_eq_nil_iff]
    intro m hm
    rw [h m hm]; rfl
  unfold totalEstimate
  simp [this]

/-- the vector a qualifying measurement is used with is certified: `Qᵀ v = 1` and `v ∈ range Q` -/
theorem unbiasedVec_spec (Q : List (List K)) (v : List K) (h : unbiasedVec Q = some v) :
    matTVec Q v = ones (ncols Q) ∧ ∃ z, v = matVec Q z := by
  unfold unbiasedVec at h
  simp only at h
  split_ifs at h with hc
  injection h with h
  subst h
  exact ⟨hc, _, rfl⟩

/-- **unbiasedness**: if `Qᵀ v = 1` then `⟨v, Q x⟩ = Σ x` for every data vector `x` -/
theorem unbiased (Q : List (List K)) (v x : List K) (hQ : Rect Q) (hv : matTVec Q v = ones (ncols Q))
    (hvl : v.length = Q.length) (hx : x.length = ncols Q) :
    dot v (matVec Q x) = x.sum := by
  rw [dot_eq_sum_of_length v _ Q.length hvl, list_sum_eq_sum_range, hx]
  have h1 := (matTVec_eq_ones_iff Q v).mp hv
  simp only [matVec_getD Q hQ, Finset.mul_sum]
  rw [Finset.sum_comm]
  apply Finset.sum_congr rfl
  intro j hj
  have e : ∀ i ∈ range Q.length, v.getD i 0 * (ent Q i j * x.getD j 0)
      = (ent Q i j * v.getD i 0) * x.getD j 0 := by intro i _; ring
  rw [Finset.sum_congr rfl e, ← Finset.sum_mul, h1 j (Finset.mem_range.mp hj), one_mul]

/-- a vector in the range of `Q` is orthogonal to the difference of two solutions of `Qᵀ · = 1` -/
theorem range_orth (Q : List (List K)) (hQ : Rect Q) (z a b : List K)
    (ha : matTVec Q a = ones (ncols Q)) (hb : matTVec Q b = ones (ncols Q)) :
    ∑ i ∈ range Q.length, (matVec Q z).getD i 0 * (a.getD i 0 - b.getD i 0) = 0 := by
  have h1 := (matTVec_eq_ones_iff Q a).mp ha
  have h2 := (matTVec_eq_ones_iff Q b).mp hb
  simp only [matVec_getD Q hQ, Finset.sum_mul]
  rw [Finset.sum_comm]
  apply Finset.sum_eq_zero
  intro j hj
  have e : ∀ i ∈ range Q.length, ent Q i j * z.getD j 0 * (a.getD i 0 - b.getD i 0)
      = z.getD j 0 * (ent Q i j * a.getD i 0) - z.getD j 0 * (ent Q i j * b.getD i 0) := by
    intro i _; ring
  rw [Finset.sum_congr rfl e, Finset.sum_sub_distrib, ← Finset.mul_sum, ← Finset.mul_sum,
    h1 j (Finset.mem_range.mp hj), h2 j (Finset.mem_range.mp hj)]
  ring

/-- **minimum variance within a measurement**: among all `u` with `Qᵀ u = 1`, the vector in the
range of `Q` (the minimum-norm solution that `lsmr` returns) has the smallest `⟨u,u⟩` -/
theorem minnorm_minimises_variance (Q : List (List K)) (v u : List K) (hQ : Rect Q)
    (hv : unbiasedVec Q = some v) (hu : matTVec Q u = ones (ncols Q)) (hul : u.length = Q.length) :
    dot v v ≤ dot u u := by
  obtain ⟨hv1, z, rfl⟩ := unbiasedVec_spec Q v hv
  have ho := range_orth Q hQ z u (matVec Q z) hu hv1
  rw [dot_eq_sum_of_length _ _ Q.length (matVec_length Q z), dot_eq_sum_of_length _ _ Q.length hul]
  have e : ∀ i ∈ range Q.length, u.getD i 0 * u.getD i 0
      = (matVec Q z).getD i 0 * (matVec Q z).getD i 0
        + ((u.getD i 0 - (matVec Q z).getD i 0) * (u.getD i 0 - (matVec Q z).getD i 0)
        + 2 * ((matVec Q z).getD i 0 * (u.getD i 0 - (matVec Q z).getD i 0))) := by
    intro i _; ring
  rw [Finset.sum_congr rfl e, Finset.sum_add_distrib, Finset.sum_add_distrib, ← Finset.mul_sum, ho]
  have : 0 ≤ ∑ i ∈ range Q.length,
      (u.getD i 0 - (matVec Q z).getD i 0) * (u.getD i 0 - (matVec Q z).getD i 0) :=
    Finset.sum_nonneg (fun i _ => mul_self_nonneg _)
  linarith

set_option linter.unusedVariables false in
/-- **completeness of the qualification test**: a measurement qualifies iff the ones vector is in
the row space of its query matrix -/
theorem qualifies_iff_rowspace (Q : List (List K)) (hQ : Rect Q) (hne : Q ≠ []) :
    (unbiasedVec Q).isSome ↔ ∃ u : List K, u.length = Q.length ∧ matTVec Q u = ones (ncols Q) := by
  constructor
  · intro h
    obtain ⟨v, hv⟩ := Option.isSome_iff_exists.mp h
    obtain ⟨hv1, z, rfl⟩ := unbiasedVec_spec Q v hv
    exact ⟨matVec Q z, matVec_length Q z, hv1⟩
  · rintro ⟨u, _, hu⟩
    exact unbiasedVec_isSome_of_rowspace Q hQ u hu

theorem foldl_add_eq_sum' (l : List K) : List.foldl (fun x1 x2 => x1 + x2) 0 l = l.sum :=
  foldl_add_eq_sum l

theorem combine_eq (ev : List (K × K)) :
    combine ev = 1 / (ev.map (fun p => 1 / p.2)).sum * (ev.map (fun p => p.1 / p.2)).sum := by
  unfold combine
  simp only [foldl_add_eq_sum']

theorem invW_pos (ev : List (K × K)) (hne : ev ≠ []) (hpos : ∀ p ∈ ev, 0 < p.2) :
    0 < (ev.map (fun p => 1 / p.2)).sum := by
  apply List.sum_pos
  · intro x hx
    obtain ⟨p, hp, rfl⟩ := List.mem_map.mp hx
    exact one_div_pos.mpr (hpos p hp)
  · simpa using hne

theorem weighted_sq_lower (c : K) (ev : List (K × K)) (hpos : ∀ p ∈ ev, 0 < p.2)
    (w : List K) (hwl : w.length = ev.length) :
    0 ≤ (List.zipWith (fun wi p => wi ^ 2 * p.2) w ev).sum - 2 * c * w.sum
        + c ^ 2 * (ev.map (fun p => 1 / p.2)).sum := by
  induction ev generalizing w with
  | nil => cases w <;> simp_all
  | cons p ev ih =>
    cases w with
    | nil => simp at hwl
    | cons a w =>
      have h1 := ih (fun q hq => hpos q (List.mem_cons_of_mem _ hq)) w (by simpa using hwl)
      have hp : 0 < p.2 := hpos p List.mem_cons_self
      have h2 : 0 ≤ p.2 * (a - c / p.2) ^ 2 := mul_nonneg hp.le (sq_nonneg _)
      have h3 : p.2 * (a - c / p.2) ^ 2 = a ^ 2 * p.2 - 2 * c * a + c ^ 2 * (1 / p.2) := by
        field_simp
        ring
      simp only [List.zipWith_cons_cons, List.sum_cons, List.map_cons]
      nlinarith [h1, h2, h3]

/-- **inverse-variance weighting is the best linear combination**: `combine` is the weighted mean
with weights `(1/varᵢ)/Σ(1/varⱼ)`, which sum to one, and no other weights summing to one give a
smaller variance `Σ wᵢ² varᵢ` -/
theorem invvar_is_blue (ev : List (K × K)) (hne : ev ≠ []) (hpos : ∀ p ∈ ev, 0 < p.2)
    (w : List K) (hwl : w.length = ev.length) (hw : w.sum = 1) :
    let W := (ev.map (fun p => 1 / p.2)).sum
    combine ev = (ev.map (fun p => (1 / p.2 / W) * p.1)).sum ∧
    (ev.map (fun p => 1 / p.2 / W)).sum = 1 ∧
    (ev.map (fun p => (1 / p.2 / W) ^ 2 * p.2)).sum = 1 / W ∧
    1 / W ≤ (List.zipWith (fun wi p => wi ^ 2 * p.2) w ev).sum := by
  intro W
  have hW : 0 < W := invW_pos ev hne hpos
  have hW0 : W ≠ 0 := hW.ne'
  refine ⟨?_, ?_, ?_, ?_⟩
  · rw [combine_eq]
    have : (fun p : K × K => 1 / p.2 / W * p.1) = fun p => 1 / W * (p.1 / p.2) := by
      funext p; ring
    rw [this, List.sum_map_mul_left]
  · have : (fun p : K × K => 1 / p.2 / W) = fun p => 1 / W * (1 / p.2) := by
      funext p; ring
    rw [this, List.sum_map_mul_left]
    show 1 / W * W = 1
    field_simp
  · have : ev.map (fun p : K × K => (1 / p.2 / W) ^ 2 * p.2)
        = ev.map (fun p => 1 / W ^ 2 * (1 / p.2)) := by
      apply List.map_congr_left
      intro p hp
      have := (hpos p hp).ne'
      field_simp
    rw [this, List.sum_map_mul_left]
    show 1 / W ^ 2 * W = 1 / W
    field_simp
  · have h := weighted_sq_lower (1 / W) ev hpos w hwl
    rw [hw] at h
    have e : (1 / W) ^ 2 * W = 1 / W := by field_simp
    change 0 ≤ _ - 2 * (1 / W) * 1 + (1 / W) ^ 2 * W at h
    rw [e] at h
    linarith

/-- a vector with `Qᵀ v = 1` and at least one column has positive squared norm -/
theorem dot_self_pos (Q : List (List K)) (v : List K) (hv : matTVec Q v = ones (ncols Q))
    (hvl : v.length = Q.length) (hnz : ncols Q ≠ 0) : 0 < dot v v := by
  rw [dot_eq_sum_of_length v v Q.length hvl]
  have hnn : ∀ i ∈ range Q.length, 0 ≤ v.getD i 0 * v.getD i 0 := fun i _ => mul_self_nonneg _
  rcases (Finset.sum_nonneg hnn).lt_or_eq with h | h
  · exact h
  · exfalso
    have hz := (Finset.sum_eq_zero_iff_of_nonneg hnn).mp h.symm
    have h1 := (matTVec_eq_ones_iff Q v).mp hv 0 (Nat.pos_of_ne_zero hnz)
    have : ∑ i ∈ range Q.length, ent Q i 0 * v.getD i 0 = 0 := by
      apply Finset.sum_eq_zero
      intro i hi
      rw [mul_self_eq_zero.mp (hz i hi), mul_zero]
    rw [this] at h1
    exact zero_ne_one h1

theorem combine_const (ev : List (K × K)) (N : K) (hne : ev ≠ [])
    (h : ∀ p ∈ ev, p.1 = N ∧ 0 < p.2) : combine ev = N := by
  have hW := invW_pos ev hne (fun p hp => (h p hp).2)
  rw [combine_eq]
  have : ev.map (fun p : K × K => p.1 / p.2) = ev.map (fun p => N * (1 / p.2)) := by
    apply List.map_congr_left
    intro p hp
    rw [(h p hp).1]; ring
  rw [this, List.sum_map_mul_left]
  field_simp

/-- **noise-free measurements recover N exactly**: if every measurement is `y = Q x` of a data
vector with `Σ x = N ≥ 1`, noise scales are positive and at least one measurement qualifies, the
estimated total is `N` — for every query matrix with the ones vector in its row space, any size -/
theorem noise_free_total (meas : List (Meas K)) (N : K) (hN : 1 ≤ N)
    (hrect : ∀ m ∈ meas, Rect m.Q) (hnoise : ∀ m ∈ meas, 0 < m.noise)
    (hy : ∀ m ∈ meas, ∃ x : List K, x.length = ncols m.Q ∧ x.sum = N ∧ m.y = matVec m.Q x)
    (hq : ∃ m ∈ meas, (unbiasedVec m.Q).isSome)
    (hnz : ∀ m ∈ meas, ncols m.Q ≠ 0) :
    totalEstimate meas = N := by
  have hall : ∀ p ∈ estimates meas, p.1 = N ∧ 0 < p.2 := by
    intro p hp
    unfold estimates at hp
    obtain ⟨m, hm, hmp⟩ := List.mem_filterMap.mp hp
    obtain ⟨v, hv, rfl⟩ := Option.map_eq_some_iff.mp hmp
    obtain ⟨hv1, z, hz⟩ := unbiasedVec_spec m.Q v hv
    have hvl : v.length = m.Q.length := by rw [hz, matVec_length]
    obtain ⟨x, hxl, hxs, hyx⟩ := hy m hm
    constructor
    · show dot v m.y = N
      rw [hyx, unbiased m.Q v x (hrect m hm) hv1 hvl hxl, hxs]
    · show 0 < m.noise * m.noise * dot v v
      have := hnoise m hm
      exact mul_pos (mul_pos this this) (dot_self_pos m.Q v hv1 hvl (hnz m hm))
  have hne : estimates meas ≠ [] := by
    obtain ⟨m, hm, hs⟩ := hq
    obtain ⟨v, hv⟩ := Option.isSome_iff_exists.mp hs
    intro h
    have : (dot v m.y, m.noise * m.noise * dot v v) ∈ estimates meas := by
      unfold estimates
      exact List.mem_filterMap.mpr ⟨m, hm, by rw [hv]; rfl⟩
    rw [h] at this
    exact List.not_mem_nil this
  have hc := combine_const (estimates meas) N hne hall
  unfold totalEstimate
  simp only [hc]
  rw [if_neg (by simpa using hne), if_neg (not_lt.mpr hN)]

end PGM.Total
