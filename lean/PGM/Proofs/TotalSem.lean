import PGM.Model.Total
import Mathlib.Algebra.Order.Field.Basic
import Mathlib.Algebra.BigOperators.Group.List.Basic
/-!
# The estimated total is the best linear unbiased estimate (statements for C09)
`K` is any linearly ordered field; the model `PGM/Model/Total.lean` is instantiated at `K`.
-/
namespace PGM.Total
variable {K : Type} [Field K] [LinearOrder K] [IsStrictOrderedRing K]

def ones (n : Nat) : List K := List.replicate n 1
/-- all rows have the same length -/
def Rect (Q : List (List K)) : Prop := ∀ r ∈ Q, r.length = ncols Q

/-- a supplied total is used exactly -/
theorem total_given_used (t : K) (meas : List (Meas K)) : totalOf (some t) meas = t := by
  sorry

/-- whatever is estimated is at least 1 … -/
theorem total_ge_one (meas : List (Meas K)) : 1 ≤ totalEstimate meas := by
  sorry

/-- … and exactly 1 when no measurement's queries can express the overall count -/
theorem total_no_qualifying (meas : List (Meas K)) (h : ∀ m ∈ meas, unbiasedVec m.Q = none) :
    totalEstimate meas = 1 := by
  sorry

/-- the vector a qualifying measurement is used with is certified: `Qᵀ v = 1` and `v ∈ range Q` -/
theorem unbiasedVec_spec (Q : List (List K)) (v : List K) (h : unbiasedVec Q = some v) :
    matTVec Q v = ones (ncols Q) ∧ ∃ z, v = matVec Q z := by
  sorry

/-- **unbiasedness**: if `Qᵀ v = 1` then `⟨v, Q x⟩ = Σ x` for every data vector `x` -/
theorem unbiased (Q : List (List K)) (v x : List K) (hQ : Rect Q) (hv : matTVec Q v = ones (ncols Q))
    (hvl : v.length = Q.length) (hx : x.length = ncols Q) :
    dot v (matVec Q x) = x.sum := by
  sorry

/-- **minimum variance within a measurement**: among all `u` with `Qᵀ u = 1`, the vector in the
range of `Q` (the minimum-norm solution that `lsmr` returns) has the smallest `⟨u,u⟩` -/
theorem minnorm_minimises_variance (Q : List (List K)) (v u : List K) (hQ : Rect Q)
    (hv : unbiasedVec Q = some v) (hu : matTVec Q u = ones (ncols Q)) (hul : u.length = Q.length) :
    dot v v ≤ dot u u := by
  sorry

/-- **completeness of the qualification test**: a measurement qualifies iff the ones vector is in
the row space of its query matrix -/
theorem qualifies_iff_rowspace (Q : List (List K)) (hQ : Rect Q) (hne : Q ≠ []) :
    (unbiasedVec Q).isSome ↔ ∃ u : List K, u.length = Q.length ∧ matTVec Q u = ones (ncols Q) := by
  sorry

/-- **inverse-variance weighting is the best linear combination**: `combine` is the weighted mean
with weights `(1/varᵢ)/Σ(1/varⱼ)`, which sum to one, and no other weights summing to one give a
smaller variance `Σ wᵢ² varᵢ` -/
theorem invvar_is_blue (ev : List (K × K)) (hne : ev ≠ []) (hpos : ∀ p ∈ ev, 0 < p.2)
    (w : List K) (hwl : w.length = ev.length) (hw : w.sum = 1) :
    let W := (ev.map (fun p => 1 / p.2)).sum
    combine ev = (ev.map (fun p => (1 / p.2 / W) * p.1)).sum ∧
    (ev.map (fun p => 1 / p.2 / W)).sum = 1 ∧
    (ev.map (fun p => (1 / p.2 / W) ^ 2 * p.2)).sum = 1 / W ∧
    1 / W ≤ (List.zipWith (fun wi p => wi ^ 2 * p.2) w ev).sum := by
  sorry

/-- **noise-free measurements recover N exactly**: if every measurement is `y = Q x` of a data
vector with `Σ x = N ≥ 1`, noise scales are positive and at least one measurement qualifies, the
estimated total is `N` — for every query matrix with the ones vector in its row space, any size -/
theorem noise_free_total (meas : List (Meas K)) (N : K) (hN : 1 ≤ N)
    (hrect : ∀ m ∈ meas, Rect m.Q) (hnoise : ∀ m ∈ meas, 0 < m.noise)
    (hy : ∀ m ∈ meas, ∃ x : List K, x.length = ncols m.Q ∧ x.sum = N ∧ m.y = matVec m.Q x)
    (hq : ∃ m ∈ meas, (unbiasedVec m.Q).isSome)
    (hnz : ∀ m ∈ meas, ncols m.Q ≠ 0) :
    totalEstimate meas = N := by
  sorry

end PGM.Total
