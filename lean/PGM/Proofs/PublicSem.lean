import PGM.Model.Public
import PGM.Proofs.RealScalar
import PGM.Proofs.CertSem
import PGM.Proofs.PublicAux
/-! statements for C19 (public-data reweighting), real-number reading -/
namespace PGM.Public

/-- the objective hands back one gradient entry per weight -/
def GradLen (lossgrad : List ℝ → ℝ × List ℝ) : Prop := ∀ w, (lossgrad w).2.length = w.length

/-- the same, asked only at weight vectors of the length in use (`n` = number of records): what the closure
`loss_and_grad` of `PublicInference.estimate` satisfies -/
def GradLenAt (n : Nat) (lossgrad : List ℝ → ℝ × List ℝ) : Prop := ∀ w, w.length = n → (lossgrad w).2.length = n

theorem GradLen.at {lossgrad : List ℝ → ℝ × List ℝ} (hg : GradLen lossgrad) (n : Nat) : GradLenAt n lossgrad :=
  fun w hw => by rw [hg w, hw]

/-- **valid weights**: for every objective, every positive starting weights, every total > 0 and
every iteration count (0 included), the output has one weight per record, each strictly positive,
and they sum to the total (`eps0 = 0`: the `nextafter(0,1)` guard only matters for zero weights) -/
theorem emd_weights_valid_at (lossgrad : List ℝ → ℝ × List ℝ) (x0 : List ℝ) (total : ℝ) (iters : Nat)
    (hg : GradLenAt x0.length lossgrad) (hx : ∀ x ∈ x0, 0 < x) (hne : x0 ≠ []) (ht : 0 < total) :
    (emd lossgrad x0 total 0 iters).length = x0.length ∧
    (∀ w ∈ emd lossgrad x0 total 0 iters, 0 < w) ∧
    (emd lossgrad x0 total 0 iters).sum = total := by
  have hn : 0 < x0.length := List.length_pos_iff.mpr hne
  have hS : 0 < x0.sum := sum_pos_of_pos x0 hx hne
  unfold emd
  simp only [vsum, r_sum, r_add, r_sub, r_log, r_mul, r_div, r_one, r_exp_fun]
  have hinit : Inv x0.length total
      ⟨x0.map (fun x => Real.log (x + 0) + Real.log total - Real.log x0.sum),
        (lossgrad (x0.map (fun x => x * total / x0.sum))).1,
        (lossgrad (x0.map (fun x => x * total / x0.sum))).2, 1, false⟩ := by
    refine ⟨by simp, hg _ (by simp), ?_⟩
    show ((x0.map (fun x => Real.log (x + 0) + Real.log total - Real.log x0.sum)).map Real.exp).sum = total
    rw [init_map_exp x0 total hx hne ht, sum_map_scale]
    field_simp
  have hfin := foldl_inv (Inv x0.length total)
    (fun s (_ : Nat) => emdStep lossgrad total (x0.map (fun x => x * total / x0.sum)) s)
    (fun s _ hs => emdStep_inv lossgrad x0.length hg total ht _ hn s hs)
    (List.range iters) _ hinit
  obtain ⟨h1, _, h3⟩ := hfin
  refine ⟨by rw [List.length_map]; exact h1, ?_, h3⟩
  intro w hw
  rw [List.mem_map] at hw
  obtain ⟨v, _, rfl⟩ := hw
  exact Real.exp_pos v

theorem emd_weights_valid (lossgrad : List ℝ → ℝ × List ℝ) (x0 : List ℝ) (total : ℝ) (iters : Nat)
    (hg : GradLen lossgrad) (hx : ∀ x ∈ x0, 0 < x) (hne : x0 ≠ []) (ht : 0 < total) :
    (emd lossgrad x0 total 0 iters).length = x0.length ∧
    (∀ w ∈ emd lossgrad x0 total 0 iters, 0 < w) ∧
    (emd lossgrad x0 total 0 iters).sum = total :=
  emd_weights_valid_at lossgrad x0 total iters (hg.at _) hx hne ht

/-- with zero iterations the weights are the rescaled starting weights -/
theorem emd_zero_iters (lossgrad : List ℝ → ℝ × List ℝ) (x0 : List ℝ) (total : ℝ)
    (hx : ∀ x ∈ x0, 0 < x) (hne : x0 ≠ []) (ht : 0 < total) :
    emd lossgrad x0 total 0 0 = x0.map (fun x => x * total / x0.sum) := by
  unfold emd
  simp only [vsum, r_sum, r_add, r_sub, r_log, r_mul, r_div, r_one, r_exp_fun, List.range_zero,
    List.foldl_nil]
  exact init_map_exp x0 total hx hne ht

/-- **conditional descent (as written)**: one iteration never increases the stored loss when the
acceptance threshold `½·α·⟨dL, P₀ − Q⟩` (centred gradient, *stale* `P₀`) is nonnegative; when it is
negative an increase can be accepted (`emd_step_may_increase`) — the unconditional "never worse than
the start" (`emd_never_worse_than_start`) needs the Lyapunov argument, not per-step descent -/
theorem emd_step_descent (lossgrad : List ℝ → ℝ × List ℝ) (total : ℝ) (P0 : List ℝ) (s : EmdState ℝ) :
    let dL := center s.dL
    let logQ0 := List.zipWith (fun lp d => lp - s.alpha * d) s.logP dL
    let shift := Real.log total - Real.log ((logQ0.map Real.exp).sum)
    let Q := (logQ0.map (fun v => v + shift)).map Real.exp
    0 ≤ (1 / 2 : ℝ) * s.alpha * dotv dL (List.zipWith (· - ·) P0 Q) →
    (emdStep lossgrad total P0 s).loss ≤ s.loss := by
  intro dL logQ0' shift Q hthr
  rcases emdStep_cases lossgrad total P0 s with ⟨_, e2, _, _, e4⟩ | ⟨_, e2, _⟩
  · rw [e2]
    have hQ : (1 / 2 : ℝ) * s.alpha * dotv dL (List.zipWith (· - ·) P0 Q) = thr total P0 s := rfl
    rw [hQ] at hthr
    linarith
  · rw [e2]

/-- the invariant of the loop on the stored loss and gradient: the stored loss is the objective at
the stored point, and the stored gradient is the gradient there up to centring (after a rejected
step the state holds the centred gradient; `center` is idempotent) -/
def Consistent (lossgrad : List ℝ → ℝ × List ℝ) (s : EmdState ℝ) : Prop :=
  s.loss = (lossgrad (s.logP.map Real.exp)).1 ∧
  center s.dL = center (lossgrad (s.logP.map Real.exp)).2

/-- the stored loss is always the objective at the stored point (and the stored gradient its
gradient, up to centring) -/
theorem emd_step_loss_consistent (lossgrad : List ℝ → ℝ × List ℝ) (total : ℝ) (P0 : List ℝ) (s : EmdState ℝ)
    (h : s.loss = (lossgrad (s.logP.map Real.exp)).1 ∧
      center s.dL = center (lossgrad (s.logP.map Real.exp)).2) :
    (emdStep lossgrad total P0 s).loss = (lossgrad ((emdStep lossgrad total P0 s).logP.map Real.exp)).1 ∧
    center (emdStep lossgrad total P0 s).dL
      = center (lossgrad ((emdStep lossgrad total P0 s).logP.map Real.exp)).2 := by
  rcases emdStep_cases lossgrad total P0 s with ⟨e1, e2, e3, _⟩ | ⟨e1, e2, e3, _⟩
  · rw [e1, e2, e3]; exact ⟨rfl, rfl⟩
  · rw [e1, e2, e3, center_idem]; exact h

/-- the step size stays positive (it starts at 1 and is only doubled or halved) -/
theorem emd_step_alpha_pos (lossgrad : List ℝ → ℝ × List ℝ) (total : ℝ) (P0 : List ℝ) (s : EmdState ℝ)
    (h : 0 < s.alpha) : 0 < (emdStep lossgrad total P0 s).alpha := by
  rcases emdStep_cases lossgrad total P0 s with ⟨_, _, _, e4, _⟩ | ⟨_, _, _, e4⟩
  · rw [e4]; split <;> linarith
  · rw [e4]; linarith

end PGM.Public
