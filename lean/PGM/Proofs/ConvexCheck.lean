import PGM.Model.RGCheck
import PGM.Proofs.ConvexSem
/-!
# The certificate for any exported graph that passes the run-time check

`RG.graphCheck dom g` (`PGM/Model/RGCheck.lean`, executable) decides exactly the graph-level
hypotheses of the primal–dual certificate (`graphCheck_iff`).  Hence, for *any* graph record `g` —
in particular the one exported by the implementation, whatever the iteration order of its Python
`set` of regions — that passes the check:

* `checked_shape`             `Shape` and `MsgsDown` hold for the initial messages;
* `hps_certificate_warm`      the certificate for `RG.hps` started from any messages satisfying
                              `Shape ∧ MsgsDown`, and the returned messages satisfy them again
                              (so a sequence of calls with persisted messages is covered);
* `hps_certificate_checked`   the certificate for `RG.hps` started from `initMessages`;
* `build_passes_check`        every graph of `RG.build` passes the check (completeness).
-/
namespace PGM.Convex
open PGM PGM.JT PGM.RG PGM.Sem
set_option linter.unusedSectionVars false
set_option linter.unusedVariables false

/-! ## the Boolean tests, read as propositions -/

theorem nodupB_iff {β : Type} [BEq β] [LawfulBEq β] (l : List β) : nodupB l = true ↔ l.Nodup := by
  induction l with
  | nil => simp [nodupB]
  | cons x xs ih =>
    simp only [nodupB, Bool.and_eq_true, ih, List.nodup_cons, Bool.not_eq_eq_eq_not, Bool.not_true]
    constructor
    · rintro ⟨h1, h2⟩
      refine ⟨fun hm => ?_, h2⟩
      rw [List.contains_iff_mem.mpr hm] at h1
      exact absurd h1 (by simp)
    · rintro ⟨h1, h2⟩
      refine ⟨?_, h2⟩
      rw [Bool.eq_false_iff]
      exact fun hc => h1 (List.contains_iff_mem.mp hc)

theorem not_contains_iff {β : Type} [BEq β] [LawfulBEq β] (l : List β) (x : β) :
    (!l.contains x) = true ↔ x ∉ l := by
  rw [Bool.not_eq_eq_eq_not, Bool.not_true]
  constructor
  · intro h hm
    rw [List.contains_iff_mem.mpr hm] at h
    exact absurd h (by simp)
  · intro h
    rw [Bool.eq_false_iff]
    exact fun hc => h (List.contains_iff_mem.mp hc)

theorem chkDom_iff (dom : Dom) : chkDom dom = true ↔ dom.WF ∧ ∀ p ∈ dom, 0 < p.2 := by
  unfold chkDom Dom.WF
  simp only [Bool.and_eq_true, nodupB_iff, List.all_eq_true, decide_eq_true_eq]

theorem chkRegions_iff (dom : Dom) (g : RG.Graph) :
    chkRegions dom g = true ↔ g.regions.Nodup ∧ ∀ r ∈ g.regions, RegOK dom r := by
  unfold chkRegions RegOK
  simp only [Bool.and_eq_true, nodupB_iff, List.all_eq_true, List.contains_iff_mem]

theorem chkChildrenSub_iff (g : RG.Graph) :
    chkChildrenSub g = true ↔
      ∀ r ∈ g.regions, ∀ c ∈ look g.children r, c ∈ g.regions ∧ ∀ a ∈ c, a ∈ r := by
  unfold chkChildrenSub
  simp only [Bool.and_eq_true, List.all_eq_true, List.contains_iff_mem]

theorem chkParentsFwd_iff (g : RG.Graph) :
    chkParentsFwd g = true ↔
      ∀ r ∈ g.regions, ∀ p ∈ look g.parents r, p ∈ g.regions ∧ r ∈ look g.children p := by
  unfold chkParentsFwd
  simp only [Bool.and_eq_true, List.all_eq_true, List.contains_iff_mem]

theorem chkParentsBwd_iff (g : RG.Graph) :
    chkParentsBwd g = true ↔ ∀ p ∈ g.regions, ∀ r ∈ look g.children p, p ∈ look g.parents r := by
  unfold chkParentsBwd
  simp only [List.all_eq_true, List.contains_iff_mem]

theorem chkChildrenNodup_iff (g : RG.Graph) :
    chkChildrenNodup g = true ↔ ∀ r ∈ g.regions, (look g.children r).Nodup := by
  unfold chkChildrenNodup
  simp only [List.all_eq_true, nodupB_iff]

theorem chkParentsNodup_iff (g : RG.Graph) :
    chkParentsNodup g = true ↔ ∀ r ∈ g.regions, (look g.parents r).Nodup := by
  unfold chkParentsNodup
  simp only [List.all_eq_true, nodupB_iff]

theorem chkOrderSound_iff (g : RG.Graph) :
    chkOrderSound g = true ↔ ∀ e ∈ g.messageOrder, e.1 ∈ g.regions ∧ e.2 ∈ look g.children e.1 := by
  unfold chkOrderSound
  simp only [Bool.and_eq_true, List.all_eq_true, List.contains_iff_mem]

theorem chkOrderComplete_iff (g : RG.Graph) :
    chkOrderComplete g = true ↔ ∀ p ∈ g.regions, ∀ c ∈ look g.children p, (p, c) ∈ g.messageOrder := by
  unfold chkOrderComplete
  simp only [List.all_eq_true, List.contains_iff_mem]

theorem chkAntisymm_iff (g : RG.Graph) :
    chkAntisymm g = true ↔ ∀ p ∈ g.regions, ∀ c ∈ look g.children p, p ∉ look g.children c := by
  unfold chkAntisymm
  simp only [List.all_eq_true, not_contains_iff]

/-- **the check decides exactly the graph-level hypotheses** -/
theorem graphCheck_iff (dom : Dom) (g : RG.Graph) :
    graphCheck dom g = true ↔
      dom.WF ∧ (∀ p ∈ dom, 0 < p.2) ∧ g.regions.Nodup ∧ (∀ r ∈ g.regions, RegOK dom r) ∧ BuiltOK g := by
  unfold graphCheck
  simp only [Bool.and_eq_true, chkDom_iff, chkRegions_iff, chkChildrenSub_iff, chkParentsFwd_iff,
    chkParentsBwd_iff, chkChildrenNodup_iff, chkParentsNodup_iff, chkOrderSound_iff,
    chkOrderComplete_iff, chkAntisymm_iff]
  constructor
  · rintro ⟨⟨⟨⟨⟨⟨⟨⟨⟨⟨hd, hsz⟩, hnd, hreg⟩, hcs⟩, hfwd⟩, hbwd⟩, hcn⟩, hpn⟩, hos⟩, hoc⟩, hanti⟩
    refine ⟨hd, hsz, hnd, hreg, ⟨hcs, ?_, hcn, hpn, hos, hoc, hanti⟩⟩
    intro r hr p
    constructor
    · exact hfwd r hr p
    · rintro ⟨hp, hrc⟩
      exact hbwd p hp r hrc
  · rintro ⟨hd, hsz, hnd, hreg, hb⟩
    refine ⟨⟨⟨⟨⟨⟨⟨⟨⟨⟨hd, hsz⟩, hnd, hreg⟩, hb.children_sub⟩, ?_⟩, ?_⟩, hb.children_nodup⟩,
      hb.parents_nodup⟩, hb.order_sound⟩, hb.order_complete⟩, hb.antisymm⟩
    · intro r hr p hp
      exact (hb.parents_dual r hr p).mp hp
    · intro p hp r hrc
      exact (hb.parents_dual r (hb.children_sub p hp r hrc).1 p).mpr ⟨hp, hrc⟩

/-- **soundness of the run-time check** -/
theorem graphCheck_sound {dom : Dom} {g : RG.Graph} (h : graphCheck dom g = true) :
    dom.WF ∧ (∀ p ∈ dom, 0 < p.2) ∧ g.regions.Nodup ∧ (∀ r ∈ g.regions, RegOK dom r) ∧ BuiltOK g :=
  (graphCheck_iff dom g).mp h

/-- **completeness on built graphs**: every graph of `RG.build` passes the check -/
theorem build_passes_check (dom : Dom) (cliques : List Region) (convex minimal : Bool)
    (hd : dom.WF) (hsz : ∀ p ∈ dom, 0 < p.2) (hcl : ∀ c ∈ cliques, RegOK dom c) :
    graphCheck dom (RG.build cliques convex minimal) = true := by
  obtain ⟨hnd, hreg, hb⟩ := build_ok dom cliques convex minimal hcl
  exact (graphCheck_iff dom _).mpr ⟨hd, hsz, hnd, hreg, hb⟩

/-- the same for `RG.buildOn` on any duplicate-free list of well-formed regions (the
implementation's own iteration order) -/
theorem buildOn_passes_check (dom : Dom) (regions : List Region) (convex minimal : Bool)
    (hd : dom.WF) (hsz : ∀ p ∈ dom, 0 < p.2) (hnd : regions.Nodup) (hreg : ∀ r ∈ regions, RegOK dom r) :
    graphCheck dom (RG.buildOn regions convex minimal) = true :=
  (graphCheck_iff dom _).mpr ⟨hd, hsz, hnd, hreg, buildOn_ok regions convex minimal hnd⟩

/-- non-vacuity: the two-region example passes the check -/
example : graphCheck domAB gAB = true := by decide

/-! ## `Shape` from the check -/

/-- **`Shape` and `MsgsDown` hold for the initial messages of any graph that passes the check** -/
theorem checked_shape (dom : Dom) (g : RG.Graph) (pot : Region → Factor ℝ)
    (hchk : graphCheck dom g = true)
    (hpot : ∀ r ∈ g.regions, (pot r).WF ∧ (pot r).dom = dom.project r) :
    Shape dom g pot (initMessages dom g.messageOrder) ∧
      MsgsDown dom g (initMessages dom g.messageOrder) := by
  obtain ⟨hd, hsz, hnd, hreg, hb⟩ := graphCheck_sound hchk
  have hg : GraphOK dom g pot := ⟨hd, hreg, hpot, hb.children_sub, hb.parents_dual⟩
  obtain ⟨hup, hdown⟩ := initMessages_shape hg hb.order_sound hb.order_complete hb.antisymm
  exact ⟨⟨⟨hd, hsz, hnd, hreg, hpot, hb.children_sub, hb.parents_dual, hb.children_nodup, hup⟩,
    hb.parents_nodup⟩, hdown⟩

/-- `potOf` is laid out on the regions when the potentials of the regions that are model cliques
are (the other regions get zero tables) -/
theorem potOf_ok_cliques (dom : Dom) (g : RG.Graph) (potentials : CliqueVec ℝ)
    (hreg : ∀ r ∈ g.regions, RegOK dom r)
    (hp : ∀ r ∈ g.regions, g.cliques.contains r = true →
      (potentials.get r).WF ∧ (potentials.get r).dom = dom.project r) :
    ∀ r ∈ g.regions, (potOf dom g potentials r).WF ∧ (potOf dom g potentials r).dom = dom.project r := by
  intro r hr
  unfold potOf
  split
  · rename_i hc; exact hp r hr hc
  · exact zeros_on (hreg r hr)

/-! ## the certificate -/

/-- **warm start**: for any graph, any potentials and any persisted messages satisfying
`Shape ∧ MsgsDown`, the output of `hazan_peng_shashua` (any `iters > 0`) satisfies
(1) beliefs `= b(λ_out)` table by table, (2) `Shape` and (3) `MsgsDown` for `λ_out` (so the theorem
chains over successive calls), (4) `F(q) ≤ D(λ_out)` for every locally consistent `q`,
(5) zero gap if `b(λ_out)` is locally consistent -/
theorem hps_certificate_warm (dom : Dom) (g : RG.Graph) (potentials : CliqueVec ℝ)
    (T rho conv : ℝ) (iters : Nat) (msgs : Msgs ℝ) (hT : 0 < T) (hit : 0 < iters)
    (hs : Shape dom g (potOf dom g potentials) msgs) (hd : MsgsDown dom g msgs) :
    let pot := potOf dom g potentials
    let out := RG.hps dom g (fun _ => 1) potentials T iters rho conv msgs
    out.1.map (fun p => (p.1, p.2.datavector))
        = (lagrangianBeliefs g pot T out.2.1).map (fun p => (p.1, p.2.datavector)) ∧
    Shape dom g pot out.2.1 ∧
    MsgsDown dom g out.2.1 ∧
    (∀ q, LocallyConsistent dom g T q → primalValue g pot T q ≤ dualValue g pot T out.2.1) ∧
    (LocallyConsistent dom g T (lagrangianBeliefs g pot T out.2.1) →
      primalValue g pot T (lagrangianBeliefs g pot T out.2.1) = dualValue g pot T out.2.1 ∧
      ∀ q, LocallyConsistent dom g T q →
        primalValue g pot T q ≤ primalValue g pot T (lagrangianBeliefs g pot T out.2.1)) := by
  intro pot out
  obtain ⟨k, h1, h2⟩ := hpsLoop_spec g pot (fun _ => 1) T rho conv iters hit 0 msgs []
  have hout1 : out.1 = (hpsSweep g pot (fun _ => 1) T rho
      (iterate (fun m => (hpsSweep g pot (fun _ => 1) T rho m).1) k msgs)).2 := h1
  have hout2 : out.2.1 = (hpsSweep g pot (fun _ => 1) T rho
      (iterate (fun m => (hpsSweep g pot (fun _ => 1) T rho m).1) k msgs)).1 := h2
  obtain ⟨hsk, hdk⟩ := shape_preserved_iterate hs hd (fun _ => 1) T rho k
  obtain ⟨hso, hdo⟩ := shape_preserved hsk hdk (fun _ => 1) T rho
  rw [← hout2] at hso hdo
  refine ⟨?_, hso, hdo, ?_, ?_⟩
  · rw [hout1, hout2]
    exact belief_lagrangian_form g pot T rho _ hs.regions_nodup
  · intro q hq
    exact weak_duality dom g pot T _ q hT hso hq
  · intro hb
    exact strong_at_consistency dom g pot T _ hT hso hb

/-- **the certificate for any exported graph that passes the run-time check**, cold start
(`initMessages`): the statement of `hps_certificate` with `graphCheck dom g = true` in place of
`g = RG.build …`; the potentials need to be laid out only on the regions that are model cliques -/
theorem hps_certificate_checked (dom : Dom) (g : RG.Graph) (potentials : CliqueVec ℝ)
    (T rho conv : ℝ) (iters : Nat) (hT : 0 < T) (hit : 0 < iters)
    (hchk : graphCheck dom g = true)
    (hp : ∀ r ∈ g.regions, g.cliques.contains r = true →
      (potentials.get r).WF ∧ (potentials.get r).dom = dom.project r) :
    let pot := potOf dom g potentials
    let out := RG.hps dom g (fun _ => 1) potentials T iters rho conv (initMessages dom g.messageOrder)
    out.1.map (fun p => (p.1, p.2.datavector))
        = (lagrangianBeliefs g pot T out.2.1).map (fun p => (p.1, p.2.datavector)) ∧
    Shape dom g pot out.2.1 ∧
    MsgsDown dom g out.2.1 ∧
    (∀ q, LocallyConsistent dom g T q → primalValue g pot T q ≤ dualValue g pot T out.2.1) ∧
    (LocallyConsistent dom g T (lagrangianBeliefs g pot T out.2.1) →
      primalValue g pot T (lagrangianBeliefs g pot T out.2.1) = dualValue g pot T out.2.1 ∧
      ∀ q, LocallyConsistent dom g T q →
        primalValue g pot T q ≤ primalValue g pot T (lagrangianBeliefs g pot T out.2.1)) := by
  obtain ⟨_, _, _, hreg, _⟩ := graphCheck_sound hchk
  obtain ⟨hs0, hd0⟩ := checked_shape dom g (potOf dom g potentials) hchk
    (potOf_ok_cliques dom g potentials hreg hp)
  exact hps_certificate_warm dom g potentials T rho conv iters _ hT hit hs0 hd0

/-- warm start on a checked graph, with the hypotheses on the persisted messages spelled out: both
directions of every edge carry a well-formed table on the child region -/
theorem hps_certificate_checked_warm (dom : Dom) (g : RG.Graph) (potentials : CliqueVec ℝ)
    (T rho conv : ℝ) (iters : Nat) (msgs : Msgs ℝ) (hT : 0 < T) (hit : 0 < iters)
    (hchk : graphCheck dom g = true)
    (hp : ∀ r ∈ g.regions, g.cliques.contains r = true →
      (potentials.get r).WF ∧ (potentials.get r).dom = dom.project r)
    (hup : ∀ p ∈ g.regions, ∀ c ∈ look g.children p,
      (msgs.get (c, p)).WF ∧ (msgs.get (c, p)).dom = dom.project c)
    (hdown : ∀ p ∈ g.regions, ∀ c ∈ look g.children p,
      (msgs.get (p, c)).WF ∧ (msgs.get (p, c)).dom = dom.project c) :
    let pot := potOf dom g potentials
    let out := RG.hps dom g (fun _ => 1) potentials T iters rho conv msgs
    out.1.map (fun p => (p.1, p.2.datavector))
        = (lagrangianBeliefs g pot T out.2.1).map (fun p => (p.1, p.2.datavector)) ∧
    Shape dom g pot out.2.1 ∧
    MsgsDown dom g out.2.1 ∧
    (∀ q, LocallyConsistent dom g T q → primalValue g pot T q ≤ dualValue g pot T out.2.1) ∧
    (LocallyConsistent dom g T (lagrangianBeliefs g pot T out.2.1) →
      primalValue g pot T (lagrangianBeliefs g pot T out.2.1) = dualValue g pot T out.2.1 ∧
      ∀ q, LocallyConsistent dom g T q →
        primalValue g pot T q ≤ primalValue g pot T (lagrangianBeliefs g pot T out.2.1)) := by
  obtain ⟨hd, hsz, hnd, hreg, hb⟩ := graphCheck_sound hchk
  have hs : Shape dom g (potOf dom g potentials) msgs :=
    ⟨⟨hd, hsz, hnd, hreg, potOf_ok_cliques dom g potentials hreg hp, hb.children_sub,
      hb.parents_dual, hb.children_nodup, hup⟩, hb.parents_nodup⟩
  exact hps_certificate_warm dom g potentials T rho conv iters msgs hT hit hs ⟨hdown⟩

end PGM.Convex
