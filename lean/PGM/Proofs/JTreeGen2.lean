import PGM.Proofs.JTreeGen
import PGM.Proofs.JTExistsFam
import PGM.Proofs.JTSchedule
import Mathlib.Data.List.Sort
/-!
# Helper lemmas for `Properties/C12G.lean` (2): the tail of `_make_tree` (node list, weighted complete
graph, `minimum_spanning_tree` contract) and `mp_order`
-/
namespace PGM.JT

/-! ## node list: `sorted([domain.canonical(c) for c in nx.find_cliques(tri)])` -/

theorem mem_canonical {d : Dom} {c : Clique} (hc : ∀ a ∈ c, a ∈ d.attrs) (x : Attr) :
    x ∈ Dom.canonical d c ↔ x ∈ c := by
  simp only [Dom.canonical, List.mem_filter, List.contains_iff_mem]
  exact ⟨fun h => h.2, fun h => ⟨hc x h, h⟩⟩

theorem nodup_canonical {d : Dom} (hd : d.attrs.Nodup) (c : Clique) : (Dom.canonical d c).Nodup :=
  hd.filter _

theorem sortCliques_perm (l : List Clique) : (sortCliques l).Perm l := List.mergeSort_perm l _

/-- a family of maximal cliques stays one when every member is re-listed (same attributes, no
duplicates) and the members are permuted: the `find_cliques` contract is "up to order within and
between cliques" -/
theorem IsMaxCliqueFamily.map_perm {g : Graph} {nodes nodes' : List Clique}
    (hf : IsMaxCliqueFamily g nodes) (f : Clique → Clique)
    (hmem : ∀ n ∈ nodes, ∀ x, x ∈ f n ↔ x ∈ n) (hnd : ∀ n ∈ nodes, (f n).Nodup)
    (hp : nodes'.Perm (nodes.map f)) : IsMaxCliqueFamily g nodes' where
  clique n' hn' := by
    obtain ⟨n, hn, rfl⟩ := List.mem_map.1 (hp.mem_iff.1 hn')
    obtain ⟨⟨_, h2, h3⟩, hne⟩ := hf.clique n hn
    refine ⟨⟨hnd n hn, fun a ha => h2 a ((hmem n hn a).1 ha),
      fun a ha b hb hab => h3 a ((hmem n hn a).1 ha) b ((hmem n hn b).1 hb) hab⟩, ?_⟩
    obtain ⟨x, hx⟩ := List.exists_mem_of_ne_nil n hne
    exact List.ne_nil_of_mem ((hmem n hn x).2 hx)
  maximal n' hn' v hv hvn := by
    obtain ⟨n, hn, rfl⟩ := List.mem_map.1 (hp.mem_iff.1 hn')
    obtain ⟨a, ha, hadj⟩ := hf.maximal n hn v hv (fun h => hvn ((hmem n hn v).2 h))
    exact ⟨a, (hmem n hn a).2 ha, hadj⟩
  complete c hc := by
    obtain ⟨n, hn, hsub⟩ := hf.complete c hc
    exact ⟨f n, hp.mem_iff.2 (List.mem_map.2 ⟨n, hn, rfl⟩), fun a ha => (hmem n hn a).2 (hsub a ha)⟩
  distinct := by
    have hsym : ∀ {x y : Clique}, sameSet x y = false → sameSet y x = false := by
      intro x y h
      rw [sameSet_eq_false_iff] at h ⊢
      exact fun h' => h ⟨h'.2, h'.1⟩
    rw [hp.pairwise_iff hsym, List.pairwise_map]
    refine hf.distinct.imp_of_mem ?_
    intro a b ha hb hab
    rw [sameSet_eq_false_iff] at hab ⊢
    intro h'
    apply hab
    exact ⟨fun x hx => (hmem b hb x).1 (h'.1 x ((hmem a ha x).2 hx)),
      fun x hx => (hmem a ha x).1 (h'.2 x ((hmem b hb x).2 hx))⟩

/-- the node list of `_make_tree`, unfolded -/
theorem gen_make_tree_cliques (fc : Graph → List Clique) (d : Dom) (g : Graph) (order : List Attr) :
    JTG.make_tree_cliques fc d g order =
      sortCliques ((fc (JTG.triangulated fc d g order).1).map (Dom.canonical d)) := rfl

/-- if `find_cliques` returns a family of maximal cliques of the triangulated graph (whose nodes are
the domain's attributes), the node list of `_make_tree` is one too, and its members are
duplicate-free -/
theorem make_tree_cliques_family (fc : Graph → List Clique) (d : Dom) (g : Graph) (order : List Attr)
    (hd : d.attrs.Nodup) (hg : g.nodes = d.attrs)
    (hfc : IsMaxCliqueFamily (JTG.triangulated fc d g order).1 (fc (JTG.triangulated fc d g order).1)) :
    IsMaxCliqueFamily (triangulate g order) (JTG.make_tree_cliques fc d g order) ∧
      ∀ c ∈ JTG.make_tree_cliques fc d g order, c.Nodup := by
  have hgeq := gen_triangulated_geq fc d g order
  have hsub : ∀ n ∈ fc (JTG.triangulated fc d g order).1, ∀ a ∈ n, a ∈ d.attrs := by
    intro n hn a ha
    have := (hfc.clique n hn).1.2.1 a ha
    rw [hgeq.1] at this
    rw [← hg]
    simpa [triangulate, Graph.addEdges] using this
  constructor
  · refine (IsMaxCliqueFamily.congr hgeq hfc).map_perm (Dom.canonical d) ?_ ?_ ?_
    · intro n hn x; exact mem_canonical (hsub n hn) x
    · intro n _; exact nodup_canonical hd n
    · rw [gen_make_tree_cliques]; exact sortCliques_perm _
  · intro c hc
    rw [gen_make_tree_cliques] at hc
    obtain ⟨n, _, rfl⟩ := List.mem_map.1 ((sortCliques_perm _).mem_iff.1 hc)
    exact nodup_canonical hd n

/-! ## the weighted complete graph -/

/-- the complete graph over `nodes` with weight `−|c1 ∩ c2|` (hand model of the loop over
`itertools.combinations(cliques, 2)`) -/
def completeW (nodes : List Clique) : WGraph :=
  { nodes := nodes,
    edges := (combinations2 nodes).map (fun p => (p.1, p.2, -(Int.ofNat (inter p.1 p.2).length))) }

theorem complete_fold (ps : List (Clique × Clique)) : ∀ (W : WGraph),
    (∀ p ∈ ps, p.1 ∈ W.nodes ∧ p.2 ∈ W.nodes ∧ p.1.Nodup ∧ p.2.Nodup) →
    ps.foldl (fun complete p_ =>
        WGraph.addEdge complete p_.1 p_.2 (-(Int.ofNat (setInter (toSet p_.1) (toSet p_.2)).length))) W =
      { nodes := W.nodes,
        edges := W.edges ++ ps.map (fun p => (p.1, p.2, -(Int.ofNat (inter p.1 p.2).length))) } := by
  induction ps with
  | nil => intro W _; simp
  | cons p ps ih =>
    intro W h
    obtain ⟨h1, h2, h3, h4⟩ := h p (by simp)
    simp only [List.foldl_cons]
    have hstep : WGraph.addEdge W p.1 p.2 (-(Int.ofNat (setInter (toSet p.1) (toSet p.2)).length)) =
        { nodes := W.nodes, edges := W.edges ++ [(p.1, p.2, -(Int.ofNat (inter p.1 p.2).length))] } := by
      unfold WGraph.addEdge
      rw [setAdd_of_mem h1, setAdd_of_mem h2, toSet_of_nodup h3, toSet_of_nodup h4]
      rfl
    rw [hstep, ih]
    · simp
    · intro q hq
      exact h q (by simp [hq])

theorem gen_make_tree_complete (fc : Graph → List Clique) (d : Dom) (g : Graph) (order : List Attr)
    (hN : (JTG.make_tree_cliques fc d g order).Nodup)
    (hc : ∀ c ∈ JTG.make_tree_cliques fc d g order, c.Nodup) :
    JTG.make_tree_complete fc d g order = completeW (JTG.make_tree_cliques fc d g order) := by
  have h0 : WGraph.addNodes WGraph.empty (JTG.make_tree_cliques fc d g order) =
      { nodes := JTG.make_tree_cliques fc d g order, edges := [] } := by
    unfold WGraph.addNodes WGraph.empty
    simp only
    rw [show setUnion ([] : List Clique) (JTG.make_tree_cliques fc d g order) = toSet _ from rfl,
      toSet_of_nodup hN]
  have h := complete_fold (combinations2 (JTG.make_tree_cliques fc d g order))
    (WGraph.addNodes WGraph.empty (JTG.make_tree_cliques fc d g order)) (by
      intro p hp
      have := mem_combinations2 (show (p.1, p.2) ∈ _ from hp)
      rw [h0]
      exact ⟨this.1, this.2, hc _ this.1, hc _ this.2⟩)
  have h2 : JTG.make_tree_complete fc d g order =
      List.foldl (fun complete p_ =>
        WGraph.addEdge complete p_.1 p_.2 (-(Int.ofNat (setInter (toSet p_.1) (toSet p_.2)).length)))
        (WGraph.addNodes WGraph.empty (JTG.make_tree_cliques fc d g order))
        (combinations2 (JTG.make_tree_cliques fc d g order)) := rfl
  rw [h2, h, h0]
  simp [completeW]

theorem inter_length_comm {a b : Clique} (ha : a.Nodup) (hb : b.Nodup) :
    (inter a b).length = (inter b a).length := by
  apply List.Perm.length_eq
  unfold inter
  rw [List.perm_ext_iff_of_nodup (ha.filter _) (hb.filter _)]
  intro x
  simp only [List.mem_filter, List.contains_iff_mem]
  tauto

theorem completeW_entry (nodes : List Clique) (hc : ∀ c ∈ nodes, c.Nodup) (a b : Clique)
    (ha : a ∈ nodes) (hb : b ∈ nodes) (hab : a ≠ b) :
    ∃ e, (completeW nodes).entry a b = some e ∧ e.2.2 = -(Int.ofNat (inter a b).length) := by
  have hex : ((completeW nodes).entry a b).isSome = true := by
    unfold WGraph.entry
    rw [List.find?_isSome]
    rcases combinations2_complete ha hb hab with h | h
    · exact ⟨(a, b, -(Int.ofNat (inter a b).length)), by
        simp only [completeW, List.mem_reverse, List.mem_map]; exact ⟨(a, b), h, rfl⟩, by simp⟩
    · exact ⟨(b, a, -(Int.ofNat (inter b a).length)), by
        simp only [completeW, List.mem_reverse, List.mem_map]; exact ⟨(b, a), h, rfl⟩, by simp⟩
  obtain ⟨e, he⟩ := Option.isSome_iff_exists.1 hex
  refine ⟨e, he, ?_⟩
  unfold WGraph.entry at he
  have hp := List.find?_some he
  have hm := List.mem_of_find?_eq_some he
  simp only [completeW, List.mem_reverse, List.mem_map] at hm
  obtain ⟨p, _, rfl⟩ := hm
  simp only [Bool.or_eq_true, Bool.and_eq_true, beq_iff_eq] at hp
  rcases hp with ⟨h1, h2⟩ | ⟨h1, h2⟩
  · simp only [h1, h2]
  · simp only [h1, h2]
    rw [inter_length_comm (hc b hb) (hc a ha)]

theorem isTree_edges {t : Tree} (h : isTree t = true) :
    t.nodes.Nodup ∧ ∀ e ∈ t.edges, e.1 ∈ t.nodes ∧ e.2 ∈ t.nodes ∧ e.1 ≠ e.2 := by
  simp only [isTree, Bool.and_eq_true, List.all_eq_true, List.contains_iff_mem, bne_iff_ne, ne_eq,
    nodup_iff] at h
  exact ⟨h.1.1.1, fun e he => ⟨(h.1.2 e he).1.1, (h.1.2 e he).1.2, (h.1.2 e he).2⟩⟩

theorem sum_neg_cast {β : Type} (es : List β) (f : β → Int) (g : β → Nat)
    (h : ∀ e ∈ es, f e = -(Int.ofNat (g e))) : (es.map f).sum = -((es.map g).sum : Int) := by
  induction es with
  | nil => simp
  | cons e es ih =>
    simp only [List.map_cons, List.sum_cons]
    rw [h e (by simp), ih (fun x hx => h x (by simp [hx]))]
    simp only [Int.ofNat_eq_natCast]
    omega

/-- in the complete graph, the total weight of a spanning tree is minus its total separator size -/
theorem completeW_total (nodes : List Clique) (hc : ∀ c ∈ nodes, c.Nodup) (t : Tree)
    (hn : t.nodes = nodes) (ht : isTree t = true) :
    (completeW nodes).total t = -((weight t : Nat) : Int) ∧
      ∀ e ∈ t.edges, (completeW nodes).hasEdge e.1 e.2 = true := by
  have hE := (isTree_edges ht).2
  constructor
  · unfold WGraph.total weight
    apply sum_neg_cast
    intro e he
    obtain ⟨h1, h2, h3⟩ := hE e he
    obtain ⟨x, hx, hw⟩ := completeW_entry nodes hc e.1 e.2 (hn ▸ h1) (hn ▸ h2) h3
    simp only [WGraph.wt, hx, hw]
  · intro e he
    obtain ⟨h1, h2, h3⟩ := hE e he
    obtain ⟨x, hx, _⟩ := completeW_entry nodes hc e.1 e.2 (hn ▸ h1) (hn ▸ h2) h3
    simp [WGraph.hasEdge, hx]

/-- **the `minimum_spanning_tree` contract on the generated weights gives the hypothesis of
`junction_tree_construction_valid`**: a spanning tree of least total weight `Σ −|Cᵢ∩Cⱼ|` has the
largest total separator size -/
theorem mst_max_weight (nodes : List Clique) (hc : ∀ c ∈ nodes, c.Nodup) (t : Tree)
    (h : IsMST (completeW nodes) t) :
    t.nodes = nodes ∧ isTree t = true ∧
      ∀ t' : Tree, t'.nodes = t.nodes → isTree t' = true → weight t' ≤ weight t := by
  obtain ⟨hn, ht, _, hmin⟩ := h
  refine ⟨hn, ht, fun t' hn' ht' => ?_⟩
  have hn'' : t'.nodes = nodes := hn'.trans hn
  have h1 := completeW_total nodes hc t hn ht
  have h2 := completeW_total nodes hc t' hn'' ht'
  have := hmin t' hn'' ht' h2.2
  rw [h1.1, h2.1] at this
  omega

/-! ## `mp_order` -/

theorem gen_mp_order_messages (t : Tree) : JTG.mp_order_messages t = messages t := by
  unfold JTG.mp_order_messages messages
  simp

theorem fold_setAdd_mem {α β : Type} [BEq β] [LawfulBEq β] (xs : List α) (p : α → Bool) (f : α → β) :
    ∀ (init : List β) (e : β),
    e ∈ xs.foldl (fun acc x => if p x then setAdd acc (f x) else acc) init ↔
      e ∈ init ∨ ∃ x ∈ xs, p x = true ∧ f x = e := by
  induction xs with
  | nil => intro init e; simp
  | cons x xs ih =>
    intro init e
    simp only [List.foldl_cons, ih, List.mem_cons, exists_eq_or_imp]
    by_cases hp : p x = true
    · simp only [hp, if_true, mem_setAdd, true_and]
      constructor
      · rintro ((h | h) | h)
        · exact Or.inl h
        · exact Or.inr (Or.inl h.symm)
        · exact Or.inr (Or.inr h)
      · rintro (h | h | h)
        · exact Or.inl (Or.inl h)
        · exact Or.inl (Or.inr h.symm)
        · exact Or.inr h
    · simp [hp]

theorem fold2_setAdd_mem {α : Type} [BEq α] [LawfulBEq α] (ys : List α) (p : α → α → Bool) (xs : List α) :
    ∀ (init : List (α × α)) (e : α × α),
    e ∈ xs.foldl (fun acc m1 => ys.foldl (fun acc m2 => if p m1 m2 then setAdd acc (m1, m2) else acc) acc) init ↔
      e ∈ init ∨ ∃ m1 ∈ xs, ∃ m2 ∈ ys, p m1 m2 = true ∧ (m1, m2) = e := by
  induction xs with
  | nil => intro init e; simp
  | cons x xs ih =>
    intro init e
    simp only [List.foldl_cons, ih, List.mem_cons, exists_eq_or_imp]
    rw [fold_setAdd_mem ys (fun m2 => p x m2) (fun m2 => (x, m2))]
    simp only [or_assoc]

/-- **the set `edges` of `mp_order` is the arc set `depEdges` of the hand model** -/
theorem gen_mp_order_edges_mem (t : Tree) (e : Msg × Msg) :
    e ∈ JTG.mp_order_edges t ↔ e ∈ depEdges t := by
  have h := fold2_setAdd_mem (JTG.mp_order_messages t)
    (fun m1 m2 => (m1.2 == m2.1) && (m1.1 != m2.2)) (JTG.mp_order_messages t) [] e
  have h' : e ∈ JTG.mp_order_edges t ↔ _ := h
  rw [h', gen_mp_order_messages]
  obtain ⟨m1, m2⟩ := e
  rw [depEdges_spec]
  simp only [List.not_mem_nil, false_or, Bool.and_eq_true, beq_iff_eq, bne_iff_ne, ne_eq,
    Prod.mk.injEq]
  constructor
  · rintro ⟨a, ha, b, hb, ⟨h1, h2⟩, rfl, rfl⟩
    exact ⟨ha, hb, h1, h2⟩
  · rintro ⟨ha, hb, h1, h2⟩
    exact ⟨m1, ha, m2, hb, ⟨h1, h2⟩, rfl, rfl⟩

theorem fold_endpoints {α : Type} [BEq α] [LawfulBEq α] (es : List (α × α)) (ns : List α)
    (h : ∀ e ∈ es, e.1 ∈ ns ∧ e.2 ∈ ns) :
    es.foldl (fun ns e => setAdd (setAdd ns e.1) e.2) ns = ns := by
  induction es with
  | nil => rfl
  | cons e es ih =>
    simp only [List.foldl_cons]
    rw [setAdd_of_mem (h e (by simp)).1, setAdd_of_mem (h e (by simp)).2]
    exact ih (fun x hx => h x (by simp [hx]))

theorem gen_mp_order_G (t : Tree) :
    JTG.mp_order_G t = DiGraph.addEdges (DiGraph.addNodes DiGraph.empty (JTG.mp_order_messages t))
      (JTG.mp_order_edges t) := rfl

/-- the digraph handed to `topological_sort`: its nodes are `messages t`, its arcs `depEdges t` -/
theorem gen_mp_order_G_spec (t : Tree) (hnd : (messages t).Nodup) :
    (JTG.mp_order_G t).nodes = messages t ∧ ∀ e, e ∈ (JTG.mp_order_G t).arcs ↔ e ∈ depEdges t := by
  rw [gen_mp_order_G]
  have h0 : (DiGraph.addNodes DiGraph.empty (JTG.mp_order_messages t)).nodes = messages t := by
    unfold DiGraph.addNodes DiGraph.empty
    simp only
    rw [show setUnion ([] : List Msg) (JTG.mp_order_messages t) = toSet _ from rfl,
      gen_mp_order_messages, toSet_of_nodup hnd]
  constructor
  · unfold DiGraph.addEdges
    simp only
    rw [h0]
    apply fold_endpoints
    intro e he
    have := (gen_mp_order_edges_mem t e).1 he
    obtain ⟨m1, m2⟩ := e
    rw [depEdges_spec] at this
    exact ⟨this.1, this.2.1⟩
  · intro e
    unfold DiGraph.addEdges DiGraph.addNodes DiGraph.empty
    simp only
    rw [mem_setUnion, gen_mp_order_edges_mem]
    simp

theorem isTopoSort_congr (nodes : List Msg) (arcs arcs' : List (Msg × Msg)) (order : List Msg)
    (h : ∀ e, e ∈ arcs ↔ e ∈ arcs') : isTopoSort nodes arcs order = isTopoSort nodes arcs' order := by
  rw [Bool.eq_iff_iff, isTopoSort_iff, isTopoSort_iff]
  simp only [h]

end PGM.JT
