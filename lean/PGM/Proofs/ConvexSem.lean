import PGM.Model.RegionGraph
import PGM.Proofs.RealScalar
import PGM.Proofs.Factor
import Mathlib.Analysis.SpecialFunctions.Log.Basic
/-!
# The convex region-graph oracle: primal–dual certificate (statements for C17), real instance

`F(q) = Σ_r ⟨θ_r, q_r⟩ + Σ_r H(q_r)` (`RG.primalValue`), `D(λ) = total · Σ_r logsumexp(θ̃_r(λ))`
(`RG.dualValue`), beliefs `b_r(λ) = total · softmax(θ̃_r(λ))` (`RG.lagrangianBeliefs`).
-/
namespace PGM.Convex
open PGM PGM.JT PGM.RG

/-- the potentials and messages are laid out on the regions' domains -/
structure Shape (dom : Dom) (g : RG.Graph) (pot : Region → Factor ℝ) (msgs : Msgs ℝ) : Prop where
  dom_wf : dom.WF
  sizes : ∀ p ∈ dom, 0 < p.2
  regions_nodup : g.regions.Nodup
  region_ok : ∀ r ∈ g.regions, r.Nodup ∧ ∀ a ∈ r, a ∈ dom.attrs
  pot_ok : ∀ r ∈ g.regions, (pot r).WF ∧ (pot r).dom = dom.project r
  children_sub : ∀ r ∈ g.regions, ∀ c ∈ look g.children r, c ∈ g.regions ∧ ∀ a ∈ c, a ∈ r
  parents_dual : ∀ r ∈ g.regions, ∀ p, p ∈ look g.parents r ↔ (p ∈ g.regions ∧ r ∈ look g.children p)
  children_nodup : ∀ r ∈ g.regions, (look g.children r).Nodup
  msg_ok : ∀ p ∈ g.regions, ∀ c ∈ look g.children p,
    (msgs.get (c, p)).WF ∧ (msgs.get (c, p)).dom = dom.project c

/-- a family of tables that is feasible for the relaxed problem: one nonnegative table of mass
`T` per region, consistent along every region-graph edge -/
structure LocallyConsistent (dom : Dom) (g : RG.Graph) (T : ℝ) (q : CliqueVec ℝ) : Prop where
  keys : q.map Prod.fst = g.regions
  table_ok : ∀ r ∈ g.regions, (q.get r).WF ∧ (q.get r).dom = dom.project r
  nonneg : ∀ r ∈ g.regions, ∀ v ∈ (q.get r).datavector, 0 ≤ v
  mass : ∀ r ∈ g.regions, (q.get r).datavector.sum = T
  edges : ∀ p ∈ g.regions, ∀ c ∈ look g.children p,
    ((q.get p).projectSum c).datavector = (q.get c).datavector

/-- the returned beliefs depend on the messages only through the upward messages and are
`total · softmax(θ̃_r)`: the model's last step of every sweep *is* `lagrangianBeliefs` (unit counting numbers) -/
theorem belief_lagrangian_form (g : RG.Graph) (pot : Region → Factor ℝ) (T rho : ℝ) (msgs : Msgs ℝ) :
    (hpsSweep g pot (fun _ => 1) T rho msgs).2.map (fun p => (p.1, p.2.datavector))
      = (lagrangianBeliefs g pot T (hpsSweep g pot (fun _ => 1) T rho msgs).1).map (fun p => (p.1, p.2.datavector)) := by
  sorry

/-- **weak duality**: for every message vector and every locally consistent family `q`,
`F(q) ≤ D(λ)` — the multiplier terms telescope on consistent `q`, each region term is Gibbs'
inequality -/
theorem weak_duality (dom : Dom) (g : RG.Graph) (pot : Region → Factor ℝ) (T : ℝ) (msgs : Msgs ℝ)
    (q : CliqueVec ℝ) (hT : 0 < T) (hs : Shape dom g pot msgs) (hq : LocallyConsistent dom g T q) :
    primalValue g pot T q ≤ dualValue g pot T msgs := by
  sorry

/-- **strong duality at consistency**: if the beliefs `b(λ)` are themselves consistent along the
edges, they attain the dual value, hence maximise `F` over all locally consistent families -/
theorem strong_at_consistency (dom : Dom) (g : RG.Graph) (pot : Region → Factor ℝ) (T : ℝ) (msgs : Msgs ℝ)
    (hT : 0 < T) (hs : Shape dom g pot msgs)
    (hb : LocallyConsistent dom g T (lagrangianBeliefs g pot T msgs)) :
    primalValue g pot T (lagrangianBeliefs g pot T msgs) = dualValue g pot T msgs ∧
    ∀ q, LocallyConsistent dom g T q → primalValue g pot T q ≤ primalValue g pot T (lagrangianBeliefs g pot T msgs) := by
  sorry

/-- **gap certificate**: for any feasible family `b̃`, the optimum of the variational problem
exceeds `F(b̃)` by at most `D(λ) − F(b̃)` -/
theorem gap_bound (dom : Dom) (g : RG.Graph) (pot : Region → Factor ℝ) (T : ℝ) (msgs : Msgs ℝ)
    (b q : CliqueVec ℝ) (hT : 0 < T) (hs : Shape dom g pot msgs)
    (hb : LocallyConsistent dom g T b) (hq : LocallyConsistent dom g T q) :
    primalValue g pot T q - primalValue g pot T b ≤ dualValue g pot T msgs - primalValue g pot T b := by
  sorry

end PGM.Convex
