import PGM.Model.RegionGraph
import PGM.Proofs.RealScalar
import PGM.Proofs.Factor
import PGM.Proofs.ConvexFactor
import PGM.Proofs.ConvexSweep
import PGM.Proofs.ConvexBuild
import Mathlib.Analysis.SpecialFunctions.Log.Basic
import Mathlib.Algebra.BigOperators.Group.Finset.Basic
import Mathlib.Algebra.BigOperators.Group.Finset.Sigma
/-!
# The convex region-graph oracle: primal–dual certificate (C17), real instance

`F(q) = Σ_r ⟨θ_r, q_r⟩ + Σ_r H(q_r)` (`RG.primalValue`), `D(λ) = total · Σ_r logsumexp(θ̃_r(λ))`
(`RG.dualValue`), beliefs `b_r(λ) = total · softmax(θ̃_r(λ))` (`RG.lagrangianBeliefs`).

Main results (all over `realScalar`):

* `weak_duality`            `F(q) ≤ D(λ)` for every locally consistent `q` and every `λ`;
* `gap_bound`               the gap certificate;
* `strong_at_consistency`   if `b(λ)` is locally consistent then `F(b(λ)) = D(λ)` and `b(λ)` is optimal;
* `unique_at_zero_gap`      a locally consistent `q` with `F(q) = D(λ)` *is* `b(λ)` (strict Gibbs);
* `belief_lagrangian_form`  the beliefs returned by a sweep are `b(λ)` for the returned messages;
* `shape_preserved(_iterate)`, `initMessages_shape`  the hypotheses are an invariant of the sweeps
  and hold initially; `build_shape`: they hold for every graph of `RG.build` (proved in
  `ConvexBuild.lean` from assumptions on the *inputs* only);
* `hps_certificate`         all of the above for the output of `RG.hps` as run;
* `shape_ab`, `lc_ab`       non-vacuity.

Three statements were false as first written; each is corrected with the minimal extra hypothesis
and the counterexample is recorded:

* `weak_duality` (and its corollaries) need `parents_nodup`: `parents_dual` only speaks about
  *membership*, so a parent listed twice in `look g.parents r` subtracts its multiplier twice from
  `θ̃_r` while it is added only once to `θ̃_p`; the dual value can then be driven to `−∞`
  (`weak_duality_needs_parents_nodup`, stated for `Shape₀` = the original hypotheses).  `parentsOf`
  builds the lists from a duplicate-free edge list, so the hypothesis holds for every graph produced
  by `RG.build` (`build_ok`).
* `belief_lagrangian_form` needs `g.regions.Nodup`: the model's beliefs are a dictionary (one entry
  per key), `lagrangianBeliefs` is a `map` (`belief_lagrangian_form_needs_nodup`).
* `Shape` alone is not preserved by a sweep (`shape_not_preserved_without_down`): the upward update
  reads the downward messages, so their layout (`MsgsDown`) is part of the invariant.
-/
namespace PGM.Convex
open PGM PGM.JT PGM.RG PGM.Sem
set_option linter.unusedSectionVars false
set_option linter.unusedVariables false

/-- the hypotheses of the original statement: the potentials and messages are laid out on the
regions' domains.  NOT sufficient for weak duality: `weak_duality_needs_parents_nodup`. -/
structure Shape₀ (dom : Dom) (g : RG.Graph) (pot : Region → Factor ℝ) (msgs : Msgs ℝ) : Prop where
  dom_wf : dom.WF
  sizes : ∀ p ∈ dom, 0 < p.2
  regions_nodup : g.regions.Nodup
  region_ok : ∀ r ∈ g.regions, r.Nodup ∧ ∀ a ∈ r, a ∈ dom.attrs
  pot_ok : ∀ r ∈ g.regions, (pot r).WF ∧ (pot r).dom = dom.project r
  children_sub : ∀ r ∈ g.regions, ∀ c ∈ look g.children r, c ∈ g.regions ∧ ∀ a ∈ c, a ∈ r
  parents_dual : ∀ r ∈ g.regions, ∀ p, p ∈ look g.parents r ↔ (p ∈ g.regions ∧ r ∈ look g.children p)
  children_nodup : ∀ r ∈ g.regions, (look g.children r).Nodup
  msg_ok : ∀ p ∈ g.regions, ∀ c ∈ look g.children p,
    (msgs.get (c, p)).WF ∧ (msgs.get (c, p)).dom = dom.project c

/-- the potentials and messages are laid out on the regions' domains -/
structure Shape (dom : Dom) (g : RG.Graph) (pot : Region → Factor ℝ) (msgs : Msgs ℝ) : Prop
    extends Shape₀ dom g pot msgs where
  /-- ADDED (the statements are false without it, see `weak_duality_needs_parents_nodup`): no parent
  is listed twice.  Holds for `RG.build`: `parentsOf` filters a duplicate-free edge list. -/
  parents_nodup : ∀ r ∈ g.regions, (look g.parents r).Nodup

/-- a family of tables that is feasible for the relaxed problem: one nonnegative table of mass
`T` per region, consistent along every region-graph edge -/
structure LocallyConsistent (dom : Dom) (g : RG.Graph) (T : ℝ) (q : CliqueVec ℝ) : Prop where
  keys : q.map Prod.fst = g.regions
  table_ok : ∀ r ∈ g.regions, (q.get r).WF ∧ (q.get r).dom = dom.project r
  nonneg : ∀ r ∈ g.regions, ∀ v ∈ (q.get r).datavector, 0 ≤ v
  mass : ∀ r ∈ g.regions, (q.get r).datavector.sum = T
  edges : ∀ p ∈ g.regions, ∀ c ∈ look g.children p,
    ((q.get p).projectSum c).datavector = (q.get c).datavector

/-! ## readings of the model's objective functions -/

theorem primalValue_eq (g : RG.Graph) (pot : Region → Factor ℝ) (T : ℝ) (q : CliqueVec ℝ) :
    primalValue g pot T q = (g.regions.map (fun r => ((pot r).mul (q.get r)).sumAll)).sum
      + (g.regions.map (fun r => entropy T (q.get r))).sum := by
  unfold primalValue
  rw [rsum_eq, rsum_eq]
  rfl

theorem dualValue_eq (g : RG.Graph) (pot : Region → Factor ℝ) (T : ℝ) (msgs : Msgs ℝ) :
    dualValue g pot T msgs
      = T * (g.regions.map (fun r => (thetaTilde g pot msgs r).logsumexpAll)).sum := by
  unfold dualValue
  rw [rsum_eq]
  rfl

/-! ## consequences of `Shape` -/

section shape
variable {dom : Dom} {g : RG.Graph} {pot : Region → Factor ℝ} {msgs : Msgs ℝ}

theorem Shape₀.regOK (hs : Shape₀ dom g pot msgs) {r : Region} (hr : r ∈ g.regions) : RegOK dom r :=
  hs.region_ok r hr

theorem Shape₀.pot_on (hs : Shape₀ dom g pot msgs) {r : Region} (hr : r ∈ g.regions) : On dom r (pot r) :=
  hs.pot_ok r hr

/-- the upward message on the edge `(c, p)` is a table on `c` -/
theorem Shape₀.msg_on (hs : Shape₀ dom g pot msgs) {p c : Region} (hp : p ∈ g.regions)
    (hc : c ∈ look g.children p) : On dom c (msgs.get (c, p)) :=
  hs.msg_ok p hp c hc

theorem Shape₀.child_mem (hs : Shape₀ dom g pot msgs) {p c : Region} (hp : p ∈ g.regions)
    (hc : c ∈ look g.children p) : c ∈ g.regions := (hs.children_sub p hp c hc).1

/-- `θ̃_r` is a table on `r`, cell-wise `θ_r + Σ_c λ_{(c,r)} − Σ_p λ_{(r,p)}` -/
theorem thetaTilde_on (hs : Shape₀ dom g pot msgs) {r : Region} (hr : r ∈ g.regions) :
    On dom r (thetaTilde g pot msgs r) ∧
      ∀ σ, dom.Valid σ → (thetaTilde g pot msgs r).sem σ
        = (pot r).sem σ + ((look g.children r).map (fun c => (msgs.get (c, r)).sem σ)).sum
          - ((look g.parents r).map (fun p => (msgs.get (r, p)).sem σ)).sum := by
  have h1 : ∀ f ∈ (look g.children r).map (fun c => msgs.get (c, r)), Sub dom r f := by
    intro f hf
    obtain ⟨c, hc, rfl⟩ := List.mem_map.mp hf
    exact ((hs.msg_on hr hc).sub (hs.regOK (hs.child_mem hr hc))).mono (hs.children_sub r hr c hc).2
  have h2 : ∀ f ∈ (look g.parents r).map (fun p => msgs.get (r, p)), Sub dom r f := by
    intro f hf
    obtain ⟨p, hp, rfl⟩ := List.mem_map.mp hf
    obtain ⟨hpR, hrc⟩ := (hs.parents_dual r hr p).mp hp
    exact (hs.msg_on hpR hrc).sub (hs.regOK hr)
  obtain ⟨a, b⟩ := theta_ok hs.dom_wf (hs.regOK hr) (pot r) _ _ (hs.pot_on hr) h1 h2
  refine ⟨a, ?_⟩
  intro σ hσ
  have := b σ hσ
  rw [List.map_map, List.map_map] at this
  exact this

end shape

/-! ## the multiplier terms telescope -/

/-- double counting over the edge set, from the children side and from the parents side -/
theorem edge_sum_swap (R : List Region) (ch par : Region → List Region) (E : Region → Region → ℝ)
    (hR : R.Nodup) (hch : ∀ p ∈ R, (ch p).Nodup) (hpar : ∀ c ∈ R, (par c).Nodup)
    (hsub : ∀ p ∈ R, ∀ c ∈ ch p, c ∈ R)
    (hdual : ∀ c ∈ R, ∀ p, p ∈ par c ↔ (p ∈ R ∧ c ∈ ch p)) :
    (R.map (fun p => ((ch p).map (fun c => E c p)).sum)).sum
      = (R.map (fun c => ((par c).map (fun p => E c p)).sum)).sum := by
  rw [← List.sum_toFinset _ hR, ← List.sum_toFinset _ hR]
  have e1 : ∀ p ∈ R.toFinset, ((ch p).map (fun c => E c p)).sum = ∑ c ∈ (ch p).toFinset, E c p := by
    intro p hp
    rw [List.sum_toFinset _ (hch p (List.mem_toFinset.mp hp))]
  have e2 : ∀ c ∈ R.toFinset, ((par c).map (fun p => E c p)).sum = ∑ p ∈ (par c).toFinset, E c p := by
    intro c hc
    rw [List.sum_toFinset _ (hpar c (List.mem_toFinset.mp hc))]
  rw [Finset.sum_congr rfl e1, Finset.sum_congr rfl e2]
  apply Finset.sum_comm'
  intro p c
  simp only [List.mem_toFinset]
  constructor
  · rintro ⟨hp, hc⟩
    have hcR := hsub p hp c hc
    exact ⟨(hdual c hcR p).mpr ⟨hp, hc⟩, hcR⟩
  · rintro ⟨hp, hc⟩
    exact (hdual c hc p).mp hp

theorem sum_map_add3 {ι : Type} (l : List ι) (A B C : ι → ℝ) :
    (l.map (fun i => A i + B i - C i)).sum = (l.map A).sum + ((l.map B).sum - (l.map C).sum) := by
  rw [sum_map_sub, List.sum_map_add]
  ring

section telescope
variable {dom : Dom} {g : RG.Graph} {pot : Region → Factor ℝ} {msgs : Msgs ℝ} {T : ℝ} {q : CliqueVec ℝ}

theorem LocallyConsistent.on (hq : LocallyConsistent dom g T q) {r : Region} (hr : r ∈ g.regions) :
    On dom r (q.get r) := hq.table_ok r hr

/-- `⟨θ̃_r, q_r⟩` expanded, with every multiplier term already moved to the child of its edge -/
theorem tilde_inner_region (hs : Shape₀ dom g pot msgs) (hq : LocallyConsistent dom g T q)
    {r : Region} (hr : r ∈ g.regions) :
    S dom r (fun τ => (thetaTilde g pot msgs r).sem τ * (q.get r).sem τ)
      = S dom r (fun τ => (pot r).sem τ * (q.get r).sem τ)
        + ((look g.children r).map (fun c =>
            S dom c (fun τ => (msgs.get (c, r)).sem τ * (q.get c).sem τ))).sum
        - ((look g.parents r).map (fun p =>
            S dom r (fun τ => (msgs.get (r, p)).sem τ * (q.get r).sem τ))).sum := by
  obtain ⟨_, hsem⟩ := thetaTilde_on hs hr
  have e1 : S dom r (fun τ => (thetaTilde g pot msgs r).sem τ * (q.get r).sem τ)
      = S dom r (fun τ => ((pot r).sem τ * (q.get r).sem τ
          + ((look g.children r).map (fun c => (msgs.get (c, r)).sem τ * (q.get r).sem τ)).sum)
          - ((look g.parents r).map (fun p => (msgs.get (r, p)).sem τ * (q.get r).sem τ)).sum) := by
    apply S_congr dom hs.dom_wf hs.sizes
    intro τ hτ
    rw [hsem τ hτ, List.sum_map_mul_right, List.sum_map_mul_right]
    ring
  rw [e1, S_sub, S_add, S_sum, S_sum]
  congr 2
  congr 1
  apply List.map_congr_left
  intro c hc
  have hcR := hs.child_mem hr hc
  exact S_parent_child hs.dom_wf hs.sizes (hs.regOK hr) (hs.regOK hcR) (hs.children_sub r hr c hc).2
    ((hs.msg_on hr hc).sub (hs.regOK hcR)) (hq.on hr) (hq.on hcR) (hq.edges r hr c hc)

/-- **the multiplier terms telescope on consistent `q`**: `Σ_r ⟨θ̃_r, q_r⟩ = Σ_r ⟨θ_r, q_r⟩` -/
theorem tilde_inner_sum (hs : Shape dom g pot msgs) (hq : LocallyConsistent dom g T q) :
    (g.regions.map (fun r => S dom r (fun τ => (thetaTilde g pot msgs r).sem τ * (q.get r).sem τ))).sum
      = (g.regions.map (fun r => S dom r (fun τ => (pot r).sem τ * (q.get r).sem τ))).sum := by
  rw [List.map_congr_left (fun r hr => tilde_inner_region hs.toShape₀ hq hr), sum_map_add3]
  have := edge_sum_swap g.regions (look g.children) (look g.parents)
    (fun c p => S dom c (fun τ => (msgs.get (c, p)).sem τ * (q.get c).sem τ))
    hs.regions_nodup hs.children_nodup hs.parents_nodup
    (fun p hp c hc => hs.child_mem hp hc) hs.parents_dual
  rw [this]
  ring

end telescope

/-! ## Gibbs' inequality on a region -/

section gibbs
variable {dom : Dom} {r : Region}

/-- `⟨θ, q⟩ + H(q) ≤ T · logsumexp θ` for a nonnegative table `q` of mass `T` -/
theorem gibbs_region (hr : RegOK dom r) {th qf : Factor ℝ} (hth : On dom r th) (hq : On dom r qf)
    {T : ℝ} (hT : 0 < T) (hnn : ∀ v ∈ qf.datavector, 0 ≤ v) (hm : qf.datavector.sum = T) :
    S dom r (fun τ => th.sem τ * qf.sem τ) + entropy T qf ≤ T * th.logsumexpAll := by
  rw [entropy_eq T hr hq, logsumexpAll_eq hr hth]
  simp only [S_eq]
  rw [datavector_eq hr hq] at hnn hm
  have := gibbs_list (cells (r.map dom.cfg)) (fun v => th.sem (asg r v)) (fun v => qf.sem (asg r v)) T hT
    (fun v hv => hnn _ (List.mem_map_of_mem hv)) hm
  have e : ((cells (r.map dom.cfg)).map (fun v => th.sem (asg r v) * qf.sem (asg r v))).sum
      = ((cells (r.map dom.cfg)).map (fun v => qf.sem (asg r v) * th.sem (asg r v))).sum := by
    congr 1
    apply List.map_congr_left
    intro v _
    ring
  rw [e]
  linarith

/-- strictness: equality in `gibbs_region` forces `q = T · softmax θ` cell-wise -/
theorem gibbs_region_eq_imp (hr : RegOK dom r) {th qf : Factor ℝ} (hth : On dom r th) (hq : On dom r qf)
    {T : ℝ} (hT : 0 < T) (hnn : ∀ v ∈ qf.datavector, 0 ≤ v) (hm : qf.datavector.sum = T)
    (heq : S dom r (fun τ => th.sem τ * qf.sem τ) + entropy T qf = T * th.logsumexpAll) :
    qf.datavector = (cells (r.map dom.cfg)).map (fun v =>
      T * Real.exp (th.sem (asg r v)) / S dom r (fun τ => Real.exp (th.sem τ))) := by
  rw [entropy_eq T hr hq, logsumexpAll_eq hr hth] at heq
  simp only [S_eq] at heq ⊢
  rw [datavector_eq hr hq] at hnn hm ⊢
  have e : ((cells (r.map dom.cfg)).map (fun v => th.sem (asg r v) * qf.sem (asg r v))).sum
      = ((cells (r.map dom.cfg)).map (fun v => qf.sem (asg r v) * th.sem (asg r v))).sum := by
    congr 1
    apply List.map_congr_left
    intro v _
    ring
  rw [e] at heq
  have := gibbs_list_eq (cells (r.map dom.cfg)) (fun v => th.sem (asg r v)) (fun v => qf.sem (asg r v)) T hT
    (fun v hv => hnn _ (List.mem_map_of_mem hv)) hm (by linarith)
  exact List.map_congr_left this

end gibbs

/-! ## `normalise` -/

theorem iaddScalar_eq (f : Factor ℝ) (c : ℝ) (hf : f.WF) :
    f.iaddScalar c = Factor.mk' f.dom (f.vals.map (fun v => Scalar.add v c)) := by
  unfold Factor.iaddScalar Factor.mk' NdArr.reshape NdArr.map
  simp only [hf.2.1]

/-- `normalise T b` is a table on the same region, cell-wise `T · exp b / Σ exp b` -/
theorem normalise_on {dom : Dom} {r : Region} (hd : dom.WF) (hsz : ∀ p ∈ dom, 0 < p.2)
    (hr : RegOK dom r) {b : Factor ℝ} (hb : On dom r b) {T : ℝ} (hT : 0 < T)
    (hZ : 0 < S dom r (fun τ => Real.exp (b.sem τ))) :
    On dom r (normalise T b) ∧ ∀ σ, dom.Valid σ →
      (normalise T b).sem σ = T * Real.exp (b.sem σ) / S dom r (fun τ => Real.exp (b.sem τ)) := by
  unfold normalise
  rw [iaddScalar_eq b _ hb.1]
  have h1 : On dom r (Factor.mk' b.dom (b.vals.map
      (fun v => Scalar.add v (Scalar.sub (Scalar.log T) b.logsumexpAll)))) := mapVals_on _ hb
  refine ⟨mapVals_on _ h1, ?_⟩
  intro σ hσ
  show (Factor.mk' _ (NdArr.map Scalar.exp _)).sem σ = _
  rw [sem_mapVals_ok _ hd (h1.factorOK hr) hσ, sem_mapVals_ok _ hd (hb.factorOK hr) hσ,
    logsumexpAll_eq hr hb]
  show Real.exp (b.sem σ + (Real.log T + -Real.log (S dom r fun τ => Real.exp (b.sem τ)))) = _
  rw [Real.exp_add, Real.exp_add, Real.exp_neg, Real.exp_log hT, Real.exp_log hZ]
  field_simp

theorem S_exp_pos {dom : Dom} {r : Region} (F : (Attr → Nat) → ℝ) (hne : cells (r.map dom.cfg) ≠ []) :
    0 < S dom r (fun τ => Real.exp (F τ)) := by
  rw [S_eq]
  exact sum_exp_pos _ (fun v => F (asg r v)) hne

theorem cells_ne_nil {dom : Dom} {r : Region} (hd : dom.WF) (hsz : ∀ p ∈ dom, 0 < p.2)
    (hr : RegOK dom r) : cells (r.map dom.cfg) ≠ [] := by
  have h : List.replicate r.length 0 ∈ cells (r.map dom.cfg) := by
    apply inRange_mem_cells
    have : List.replicate r.length 0 = r.map (fun _ => 0) := by
      simp
    rw [this]
    apply NdArr.inRange_map
    intro a ha
    exact hsz _ (Dom.mem_of_mem_attrs dom hd a (hr.2 a ha))
  exact List.ne_nil_of_mem h

/-- the soft-max attains equality in Gibbs' inequality -/
theorem gibbs_region_softmax {dom : Dom} {r : Region} (hd : dom.WF) (hsz : ∀ p ∈ dom, 0 < p.2)
    (hr : RegOK dom r) {th : Factor ℝ} (hth : On dom r th) {T : ℝ} (hT : 0 < T) :
    S dom r (fun τ => th.sem τ * (normalise T th).sem τ) + entropy T (normalise T th)
      = T * th.logsumexpAll := by
  have hne := cells_ne_nil hd hsz hr
  have hZ := S_exp_pos (dom := dom) (r := r) th.sem hne
  obtain ⟨hn, hsem⟩ := normalise_on hd hsz hr hth hT hZ
  rw [entropy_eq T hr hn, logsumexpAll_eq hr hth]
  have e1 : S dom r (fun τ => th.sem τ * (normalise T th).sem τ)
      = S dom r (fun τ => T * Real.exp (th.sem τ) / S dom r (fun τ => Real.exp (th.sem τ)) * th.sem τ) := by
    apply S_congr dom hd hsz
    intro τ hτ
    rw [hsem τ hτ]; ring
  have e2 : S dom r (fun τ => hent T ((normalise T th).sem τ))
      = S dom r (fun τ => hent T (T * Real.exp (th.sem τ) / S dom r (fun τ => Real.exp (th.sem τ)))) := by
    apply S_congr dom hd hsz
    intro τ hτ
    rw [hsem τ hτ]
  rw [e1, e2]
  have := gibbs_softmax (cells (r.map dom.cfg)) (fun v => th.sem (asg r v)) T hT hne
  simp only [S_eq]
  linarith

/-! ## weak duality -/

section duality
variable {dom : Dom} {g : RG.Graph} {pot : Region → Factor ℝ} {msgs : Msgs ℝ} {T : ℝ} {q : CliqueVec ℝ}

/-- `F(q) = Σ_r (⟨θ̃_r, q_r⟩ + H(q_r))` on locally consistent `q` -/
theorem primalValue_tilde (hs : Shape dom g pot msgs) (hq : LocallyConsistent dom g T q) :
    primalValue g pot T q = (g.regions.map (fun r =>
      S dom r (fun τ => (thetaTilde g pot msgs r).sem τ * (q.get r).sem τ) + entropy T (q.get r))).sum := by
  rw [primalValue_eq, List.sum_map_add, tilde_inner_sum hs hq]
  congr 2
  apply List.map_congr_left
  intro r hr
  exact mul_sumAll_eq hs.dom_wf hs.sizes (hs.regOK hr) (hs.pot_on hr) (hq.on hr)

theorem dualValue_sum (g : RG.Graph) (pot : Region → Factor ℝ) (T : ℝ) (msgs : Msgs ℝ) :
    dualValue g pot T msgs = (g.regions.map (fun r => T * (thetaTilde g pot msgs r).logsumexpAll)).sum := by
  rw [dualValue_eq, List.sum_map_mul_left]

end duality

/-- **weak duality**: for every message vector and every locally consistent family `q`,
`F(q) ≤ D(λ)` — the multiplier terms telescope on consistent `q`, each region term is Gibbs'
inequality -/
theorem weak_duality (dom : Dom) (g : RG.Graph) (pot : Region → Factor ℝ) (T : ℝ) (msgs : Msgs ℝ)
    (q : CliqueVec ℝ) (hT : 0 < T) (hs : Shape dom g pot msgs) (hq : LocallyConsistent dom g T q) :
    primalValue g pot T q ≤ dualValue g pot T msgs := by
  rw [primalValue_tilde hs hq, dualValue_sum]
  apply List.sum_le_sum
  intro r hr
  exact gibbs_region (hs.regOK hr) (thetaTilde_on hs.toShape₀ hr).1 (hq.on hr) hT (hq.nonneg r hr) (hq.mass r hr)

/-- **gap certificate**: for any feasible family `b̃`, the optimum of the variational problem
exceeds `F(b̃)` by at most `D(λ) − F(b̃)` -/
theorem gap_bound (dom : Dom) (g : RG.Graph) (pot : Region → Factor ℝ) (T : ℝ) (msgs : Msgs ℝ)
    (b q : CliqueVec ℝ) (hT : 0 < T) (hs : Shape dom g pot msgs)
    (hb : LocallyConsistent dom g T b) (hq : LocallyConsistent dom g T q) :
    primalValue g pot T q - primalValue g pot T b ≤ dualValue g pot T msgs - primalValue g pot T b := by
  have := weak_duality dom g pot T msgs q hT hs hq
  linarith

/-! ## strong duality at consistency -/

theorem lookup_map_self {β : Type} (l : List Region) (F : Region → β) (r : Region) (hr : r ∈ l) :
    (l.map (fun r => (r, F r))).lookup r = some (F r) := by
  induction l with
  | nil => simp at hr
  | cons x xs ih =>
    simp only [List.map_cons, List.lookup_cons]
    by_cases hx : r = x
    · subst hx; simp
    · have : (r == x) = false := by simpa using hx
      rw [this]
      rcases List.mem_cons.mp hr with h | h
      · exact absurd h hx
      · exact ih h

theorem lagrangianBeliefs_get (g : RG.Graph) (pot : Region → Factor ℝ) (T : ℝ) (msgs : Msgs ℝ)
    {r : Region} (hr : r ∈ g.regions) :
    (lagrangianBeliefs g pot T msgs).get r = normalise T (thetaTilde g pot msgs r) := by
  unfold lagrangianBeliefs CliqueVec.get
  rw [lookup_map_self g.regions _ r hr]

/-- **strong duality at consistency**: if the beliefs `b(λ)` are themselves consistent along the
edges, they attain the dual value, hence maximise `F` over all locally consistent families -/
theorem strong_at_consistency (dom : Dom) (g : RG.Graph) (pot : Region → Factor ℝ) (T : ℝ) (msgs : Msgs ℝ)
    (hT : 0 < T) (hs : Shape dom g pot msgs)
    (hb : LocallyConsistent dom g T (lagrangianBeliefs g pot T msgs)) :
    primalValue g pot T (lagrangianBeliefs g pot T msgs) = dualValue g pot T msgs ∧
    ∀ q, LocallyConsistent dom g T q → primalValue g pot T q ≤ primalValue g pot T (lagrangianBeliefs g pot T msgs) := by
  have h1 : primalValue g pot T (lagrangianBeliefs g pot T msgs) = dualValue g pot T msgs := by
    rw [primalValue_tilde hs hb, dualValue_sum]
    congr 1
    apply List.map_congr_left
    intro r hr
    rw [lagrangianBeliefs_get g pot T msgs hr]
    exact gibbs_region_softmax hs.dom_wf hs.sizes (hs.regOK hr) (thetaTilde_on hs.toShape₀ hr).1 hT
  refine ⟨h1, ?_⟩
  intro q hq
  rw [h1]
  exact weak_duality dom g pot T msgs q hT hs hq

/-- **uniqueness** (strict Gibbs): a locally consistent family that attains the dual value is the
Lagrangian belief family, table by table -/
theorem unique_at_zero_gap (dom : Dom) (g : RG.Graph) (pot : Region → Factor ℝ) (T : ℝ) (msgs : Msgs ℝ)
    (q : CliqueVec ℝ) (hT : 0 < T) (hs : Shape dom g pot msgs) (hq : LocallyConsistent dom g T q)
    (heq : primalValue g pot T q = dualValue g pot T msgs) :
    ∀ r ∈ g.regions, (q.get r).datavector = ((lagrangianBeliefs g pot T msgs).get r).datavector := by
  rw [primalValue_tilde hs hq, dualValue_sum] at heq
  have hterm := eq_of_sum_eq_of_le g.regions _ _
    (fun r hr => gibbs_region (hs.regOK hr) (thetaTilde_on hs.toShape₀ hr).1 (hq.on hr) hT
      (hq.nonneg r hr) (hq.mass r hr)) heq
  intro r hr
  have hrk := hs.regOK hr
  have hth := (thetaTilde_on hs.toShape₀ hr).1
  rw [gibbs_region_eq_imp hrk hth (hq.on hr) hT (hq.nonneg r hr) (hq.mass r hr) (hterm r hr),
    lagrangianBeliefs_get g pot T msgs hr]
  have hne := cells_ne_nil hs.dom_wf hs.sizes hrk
  have hZ := S_exp_pos (dom := dom) (r := r) (thetaTilde g pot msgs r).sem hne
  obtain ⟨hn, hsem⟩ := normalise_on hs.dom_wf hs.sizes hrk hth hT hZ
  rw [datavector_eq hrk hn]
  apply List.map_congr_left
  intro v hv
  rw [hsem _ (valid_asg dom hs.dom_wf hs.sizes r v hv)]

/-! ## the beliefs returned by a sweep are the Lagrangian beliefs -/

/-- a graph whose region list repeats a region -/
def gDup : RG.Graph :=
  { regions := [[], []], cliques := [], children := [], parents := [], descendants := [],
    ancestors := [], children0 := [], parents0 := [], counting := [], N := [], D := [], B := [],
    messageOrder := [] }

/-- the statement as first written (no hypothesis on `g`) is false: on a region list with a
repeated region the belief *dictionary* has one entry per key, `lagrangianBeliefs` has one per
list element -/
theorem belief_lagrangian_form_needs_nodup :
    ¬ ∀ (g : RG.Graph) (pot : Region → Factor ℝ) (T rho : ℝ) (msgs : Msgs ℝ),
      (hpsSweep g pot (fun _ => 1) T rho msgs).2.map (fun p => (p.1, p.2.datavector))
        = (lagrangianBeliefs g pot T (hpsSweep g pot (fun _ => 1) T rho msgs).1).map
            (fun p => (p.1, p.2.datavector)) := by
  intro h
  have := congrArg List.length (h gDup (fun _ => Factor.zeros []) 1 0 [])
  rw [hpsSweep_snd] at this
  simp [beliefsOf, lagrangianBeliefs, gDup, CliqueVec.set] at this

/-- the returned beliefs depend on the messages only through the upward messages and are
`total · softmax(θ̃_r)`: the model's last step of every sweep *is* `lagrangianBeliefs` (unit counting
numbers).  CORRECTED: needs `g.regions.Nodup` (`belief_lagrangian_form_needs_nodup`); no other
hypothesis on the graph, the potentials or the messages. -/
theorem belief_lagrangian_form (g : RG.Graph) (pot : Region → Factor ℝ) (T rho : ℝ) (msgs : Msgs ℝ)
    (hnd : g.regions.Nodup) :
    (hpsSweep g pot (fun _ => 1) T rho msgs).2.map (fun p => (p.1, p.2.datavector))
      = (lagrangianBeliefs g pot T (hpsSweep g pot (fun _ => 1) T rho msgs).1).map (fun p => (p.1, p.2.datavector)) := by
  rw [hpsSweep_snd, beliefsOf_eq_map _ _ _ _ _ hnd]
  unfold lagrangianBeliefs
  rw [List.map_map, List.map_map]
  apply List.map_congr_left
  intro r _
  show (r, (normalise T ((thetaTilde g pot _ r).divScalar 1)).datavector) = (r, _)
  rw [normalise_divScalar_one]

/-! ## `Shape` is an invariant of the sweeps

The upward update reads the *downward* messages (`messages[p, r]`), so the invariant has to include
their layout as well (`MsgsDown`); both hold for `initMessages` (`initMessages_shape`). -/

/-- the downward messages are laid out on the child regions -/
structure MsgsDown (dom : Dom) (g : RG.Graph) (msgs : Msgs ℝ) : Prop where
  down_ok : ∀ p ∈ g.regions, ∀ c ∈ look g.children p,
    (msgs.get (p, c)).WF ∧ (msgs.get (p, c)).dom = dom.project c

section preserve
variable {dom : Dom} {g : RG.Graph} {pot : Region → Factor ℝ} {msgs : Msgs ℝ}

theorem Shape₀.graphOK (hs : Shape₀ dom g pot msgs) : GraphOK dom g pot :=
  ⟨hs.dom_wf, hs.region_ok, hs.pot_ok, hs.children_sub, hs.parents_dual⟩

theorem Shape₀.keyOn (hs : Shape₀ dom g pot msgs) (hd : MsgsDown dom g msgs) :
    ∀ k, KeyOn dom g k (msgs.get k) := by
  intro k p hp c hc hk
  rcases hk with rfl | rfl
  · exact hd.down_ok p hp c hc
  · exact hs.msg_ok p hp c hc

/-- **`Shape` (with the layout of the downward messages) is preserved by a sweep**, for every
counting-number function, total and damping factor -/
theorem shape_preserved (hs : Shape dom g pot msgs) (hd : MsgsDown dom g msgs)
    (c0 : Region → ℝ) (T rho : ℝ) :
    Shape dom g pot (hpsSweep g pot c0 T rho msgs).1 ∧ MsgsDown dom g (hpsSweep g pot c0 T rho msgs).1 := by
  have hk := sweep_keyOn hs.graphOK c0 rho (hs.keyOn hd)
  rw [hpsSweep_fst]
  refine ⟨⟨⟨hs.dom_wf, hs.sizes, hs.regions_nodup, hs.region_ok, hs.pot_ok, hs.children_sub,
    hs.parents_dual, hs.children_nodup, ?_⟩, hs.parents_nodup⟩, ⟨?_⟩⟩
  · intro p hp c hc
    exact hk (c, p) p hp c hc (Or.inr rfl)
  · intro p hp c hc
    exact hk (p, c) p hp c hc (Or.inl rfl)

/-- any number of sweeps -/
theorem shape_preserved_iterate (hs : Shape dom g pot msgs) (hd : MsgsDown dom g msgs)
    (c0 : Region → ℝ) (T rho : ℝ) (n : Nat) :
    Shape dom g pot (iterate (fun m => (hpsSweep g pot c0 T rho m).1) n msgs) ∧
      MsgsDown dom g (iterate (fun m => (hpsSweep g pot c0 T rho m).1) n msgs) := by
  induction n generalizing msgs with
  | zero => exact ⟨hs, hd⟩
  | succ n ih =>
    obtain ⟨h1, h2⟩ := shape_preserved hs hd c0 T rho
    exact ih h1 h2

end preserve

/-! ### the initial messages -/

theorem zeros_on {dom : Dom} {c : Region} (hc : RegOK dom c) : On dom c (Factor.zeros (dom.project c)) := by
  refine ⟨⟨?_, rfl, ?_⟩, rfl⟩
  · show (dom.project c).attrs.Nodup
    rw [Dom.attrs_project]; exact hc.1
  · show (Array.replicate (size (dom.project c).shape) (Scalar.zero : ℝ)).size = size (dom.project c).shape
    simp

/-- the entry of `initMessages` under a key that some edge of the order names (in either direction)
is the zero table on the child region of the *first* such edge -/
theorem initMessages_get (dom : Dom) (order : List Edge) (k : Edge)
    (h : ∃ e ∈ order, k = (e.1, e.2) ∨ k = (e.2, e.1)) :
    ∃ e ∈ order, (k = (e.1, e.2) ∨ k = (e.2, e.1)) ∧
      Msgs.get (initMessages dom order : Msgs ℝ) k = Factor.zeros (dom.project e.2) := by
  induction order with
  | nil => obtain ⟨e, he, _⟩ := h; simp at he
  | cons e0 rest ih =>
    by_cases h1 : k = (e0.1, e0.2)
    · refine ⟨e0, List.mem_cons_self, Or.inl h1, ?_⟩
      subst h1
      simp [initMessages, Msgs.get]
    · by_cases h2 : k = (e0.2, e0.1)
      · refine ⟨e0, List.mem_cons_self, Or.inr h2, ?_⟩
        have e1 : (k == (e0.1, e0.2)) = false := by simpa using h1
        subst h2
        simp only [initMessages, Msgs.get, List.flatMap_cons, List.cons_append, List.nil_append,
          List.lookup_cons, e1]
        simp
      · have hrest : ∃ e ∈ rest, k = (e.1, e.2) ∨ k = (e.2, e.1) := by
          obtain ⟨e, he, hk⟩ := h
          rcases List.mem_cons.mp he with rfl | he
          · rcases hk with hk | hk
            · exact absurd hk h1
            · exact absurd hk h2
          · exact ⟨e, he, hk⟩
        obtain ⟨e, he, hk, hget⟩ := ih hrest
        refine ⟨e, List.mem_cons_of_mem _ he, hk, ?_⟩
        have e1 : (k == (e0.1, e0.2)) = false := by simpa using h1
        have e2 : (k == (e0.2, e0.1)) = false := by simpa using h2
        rw [← hget]
        simp only [initMessages, Msgs.get, List.flatMap_cons, List.cons_append, List.nil_append,
          List.lookup_cons, e1, e2]

/-- **the initial messages satisfy `msg_ok` and `MsgsDown`** when the message order lists exactly
the edges of the graph and no edge is listed in both directions (true for `RG.build`: edges go from
a region to a *strict* subset) -/
theorem initMessages_shape {dom : Dom} {g : RG.Graph} {pot : Region → Factor ℝ}
    (hg : GraphOK dom g pot)
    (hord : ∀ e ∈ g.messageOrder, e.1 ∈ g.regions ∧ e.2 ∈ look g.children e.1)
    (hall : ∀ p ∈ g.regions, ∀ c ∈ look g.children p, (p, c) ∈ g.messageOrder)
    (hanti : ∀ p ∈ g.regions, ∀ c ∈ look g.children p, p ∉ look g.children c) :
    (∀ p ∈ g.regions, ∀ c ∈ look g.children p,
      (Msgs.get (initMessages dom g.messageOrder : Msgs ℝ) (c, p)).WF ∧
      (Msgs.get (initMessages dom g.messageOrder : Msgs ℝ) (c, p)).dom = dom.project c) ∧
    MsgsDown dom g (initMessages dom g.messageOrder) := by
  have key : ∀ p ∈ g.regions, ∀ c ∈ look g.children p, ∀ k, (k = (p, c) ∨ k = (c, p)) →
      On dom c (Msgs.get (initMessages dom g.messageOrder : Msgs ℝ) k) := by
    intro p hp c hc k hk
    have hcR := (hg.children_sub p hp c hc).1
    obtain ⟨e, he, hke, hget⟩ := initMessages_get dom g.messageOrder k
      ⟨(p, c), hall p hp c hc, by rcases hk with h | h <;> simp [h]⟩
    rw [hget]
    obtain ⟨he1, he2⟩ := hord e he
    have : e.2 = c := by
      rcases hk with rfl | rfl <;> rcases hke with h | h
      · exact (Prod.mk.inj h).2.symm
      · obtain ⟨h1, h2⟩ := Prod.mk.inj h
        rw [← h1, ← h2] at he2
        exact absurd he2 (hanti p hp c hc)
      · obtain ⟨h1, h2⟩ := Prod.mk.inj h
        rw [← h1, ← h2] at he2
        exact absurd he2 (hanti p hp c hc)
      · exact (Prod.mk.inj h).1.symm
    rw [this]
    exact zeros_on (hg.region_ok c hcR)
  exact ⟨fun p hp c hc => key p hp c hc (c, p) (Or.inr rfl),
    ⟨fun p hp c hc => key p hp c hc (p, c) (Or.inl rfl)⟩⟩

/-! ### `Shape` alone is not an invariant

One parent `{a}` (size 1), one child `{}`; the downward message is laid out on the parent. -/

def domX : Dom := [("a", 1)]

def gX : RG.Graph :=
  { regions := [["a"], []], cliques := [[], ["a"]],
    children := [(["a"], [[]]), ([], [])],
    parents := [(["a"], []), ([], [["a"]])],
    descendants := [], ancestors := [], children0 := [], parents0 := [], counting := [], N := [],
    D := [], B := [], messageOrder := [(["a"], [])] }

noncomputable def potX (r : Region) : Factor ℝ := Factor.zeros (domX.project r)

/-- upward message fine, downward message laid out on the *parent* -/
noncomputable def msgsX : Msgs ℝ :=
  [(([], ["a"]), Factor.zeros (domX.project [])), ((["a"], []), Factor.zeros (domX.project ["a"]))]

theorem domX_bad : (Msgs.get (hpsSweep gX potX (fun _ => 1) 1 0 msgsX).1 ([], ["a"])).dom ≠ domX.project [] := by
  decide

theorem shapeX : Shape domX gX potX msgsX := by
  refine ⟨⟨by decide, by decide, by decide, by decide, by decide, by decide, ?_, by decide, by decide⟩,
    by decide⟩
  intro r hr p
  have hr' : r = ["a"] ∨ r = [] := by simpa [gX] using hr
  have hp' : p ∈ gX.regions → p = ["a"] ∨ p = [] := fun h => by simpa [gX] using h
  rcases hr' with rfl | rfl
  · have e : look gX.parents ["a"] = [] := by decide
    rw [e]
    constructor
    · intro h; simp at h
    · rintro ⟨hp, hc⟩
      rcases hp' hp with rfl | rfl
      · exact absurd hc (by decide)
      · exact absurd hc (by decide)
  · have e : look gX.parents [] = [["a"]] := by decide
    rw [e]
    constructor
    · intro h
      have : p = ["a"] := by simpa using h
      subst this
      exact ⟨by decide, by decide⟩
    · rintro ⟨hp, hc⟩
      rcases hp' hp with rfl | rfl
      · simp
      · exact absurd hc (by decide)

/-- **`Shape` alone is not an invariant of the sweep** (the statement
`Shape dom g pot msgs → Shape dom g pot (hpsSweep …).1` is false): the upward update subtracts the
downward message `messages[p, r]`, whose layout `Shape` does not constrain -/
theorem shape_not_preserved_without_down :
    ¬ ∀ (dom : Dom) (g : RG.Graph) (pot : Region → Factor ℝ) (msgs : Msgs ℝ) (T rho : ℝ),
      Shape dom g pot msgs → Shape dom g pot (hpsSweep g pot (fun _ => 1) T rho msgs).1 := by
  intro h
  have := ((h domX gX potX msgsX 1 0 shapeX).msg_ok ["a"] (by decide) [] (by decide)).2
  exact domX_bad this

/-! ## the original hypotheses do not suffice: a parent listed twice

`parents_dual` constrains membership only.  With `look g.parents r = [p, p]` the multiplier of the
edge `(r, p)` is subtracted twice from `θ̃_r` and added once to `θ̃_p`, so `Σ_r ⟨θ̃_r, q_r⟩` is no
longer `Σ_r ⟨θ_r, q_r⟩`.  Smallest instance: the empty domain, the single region `[]` (one cell)
with a self-edge, `λ = 1`, `q = 1`, `T = 1`: `F(q) = 0` but `D(λ) = −1`. -/

/-- one region `[]` over the empty domain, with a self-edge; the parent is listed twice -/
def gLoop : RG.Graph :=
  { regions := [[]], cliques := [[]], children := [([], [[]])], parents := [([], [[], []])],
    descendants := [], ancestors := [], children0 := [], parents0 := [], counting := [], N := [],
    D := [], B := [], messageOrder := [] }

/-- the one-cell table with value `x` -/
noncomputable def cell (x : ℝ) : Factor ℝ := ⟨[], ⟨[], #[x]⟩⟩

theorem cell_sem (x : ℝ) (σ : Attr → Nat) : (cell x).sem σ = x := rfl

theorem cell_on (x : ℝ) : On [] [] (cell x) := by
  refine ⟨⟨?_, rfl, rfl⟩, rfl⟩
  show (Dom.attrs ([] : Dom)).Nodup
  simp [Dom.attrs]

theorem look_children_loop : look gLoop.children [] = [[]] := rfl
theorem look_parents_loop : look gLoop.parents [] = [[], []] := rfl

theorem S_nil (F : (Attr → Nat) → ℝ) : S [] [] F = F (asg [] []) := by
  simp [S_eq, cells]

theorem shape0_loop : Shape₀ [] gLoop (fun _ => cell 0) [(([], []), cell 1)] := by
  refine ⟨?_, ?_, ?_, ?_, ?_, ?_, ?_, ?_, ?_⟩
  · show (Dom.attrs ([] : Dom)).Nodup
    simp [Dom.attrs]
  · intro p hp; simp at hp
  · simp [gLoop]
  · intro r hr
    simp only [gLoop, List.mem_singleton] at hr
    subst hr
    simp
  · intro r hr
    simp only [gLoop, List.mem_singleton] at hr
    subst hr
    exact cell_on 0
  · intro r hr c hc
    simp only [gLoop, List.mem_singleton] at hr
    subst hr
    rw [look_children_loop] at hc
    simp only [List.mem_singleton] at hc
    subst hc
    simp [gLoop]
  · intro r hr p
    simp only [gLoop, List.mem_singleton] at hr
    subst hr
    rw [look_parents_loop]
    constructor
    · intro hp
      have : p = [] := by simpa using hp
      subst this
      exact ⟨by simp [gLoop], by rw [look_children_loop]; simp⟩
    · rintro ⟨hp, _⟩
      have : p = [] := by simpa [gLoop] using hp
      subst this
      simp
  · intro r hr
    simp only [gLoop, List.mem_singleton] at hr
    subst hr
    rw [look_children_loop]
    simp
  · intro p hp c hc
    simp only [gLoop, List.mem_singleton] at hp
    subst hp
    rw [look_children_loop] at hc
    simp only [List.mem_singleton] at hc
    subst hc
    exact cell_on 1


theorem cell_proj (x : ℝ) : ((cell x).projectSum []).datavector = [0 + x] := rfl

theorem lc_loop : LocallyConsistent [] gLoop 1 [([], cell 1)] := by
  refine ⟨rfl, ?_, ?_, ?_, ?_⟩
  · intro r hr
    simp only [gLoop, List.mem_singleton] at hr
    subst hr
    exact cell_on 1
  · intro r hr v hv
    simp only [gLoop, List.mem_singleton] at hr
    subst hr
    have : v = 1 := by simpa [CliqueVec.get, cell, Factor.datavector] using hv
    rw [this]; exact zero_le_one
  · intro r hr
    simp only [gLoop, List.mem_singleton] at hr
    subst hr
    simp [CliqueVec.get, cell, Factor.datavector]
  · intro p hp c hc
    simp only [gLoop, List.mem_singleton] at hp
    subst hp
    rw [look_children_loop] at hc
    simp only [List.mem_singleton] at hc
    subst hc
    show ((cell 1).projectSum []).datavector = [1]
    rw [cell_proj]; simp

theorem primal_loop : primalValue gLoop (fun _ => cell 0) 1 [([], cell 1)] = 0 := by
  rw [primalValue_eq]
  show ([((cell 0).mul (cell 1)).sumAll]).sum + ([entropy 1 (cell 1)]).sum = 0
  have hd : Dom.WF ([] : Dom) := by show (Dom.attrs ([] : Dom)).Nodup; simp [Dom.attrs]
  have hsz : ∀ p ∈ ([] : Dom), 0 < p.2 := by intro p hp; simp at hp
  have hr : RegOK ([] : Dom) [] := ⟨by simp, by simp⟩
  rw [mul_sumAll_eq hd hsz hr (cell_on 0) (cell_on 1), entropy_eq 1 hr (cell_on 1), S_nil, S_nil]
  simp [cell_sem, hent]

theorem dual_loop : dualValue gLoop (fun _ => cell 0) 1 [(([], []), cell 1)] = -1 := by
  rw [dualValue_eq]
  show (1 : ℝ) * ([(thetaTilde gLoop (fun _ => cell 0) [(([], []), cell 1)] []).logsumexpAll]).sum = -1
  have hr : RegOK ([] : Dom) [] := ⟨by simp, by simp⟩
  obtain ⟨h1, h2⟩ := thetaTilde_on shape0_loop (r := []) (by simp [gLoop])
  have hv : Dom.Valid ([] : Dom) (asg [] []) := by intro p hp; simp at hp
  rw [logsumexpAll_eq hr h1, S_nil, h2 _ hv, look_children_loop, look_parents_loop]
  show (1 : ℝ) * [Real.log (Real.exp ((cell 0).sem _ + [(cell 1).sem _].sum - [(cell 1).sem _, (cell 1).sem _].sum))].sum = -1
  simp only [cell_sem, List.sum_cons, List.sum_nil, Real.log_exp]
  norm_num

/-- **weak duality is false under the original hypotheses** (`Shape₀`, i.e. without
`parents_nodup`): a parent listed twice is subtracted twice -/
theorem weak_duality_needs_parents_nodup :
    ¬ ∀ (dom : Dom) (g : RG.Graph) (pot : Region → Factor ℝ) (T : ℝ) (msgs : Msgs ℝ) (q : CliqueVec ℝ),
      0 < T → Shape₀ dom g pot msgs → LocallyConsistent dom g T q →
      primalValue g pot T q ≤ dualValue g pot T msgs := by
  intro h
  have := h [] gLoop (fun _ => cell 0) 1 [(([], []), cell 1)] [([], cell 1)] one_pos shape0_loop lc_loop
  rw [primal_loop, dual_loop] at this
  linarith

/-! ## non-vacuity: a concrete `Shape` and a concrete `LocallyConsistent` family

`dom = [a:2, b:2]`, regions `{a,b}` and `{a}`, one edge, zero potentials, the initial (zero)
messages, and the uniform tables of mass 4. -/

def domAB : Dom := [("a", 2), ("b", 2)]

def gAB : RG.Graph :=
  { regions := [["a", "b"], ["a"]], cliques := [["a"], ["a", "b"]],
    children := [(["a", "b"], [["a"]]), (["a"], [])],
    parents := [(["a", "b"], []), (["a"], [["a", "b"]])],
    descendants := [], ancestors := [], children0 := [], parents0 := [], counting := [], N := [],
    D := [], B := [], messageOrder := [(["a", "b"], ["a"])] }

theorem look_children_ab : look gAB.children ["a", "b"] = [["a"]] := by decide
theorem look_children_a : look gAB.children ["a"] = [] := by decide
theorem look_parents_ab : look gAB.parents ["a", "b"] = [] := by decide
theorem look_parents_a : look gAB.parents ["a"] = [["a", "b"]] := by decide

noncomputable def tAB (x : ℝ) : Factor ℝ := ⟨domAB.project ["a", "b"], ⟨[2, 2], #[x, x, x, x]⟩⟩
noncomputable def tA (x : ℝ) : Factor ℝ := ⟨domAB.project ["a"], ⟨[2], #[x, x]⟩⟩

theorem domAB_wf : domAB.WF := by decide
theorem domAB_sizes : ∀ p ∈ domAB, 0 < p.2 := by decide
theorem regOK_ab : RegOK domAB ["a", "b"] := by unfold RegOK; decide
theorem regOK_a : RegOK domAB ["a"] := by unfold RegOK; decide

theorem tAB_on (x : ℝ) : On domAB ["a", "b"] (tAB x) := by
  refine ⟨⟨?_, ?_, ?_⟩, rfl⟩
  · show (domAB.project ["a", "b"]).WF
    decide
  · show [2, 2] = (domAB.project ["a", "b"]).shape
    decide
  · show (4 : Nat) = size [2, 2]
    rfl

theorem tA_on (x : ℝ) : On domAB ["a"] (tA x) := by
  refine ⟨⟨?_, ?_, ?_⟩, rfl⟩
  · show (domAB.project ["a"]).WF
    decide
  · show [2] = (domAB.project ["a"]).shape
    decide
  · show (2 : Nat) = size [2]
    rfl

theorem tAB_sem (x : ℝ) (σ : Attr → Nat) (ha : σ "a" < 2) (hb : σ "b" < 2) : (tAB x).sem σ = x := by
  have h : (tAB x).sem σ = (#[x, x, x, x] : Array ℝ).getD (σ "a" * (2 * 1) + (σ "b" * 1 + 0)) default := rfl
  rw [h]
  generalize σ "a" = i at ha
  generalize σ "b" = j at hb
  have hi : i = 0 ∨ i = 1 := by omega
  have hj : j = 0 ∨ j = 1 := by omega
  rcases hi with rfl | rfl <;> rcases hj with rfl | rfl <;> rfl

theorem tA_sem (x : ℝ) (σ : Attr → Nat) (ha : σ "a" < 2) : (tA x).sem σ = x := by
  have h : (tA x).sem σ = (#[x, x] : Array ℝ).getD (σ "a" * 1 + 0) default := rfl
  rw [h]
  generalize σ "a" = i at ha
  have hi : i = 0 ∨ i = 1 := by omega
  rcases hi with rfl | rfl <;> rfl


theorem mem_regions_ab {r : Region} (hr : r ∈ gAB.regions) : r = ["a", "b"] ∨ r = ["a"] := by
  simpa [gAB] using hr

/-- the potentials of the example: all zero -/
noncomputable def potAB (r : Region) : Factor ℝ := Factor.zeros (domAB.project r)

theorem graphOK_ab : GraphOK domAB gAB potAB := by
  refine ⟨domAB_wf, ?_, ?_, ?_, ?_⟩
  · intro r hr
    rcases mem_regions_ab hr with rfl | rfl
    · exact regOK_ab
    · exact regOK_a
  · intro r hr
    rcases mem_regions_ab hr with rfl | rfl
    · exact zeros_on regOK_ab
    · exact zeros_on regOK_a
  · decide
  · intro r hr p
    rcases mem_regions_ab hr with rfl | rfl
    · rw [look_parents_ab]
      constructor
      · intro h; simp at h
      · rintro ⟨hp, hc⟩
        rcases mem_regions_ab hp with rfl | rfl
        · rw [look_children_ab] at hc; exact absurd hc (by decide)
        · rw [look_children_a] at hc; simp at hc
    · rw [look_parents_a]
      constructor
      · intro h
        have : p = ["a", "b"] := by simpa using h
        subst this
        exact ⟨by decide, by decide⟩
      · rintro ⟨hp, hc⟩
        rcases mem_regions_ab hp with rfl | rfl
        · simp
        · rw [look_children_a] at hc; simp at hc

/-- **non-vacuity of `Shape`** (and of `MsgsDown`): the two-region graph `{a,b} → {a}` with zero
potentials and the initial messages -/
theorem shape_ab : Shape domAB gAB potAB (initMessages domAB gAB.messageOrder) ∧
    MsgsDown domAB gAB (initMessages domAB gAB.messageOrder) := by
  have hg := graphOK_ab
  obtain ⟨hup, hdown⟩ := initMessages_shape hg (by decide) (by decide) (by decide)
  exact ⟨⟨⟨domAB_wf, domAB_sizes, by decide, hg.region_ok, hg.pot_ok, hg.children_sub, hg.parents_dual,
    by decide, hup⟩, by decide⟩, hdown⟩

/-- the uniform tables of mass 4 -/
noncomputable def qAB : CliqueVec ℝ := [(["a", "b"], tAB 1), (["a"], tA 2)]

theorem qAB_get_ab : qAB.get ["a", "b"] = tAB 1 := rfl
theorem qAB_get_a : qAB.get ["a"] = tA 2 := rfl

theorem valid_ab {σ : Attr → Nat} (hσ : domAB.Valid σ) : σ "a" < 2 ∧ σ "b" < 2 :=
  ⟨hσ ("a", 2) (by decide), hσ ("b", 2) (by decide)⟩

/-- **non-vacuity of `LocallyConsistent`** -/
theorem lc_ab : LocallyConsistent domAB gAB 4 qAB := by
  refine ⟨rfl, ?_, ?_, ?_, ?_⟩
  · intro r hr
    rcases mem_regions_ab hr with rfl | rfl
    · exact tAB_on 1
    · exact tA_on 2
  · intro r hr v hv
    rcases mem_regions_ab hr with rfl | rfl
    · have : v = 1 := by simpa [qAB_get_ab, tAB, Factor.datavector] using hv
      rw [this]; exact zero_le_one
    · have : v = 2 := by simpa [qAB_get_a, tA, Factor.datavector] using hv
      rw [this]; norm_num
  · intro r hr
    rcases mem_regions_ab hr with rfl | rfl
    · show ([1, 1, 1, 1] : List ℝ).sum = 4
      norm_num
    · show ([2, 2] : List ℝ).sum = 4
      norm_num
  · intro p hp c hc
    rcases mem_regions_ab hp with rfl | rfl
    · rw [look_children_ab] at hc
      have : c = ["a"] := by simpa using hc
      subst this
      rw [qAB_get_ab, qAB_get_a]
      have hsub : ∀ a ∈ (["a"] : Region), a ∈ (["a", "b"] : Region) := by decide
      apply datavector_ext domAB_wf domAB_sizes regOK_a
        (projectSum_on regOK_ab regOK_a hsub (tAB_on 1)) (tA_on 2)
      intro σ hσ
      obtain ⟨ha, hb⟩ := valid_ab hσ
      rw [projectSum_sem domAB_wf regOK_ab regOK_a hsub (tAB_on 1) hσ, tA_sem 2 σ ha]
      have e1 : (["a", "b"] : Region).filter (fun a => !(["a"] : Region).contains a) = ["b"] := by decide
      have e2 : domAB.cfg "b" = 2 := by decide
      rw [e1, sumOver_single, e2]
      show [(tAB 1).sem (Dom.override σ ["b"] [0]), (tAB 1).sem (Dom.override σ ["b"] [1])].sum = 2
      have o1 : ∀ i, Dom.override σ ["b"] [i] "a" = σ "a" := fun i =>
        override_of_not_mem σ ["b"] [i] "a" (by decide)
      have o2 : ∀ i, Dom.override σ ["b"] [i] "b" = i := fun i => by
        rw [override_of_mem σ ["b"] [i] "b" (by decide)]; rfl
      rw [tAB_sem 1 _ (by rw [o1]; exact ha) (by rw [o2]; omega),
        tAB_sem 1 _ (by rw [o1]; exact ha) (by rw [o2]; omega)]
      norm_num
    · rw [look_children_a] at hc; simp at hc

/-- the theorems apply: on the example, `F(q) ≤ D(0)` -/
example : primalValue gAB potAB 4 qAB ≤ dualValue gAB potAB 4 (initMessages domAB gAB.messageOrder) :=
  weak_duality domAB gAB potAB 4 _ qAB (by norm_num) shape_ab.1 lc_ab

/-! ## the hypotheses hold for the graphs of `RG.build`, and the certificate holds for `hps`'s output -/

/-- **`Shape` (and `MsgsDown`) hold for every `RG.build` graph with the initial messages**: the only
assumptions are on the inputs — a well-formed domain with positive sizes, cliques that are
duplicate-free lists of attributes of the domain, and potentials laid out on the regions -/
theorem build_shape (dom : Dom) (cliques : List Region) (convex minimal : Bool) (pot : Region → Factor ℝ)
    (hd : dom.WF) (hsz : ∀ p ∈ dom, 0 < p.2) (hcl : ∀ c ∈ cliques, c.Nodup ∧ ∀ a ∈ c, a ∈ dom.attrs)
    (hpot : ∀ r ∈ (RG.build cliques convex minimal).regions, (pot r).WF ∧ (pot r).dom = dom.project r) :
    Shape dom (RG.build cliques convex minimal) pot
        (initMessages dom (RG.build cliques convex minimal).messageOrder) ∧
      MsgsDown dom (RG.build cliques convex minimal)
        (initMessages dom (RG.build cliques convex minimal).messageOrder) := by
  obtain ⟨hnd, hreg, hb⟩ := build_ok dom cliques convex minimal hcl
  have hg : GraphOK dom (RG.build cliques convex minimal) pot :=
    ⟨hd, hreg, hpot, hb.children_sub, hb.parents_dual⟩
  obtain ⟨hup, hdown⟩ := initMessages_shape hg hb.order_sound hb.order_complete hb.antisymm
  exact ⟨⟨⟨hd, hsz, hnd, hreg, hpot, hb.children_sub, hb.parents_dual, hb.children_nodup, hup⟩,
    hb.parents_nodup⟩, hdown⟩

/-- `potOf` is laid out on the regions when the potential vector is -/
theorem potOf_ok (dom : Dom) (g : RG.Graph) (potentials : CliqueVec ℝ)
    (hreg : ∀ r ∈ g.regions, RegOK dom r)
    (hp : ∀ r ∈ g.regions, (potentials.get r).WF ∧ (potentials.get r).dom = dom.project r) :
    ∀ r ∈ g.regions, (potOf dom g potentials r).WF ∧ (potOf dom g potentials r).dom = dom.project r := by
  intro r hr
  unfold potOf
  split
  · exact hp r hr
  · exact zeros_on (hreg r hr)

/-- the state returned by the loop is the result of a sweep applied to an iterate of the sweep -/
theorem hpsLoop_spec (g : RG.Graph) (pot : Region → Factor ℝ) (c0 : Region → ℝ) (T rho conv : ℝ)
    (n : Nat) (hn : 0 < n) (done : Nat) (msgs : Msgs ℝ) (mu : CliqueVec ℝ) :
    ∃ k, (hpsLoop g pot c0 T rho conv n done msgs mu).1
          = (hpsSweep g pot c0 T rho (iterate (fun m => (hpsSweep g pot c0 T rho m).1) k msgs)).2 ∧
      (hpsLoop g pot c0 T rho conv n done msgs mu).2.1
          = (hpsSweep g pot c0 T rho (iterate (fun m => (hpsSweep g pot c0 T rho m).1) k msgs)).1 := by
  induction n generalizing done msgs mu with
  | zero => omega
  | succ n ih =>
    unfold hpsLoop
    simp only
    split
    · exact ⟨0, rfl, rfl⟩
    · rcases Nat.eq_zero_or_pos n with h0 | hpos
      · subst h0
        exact ⟨0, rfl, rfl⟩
      · obtain ⟨k, h1, h2⟩ := ih hpos (done + 1) (hpsSweep g pot c0 T rho msgs).1
          (hpsSweep g pot c0 T rho msgs).2
        exact ⟨k + 1, h1, h2⟩

/-- **the certificate for the convex oracle as run**: for `g = RG.build cliques true minimal`, the
messages `λ` and beliefs `b` returned by `hazan_peng_shashua` started from the initial messages
satisfy (1) `b = b(λ)` table by table, (2) `F(q) ≤ D(λ)` for every locally consistent `q`, hence
(3) if `b` is locally consistent it is optimal with zero gap -/
theorem hps_certificate (dom : Dom) (cliques : List Region) (minimal : Bool) (potentials : CliqueVec ℝ)
    (T rho conv : ℝ) (iters : Nat) (hT : 0 < T) (hit : 0 < iters)
    (hd : dom.WF) (hsz : ∀ p ∈ dom, 0 < p.2) (hcl : ∀ c ∈ cliques, c.Nodup ∧ ∀ a ∈ c, a ∈ dom.attrs)
    (hp : ∀ r ∈ (RG.build cliques true minimal).regions,
      (potentials.get r).WF ∧ (potentials.get r).dom = dom.project r) :
    let g := RG.build cliques true minimal
    let pot := potOf dom g potentials
    let out := RG.hps dom g (fun _ => 1) potentials T iters rho conv (initMessages dom g.messageOrder)
    out.1.map (fun p => (p.1, p.2.datavector))
        = (lagrangianBeliefs g pot T out.2.1).map (fun p => (p.1, p.2.datavector)) ∧
    Shape dom g pot out.2.1 ∧
    (∀ q, LocallyConsistent dom g T q → primalValue g pot T q ≤ dualValue g pot T out.2.1) ∧
    (LocallyConsistent dom g T (lagrangianBeliefs g pot T out.2.1) →
      primalValue g pot T (lagrangianBeliefs g pot T out.2.1) = dualValue g pot T out.2.1) := by
  intro g pot out
  obtain ⟨hnd, hreg, _⟩ := build_ok dom cliques true minimal hcl
  obtain ⟨hs0, hd0⟩ := build_shape dom cliques true minimal pot hd hsz hcl
    (potOf_ok dom g potentials hreg hp)
  obtain ⟨k, h1, h2⟩ := hpsLoop_spec g pot (fun _ => 1) T rho conv iters hit 0
    (initMessages dom g.messageOrder) []
  have hout1 : out.1 = (hpsSweep g pot (fun _ => 1) T rho
      (iterate (fun m => (hpsSweep g pot (fun _ => 1) T rho m).1) k (initMessages dom g.messageOrder))).2 := h1
  have hout2 : out.2.1 = (hpsSweep g pot (fun _ => 1) T rho
      (iterate (fun m => (hpsSweep g pot (fun _ => 1) T rho m).1) k (initMessages dom g.messageOrder))).1 := h2
  obtain ⟨hsk, hdk⟩ := shape_preserved_iterate hs0 hd0 (fun _ => 1) T rho k
  have hs : Shape dom g pot out.2.1 := by
    rw [hout2]; exact (shape_preserved hsk hdk (fun _ => 1) T rho).1
  refine ⟨?_, hs, ?_, ?_⟩
  · rw [hout1, hout2]
    exact belief_lagrangian_form g pot T rho _ hnd
  · intro q hq
    exact weak_duality dom g pot T _ q hT hs hq
  · intro hb
    exact (strong_at_consistency dom g pot T _ hT hs hb).1

end PGM.Convex
