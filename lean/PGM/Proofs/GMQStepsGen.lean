import PGM.Proofs.GMQSynthTable
import PGM.Proofs.SynthTableClique
/-!
# The steps of the generated column loop, by index

`GMQGen.steps set_order cliques elimination_order` lists the pairs `(col, proj)` the generated `synthetic_data` visits.  Here: the
`k`-th step generates `order[k]` (`order` = the reversed elimination order) and, for `k ≥ 1`, conditions on
`projOf set_order cliques (order.take k) order[k]` (`used` is the set of the `k` attributes generated before it).
-/
namespace PGM.GMQGen
open PGM PGM.Synth

/-- the conditioning attributes of the `k`-th step -/
def stepProj (set_order : List Attr → List Attr) (cliques : List JT.Clique) (o : List Attr) (k : Nat) : List Attr :=
  if k = 0 then [] else projOf set_order cliques (o.take k) (o.getD k "")

theorem stepsFrom_getElem? (set_order : List Attr → List Attr) (cliques : List JT.Clique) :
    ∀ (rest used : List Attr), (used ++ rest).Nodup → ∀ i, i < rest.length →
      (stepsFrom set_order cliques used rest)[i]?
        = some (rest.getD i "", projOf set_order cliques (used ++ rest.take i) (rest.getD i ""))
  | [], _, _, i, hi => by simp at hi
  | col :: rest, used, hnd, 0, _ => by simp [stepsFrom]
  | col :: rest, used, hnd, i + 1, hi => by
    have hcol : col ∉ used := by
      intro h
      have := List.nodup_append.1 hnd
      exact this.2.2 col h col (by simp) rfl
    have hnd' : ((used ++ [col]) ++ rest).Nodup := by simpa using hnd
    have := stepsFrom_getElem? set_order cliques rest (used ++ [col]) hnd' i (by simpa using hi)
    simp only [stepsFrom, List.getElem?_cons_succ, union_singleton used col hcol, this]
    simp

theorem stepsOrd_getElem? (set_order : List Attr → List Attr) (cliques : List JT.Clique) (o : List Attr)
    (hnd : o.Nodup) (k : Nat) (hk : k < o.length) :
    (stepsOrd set_order cliques o)[k]? = some (o.getD k "", stepProj set_order cliques o k) := by
  cases o with
  | nil => simp at hk
  | cons o0 rest =>
    cases k with
    | zero => simp [stepsOrd, stepProj]
    | succ i =>
      have := stepsFrom_getElem? set_order cliques rest [o0] (by simpa using hnd) i (by simpa using hk)
      simp only [stepsOrd, List.getD_cons_zero, List.drop_one, List.tail_cons, List.getElem?_cons_succ, this, stepProj]
      simp

theorem stepsOrd_length (set_order : List Attr → List Attr) (cliques : List JT.Clique) (o : List Attr) (hne : o ≠ []) :
    (stepsOrd set_order cliques o).length = o.length := by
  have h : ∀ (rest used : List Attr), (stepsFrom set_order cliques used rest).length = rest.length := by
    intro rest
    induction rest with
    | nil => intro used; rfl
    | cons c rest ih => intro used; simp [stepsFrom, ih]
  cases o with
  | nil => exact absurd rfl hne
  | cons o0 rest => simp [stepsOrd, h]

/-- the `k`-th specification of the generated loop -/
theorem specAt_genSpecs (project : List Attr → Factor Rat) (set_order : List Attr → List Attr) (domain : Dom)
    (cliques : List JT.Clique) (elimination_order : List Attr) (hnd : elimination_order.Nodup) (k : Nat)
    (hk : k < elimination_order.length) :
    specAt (genSpecs project set_order domain cliques elimination_order) k
      = specOf project domain.attrs (elimination_order.reverse.getD k "")
          (stepProj set_order cliques elimination_order.reverse k) := by
  unfold specAt genSpecs steps
  rw [List.getD_eq_getElem?_getD, List.getElem?_map,
    stepsOrd_getElem? set_order cliques _ (List.nodup_reverse.2 hnd) k (by simpa using hk)]
  rfl

theorem genSpecs_length (project : List Attr → Factor Rat) (set_order : List Attr → List Attr) (domain : Dom)
    (cliques : List JT.Clique) (elimination_order : List Attr) (hne : elimination_order ≠ []) :
    (genSpecs project set_order domain cliques elimination_order).length = elimination_order.length := by
  unfold genSpecs steps
  rw [List.length_map, stepsOrd_length _ _ _ (by simpa using hne), List.length_reverse]

/-- the conditioning attributes of a step were generated before it, without repetition -/
theorem stepProj_sub (set_order : List Attr → List Attr) (hso : ∀ s, (set_order s).Perm s) (cliques : List JT.Clique)
    (o : List Attr) (k : Nat) : ∀ a ∈ stepProj set_order cliques o k, a ∈ o.take k := by
  intro a ha
  unfold stepProj at ha
  split at ha
  · cases ha
  · exact projOf_sub set_order hso cliques _ _ a ha

theorem stepProj_nodup (set_order : List Attr → List Attr) (hso : ∀ s, (set_order s).Perm s) (cliques : List JT.Clique)
    (o : List Attr) (hnd : o.Nodup) (k : Nat) : (stepProj set_order cliques o k).Nodup := by
  unfold stepProj
  split
  · exact List.nodup_nil
  · exact projOf_nodup set_order hso cliques _ (hnd.sublist (List.take_sublist k o)) _

/-- membership in the conditioning set: generated earlier, and in a model clique together with the new column -/
theorem mem_stepProj (set_order : List Attr → List Attr) (hso : ∀ s, (set_order s).Perm s) (cliques : List JT.Clique)
    (o : List Attr) (k : Nat) (hk : k ≠ 0) (a : Attr) :
    a ∈ stepProj set_order cliques o k ↔ a ∈ o.take k ∧ ∃ cl ∈ cliques, o.getD k "" ∈ cl ∧ a ∈ cl := by
  unfold stepProj
  rw [if_neg hk]
  unfold projOf
  rw [(hso _).mem_iff]
  unfold JT.inter
  rw [List.mem_filter]
  have hU : ∀ (cs : List JT.Clique) (acc : List Attr), a ∈ cs.foldl JT.union acc ↔ a ∈ acc ∨ ∃ cl ∈ cs, a ∈ cl := by
    intro cs
    induction cs with
    | nil => intro acc; simp
    | cons c cs ih =>
      intro acc
      rw [List.foldl_cons, ih, mem_union]
      simp only [List.mem_cons, exists_eq_or_imp]
      tauto
  constructor
  · rintro ⟨h1, h2⟩
    refine ⟨h1, ?_⟩
    have h2' : a ∈ (cliques.filter (fun cl => cl.contains (o.getD k ""))).foldl JT.union [] := by simpa using h2
    rcases (hU _ _).1 h2' with h | ⟨cl, hcl, hacl⟩
    · cases h
    · obtain ⟨hc1, hc2⟩ := List.mem_filter.1 hcl
      exact ⟨cl, hc1, by simpa using hc2, hacl⟩
  · rintro ⟨h1, cl, hcl, hcol, hacl⟩
    refine ⟨h1, ?_⟩
    have : a ∈ (cliques.filter (fun cl => cl.contains (o.getD k ""))).foldl JT.union [] :=
      (hU _ _).2 (Or.inr ⟨cl, List.mem_filter.2 ⟨hcl, by simpa using hcol⟩, hacl⟩)
    simpa using this

end PGM.GMQGen
