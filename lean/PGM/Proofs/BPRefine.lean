import PGM.Proofs.BPTree
import PGM.Proofs.BPFactor
/-!
# Refinement: the `foldl` of `bpLoop` maintains "belief = potential × true messages received"
-/
namespace PGM.Sem.BP
open PGM PGM.JT PGM.GM
set_option linter.unusedSectionVars false
set_option linter.unusedVariables false
set_option linter.unusedSimpArgs false

variable {K : Type} [Field K] [LinearOrder K] [IsStrictOrderedRing K]

/-- exp-space value of the potential of clique `c` -/
def psi (pots : CliqueVec (LogOf K)) (c : Clique) (τ : Attr → Nat) : K := ((pots.get c).sem τ).v

/-- `tau` of the loop body -/
def tauOf (bi : Factor (LogOf K)) (o : Option (Factor (LogOf K))) : Factor (LogOf K) :=
  match o with
  | some m => bi.sub m
  | none => bi

/-- the loop body -/
def bpStep (st : CliqueVec (LogOf K) × Msgs (LogOf K)) (ij : Clique × Clique) :
    CliqueVec (LogOf K) × Msgs (LogOf K) :=
  let bi := st.1.get ij.1
  let sep := bi.dom.invert (JT.inter ij.1 ij.2)
  let tau := tauOf bi (st.2.lookup (ij.2, ij.1))
  let msg := tau.logsumexp sep
  (st.1.set ij.2 ((st.1.get ij.2).iadd msg), st.2 ++ [((ij.1, ij.2), msg)])

theorem foldl_congr_fun {σ β : Type} (f g : σ → β → σ) (h : ∀ s b, f s b = g s b) (l : List β)
    (s : σ) : l.foldl f s = l.foldl g s := by
  induction l generalizing s with
  | nil => rfl
  | cons x xs ih => simp only [List.foldl_cons, h, ih]

theorem bpLoop_eq (order : List (Clique × Clique)) (pots : CliqueVec (LogOf K)) :
    bpLoop order pots = order.foldl bpStep (pots, []) := by
  rw [bpLoop]
  apply foldl_congr_fun
  intro st ij
  obtain ⟨b, m⟩ := st
  obtain ⟨i, j⟩ := ij
  dsimp only
  unfold bpStep tauOf
  dsimp only
  cases List.lookup (j, i) m <;> rfl

/-- senders whose message into `c` has been processed -/
def Pin (pre : List (Clique × Clique)) (c : Clique) : List Clique :=
  (pre.filter (fun e => e.2 == c)).map Prod.fst

theorem mem_Pin (pre : List (Clique × Clique)) (c k : Clique) : k ∈ Pin pre c ↔ (k, c) ∈ pre := by
  simp only [Pin, List.mem_map, List.mem_filter, beq_iff_eq]
  constructor
  · rintro ⟨e, ⟨he, hc⟩, rfl⟩
    rw [← hc]; exact he
  · intro h; exact ⟨(k, c), ⟨h, rfl⟩, rfl⟩

theorem Pin_nodup (pre : List (Clique × Clique)) (c : Clique) (h : pre.Nodup) : (Pin pre c).Nodup := by
  unfold Pin
  apply List.Nodup.map_on _ (h.filter _)
  intro x hx y hy hxy
  have h1 := (List.mem_filter.mp hx).2
  have h2 := (List.mem_filter.mp hy).2
  simp only [beq_iff_eq] at h1 h2
  exact Prod.ext hxy (h1.trans h2.symm)

theorem Pin_append (pre : List (Clique × Clique)) (i j c : Clique) :
    Pin (pre ++ [(i, j)]) c = if j = c then Pin pre c ++ [i] else Pin pre c := by
  unfold Pin
  rw [List.filter_append, List.map_append]
  by_cases h : j = c
  · simp [h]
  · simp [h]

/-- the model facts used by the refinement -/
structure MOK (d : Dom) (t : Tree) (order : List (Clique × Clique)) (pots : CliqueVec (LogOf K)) :
    Prop where
  cx : Ctx d t (psi pots)
  so : SchedOK t order
  keys : pots.map Prod.fst = t.nodes
  pot : ∀ c ∈ t.nodes, (pots.get c).WF ∧ (pots.get c).dom.attrs.Perm c ∧ (pots.get c).dom.Agrees d

/-- a stored message is a table over (part of) the separator, with sizes from `d` -/
def MsgOK (d : Dom) (a b : Clique) (m : Factor (LogOf K)) : Prop :=
  m.WF ∧ (∀ x ∈ m.dom.attrs, x ∈ a ∧ x ∈ b) ∧ m.dom.Agrees d

/-- the loop invariant after the schedule prefix `pre` -/
structure Inv (d : Dom) (t : Tree) (pots : CliqueVec (LogOf K)) (pre : List (Clique × Clique))
    (st : CliqueVec (LogOf K) × Msgs (LogOf K)) : Prop where
  keys : st.1.map Prod.fst = pots.map Prod.fst
  bel : ∀ c ∈ t.nodes, (st.1.get c).WF ∧ (st.1.get c).dom = (pots.get c).dom ∧
    ∀ τ, (pots.get c).dom.Valid τ →
      ((st.1.get c).sem τ).v
        = psi pots c τ * ((Pin pre c).map (fun k => M d t (psi pots) k c τ)).prod
  mkeys : st.2.map Prod.fst = pre
  msg : ∀ a b, (a, b) ∈ pre → (b, a) ∉ pre → ∃ m, st.2.lookup (a, b) = some m ∧ MsgOK d a b m ∧
    ∀ τ, m.dom.Valid τ → (m.sem τ).v = M d t (psi pots) a b τ

/-! ### domain helpers -/

theorem agrees_cfg {D d : Dom} (hD : D.WF) (h : D.Agrees d) {a : Attr} (ha : a ∈ D.attrs) :
    d.cfg a = D.cfg a := (Dom.agrees_iff D d hD).mp h a ha

theorem compatible_of_agrees_both {D E d : Dom} (hD : D.WF) (hE : E.WF) (h1 : D.Agrees d)
    (h2 : E.Agrees d) : D.Compatible E := by
  intro a n m hn hm
  have := h1 _ hn
  have := h2 _ hm
  simp only at *
  omega

theorem agrees_of_sub {E D d : Dom} (hD : D.WF) (hE : E.WF) (hsub : ∀ a ∈ E.attrs, a ∈ D.attrs)
    (h1 : D.Agrees d) (h2 : E.Agrees d) : E.Agrees D := by
  rw [Dom.agrees_iff E D hE]
  intro a ha
  rw [← agrees_cfg hD h1 (hsub a ha), agrees_cfg hE h2 ha]

theorem lookup_none_of_not_mem {κ β : Type} [BEq κ] [LawfulBEq κ] (l : List (κ × β)) (k : κ)
    (h : k ∉ l.map Prod.fst) : l.lookup k = none := by
  induction l with
  | nil => rfl
  | cons p ps ih =>
    obtain ⟨k', v⟩ := p
    simp only [List.map_cons, List.mem_cons, not_or] at h
    simp only [List.lookup_cons]
    have : (k == k') = false := by simpa using h.1
    rw [this]
    exact ih h.2

/-- what `logsumexp` produces, domain-wise -/
theorem logsumexp_ok (d : Dom) (f : Factor (LogOf K)) (as : List Attr) (hf : f.WF)
    (hag : f.dom.Agrees d) :
    (f.logsumexp as).WF ∧ (∀ a, a ∈ (f.logsumexp as).dom.attrs ↔ a ∈ f.dom.attrs ∧ a ∉ as) ∧
    (f.logsumexp as).dom.Agrees d ∧
    (∀ τ, (f.logsumexp as).dom.Valid τ → ∀ a ∈ f.dom.attrs, a ∉ as → τ a < f.dom.cfg a) := by
  have hw : (f.logsumexp as).WF := Factor.reduce_WF _ f as hf
  have hattrs : ∀ a, a ∈ (f.logsumexp as).dom.attrs ↔ a ∈ f.dom.attrs ∧ a ∉ as := by
    intro a
    unfold Factor.logsumexp
    rw [Factor.reduce_attrs]
    simp [Dom.invert]
  have hcfg : ∀ a ∈ (f.logsumexp as).dom.attrs, (f.logsumexp as).dom.cfg a = f.dom.cfg a := by
    intro a ha
    have : (f.logsumexp as).dom = f.dom.project (f.dom.invert as) := rfl
    rw [this]
    apply Dom.cfg_project
    have h2 : (f.logsumexp as).dom.attrs = f.dom.invert as := Factor.reduce_attrs _ f as
    rw [← h2]; exact ha
  refine ⟨hw, hattrs, ?_, ?_⟩
  · rw [Dom.agrees_iff _ _ hw.1]
    intro a ha
    rw [hcfg a ha]
    exact agrees_cfg hf.1 hag ((hattrs a).mp ha).1
  · intro τ hτ a ha haas
    have h1 := (Dom.valid_iff _ hw.1 τ).mp hτ a ((hattrs a).mpr ⟨ha, haas⟩)
    rwa [hcfg a ((hattrs a).mpr ⟨ha, haas⟩)] at h1

/-! ### the loop step -/

theorem split_facts {t : Tree} {order pre rest : List (Clique × Clique)} {i j : Clique}
    (so : SchedOK t order) (hsplit : order = pre ++ (i, j) :: rest) :
    pre.Nodup ∧ (i, j) ∉ pre ∧ t.adj i j = true ∧ (∀ e ∈ pre, e ∈ order) := by
  have hnd := so.nodup
  rw [hsplit, List.nodup_append] at hnd
  refine ⟨hnd.1, fun h => hnd.2.2 _ h (i, j) (by simp) rfl, so.adj_of_mem i j (by rw [hsplit]; simp), ?_⟩
  intro e he
  rw [hsplit]; simp [he]

theorem step_tail {d : Dom} {t : Tree} {order : List (Clique × Clique)}
    {pots : CliqueVec (LogOf K)} (mk : MOK d t order pots)
    {pre rest : List (Clique × Clique)} {i j : Clique} (hsplit : order = pre ++ (i, j) :: rest)
    {st : CliqueVec (LogOf K) × Msgs (LogOf K)} (inv : Inv d t pots pre st)
    (msg : Factor (LogOf K)) (hmsg : MsgOK d i j msg)
    (hKE : ∀ τ, (pots.get j).dom.Valid τ →
      ((st.1.get j).sem τ).v * (msg.sem τ).v
        = ((st.1.get j).sem τ).v * M d t (psi pots) i j τ)
    (hexact : (j, i) ∉ pre → ∀ τ, msg.dom.Valid τ → (msg.sem τ).v = M d t (psi pots) i j τ) :
    Inv d t pots (pre ++ [(i, j)])
      (st.1.set j ((st.1.get j).iadd msg), st.2 ++ [((i, j), msg)]) := by
  obtain ⟨hpre_nd, hij_pre, hadj, hpre_sub⟩ := split_facts mk.so hsplit
  have hj : j ∈ t.nodes := (mk.cx.tree.ends i j hadj).2.1
  have hjk : j ∈ st.1.map Prod.fst := by rw [inv.keys, mk.keys]; exact hj
  obtain ⟨hbjw, hbjd, hbjs⟩ := inv.bel j hj
  obtain ⟨hpw, hpp, hpa⟩ := mk.pot j hj
  have hcont : (st.1.get j).dom.contains msg.dom = true := by
    rw [Dom.contains_iff, hbjd]
    intro a ha
    exact hpp.mem_iff.mpr (hmsg.2.1 a ha).2
  have hagr : msg.dom.Agrees (st.1.get j).dom := by
    rw [hbjd]
    apply agrees_of_sub hpw.1 hmsg.1.1 _ hpa hmsg.2.2
    intro a ha
    exact hpp.mem_iff.mpr (hmsg.2.1 a ha).2
  refine ⟨?_, ?_, ?_, ?_⟩
  · show (st.1.set j _).map Prod.fst = _
    rw [keys_set _ _ _ hjk, inv.keys]
  · intro c hc
    show ((st.1.set j ((st.1.get j).iadd msg)).get c).WF ∧ _
    by_cases hcj : c = j
    · subst hcj
      rw [get_set_self _ _ _ hjk]
      refine ⟨iop_WF _ _ _ hbjw hmsg.1 hcont hagr, hbjd, ?_⟩
      intro τ hτ
      have hτ' : (st.1.get c).dom.Valid τ := by rw [hbjd]; exact hτ
      have h1 : ((st.1.get c).iadd msg).sem τ = Scalar.add ((st.1.get c).sem τ) (msg.sem τ) :=
        Factor.sem_iop _ _ _ τ hbjw hmsg.1 hcont hagr hτ'
      rw [h1, log_add_v, hKE τ hτ, hbjs τ hτ, Pin_append, if_pos rfl, List.map_append,
        List.prod_append]
      simp only [List.map_cons, List.map_nil, List.prod_cons, List.prod_nil, mul_one]
      ring
    · rw [get_set_ne _ _ _ _ hjk hcj, Pin_append, if_neg (fun e => hcj e.symm)]
      exact inv.bel c hc
  · show (st.2 ++ [((i, j), msg)]).map Prod.fst = _
    rw [List.map_append, inv.mkeys]; rfl
  · intro a b hab hba
    show ∃ m, (st.2 ++ [((i, j), msg)]).lookup (a, b) = some m ∧ _
    rw [List.lookup_append]
    rcases List.mem_append.mp hab with hab | hab
    · have hba' : (b, a) ∉ pre := fun h => hba (List.mem_append_left _ h)
      obtain ⟨m, hm, hmo, hms⟩ := inv.msg a b hab hba'
      exact ⟨m, by rw [hm]; rfl, hmo, hms⟩
    · have hab' : (a, b) = (i, j) := by simpa using hab
      have ha : a = i := congrArg Prod.fst hab'
      have hb : b = j := congrArg Prod.snd hab'
      subst ha; subst hb
      have hba' : (b, a) ∉ pre := fun h => hba (List.mem_append_left _ h)
      have hnone : st.2.lookup (a, b) = none :=
        lookup_none_of_not_mem _ _ (by rw [inv.mkeys]; exact hij_pre)
      refine ⟨msg, ?_, hmsg, hexact hba'⟩
      rw [hnone]
      simp [List.lookup_cons]

theorem mem_X (D : Dom) (i j : Clique) (hp : D.attrs.Perm i) (a : Attr) :
    a ∈ D.removed (D.invert (JT.inter i j)) ↔ a ∈ i ∧ a ∉ j := by
  rw [mem_removed]
  simp only [Dom.invert, JT.inter, List.mem_filter, List.contains_iff_mem, Bool.not_eq_true',
    decide_eq_false_iff_not, not_and, hp.mem_iff, Bool.not_eq_eq_eq_not, Bool.not_true,
    List.contains_eq_mem]
  constructor
  · rintro ⟨h1, _, h2⟩
    refine ⟨h1, fun hj => ?_⟩
    have := h2
    simp [h1, hj] at this
  · rintro ⟨h1, h2⟩
    refine ⟨h1, h1, ?_⟩
    simp [h1, h2]

/-- the message computed from a `tau` with known exp-space values -/
theorem msg_of_tau {d : Dom} {i j : Clique} (Di : Dom) (hDi : Di.WF) (hperm : Di.attrs.Perm i)
    (hag : Di.Agrees d) (tau : Factor (LogOf K)) (T : (Attr → Nat) → K)
    (hw : tau.WF) (hd : tau.dom = Di) (hT : ∀ τ', Di.Valid τ' → (tau.sem τ').v = T τ') :
    MsgOK d i j (tau.logsumexp (Di.invert (JT.inter i j))) ∧
    ∀ τ, (tau.logsumexp (Di.invert (JT.inter i j))).dom.Valid τ →
      ((tau.logsumexp (Di.invert (JT.inter i j))).sem τ).v
        = nsum d (Di.removed (Di.invert (JT.inter i j))) τ T := by
  have hag' : tau.dom.Agrees d := by rw [hd]; exact hag
  obtain ⟨h1, h2, h3, h4⟩ := logsumexp_ok d tau (Di.invert (JT.inter i j)) hw hag'
  refine ⟨⟨h1, ?_, h3⟩, ?_⟩
  · intro x hx
    have hx' := (h2 x).mp hx
    rw [hd] at hx'
    have hxi : x ∈ i := hperm.mem_iff.mp hx'.1
    refine ⟨hxi, ?_⟩
    by_contra hxj
    apply hx'.2
    simp only [Dom.invert, List.mem_filter]
    refine ⟨hx'.1, ?_⟩
    simp [JT.inter, hxj]
  · intro τ hτ
    have := logsumexp_nsum d tau (Di.invert (JT.inter i j)) τ T hw hag' (h4 τ hτ)
      (fun τ' hτ' => hT τ' (by rw [← hd]; exact hτ'))
    rw [this, hd]

section cases
variable {d : Dom} {t : Tree} {order : List (Clique × Clique)} {pots : CliqueVec (LogOf K)}
  (mk : MOK d t order pots) {pre rest : List (Clique × Clique)} {i j : Clique}
  (hsplit : order = pre ++ (i, j) :: rest)
include mk hsplit

theorem Pin_A (hji : (j, i) ∉ pre) (k : Clique) : k ∈ Pin pre i ↔ t.adj i k = true ∧ k ≠ j := by
  obtain ⟨_, _, _, hpre_sub⟩ := split_facts mk.so hsplit
  rw [mem_Pin]
  constructor
  · intro h
    refine ⟨?_, fun e => hji (e ▸ h)⟩
    rw [tree_adj_symm]; exact mk.so.adj_of_mem k i (hpre_sub _ h)
  · rintro ⟨h1, h2⟩
    exact mk.so.respects pre rest i j hsplit k h1 h2

theorem Pin_B (hji : (j, i) ∈ pre) (k : Clique) : k ∈ Pin pre i ↔ t.adj i k = true := by
  obtain ⟨_, _, _, hpre_sub⟩ := split_facts mk.so hsplit
  rw [mem_Pin]
  constructor
  · intro h
    rw [tree_adj_symm]; exact mk.so.adj_of_mem k i (hpre_sub _ h)
  · intro h1
    by_cases hkj : k = j
    · subst hkj; exact hji
    · exact mk.so.respects pre rest i j hsplit k h1 hkj

theorem Pin_j (hji : (j, i) ∈ pre) (k : Clique) : k ∈ Pin pre j ↔ t.adj j k = true ∧ k ≠ i := by
  obtain ⟨_, hij_pre, _, hpre_sub⟩ := split_facts mk.so hsplit
  rw [mem_Pin]
  constructor
  · intro h
    refine ⟨?_, fun e => hij_pre (e ▸ h)⟩
    rw [tree_adj_symm]; exact mk.so.adj_of_mem k j (hpre_sub _ h)
  · rintro ⟨h1, h2⟩
    obtain ⟨s1, s2, hs⟩ := List.append_of_mem hji
    have hsplit' : order = s1 ++ (j, i) :: (s2 ++ (i, j) :: rest) := by
      rw [hsplit, hs]; simp
    have := mk.so.respects s1 _ j i hsplit' k h1 h2
    rw [hs]; exact List.mem_append_left _ this

theorem caseA (hji : (j, i) ∉ pre) (X : List Attr) (hX : X.Nodup)
    (hXm : ∀ a, a ∈ X ↔ a ∈ i ∧ a ∉ j) (τ : Attr → Nat) :
    nsum d X τ (fun τ' => psi pots i τ' * ((Pin pre i).map (fun k => M d t (psi pots) k i τ')).prod)
      = M d t (psi pots) i j τ := by
  obtain ⟨hpre_nd, _, hadj, _⟩ := split_facts mk.so hsplit
  have hi : i ∈ t.nodes := (mk.cx.tree.ends i j hadj).1
  exact (M_rec mk.cx i j hi (Or.inl hadj) (Pin pre i) (Pin_nodup pre i hpre_nd)
    (Pin_A mk hsplit hji) X hX hXm τ).symm

theorem caseB (hji : (j, i) ∈ pre) (X : List Attr) (hX : X.Nodup)
    (hXm : ∀ a, a ∈ X ↔ a ∈ i ∧ a ∉ j) (τ : Attr → Nat) :
    nsum d X τ (fun τ' => (psi pots i τ' * ((Pin pre i).map (fun k => M d t (psi pots) k i τ')).prod)
        * nia (M d t (psi pots) j i τ'))
      = M d t (psi pots) i j τ * (if M d t (psi pots) j i τ = 0 then 0 else 1) := by
  obtain ⟨hpre_nd, _, hadj, _⟩ := split_facts mk.so hsplit
  have hi : i ∈ t.nodes := (mk.cx.tree.ends i j hadj).1
  have hadj' : t.adj j i = true := by rw [tree_adj_symm]; exact hadj
  have hjP : j ∈ Pin pre i := (mem_Pin pre i j).mpr hji
  have hPnd := Pin_nodup pre i hpre_nd
  have hperm : (Pin pre i).Perm (j :: (Pin pre i).erase j) := List.perm_cons_erase hjP
  have hKs : ∀ k, k ∈ (Pin pre i).erase j ↔ t.adj i k = true ∧ k ≠ j := by
    intro k
    rw [hPnd.mem_erase_iff, Pin_B mk hsplit hji k]
    exact ⟨fun h => ⟨h.2, h.1⟩, fun h => ⟨h.2, h.1⟩⟩
  have hrec := M_rec mk.cx i j hi (Or.inl hadj) ((Pin pre i).erase j) (hPnd.erase j) hKs X hX hXm τ
  have hdep := M_depOn mk.cx j i hadj'
  rw [hrec, ← nsum_mul_right d X τ _ (fun _ => if M d t (psi pots) j i τ = 0 then (0 : K) else 1)
    (fun _ _ _ => rfl)]
  apply nsum_congr_fun
  intro τ' h1 _
  have hM : M d t (psi pots) j i τ' = M d t (psi pots) j i τ := by
    apply hdep
    intro a ha
    apply h1 a
    intro haX
    exact ((hXm a).mp haX).2 ha.1
  have hprod : ((Pin pre i).map (fun k => M d t (psi pots) k i τ')).prod
      = M d t (psi pots) j i τ' * (((Pin pre i).erase j).map (fun k => M d t (psi pots) k i τ')).prod := by
    rw [(hperm.map _).prod_eq, List.map_cons, List.prod_cons]
  rw [hprod, ← hM, ← mul_nia]
  ring

theorem zero_lemma (hji : (j, i) ∈ pre) (τ : Attr → Nat) (hτ : (pots.get j).dom.Valid τ)
    (h0 : M d t (psi pots) j i τ = 0) :
    psi pots j τ * ((Pin pre j).map (fun k => M d t (psi pots) k j τ)).prod = 0 := by
  obtain ⟨hpre_nd, _, hadj, _⟩ := split_facts mk.so hsplit
  have hj : j ∈ t.nodes := (mk.cx.tree.ends i j hadj).2.1
  have hadj' : t.adj j i = true := by rw [tree_adj_symm]; exact hadj
  obtain ⟨hpw, hpp, hpa⟩ := mk.pot j hj
  have hrec := M_rec mk.cx j i hj (Or.inl hadj') (Pin pre j) (Pin_nodup pre j hpre_nd)
    (Pin_j mk hsplit hji) _ (removed_nodup _ hpw.1 _) (mem_X _ j i hpp) τ
  rw [hrec] at h0
  refine nsum_eq_zero d _ τ
    (fun τ' => psi pots j τ' * ((Pin pre j).map (fun k => M d t (psi pots) k j τ')).prod) ?_ h0 ?_
  · intro τ'
    apply mul_nonneg (mk.cx.psi_nonneg j hj τ')
    apply List.prod_nonneg
    intro x hx
    obtain ⟨k, _, rfl⟩ := List.mem_map.mp hx
    exact M_nonneg mk.cx k j τ'
  · intro a ha
    have ha' := ((mem_removed _ _ _).mp ha).1
    rw [agrees_cfg hpw.1 hpa ha']
    exact (Dom.valid_iff _ hpw.1 τ).mp hτ a ha'

end cases

theorem valid_msg_of_valid {d D : Dom} {c a b : Clique} (hD : D.WF) (hp : D.attrs.Perm c)
    (hag : D.Agrees d) (m : Factor (LogOf K)) (hm : MsgOK d a b m)
    (hsub : ∀ x ∈ m.dom.attrs, x ∈ c) (τ : Attr → Nat) (hτ : D.Valid τ) : m.dom.Valid τ := by
  have hsub' : ∀ x ∈ m.dom.attrs, x ∈ D.attrs := fun x hx => hp.mem_iff.mpr (hsub x hx)
  exact Dom.valid_of_agrees m.dom D hm.1.1 hD ((Dom.contains_iff _ _).mpr hsub')
    (agrees_of_sub hD hm.1.1 hsub' hag hm.2.2) τ hτ

theorem step_inv {d : Dom} {t : Tree} {order : List (Clique × Clique)}
    {pots : CliqueVec (LogOf K)} (mk : MOK d t order pots)
    {pre rest : List (Clique × Clique)} {i j : Clique} (hsplit : order = pre ++ (i, j) :: rest)
    {st : CliqueVec (LogOf K) × Msgs (LogOf K)} (inv : Inv d t pots pre st) :
    Inv d t pots (pre ++ [(i, j)]) (bpStep st (i, j)) := by
  obtain ⟨hpre_nd, hij_pre, hadj, hpre_sub⟩ := split_facts mk.so hsplit
  have hi := (mk.cx.tree.ends i j hadj).1
  have hj := (mk.cx.tree.ends i j hadj).2.1
  obtain ⟨hbiw, hbid, hbis⟩ := inv.bel i hi
  obtain ⟨hpiw, hpip, hpia⟩ := mk.pot i hi
  obtain ⟨hbjw, hbjd, hbjs⟩ := inv.bel j hj
  obtain ⟨hpjw, hpjp, hpja⟩ := mk.pot j hj
  have hX := removed_nodup (pots.get i).dom hpiw.1 ((pots.get i).dom.invert (JT.inter i j))
  have hXm := mem_X (pots.get i).dom i j hpip
  have hstep : bpStep st (i, j) =
      (st.1.set j ((st.1.get j).iadd ((tauOf (st.1.get i) (st.2.lookup (j, i))).logsumexp
          ((pots.get i).dom.invert (JT.inter i j)))),
       st.2 ++ [((i, j), (tauOf (st.1.get i) (st.2.lookup (j, i))).logsumexp
          ((pots.get i).dom.invert (JT.inter i j)))]) := by
    unfold bpStep
    dsimp only
    rw [hbid]
  rw [hstep]
  by_cases hji : (j, i) ∈ pre
  · obtain ⟨m, hm, hmo, hms⟩ := inv.msg j i hji hij_pre
    rw [hm]
    have htau : tauOf (st.1.get i) (some m) = (st.1.get i).sub m := rfl
    rw [htau]
    have hsubm : ∀ x ∈ m.dom.attrs, x ∈ i := fun x hx => (hmo.2.1 x hx).2
    have hcont : (st.1.get i).dom.contains m.dom = true := by
      rw [Dom.contains_iff, hbid]
      intro a ha
      exact hpip.mem_iff.mpr (hsubm a ha)
    have hcompat : (st.1.get i).dom.Compatible m.dom := by
      rw [hbid]; exact compatible_of_agrees_both hpiw.1 hmo.1.1 hpia hmo.2.2
    have hw := sub_WF _ _ hbiw hmo.1 hcompat
    have hd : ((st.1.get i).sub m).dom = (pots.get i).dom := by rw [sub_dom _ _ hcont, hbid]
    have hT : ∀ τ', (pots.get i).dom.Valid τ' → (((st.1.get i).sub m).sem τ').v
        = (psi pots i τ' * ((Pin pre i).map (fun k => M d t (psi pots) k i τ')).prod)
          * nia (M d t (psi pots) j i τ') := by
      intro τ' hτ'
      have hv : ((st.1.get i).dom.merge m.dom).Valid τ' := by
        rw [Dom.merge_eq_self_of_contains _ _ hcont, hbid]; exact hτ'
      rw [sub_sem_v _ _ τ' hbiw hmo.1 hcompat hv, hbis τ' hτ',
        hms τ' (valid_msg_of_valid hpiw.1 hpip hpia m hmo hsubm τ' hτ')]
    obtain ⟨hmsgok, hmsgsem⟩ := msg_of_tau (i := i) (j := j) (pots.get i).dom hpiw.1 hpip hpia _ _ hw hd hT
    apply step_tail mk hsplit inv _ hmsgok
    · intro τ hτ
      rw [hmsgsem τ (valid_msg_of_valid hpjw.1 hpjp hpja _ hmsgok
        (fun x hx => (hmsgok.2.1 x hx).2) τ hτ), caseB mk hsplit hji _ hX hXm τ]
      by_cases h0 : M d t (psi pots) j i τ = 0
      · rw [hbjs τ hτ, zero_lemma mk hsplit hji τ hτ h0]; simp
      · rw [if_neg h0, mul_one]
    · intro h; exact absurd hji h
  · have hnone : st.2.lookup (j, i) = none :=
      lookup_none_of_not_mem _ _ (by rw [inv.mkeys]; exact hji)
    rw [hnone]
    have htau : tauOf (st.1.get i) none = st.1.get i := rfl
    rw [htau]
    obtain ⟨hmsgok, hmsgsem⟩ := msg_of_tau (i := i) (j := j) (pots.get i).dom hpiw.1 hpip hpia
      (st.1.get i) _ hbiw hbid hbis
    apply step_tail mk hsplit inv _ hmsgok
    · intro τ hτ
      rw [hmsgsem τ (valid_msg_of_valid hpjw.1 hpjp hpja _ hmsgok
        (fun x hx => (hmsgok.2.1 x hx).2) τ hτ), caseA mk hsplit hji _ hX hXm τ]
    · intro _ τ hτ
      rw [hmsgsem τ hτ, caseA mk hsplit hji _ hX hXm τ]

/-- the invariant holds after the whole schedule -/
theorem loop_inv {d : Dom} {t : Tree} {order : List (Clique × Clique)}
    {pots : CliqueVec (LogOf K)} (mk : MOK d t order pots) :
    ∀ (rest pre : List (Clique × Clique)) (st : CliqueVec (LogOf K) × Msgs (LogOf K)),
      order = pre ++ rest → Inv d t pots pre st → Inv d t pots order (rest.foldl bpStep st) := by
  intro rest
  induction rest with
  | nil =>
    intro pre st h inv
    rw [List.append_nil] at h
    rw [h]; exact inv
  | cons e rest ih =>
    intro pre st h inv
    obtain ⟨i, j⟩ := e
    rw [List.foldl_cons]
    apply ih (pre ++ [(i, j)])
    · rw [h]; simp
    · exact step_inv mk h inv

theorem init_inv {d : Dom} {t : Tree} {order : List (Clique × Clique)}
    {pots : CliqueVec (LogOf K)} (mk : MOK d t order pots) : Inv d t pots [] (pots, []) := by
  refine ⟨rfl, ?_, rfl, ?_⟩
  · intro c hc
    refine ⟨(mk.pot c hc).1, rfl, ?_⟩
    intro τ _
    simp [Pin, psi]
  · intro a b h; simp at h

theorem final_inv {d : Dom} {t : Tree} {order : List (Clique × Clique)}
    {pots : CliqueVec (LogOf K)} (mk : MOK d t order pots) :
    Inv d t pots order (bpLoop order pots) := by
  rw [bpLoop_eq]
  exact loop_inv mk order [] (pots, []) rfl (init_inv mk)

/-- at the end every belief is the clique marginal -/
theorem final_belief {d : Dom} {t : Tree} {order : List (Clique × Clique)}
    {pots : CliqueVec (LogOf K)} (mk : MOK d t order pots) (c : Clique) (hc : c ∈ t.nodes) :
    ((bpLoop order pots).1.get c).WF ∧ ((bpLoop order pots).1.get c).dom = (pots.get c).dom ∧
    ∀ τ, (pots.get c).dom.Valid τ →
      (((bpLoop order pots).1.get c).sem τ).v
        = nsum d (d.invert c) τ (F (psi pots) t.nodes) := by
  obtain ⟨h1, h2, h3⟩ := (final_inv mk).bel c hc
  refine ⟨h1, h2, ?_⟩
  intro τ hτ
  rw [h3 τ hτ, ← M_self mk.cx c hc τ]
  have hmem : ∀ k, k ∈ Pin order c ↔ t.adj c k = true ∧ k ≠ c := by
    intro k
    rw [mem_Pin]
    constructor
    · intro h
      have := mk.so.adj_of_mem k c h
      exact ⟨by rw [tree_adj_symm]; exact this, (mk.cx.tree.ends k c this).2.2⟩
    · rintro ⟨h, _⟩
      exact mk.so.mem_of_adj k c (by rw [tree_adj_symm]; exact h)
  have := M_rec mk.cx c c hc (Or.inr rfl) (Pin order c) (Pin_nodup order c mk.so.nodup) hmem []
    List.nodup_nil (by intro a; simp) τ
  rw [this]
  rfl

end PGM.Sem.BP
