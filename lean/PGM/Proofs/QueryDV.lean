import PGM.Proofs.VECorrect
import PGM.Proofs.Dataset
/-! `datavector`: the materialised joint -/
namespace PGM.Sem
open PGM PGM.JT PGM.GM
variable {K : Type} [Field K] [LinearOrder K] [IsStrictOrderedRing K]
set_option linter.unusedVariables false
set_option linter.unusedSectionVars false

theorem assign_eq_override (cols : List Attr) (c : List Nat) :
    Dom.assign cols c = Dom.override (fun _ => 0) cols c := rfl

theorem valid_assign (d : Dom) (hd : d.WF) (idx : List Nat) (hidx : InRange d.shape idx) :
    d.Valid (Dom.assign d.attrs idx) := by
  rw [Dom.valid_iff d hd]
  intro a ha
  rw [assign_eq_override, override_of_mem _ _ _ _ ha]
  rw [Dom.shape_eq_map_cfg d hd] at hidx
  have hr := (NdArr.inRange_iff _ _).mp hidx
  have hlt : d.attrs.idxOf a < (d.attrs.map d.cfg).length := by
    simpa using List.idxOf_lt_length_iff.mpr ha
  have := hr.2 _ hlt
  rwa [getD_map_idxOf d.attrs d.cfg 0 a ha] at this

theorem map_assign_self (d : Dom) (hd : d.WF) (idx : List Nat) (hidx : InRange d.shape idx) :
    d.attrs.map (Dom.assign d.attrs idx) = idx := by
  rw [assign_eq_override]
  apply map_override_self _ _ _ hd
  rw [hidx.length_eq, Dom.length_shape, Dom.length_attrs]

/-- the flat data of a well-formed factor at `ravel idx` is its value at the cell `idx` -/
theorem data_getElem_ravel {α : Type} [Scalar α] (f : Factor α) (hf : f.WF) (idx : List Nat)
    (hidx : InRange f.dom.shape idx) :
    f.vals.data.toList[ravel f.dom.shape idx]? = some (f.sem (Dom.assign f.dom.attrs idx)) := by
  rw [data_toList_eq _ hf.2.2, List.getElem?_map, hf.2.1, cells_getElem_ravel _ _ hidx]
  simp only [Option.map_some, Factor.sem]
  rw [map_assign_self f.dom hf.1 idx hidx]

/-- general form: the clique keys may repeat as long as looking them up returns the listed tables -/
theorem datavector_correct_gen (d : Dom) (cliques : List Clique) (pots : CliqueVec (LogOf K))
    (total : LogOf K) (hd : d.WF) (hfs : FactorsOK d (pots.map Prod.snd))
    (hget : cliques.map pots.get = pots.map Prod.snd)
    (hne : pots ≠ []) (hcover : ∀ a ∈ d.attrs, ∃ p ∈ pots, a ∈ p.2.dom.attrs)
    (idx : List Nat) (hidx : InRange d.shape idx) :
    (datavectorScale ((datavectorCore d cliques pots).vals.data.toList.map (fun x => (⟨x.v⟩ : PlainOf K)))
        ⟨1⟩ ⟨total.v⟩)[ravel d.shape idx]?
      = some ⟨joint pots (Dom.assign d.attrs idx) / partition d pots * 1 * total.v⟩ := by
  unfold datavectorCore
  rw [hget]
  cases hp : pots.map Prod.snd with
  | nil => exact absurd (List.map_eq_nil_iff.mp hp) hne
  | cons p ps =>
    simp only []
    have hpOK : FactorOK d p := hfs p (by rw [hp]; simp)
    have hpsOK : ∀ f ∈ ps, FactorOK d f := fun f hf => hfs f (by rw [hp]; simp [hf])
    have hlogp : FactorOK d (ps.foldl (Factor.binop Scalar.add) p) :=
      foldl_binop_ok Scalar.add ps p hpOK hpsOK
    have hattrs : ∀ a, a ∈ (ps.foldl (Factor.binop Scalar.add) p).dom.attrs ↔ a ∈ d.attrs := by
      intro a
      rw [foldl_binop_mem_attrs]
      constructor
      · rintro ⟨f, hf, ha⟩
        exact (hfs f (by rw [hp]; exact hf)).2.2 a ha
      · intro ha
        obtain ⟨q, hq, haq⟩ := hcover a ha
        exact ⟨q.2, by rw [← hp]; exact List.mem_map_of_mem hq, haq⟩
    have hsem : ∀ σ, d.Valid σ → ((ps.foldl (Factor.binop Scalar.add) p).sem σ).v = joint pots σ := by
      intro σ hσ
      rw [val_sem_foldl_binop Scalar.add (fun x : LogOf K => x.v) log_add_v hd ps p hpOK hpsOK hσ,
        ← hp, prod_snd_eq_joint]
    show (datavectorScale ((((((ps.foldl (Factor.binop Scalar.add) p).subScalar
      (ps.foldl (Factor.binop Scalar.add) p).logsumexpAll).exp).expand d).vals.data.toList.map
        (fun x => (⟨x.v⟩ : PlainOf K)))) ⟨1⟩ ⟨total.v⟩)[ravel d.shape idx]? = _
    generalize ps.foldl (Factor.binop Scalar.add) p = logp at hlogp hattrs hsem
    have h1 : FactorOK d (logp.subScalar logp.logsumexpAll) :=
      FactorOK.mapVals (fun v => Scalar.sub v logp.logsumexpAll) hlogp
    have h2 : FactorOK d (logp.subScalar logp.logsumexpAll).exp := FactorOK.mapVals Scalar.exp h1
    have hc : d.contains (logp.subScalar logp.logsumexpAll).exp.dom = true :=
      (Dom.contains_iff d _).mpr h2.2.2
    have hE := Factor.expand_WF _ d h2.1 hd hc h2.2.1
    have hσ := valid_assign d hd idx hidx
    have hdata := data_getElem_ravel _ hE idx hidx
    rw [Factor.expand_dom] at hdata
    unfold datavectorScale
    rw [List.map_map, List.getElem?_map, hdata]
    simp only [Option.map_some, Function.comp]
    rw [Factor.sem_expand _ d _ h2.1 hd hc h2.2.1 hσ]
    have e2 : ((logp.subScalar logp.logsumexpAll).exp).sem (Dom.assign d.attrs idx)
        = Scalar.exp ((logp.subScalar logp.logsumexpAll).sem (Dom.assign d.attrs idx)) :=
      sem_mapVals Scalar.exp _ _ h1.1 (h1.valid hd hσ)
    have e1 : (logp.subScalar logp.logsumexpAll).sem (Dom.assign d.attrs idx)
        = Scalar.sub (logp.sem (Dom.assign d.attrs idx)) logp.logsumexpAll :=
      sem_mapVals (fun v => Scalar.sub v logp.logsumexpAll) _ _ hlogp.1 (hlogp.valid hd hσ)
    have hperm : logp.dom.attrs.Perm d.attrs := by
      rw [List.perm_ext_iff_of_nodup hlogp.1.1 hd]
      exact hattrs
    have hZ : logp.logsumexpAll.v = partition d pots := by
      unfold Factor.logsumexpAll partition
      rw [val_reduceAll Scalar.lse (fun x : LogOf K => x.v) log_lse_v hlogp (Dom.assign d.attrs idx),
        sumOver_congr_valid d hd logp.dom.attrs _ _ _ hσ (fun τ hτ => hsem τ hτ),
        sumOver_perm d _ _ _ _ hperm hlogp.1.1]
      exact sumOver_base_congr d d.attrs _ _ _ (fun a ha => rfl) |>.trans
        (sumOver_base_congr_of_dependsOn d d.attrs d.attrs _ _ _
          (by
            have := dependsOn_prod (fun x : LogOf K => x.v) (pots.map Prod.snd) d.attrs
              (fun f hf => (hfs f hf).2.2)
            intro σ τ h
            have := this σ τ h
            simpa only [prod_snd_eq_joint] using this)
          (fun a ha hna => absurd ha hna))
    rw [e2, e1, log_exp]
    congr 1
    show (⟨((Scalar.sub (logp.sem (Dom.assign d.attrs idx)) logp.logsumexpAll).v * 1) * total.v⟩ : PlainOf K) = _
    rw [log_sub_v, hsem _ hσ, hZ, div_eq_mul_inv]

end PGM.Sem
