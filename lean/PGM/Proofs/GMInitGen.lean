import PGM.Proofs.JTWeightReach
import PGM.Proofs.JTree
import PGM.Proofs.JTPreorder
import PGM.Proofs.JTSchedule
/-!
# helper lemmas for the end-to-end tie of `GraphicalModel.__init__` (PGM/Properties/C01E.lean)

`GraphicalModel.__init__` stores `self.cliques = list(nx.dfs_preorder_nodes(tree))`: the nodes of the junction tree in
*another order* than `tree.nodes()`.  The C01 theorems take the clique list as the node list of the tree (`ModelOK.nodes`), so the
tree is re-listed (`Tree.withNodes`); the executable checker `checkJT` does not see the difference (`checkJT_withNodes`).
Also: `checkJT` accepts whatever satisfies the clauses the C12 theorems conclude (`checkJT_of_clauses`).
-/
namespace PGM.JT
open SimpleGraph

/-- the same tree with its nodes listed in another order -/
def Tree.withNodes (t : Tree) (l : List Clique) : Tree := { nodes := l, edges := t.edges }

theorem Tree.withNodes_adj (t : Tree) (l : List Clique) (a b : Clique) : (t.withNodes l).adj a b = t.adj a b := rfl

theorem connectedWithin_withNodes (t : Tree) (nodes' l l' : List Clique) (hl : l.Nodup) (hp : l'.Perm l) :
    connectedWithin (t.withNodes nodes') l' = connectedWithin t l := by
  by_cases hne : l = []
  · subst hne
    rw [List.perm_nil.mp hp]
    rfl
  · have hne' : l' ≠ [] := fun h => hne (by rw [h] at hp; exact List.nil_perm.mp hp)
    rw [Bool.eq_iff_iff, connectedWithin_iff _ _ (hp.nodup_iff.mpr hl) hne', connectedWithin_iff _ _ hl hne]
    have hset : {n : Clique | n ∈ l'} = {n : Clique | n ∈ l} := by
      ext n; exact hp.mem_iff
    show ((treeGraph t).induce {n : Clique | n ∈ l'}).Connected ↔ ((treeGraph t).induce {n : Clique | n ∈ l}).Connected
    rw [hset]

theorem isTree_withNodes (t : Tree) (l : List Clique) (hnd : t.nodes.Nodup) (hp : l.Perm t.nodes) :
    isTree (t.withNodes l) = isTree t := by
  unfold isTree
  have h1 : nodup (t.withNodes l).nodes = nodup t.nodes := by
    rw [Bool.eq_iff_iff, nodup_iff, nodup_iff]; exact hp.nodup_iff
  have h2 : ((t.withNodes l).edges.length + 1 == (t.withNodes l).nodes.length) = (t.edges.length + 1 == t.nodes.length) := by
    show (t.edges.length + 1 == l.length) = _
    rw [hp.length_eq]
  have h3 : (t.withNodes l).edges.all (fun e => (t.withNodes l).nodes.contains e.1 && (t.withNodes l).nodes.contains e.2 && e.1 != e.2)
      = t.edges.all (fun e => t.nodes.contains e.1 && t.nodes.contains e.2 && e.1 != e.2) := by
    show t.edges.all (fun e => l.contains e.1 && l.contains e.2 && e.1 != e.2) = _
    congr 1
    funext e
    have c1 : l.contains e.1 = t.nodes.contains e.1 := by
      rw [Bool.eq_iff_iff, List.contains_iff_mem, List.contains_iff_mem]; exact hp.mem_iff
    have c2 : l.contains e.2 = t.nodes.contains e.2 := by
      rw [Bool.eq_iff_iff, List.contains_iff_mem, List.contains_iff_mem]; exact hp.mem_iff
    rw [c1, c2]
  have h4 : connectedWithin (t.withNodes l) (t.withNodes l).nodes = connectedWithin t t.nodes :=
    connectedWithin_withNodes t l t.nodes l hnd hp
  rw [h1, h2, h3, h4]

theorem rip_withNodes (attrs : List Attr) (t : Tree) (l : List Clique) (hnd : t.nodes.Nodup) (hp : l.Perm t.nodes) :
    rip attrs (t.withNodes l) = rip attrs t := by
  unfold rip
  congr 1
  funext a
  exact connectedWithin_withNodes t l _ _ (hnd.filter _) (hp.filter _)

theorem scheduleRespects_withNodes (t : Tree) (l : List Clique) (hp : l.Perm t.nodes) (order : List (Clique × Clique)) :
    ∀ before, scheduleRespects (t.withNodes l) before order = scheduleRespects t before order := by
  induction order with
  | nil => intro before; rfl
  | cons ij rest ih =>
    intro before
    obtain ⟨i, j⟩ := ij
    simp only [scheduleRespects]
    rw [ih]
    congr 1
    exact (hp.filter _).all_eq

/-- **the checker does not depend on the order in which the tree's nodes are listed** -/
theorem checkJT_withNodes (attrs : List Attr) (cliques : List Clique) (t : Tree) (order : List (Clique × Clique))
    (l : List Clique) (hnd : t.nodes.Nodup) (hp : l.Perm t.nodes) :
    checkJT attrs cliques (t.withNodes l) order = checkJT attrs cliques t order := by
  unfold checkJT
  have h1 : coversInput cliques (t.withNodes l).nodes = coversInput cliques t.nodes := by
    unfold coversInput; congr 1; funext c; exact hp.any_eq
  have h2 : coversDomain attrs (t.withNodes l).nodes = coversDomain attrs t.nodes := by
    unfold coversDomain; congr 1; funext a; exact hp.any_eq
  have h3 : antichain (t.withNodes l).nodes = antichain t.nodes := by
    unfold antichain
    show l.all (fun a => l.all (fun b => a == b || !(subset a b))) = _
    rw [hp.all_eq]
    congr 1; funext a; exact hp.all_eq
  rw [h1, h2, h3, isTree_withNodes t l hnd hp, rip_withNodes attrs t l hnd hp,
    scheduleRespects_withNodes t l hp order []]
  rfl

/-- the checker accepts what the C12 theorems conclude about the construction and its schedule -/
theorem checkJT_of_clauses (attrs : List Attr) (cliques : List Clique) (t : Tree) (order : List (Clique × Clique))
    (hcov : ∀ c ∈ cliques, ∃ n ∈ t.nodes, ∀ a ∈ c, a ∈ n) (hdom : ∀ a ∈ attrs, ∃ n ∈ t.nodes, a ∈ n)
    (hanti : ∀ n ∈ t.nodes, ∀ m ∈ t.nodes, (∀ a ∈ n, a ∈ m) → n = m)
    (ht : isTree t = true) (hrip : rip attrs t = true)
    (hsc : scheduleComplete t order = true) (hsr : scheduleRespects t [] order = true) :
    checkJT attrs cliques t order = true := by
  unfold checkJT
  rw [ht, hrip, hsc, hsr]
  have h1 : coversInput cliques t.nodes = true := by
    simp only [coversInput, List.all_eq_true, List.any_eq_true]
    intro c hc
    obtain ⟨n, hn, hsub⟩ := hcov c hc
    exact ⟨n, hn, (subset_iff c n).mpr hsub⟩
  have h2 : coversDomain attrs t.nodes = true := by
    simp only [coversDomain, List.all_eq_true, List.any_eq_true, List.contains_iff_mem]
    exact hdom
  have h3 : antichain t.nodes = true := by
    simp only [antichain, List.all_eq_true, Bool.or_eq_true, beq_iff_eq, Bool.not_eq_true']
    intro a ha b hb
    by_cases hs : subset a b = true
    · exact Or.inl (hanti a ha b hb ((subset_iff a b).mp hs))
    · exact Or.inr (by simpa using hs)
  rw [h1, h2, h3]
  rfl

/-- a preorder of a tree lists the tree's nodes, each once -/
theorem isPreorder_perm (t : Tree) (l : List Clique) (hnd : t.nodes.Nodup) (hl : isPreorder t l = true) :
    l.Nodup ∧ l.Perm t.nodes := by
  obtain ⟨h1, h2, h3, _⟩ := (isPreorder_iff t l).mp hl
  refine ⟨h1, ((List.subperm_of_subset hnd h3).perm_of_length_le (by omega)).symm⟩

/-- a complete schedule of a tree lists exactly the tree's messages -/
theorem scheduleComplete_mem (t : Tree) (ht : isTree t = true) (order : List (Clique × Clique))
    (h : scheduleComplete t order = true) (m : Msg) : m ∈ order ↔ m ∈ messages t := by
  simp only [scheduleComplete, Bool.and_eq_true, beq_iff_eq, List.all_eq_true, List.contains_iff_mem] at h
  obtain ⟨⟨h1, h2⟩, h3⟩ := h
  have hndM : (messages t).Nodup := (nodup_iff _).mp (isTree_messages_nodup t ht)
  have hsub : messages t ⊆ order := by
    intro x hx
    simp only [messages, List.mem_append, List.mem_map] at hx
    rcases hx with hx | ⟨e, he, rfl⟩
    · exact (h3 x hx).1
    · exact (h3 e he).2
  have hlen : (messages t).length = 2 * t.edges.length := by simp [messages]; omega
  exact ((List.subperm_of_subset hndM hsub).perm_of_length_le (by omega)).mem_iff.symm

end PGM.JT
