import PGM.Proofs.GbpFixedExact
/-!
# Existence of fixed points on region graphs whose `N` and `D` sets are empty

On a two-level region graph (maximal cliques and their pairwise separators, e.g. `A-B / B-C / B`) every message
`p → r` is `normalise(logsumexp_{p∖r} θ_p)`: it reads no other message.  The dictionary of these messages is a
cell-wise fixed point of the sweep (`flat_fixed`); it is the satisfiability witness of the conditional theorems.
-/
namespace PGM.GbpFixed
open PGM PGM.JT PGM.RG PGM.Convex PGM.Sem
set_option linter.unusedSectionVars false
set_option linter.unusedVariables false

theorem get_map_key (l : List Edge) (F : Edge → Factor ℝ) (e : Edge) (he : e ∈ l) :
    Msgs.get (l.map (fun k => (k, F k))) e = F e := by
  unfold Msgs.get
  induction l with
  | nil => simp at he
  | cons a l ih =>
    by_cases h : e = a
    · subst h; simp
    · have h' : (e == a) = false := by simpa using h
      have hl : e ∈ l := by
        rcases List.mem_cons.mp he with h1 | h1
        · exact absurd h1 h
        · exact h1
      simp only [List.map_cons, List.lookup_cons, h']
      exact ih hl

theorem cv_get_map_key (l : List Region) (F : Region → Factor ℝ) (r : Region) (hr : r ∈ l) :
    CliqueVec.get (l.map (fun k => (k, F k))) r = F r := by
  unfold CliqueVec.get
  induction l with
  | nil => simp at hr
  | cons a l ih =>
    by_cases h : r = a
    · subst h; simp
    · have h' : (r == a) = false := by simpa using h
      have hl : r ∈ l := by
        rcases List.mem_cons.mp hr with h1 | h1
        · exact absurd h1 h
        · exact h1
      simp only [List.map_cons, List.lookup_cons, h']
      exact ih hl

theorem zeros_sem_real (D : Dom) (τ : Attr → Nat) : (Factor.zeros D : Factor ℝ).sem τ = 0 := by
  show (Array.replicate (size D.shape) (Scalar.zero : ℝ)).getD (ravel D.shape (D.attrs.map τ)) default = 0
  rw [Array.getD_eq_getD_getElem?]
  by_cases h : ravel D.shape (D.attrs.map τ) < size D.shape
  · simp [h]; rfl
  · simp [h]; rfl

section
variable {dom : Dom} {g : RG.Graph} {pot : Region → Factor ℝ}

/-- the messages `normalise(logsumexp_{p∖r} θ_p)` -/
noncomputable def flatMsgs (g : RG.Graph) (pot : Region → Factor ℝ) : Msgs ℝ :=
  g.messageOrder.map (fun e => (e, newMsg g pot [] [] e))

/-- **a fixed point exists** on every region graph with empty `N`, `D` sets -/
theorem flat_fixed (hg : GraphOK dom g pot) (hpos : ∀ p ∈ dom, 0 < p.2) (hs : Shape g)
    (hND : ∀ e ∈ g.messageOrder, look g.N e = [] ∧ look g.D e = []) :
    Hyp dom g pot (flatMsgs g pot) ∧ SemFixed dom g pot (flatMsgs g pot) := by
  have h0 := hyp_nil hg hpos hs
  have hindep : ∀ e ∈ g.messageOrder, ∀ msgs new : Msgs ℝ, newMsg g pot msgs new e = newMsg g pot [] [] e := by
    intro e he msgs new
    unfold newMsg
    rw [(hND e he).1, (hND e he).2]
    rfl
  have hget : ∀ e ∈ g.messageOrder, (flatMsgs g pot).get e = newMsg g pot [] [] e := fun e he =>
    get_map_key g.messageOrder _ e he
  have hsub : ∀ e ∈ g.messageOrder, Sub dom e.2 ((flatMsgs g pot).get e) := by
    intro e he
    rw [hget e he]
    exact (newMsg_ok h0 [] he (by rw [(hND e he).2]; intro k hk; simp at hk)).1
  have hH : Hyp dom g pot (flatMsgs g pot) := ⟨hg, hpos, hs, hsub⟩
  refine ⟨hH, ?_⟩
  intro e he σ hσ
  rw [gbpSweep_get g pot _ hH.order_nodup e, if_pos he,
    newDict_get g pot _ hH.order_nodup hH.D_before e he, hindep e he, ← hget e he,
    damp2_sem hg.dom_wf (hsub e he) (hsub e he) hσ]
  ring

end
end PGM.GbpFixed
