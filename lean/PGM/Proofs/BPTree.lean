import PGM.Proofs.BPSum
import PGM.Proofs.BPGraph
import Mathlib.Data.List.Nodup
/-!
# True messages on a junction tree

`M i j τ` is the sum, over the attributes on `i`'s side of the edge `{i,j}` that are not in `j`, of
the product of the potentials on that side.  The recursion `M_rec` (Shafer–Shenoy) and its special
case `j = i` (the clique marginal) are the mathematical content of belief propagation.
-/
namespace PGM.Sem.BP
open PGM PGM.JT
set_option linter.unusedSectionVars false
set_option linter.unusedVariables false

variable {K : Type} [Field K] [LinearOrder K] [IsStrictOrderedRing K]

open Classical in
/-- the nodes on `i`'s side of the edge `{i,j}` -/
noncomputable def sideL (t : Tree) (i j : Clique) : List Clique :=
  t.nodes.filter (fun n => decide (Side t i j n))

/-- some node of `L` mentions `a` -/
def AttrOf (L : List Clique) (a : Attr) : Prop := ∃ n ∈ L, a ∈ n

open Classical in
/-- the attributes summed out by the message `i → j` -/
noncomputable def msgAttrs (d : Dom) (t : Tree) (i j : Clique) : List Attr :=
  d.attrs.filter (fun a => decide (AttrOf (sideL t i j) a ∧ a ∉ j))

/-- product of the potentials of the nodes in `L` -/
def F (ψ : Clique → (Attr → Nat) → K) (L : List Clique) (τ : Attr → Nat) : K :=
  (L.map (fun c => ψ c τ)).prod

/-- the true message -/
noncomputable def M (d : Dom) (t : Tree) (ψ : Clique → (Attr → Nat) → K) (i j : Clique)
    (τ : Attr → Nat) : K :=
  nsum d (msgAttrs d t i j) τ (F ψ (sideL t i j))

/-- hypotheses of the tree layer -/
structure Ctx (d : Dom) (t : Tree) (ψ : Clique → (Attr → Nat) → K) : Prop where
  tree : TreeOK t
  dom_wf : d.WF
  node_sub : ∀ c ∈ t.nodes, ∀ a ∈ c, a ∈ d.attrs
  covers : ∀ a ∈ d.attrs, ∃ n ∈ t.nodes, a ∈ n
  rip : ∀ a ∈ d.attrs, ∀ n ∈ t.nodes, ∀ m ∈ t.nodes, a ∈ n → a ∈ m →
    Conn t (t.nodes.filter (fun k => k.contains a)) n m
  psi_dep : ∀ c ∈ t.nodes, DepOn (ψ c) (fun a => a ∈ c)
  psi_nonneg : ∀ c ∈ t.nodes, ∀ τ, 0 ≤ ψ c τ

theorem mem_sideL (t : Tree) (i j n : Clique) : n ∈ sideL t i j ↔ n ∈ t.nodes ∧ Side t i j n := by
  simp [sideL]

theorem mem_msgAttrs (d : Dom) (t : Tree) (i j : Clique) (a : Attr) :
    a ∈ msgAttrs d t i j ↔ a ∈ d.attrs ∧ AttrOf (sideL t i j) a ∧ a ∉ j := by
  simp [msgAttrs]

theorem sideL_nodup (t : Tree) (i j : Clique) (h : t.nodes.Nodup) : (sideL t i j).Nodup := by
  unfold sideL; exact h.filter _

theorem msgAttrs_nodup (d : Dom) (t : Tree) (i j : Clique) (h : d.WF) : (msgAttrs d t i j).Nodup := by
  unfold msgAttrs; exact List.Nodup.filter _ h

theorem prod_flatMap_map {β γ : Type} (l : List β) (L : β → List γ) (g : γ → K) :
    ((l.flatMap L).map g).prod = (l.map (fun k => ((L k).map g).prod)).prod := by
  induction l with
  | nil => simp
  | cons x xs ih => simp [List.flatMap_cons, List.prod_append, ih]

section
variable {d : Dom} {t : Tree} {ψ : Clique → (Attr → Nat) → K} (cx : Ctx d t ψ)
include cx

/-- an attribute seen both inside and outside the side of `k` (w.r.t. the edge `{k,i}`) is in `i` -/
theorem attr_sep {k i n m : Clique} {a : Attr} (hn : n ∈ t.nodes) (hm : m ∈ t.nodes)
    (hsn : Side t k i n) (hsm : ¬ Side t k i m) (han : a ∈ n) (ham : a ∈ m) : a ∈ k ∧ a ∈ i :=
  rip_side t k i n m a (cx.rip a (cx.node_sub n hn a han) n hn m hm han ham) han hsn hsm

theorem F_depOn (L : List Clique) (hL : ∀ n ∈ L, n ∈ t.nodes) : DepOn (F ψ L) (AttrOf L) :=
  DepOn.list_prod L ψ (AttrOf L)
    (fun n hn => (cx.psi_dep n (hL n hn)).mono (fun a ha => ⟨n, hn, ha⟩))

theorem F_nonneg (L : List Clique) (hL : ∀ n ∈ L, n ∈ t.nodes) (τ : Attr → Nat) : 0 ≤ F ψ L τ := by
  apply List.prod_nonneg
  intro x hx
  obtain ⟨c, hc, rfl⟩ := List.mem_map.mp hx
  exact cx.psi_nonneg c (hL c hc) τ

theorem M_nonneg (i j : Clique) (τ : Attr → Nat) : 0 ≤ M d t ψ i j τ :=
  nsum_nonneg d _ τ _ (F_nonneg cx _ (fun n hn => ((mem_sideL t i j n).mp hn).1))

/-- a message only depends on the separator -/
theorem M_depOn (i j : Clique) (hij : t.adj i j = true) :
    DepOn (M d t ψ i j) (fun a => a ∈ i ∧ a ∈ j) := by
  have h1 := nsum_depOn d (msgAttrs d t i j) (F ψ (sideL t i j)) _
    (F_depOn cx (sideL t i j) (fun n hn => ((mem_sideL t i j n).mp hn).1))
  refine h1.mono ?_
  rintro a ⟨⟨n, hn, han⟩, hnot⟩
  rw [mem_sideL] at hn
  have had : a ∈ d.attrs := cx.node_sub n hn.1 a han
  have haj : a ∈ j := by
    by_contra hc
    exact hnot ((mem_msgAttrs d t i j a).mpr ⟨had, ⟨n, (mem_sideL t i j n).mpr hn, han⟩, hc⟩)
  have hj := (cx.tree.ends i j hij).2.1
  exact attr_sep cx hn.1 hj hn.2 (cx.tree.bridge i j hij) han haj

/-- the side of `i` (w.r.t. `j`) is `i` together with the sides hanging off its other neighbours -/
theorem sideL_perm (i j : Clique) (hi : i ∈ t.nodes) (Ks : List Clique) (hKs : Ks.Nodup)
    (hmem : ∀ k, k ∈ Ks ↔ t.adj i k = true ∧ k ≠ j) :
    (sideL t i j).Perm (i :: Ks.flatMap (fun k => sideL t k i)) := by
  have hadj : ∀ k ∈ Ks, t.adj k i = true := fun k hk => by
    rw [tree_adj_symm]; exact ((hmem k).mp hk).1
  rw [List.perm_ext_iff_of_nodup (sideL_nodup t i j cx.tree.nodes_nodup)]
  · intro n
    rw [mem_sideL, List.mem_cons, List.mem_flatMap]
    constructor
    · rintro ⟨hn, hs⟩
      rcases side_decomp hs with h | ⟨k, hk, hkj, hks⟩
      · exact Or.inl h
      · exact Or.inr ⟨k, (hmem k).mpr ⟨hk, hkj⟩, (mem_sideL t k i n).mpr ⟨hn, hks⟩⟩
    · rintro (h | ⟨k, hk, hks⟩)
      · subst h; exact ⟨hi, side_refl t _ j⟩
      · rw [mem_sideL] at hks
        exact ⟨hks.1, side_of_nbr cx.tree ((hmem k).mp hk).1 ((hmem k).mp hk).2 hks.2⟩
  · rw [List.nodup_cons]
    constructor
    · intro h
      obtain ⟨k, hk, hks⟩ := List.mem_flatMap.mp h
      exact cx.tree.bridge k i (hadj k hk) ((mem_sideL t k i i).mp hks).2
    · rw [List.nodup_flatMap]
      refine ⟨fun k _ => sideL_nodup t k i cx.tree.nodes_nodup, ?_⟩
      apply hKs.pairwise_of_forall_ne
      intro k hk k' hk' hne n hn hn'
      exact side_disjoint cx.tree ((hmem k).mp hk).1 ((hmem k').mp hk').1 hne
        ((mem_sideL t k i n).mp hn).2 ((mem_sideL t k' i n).mp hn').2

theorem msgAttrs_disjoint (i k k' : Clique) (hk : t.adj i k = true) (hk' : t.adj i k' = true)
    (hne : k ≠ k') (a : Attr) (ha : a ∈ msgAttrs d t k' i) : ¬ AttrOf (sideL t k i) a := by
  rintro ⟨n, hn, han⟩
  rw [mem_msgAttrs] at ha
  obtain ⟨_, ⟨m, hm, ham⟩, hai⟩ := ha
  rw [mem_sideL] at hn hm
  have hnot : ¬ Side t k i m := fun h => side_disjoint cx.tree hk hk' hne h hm.2
  exact hai (attr_sep cx hn.1 hm.1 hn.2 hnot han ham).2

theorem msgAttrs_perm (i j : Clique) (hi : i ∈ t.nodes) (hij : t.adj i j = true ∨ j = i)
    (Ks : List Clique) (hKs : Ks.Nodup)
    (hmem : ∀ k, k ∈ Ks ↔ t.adj i k = true ∧ k ≠ j)
    (X : List Attr) (hX : X.Nodup) (hXm : ∀ a, a ∈ X ↔ a ∈ i ∧ a ∉ j) :
    (msgAttrs d t i j).Perm (X ++ Ks.flatMap (fun k => msgAttrs d t k i)) := by
  have hside := sideL_perm cx i j hi Ks hKs hmem
  rw [List.perm_ext_iff_of_nodup (msgAttrs_nodup d t i j cx.dom_wf)]
  · intro a
    rw [mem_msgAttrs, List.mem_append, List.mem_flatMap, hXm]
    constructor
    · rintro ⟨had, ⟨n, hn, han⟩, haj⟩
      by_cases hai : a ∈ i
      · exact Or.inl ⟨hai, haj⟩
      · right
        have := hside.mem_iff.mp hn
        rw [List.mem_cons, List.mem_flatMap] at this
        rcases this with h | ⟨k, hk, hks⟩
        · subst h; exact absurd han hai
        · exact ⟨k, hk, (mem_msgAttrs d t k i a).mpr ⟨had, ⟨n, hks, han⟩, hai⟩⟩
    · rintro (⟨hai, haj⟩ | ⟨k, hk, hka⟩)
      · exact ⟨cx.node_sub i hi a hai, ⟨i, (mem_sideL t i j i).mpr ⟨hi, side_refl t i j⟩, hai⟩, haj⟩
      · rw [mem_msgAttrs] at hka
        obtain ⟨had, ⟨n, hn, han⟩, hai⟩ := hka
        refine ⟨had, ⟨n, hside.mem_iff.mpr ?_, han⟩, ?_⟩
        · rw [List.mem_cons, List.mem_flatMap]; exact Or.inr ⟨k, hk, hn⟩
        · intro haj
          rcases hij with hij | hij
          · have hkj := ((hmem k).mp hk).2
            have hik := ((hmem k).mp hk).1
            rw [mem_sideL] at hn
            have hnot : ¬ Side t k i j := fun h =>
              side_disjoint cx.tree hik hij hkj h (side_refl t j i)
            exact hai (attr_sep cx hn.1 (cx.tree.ends i j hij).2.1 hn.2 hnot han haj).2
          · subst hij; exact hai haj
  · rw [List.nodup_append]
    refine ⟨hX, ?_, ?_⟩
    · rw [List.nodup_flatMap]
      refine ⟨fun k _ => msgAttrs_nodup d t k i cx.dom_wf, ?_⟩
      apply hKs.pairwise_of_forall_ne
      intro k hk k' hk' hne a ha ha'
      exact msgAttrs_disjoint cx i k k' ((hmem k).mp hk).1 ((hmem k').mp hk').1 hne a ha'
        ((mem_msgAttrs d t k i a).mp ha).2.1
    · intro a ha b hb hab
      subst hab
      obtain ⟨k, _, hka⟩ := List.mem_flatMap.mp hb
      exact ((mem_msgAttrs d t k i a).mp hka).2.2 ((hXm a).mp ha).1

/-- **the message recursion** -/
theorem M_rec (i j : Clique) (hi : i ∈ t.nodes) (hij : t.adj i j = true ∨ j = i)
    (Ks : List Clique) (hKs : Ks.Nodup)
    (hmem : ∀ k, k ∈ Ks ↔ t.adj i k = true ∧ k ≠ j)
    (X : List Attr) (hX : X.Nodup) (hXm : ∀ a, a ∈ X ↔ a ∈ i ∧ a ∉ j) (τ : Attr → Nat) :
    M d t ψ i j τ = nsum d X τ (fun τ' => ψ i τ' * (Ks.map (fun k => M d t ψ k i τ')).prod) := by
  have hside := sideL_perm cx i j hi Ks hKs hmem
  have hattrs := msgAttrs_perm cx i j hi hij Ks hKs hmem X hX hXm
  have hF : F ψ (sideL t i j) = fun τ => ψ i τ * (Ks.map (fun k => F ψ (sideL t k i) τ)).prod := by
    funext τ
    unfold F
    rw [(hside.map _).prod_eq, List.map_cons, List.prod_cons, prod_flatMap_map]
  unfold M
  rw [nsum_perm d _ _ hattrs, nsum_append, hF]
  apply nsum_congr_fun
  intro τ' _ _
  apply nsum_prod_factor d Ks (fun k => msgAttrs d t k i) (fun k => F ψ (sideL t k i)) (ψ i) τ' hKs
  · intro k hk
    apply (cx.psi_dep i hi).indep
    intro a ha
    exact ((mem_msgAttrs d t k i a).mp ha).2.2
  · intro k hk k' hk' hne
    apply (F_depOn cx (sideL t k i) (fun n hn => ((mem_sideL t k i n).mp hn).1)).indep
    intro a ha
    exact msgAttrs_disjoint cx i k k' ((hmem k).mp hk).1 ((hmem k').mp hk').1 hne a ha

/-- with no edge excluded the message is the clique marginal -/
theorem M_self (c : Clique) (hc : c ∈ t.nodes) (τ : Attr → Nat) :
    M d t ψ c c τ = nsum d (d.invert c) τ (F ψ t.nodes) := by
  have h1 : sideL t c c = t.nodes := by
    unfold sideL
    rw [List.filter_eq_self]
    intro n hn
    simpa using (side_self_iff cx.tree hc).mpr hn
  have h2 : msgAttrs d t c c = d.invert c := by
    unfold msgAttrs Dom.invert
    apply List.filter_congr
    intro a ha
    rw [h1]
    have : AttrOf t.nodes a := cx.covers a ha
    by_cases hac : a ∈ c <;> simp [this, hac]
  unfold M
  rw [h1, h2]

end

end PGM.Sem.BP
