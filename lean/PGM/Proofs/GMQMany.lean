import PGM.Generated.GraphicalModelQG
import PGM.Proofs.GMGen
import PGM.Proofs.QueryMM
/-!
# helper lemmas for `Properties/C02G.lean`: the generated `calculate_many_marginals` is the hand model `GM.manyMarginals`

The generated code (`GMQ.manyConditional`, `GMQ.manyResults`, `GMQ.calculateManyMarginals`) differs from the hand model in four places,
each closed here by a lemma:
* `conditional` is a DICTIONARY filled by the double loop over `neighbors` and read later (`conditional[(Cj, Cl)]`); the model computes
  `mmCond marg cj cl` on demand.  `manyConditional_get`: the read returns the model's value whenever `cl` is a key of `neighbors` and
  `cj ∈ neighbors[cl]` (which holds for the predecessor on a tree: `QueryTree.bfs_pred`).
* `pred` / `dist` are contract parameters (networkx); the model reads its own breadth-first tables.  `sortBy_congr`, `foldl_congr_mem`.
* the re-keying comprehension iterates over the KEYS of `results` and reads `results[key]`; the model folds over the entries.  Equal because
  a dictionary built by `dictSet` has distinct keys (`nodup_keys_foldl_dictSet`, `rekey_eq`).
* `answers` is a dictionary keyed by the projection, the model returns one entry per projection: equal on the list of FIRST occurrences
  (`firsts`), which is the list itself when it has no duplicates (`answers_eq`, `firsts_of_nodup`).
-/
namespace PGM.GMQGen
open PGM PGM.JT PGM.GM
set_option linter.unusedVariables false
set_option linter.unusedSectionVars false

/-! ### generic list / dictionary facts -/
section generic
variable {κ γ : Type} [BEq κ] [LawfulBEq κ]

theorem foldl_congr_mem {σ ι : Type} (l : List ι) (f g : σ → ι → σ) (init : σ) (h : ∀ acc, ∀ x ∈ l, f acc x = g acc x) :
    l.foldl f init = l.foldl g init := by
  induction l generalizing init with
  | nil => rfl
  | cons x xs ih =>
    rw [List.foldl_cons, List.foldl_cons, h init x (by simp)]
    exact ih _ (fun acc y hy => h acc y (List.mem_cons_of_mem _ hy))

/-- the stable sort only reads the key on the elements of the list -/
theorem sortBy_congr {ι : Type} (k1 k2 : ι → Nat) (l : List ι) (h : ∀ x ∈ l, k1 x = k2 x) : Dom.sortBy k1 l = Dom.sortBy k2 l := by
  have ins : ∀ (x : ι) (acc : List ι), k1 x = k2 x → (∀ y ∈ acc, k1 y = k2 y) → Dom.insertBy k1 x acc = Dom.insertBy k2 x acc := by
    intro x acc hx
    induction acc with
    | nil => intro _; rfl
    | cons y ys ih =>
      intro hacc
      unfold Dom.insertBy
      rw [hx, hacc y (by simp), ih (fun z hz => hacc z (List.mem_cons_of_mem _ hz))]
  have key : ∀ (l acc : List ι), (∀ x ∈ l, k1 x = k2 x) → (∀ y ∈ acc, k1 y = k2 y) →
      l.foldl (fun acc x => Dom.insertBy k1 x acc) acc = l.foldl (fun acc x => Dom.insertBy k2 x acc) acc := by
    intro l
    induction l with
    | nil => intro acc _ _; rfl
    | cons x xs ih =>
      intro acc hl hacc
      rw [List.foldl_cons, List.foldl_cons, ins x acc (hl x (by simp)) hacc]
      apply ih _ (fun y hy => hl y (List.mem_cons_of_mem _ hy))
      intro y hy
      rcases List.mem_cons.mp ((Dom.insertBy_perm k2 x acc).mem_iff.mp hy) with rfl | h'
      · exact hl y (by simp)
      · exact hacc y h'
  exact key l [] h (by simp)

/-- a dictionary filled by a loop whose stored value is a function of the key: what a later read finds -/
theorem lookup_foldl_dictSet_fun (F : κ → γ) (ks : List κ) (d : List (κ × γ)) (k : κ) :
    (ks.foldl (fun d k => dictSet d k (F k)) d).lookup k = if ks.contains k then some (F k) else d.lookup k := by
  induction ks generalizing d with
  | nil => simp
  | cons x xs ih =>
    rw [List.foldl_cons, ih, GMGen.lookup_dictSet, List.contains_cons]
    by_cases hx : k = x
    · subst hx
      simp
    · have e : (k == x) = false := by simpa using hx
      rw [e]
      simp

theorem nodup_keys_dictSet (d : List (κ × γ)) (k : κ) (v : γ) (h : (d.map Prod.fst).Nodup) :
    ((dictSet d k v).map Prod.fst).Nodup := by
  by_cases hk : k ∈ d.map Prod.fst
  · rw [GMGen.keys_dictSet_of_mem d k v hk]
    exact h
  · rw [GMGen.dictSet_fresh d k v hk, List.map_append, List.nodup_append]
    refine ⟨h, by simp, ?_⟩
    intro a ha b hb
    rw [List.map_cons, List.map_nil, List.mem_singleton] at hb
    subst hb
    intro hab
    subst hab
    exact hk ha

end generic

/-! ### the dictionary `conditional` -/
section conditional
variable {β : Type} [Scalar β]

/-- **`conditional[(Cj, Ci)]`** after the double loop over `neighbors` is the model's `P(Cj | Ci)`-table, for every key the loop visits -/
theorem manyConditional_lookup (marg : CliqueVec β) (nb : List (Clique × List Clique)) (cj ci : Clique) :
    (GMQ.manyConditional marg nb).lookup (cj, ci)
      = if ((nb.map Prod.fst).flatMap (fun ci => (GMQ.nbGet nb ci).map (fun cj => (cj, ci)))).contains (cj, ci)
        then some (mmCond marg cj ci) else none := by
  have h0 : GMQ.manyConditional marg nb
      = (nb.map Prod.fst).foldl (fun acc ci => (GMQ.nbGet nb ci).foldl
          (fun acc cj => dictSet acc (cj, ci) (mmCond marg cj ci)) acc) [] := rfl
  have h : GMQ.manyConditional marg nb
      = ((nb.map Prod.fst).flatMap (fun ci => (GMQ.nbGet nb ci).map (fun cj => (cj, ci)))).foldl
          (fun d (k : Clique × Clique) => dictSet d k (mmCond marg k.1 k.2)) [] := by
    rw [h0, List.foldl_flatMap]
    congr 1
    funext acc ci
    rw [List.foldl_map]
  rw [h, lookup_foldl_dictSet_fun (fun (k : Clique × Clique) => mmCond marg k.1 k.2)]
  rfl

theorem manyConditional_get (marg : CliqueVec β) (nb : List (Clique × List Clique)) (cj ci : Clique)
    (hi : ci ∈ nb.map Prod.fst) (hj : cj ∈ GMQ.nbGet nb ci) :
    GMQ.dictGet (GMQ.manyConditional marg nb) (cj, ci) = mmCond marg cj ci := by
  unfold GMQ.dictGet
  rw [manyConditional_lookup, if_pos]
  · rfl
  · rw [List.contains_iff_mem, List.mem_flatMap]
    exact ⟨ci, hi, List.mem_map.mpr ⟨cj, hj, rfl⟩⟩

/-- a key the loop never visits is absent (Python: KeyError; here the default table) -/
theorem manyConditional_absent (marg : CliqueVec β) (nb : List (Clique × List Clique)) (cj ci : Clique)
    (h : ¬ (ci ∈ nb.map Prod.fst ∧ cj ∈ GMQ.nbGet nb ci)) :
    GMQ.dictGet (GMQ.manyConditional marg nb) (cj, ci) = Factor.zeros [] := by
  unfold GMQ.dictGet
  rw [manyConditional_lookup, if_neg]
  · rfl
  · rw [List.contains_iff_mem, List.mem_flatMap]
    rintro ⟨c, hc, hm⟩
    obtain ⟨c', hc', e⟩ := List.mem_map.mp hm
    obtain ⟨rfl, rfl⟩ := Prod.mk.inj e
    exact h ⟨hc, hc'⟩

end conditional

/-! ### the loop over the sorted clique pairs, and the re-keying comprehension -/
section results
variable {β : Type} [Scalar β]

/-- the body of the generated loop over `sorted(itertools.combinations(self.cliques, 2), key=…)`, named -/
def gStep (pred : Clique → Clique → Clique) (marg : CliqueVec β) (cond : List ((Clique × Clique) × Factor β))
    (res : List ((Clique × Clique) × Factor β)) (p : Clique × Clique) : List ((Clique × Clique) × Factor β) :=
  if pred p.1 p.2 == p.1 then
    dictSet (dictSet res (p.1, p.2) ((marg.get p.1).mul (GMQ.dictGet cond (p.2, pred p.1 p.2)))) (p.2, p.1)
      ((marg.get p.1).mul (GMQ.dictGet cond (p.2, pred p.1 p.2)))
  else
    dictSet (dictSet res (p.1, p.2)
      (((GMQ.dictGet res (p.1, pred p.1 p.2)).mul (GMQ.dictGet cond (p.2, pred p.1 p.2))).sum
        (((pred p.1 p.2).filter (fun a => !(p.1.contains a))).filter (fun a => !(p.2.contains a))))) (p.2, p.1)
      (((GMQ.dictGet res (p.1, pred p.1 p.2)).mul (GMQ.dictGet cond (p.2, pred p.1 p.2))).sum
        (((pred p.1 p.2).filter (fun a => !(p.1.contains a))).filter (fun a => !(p.2.contains a))))

/-- the generated comprehension `{domain.canonical(key[0]+key[1]): results[key] for key in results}`, named -/
def gRekey (d : Dom) (rs : List ((Clique × Clique) × Factor β)) : List (List Attr × Factor β) :=
  (rs.map Prod.fst).foldl (fun δ (key : Clique × Clique) => dictSet δ (Dom.canonical d (key.1 ++ key.2)) (GMQ.dictGet rs key)) []

theorem manyResults_unfold (pred : Clique → Clique → Clique) (dist : Clique → Clique → Nat) (d : Dom) (cliques : List Clique)
    (marg : CliqueVec β) (cond : List ((Clique × Clique) × Factor β)) :
    GMQ.manyResults pred dist d cliques marg cond
      = gRekey d ((Dom.sortBy (fun X => dist X.1 X.2) (combos2 cliques)).foldl (gStep pred marg cond) []) := rfl

theorem filter_filter_and {ι : Type} (l : List ι) (p q : ι → Bool) : (l.filter p).filter q = l.filter (fun a => p a && q a) := by
  induction l with
  | nil => rfl
  | cons x xs ih =>
    by_cases hp : p x = true
    · by_cases hq : q x = true <;> simp [hp, hq, ih]
    · simp [hp, ih]

/-- one iteration of the generated loop is the model's `mmStep`, when `pred` is the breadth-first predecessor and the dictionary
`conditional` holds the entry read -/
theorem gStep_eq (pred : Clique → Clique → Clique) (cliques : List Clique) (t : Tree) (marg : CliqueVec β)
    (cond res : List ((Clique × Clique) × Factor β)) (p : Clique × Clique) (hi : p.1 ∈ cliques)
    (hpred : pred p.1 p.2 = predOf (bfs t p.1) p.2)
    (hcond : GMQ.dictGet cond (p.2, predOf (bfs t p.1) p.2) = mmCond marg p.2 (predOf (bfs t p.1) p.2)) :
    gStep pred marg cond res p = mmStep cliques t marg res p := by
  unfold gStep mmStep mmNew
  rw [mmTbl_eq cliques t p.1 hi, hpred, hcond, filter_filter_and]
  unfold GMQ.dictGet
  by_cases hc : (predOf (bfs t p.1) p.2 == p.1) = true
  · rw [if_pos hc, if_pos hc]
  · rw [if_neg hc, if_neg hc]

/-- a dictionary built by `d[k] = v` stores from the empty one has distinct keys -/
theorem nodup_keys_foldl {κ γ ι : Type} [BEq κ] [LawfulBEq κ] (l : List ι) (f : List (κ × γ) → ι → List (κ × γ))
    (hf : ∀ d x, (d.map Prod.fst).Nodup → ((f d x).map Prod.fst).Nodup) (init : List (κ × γ)) (h : (init.map Prod.fst).Nodup) :
    ((l.foldl f init).map Prod.fst).Nodup := by
  induction l generalizing init with
  | nil => exact h
  | cons x xs ih => exact ih _ (hf init x h)

theorem mmResults_keys_nodup (cliques : List Clique) (t : Tree) (marg : CliqueVec β) :
    ((mmResults cliques t marg).map Prod.fst).Nodup := by
  unfold mmResults
  apply nodup_keys_foldl
  · intro d x hd
    unfold mmStep
    exact nodup_keys_dictSet _ _ _ (nodup_keys_dictSet _ _ _ hd)
  · simp

/-- the comprehension over the keys reads back every entry: it is the model's fold over the entries -/
theorem gRekey_eq (d : Dom) (rs : List ((Clique × Clique) × Factor β)) (hnd : (rs.map Prod.fst).Nodup) :
    gRekey d rs = rs.foldl (fun (dd : List (List Attr × Factor β)) (e : (Clique × Clique) × Factor β) =>
      dictSet dd (d.canonical (e.1.1 ++ e.1.2)) e.2) [] := by
  unfold gRekey
  rw [List.foldl_map]
  apply foldl_congr_mem
  intro acc e he
  unfold GMQ.dictGet
  rw [GMGen.lookup_of_mem_nodup rs hnd e he]
  rfl

/-- **the generated `manyResults` is the model's re-keyed table of pairwise results** — `pred` / `dist` the breadth-first
predecessor / distance on the cliques, every visited predecessor edge present in `neighbors` -/
theorem manyResults_eq (pred : Clique → Clique → Clique) (dist : Clique → Clique → Nat) (d : Dom) (cliques : List Clique) (t : Tree)
    (marg : CliqueVec β) (nb : List (Clique × List Clique))
    (hpd : ∀ ci ∈ cliques, ∀ cj ∈ cliques, pred ci cj = predOf (bfs t ci) cj ∧ dist ci cj = distOf (bfs t ci) cj)
    (hnb : ∀ p ∈ combos2 cliques, predOf (bfs t p.1) p.2 ∈ nb.map Prod.fst ∧ p.2 ∈ GMQ.nbGet nb (predOf (bfs t p.1) p.2)) :
    GMQ.manyResults pred dist d cliques marg (GMQ.manyConditional marg nb) = mmResults2 d cliques t marg := by
  rw [manyResults_unfold]
  have hkey : Dom.sortBy (fun (X : Clique × Clique) => dist X.1 X.2) (combos2 cliques)
      = Dom.sortBy (fun (p : Clique × Clique) => distOf (mmTbl cliques t p.1) p.2) (combos2 cliques) := by
    apply sortBy_congr
    intro p hp
    obtain ⟨h1, h2, _⟩ := mem_combos2 cliques p.1 p.2 hp
    rw [mmTbl_eq cliques t p.1 h1]
    exact (hpd p.1 h1 p.2 h2).2
  have hfold : (Dom.sortBy (fun (X : Clique × Clique) => dist X.1 X.2) (combos2 cliques)).foldl
        (gStep pred marg (GMQ.manyConditional marg nb)) [] = mmResults cliques t marg := by
    unfold mmResults
    rw [hkey]
    apply foldl_congr_mem
    intro res p hp
    have hp' : p ∈ combos2 cliques := (Dom.sortBy_perm _ _).mem_iff.mp hp
    obtain ⟨h1, h2, _⟩ := mem_combos2 cliques p.1 p.2 hp'
    obtain ⟨hn1, hn2⟩ := hnb p hp'
    exact gStep_eq pred cliques t marg _ res p h1 (hpd p.1 h1 p.2 h2).1 (manyConditional_get marg nb _ _ hn1 hn2)
  rw [hfold, gRekey_eq d _ (mmResults_keys_nodup cliques t marg)]
  rfl

end results

/-! ### the loop over `projections` -/
section answers
variable {β : Type} [Scalar β]

/-- the keys of a Python dictionary filled in the order of `l`: the first occurrences -/
def firsts (l : List (List Attr)) : List (List Attr) :=
  l.foldl (fun acc p => if acc.contains p then acc else acc ++ [p]) []

theorem firsts_aux_mem (l acc : List (List Attr)) (p : List Attr)
    (h : p ∈ l.foldl (fun acc p => if acc.contains p then acc else acc ++ [p]) acc) : p ∈ acc ∨ p ∈ l := by
  induction l generalizing acc with
  | nil => exact Or.inl h
  | cons x xs ih =>
    rw [List.foldl_cons] at h
    rcases ih _ h with h' | h'
    · split at h'
      · exact Or.inl h'
      · rcases List.mem_append.mp h' with h'' | h''
        · exact Or.inl h''
        · exact Or.inr (by rw [List.mem_singleton.mp h'']; simp)
    · exact Or.inr (List.mem_cons_of_mem _ h')

theorem mem_of_mem_firsts (l : List (List Attr)) (p : List Attr) (h : p ∈ firsts l) : p ∈ l := by
  rcases firsts_aux_mem l [] p h with h' | h'
  · simp at h'
  · exact h'

theorem firsts_aux_mem' (l acc : List (List Attr)) (p : List Attr) (h : p ∈ acc ∨ p ∈ l) :
    p ∈ l.foldl (fun acc p => if acc.contains p then acc else acc ++ [p]) acc := by
  induction l generalizing acc with
  | nil => rcases h with h | h; exact h; simp at h
  | cons x xs ih =>
    rw [List.foldl_cons]
    apply ih
    rcases h with h | h
    · left; split
      · exact h
      · exact List.mem_append_left _ h
    · rcases List.mem_cons.mp h with rfl | h'
      · left; split
        · rename_i hc; simpa using hc
        · simp
      · exact Or.inr h'

/-- every requested projection is a key of the returned dictionary -/
theorem mem_firsts_of_mem (l : List (List Attr)) (p : List Attr) (h : p ∈ l) : p ∈ firsts l :=
  firsts_aux_mem' l [] p (Or.inr h)

theorem firsts_aux_nodup (l acc : List (List Attr)) (h : (acc ++ l).Nodup) :
    l.foldl (fun acc p => if acc.contains p then acc else acc ++ [p]) acc = acc ++ l := by
  induction l generalizing acc with
  | nil => simp
  | cons x xs ih =>
    have hx : acc.contains x = false := by
      have := (List.nodup_append.mp h).2.2 x
      cases hc : acc.contains x with
      | false => rfl
      | true => exact absurd rfl (this (by simpa using hc) x (by simp))
    rw [List.foldl_cons, hx]
    simp only [Bool.false_eq_true, if_false]
    rw [ih _ (by simpa using h)]
    simp

/-- a duplicate-free list of projections is its own list of first occurrences -/
theorem firsts_of_nodup (l : List (List Attr)) (h : l.Nodup) : firsts l = l := by
  unfold firsts
  rw [firsts_aux_nodup l [] (by simpa using h)]
  simp

/-- the answer for one projection -/
def gAnswer (results : List (List Attr × Factor β)) (fallback : List Attr → Factor β) (proj : List Attr) : Factor β :=
  match results.find? (fun e => JT.subset proj e.1) with
  | some e => e.2.projectSum proj
  | none => fallback proj

/-- the body of the generated loop over `projections`, named -/
def gAnsStep (results : List (List Attr × Factor β)) (fallback : List Attr → Factor β)
    (answers : List (List Attr × Factor β)) (proj : List Attr) : List (List Attr × Factor β) :=
  if !(GMQ.dictHas (match (results.map Prod.fst).find? (fun attr => JT.subset proj attr) with
      | some attr => dictSet answers proj (Factor.projectSum (GMQ.dictGet results attr) proj)
      | none => answers) proj)
  then dictSet (match (results.map Prod.fst).find? (fun attr => JT.subset proj attr) with
      | some attr => dictSet answers proj (Factor.projectSum (GMQ.dictGet results attr) proj)
      | none => answers) proj (fallback proj)
  else (match (results.map Prod.fst).find? (fun attr => JT.subset proj attr) with
      | some attr => dictSet answers proj (Factor.projectSum (GMQ.dictGet results attr) proj)
      | none => answers)

theorem calculateManyMarginals_unfold (pred : Clique → Clique → Clique) (dist : Clique → Clique → Nat)
    (fallback : List Attr → Factor β) (d : Dom) (cliques : List Clique) (marg : CliqueVec β) (nb : List (Clique × List Clique))
    (projections : List (List Attr)) :
    GMQ.calculateManyMarginals pred dist fallback d cliques marg nb projections
      = projections.foldl (gAnsStep (GMQ.manyResults pred dist d cliques marg (GMQ.manyConditional marg nb)) fallback) [] := rfl

/-- the FIRST key satisfying a test is the key of the first entry whose key satisfies it, and reading it returns that entry -/
theorem lookup_of_find {γ : Type} (q : List Attr → Bool) (rs : List (List Attr × γ)) (e : List Attr × γ)
    (h : rs.find? (fun e => q e.1) = some e) : rs.lookup e.1 = some e.2 := by
  induction rs with
  | nil => simp at h
  | cons x xs ih =>
    rw [List.find?_cons] at h
    rw [List.lookup_cons]
    by_cases hx : q x.1 = true
    · rw [hx] at h
      obtain rfl := Option.some.inj h
      simp
    · have hx' : q x.1 = false := by simpa using hx
      rw [hx'] at h
      have hq : q e.1 = true := List.find?_some (p := fun (e : List Attr × γ) => q e.1) h
      have hne : e.1 ≠ x.1 := fun he => hx (he ▸ hq)
      have : (e.1 == x.1) = false := by simpa using hne
      rw [this]
      exact ih h

theorem dictHas_map_keys (acc : List (List Attr)) (g : List Attr → Factor β) (proj : List Attr) :
    GMQ.dictHas (acc.map (fun p => (p, g p))) proj = decide (proj ∈ acc) := by
  unfold GMQ.dictHas
  rw [List.any_map]
  by_cases h : proj ∈ acc
  · rw [decide_eq_true h, List.any_eq_true]
    exact ⟨proj, h, by simp⟩
  · rw [decide_eq_false h, List.any_eq_false]
    intro x hx
    simp only [Function.comp]
    intro he
    exact h ((eq_of_beq he) ▸ hx)

theorem dictHas_dictSet_self {κ γ : Type} [BEq κ] [LawfulBEq κ] (d : List (κ × γ)) (k : κ) (v : γ) :
    GMQ.dictHas (dictSet d k v) k = true := by
  unfold GMQ.dictHas
  obtain ⟨e, he, hk⟩ := hasKey_dictSet_self d k v
  exact List.any_eq_true.mpr ⟨e, he, by simp [hk]⟩

/-- storing, under an existing key, the value every entry with that key already has changes nothing; otherwise it appends -/
theorem dictSet_map_keys (acc : List (List Attr)) (g : List Attr → Factor β) (proj : List Attr) :
    dictSet (acc.map (fun p => (p, g p))) proj (g proj)
      = (if acc.contains proj then acc else acc ++ [proj]).map (fun p => (p, g p)) := by
  by_cases h : proj ∈ acc
  · have hc : acc.contains proj = true := by simpa using h
    rw [hc, if_pos rfl]
    unfold dictSet
    have hany : (acc.map (fun p => (p, g p))).any (fun p => p.1 == proj) = true := by
      have := dictHas_map_keys acc g proj
      unfold GMQ.dictHas at this
      rw [this]
      exact decide_eq_true h
    rw [if_pos hany, List.map_map]
    apply List.map_congr_left
    intro p _
    simp only [Function.comp]
    by_cases hp : p = proj
    · subst hp; simp
    · have : (p == proj) = false := by simpa using hp
      rw [this]; rfl
  · have hc : acc.contains proj = false := by simpa using h
    rw [hc]
    simp only [Bool.false_eq_true, if_false]
    rw [GMGen.dictSet_fresh _ _ _ (by rw [List.map_map]; simpa using h)]
    simp

/-- one iteration of the generated loop, on a dictionary that holds the model's answers for the projections seen so far -/
theorem gAnsStep_map (results : List (List Attr × Factor β)) (fallback : List Attr → Factor β) (acc : List (List Attr))
    (proj : List Attr) :
    gAnsStep results fallback (acc.map (fun p => (p, gAnswer results fallback p))) proj
      = (if acc.contains proj then acc else acc ++ [proj]).map (fun p => (p, gAnswer results fallback p)) := by
  unfold gAnsStep
  rw [List.find?_map]
  cases hfind : results.find? ((fun attr => JT.subset proj attr) ∘ Prod.fst) with
  | none =>
    have hg : gAnswer results fallback proj = fallback proj := by
      unfold gAnswer
      have : results.find? (fun e => JT.subset proj e.1) = none := hfind
      rw [this]
    simp only [Option.map_none]
    rw [dictHas_map_keys, ← hg, dictSet_map_keys]
    by_cases h : proj ∈ acc
    · simp [h]
    · simp [h]
  | some e =>
    have hfind' : results.find? (fun e => JT.subset proj e.1) = some e := hfind
    have hg : gAnswer results fallback proj = e.2.projectSum proj := by
      unfold gAnswer
      rw [hfind']
    have hget : GMQ.dictGet results e.1 = e.2 := by
      unfold GMQ.dictGet
      rw [lookup_of_find (fun a => JT.subset proj a) results e hfind']
      rfl
    simp only [Option.map_some]
    rw [hget, ← hg, dictHas_dictSet_self, dictSet_map_keys]
    simp

theorem answers_eq (results : List (List Attr × Factor β)) (fallback : List Attr → Factor β) (projections : List (List Attr)) :
    projections.foldl (gAnsStep results fallback) []
      = (firsts projections).map (fun p => (p, gAnswer results fallback p)) := by
  have key : ∀ (l acc : List (List Attr)),
      l.foldl (gAnsStep results fallback) (acc.map (fun p => (p, gAnswer results fallback p)))
        = (l.foldl (fun acc p => if acc.contains p then acc else acc ++ [p]) acc).map (fun p => (p, gAnswer results fallback p)) := by
    intro l
    induction l with
    | nil => intro acc; rfl
    | cons x xs ih =>
      intro acc
      rw [List.foldl_cons, List.foldl_cons, gAnsStep_map, ih]
  exact key projections []

/-- the model's answers, as a map of `gAnswer` -/
theorem manyMarginals_eq_gAnswer (d : Dom) (cliques : List Clique) (t : Tree) (marg : CliqueVec β)
    (fallback : List Attr → Factor β) (projections : List (List Attr)) :
    manyMarginals d cliques t marg fallback projections
      = projections.map (fun p => (p, gAnswer (mmResults2 d cliques t marg) fallback p)) := by
  rw [manyMarginals_eq]
  apply List.map_congr_left
  intro p _
  unfold gAnswer
  cases results_find : (mmResults2 d cliques t marg).find? (fun e => JT.subset p e.1) <;> rfl

/-- **the generated `calculate_many_marginals` is the hand model** on the first occurrences of the requested projections (the keys of
the dictionary it returns, in insertion order) -/
theorem calculateManyMarginals_eq (pred : Clique → Clique → Clique) (dist : Clique → Clique → Nat)
    (fallback : List Attr → Factor β) (d : Dom) (cliques : List Clique) (t : Tree)
    (marg : CliqueVec β) (nb : List (Clique × List Clique)) (projections : List (List Attr))
    (hpd : ∀ ci ∈ cliques, ∀ cj ∈ cliques, pred ci cj = predOf (bfs t ci) cj ∧ dist ci cj = distOf (bfs t ci) cj)
    (hnb : ∀ p ∈ combos2 cliques, predOf (bfs t p.1) p.2 ∈ nb.map Prod.fst ∧ p.2 ∈ GMQ.nbGet nb (predOf (bfs t p.1) p.2)) :
    GMQ.calculateManyMarginals pred dist fallback d cliques marg nb projections
      = manyMarginals d cliques t marg fallback (firsts projections) := by
  rw [calculateManyMarginals_unfold, manyResults_eq pred dist d cliques t marg nb hpd hnb, answers_eq, manyMarginals_eq_gAnswer]

end answers

/-! ### the contracts of `tree.neighbors()` and of `nx.floyd_warshall_predecessor_and_distance` -/
section contracts

/-- what the theorems need of `self.neighbors` (`tree.neighbors()`: clique -> set of adjacent cliques): every clique of the tree is a
key, and its entry lists (in any order, possibly among others) the cliques adjacent to it -/
def NeighborsOK (t : Tree) (nb : List (Clique × List Clique)) : Prop :=
  ∀ u ∈ t.nodes, ∀ v ∈ t.nbrs u, u ∈ nb.map Prod.fst ∧ v ∈ GMQ.nbGet nb u

/-- the contract of `nx.floyd_warshall_predecessor_and_distance(tree, weight=False)` on the cliques: shortest paths of a tree are
unique, so `pred[ci][cj]` / `dist[ci][cj]` are the predecessor / depth of `cj` in the breadth-first search from `ci` (the contract
`PGM/Model/GM.lean` states for `bfs`) -/
def PathsOK (cliques : List Clique) (t : Tree) (pred : Clique → Clique → Clique) (dist : Clique → Clique → Nat) : Prop :=
  ∀ ci ∈ cliques, ∀ cj ∈ cliques, pred ci cj = predOf (bfs t ci) cj ∧ dist ci cj = distOf (bfs t ci) cj

theorem lookup_map_fun {γ : Type} (l : List Clique) (f : Clique → γ) (c : Clique) (h : c ∈ l) :
    (l.map (fun c => (c, f c))).lookup c = some (f c) := by
  induction l with
  | nil => simp at h
  | cons x xs ih =>
    rw [List.map_cons, List.lookup_cons]
    by_cases hx : c = x
    · subst hx; simp
    · have : (c == x) = false := by simpa using hx
      rw [this]
      exact ih (by simpa [hx] using h)

/-- the model's own adjacency is an admissible `neighbors` … -/
theorem neighborsOK_model (t : Tree) : NeighborsOK t (t.nodes.map (fun c => (c, t.nbrs c))) := by
  intro u hu v hv
  refine ⟨by rw [List.map_map]; simpa using hu, ?_⟩
  unfold GMQ.nbGet
  rw [lookup_map_fun t.nodes t.nbrs u hu]
  exact hv

/-- … and so is any re-ordering of the entries and of the sets -/
theorem neighborsOK_of_perm (t : Tree) (nb : List (Clique × List Clique)) (hk : ∀ u ∈ t.nodes, u ∈ nb.map Prod.fst)
    (hv : ∀ u ∈ t.nodes, (GMQ.nbGet nb u).Perm (t.nbrs u)) : NeighborsOK t nb :=
  fun u hu v hvm => ⟨hk u hu, (hv u hu).mem_iff.mpr hvm⟩

theorem pathsOK_model (cliques : List Clique) (t : Tree) :
    PathsOK cliques t (fun ci cj => predOf (bfs t ci) cj) (fun ci cj => distOf (bfs t ci) cj) :=
  fun _ _ _ _ => ⟨rfl, rfl⟩

end contracts

/-! ### the predecessor edge is an edge of the tree: `neighbors` lists it -/
section tree

/-- the hypothesis `hnb` of `calculateManyMarginals_eq` from the contract of `tree.neighbors()` on a connected tree with distinct nodes -/
theorem nb_of_tree (cliques : List Clique) (t : Tree) (nb : List (Clique × List Clique))
    (hnodes : t.nodes = cliques) (hnd : t.nodes.Nodup) (hconn : ∀ n ∈ t.nodes, ∀ m ∈ t.nodes, Conn t t.nodes n m)
    (hN : ∀ u ∈ t.nodes, ∀ v ∈ t.nbrs u, u ∈ nb.map Prod.fst ∧ v ∈ GMQ.nbGet nb u) :
    ∀ p ∈ combos2 cliques, predOf (bfs t p.1) p.2 ∈ nb.map Prod.fst ∧ p.2 ∈ GMQ.nbGet nb (predOf (bfs t p.1) p.2) := by
  intro p hp
  obtain ⟨h1, h2, h3⟩ := mem_combos2 cliques p.1 p.2 hp
  have hne : p.2 ≠ p.1 := Ne.symm (h3 (hnodes ▸ hnd))
  obtain ⟨hl, hadj, _⟩ := bfs_pred t hnd hconn p.1 p.2 (hnodes ▸ h1) (hnodes ▸ h2) hne
  exact hN _ hl p.2 ((mem_nbrs_iff t _ _).mpr ⟨hnodes ▸ h2, hadj⟩)

end tree

end PGM.GMQGen
