import PGM.Proofs.Semantics
import PGM.Proofs.Dataset
import PGM.Model.Loss
import Mathlib.Algebra.BigOperators.Group.Finset.Basic
import Mathlib.Algebra.BigOperators.Ring.Finset
import Mathlib.Algebra.Order.BigOperators.Group.Finset
import Mathlib.Tactic.Ring
import Mathlib.Tactic.Linarith
/-!
# Helpers for C04 (1): plain-scalar arithmetic, list sums, the flat-data bridge, `groupOf`
-/
set_option linter.unusedSectionVars false
set_option linter.unusedVariables false
namespace PGM.LossAux
open PGM PGM.JT PGM.Loss
variable {K : Type} [Field K] [LinearOrder K] [IsStrictOrderedRing K]

/-! ### `PlainOf K` arithmetic -/

theorem plain_ext {x y : PlainOf K} (h : x.v = y.v) : x = y := by
  cases x; cases y; simp_all

@[simp] theorem add_v (x y : PlainOf K) : (Scalar.add x y).v = x.v + y.v := rfl
@[simp] theorem mul_v (x y : PlainOf K) : (Scalar.mul x y).v = x.v * y.v := rfl
@[simp] theorem div_v (x y : PlainOf K) : (Scalar.div x y).v = x.v * (y.v)⁻¹ := rfl
@[simp] theorem neg_v (x : PlainOf K) : (Scalar.neg x).v = - x.v := rfl
@[simp] theorem sub_v (x y : PlainOf K) : (Scalar.sub x y).v = x.v - y.v := by
  show x.v + - y.v = _; ring
@[simp] theorem zero_v : (Scalar.zero : PlainOf K).v = 0 := rfl
@[simp] theorem one_v : (Scalar.one : PlainOf K).v = 1 := rfl
@[simp] theorem default_v : (default : PlainOf K).v = 0 := rfl

theorem foldl_add_v (l : List (PlainOf K)) (z : PlainOf K) :
    (l.foldl Scalar.add z).v = z.v + (l.map (·.v)).sum := by
  induction l generalizing z with
  | nil => simp
  | cons x xs ih => simp [ih, add_assoc]

@[simp] theorem sum_v (l : List (PlainOf K)) : (Scalar.sum l).v = (l.map (·.v)).sum := by
  unfold Scalar.sum
  rw [foldl_add_v]; simp

@[simp] theorem ofNat_v (n : Nat) : (Scalar.ofNat n : PlainOf K).v = (n : K) := by
  show (Nat.rec (0 : K) (fun _ acc => acc + 1) n : K) = n
  induction n with
  | zero => simp
  | succ k ih => simp [ih]

theorem max_v_left (x y : PlainOf K) : x.v ≤ (Scalar.max x y).v := by
  show x.v ≤ (if x.v < y.v then y else x).v
  split
  · exact le_of_lt ‹_›
  · exact le_rfl

theorem max_v_right (x y : PlainOf K) : y.v ≤ (Scalar.max x y).v := by
  show y.v ≤ (if x.v < y.v then y else x).v
  split
  · exact le_rfl
  · exact not_lt.mp ‹_›

theorem foldl_max_ge (l : List (PlainOf K)) (z : PlainOf K) :
    z.v ≤ (l.foldl Scalar.max z).v ∧ ∀ x ∈ l, x.v ≤ (l.foldl Scalar.max z).v := by
  induction l generalizing z with
  | nil => simp
  | cons a as ih =>
    simp only [List.foldl_cons, List.mem_cons]
    obtain ⟨h1, h2⟩ := ih (Scalar.max z a)
    refine ⟨le_trans (max_v_left z a) h1, ?_⟩
    rintro x (rfl | hx)
    · exact le_trans (max_v_right z x) h1
    · exact h2 x hx

theorem le_maxL (l : List (PlainOf K)) (x : PlainOf K) (hx : x ∈ l) : x.v ≤ (Scalar.maxL l).v := by
  cases l with
  | nil => simp at hx
  | cons a as =>
    show x.v ≤ (as.foldl Scalar.max a).v
    rcases List.mem_cons.mp hx with rfl | h
    · exact (foldl_max_ge as x).1
    · exact (foldl_max_ge as a).2 x h

/-! ### list sums -/

def vdot (x y : List K) : K := (List.zipWith (· * ·) x y).sum

theorem vdot_nil_left (y : List K) : vdot [] y = 0 := by simp [vdot]
theorem vdot_nil_right (x : List K) : vdot x [] = 0 := by simp [vdot]
theorem vdot_cons (a b : K) (x y : List K) : vdot (a :: x) (b :: y) = a * b + vdot x y := by
  simp [vdot]

theorem vdot_comm (x y : List K) : vdot x y = vdot y x := by
  induction x generalizing y with
  | nil => simp [vdot]
  | cons a x ih => cases y with
    | nil => simp [vdot]
    | cons b y => rw [vdot_cons, vdot_cons, ih, mul_comm]

theorem vdot_add_right (r x y : List K) (h : x.length = y.length) :
    vdot r (List.zipWith (· + ·) x y) = vdot r x + vdot r y := by
  induction r generalizing x y with
  | nil => simp [vdot]
  | cons a r ih =>
    cases x with
    | nil => cases y with
      | nil => simp [vdot]
      | cons b y => simp at h
    | cons b x => cases y with
      | nil => simp at h
      | cons c y =>
        simp only [List.zipWith_cons_cons, vdot_cons]
        rw [ih x y (by simpa using h)]; ring

theorem vdot_map_mul_right (c : K) (r x : List K) :
    vdot r (x.map (fun t => c * t)) = c * vdot r x := by
  induction r generalizing x with
  | nil => simp [vdot]
  | cons a r ih => cases x with
    | nil => simp [vdot]
    | cons b x => simp only [List.map_cons, vdot_cons, ih]; ring

theorem vdot_map_mul_left (c : K) (r x : List K) :
    vdot (r.map (fun t => c * t)) x = c * vdot r x := by
  rw [vdot_comm, vdot_map_mul_right, vdot_comm]

theorem vdot_self_nonneg (x : List K) : 0 ≤ vdot x x := by
  induction x with
  | nil => simp [vdot]
  | cons a x ih => rw [vdot_cons]; nlinarith [mul_self_nonneg a]

/-- `vdot` of two lists presented as maps over the same index list -/
theorem vdot_map_map {ι : Type} (l : List ι) (f g : ι → K) :
    vdot (l.map f) (l.map g) = (l.map (fun i => f i * g i)).sum := by
  induction l with
  | nil => simp [vdot]
  | cons a l ih => simp only [List.map_cons, vdot_cons, ih, List.sum_cons]

theorem dot_v (x y : List (PlainOf K)) :
    (Loss.dot x y).v = vdot (x.map (·.v)) (y.map (·.v)) := by
  unfold Loss.dot
  rw [sum_v]
  induction x generalizing y with
  | nil => simp [vdot]
  | cons a x ih => cases y with
    | nil => simp [vdot]
    | cons b y =>
      simp only [List.zipWith_cons_cons, List.map_cons, List.sum_cons, vdot_cons, ← ih, mul_v]

theorem list_sum_map_add {ι : Type} (l : List ι) (f g : ι → K) :
    (l.map (fun i => f i + g i)).sum = (l.map f).sum + (l.map g).sum := by
  induction l with
  | nil => simp
  | cons a l ih => simp only [List.map_cons, List.sum_cons, ih]; ring

theorem list_sum_map_mul_left {ι : Type} (l : List ι) (c : K) (f : ι → K) :
    (l.map (fun i => c * f i)).sum = c * (l.map f).sum := by
  induction l with
  | nil => simp
  | cons a l ih => simp only [List.map_cons, List.sum_cons, ih]; ring

theorem list_sum_map_zero {ι : Type} (l : List ι) : (l.map (fun _ => (0 : K))).sum = 0 := by
  induction l with
  | nil => simp
  | cons a l ih => simp

theorem list_sum_le {ι : Type} (l : List ι) (f g : ι → K) (h : ∀ i ∈ l, f i ≤ g i) :
    (l.map f).sum ≤ (l.map g).sum := by
  induction l with
  | nil => simp
  | cons a l ih =>
    simp only [List.map_cons, List.sum_cons]
    exact add_le_add (h a (by simp)) (ih (fun i hi => h i (by simp [hi])))

/-- swapping two finite list sums -/
theorem list_sum_comm {ι κ : Type} (l : List ι) (l' : List κ) (f : ι → κ → K) :
    (l.map (fun i => (l'.map (fun j => f i j)).sum)).sum
      = (l'.map (fun j => (l.map (fun i => f i j)).sum)).sum := by
  induction l with
  | nil => simp
  | cons a l ih =>
    simp only [List.map_cons, List.sum_cons, ih]
    rw [← list_sum_map_add]

/-- a filtered sum as an indicator sum -/
theorem list_sum_filter {ι : Type} (l : List ι) (p : ι → Bool) (f : ι → K) :
    ((l.filter p).map f).sum = (l.map (fun i => if p i then f i else 0)).sum := by
  induction l with
  | nil => simp
  | cons a l ih =>
    cases h : p a <;> simp [h, ih]

/-- the indicator of a key over a duplicate-free key list sums to the value at the key -/
theorem list_sum_indicator {ι : Type} [DecidableEq ι] (l : List ι) (hl : l.Nodup) (a : ι) (ha : a ∈ l)
    (f : ι → K) : (l.map (fun i => if i = a then f i else 0)).sum = f a := by
  induction l with
  | nil => simp at ha
  | cons b l ih =>
    rw [List.nodup_cons] at hl
    simp only [List.map_cons, List.sum_cons]
    by_cases hb : b = a
    · subst hb
      have : l.map (fun i => if i = b then f i else 0) = l.map (fun _ => (0 : K)) := by
        apply List.map_congr_left
        intro i hi
        have : i ≠ b := fun h => hl.1 (h ▸ hi)
        simp [this]
      rw [this, list_sum_map_zero]; simp
    · have hmem : a ∈ l := by
        rcases List.mem_cons.mp ha with h | h
        · exact absurd h.symm hb
        · exact h
      rw [ih hl.2 hmem]; simp [hb]

/-! ### the flat data of a well-formed factor -/

theorem cells_getElem_inj (s : List Nat) (i : Nat) (hi : i < (cells s).length) :
    ravel s ((cells s)[i]) = i := by
  have hin := mem_cells_inRange s _ (List.getElem_mem hi)
  have h1 := cells_getElem_ravel s _ hin
  have hlt : ravel s ((cells s)[i]) < (cells s).length := by
    rw [length_cells]; exact ravel_lt s _ hin
  rw [List.getElem?_eq_getElem hlt] at h1
  have h2 := Option.some.inj h1
  exact (List.Nodup.getElem_inj_iff (Dataset.nodup_cells s)).mp h2

theorem datavector_eq {α : Type} [Scalar α] (f : Factor α) (hf : f.WF) :
    f.datavector = (cells f.dom.shape).map (fun idx => f.vals.get idx) := by
  obtain ⟨_, hs, hw⟩ := hf
  unfold NdArr.WF at hw
  apply List.ext_getElem
  · simp [Factor.datavector, length_cells, hw, hs]
  · intro i h1 h2
    have hi : i < (cells f.dom.shape).length := by simpa using h2
    rw [List.getElem_map]
    show f.vals.data.toList[i] = f.vals.data.getD (ravel f.vals.shape (cells f.dom.shape)[i]) default
    rw [hs, cells_getElem_inj _ i hi]
    have h1' : i < f.vals.data.size := by simpa [Factor.datavector] using h1
    simp only [Array.getD, h1', dite_true]
    exact Array.getElem_toList _

/-! ### `groupOf` -/

theorem groupOf_some_mem (d : Dom) (cliques : List Clique) (proj : List Attr) (c : Clique)
    (h : groupOf d cliques proj = some c) : c ∈ cliques ∧ JT.subset proj c = true := by
  unfold groupOf at h
  refine ⟨?_, ?_⟩
  · exact (Dom.sortBy_perm _ cliques).mem_iff.mp (List.mem_of_find?_eq_some h)
  · simpa using List.find?_some h

theorem groupOf_exists (d : Dom) (cliques : List Clique) (proj : List Attr)
    (h : ∃ c ∈ cliques, JT.subset proj c = true) : ∃ c, groupOf d cliques proj = some c := by
  obtain ⟨c, hc, hs⟩ := h
  unfold groupOf
  cases hf : (Dom.sortBy (fun c => d.sizeOf c) cliques).find? (fun c => JT.subset proj c) with
  | some c' => exact ⟨c', rfl⟩
  | none =>
    rw [List.find?_eq_none] at hf
    have := hf c ((Dom.sortBy_perm _ cliques).mem_iff.mpr hc)
    simp [hs] at this

theorem subset_iff (a b : Clique) : JT.subset a b = true ↔ ∀ x ∈ a, x ∈ b := by
  simp [JT.subset]

end PGM.LossAux
