import PGM.Proofs.LossAlg
import Mathlib.Algebra.Order.Ring.Abs
import Mathlib.Data.Sign.Defs
/-!
# Helpers for C04B (1): the scalar core of the L1 objective — `absS`, `signS` at `PlainOf K`,
`|b| ≥ |a| + sign a · (b − a)`, and the list algebra of one measurement's absolute residual
-/
set_option linter.unusedSectionVars false
set_option linter.unusedVariables false
namespace PGM.LossAux
open PGM PGM.Loss
variable {K : Type} [Field K] [LinearOrder K] [IsStrictOrderedRing K]

/-! ### scalars -/

theorem gt0_iff (x : PlainOf K) : Scalar.gt0 x = true ↔ 0 < x.v := by
  show decide (0 < x.v) = true ↔ _
  simp

/-- the sign function of an ordered field, spelled out -/
def sgn (a : K) : K := if 0 < a then 1 else if a < 0 then -1 else 0

theorem sgn_pos {a : K} (h : 0 < a) : sgn a = 1 := by simp [sgn, h]
theorem sgn_neg {a : K} (h : a < 0) : sgn a = -1 := by simp [sgn, h, not_lt.mpr (le_of_lt h)]
theorem sgn_zero : sgn (0 : K) = 0 := by simp [sgn]

theorem sgn_eq_sign (a : K) : sgn a = ((SignType.sign a : SignType) : K) := by
  unfold sgn
  rw [sign_apply]
  split
  · simp
  · split <;> simp

theorem absS_v (x : PlainOf K) : (absS x).v = |x.v| := by
  unfold absS
  by_cases h : 0 < x.v
  · rw [if_pos ((gt0_iff x).mpr h), abs_of_pos h]
  · rw [if_neg (fun hc => h ((gt0_iff x).mp hc)), neg_v, abs_of_nonpos (not_lt.mp h)]

theorem signS_v (x : PlainOf K) : (signS x).v = sgn x.v := by
  unfold signS sgn
  by_cases h : 0 < x.v
  · rw [if_pos ((gt0_iff x).mpr h), if_pos h, one_v]
  · rw [if_neg (fun hc => h ((gt0_iff x).mp hc)), if_neg h]
    by_cases h2 : x.v < 0
    · have : 0 < (Scalar.neg x).v := by rw [neg_v]; linarith
      rw [if_pos ((gt0_iff _).mpr this), if_pos h2, neg_v, one_v]
    · have : ¬ 0 < (Scalar.neg x).v := by rw [neg_v]; intro hc; exact h2 (by linarith)
      rw [if_neg (fun hc => this ((gt0_iff _).mp hc)), if_neg h2, zero_v]

theorem sgn_mul_self (a : K) : sgn a * a = |a| := by
  rcases lt_trichotomy a 0 with h | h | h
  · rw [sgn_neg h, abs_of_neg h]; ring
  · subst h; simp [sgn_zero]
  · rw [sgn_pos h, abs_of_pos h]; ring

theorem abs_sgn_le (a : K) : |sgn a| ≤ 1 := by
  rcases lt_trichotomy a 0 with h | h | h
  · rw [sgn_neg h]; simp
  · subst h; simp [sgn_zero]
  · rw [sgn_pos h]; simp

/-- **scalar core**: `sign a` is a subgradient of `|·|` at `a` -/
theorem abs_subgrad (a b : K) : |a| + sgn a * (b - a) ≤ |b| := by
  have e : |a| + sgn a * (b - a) = sgn a * b := by rw [← sgn_mul_self a]; ring
  rw [e]
  calc sgn a * b ≤ |sgn a * b| := le_abs_self _
    _ = |sgn a| * |b| := abs_mul _ _
    _ ≤ 1 * |b| := mul_le_mul_of_nonneg_right (abs_sgn_le a) (abs_nonneg b)
    _ = |b| := one_mul _

/-- **scalar core, differentiable case**: within `|t| < |a|` the absolute value is affine -/
theorem abs_add_small (a t : K) (h : |t| < |a|) : |a + t| = |a| + sgn a * t := by
  have ht := abs_lt.mp (lt_of_le_of_lt (le_refl |t|) h)
  rcases lt_trichotomy a 0 with ha | ha | ha
  · rw [abs_of_neg ha] at ht
    rw [sgn_neg ha, abs_of_neg ha, abs_of_neg (by linarith [ht.2])]; ring
  · subst ha
    simp only [abs_zero] at h
    exact absurd h (not_lt.mpr (abs_nonneg t))
  · rw [abs_of_pos ha] at ht
    rw [sgn_pos ha, abs_of_pos ha, abs_of_pos (by linarith [ht.1])]; ring

/-! ### lists -/

/-- `Σ |rᵢ|` -/
def abssum (l : List K) : K := (l.map (fun r => |r|)).sum

theorem abssum_nonneg (l : List K) : 0 ≤ abssum l := by
  unfold abssum
  induction l with
  | nil => simp
  | cons a l ih => simp only [List.map_cons, List.sum_cons]; exact add_nonneg (abs_nonneg a) ih

theorem map_absS_v (l : List (PlainOf K)) : (l.map absS).map (·.v) = (l.map (·.v)).map (fun r => |r|) := by
  rw [List.map_map, List.map_map]
  apply List.map_congr_left
  intro x _
  exact absS_v x

theorem map_signS_v (l : List (PlainOf K)) : (l.map signS).map (·.v) = (l.map (·.v)).map sgn := by
  rw [List.map_map, List.map_map]
  apply List.map_congr_left
  intro x _
  exact signS_v x

/-- `c · Q x'` -/
def cqx (c : K) (Q : List (List (PlainOf K))) (x : List K) : List K := (qxL Q x).map (fun t => c * t)

/-- **two-point subgradient inequality for one measurement**, in list form -/
theorem abssum_subgrad (c : K) (Q : List (List (PlainOf K))) (y : List (PlainOf K)) (x x' : List K) :
    abssum (residL c Q y x) + vdot ((residL c Q y x).map sgn) (cqx c Q x')
        - vdot ((residL c Q y x).map sgn) (cqx c Q x)
      ≤ abssum (residL c Q y x') := by
  induction Q generalizing y with
  | nil => simp [residL, qxL, cqx, abssum, vdot]
  | cons row Q ih =>
    cases y with
    | nil => simp [residL, qxL, cqx, abssum, vdot]
    | cons yi y =>
      have ih' := ih y
      simp only [residL, qxL, cqx, abssum, List.map_cons, List.zipWith_cons_cons, List.sum_cons,
        vdot_cons] at ih' ⊢
      have hs := abs_subgrad (c * (vdot (row.map (·.v)) x - yi.v)) (c * (vdot (row.map (·.v)) x' - yi.v))
      linarith

/-- the residual at `x + x'` -/
theorem residL_add (c : K) (Q : List (List (PlainOf K))) (y : List (PlainOf K)) (x x' : List K)
    (hx : x.length = x'.length) :
    residL c Q y (List.zipWith (· + ·) x x')
      = List.zipWith (· + ·) (residL c Q y x) (cqx c Q x') := by
  induction Q generalizing y with
  | nil => simp [residL, qxL, cqx]
  | cons row Q ih =>
    cases y with
    | nil => simp [residL, qxL, cqx]
    | cons yi y =>
      have ih' := ih y
      simp only [residL, qxL, cqx, List.map_cons, List.zipWith_cons_cons] at ih' ⊢
      rw [ih', vdot_add_right _ x x' hx]
      congr 1
      ring

/-- **exact first-order expansion for one measurement** when the step stays inside every residual -/
theorem abssum_add_small (r t : List K) (h : List.Forall₂ (fun t r => |t| < |r|) t r) :
    abssum (List.zipWith (· + ·) r t) = abssum r + vdot (r.map sgn) t := by
  induction h with
  | nil => simp [abssum, vdot]
  | cons hab _ ih =>
    simp only [abssum, List.zipWith_cons_cons, List.map_cons, List.sum_cons, vdot_cons] at ih ⊢
    rw [ih, abs_add_small _ _ hab]
    ring

end PGM.LossAux
