import PGM.Proofs.GbpFixedSweep
import PGM.Proofs.LbpTree
import PGM.Proofs.ConvexBuild
/-!
# Fixed points of generalised belief propagation, cell by cell

`Shape g` — the (decidable) combinatorial facts about the message sets `N`, `D`, `B` and the message order that the
parent-to-child algorithm relies on: `N[p,r] ⊆ B[p]`, `D[p,r] ⊆ B[r]`, every message of `B[r]` lives on a sub-region of
`r`, `D[p,r]` precedes `(p,r)` in the message order, and the **balance** `B[p] + D[p,r] + {(p,r)} = B[r] + N[p,r]`
(as multisets) — which is exactly "N and D are what is left of `B[p]` and `B[r] ∖ {(p,r)}` after cancellation".

`edge_equation` — at a fixed point `m` of a sweep, for every edge `(p,r)` and every valid assignment `σ`
`m[p,r](σ) = log Σ_{x_{p∖r}} exp(θ_p + Σ_{N[p,r]} m) − Σ_{D[p,r]} m(σ) − c` for a constant `c`.
-/
namespace PGM.GbpFixed
open PGM PGM.JT PGM.RG PGM.Convex PGM.Sem
open PGM.GM (dictSet)
set_option linter.unusedSectionVars false
set_option linter.unusedVariables false

/-- the combinatorial hypotheses on the message sets and the message order -/
def Shape (g : RG.Graph) : Prop :=
  g.messageOrder.Nodup ∧
  (∀ e ∈ g.messageOrder, e.1 ∈ g.regions ∧ e.2 ∈ look g.children e.1) ∧
  (∀ r ∈ g.regions, ∀ k ∈ look g.B r, k ∈ g.messageOrder ∧ ∀ a ∈ k.2, a ∈ r) ∧
  (∀ e ∈ g.messageOrder, ∀ k ∈ look g.N e, k ∈ look g.B e.1) ∧
  (∀ e ∈ g.messageOrder, ∀ k ∈ look g.D e, k ∈ look g.B e.2) ∧
  DBefore g ∧
  (∀ e ∈ g.messageOrder, (look g.B e.1 ++ look g.D e ++ [e]).Perm (look g.B e.2 ++ look g.N e))

instance (g : RG.Graph) : Decidable (Shape g) := by unfold Shape; infer_instance

/-- the hypotheses of the cell-wise reading: graph and potentials laid out on `dom`, the `Shape`, and a message state
whose entry at every edge of the message order is a well-formed table inside the child region (an invariant of the
sweeps; true of `initMessages`) -/
structure Hyp (dom : Dom) (g : RG.Graph) (pot : Region → Factor ℝ) (m : Msgs ℝ) : Prop where
  gok : GraphOK dom g pot
  pos : ∀ p ∈ dom, 0 < p.2
  shape : Shape g
  msgs_sub : ∀ e ∈ g.messageOrder, Sub dom e.2 (m.get e)

/-- **fixed point of one sweep, cell-wise**: the sweep reproduces the value of every message at every valid
assignment.  `gbpSweep g pot m = m` (equality of the dictionaries) implies it (`semFixed_of_eq`); the cell-wise form
does not care about the order in which a table lists its attributes. -/
def SemFixed (dom : Dom) (g : RG.Graph) (pot : Region → Factor ℝ) (m : Msgs ℝ) : Prop :=
  ∀ e ∈ g.messageOrder, ∀ σ, dom.Valid σ → ((gbpSweep g pot m).get e).sem σ = (m.get e).sem σ

theorem semFixed_of_eq (dom : Dom) (g : RG.Graph) (pot : Region → Factor ℝ) (m : Msgs ℝ)
    (h : gbpSweep g pot m = m) : SemFixed dom g pot m := by
  intro e _ σ _
  rw [h]

/-- `Σ_{k ∈ L} m[k](σ)` -/
noncomputable def sumMsgs (m : Msgs ℝ) (L : List Edge) (σ : Attr → Nat) : ℝ :=
  (L.map (fun k => (m.get k).sem σ)).sum

section
variable {dom : Dom} {g : RG.Graph} {pot : Region → Factor ℝ} {m : Msgs ℝ}

theorem Hyp.order_nodup (h : Hyp dom g pot m) : g.messageOrder.Nodup := h.shape.1
theorem Hyp.order_sound (h : Hyp dom g pot m) : ∀ e ∈ g.messageOrder, e.1 ∈ g.regions ∧ e.2 ∈ look g.children e.1 :=
  h.shape.2.1
theorem Hyp.B_sub (h : Hyp dom g pot m) :
    ∀ r ∈ g.regions, ∀ k ∈ look g.B r, k ∈ g.messageOrder ∧ ∀ a ∈ k.2, a ∈ r := h.shape.2.2.1
theorem Hyp.N_sub (h : Hyp dom g pot m) : ∀ e ∈ g.messageOrder, ∀ k ∈ look g.N e, k ∈ look g.B e.1 := h.shape.2.2.2.1
theorem Hyp.D_sub (h : Hyp dom g pot m) : ∀ e ∈ g.messageOrder, ∀ k ∈ look g.D e, k ∈ look g.B e.2 :=
  h.shape.2.2.2.2.1
theorem Hyp.D_before (h : Hyp dom g pot m) : DBefore g := h.shape.2.2.2.2.2.1
theorem Hyp.balance (h : Hyp dom g pot m) :
    ∀ e ∈ g.messageOrder, (look g.B e.1 ++ look g.D e ++ [e]).Perm (look g.B e.2 ++ look g.N e) :=
  h.shape.2.2.2.2.2.2

theorem Hyp.child_mem (h : Hyp dom g pot m) {e : Edge} (he : e ∈ g.messageOrder) :
    e.2 ∈ g.regions ∧ ∀ a ∈ e.2, a ∈ e.1 :=
  h.gok.children_sub e.1 (h.order_sound e he).1 e.2 (h.order_sound e he).2

/-- the message of an edge is a table inside the child region -/
theorem Hyp.msg_sub (h : Hyp dom g pot m) {k : Edge} (hk : k ∈ g.messageOrder) : Sub dom k.2 (m.get k) :=
  h.msgs_sub k hk

/-- the messages of `B[r]` are tables inside `r` -/
theorem Hyp.B_msg_sub (h : Hyp dom g pot m) {r : Region} (hr : r ∈ g.regions) {k : Edge} (hk : k ∈ look g.B r) :
    Sub dom r (m.get k) :=
  (h.msg_sub (h.B_sub r hr k hk).1).mono (h.B_sub r hr k hk).2
end

/-! ### two more table operations -/

theorem half_real : (RG.half : ℝ) = 1 / 2 := by
  show ((1 : ℝ) / ((2 : ℕ) : ℝ)) = 1 / 2
  norm_num

/-- `x - sum(…)` for a table that is only *inside* the region -/
theorem subSum_sub {dom : Dom} {r : Region} (hd : dom.WF) (x : Factor ℝ) (s : PySum ℝ)
    (hx : Sub dom r x) (hs : psSub dom r s) :
    Sub dom r (subSum x s) ∧ ∀ σ, dom.Valid σ → (subSum x s).sem σ = x.sem σ - psVal s σ := by
  cases s with
  | zero =>
    refine ⟨mapVals_sub _ hx, ?_⟩
    intro σ hσ
    show (Factor.mk' x.dom (x.vals.map (fun v => Scalar.sub v Scalar.zero))).sem σ = x.sem σ - 0
    rw [sem_mapVals_ok _ hd hx.1 hσ]
    show x.sem σ + -(0 : ℝ) = x.sem σ - 0
    ring
  | fac g =>
    have hg' : Sub dom r (Factor.mk' g.dom (g.vals.map Factor.negInfAware)) := mapVals_sub _ hs
    refine ⟨binop_sub _ hx hg', ?_⟩
    intro σ hσ
    show (Factor.binop Scalar.add x (Factor.mk' g.dom (g.vals.map Factor.negInfAware))).sem σ
      = x.sem σ - g.sem σ
    rw [sem_binop_ok Scalar.add hd hx.1 hg'.1 hσ, sem_mapVals_ok _ hd hs.1 hσ, negInfAware_eq]
    show x.sem σ + -g.sem σ = x.sem σ - g.sem σ
    ring

theorem subScalar_sem_ok {dom : Dom} {f : Factor ℝ} (hd : dom.WF) (hf : FactorOK dom f) (c : ℝ)
    {σ : Attr → Nat} (hσ : dom.Valid σ) : (f.subScalar c).sem σ = f.sem σ - c := by
  show (Factor.mk' f.dom (f.vals.map (fun v => Scalar.sub v c))).sem σ = _
  rw [sem_mapVals_ok _ hd hf hσ]
  show f.sem σ + -c = _
  ring

theorem mulScalar_sem_ok {dom : Dom} {f : Factor ℝ} (hd : dom.WF) (hf : FactorOK dom f) (c : ℝ)
    {σ : Attr → Nat} (hσ : dom.Valid σ) : (Factor.mulScalar c f).sem σ = c * f.sem σ := by
  show (Factor.mk' f.dom (f.vals.map (fun v => Scalar.nanToNum (Scalar.mul c v)))).sem σ = _
  rw [sem_mapVals_ok _ hd hf hσ]
  rfl

/-- `0.5·a + 0.5·b`, cell-wise -/
theorem damp2_sem {dom : Dom} {r : Region} (hd : dom.WF) {a b : Factor ℝ} (ha : Sub dom r a) (hb : Sub dom r b)
    {σ : Attr → Nat} (hσ : dom.Valid σ) : (damp2 a b).sem σ = (a.sem σ + b.sem σ) / 2 := by
  show (Factor.binop Scalar.add (Factor.mulScalar half a) (Factor.mulScalar half b)).sem σ = _
  rw [sem_binop_ok Scalar.add hd (mulScalar_sub _ ha).1 (mulScalar_sub _ hb).1 hσ,
    mulScalar_sem_ok hd ha.1 _ hσ, mulScalar_sem_ok hd hb.1 _ hσ, half_real]
  show 1 / 2 * a.sem σ + 1 / 2 * b.sem σ = _
  ring

/-- `logsumexp` of a table on `p` over `set(p) - set(r)`: a table inside `r`, cell-wise `log Σ_{x_{p∖r}} exp` -/
theorem lse_diff_ok {dom : Dom} (hd : dom.WF) {p r : Region} (hrp : RegOK dom p) (num : Factor ℝ)
    (hnum : On dom p num) :
    Sub dom r (num.logsumexp (diff p r)) ∧
    ∀ σ, dom.Valid σ → (num.logsumexp (diff p r)).sem σ
      = Real.log (sumOver dom (p.filter (fun a => !r.contains a)) σ (fun τ => Real.exp (num.sem τ))) := by
  have hok := hnum.factorOK hrp
  have hmemdiff : ∀ a ∈ p, (a ∈ diff p r ↔ a ∉ r) := by
    intro a ha
    unfold diff
    rw [mem_dedup, List.mem_filter]
    simp [ha]
  constructor
  · refine ⟨FactorOK.reduce _ _ hok, ?_⟩
    intro a ha
    obtain ⟨ha1, ha2⟩ := (reduce_mem_attrs _ _ _ a).mp ha
    rw [hnum.attrs] at ha1
    by_contra har
    exact ha2 ((hmemdiff a ha1).mpr har)
  · intro σ hσ
    have hv := hok.valid hd hσ
    rw [LbpTree.sem_logsumexp num (diff p r) σ hnum.1
      (fun a ha _ => (Dom.valid_iff _ hnum.1.1 σ).mp hv a ha)]
    congr 1
    have e1 : num.dom.removed (diff p r) = p.filter (fun a => !r.contains a) := by
      unfold Dom.removed
      rw [hnum.attrs]
      apply List.filter_congr
      intro a ha
      by_cases har : a ∈ r
      · have : a ∉ diff p r := fun h => ((hmemdiff a ha).mp h) har
        simp [har, this]
      · have : a ∈ diff p r := (hmemdiff a ha).mpr har
        simp [har, this]
    rw [e1]
    unfold sumOver
    have e2 : (p.filter (fun a => !r.contains a)).map num.dom.cfg
        = (p.filter (fun a => !r.contains a)).map dom.cfg := by
      apply List.map_congr_left
      intro a ha
      rw [hnum.2]
      exact Dom.cfg_project dom p a (List.mem_filter.mp ha).1
    rw [e2]

/-! ### the new message of one edge -/

section
variable {dom : Dom} {g : RG.Graph} {pot : Region → Factor ℝ} {m : Msgs ℝ}

/-- the numerator `θ_p + Σ_{N[p,r]} m` as a function of the assignment -/
noncomputable def numVal (g : RG.Graph) (pot : Region → Factor ℝ) (m : Msgs ℝ) (e : Edge) (τ : Attr → Nat) : ℝ :=
  (pot e.1).sem τ + sumMsgs m (look g.N e) τ

/-- **one new message, cell-wise** (no fixed point yet): if the entries of `new` at `D[e]` are tables inside their
child regions, `newMsg` is a table inside `e.2` and equals
`log Σ_{x_{p∖r}} exp(θ_p + Σ_N m) − Σ_D new − c` for a constant `c` -/
theorem newMsg_ok (h : Hyp dom g pot m) (new : Msgs ℝ) {e : Edge} (he : e ∈ g.messageOrder)
    (hnew : ∀ k ∈ look g.D e, Sub dom k.2 (new.get k)) :
    Sub dom e.2 (newMsg g pot m new e) ∧
    ∃ c : ℝ, ∀ σ, dom.Valid σ → (newMsg g pot m new e).sem σ
      = Real.log (sumOver dom (e.1.filter (fun a => !e.2.contains a)) σ (fun τ => Real.exp (numVal g pot m e τ)))
        - sumMsgs new (look g.D e) σ - c := by
  have hd := h.gok.dom_wf
  have hp := (h.order_sound e he).1
  have hr := (h.child_mem he).1
  have hrp := h.gok.region_ok e.1 hp
  -- numerator
  have hN : ∀ f ∈ (look g.N e).map m.get, Sub dom e.1 f := by
    intro f hf
    obtain ⟨k, hk, rfl⟩ := List.mem_map.mp hf
    exact h.B_msg_sub hp (h.N_sub e he k hk)
  obtain ⟨a1, a2⟩ := pySum_ok hd ((look g.N e).map m.get) hN
  obtain ⟨b1, b2⟩ := addSum_ok hd hrp (pot e.1) _ (h.gok.pot_ok e.1 hp) a1
  obtain ⟨c1, c2⟩ := lse_diff_ok hd (r := e.2) hrp _ b1
  -- denominator
  have hD : ∀ f ∈ (look g.D e).map (Msgs.get new), Sub dom e.2 f := by
    intro f hf
    obtain ⟨k, hk, rfl⟩ := List.mem_map.mp hf
    exact (hnew k hk).mono (h.B_sub e.2 hr k (h.D_sub e he k hk)).2
  obtain ⟨d1, d2⟩ := pySum_ok hd ((look g.D e).map (Msgs.get new)) hD
  obtain ⟨e1, e2⟩ := subSum_sub hd _ _ c1 d1
  refine ⟨subScalar_sub _ e1, ?_⟩
  refine ⟨(subSum ((addSum (pot e.1) (pySum ((look g.N e).map m.get))).logsumexp (diff e.1 e.2))
    (pySum ((look g.D e).map (Msgs.get new)))).logsumexpAll, ?_⟩
  intro σ hσ
  show (Factor.subScalar _ _).sem σ = _
  rw [subScalar_sem_ok hd e1.1 _ hσ, e2 σ hσ, c2 σ hσ, d2 σ hσ]
  congr 2
  · congr 1
    apply sumOver_congr_valid dom hd _ σ _ _ hσ
    intro τ hτ
    rw [b2 τ hτ, a2 τ hτ]
    unfold numVal sumMsgs
    rw [List.map_map]
    rfl
  · unfold sumMsgs
    rw [List.map_map]
    rfl

/-- at a fixed point every entry of `new` is a table inside the child region of its edge -/
theorem newDict_sub (h : Hyp dom g pot m) :
    ∀ e ∈ g.messageOrder, Sub dom e.2 ((newDict g pot m).get e) := by
  apply foldl_val_inv (fun k f => Sub dom k.2 f) (fun e => look g.D e) g.messageOrder h.order_nodup
    (newDict g pot m) (fun e => newMsg g pot m (newDict g pot m) e)
    (fun e he => newDict_get g pot m h.order_nodup h.D_before e he) h.D_before
  intro e he hk
  exact (newMsg_ok h (newDict g pot m) he hk).1

/-- at a fixed point `new[e]` and `m[e]` agree cell-wise -/
theorem new_eq_old (h : Hyp dom g pot m) (hfix : SemFixed dom g pot m) {e : Edge} (he : e ∈ g.messageOrder)
    {σ : Attr → Nat} (hσ : dom.Valid σ) : ((newDict g pot m).get e).sem σ = (m.get e).sem σ := by
  have h1 := hfix e he σ hσ
  rw [gbpSweep_get g pot m h.order_nodup e, if_pos he,
    damp2_sem h.gok.dom_wf (h.msg_sub he) (newDict_sub h e he) hσ] at h1
  linarith

/-- **the fixed-point equation of one edge, cell-wise** -/
theorem edge_equation (h : Hyp dom g pot m) (hfix : SemFixed dom g pot m) {e : Edge} (he : e ∈ g.messageOrder) :
    ∃ c : ℝ, ∀ σ, dom.Valid σ → (m.get e).sem σ
      = Real.log (sumOver dom (e.1.filter (fun a => !e.2.contains a)) σ (fun τ => Real.exp (numVal g pot m e τ)))
        - sumMsgs m (look g.D e) σ - c := by
  obtain ⟨_, c, hc⟩ := newMsg_ok h (newDict g pot m) he
    (fun k hk => newDict_sub h k (h.B_sub e.2 (h.child_mem he).1 k (h.D_sub e he k hk)).1)
  refine ⟨c, ?_⟩
  intro σ hσ
  rw [← new_eq_old h hfix he hσ, newDict_get g pot m h.order_nodup h.D_before e he, hc σ hσ]
  congr 2
  unfold sumMsgs
  apply congrArg
  apply List.map_congr_left
  intro k hk
  exact new_eq_old h hfix (h.B_sub e.2 (h.child_mem he).1 k (h.D_sub e he k hk)).1 hσ

end
end PGM.GbpFixed
