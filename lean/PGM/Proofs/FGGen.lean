import PGM.Generated.FactorGraphG
import PGM.Proofs.OracleFold
/-!
# Helper lemmas for `PGM/Properties/C16G.lean`

The generated reading of `src/mbi/factor_graph.py` (`PGM/Generated/FactorGraphG.lean`) follows the source statement by
statement: `sum(...)` starts from the Python int `0` and is a `PyVal`, the three successive stores `mu_f[cl][v] = …`,
`mu_f[cl][v] = mu_f[cl][v].logsumexp(…)`, `mu_f[cl][v] -= …` are three dictionary updates, each loop carries exactly the
names it re-binds.  The hand model `PGM/Model/FactorGraph.lean` threads one `State` through every loop and stores each
message once.  These are the facts that bridge the two; this file only uses the FIXED prelude of the generated file
(`PyVal`, `getN`, `getF`).
-/
namespace PGM.FGGen
open PGM PGM.JT PGM.RG
set_option linter.unusedSectionVars false
set_option linter.unusedVariables false

/-! ## dictionaries -/
section dict
variable {κ β : Type} [BEq κ] [LawfulBEq κ]

theorem any_map_key (d : List (κ × β)) (k : κ) (v : β) :
    (d.map (fun p => if p.1 == k then (k, v) else p)).any (fun p => p.1 == k) = d.any (fun p => p.1 == k) := by
  induction d with
  | nil => rfl
  | cons p ps ih =>
    simp only [List.map_cons, List.any_cons, ih]
    by_cases h : (p.1 == k) = true
    · simp [h]
    · simp [h]

/-- `d[k] = v; d[k] = w` is `d[k] = w` -/
theorem dictSet_dictSet (d : List (κ × β)) (k : κ) (v w : β) :
    GM.dictSet (GM.dictSet d k v) k w = GM.dictSet d k w := by
  unfold GM.dictSet
  by_cases h : d.any (fun p => p.1 == k) = true
  · rw [if_pos h, any_map_key, if_pos h, if_pos h, List.map_map]
    apply List.map_congr_left
    intro p _
    by_cases hp : (p.1 == k) = true
    · simp [hp]
    · simp [hp]
  · rw [if_neg h]
    have hany : (d ++ [(k, v)]).any (fun p => p.1 == k) = true := by simp
    rw [if_pos hany, if_neg h, List.map_append]
    congr 1
    · have hall : ∀ p ∈ d, (p.1 == k) = false := by
        intro p hp
        cases hpk : (p.1 == k) with
        | false => rfl
        | true => exact absurd (List.any_eq_true.mpr ⟨p, hp, hpk⟩) h
      calc d.map (fun p => if p.1 == k then (k, w) else p) = d.map id := by
            apply List.map_congr_left
            intro p hp
            simp [hall p hp]
        _ = d := List.map_id d
    · simp

theorem lookup_dictSet_self (d : List (κ × β)) (k : κ) (v : β) : (GM.dictSet d k v).lookup k = some v := by
  rw [Oracle.lookup_dictSet, if_pos (beq_self_eq_true k)]

/-- a dictionary filled by a loop over distinct keys lists them in order -/
theorem foldl_dictSet_nodup (F : κ → β) (l : List κ) (hl : l.Nodup) (d : List (κ × β))
    (hd : ∀ x ∈ l, x ∉ d.map Prod.fst) :
    l.foldl (fun d x => GM.dictSet d x (F x)) d = d ++ l.map (fun x => (x, F x)) := by
  induction l generalizing d with
  | nil => simp
  | cons x xs ih =>
    have hx : d.any (fun p => p.1 == x) = false := by
      cases hh : d.any (fun p => p.1 == x) with
      | false => rfl
      | true =>
        obtain ⟨p, hp, hpx⟩ := List.any_eq_true.mp hh
        exact absurd (List.mem_map.mpr ⟨p, hp, eq_of_beq hpx⟩) (hd x (by simp))
    have hset : GM.dictSet d x (F x) = d ++ [(x, F x)] := by
      unfold GM.dictSet; rw [hx]; rfl
    rw [List.foldl_cons, hset, ih (List.nodup_cons.mp hl).2]
    · simp
    · intro y hy hmem
      rw [List.map_append, List.mem_append] at hmem
      rcases hmem with h | h
      · exact hd y (by simp [hy]) h
      · simp at h
        exact (List.nodup_cons.mp hl).1 (h ▸ hy)

end dict

/-! ## folds -/

theorem foldl_iso {σ τ ι : Type} (φ : σ → τ) (f : σ → ι → σ) (g : τ → ι → τ) (h : ∀ s x, φ (f s x) = g (φ s) x)
    (l : List ι) (s : σ) : φ (l.foldl f s) = l.foldl g (φ s) := by
  induction l generalizing s with
  | nil => rfl
  | cons x xs ih => rw [List.foldl_cons, List.foldl_cons, ih, h]

theorem foldl_range_iterate {β : Type} (f : β → β) (n : Nat) (x : β) :
    (List.range n).foldl (fun st (_ : Nat) => f st) x = iterate f n x := by
  have key : ∀ (l : List Nat) (x : β), l.foldl (fun st (_ : Nat) => f st) x = iterate f l.length x := by
    intro l
    induction l with
    | nil => intro x; rfl
    | cons a as ih => intro x; rw [List.foldl_cons, ih]; rfl
  rw [key, List.length_range]

variable {α : Type} [Scalar α]

/-! ## `sum(…)`: the model's `PySum` is the generated `PyVal` -/

def toPy : PySum α → FGG.PyVal α
  | .zero => .num Scalar.zero
  | .fac g => .fac g

theorem sum_eq_aux (l : List (Factor α)) (acc : PySum α) :
    l.foldl (fun x y => FGG.PyVal.add x (FGG.PyVal.fac y)) (toPy acc) =
      toPy (l.foldl (fun acc f => match acc with
        | .zero => .fac (f.addScalar Scalar.zero)
        | .fac g => .fac (g.add f)) acc) := by
  induction l generalizing acc with
  | nil => rfl
  | cons x xs ih =>
    rw [List.foldl_cons, List.foldl_cons, ← ih]
    cases acc <;> rfl

/-- `sum(xs)` -/
theorem sum_eq (l : List (Factor α)) :
    l.foldl (fun x y => FGG.PyVal.add x (FGG.PyVal.fac y)) (FGG.PyVal.num Scalar.zero) = toPy (pySum l) :=
  sum_eq_aux l .zero

theorem addF_toPy (f : Factor α) (s : PySum α) : FGG.PyVal.addF f (toPy s) = addSum f s := by
  cases s <;> rfl

theorem getN_eq (s : FG.State α) (v : Attr) (cl : Clique) : FGG.getN s.muN (v, cl) = FG.getN s v cl := by
  unfold FGG.getN FG.getN
  cases List.lookup (v, cl) s.muN <;> rfl

theorem getF_eq (s : FG.State α) (cl : Clique) (v : Attr) : FGG.getF s.muF (cl, v) = FG.getF s cl v := by
  unfold FGG.getF FG.getF
  cases List.lookup (cl, v) s.muF <;> rfl

theorem getF_dictSet_self (m : FGG.MuF α) (k : Clique × Attr) (f : Factor α) : FGG.getF (GM.dictSet m k f) k = f := by
  unfold FGG.getF
  rw [lookup_dictSet_self]; rfl

theorem pySum_cons_ne_zero (x : Factor α) (xs : List (Factor α)) : ∃ g, pySum (x :: xs) = PySum.fac g := by
  have key : ∀ (l : List (Factor α)) (g : Factor α), ∃ g', l.foldl (fun acc f => match acc with
        | .zero => PySum.fac (f.addScalar Scalar.zero)
        | .fac g => PySum.fac (g.add f)) (PySum.fac g) = PySum.fac g' := by
    intro l
    induction l with
    | nil => intro g; exact ⟨g, rfl⟩
    | cons y ys ih => intro g; rw [List.foldl_cons]; exact ih _
  exact key xs _

theorem getN_mk (n : FGG.MuN α) (t : FGG.MuF α) (v : Attr) (cl : Clique) : FG.getN ⟨n, t⟩ v cl = FGG.getN n (v, cl) :=
  (getN_eq ⟨n, t⟩ v cl).symm

theorem getF_mk (n : FGG.MuN α) (t : FGG.MuF α) (cl : Clique) (v : Attr) : FG.getF ⟨n, t⟩ cl v = FGG.getF t (cl, v) :=
  (getF_eq ⟨n, t⟩ cl v).symm

/-! ## one sweep of `loopy_belief_propagation` in normal form

`lbpSweep` of the generated file, with each loop body as a named step function (statement by statement as in the source);
`C16G.gen_lbpSweep_shape` proves the regenerated definition equal to `sweepF` by unfolding alone. -/

/-- the body of `for v in cl` (factor to variable): three stores under the same key -/
def facStepG (pots : CliqueVec α) (mu_n : FGG.MuN α) (cl : Clique) (pre : FGG.PyVal α) (mu_f : FGG.MuF α) (v : Attr) : FGG.MuF α :=
  let complement := (cl.filter (fun var => (var != v)))
  let mu_f := (GM.dictSet mu_f (cl, v) (Factor.sub (FGG.PyVal.addF (CliqueVec.get pots cl) pre) (FGG.getN mu_n (v, cl))))
  let mu_f := (GM.dictSet mu_f (cl, v) (Factor.logsumexp (FGG.getF mu_f (cl, v)) complement))
  let mu_f := (GM.dictSet mu_f (cl, v) (Factor.subScalar (FGG.getF mu_f (cl, v)) (Factor.logsumexpAll (FGG.getF mu_f (cl, v)))))
  mu_f

def phase1F (cliques : List Clique) (pots : CliqueVec α) (mu_n : FGG.MuN α) (mu_f : FGG.MuF α) : FGG.MuF α :=
  cliques.foldl (fun (mu_f : FGG.MuF α) (cl : Clique) =>
    let pre := ((cl.map (fun c => (FGG.getN mu_n (c, cl)))).foldl (fun x y => FGG.PyVal.add x (FGG.PyVal.fac y)) (FGG.PyVal.num Scalar.zero))
    cl.foldl (facStepG pots mu_n cl pre) mu_f) mu_f

/-- the body of `for v in self.domain` (variable to factor) -/
def varStepG (cliques : List Clique) (mu_f : FGG.MuF α) (mu_n : FGG.MuN α) (v : Attr) : FGG.MuN α :=
  let fac := (cliques.filter (fun cl => (cl.contains v)))
  let pre := ((fac.map (fun cl => (FGG.getF mu_f (cl, v)))).foldl (fun x y => FGG.PyVal.add x (FGG.PyVal.fac y)) (FGG.PyVal.num Scalar.zero))
  fac.foldl (fun (mu_n : FGG.MuN α) (f : Clique) =>
    let complement := (fac.filter (fun var => (var != f)))
    let mu_n := (GM.dictSet mu_n (v, f) (FGG.PyVal.subL pre (FGG.getF mu_f (f, v))))
    mu_n) mu_n

def sweepF (dom : Dom) (cliques : List Clique) (pots : CliqueVec α) (st : FGG.MuN α × FGG.MuF α) : FGG.MuN α × FGG.MuF α :=
  let mu_f := phase1F cliques pots st.1 st.2
  ((Dom.attrs dom).foldl (varStepG cliques mu_f) st.1, mu_f)

/-- the message pair of a model state -/
def tup (s : FG.State α) : FGG.MuN α × FGG.MuF α := (s.muN, s.muF)

/-- the three stores collapse to the single store of the model -/
theorem facStepG_eq (pots : CliqueVec α) (n : FGG.MuN α) (cl : Clique) (pre : PySum α) (t : FGG.MuF α) (v : Attr) :
    facStepG pots n cl (toPy pre) t v =
      GM.dictSet t (cl, v)
        (let m := (addSum (pots.get cl) pre).sub (FG.getN ⟨n, t⟩ v cl)
         let m := m.logsumexp (cl.filter (fun var => var != v))
         m.subScalar m.logsumexpAll) := by
  unfold facStepG
  simp only [getF_dictSet_self, dictSet_dictSet, addF_toPy, getN_mk]

theorem foldl_mk {σ τ ι : Type} (mk : τ → σ) (f : σ → ι → σ) (g : τ → ι → τ) (h : ∀ t x, f (mk t) x = mk (g t x))
    (l : List ι) (t : τ) : l.foldl f (mk t) = mk (l.foldl g t) := by
  induction l generalizing t with
  | nil => rfl
  | cons x xs ih => rw [List.foldl_cons, List.foldl_cons, h, ih]

theorem phase1_inner (pots : CliqueVec α) (n : FGG.MuN α) (cl : Clique) (pre : PySum α) (l : List Attr) (t : FGG.MuF α) :
    l.foldl (fun (s : FG.State α) v =>
      let complement := cl.filter (fun var => var != v)
      let m := (addSum (pots.get cl) pre).sub (FG.getN s v cl)
      let m := m.logsumexp complement
      let m := m.subScalar m.logsumexpAll
      { s with muF := GM.dictSet s.muF (cl, v) m }) ⟨n, t⟩
    = ⟨n, l.foldl (facStepG pots n cl (toPy pre)) t⟩ := by
  refine foldl_mk (fun t => (⟨n, t⟩ : FG.State α)) _ _ ?_ l t
  intro t v
  rw [facStepG_eq]

theorem phase1_step (pots : CliqueVec α) (n : FGG.MuN α) (t : FGG.MuF α) (cl : Clique) :
    (let pre := pySum (cl.map (fun c => FG.getN (⟨n, t⟩ : FG.State α) c cl))
     cl.foldl (fun (s : FG.State α) v =>
        let complement := cl.filter (fun var => var != v)
        let m := (addSum (pots.get cl) pre).sub (FG.getN s v cl)
        let m := m.logsumexp complement
        let m := m.subScalar m.logsumexpAll
        { s with muF := GM.dictSet s.muF (cl, v) m }) ⟨n, t⟩)
    = ⟨n, (let pre := ((cl.map (fun c => (FGG.getN n (c, cl)))).foldl (fun x y => FGG.PyVal.add x (FGG.PyVal.fac y)) (FGG.PyVal.num Scalar.zero))
           cl.foldl (facStepG pots n cl pre) t)⟩ := by
  have hpre : cl.map (fun c => FGG.getN n (c, cl)) = cl.map (fun c => FG.getN (⟨n, t⟩ : FG.State α) c cl) := by
    apply List.map_congr_left; intro a _; exact (getN_mk n t a cl).symm
  show _ = (⟨n, cl.foldl (facStepG pots n cl ((cl.map (fun c => (FGG.getN n (c, cl)))).foldl
    (fun x y => FGG.PyVal.add x (FGG.PyVal.fac y)) (FGG.PyVal.num Scalar.zero))) t⟩ : FG.State α)
  rw [sum_eq, hpre]
  exact phase1_inner pots n cl _ cl t

theorem phase1_eq (cliques : List Clique) (pots : CliqueVec α) (n : FGG.MuN α) (t : FGG.MuF α) :
    cliques.foldl (fun (s : FG.State α) cl =>
      let pre := pySum (cl.map (fun c => FG.getN s c cl))
      cl.foldl (fun (s : FG.State α) v =>
        let complement := cl.filter (fun var => var != v)
        let m := (addSum (pots.get cl) pre).sub (FG.getN s v cl)
        let m := m.logsumexp complement
        let m := m.subScalar m.logsumexpAll
        { s with muF := GM.dictSet s.muF (cl, v) m }) s) ⟨n, t⟩
    = ⟨n, phase1F cliques pots n t⟩ := by
  unfold phase1F
  refine foldl_mk (fun t => (⟨n, t⟩ : FG.State α)) _ _ ?_ cliques t
  intro t cl
  exact phase1_step pots n t cl

theorem phase2_inner (v : Attr) (g : Factor α) (l : List Clique) (n : FGG.MuN α) (t : FGG.MuF α) :
    l.foldl (fun (s : FG.State α) f => { s with muN := GM.dictSet s.muN (v, f) (g.sub (FG.getF s f v)) }) ⟨n, t⟩
    = ⟨l.foldl (fun (mu_n : FGG.MuN α) f => GM.dictSet mu_n (v, f) (FGG.PyVal.subL (FGG.PyVal.fac g) (FGG.getF t (f, v)))) n, t⟩ := by
  refine foldl_mk (fun n => (⟨n, t⟩ : FG.State α)) _ _ ?_ l n
  intro n f
  show _ = (⟨GM.dictSet n (v, f) (g.sub (FGG.getF t (f, v))), t⟩ : FG.State α)
  rw [← getF_mk n t f v]

theorem varStep_eq (cliques : List Clique) (n : FGG.MuN α) (t : FGG.MuF α) (v : Attr) :
    (let fac := cliques.filter (fun cl => cl.contains v)
     match pySum (fac.map (fun cl => FG.getF (⟨n, t⟩ : FG.State α) cl v)) with
     | .zero => (⟨n, t⟩ : FG.State α)
     | .fac pre => fac.foldl (fun (s : FG.State α) f => { s with muN := GM.dictSet s.muN (v, f) (pre.sub (FG.getF s f v)) }) ⟨n, t⟩)
    = ⟨varStepG cliques t n v, t⟩ := by
  have hpre : ∀ l : List Clique, (l.map (fun cl => FG.getF (⟨n, t⟩ : FG.State α) cl v)) = l.map (fun cl => FGG.getF t (cl, v)) := by
    intro l; apply List.map_congr_left; intro a _; exact getF_mk n t a v
  show (match pySum ((cliques.filter (fun cl => cl.contains v)).map (fun cl => FG.getF (⟨n, t⟩ : FG.State α) cl v)) with
     | .zero => (⟨n, t⟩ : FG.State α)
     | .fac pre => (cliques.filter (fun cl => cl.contains v)).foldl
        (fun (s : FG.State α) f => { s with muN := GM.dictSet s.muN (v, f) (pre.sub (FG.getF s f v)) }) ⟨n, t⟩)
    = (⟨(cliques.filter (fun cl => (cl.contains v))).foldl (fun (mu_n : FGG.MuN α) (f : Clique) =>
        GM.dictSet mu_n (v, f) (FGG.PyVal.subL (((cliques.filter (fun cl => (cl.contains v))).map (fun cl => (FGG.getF t (cl, v)))).foldl
          (fun x y => FGG.PyVal.add x (FGG.PyVal.fac y)) (FGG.PyVal.num Scalar.zero)) (FGG.getF t (f, v)))) n, t⟩ : FG.State α)
  rw [sum_eq, hpre]
  generalize cliques.filter (fun cl => cl.contains v) = fac
  cases fac with
  | nil => rfl
  | cons c cs =>
    obtain ⟨g, hg⟩ := pySum_cons_ne_zero (FGG.getF t (c, v)) (cs.map (fun cl => FGG.getF t (cl, v)))
    rw [List.map_cons, hg]
    exact phase2_inner v g (c :: cs) n t

theorem phase2_eq (cliques : List Clique) (l : List Attr) (n : FGG.MuN α) (t : FGG.MuF α) :
    l.foldl (fun (s : FG.State α) v =>
      let fac := cliques.filter (fun cl => cl.contains v)
      match pySum (fac.map (fun cl => FG.getF s cl v)) with
      | .zero => s
      | .fac pre => fac.foldl (fun (s : FG.State α) f => { s with muN := GM.dictSet s.muN (v, f) (pre.sub (FG.getF s f v)) }) s) ⟨n, t⟩
    = ⟨l.foldl (varStepG cliques t) n, t⟩ := by
  refine foldl_mk (fun n => (⟨n, t⟩ : FG.State α)) _ _ ?_ l n
  intro n v
  exact varStep_eq cliques n t v

theorem sweep_eq (dom : Dom) (cliques : List Clique) (pots : CliqueVec α) (s : FG.State α) :
    sweepF dom cliques pots (tup s) = tup (FG.lbpSweep dom cliques pots s) := by
  obtain ⟨n, t⟩ := s
  unfold FG.lbpSweep
  rw [phase1_eq]
  exact (congrArg tup (phase2_eq cliques dom.attrs n (phase1F cliques pots n t))).symm

theorem iterate_sweep (dom : Dom) (cliques : List Clique) (pots : CliqueVec α) (n : Nat) (s : FG.State α) :
    iterate (sweepF dom cliques pots) n (tup s) = tup (iterate (FG.lbpSweep dom cliques pots) n s) := by
  induction n generalizing s with
  | zero => rfl
  | succ k ih =>
    show iterate (sweepF dom cliques pots) k (sweepF dom cliques pots (tup s)) = _
    rw [sweep_eq, ih]
    rfl

/-- `self.beliefs = {v: sum(mu_f[cl][v] for cl in self.cliques if v in cl) for v in self.domain}` -/
def beliefsF (dom : Dom) (cliques : List Clique) (mu_f : FGG.MuF α) : List (Attr × FGG.PyVal α) :=
  ((Dom.attrs dom).foldl (fun (d : List (Attr × FGG.PyVal α)) v => GM.dictSet d v (((cliques.filter (fun cl => (cl.contains v))).map
    (fun cl => (FGG.getF mu_f (cl, v)))).foldl (fun x y => FGG.PyVal.add x (FGG.PyVal.fac y)) (FGG.PyVal.num Scalar.zero))) [])

/-- for a domain without repeated attribute names the dictionary lists the model's `beliefs` -/
theorem beliefsF_eq (dom : Dom) (cliques : List Clique) (s : FG.State α) (hd : dom.attrs.Nodup) :
    beliefsF dom cliques s.muF = (FG.beliefs dom cliques s).map (fun p => (p.1, toPy p.2)) := by
  unfold beliefsF FG.beliefs
  rw [foldl_dictSet_nodup (fun v => ((cliques.filter (fun cl => (cl.contains v))).map
    (fun cl => (FGG.getF s.muF (cl, v)))).foldl (fun x y => FGG.PyVal.add x (FGG.PyVal.fac y)) (FGG.PyVal.num Scalar.zero)) _ hd [] (by simp)]
  rw [List.nil_append, List.map_map]
  apply List.map_congr_left
  intro v _
  simp only [Function.comp, sum_eq]
  congr 3
  apply List.map_congr_left
  intro cl _
  exact getF_eq s cl v

/-! ## `__init__` (convex = False) -/

section sumkeys
variable {A B : Type} [BEq A] [BEq B]

theorem inl_beq (a a' : A) : ((Sum.inl a : A ⊕ B) == Sum.inl a') = (a == a') := by
  show Sum.instBEq.beq _ _ = _
  unfold Sum.instBEq.beq
  rfl
theorem inr_beq (b b' : B) : ((Sum.inr b : A ⊕ B) == Sum.inr b') = (b == b') := by
  show Sum.instBEq.beq _ _ = _
  unfold Sum.instBEq.beq
  rfl
theorem inl_inr_beq (a : A) (b : B) : ((Sum.inl a : A ⊕ B) == Sum.inr b) = false := rfl
theorem inr_inl_beq (a : A) (b : B) : ((Sum.inr b : A ⊕ B) == Sum.inl a) = false := rfl

/-- a tuple never equals a string: the keys of `counting_numbers` form a disjoint sum -/
instance sumLawful [LawfulBEq A] [LawfulBEq B] : LawfulBEq (A ⊕ B) where
  eq_of_beq := by
    intro a b h
    cases a <;> cases b
    · rw [inl_beq] at h; exact congrArg Sum.inl (eq_of_beq h)
    · rw [inl_inr_beq] at h; exact absurd h (by decide)
    · rw [inr_inl_beq] at h; exact absurd h (by decide)
    · rw [inr_beq] at h; exact congrArg Sum.inr (eq_of_beq h)
  rfl := by
    intro a
    cases a
    · rw [inl_beq]; exact beq_self_eq_true _
    · rw [inr_beq]; exact beq_self_eq_true _
end sumkeys

/-- the value `__init__` stores under a key of `counting_numbers` -/
def cnVal (cliques : List Clique) : Clique ⊕ Attr → α
  | .inl _ => Scalar.one
  | .inr a => (Scalar.sub Scalar.one (Scalar.ofNat (List.length (cliques.filter (fun cl => (cl.contains a))))))

/-- the two loops that fill `counting_numbers` -/
def countingF (dom : Dom) (cliques : List Clique) : FGG.CN α :=
  let counting_numbers : FGG.CN α := []
  let counting_numbers := cliques.foldl (fun (counting_numbers : FGG.CN α) (cl : Clique) =>
      let counting_numbers := (GM.dictSet counting_numbers (Sum.inl cl) Scalar.one)
      counting_numbers) counting_numbers
  let counting_numbers := (Dom.attrs dom).foldl (fun (counting_numbers : FGG.CN α) (a : Attr) =>
      let counting_numbers := (GM.dictSet counting_numbers (Sum.inr a) (Scalar.sub Scalar.one (Scalar.ofNat (List.length (cliques.filter (fun cl => (cl.contains a)))))))
      counting_numbers) counting_numbers
  counting_numbers

theorem countingF_eq (dom : Dom) (cliques : List Clique) :
    (countingF dom cliques : FGG.CN α) =
      Oracle.fill (cnVal cliques) (dom.attrs.map Sum.inr) (Oracle.fill (cnVal cliques) (cliques.map Sum.inl) []) := by
  unfold countingF Oracle.fill
  rw [List.foldl_map, List.foldl_map]
  rfl

theorem counting_clique (dom : Dom) (cliques : List Clique) (cl : Clique) (h : cl ∈ cliques) :
    (countingF dom cliques : FGG.CN α).lookup (Sum.inl cl) = some Scalar.one := by
  rw [countingF_eq, Oracle.lookup_fill, if_neg (by simp), Oracle.lookup_fill, if_pos (by simpa using h)]
  rfl

theorem counting_attr (dom : Dom) (cliques : List Clique) (a : Attr) (h : a ∈ dom.attrs) :
    (countingF dom cliques : FGG.CN α).lookup (Sum.inr a) =
      some (Scalar.sub Scalar.one (Scalar.ofNat (List.length (cliques.filter (fun cl => cl.contains a))))) := by
  rw [countingF_eq, Oracle.lookup_fill, if_pos (by simpa using h)]
  rfl

/-- `self.beliefs = { i : Factor.zeros(domain.project(i)) for i in domain }` -/
def beliefs0F (dom : Dom) : List (Attr × Factor α) :=
  ((Dom.attrs dom).foldl (fun (d : List (Attr × Factor α)) i => GM.dictSet d i (Factor.zeros (Dom.project dom [i]))) [])

theorem beliefs0F_eq (dom : Dom) (hd : dom.attrs.Nodup) :
    (beliefs0F dom : List (Attr × Factor α)) = dom.attrs.map (fun i => (i, Factor.zeros (dom.project [i]))) := by
  unfold beliefs0F
  rw [foldl_dictSet_nodup (fun i => (Factor.zeros (Dom.project dom [i]) : Factor α)) _ hd [] (by simp)]
  rfl

/-! ## `primal_feasibility` in normal form -/

/-- the contribution of the pair `(r, s)`: `None` when the two cliques share no attribute -/
def errOf (mu : CliqueVec α) (r s : Clique) : Option α :=
  let d := dedup (inter r s)
  if d.length > 0 then
    some (norm1Diff ((mu.get r).projectSum d).datavector ((mu.get s).projectSum d).datavector)
  else none

/-- the body of `for s in mu` after the `break` test -/
def pairStepG (mu : CliqueVec α) (r : Clique) (st : α × Nat) (s : Clique) : α × Nat :=
  let (ans, count) := st
  let d := (RG.dedup (JT.inter r s))
  let (ans, count) := if (decide ((List.length d) > 0)) then (
    let x := (Factor.datavector (Factor.projectSum (CliqueVec.get mu r) d))
    let y := (Factor.datavector (Factor.projectSum (CliqueVec.get mu s) d))
    let err := (RG.norm1Diff x y)
    let ans := (Scalar.add ans err)
    let count := (count + 1)
    (ans, count))
  else (
    (ans, count))
  (ans, count)

/-- `for s in mu: if r == s: break; …` as a fold with a flag -/
def breakStepG (mu : CliqueVec α) (r : Clique) (stb : (α × Nat) × Bool) (s : Clique) : (α × Nat) × Bool :=
  let ((ans, count), broke) := stb
  if broke then ((ans, count), true) else
  if (r == s) then ((ans, count), true) else
  (pairStepG mu r (ans, count) s, false)

def primalFeasibilityF (mu : CliqueVec α) : α :=
  let ans : α := Scalar.zero
  let count : Nat := 0
  let (ans, count) := (mu.map Prod.fst).foldl (fun (st : α × Nat) (r : Clique) =>
      let (ans, count) := st
      let ((ans, count), broke) := (mu.map Prod.fst).foldl (breakStepG mu r) ((ans, count), false)
      (ans, count)) (ans, count)
  (if count == 0 then Scalar.zero else Scalar.div ans (Scalar.ofNat count))

/-- accumulating a list of errors: the running sum and the running count -/
def accum (st : α × Nat) (es : List α) : α × Nat := (es.foldl Scalar.add st.1, st.2 + es.length)

theorem pairStepG_eq (mu : CliqueVec α) (r s : Clique) (st : α × Nat) :
    pairStepG mu r st s = accum st (errOf mu r s).toList := by
  obtain ⟨a, c⟩ := st
  unfold pairStepG errOf accum
  by_cases h : (dedup (inter r s)).length > 0
  · simp [h]
  · simp [h]

theorem accum_append (st : α × Nat) (xs ys : List α) : accum (accum st xs) ys = accum st (xs ++ ys) := by
  unfold accum
  simp [List.foldl_append, Nat.add_assoc]

theorem foldl_pairStepG (mu : CliqueVec α) (r : Clique) (l : List Clique) (st : α × Nat) :
    l.foldl (pairStepG mu r) st = accum st (l.filterMap (errOf mu r)) := by
  induction l generalizing st with
  | nil => obtain ⟨a, c⟩ := st; rfl
  | cons x xs ih =>
    rw [List.foldl_cons, ih, pairStepG_eq, accum_append]
    congr 1
    cases h : errOf mu r x <;> simp [h]

theorem break_done (mu : CliqueVec α) (r : Clique) (l : List Clique) (st : α × Nat) :
    l.foldl (breakStepG mu r) (st, true) = (st, true) := by
  induction l with
  | nil => rfl
  | cons x xs ih => rw [List.foldl_cons]; exact ih

theorem break_before (mu : CliqueVec α) (r : Clique) (l : List Clique) (h : ∀ s ∈ l, (r == s) = false) (st : α × Nat) :
    l.foldl (breakStepG mu r) (st, false) = (l.foldl (pairStepG mu r) st, false) := by
  induction l generalizing st with
  | nil => rfl
  | cons x xs ih =>
    rw [List.foldl_cons, List.foldl_cons]
    have hx : (r == x) = false := h x (by simp)
    have : breakStepG mu r (st, false) x = (pairStepG mu r st x, false) := by
      obtain ⟨a, c⟩ := st
      unfold breakStepG
      simp [hx]
    rw [this]
    exact ih (fun s hs => h s (by simp [hs])) _

/-- the inner loop stops at `r` itself: it has seen exactly the keys listed before `r` -/
theorem break_fold (mu : CliqueVec α) (r : Clique) (pre post : List Clique) (h : r ∉ pre) (st : α × Nat) :
    (pre ++ r :: post).foldl (breakStepG mu r) (st, false) = (accum st (pre.filterMap (errOf mu r)), true) := by
  rw [List.foldl_append, break_before mu r pre _ st, List.foldl_cons]
  · have : breakStepG mu r (pre.foldl (pairStepG mu r) st, false) r = (pre.foldl (pairStepG mu r) st, true) := by
      generalize pre.foldl (pairStepG mu r) st = q
      obtain ⟨a, c⟩ := q
      unfold breakStepG
      simp
    rw [this, break_done, foldl_pairStepG]
  · intro s hs
    cases hrs : (r == s) with
    | false => rfl
    | true => exact absurd (eq_of_beq hrs ▸ hs) h

/-- the errors collected by the outer loop over `rest` when `done` has been seen -/
def errsFrom (mu : CliqueVec α) : List Clique → List Clique → List α
  | _, [] => []
  | done, r :: rest => done.filterMap (errOf mu r) ++ errsFrom mu (done ++ [r]) rest

theorem outer_fold (mu : CliqueVec α) (keys : List Clique) (hk : keys.Nodup) (done rest : List Clique) (h : keys = done ++ rest)
    (st : α × Nat) :
    rest.foldl (fun (st : α × Nat) (r : Clique) =>
      let (ans, count) := st
      let ((ans, count), broke) := keys.foldl (breakStepG mu r) ((ans, count), false)
      (ans, count)) st = accum st (errsFrom mu done rest) := by
  induction rest generalizing done st with
  | nil => obtain ⟨a, c⟩ := st; rfl
  | cons r rest ih =>
    rw [List.foldl_cons]
    have hr : r ∉ done := by
      rw [h] at hk
      exact fun hmem => (List.nodup_append.mp hk).2.2 r hmem r (by simp) rfl
    have hstep : (let (ans, count) := st
        let ((ans, count), broke) := keys.foldl (breakStepG mu r) ((ans, count), false)
        (ans, count)) = accum st (done.filterMap (errOf mu r)) := by
      obtain ⟨a, c⟩ := st
      show (keys.foldl (breakStepG mu r) ((a, c), false)).1 = _
      rw [h, break_fold mu r done rest hr]
    rw [hstep, ih (done ++ [r]) (by rw [h]; simp), accum_append]
    rfl

theorem errsFrom_eq (mu : CliqueVec α) (keys done rest : List Clique) (h : keys = done ++ rest) :
    (List.range' done.length rest.length).flatMap (fun i =>
      let r := keys.getD i []
      (keys.take i).filterMap (fun s =>
        let d := dedup (inter r s)
        if d.length > 0 then
          some (norm1Diff ((mu.get r).projectSum d).datavector ((mu.get s).projectSum d).datavector)
        else none)) = errsFrom mu done rest := by
  induction rest generalizing done with
  | nil => rfl
  | cons r rest ih =>
    rw [List.length_cons, List.range'_succ, List.flatMap_cons]
    have h1 : keys.getD done.length [] = r := by
      rw [h]; simp
    have h2 : keys.take done.length = done := by
      rw [h]; simp
    have h3 := ih (done ++ [r]) (by rw [h]; simp)
    rw [List.length_append, List.length_singleton] at h3
    rw [h3]
    show (keys.take done.length).filterMap (errOf mu (keys.getD done.length [])) ++ _ = _
    rw [h1, h2]
    rfl

/-- **`primal_feasibility`**: for a dictionary (distinct keys) the regenerated loop computes the model's value -/
theorem primalFeasibilityF_eq (mu : CliqueVec α) (hk : (mu.map Prod.fst).Nodup) :
    primalFeasibilityF mu = FG.primalFeasibility mu := by
  unfold primalFeasibilityF FG.primalFeasibility
  have hfold := outer_fold mu (mu.map Prod.fst) hk [] (mu.map Prod.fst) rfl (Scalar.zero, 0)
  have herrs := errsFrom_eq mu (mu.map Prod.fst) [] (mu.map Prod.fst) rfl
  rw [List.length_nil, ← List.range_eq_range'] at herrs
  simp only []
  rw [hfold, herrs]
  unfold accum
  simp only [Nat.zero_add]
  cases errsFrom mu [] (mu.map Prod.fst) with
  | nil => rfl
  | cons e es => simp

end PGM.FGGen
