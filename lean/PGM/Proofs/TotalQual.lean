import PGM.Proofs.TotalGJ
import PGM.Proofs.TotalNormal
import Mathlib.Algebra.BigOperators.Fin
/-!
# Completeness of the qualification test: `1 ∈ rowspace Q → unbiasedVec Q` succeeds
-/
namespace PGM.Total
open Finset
set_option linter.unusedSectionVars false
variable {K : Type} [Field K] [LinearOrder K] [IsStrictOrderedRing K]

theorem gram_length (Q : List (List K)) : (gram Q).length = ncols Q := by simp [gram]

theorem ncols_gram (Q : List (List K)) : ncols (gram Q) = ncols Q := by
  have h : gram Q = (List.range (ncols Q)).map
      (fun i => (List.range (ncols Q)).map (fun j => dot (col Q i) (col Q j))) := rfl
  rw [h]
  generalize ncols Q = n
  cases n <;> simp [ncols, List.range_succ_eq_map]

theorem gram_rect (Q : List (List K)) : ∀ r ∈ gram Q, r.length = ncols (gram Q) := by
  intro r hr
  rw [ncols_gram]
  unfold gram at hr
  obtain ⟨i, _, rfl⟩ := List.mem_map.mp hr
  simp

theorem ent_gram (Q : List (List K)) (j k : Nat) (hj : j < ncols Q) (hk : k < ncols Q) :
    ent (gram Q) j k = ∑ i ∈ range Q.length, ent Q i j * ent Q i k := by
  unfold ent gram
  rw [getD_map_range _ _ _ _ hj, getD_map_range _ _ _ _ hk,
    dot_eq_sum_of_length _ _ Q.length (col_length Q j)]
  simp only [col_getD]
  rfl

/-- the normal equations `QᵀQ z = Qᵀu` have a solution -/
theorem gram_solvable (Q : List (List K)) (u : List K) :
    ∃ z0 : Nat → K, ∀ j < ncols Q,
      ∑ k ∈ range (ncols Q), ent (gram Q) j k * z0 k
        = ∑ i ∈ range Q.length, ent Q i j * u.getD i 0 := by
  let M : Matrix (Fin Q.length) (Fin (ncols Q)) K := fun i j => ent Q i j
  obtain ⟨z, hz⟩ := exists_normal_eq M (fun i => u.getD i 0)
  refine ⟨fun k => if h : k < ncols Q then z ⟨k, h⟩ else 0, ?_⟩
  intro j hj
  have := congrFun hz ⟨j, hj⟩
  simp only [Matrix.mulVec, dotProduct, Matrix.mul_apply, Matrix.transpose_apply] at this
  simp only [M] at this
  rw [Finset.sum_range, Finset.sum_range, ← this]
  apply Finset.sum_congr rfl
  intro k _
  have hk : (fun k => if h : k < ncols Q then z ⟨k, h⟩ else 0) (k : Nat) = z k := by
    show (if h : (k : Nat) < ncols Q then z ⟨k, h⟩ else 0) = z k
    rw [dif_pos k.2]
  rw [ent_gram Q j k hj k.2, Finset.sum_range, hk]

theorem unbiasedVec_isSome_of_rowspace (Q : List (List K)) (hQ : ∀ r ∈ Q, r.length = ncols Q)
    (u : List K) (hu : matTVec Q u = List.replicate (ncols Q) 1) : (unbiasedVec Q).isSome := by
  have hu' := (matTVec_eq_ones_iff Q u).mp hu
  obtain ⟨z0, hz0⟩ := gram_solvable Q u
  have hsol := solve_correct (gram Q) (List.replicate (ncols Q) 1) (ncols Q) (gram_length Q)
    (by simp) (gram_rect Q)
    ⟨z0, by
      intro j hj
      rw [ncols_gram, hz0 j hj, hu' j hj]
      simp [List.getD_eq_getElem?_getD, hj]⟩
  rw [ncols_gram] at hsol
  have hcert : matTVec Q (matVec Q (solve (gram Q) (List.replicate (ncols Q) 1)))
      = List.replicate (ncols Q) 1 := by
    rw [matTVec_eq_ones_iff]
    intro j hj
    have h1 := hsol j hj
    rw [show (List.replicate (ncols Q) (1 : K)).getD j 0 = 1 by
      simp [List.getD_eq_getElem?_getD, hj]] at h1
    refine Eq.trans ?_ h1
    simp only [matVec_getD Q hQ, Finset.mul_sum]
    rw [Finset.sum_comm]
    apply Finset.sum_congr rfl
    intro k hk
    rw [ent_gram Q j k hj (Finset.mem_range.mp hk), Finset.sum_mul]
    apply Finset.sum_congr rfl
    intro i _
    ring
  unfold unbiasedVec
  simp only
  rw [if_pos hcert]
  rfl

end PGM.Total
