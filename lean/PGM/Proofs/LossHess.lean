import PGM.Proofs.LossMain
import Mathlib.Tactic.FieldSimp
/-!
# Helpers for C04 (8): the smoothness bound
-/
set_option linter.unusedSectionVars false
set_option linter.unusedVariables false
namespace PGM.LossAux
open PGM PGM.JT PGM.Loss PGM.Factor
variable {K : Type} [Field K] [LinearOrder K] [IsStrictOrderedRing K]

theorem size_pos (s : List Nat) (h : ∀ n ∈ s, 0 < n) : 0 < size s := by
  induction s with
  | nil => simp [size]
  | cons n ns ih =>
    simp only [size]
    exact Nat.mul_pos (h n (by simp)) (ih (fun k hk => h k (by simp [hk])))

theorem vdot_replicate_one (n : Nat) :
    vdot (List.replicate n (1 : K)) (List.replicate n (1 : K)) = (n : K) := by
  induction n with
  | zero => simp [vdot]
  | succ k ih => rw [List.replicate_succ, vdot_cons, ih]; push_cast; ring

theorem sqsum_map_mul (c : K) (l : List K) : sqsum (l.map (fun t => c * t)) = c * c * sqsum l := by
  rw [← vdot_self, vdot_map_mul_left, vdot_map_mul_right, vdot_self]; ring

theorem sizeOf_eq (d : Dom) (as : List Attr) : d.sizeOf as = size (as.map d.cfg) := by
  simp [Dom.sizeOf, Dom.size, Dom.shape_project]

/-- the fold of `_lipschitz` for one clique, as a sum -/
theorem foldl_if_add {ι : Type} (zs : List ι) (p : ι → Bool) (F : ι → PlainOf K) (a : PlainOf K) :
    (zs.foldl (fun acc x => if p x then Scalar.add acc (F x) else acc) a).v
      = a.v + (zs.map (fun x => if p x then (F x).v else 0)).sum := by
  induction zs generalizing a with
  | nil => simp
  | cons z zs ih =>
    rw [List.foldl_cons, ih]
    cases hp : p z <;> simp [hp, add_assoc]

/-- the per-measurement coefficient of `_lipschitz` -/
def coef (d : Dom) (me : Meas (PlainOf K) × PlainOf K) (cl : Clique) : K :=
  me.2.v * (d.sizeOf cl : K) * ((d.sizeOf me.1.proj : K))⁻¹ * (me.1.noise.v * me.1.noise.v)⁻¹

/-- the per-clique constant of `_lipschitz` -/
def perC (d : Dom) (cliques : List Clique) (meas : List (Meas (PlainOf K))) (eigs : List (PlainOf K))
    (cl : Clique) : K :=
  ((List.zip meas eigs).map (fun me =>
    if groupOf d cliques me.1.proj == some cl then coef d me cl else 0)).sum

theorem le_lipschitz (d : Dom) (cliques : List Clique) (meas : List (Meas (PlainOf K)))
    (eigs : List (PlainOf K)) (cl : Clique) (hcl : cl ∈ cliques) :
    perC d cliques meas eigs cl ≤ (lipschitz d cliques meas eigs).v := by
  unfold lipschitz
  simp only []
  refine le_trans (le_of_eq ?_) (le_maxL _ _ (List.mem_map_of_mem (f := _) hcl))
  rw [foldl_if_add (List.zip meas eigs) (fun me => groupOf d cliques me.1.proj == some cl)
    (fun me => Scalar.div (Scalar.div (Scalar.mul me.2 (Scalar.ofNat (d.sizeOf cl)))
      (Scalar.ofNat (d.sizeOf me.1.proj))) (Scalar.mul me.1.noise me.1.noise))]
  simp only [zero_v, zero_add, div_v, mul_v, ofNat_v]
  rfl

/-- one measurement's quadratic form against the table norm -/
theorem quadM_le (d : Dom) (hd : d.WF) (hsizes : ∀ p ∈ d, 0 < p.2) (k : Clique)
    (hk : k.Nodup ∧ ∀ a ∈ k, a ∈ d.attrs) (hc : Factor (PlainOf K)) (hW : hc.WF)
    (hdom : hc.dom = d.project k) (m : Meas (PlainOf K)) (hm : MeasOK d m) (hsub : ∀ a ∈ m.proj, a ∈ k)
    (e : PlainOf K)
    (heig : ∀ x : List K, x.length = d.sizeOf m.proj → vdot (qx m x) (qx m x) ≤ e.v * vdot x x) :
    quadM m hc ≤ (1 / 2) * coef d (m, e) k * vdot (vals hc) (vals hc) := by
  have hattrs : hc.dom.attrs = k := by rw [hdom, Dom.attrs_project]
  have hsubA : ∀ a ∈ m.proj, a ∈ hc.dom.attrs := by rw [hattrs]; exact hsub
  have hcfg : ∀ a ∈ k, hc.dom.cfg a = d.cfg a := by
    intro a ha; rw [hdom]; exact Dom.cfg_project d k a ha
  -- sizes
  have hn : d.sizeOf k = size (hc.dom.attrs.map hc.dom.cfg) := by
    rw [sizeOf_eq, hattrs]
    exact congrArg size (List.map_congr_left (fun a ha => (hcfg a ha).symm))
  have hp : d.sizeOf m.proj = size (m.proj.map hc.dom.cfg) := by
    rw [sizeOf_eq]
    exact congrArg size (List.map_congr_left (fun a ha => (hcfg a (hsub a ha)).symm))
  have hppos : 0 < d.sizeOf m.proj := by
    rw [sizeOf_eq]
    apply size_pos
    intro n hn'
    obtain ⟨a, ha, rfl⟩ := List.mem_map.mp hn'
    exact hsizes _ (Dom.mem_of_mem_attrs d hd a (hm.proj_sub a ha))
  have hpK : (0 : K) < (d.sizeOf m.proj : K) := by exact_mod_cast hppos
  have hreg := size_regroup (K := K) hc.dom.attrs m.proj hc.dom.cfg hW.1 hm.proj_nodup hsubA
  rw [← hn, ← hp] at hreg
  -- eigenvalue bound is nonnegative
  have he : 0 ≤ e.v := by
    have h1 := heig (List.replicate (d.sizeOf m.proj) 1) (by simp)
    rw [vdot_replicate_one] at h1
    have h2 : 0 ≤ e.v * (d.sizeOf m.proj : K) := le_trans (vdot_self_nonneg _) h1
    exact nonneg_of_mul_nonneg_left h2 hpK
  -- the chain
  have hx : (xOf m hc).length = d.sizeOf m.proj := by
    unfold xOf; rw [xOf_length hc hW m.proj hm.proj_nodup hsubA, hp]
  have h1 := heig (xOf m hc) hx
  have h2 := proj_norm_le hc hW m.proj hm.proj_nodup hsubA
  have h3 : vdot (qx m (xOf m hc)) (qx m (xOf m hc))
      ≤ e.v * ((size ((restA hc.dom.attrs m.proj).map hc.dom.cfg) : K) * vdot (vals hc) (vals hc)) :=
    le_trans h1 (mul_le_mul_of_nonneg_left h2 he)
  rw [quadM_eq, sqsum_map_mul, ← vdot_self]
  have hnoise : m.noise.v ≠ 0 := ne_of_gt hm.noise_pos
  have hc2 : 0 ≤ (1 / 2 : K) * ((m.noise.v)⁻¹ * (m.noise.v)⁻¹) :=
    mul_nonneg (by norm_num) (mul_self_nonneg _)
  have h4 := mul_le_mul_of_nonneg_left h3 hc2
  refine le_trans (le_of_eq ?_) (le_trans h4 (le_of_eq ?_))
  · show _ = (1 / 2 : K) * ((m.noise.v)⁻¹ * (m.noise.v)⁻¹) * vdot (qxL m.Q (xOf m hc)) (qxL m.Q (xOf m hc))
    ring
  · unfold coef
    simp only
    rw [hreg]
    have hp0 : (d.sizeOf m.proj : K) ≠ 0 := ne_of_gt hpK
    field_simp

theorem zip_map_fst {β γ : Type} (l : List β) (l' : List γ) (h : l'.length = l.length) (F : β → K) :
    l.map F = (List.zip l l').map (fun p => F p.1) := by
  induction l generalizing l' with
  | nil => simp
  | cons a l ih =>
    cases l' with
    | nil => simp at h
    | cons b l' => simp [ih l' (by simpa using h)]

theorem hessian_bound (d : Dom) (cliques : List Clique) (meas : List (Meas (PlainOf K)))
    (eigs : List (PlainOf K)) (h : CliqueVec (PlainOf K)) (hh : VecOK d cliques h)
    (hm : ∀ m ∈ meas, MeasOK d m) (hcov : ∀ m ∈ meas, ∃ c ∈ cliques, JT.subset m.proj c = true)
    (hlen : eigs.length = meas.length) (hsizes : ∀ p ∈ d, 0 < p.2) (hne : cliques ≠ [])
    (heig : ∀ i (hi : i < meas.length) (x : List K), x.length = d.sizeOf (meas[i]).proj →
      vdot (qx meas[i] x) (qx meas[i] x) ≤ (eigs.getD i ⟨0⟩).v * vdot x x) :
    (meas.map (fun m => quadM m (h.get ((groupOf d cliques m.proj).getD [])))).sum
      ≤ (1 / 2) * (lipschitz d cliques meas eigs).v * cvNormSq h := by
  rw [← sum_by_group cliques hh.cliques_nodup meas (fun m => groupOf d cliques m.proj)
    (group_ok d cliques meas hcov) (fun m k => quadM m (h.get k))]
  have hnorm : cvNormSq h = (cliques.map (fun k => vdot (vals (h.get k)) (vals (h.get k)))).sum := by
    unfold cvNormSq cvDot
    rw [← hh.keys, List.map_map]
    apply congrArg
    apply List.map_congr_left
    intro p hp
    simp only [Function.comp, get_of_mem h hh.keys_nodup p hp]
  rw [hnorm, ← list_sum_map_mul_left]
  apply list_sum_le
  intro k hk
  obtain ⟨hW, hdom⟩ := hh.get_ok k hk
  have hN : 0 ≤ vdot (vals (h.get k)) (vals (h.get k)) := vdot_self_nonneg _
  refine le_trans ?_ (mul_le_mul_of_nonneg_right
    (mul_le_mul_of_nonneg_left (le_lipschitz d cliques meas eigs k hk) (by norm_num : (0 : K) ≤ 1 / 2)) hN)
  -- the group's quadratic forms against its coefficient sum
  rw [list_sum_filter, zip_map_fst meas eigs hlen]
  unfold perC
  rw [mul_comm (1 / 2 : K), mul_assoc, mul_comm, ← list_sum_map_mul_left]
  apply list_sum_le
  intro me hme
  by_cases hg : (groupOf d cliques me.1.proj == some k) = true
  · simp only [hg, if_true]
    obtain ⟨i, hi, hi'⟩ := List.mem_iff_getElem.mp hme
    have hi1 : i < meas.length := by
      have := hi; simp only [List.length_zip] at this; omega
    have hi2 : i < eigs.length := by omega
    have hme1 : me.1 = meas[i] := by rw [← hi']; simp
    have hme2 : me.2 = eigs.getD i ⟨0⟩ := by
      rw [← hi']; simp [List.getD_eq_getElem?_getD, List.getElem?_eq_getElem hi2]
    have hmem : me.1 ∈ meas := by rw [hme1]; exact List.getElem_mem hi1
    have hsub : ∀ a ∈ me.1.proj, a ∈ k :=
      (subset_iff me.1.proj k).mp (groupOf_some_mem d cliques me.1.proj k (by simpa using hg)).2
    have := quadM_le d hh.dom_wf hsizes k (hh.clique_ok k hk) (h.get k) hW hdom me.1 (hm _ hmem) hsub me.2
      (by
        intro x hx
        rw [hme1, hme2]
        exact heig i hi1 x (by rw [← hme1]; exact hx))
    calc quadM me.1 (h.get k) ≤ 1 / 2 * coef d (me.1, me.2) k * vdot (vals (h.get k)) (vals (h.get k)) := this
      _ = _ := by ring
  · simp only [hg]
    simp

end PGM.LossAux
