import PGM.Proofs.BPFactor
import PGM.Proofs.VEFactor
import PGM.Proofs.LossFactor
import PGM.Model.Solvers
/-!
# `CliqueVector` arithmetic, clique by clique (`src/mbi/clique_vector.py`)

Semantics of `CliqueVec.smul / addV / subV / dotV / zerosV / combine` (`PGM/Model/Solvers.lean`) for
an arbitrary scalar type: every operation acts on the factor stored under a key, and that factor is
read by attribute name (`Factor.sem`).  No algebraic law of the scalar is used anywhere.

* `keys_*`            — key lists are preserved
* `get_smul`, `sem_smul`, `get_addV`, `sem_addV`, `sem_subV`
* `sumAll_spec`, `dotV_spec`
* `firstCover`, `landing`, `combine_get` (factor level), `combine_spec` (value level) and corollaries
* `zerosV_spec`
-/
namespace PGM.CVSem
open PGM PGM.JT PGM.Sem
set_option linter.unusedSectionVars false
set_option linter.unusedVariables false

variable {α : Type} [Scalar α]

/-! ### dictionary helpers -/

/-- reading a key of a key-preserving map -/
theorem get_map_of_mem (w : CliqueVec α) (g : Clique → Factor α → Factor α) (c : Clique)
    (hc : c ∈ w.map Prod.fst) :
    CliqueVec.get (w.map (fun p => (p.1, g p.1 p.2))) c = g c (w.get c) := by
  induction w with
  | nil => simp at hc
  | cons p ps ih =>
    obtain ⟨k, f⟩ := p
    unfold CliqueVec.get
    simp only [List.map_cons, List.lookup_cons]
    by_cases hk : c = k
    · subst hk; simp
    · have hb : (c == k) = false := by simpa using hk
      rw [hb]
      have hc' : c ∈ ps.map Prod.fst := by
        simp only [List.map_cons, List.mem_cons] at hc
        exact hc.resolve_left hk
      exact ih hc'

theorem keys_map (w : CliqueVec α) (g : Clique → Factor α → Factor α) :
    (w.map (fun p => (p.1, g p.1 p.2))).map Prod.fst = w.map Prod.fst := by
  rw [List.map_map]; rfl

/-- with duplicate-free keys every entry is what `get` returns for its key -/
theorem get_of_mem (w : CliqueVec α) (hnd : (w.map Prod.fst).Nodup) (p : Clique × Factor α)
    (hp : p ∈ w) : w.get p.1 = p.2 := by
  induction w with
  | nil => simp at hp
  | cons q qs ih =>
    obtain ⟨k, v⟩ := q
    simp only [List.map_cons, List.nodup_cons] at hnd
    unfold CliqueVec.get
    simp only [List.lookup_cons]
    rcases List.mem_cons.mp hp with h | h
    · subst h; simp
    · have hne : p.1 ≠ k := by
        intro e
        apply hnd.1
        rw [← e]; exact List.mem_map_of_mem h
      have : (p.1 == k) = false := by simpa using hne
      rw [this]
      exact ih hnd.2 h

/-! ### 1. key lists -/

theorem keys_smul (k : α) (v : CliqueVec α) :
    (CliqueVec.smul k v).map Prod.fst = v.map Prod.fst :=
  keys_map v (fun _ f => f.mulScalar k)

theorem keys_addV (a b : CliqueVec α) : (CliqueVec.addV a b).map Prod.fst = a.map Prod.fst :=
  keys_map a (fun c f => f.add (b.get c))

theorem keys_subV (a b : CliqueVec α) : (CliqueVec.subV a b).map Prod.fst = a.map Prod.fst :=
  keys_addV a _

/-! ### 2. `smul` -/

theorem get_smul (k : α) (v : CliqueVec α) (c : Clique) (hc : c ∈ v.map Prod.fst) :
    (CliqueVec.smul k v).get c = (v.get c).mulScalar k :=
  get_map_of_mem v (fun _ f => f.mulScalar k) c hc

theorem mulScalar_dom (k : α) (f : Factor α) : (f.mulScalar k).dom = f.dom := rfl

theorem mulScalar_WF (k : α) (f : Factor α) (hf : f.WF) : (f.mulScalar k).WF :=
  mapVals_WF _ f hf

theorem sem_mulScalar (k : α) (f : Factor α) (σ : Attr → Nat) (hf : f.WF) (hσ : f.dom.Valid σ) :
    (f.mulScalar k).sem σ = Scalar.nanToNum (Scalar.mul k (f.sem σ)) :=
  sem_mapVals _ f σ hf hσ

theorem sem_smul (k : α) (v : CliqueVec α) (c : Clique) (σ : Attr → Nat)
    (hc : c ∈ v.map Prod.fst) (hw : (v.get c).WF) (hσ : (v.get c).dom.Valid σ) :
    ((CliqueVec.smul k v).get c).sem σ = Scalar.nanToNum (Scalar.mul k ((v.get c).sem σ)) ∧
    ((CliqueVec.smul k v).get c).dom = (v.get c).dom ∧
    ((CliqueVec.smul k v).get c).WF := by
  rw [get_smul k v c hc]
  exact ⟨sem_mulScalar k _ σ hw hσ, rfl, mulScalar_WF k _ hw⟩

/-! ### 3. `addV`, `subV` -/

theorem get_addV (a b : CliqueVec α) (c : Clique) (hc : c ∈ a.map Prod.fst) :
    (CliqueVec.addV a b).get c = (a.get c).add (b.get c) :=
  get_map_of_mem a (fun c f => f.add (b.get c)) c hc

theorem sem_addV (a b : CliqueVec α) (c : Clique) (σ : Attr → Nat)
    (hc : c ∈ a.map Prod.fst) (ha : (a.get c).WF) (hb : (b.get c).WF)
    (hcompat : (a.get c).dom.Compatible (b.get c).dom)
    (hσ : ((a.get c).dom.merge (b.get c).dom).Valid σ) :
    ((CliqueVec.addV a b).get c).sem σ = Scalar.add ((a.get c).sem σ) ((b.get c).sem σ) ∧
    ((CliqueVec.addV a b).get c).dom = (a.get c).dom.merge (b.get c).dom ∧
    ((CliqueVec.addV a b).get c).WF := by
  rw [get_addV a b c hc]
  exact ⟨Factor.sem_binop _ _ _ σ ha hb hcompat hσ, rfl, Factor.binop_WF _ _ _ ha hb hcompat⟩

/-- a domain is compatible with any domain it contains and that agrees with it -/
theorem same_dom_facts (f g : Factor α) (hf : f.WF) (hd : g.dom = f.dom) :
    f.dom.Compatible g.dom ∧ f.dom.merge g.dom = f.dom := by
  have hc : f.dom.contains g.dom = true := (Dom.contains_iff _ _).mpr (by rw [hd]; exact fun _ h => h)
  refine ⟨?_, Dom.merge_eq_self_of_contains _ _ hc⟩
  rw [hd]
  exact Dom.compatible_of_agrees _ _ hf.1 (fun p hp => Dom.cfg_of_mem f.dom hf.1 p hp)

/-- the usual case: both vectors carry the same domain under `c` -/
theorem sem_addV_same (a b : CliqueVec α) (c : Clique) (σ : Attr → Nat)
    (hc : c ∈ a.map Prod.fst) (ha : (a.get c).WF) (hb : (b.get c).WF)
    (hd : (b.get c).dom = (a.get c).dom) (hσ : (a.get c).dom.Valid σ) :
    ((CliqueVec.addV a b).get c).sem σ = Scalar.add ((a.get c).sem σ) ((b.get c).sem σ) ∧
    ((CliqueVec.addV a b).get c).dom = (a.get c).dom ∧
    ((CliqueVec.addV a b).get c).WF := by
  obtain ⟨h1, h2⟩ := same_dom_facts (a.get c) (b.get c) ha hd
  have := sem_addV a b c σ hc ha hb h1 (by rw [h2]; exact hσ)
  rw [h2] at this
  exact this

theorem get_subV (a b : CliqueVec α) (c : Clique) (hc : c ∈ a.map Prod.fst)
    (hcb : c ∈ b.map Prod.fst) :
    (CliqueVec.subV a b).get c = (a.get c).add ((b.get c).mulScalar (Scalar.neg Scalar.one)) := by
  unfold CliqueVec.subV
  rw [get_addV a _ c hc, get_smul _ b c hcb]

theorem sem_subV (a b : CliqueVec α) (c : Clique) (σ : Attr → Nat)
    (hc : c ∈ a.map Prod.fst) (hcb : c ∈ b.map Prod.fst) (ha : (a.get c).WF) (hb : (b.get c).WF)
    (hcompat : (a.get c).dom.Compatible (b.get c).dom)
    (hσ : ((a.get c).dom.merge (b.get c).dom).Valid σ) :
    ((CliqueVec.subV a b).get c).sem σ
      = Scalar.add ((a.get c).sem σ)
          (Scalar.nanToNum (Scalar.mul (Scalar.neg Scalar.one) ((b.get c).sem σ))) ∧
    ((CliqueVec.subV a b).get c).dom = (a.get c).dom.merge (b.get c).dom ∧
    ((CliqueVec.subV a b).get c).WF := by
  rw [get_subV a b c hc hcb]
  have hbw := mulScalar_WF (Scalar.neg Scalar.one) (b.get c) hb
  have hM := Dom.merge_WF _ _ ha.1 hb.1
  have hbv : (b.get c).dom.Valid σ :=
    Dom.valid_of_agrees _ _ hb.1 hM (Dom.merge_contains_right _ _)
      (Dom.agrees_merge_right _ _ ha.1 hb.1 hcompat) σ hσ
  refine ⟨?_, rfl, Factor.binop_WF _ _ _ ha hbw hcompat⟩
  show (Factor.binop Scalar.add (a.get c) ((b.get c).mulScalar (Scalar.neg Scalar.one))).sem σ = _
  rw [Factor.sem_binop _ _ _ σ ha hbw hcompat hσ, sem_mulScalar _ _ σ hb hbv]

/-! ### 5. `combine` -/

/-- one iteration of `CliqueVector.combine` -/
def step (acc : CliqueVec α) (o : Clique × Factor α) : CliqueVec α :=
  match acc.find? (fun p => JT.subset o.1 p.1) with
  | some p => acc.set p.1 (p.2.iadd o.2)
  | none => acc

theorem combine_eq (self other : CliqueVec α) :
    CliqueVec.combine self other = other.foldl step self := by
  rfl

/-- the first key of `self`, in dictionary order, that contains every attribute of `cl`
(the `cl2` at which Python's inner loop `break`s) -/
def firstCover (self : CliqueVec α) (cl : Clique) : Option Clique :=
  (self.map Prod.fst).find? (fun k => JT.subset cl k)

/-- the entries of `other` that `combine` adds into key `c2`, in the order of `other` -/
def landing (self other : CliqueVec α) (c2 : Clique) : CliqueVec α :=
  other.filter (fun o => decide (firstCover self o.1 = some c2))

theorem firstCover_congr (a b : CliqueVec α) (h : a.map Prod.fst = b.map Prod.fst) (cl : Clique) :
    firstCover a cl = firstCover b cl := by
  unfold firstCover; rw [h]

theorem landing_congr (a b other : CliqueVec α) (h : a.map Prod.fst = b.map Prod.fst) (c2 : Clique) :
    landing a other c2 = landing b other c2 := by
  unfold landing
  apply List.filter_congr
  intro o _
  rw [firstCover_congr a b h]

/-- what `firstCover` means: `c` is a key containing `cl`, and no earlier key contains `cl` -/
theorem firstCover_eq_some_iff (self : CliqueVec α) (cl c : Clique) :
    firstCover self cl = some c ↔
      (∀ x ∈ cl, x ∈ c) ∧ ∃ pre post, self.map Prod.fst = pre ++ c :: post ∧
        ∀ k ∈ pre, ¬ ∀ x ∈ cl, x ∈ k := by
  unfold firstCover
  rw [List.find?_eq_some_iff_append, JT.subset_iff]
  constructor
  · rintro ⟨h1, pre, post, h2, h3⟩
    refine ⟨h1, pre, post, h2, ?_⟩
    intro k hk hs
    have := h3 k hk
    rw [(JT.subset_iff cl k).mpr hs] at this
    exact absurd this (by decide)
  · rintro ⟨h1, pre, post, h2, h3⟩
    refine ⟨h1, pre, post, h2, ?_⟩
    intro k hk
    have := h3 k hk
    rw [← JT.subset_iff] at this
    simpa using this

theorem firstCover_eq_none_iff (self : CliqueVec α) (cl : Clique) :
    firstCover self cl = none ↔ ∀ k ∈ self.map Prod.fst, JT.subset cl k = false := by
  unfold firstCover
  rw [List.find?_eq_none]
  constructor
  · intro h k hk; simpa using h k hk
  · intro h k hk; simpa using h k hk

theorem firstCover_mem (self : CliqueVec α) (cl c : Clique) (h : firstCover self cl = some c) :
    c ∈ self.map Prod.fst ∧ JT.subset cl c = true :=
  ⟨List.mem_of_find?_eq_some h, List.find?_some (p := fun k => JT.subset cl k) h⟩

theorem firstCover_of_find (acc : CliqueVec α) (cl : Clique) :
    firstCover acc cl = (acc.find? (fun p => JT.subset cl p.1)).map Prod.fst := by
  unfold firstCover
  rw [List.find?_map]
  rfl

/-- the first entry whose key satisfies `P` is the entry `lookup` finds for that key
(no duplicate-freeness needed) -/
theorem lookup_of_find (acc : CliqueVec α) (P : Clique → Bool) (p : Clique × Factor α)
    (h : acc.find? (fun q => P q.1) = some p) : acc.lookup p.1 = some p.2 := by
  induction acc with
  | nil => simp at h
  | cons q qs ih =>
    obtain ⟨k, v⟩ := q
    rw [List.find?_cons] at h
    by_cases hP : P k = true
    · simp only [hP] at h
      have : p = (k, v) := by injection h with h; exact h.symm
      subst this
      simp
    · have hP' : P k = false := by simpa using hP
      simp only [hP'] at h
      have hp : P p.1 = true := List.find?_some (p := fun q : Clique × Factor α => P q.1) h
      have hne : p.1 ≠ k := by
        intro e; rw [e] at hp; exact hP hp
      have : (p.1 == k) = false := by simpa using hne
      rw [List.lookup_cons, this]
      exact ih h

theorem step_keys (acc : CliqueVec α) (o : Clique × Factor α) :
    (step acc o).map Prod.fst = acc.map Prod.fst := by
  unfold step
  cases hfind : acc.find? (fun p => JT.subset o.1 p.1) with
  | none => rfl
  | some p =>
    exact BP.keys_set acc p.1 _ (List.mem_map_of_mem (List.mem_of_find?_eq_some hfind))

/-- one iteration, read at a key: the factor of `o` is added (in place) exactly when that key is the
first one covering `o`'s clique -/
theorem step_get (acc : CliqueVec α) (o : Clique × Factor α) (c2 : Clique) :
    (step acc o).get c2
      = if firstCover acc o.1 = some c2 then (acc.get c2).iadd o.2 else acc.get c2 := by
  rw [firstCover_of_find]
  unfold step
  cases hfind : acc.find? (fun p => JT.subset o.1 p.1) with
  | none => simp
  | some p =>
    have hkey : p.1 ∈ acc.map Prod.fst := List.mem_map_of_mem (List.mem_of_find?_eq_some hfind)
    have hget : acc.get p.1 = p.2 := by
      unfold CliqueVec.get
      rw [lookup_of_find acc (fun k => JT.subset o.1 k) p hfind]
    by_cases hpc : p.1 = c2
    · subst hpc
      simp only [Option.map_some, if_true]
      rw [BP.get_set_self acc p.1 _ hkey, hget]
    · have hne : ¬ (Option.map Prod.fst (some p) = some c2) := by
        simp only [Option.map_some, Option.some.injEq]; exact hpc
      rw [if_neg hne]
      exact BP.get_set_ne acc p.1 c2 _ hkey (fun e => hpc e.symm)

theorem step_of_uncovered (acc : CliqueVec α) (o : Clique × Factor α)
    (h : firstCover acc o.1 = none) : step acc o = acc := by
  rw [firstCover_of_find] at h
  unfold step
  cases hfind : acc.find? (fun p => JT.subset o.1 p.1) with
  | none => rfl
  | some p => rw [hfind] at h; simp at h

theorem foldl_step_keys (other self : CliqueVec α) :
    (other.foldl step self).map Prod.fst = self.map Prod.fst := by
  induction other generalizing self with
  | nil => rfl
  | cons o os ih => rw [List.foldl_cons, ih, step_keys]

theorem keys_combine (self other : CliqueVec α) :
    (CliqueVec.combine self other).map Prod.fst = self.map Prod.fst := by
  rw [combine_eq]; exact foldl_step_keys other self

theorem landing_cons (self : CliqueVec α) (o : Clique × Factor α) (os : CliqueVec α) (c2 : Clique) :
    landing self (o :: os) c2
      = if firstCover self o.1 = some c2 then o :: landing self os c2 else landing self os c2 := by
  unfold landing
  rw [List.filter_cons]
  by_cases h : firstCover self o.1 = some c2
  · simp [h]
  · simp [h]

theorem landing_append (self l₁ l₂ : CliqueVec α) (c2 : Clique) :
    landing self (l₁ ++ l₂) c2 = landing self l₁ c2 ++ landing self l₂ c2 := by
  unfold landing; rw [List.filter_append]

theorem foldl_step_get (other self : CliqueVec α) (c2 : Clique) :
    (other.foldl step self).get c2
      = (landing self other c2).foldl (fun f o => f.iadd o.2) (self.get c2) := by
  induction other generalizing self with
  | nil => rfl
  | cons o os ih =>
    rw [List.foldl_cons, ih, landing_congr _ self os (step_keys self o), step_get, landing_cons]
    by_cases h : firstCover self o.1 = some c2
    · rw [if_pos h, if_pos h, List.foldl_cons]
    · rw [if_neg h, if_neg h]

/-- **`combine`, factor level**: the factor under key `c2` afterwards is the old one with the
factors of `other` landing at `c2` added in place, in the order of `other` -/
theorem combine_get (self other : CliqueVec α) (c2 : Clique) :
    (CliqueVec.combine self other).get c2
      = (landing self other c2).foldl (fun f o => f.iadd o.2) (self.get c2) := by
  rw [combine_eq]; exact foldl_step_get other self c2

/-- a chain of in-place additions, read at an assignment -/
theorem foldl_iadd_sem (l : List (Clique × Factor α)) (f : Factor α) (σ : Attr → Nat)
    (hf : f.WF) (hσ : f.dom.Valid σ)
    (hl : ∀ o ∈ l, o.2.WF ∧ f.dom.contains o.2.dom = true ∧ o.2.dom.Agrees f.dom) :
    (l.foldl (fun f o => f.iadd o.2) f).sem σ
        = List.foldl Scalar.add (f.sem σ) (l.map (fun o => o.2.sem σ)) ∧
    (l.foldl (fun f o => f.iadd o.2) f).dom = f.dom ∧
    (l.foldl (fun f o => f.iadd o.2) f).WF := by
  induction l generalizing f with
  | nil => exact ⟨rfl, rfl, hf⟩
  | cons o os ih =>
    obtain ⟨how, hoc, hoa⟩ := hl o (by simp)
    have hw : (f.iadd o.2).WF := BP.iop_WF Scalar.add f o.2 hf how hoc hoa
    have hs : (f.iadd o.2).sem σ = Scalar.add (f.sem σ) (o.2.sem σ) :=
      Factor.sem_iop Scalar.add f o.2 σ hf how hoc hoa hσ
    have hd : (f.iadd o.2).dom = f.dom := rfl
    obtain ⟨h1, h2, h3⟩ := ih (f.iadd o.2) hw (by rw [hd]; exact hσ)
      (fun o' ho' => by rw [hd]; exact hl o' (by simp [ho']))
    rw [List.foldl_cons, List.map_cons, List.foldl_cons]
    exact ⟨by rw [h1, hs], h2.trans hd, h3⟩

/-- **`combine`, value level** -/
theorem combine_spec (self other : CliqueVec α) (c2 : Clique) (σ : Attr → Nat)
    (hw : (self.get c2).WF) (hσ : (self.get c2).dom.Valid σ)
    (ho : ∀ o ∈ other, firstCover self o.1 = some c2 →
      o.2.WF ∧ (self.get c2).dom.contains o.2.dom = true ∧ o.2.dom.Agrees (self.get c2).dom) :
    ((CliqueVec.combine self other).get c2).sem σ
        = List.foldl Scalar.add ((self.get c2).sem σ)
            ((landing self other c2).map (fun o => o.2.sem σ)) ∧
    ((CliqueVec.combine self other).get c2).dom = (self.get c2).dom ∧
    ((CliqueVec.combine self other).get c2).WF := by
  rw [combine_get]
  apply foldl_iadd_sem _ _ σ hw hσ
  intro o hol
  obtain ⟨hmem, hdec⟩ := List.mem_filter.mp hol
  exact ho o hmem (of_decide_eq_true hdec)

/-- `combine` when every table is the projection of one common domain `d` onto its clique -/
theorem combine_spec_project (d : Dom) (self other : CliqueVec α) (c2 : Clique) (σ : Attr → Nat)
    (hw : (self.get c2).WF) (hdom : (self.get c2).dom = d.project c2)
    (hσ : (d.project c2).Valid σ)
    (ho : ∀ o ∈ other, firstCover self o.1 = some c2 → o.2.WF ∧ o.2.dom = d.project o.1) :
    ((CliqueVec.combine self other).get c2).sem σ
        = List.foldl Scalar.add ((self.get c2).sem σ)
            ((landing self other c2).map (fun o => o.2.sem σ)) ∧
    ((CliqueVec.combine self other).get c2).dom = d.project c2 ∧
    ((CliqueVec.combine self other).get c2).WF := by
  have := combine_spec self other c2 σ hw (by rw [hdom]; exact hσ) (by
    intro o hmem hfc
    obtain ⟨h1, h2⟩ := ho o hmem hfc
    have hsub := (JT.subset_iff _ _).mp (firstCover_mem self o.1 c2 hfc).2
    refine ⟨h1, ?_, ?_⟩
    · rw [hdom, h2, Dom.contains_iff, Dom.attrs_project, Dom.attrs_project]
      exact hsub
    · rw [hdom, h2]
      intro q hq
      simp only [Dom.project, List.mem_map] at hq
      obtain ⟨a, ha, rfl⟩ := hq
      exact Dom.cfg_project d c2 a (hsub a ha))
  rw [hdom] at this
  exact this

theorem combine_nil (self : CliqueVec α) : CliqueVec.combine self [] = self := rfl

/-- factors covered by no key are dropped: `combine` only sees the covered entries of `other` -/
theorem combine_filter_covered (self other : CliqueVec α) :
    CliqueVec.combine self other
      = CliqueVec.combine self (other.filter (fun o => (firstCover self o.1).isSome)) := by
  rw [combine_eq, combine_eq]
  induction other generalizing self with
  | nil => rfl
  | cons o os ih =>
    have hk : ∀ cl, firstCover (step self o) cl = firstCover self cl :=
      fun cl => firstCover_congr _ _ (step_keys self o) cl
    rw [List.foldl_cons, ih (step self o), List.filter_cons]
    simp only [hk]
    cases hfc : firstCover self o.1 with
    | none =>
      rw [step_of_uncovered self o hfc]
      simp
    | some c => simp

theorem combine_ignores_uncovered (self l₁ l₂ : CliqueVec α) (o : Clique × Factor α)
    (h : ∀ k ∈ self.map Prod.fst, JT.subset o.1 k = false) :
    CliqueVec.combine self (l₁ ++ o :: l₂) = CliqueVec.combine self (l₁ ++ l₂) := by
  have hn := (firstCover_eq_none_iff self o.1).mpr h
  rw [combine_filter_covered self (l₁ ++ o :: l₂), combine_filter_covered self (l₁ ++ l₂),
    List.filter_append, List.filter_append, List.filter_cons, hn]
  simp

/-- if no factor of `other` is covered, nothing happens -/
theorem combine_all_uncovered (self other : CliqueVec α)
    (h : ∀ o ∈ other, ∀ k ∈ self.map Prod.fst, JT.subset o.1 k = false) :
    CliqueVec.combine self other = self := by
  rw [combine_filter_covered]
  have : other.filter (fun o => (firstCover self o.1).isSome) = [] := by
    rw [List.filter_eq_nil_iff]
    intro o ho
    rw [(firstCover_eq_none_iff self o.1).mpr (h o ho)]
    simp
  rw [this]; rfl

/-- a factor whose first covering key is `c1` leaves every other key untouched — also the later
keys that contain it: overlapping keys do not double count -/
theorem combine_first_only (self l₁ l₂ : CliqueVec α) (o : Clique × Factor α) (c1 c2 : Clique)
    (h1 : firstCover self o.1 = some c1) (hne : c2 ≠ c1) :
    (CliqueVec.combine self (l₁ ++ o :: l₂)).get c2 = (CliqueVec.combine self (l₁ ++ l₂)).get c2 := by
  rw [combine_get, combine_get, landing_append, landing_append, landing_cons, h1,
    if_neg (by intro e; injection e with e; exact hne e.symm)]

/-- … and it is added, once, at `c1` -/
theorem combine_single (self : CliqueVec α) (o : Clique × Factor α) (c1 : Clique)
    (h1 : firstCover self o.1 = some c1) :
    (CliqueVec.combine self [o]).get c1 = (self.get c1).iadd o.2 ∧
    ∀ c2, c2 ≠ c1 → (CliqueVec.combine self [o]).get c2 = self.get c2 := by
  constructor
  · rw [combine_get, landing_cons, if_pos h1]; rfl
  · intro c2 hne
    have := combine_first_only self [] [] o c1 c2 h1 hne
    simpa [combine_nil] using this

/-! ### 6. `zerosV` -/

theorem get_zerosV (d : Dom) (cliques : List Clique) (c : Clique) (hc : c ∈ cliques) :
    (CliqueVec.zerosV d cliques : CliqueVec α).get c = Factor.zeros (d.project c) := by
  unfold CliqueVec.zerosV CliqueVec.get
  induction cliques with
  | nil => simp at hc
  | cons k ks ih =>
    simp only [List.map_cons, List.lookup_cons]
    by_cases hk : c = k
    · subst hk; simp
    · have hb : (c == k) = false := by simpa using hk
      rw [hb]
      exact ih ((List.mem_cons.mp hc).resolve_left hk)

theorem keys_zerosV (d : Dom) (cliques : List Clique) :
    (CliqueVec.zerosV d cliques : CliqueVec α).map Prod.fst = cliques := by
  unfold CliqueVec.zerosV
  rw [List.map_map]
  exact List.map_id' _

theorem const_WF (D : Dom) (hD : D.WF) (x : α) : (Factor.mk' D (NdArr.const D.shape x)).WF := by
  refine ⟨hD, rfl, ?_⟩
  show (Array.replicate (size D.shape) x).size = size D.shape
  simp

theorem sem_const (D : Dom) (x : α) (σ : Attr → Nat) (hσ : InRange D.shape (D.attrs.map σ)) :
    (Factor.mk' D (NdArr.const D.shape x)).sem σ = x := by
  show (Array.replicate (size D.shape) x).getD (ravel D.shape (D.attrs.map σ)) default = x
  rw [Array.getD_eq_getD_getElem?]
  simp [ravel_lt _ _ hσ]

theorem zerosV_spec (d : Dom) (cliques : List Clique) (c : Clique) (σ : Attr → Nat)
    (hc : c ∈ cliques) :
    ((CliqueVec.zerosV d cliques : CliqueVec α).get c).dom = d.project c ∧
    ((d.project c).Valid σ → ((CliqueVec.zerosV d cliques : CliqueVec α).get c).sem σ = Scalar.zero) ∧
    (c.Nodup → ((CliqueVec.zerosV d cliques : CliqueVec α).get c).WF) := by
  rw [get_zerosV d cliques c hc]
  refine ⟨rfl, ?_, ?_⟩
  · intro hσ
    apply sem_const
    rw [Dom.shape_project, Dom.attrs_project]
    apply NdArr.inRange_map
    intro a ha
    exact hσ (a, d.cfg a) (by simp only [Dom.project, List.mem_map]; exact ⟨a, ha, rfl⟩)
  · intro hnd
    apply const_WF
    unfold Dom.WF; rw [Dom.attrs_project]; exact hnd

/-! ### 4. `dotV` -/

/-- `Factor.sum()` over everything: the scalar sum, in row-major cell order, of the values at the
assignments naming the cells -/
theorem sumAll_spec (f : Factor α) (hf : f.WF) :
    f.sumAll = Scalar.sum ((cells f.dom.shape).map (fun v => f.sem (Dom.assign f.dom.attrs v))) := by
  unfold Factor.sumAll NdArr.reduceAll
  rw [data_toList_eq _ hf.2.2, hf.2.1]
  congr 1
  apply List.map_congr_left
  intro v hv
  exact (LossAux.sem_assign f hf v hv).symm

theorem mul_sumAll_spec (x y : Factor α) (hx : x.WF) (hy : y.WF) (hcompat : x.dom.Compatible y.dom) :
    (x.mul y).sumAll
      = Scalar.sum ((cells (x.dom.merge y.dom).shape).map (fun v =>
          Scalar.mul (x.sem (Dom.assign (x.dom.merge y.dom).attrs v))
            (y.sem (Dom.assign (x.dom.merge y.dom).attrs v)))) := by
  have hw : (x.mul y).WF := Factor.binop_WF _ x y hx hy hcompat
  rw [sumAll_spec _ hw]
  show Scalar.sum ((cells (x.dom.merge y.dom).shape).map (fun v =>
    (Factor.binop Scalar.mul x y).sem (Dom.assign (x.dom.merge y.dom).attrs v))) = _
  congr 1
  apply List.map_congr_left
  intro v hv
  exact Factor.sem_binop _ x y _ hx hy hcompat
    (LossAux.valid_assign _ (Dom.merge_WF _ _ hx.1 hy.1) v hv)

/-- entry form (no hypothesis on the keys) -/
theorem dotV_entries (a b : CliqueVec α)
    (h : ∀ p ∈ a, p.2.WF ∧ (b.get p.1).WF ∧ p.2.dom.Compatible (b.get p.1).dom) :
    CliqueVec.dotV a b
      = Scalar.sum (a.map (fun p =>
          Scalar.sum ((cells (p.2.dom.merge (b.get p.1).dom).shape).map (fun v =>
            Scalar.mul (p.2.sem (Dom.assign (p.2.dom.merge (b.get p.1).dom).attrs v))
              ((b.get p.1).sem (Dom.assign (p.2.dom.merge (b.get p.1).dom).attrs v)))))) := by
  unfold CliqueVec.dotV
  congr 1
  apply List.map_congr_left
  intro p hp
  obtain ⟨h1, h2, h3⟩ := h p hp
  exact mul_sumAll_spec p.2 (b.get p.1) h1 h2 h3

/-- the cells of clique `c` shared by the two vectors -/
def dotDom (a b : CliqueVec α) (c : Clique) : Dom := (a.get c).dom.merge (b.get c).dom

theorem dotV_spec (a b : CliqueVec α) (hnd : (a.map Prod.fst).Nodup)
    (h : ∀ c ∈ a.map Prod.fst, (a.get c).WF ∧ (b.get c).WF ∧
      (a.get c).dom.Compatible (b.get c).dom) :
    CliqueVec.dotV a b
      = Scalar.sum ((a.map Prod.fst).map (fun c =>
          Scalar.sum ((cells (dotDom a b c).shape).map (fun v =>
            Scalar.mul ((a.get c).sem (Dom.assign (dotDom a b c).attrs v))
              ((b.get c).sem (Dom.assign (dotDom a b c).attrs v)))))) := by
  rw [dotV_entries a b (by
    intro p hp
    have := h p.1 (List.mem_map_of_mem hp)
    rw [get_of_mem a hnd p hp] at this
    exact this)]
  rw [List.map_map]
  congr 1
  apply List.map_congr_left
  intro p hp
  simp only [Function.comp, dotDom, get_of_mem a hnd p hp]

end PGM.CVSem
