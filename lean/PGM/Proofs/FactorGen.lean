import PGM.Generated.FactorG
/-!
# Helper lemmas for `PGM/Properties/C14F.lean`

The generated reading of `src/mbi/factor.py` (`PGM/Generated/FactorG.lean`) composes numpy calls exactly as
the source does (`np.nan_to_num(c * v)` is two passes over the array); the hand model fuses them.
These are the small facts that bridge the two.
-/
namespace PGM.FactorGen
open PGM

/-- two element-wise passes are one pass of the composition -/
theorem map_map {α β γ : Type} (g : α → β) (h : β → γ) (a : NdArr α) :
    NdArr.map h (NdArr.map g a) = NdArr.map (fun x => h (g x)) a := by
  simp [NdArr.map, Array.map_map, Function.comp_def]

/-- `len(domain)` is `len(domain.attrs)` -/
theorem attrs_length (d : Dom) : (Dom.attrs d).length = d.length := by
  simp [Dom.attrs]

/-- `e[a] if a in e else slice(None)` is the dictionary lookup -/
theorem lookup_ite {β : Type} (o : Option β) (z : β) : (if o.isSome then some (o.getD z) else none) = o := by
  cases o <;> rfl

/-- the slice list of `Factor.condition` -/
theorem slices_eq (as : List Attr) (ev : List (Attr × Nat)) :
    as.map (fun a => if (List.lookup a ev).isSome then some ((List.lookup a ev).getD 0) else none)
      = as.map (fun a => ev.lookup a) := by
  simp only [lookup_ite]

end PGM.FactorGen
