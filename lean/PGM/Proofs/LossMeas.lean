import PGM.Proofs.LossFold
/-!
# Helpers for C04 (6): one measurement at one clique — loss, exact expansion, gradient pairing
-/
set_option linter.unusedSectionVars false
set_option linter.unusedVariables false
namespace PGM.LossAux
open PGM PGM.JT PGM.Loss PGM.Factor
variable {K : Type} [Field K] [LinearOrder K] [IsStrictOrderedRing K]

theorem lossM_eq (m : Meas (PlainOf K)) (f : Factor (PlainOf K)) :
    lossM m f = (1 / 2) * sqsum (residL (m.noise.v)⁻¹ m.Q m.y (xOf m f)) := rfl

theorem quadM_eq (m : Meas (PlainOf K)) (f : Factor (PlainOf K)) :
    quadM m f = (1 / 2) * sqsum ((qxL m.Q (xOf m f)).map (fun t => (m.noise.v)⁻¹ * t)) := rfl

/-- the model's per-measurement loss is `lossM` -/
theorem lossS_v (m : Meas (PlainOf K)) (f : Factor (PlainOf K)) : (lossS m f).v = lossM m f := by
  unfold lossS
  rw [mul_v, dot_v, residual_v, vdot_self, lossM_eq]
  congr 1
  simp only [div_v, add_v, one_v]
  norm_num

theorem gradF_dom (m : Meas (PlainOf K)) (f : Factor (PlainOf K)) :
    (gradF m f).dom = f.dom.project m.proj := rfl

theorem gradF_WF (m : Meas (PlainOf K)) (f : Factor (PlainOf K)) (hP : m.proj.Nodup) : (gradF m f).WF := by
  refine ⟨?_, rfl, ?_⟩
  · show (f.dom.project m.proj).attrs.Nodup
    rw [Dom.attrs_project]; exact hP
  · show (((matTVec m.Q (f.dom.project m.proj).size (residual m f)).map _).toArray).size
      = size (f.dom.project m.proj).shape
    simp [matTVec, Dom.size]

theorem vals_gradF (m : Meas (PlainOf K)) (f : Factor (PlainOf K)) :
    vals (gradF m f) = (List.range (f.dom.project m.proj).size).map
      (fun j => (1 * (m.noise.v)⁻¹) * colS m.Q (residual m f) j) := by
  unfold vals gradF Factor.datavector Factor.mk' NdArr.reshape
  simp only
  exact matTVec_v m.Q _ (residual m f) (Scalar.div Scalar.one m.noise)

section PerMeas
variable (m : Meas (PlainOf K)) (f hc : Factor (PlainOf K)) (hf : f.WF) (hh : hc.WF)
  (hd : hc.dom = f.dom) (hP : m.proj.Nodup) (hsub : ∀ a ∈ m.proj, a ∈ f.dom.attrs)
  (hrows : ∀ row ∈ m.Q, row.length = (f.dom.project m.proj).size) (hy : m.y.length = m.Q.length)
include hf hh hd hP hsub hrows hy

/-- pairing of the measurement's gradient with a direction: `⟨c Qᵀ r, π h⟩ = ⟨r, c Q π h⟩` -/
theorem gradF_pair :
    vdot (vals (gradF m f)) (xOf m hc)
      = vdot (residL (m.noise.v)⁻¹ m.Q m.y (xOf m f))
          ((qxL m.Q (xOf m hc)).map (fun t => (m.noise.v)⁻¹ * t)) := by
  have hlen : (xOf m hc).length = (f.dom.project m.proj).size := by
    unfold xOf
    rw [xOf_length hc hh m.proj hP (by rw [hd]; exact hsub), hd]
    simp [Dom.size]
  rw [vals_gradF, vdot_range _ _ _ hlen,
    transpose_adjoint _ m.Q (residual m f) _ (xOf m hc) hlen hrows, residual_v,
    vdot_map_mul_right]
  simp only [one_mul]
  rfl

/-- exact expansion of one measurement's loss -/
theorem lossM_add :
    lossM m (f.add hc) = lossM m f + vdot (vals (gradF m f)) (xOf m hc) + quadM m hc := by
  have hx : xOf m (f.add hc) = List.zipWith (· + ·) (xOf m f) (xOf m hc) :=
    xOf_add f hc hf hh hd m.proj hP hsub
  have hlen : (xOf m f).length = (xOf m hc).length := by
    unfold xOf
    rw [xOf_length f hf m.proj hP hsub, xOf_length hc hh m.proj hP (by rw [hd]; exact hsub), hd]
  rw [gradF_pair m f hc hf hh hd hP hsub hrows hy, lossM_eq, lossM_eq, quadM_eq, hx,
    expansion_core _ m.Q m.y _ _ hlen hy]
  ring

end PerMeas

/-! ### the accumulated gradient of a clique -/

theorem gradAcc_spec (mine : List (Meas (PlainOf K))) (f g0 : Factor (PlainOf K))
    (hfd : f.dom.WF) (hg0 : g0.WF) (hd0 : g0.dom = f.dom)
    (hok : ∀ m ∈ mine, m.proj.Nodup ∧ ∀ a ∈ m.proj, a ∈ f.dom.attrs) :
    (gradAcc mine f g0).WF ∧ (gradAcc mine f g0).dom = f.dom ∧
      ∀ cell ∈ cells f.dom.shape, tab (gradAcc mine f g0) cell
        = tab g0 cell + (mine.map (fun m => ((gradF m f).sem (Dom.assign f.dom.attrs cell)).v)).sum := by
  induction mine generalizing g0 with
  | nil => exact ⟨hg0, hd0, fun cell _ => by simp [gradAcc]⟩
  | cons m mine ih =>
    obtain ⟨hP, hsub⟩ := hok m (by simp)
    have hgW := gradF_WF m f hP
    have hc : g0.dom.contains (gradF m f).dom = true := by
      rw [hd0, gradF_dom, Dom.contains_iff, Dom.attrs_project]; exact hsub
    have ha : (gradF m f).dom.Agrees g0.dom := by
      rw [hd0, gradF_dom]
      intro p hp
      simp only [Dom.project, List.mem_map] at hp
      obtain ⟨a, _, rfl⟩ := hp
      rfl
    have hw1 : (g0.iadd (gradF m f)).WF := iop_WF _ g0 _ hg0 hgW hc ha
    have hd1 : (g0.iadd (gradF m f)).dom = f.dom := hd0
    obtain ⟨h1, h2, h3⟩ := ih (g0.iadd (gradF m f)) hw1 hd1 (fun m' hm' => hok m' (by simp [hm']))
    refine ⟨h1, h2, ?_⟩
    intro cell hcell
    have := h3 cell hcell
    show tab (gradAcc mine f (g0.iadd (gradF m f))) cell = _
    rw [this, tab_iadd g0 _ hg0 hgW hc ha cell (by rw [hd0]; exact hcell), hd0]
    simp only [List.map_cons, List.sum_cons]
    ring

/-- pairing of a clique's accumulated gradient with a direction -/
theorem gradAcc_pair (mine : List (Meas (PlainOf K))) (f hc : Factor (PlainOf K))
    (hf : f.WF) (hh : hc.WF) (hd : hc.dom = f.dom)
    (hok : ∀ m ∈ mine, m.proj.Nodup ∧ ∀ a ∈ m.proj, a ∈ f.dom.attrs) :
    vdot (vals (gradAcc mine f (Factor.zeros f.dom))) (vals hc)
      = (mine.map (fun m => vdot (vals (gradF m f)) (xOf m hc))).sum := by
  obtain ⟨h1, h2, h3⟩ := gradAcc_spec mine f (Factor.zeros f.dom) hf.1 (zeros_WF _ hf.1) rfl hok
  rw [vals_eq _ h1, vals_eq hc hh, h2, hd, vdot_map_map]
  have e1 : (cells f.dom.shape).map (fun cell => tab (gradAcc mine f (Factor.zeros f.dom)) cell * tab hc cell)
      = (cells f.dom.shape).map (fun cell =>
          (mine.map (fun m => ((gradF m f).sem (Dom.assign f.dom.attrs cell)).v * tab hc cell)).sum) := by
    apply List.map_congr_left
    intro cell hcell
    rw [h3 cell hcell, tab_zeros, zero_add, mul_comm, ← list_sum_map_mul_left]
    apply congrArg
    apply List.map_congr_left
    intro m _
    ring
  rw [e1, list_sum_comm]
  apply congrArg
  apply List.map_congr_left
  intro m hm
  obtain ⟨hP, hsub⟩ := hok m hm
  have := adjoint (gradF m f) hc (gradF_WF m f hP) hh m.proj hP (by rw [hd]; exact hsub)
    (by rw [hd]; rfl)
  rw [hd] at this
  exact this

end PGM.LossAux
