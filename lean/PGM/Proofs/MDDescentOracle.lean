import PGM.Proofs.MDDescentLift
/-!
# The hypotheses of the lifting are satisfiable

`exactBp d cliques h T` is the reference exact oracle (each clique table is built cell by cell from
the brute-force marginal of `h · exp(E_θ)`); it satisfies `ExactOracle` on every layout
(`exactBp_exact`), so `ExactOracle` is not vacuous.  A concrete layout with an overlap, a
structural zero and a start vector closes the file.
-/
namespace PGM.MD
open PGM PGM.JT PGM.RG PGM.Sem PGM.Convex PGM.CliqueVec
set_option linter.unusedSectionVars false
set_option linter.unusedVariables false

variable {d : Dom} {cliques : List Clique}

/-- the table on `d.project c` whose cell `idx` holds `F` at the assignment `c ↦ idx` -/
noncomputable def tableOf (d : Dom) (c : Clique) (F : (Attr → Nat) → ℝ) : Factor ℝ :=
  Factor.mk' (d.project c) (NdArr.ofFn (d.project c).shape (fun idx => F (asg c idx)))

theorem tableOf_on {c : Clique} (hc : RegOK d c) (F : (Attr → Nat) → ℝ) : On d c (tableOf d c F) := by
  refine ⟨⟨?_, rfl, NdArr.ofFn_WF _ _⟩, rfl⟩
  show (d.project c).attrs.Nodup
  rw [Dom.attrs_project]; exact hc.1

theorem tableOf_sem (hd : d.WF) {c : Clique} (hc : RegOK d c) (F : (Attr → Nat) → ℝ)
    (hF : DependsOn F c) {σ : Attr → Nat} (hσ : d.Valid σ) : (tableOf d c F).sem σ = F σ := by
  show ((NdArr.ofFn (d.project c).shape _).reshape (d.project c).shape).get
    ((d.project c).attrs.map σ) = _
  rw [Factor.get_reshape_of_shape_eq _ _ (NdArr.ofFn_shape _ _), Dom.attrs_project, NdArr.get_ofFn]
  · apply hF
    intro a ha
    unfold asg
    rw [override_of_mem _ _ _ _ ha, getD_map_idxOf c σ 0 a ha]
  · rw [Dom.shape_project]
    exact NdArr.inRange_map _ _ _ (fun a ha => (Dom.valid_iff d hd σ).mp hσ a (hc.2 a ha))

/-- the reference exact oracle: `T ·` the brute-force clique marginals of `h · exp(E_θ) / Z(θ)` -/
noncomputable def exactBp (d : Dom) (cliques : List Clique) (h : (Attr → Nat) → ℝ) (T : ℝ)
    (θ : CliqueVec ℝ) : CliqueVec ℝ :=
  cliques.map (fun c => (c, tableOf d c (fun σ =>
    T * sumOver d (d.invert c) σ (weight cliques h θ) / partitionFn d cliques h θ)))

theorem lookup_map_self' {β : Type} (l : List Clique) (F : Clique → β) (r : Clique) (hr : r ∈ l) :
    (l.map (fun r => (r, F r))).lookup r = some (F r) := by
  induction l with
  | nil => simp at hr
  | cons x xs ih =>
    simp only [List.map_cons, List.lookup_cons]
    by_cases hx : r = x
    · subst hx; simp
    · have : (r == x) = false := by simpa using hx
      rw [this]
      rcases List.mem_cons.mp hr with h | h
      · exact absurd h hx
      · exact ih h

/-- what is summed out no longer matters (for a table that reads only the domain's attributes) -/
theorem dependsOn_marginal {c : Clique} (W : (Attr → Nat) → ℝ) (hW : DependsOn W d.attrs) :
    DependsOn (fun σ => sumOver d (d.invert c) σ W) c := by
  apply (hW.sumOver d (d.invert c)).mono
  intro a ha
  have h1 := List.mem_filter.mp ha
  by_contra hm
  have : a ∈ d.invert c := (mem_invert_iff c a).mpr ⟨h1.1, hm⟩
  simp [this] at h1

theorem dependsOn_energy (L : Layout d cliques) {θ : CliqueVec ℝ} (hθ : VecOn d cliques θ) :
    DependsOn (energy cliques θ) d.attrs := by
  intro σ τ h
  unfold energy
  congr 1
  apply List.map_congr_left
  intro c hc
  exact dependsOn_on (hθ.get_on hc) σ τ (fun a ha => h a ((L.reg c hc).2 a ha))

theorem dependsOn_weight (L : Layout d cliques) (h : (Attr → Nat) → ℝ) (hh : DependsOn h d.attrs)
    {θ : CliqueVec ℝ} (hθ : VecOn d cliques θ) : DependsOn (weight cliques h θ) d.attrs := by
  intro σ τ hστ
  unfold weight
  rw [hh σ τ hστ, dependsOn_energy L hθ σ τ hστ]

theorem exactBp_on (L : Layout d cliques) (h : (Attr → Nat) → ℝ) (T : ℝ) (θ : CliqueVec ℝ) :
    VecOn d cliques (exactBp d cliques h T θ) := by
  constructor
  · unfold exactBp
    rw [List.map_map]
    exact List.map_id' _
  · intro p hp
    obtain ⟨c, hc, rfl⟩ := List.mem_map.mp hp
    exact tableOf_on (L.reg c hc) _

theorem exactBp_get (h : (Attr → Nat) → ℝ) (T : ℝ) (θ : CliqueVec ℝ) {c : Clique} (hc : c ∈ cliques) :
    (exactBp d cliques h T θ).get c = tableOf d c (fun σ =>
      T * sumOver d (d.invert c) σ (weight cliques h θ) / partitionFn d cliques h θ) := by
  unfold exactBp CliqueVec.get
  rw [lookup_map_self' cliques _ c hc]

/-- **`ExactOracle` is satisfiable** on every layout, for every base measure that reads only the
domain's attributes, by the brute-force oracle -/
theorem exactBp_exact (L : Layout d cliques) (h : (Attr → Nat) → ℝ) (hh : DependsOn h d.attrs)
    (T : ℝ) : ExactOracle d cliques h T (exactBp d cliques h T) := by
  intro θ hθ
  refine ⟨exactBp_on L h T θ, ?_⟩
  intro c hc σ hσ
  rw [exactBp_get h T θ hc]
  apply tableOf_sem L.dom_wf (L.reg c hc) _ _ hσ
  have hm := dependsOn_marginal (c := c) _ (dependsOn_weight L h hh hθ)
  intro σ τ hστ
  show T * sumOver d (d.invert c) σ (weight cliques h θ) / partitionFn d cliques h θ
    = T * sumOver d (d.invert c) τ (weight cliques h θ) / partitionFn d cliques h θ
  have e : sumOver d (d.invert c) σ (weight cliques h θ)
      = sumOver d (d.invert c) τ (weight cliques h θ) := hm σ τ hστ
  rw [e]

/-- the zero vector (the uniform start) is laid out on the cliques -/
theorem zerosV_on (L : Layout d cliques) : VecOn d cliques (zerosV d cliques) := by
  constructor
  · unfold zerosV
    rw [List.map_map]
    exact List.map_id' _
  · intro p hp
    obtain ⟨c, hc, rfl⟩ := List.mem_map.mp hp
    refine ⟨⟨?_, rfl, ?_⟩, rfl⟩
    · show (d.project c).attrs.Nodup
      rw [Dom.attrs_project]; exact (L.reg c hc).1
    · show (Array.replicate (size (d.project c).shape) (Scalar.zero : ℝ)).size = size (d.project c).shape
      simp

/-! ### the unrestricted hypothesis `MonotoneOracle` is satisfiable (constant oracle)

`MonotoneOracle` quantifies over *all* clique vectors, malformed ones included, so the witness has
to be computed through the numpy contracts: every product with the all-zero default table is
all-zero, whatever the other operand looks like. -/

/-- every stored cell is `0` -/
def AllZero (a : NdArr ℝ) : Prop := ∀ x ∈ a.data.toList, x = 0

theorem AllZero.get {a : NdArr ℝ} (ha : AllZero a) (idx : List Nat) : a.get idx = 0 := by
  unfold NdArr.get
  rw [Array.getD_eq_getD_getElem?]
  cases hk : a.data[ravel a.shape idx]? with
  | none => rfl
  | some x =>
    have hm : x ∈ a.data := Array.mem_of_getElem? hk
    exact ha x (Array.mem_toList_iff.mpr hm)

theorem allZero_ofFn (s : List Nat) (f : List Nat → ℝ) (hf : ∀ idx, f idx = 0) :
    AllZero (NdArr.ofFn s f) := by
  intro x hx
  unfold NdArr.ofFn at hx
  simp only [List.mem_map] at hx
  obtain ⟨idx, _, rfl⟩ := hx
  exact hf idx

theorem allZero_expand {g : Factor ℝ} (hg : AllZero g.vals) (D : Dom) :
    AllZero (g.expand D).vals := by
  unfold Factor.expand Factor.mk'
  dsimp only
  show AllZero (NdArr.reshape (NdArr.broadcastTo _ D.shape) D.shape)
  unfold NdArr.reshape NdArr.broadcastTo
  apply allZero_ofFn
  intro idx
  apply AllZero.get
  unfold NdArr.moveaxis NdArr.transposeAx
  apply allZero_ofFn
  intro idx'
  have hz : ∀ s, AllZero (⟨s, g.vals.data⟩ : NdArr ℝ) := fun _ => hg
  exact (hz _).get _

theorem zipWith_mul_zero (l1 l2 : List ℝ) (h : ∀ b ∈ l2, b = 0) :
    ∀ x ∈ List.zipWith (fun a b => a * b) l1 l2, x = 0 := by
  induction l1 generalizing l2 with
  | nil => intro x hx; simp at hx
  | cons a l1 ih =>
    cases l2 with
    | nil => intro x hx; simp at hx
    | cons b l2 =>
      intro x hx
      simp only [List.zipWith_cons_cons, List.mem_cons] at hx
      rcases hx with rfl | hx
      · rw [h b (by simp)]; ring
      · exact ih l2 (fun b hb => h b (by simp [hb])) x hx

/-- the product of any table with an all-zero table has sum `0` -/
theorem mul_allZero_sumAll (f g : Factor ℝ) (hg : AllZero g.vals) : (f.mul g).sumAll = 0 := by
  unfold Factor.sumAll NdArr.reduceAll
  rw [rsum_eq]
  apply List.sum_eq_zero
  intro x hx
  have hx' : x ∈ (Array.zipWith (fun a b : ℝ => a * b) (f.expand (f.dom.merge g.dom)).vals.data
      (g.expand (f.dom.merge g.dom)).vals.data).toList := hx
  rw [Array.toList_zipWith] at hx'
  exact zipWith_mul_zero _ _ (allZero_expand hg _) x hx'

theorem allZero_zeros_nil : AllZero (Factor.zeros ([] : Dom) : Factor ℝ).vals := by
  intro x hx
  have : x ∈ (Array.replicate (size (Dom.shape ([] : Dom))) (0:ℝ)).toList := hx
  simp only [Array.toList_replicate, List.mem_replicate] at this
  exact this.2

/-- the constant oracle is monotone along every step, so `MonotoneOracle` is satisfiable -/
theorem monotoneOracle_const : MonotoneOracle (fun _ => ([] : CliqueVec ℝ)) := by
  intro ω g α _
  show (0:ℝ) ≤ dotV g (subV [] [])
  have e : subV ([] : CliqueVec ℝ) [] = [] := rfl
  rw [e]
  unfold dotV
  rw [rsum_eq]
  apply List.sum_nonneg
  intro x hx
  obtain ⟨p, _, rfl⟩ := List.mem_map.mp hx
  have : CliqueVec.get ([] : CliqueVec ℝ) p.1 = Factor.zeros [] := rfl
  rw [this, mul_allZero_sumAll _ _ allZero_zeros_nil]

/-! ### a concrete instance: two binary attributes, overlapping cliques, one structural zero -/

def domEx : Dom := [("a", 2), ("b", 2)]
def cliquesEx : List Clique := [["a", "b"], ["b"]]

/-- base measure: the cell `a = 1, b = 1` is a structural zero -/
noncomputable def hEx (σ : Attr → Nat) : ℝ := if σ "a" = 1 ∧ σ "b" = 1 then 0 else 1

theorem layoutEx : Layout domEx cliquesEx := by
  refine ⟨by decide, by decide, by decide, ?_⟩
  intro c hc
  unfold RegOK
  simp only [cliquesEx, List.mem_cons, List.not_mem_nil, or_false] at hc
  rcases hc with rfl | rfl <;> decide

theorem hEx_nonneg (σ : Attr → Nat) : 0 ≤ hEx σ := by
  unfold hEx; split <;> norm_num

theorem hEx_dependsOn : DependsOn hEx domEx.attrs := by
  intro σ τ h
  unfold hEx
  rw [h "a" (by decide), h "b" (by decide)]

theorem hEx_mass : 0 < S domEx domEx.attrs hEx := by
  have : S domEx domEx.attrs hEx = 3 := by
    rw [S_attrs_eq]
    have hc : cells (domEx.attrs.map domEx.cfg) = [[0, 0], [0, 1], [1, 0], [1, 1]] := by decide
    rw [hc]
    simp [hEx, asg, Dom.override, domEx, Dom.attrs]
    norm_num
  rw [this]; norm_num

/-- all hypotheses of `md_accepted_step_descends` / `md_no_forced_descent_exact` hold together on
this instance (with the brute-force oracle, total `T = 10`, the uniform start) -/
example : Layout domEx cliquesEx ∧ (∀ σ, 0 ≤ hEx σ) ∧ 0 < S domEx domEx.attrs hEx ∧ (0:ℝ) < 10 ∧
    ExactOracle domEx cliquesEx hEx 10 (exactBp domEx cliquesEx hEx 10) ∧
    VecOn domEx cliquesEx (zerosV domEx cliquesEx) :=
  ⟨layoutEx, hEx_nonneg, hEx_mass, by norm_num, exactBp_exact layoutEx hEx hEx_dependsOn 10,
    zerosV_on layoutEx⟩

end PGM.MD
