import PGM.Proofs.QueryTree
import PGM.Proofs.GMInitGen
import PGM.Proofs.GMQMany
/-!
# The BFS tables of a tree do not depend on the order its nodes are listed in (helper for C02E)

`GM.bfs t src` walks `t.nbrs`, which filters `t.nodes` — so the TABLE (a list) depends on the listing.  What
`calculate_many_marginals` reads from it (`predOf`, `distOf`) does not: `BfsSpec` mentions the tree only through membership in
`t.nodes` and `t.adj`; two tables satisfying it for the same source have the same distances (both are the length of a shortest
walk), and on a tree the same predecessors (`exists_side`: removing the edge `cj — pred cj` separates `cj` from the source).
Hence `PathsOK` — the contract of `nx.floyd_warshall_predecessor_and_distance` — on a tree and on the same tree with its nodes
relisted are the same statement.
-/
set_option linter.unusedVariables false
set_option linter.unusedSectionVars false
namespace PGM.GM
open PGM PGM.JT

/-- `BfsSpec` only reads node membership and adjacency -/
theorem bfsSpec_congr (t t' : Tree) (src : Clique) (T : List Entry) (hn : ∀ x, x ∈ t'.nodes ↔ x ∈ t.nodes)
    (he : t'.edges = t.edges) (h : BfsSpec t' src T) : BfsSpec t src T := by
  have hadj : ∀ a b, t'.adj a b = t.adj a b := fun a b => by unfold Tree.adj; rw [he]
  exact ⟨h.keys_nodup, fun e he' => (hn _).mp (h.keys_nodes e he'), h.src_mem,
    fun e he' hne => by
      obtain ⟨e', h1, h2, h3, h4⟩ := h.pred_ok e he' hne
      exact ⟨e', h1, h2, h3, (hadj _ _) ▸ h4⟩,
    fun e he' v hv hav => h.closed e he' v ((hn v).mpr hv) ((hadj _ _).symm ▸ hav)⟩

section uniq
variable {t : Tree} {src : Clique} {T T' : List Entry} (hS : BfsSpec t src T) (hS' : BfsSpec t src T')
  (hall : ∀ n ∈ t.nodes, ∃ e ∈ T, e.1 = n) (hall' : ∀ n ∈ t.nodes, ∃ e ∈ T', e.1 = n) (hsrc : src ∈ t.nodes)
include hS hS' hall hall' hsrc

/-- distances: both tables give the length of a shortest walk -/
theorem spec_dist_unique (n : Clique) (hn : n ∈ t.nodes) : distOf T n = distOf T' n := by
  have key : ∀ {A B : List Entry} (hA : BfsSpec t src A) (hB : BfsSpec t src B)
      (hallA : ∀ n ∈ t.nodes, ∃ e ∈ A, e.1 = n) (hallB : ∀ n ∈ t.nodes, ∃ e ∈ B, e.1 = n),
      distOf A n ≤ distOf B n := by
    intro A B hA hB hallA hallB
    have hw := spec_walk_of_dist hB hallB hsrc _ n hn rfl
    have := spec_dist_le_walk hA hallA hw hsrc
    rw [spec_dist_src hA] at this
    omega
  exact Nat.le_antisymm (key hS hS' hall hall') (key hS' hS hall' hall)

end uniq

/-- a walk from the `false` side to the `true` side of a 2-colouring has a prefix ending with a crossing step -/
theorem TWalk.crossing {t : Tree} (r : Clique → Bool) {a b : Clique} {k : Nat} (h : TWalk t a b k) (ha : a ∈ t.nodes)
    (hra : r a = false) (hrb : r b = true) :
    ∃ n m j, TWalk t a m (j + 1) ∧ j + 1 ≤ k ∧ n ∈ t.nodes ∧ m ∈ t.nodes ∧ t.adj n m = true ∧ r n = false ∧ r m = true := by
  induction h with
  | nil a => rw [hra] at hrb; cases hrb
  | @cons a b' c n h1 h2 rest ih =>
    by_cases hb' : r b' = true
    · exact ⟨a, b', 0, TWalk.cons h1 h2 (TWalk.nil b'), by omega, ha, h2, h1, hra, hb'⟩
    · have hb'' : r b' = false := by simpa using hb'
      obtain ⟨n', m, j, hw, hj, hn', hm, hadj, hrn, hrm⟩ := ih h2 hb'' hrb
      exact ⟨n', m, j + 1, TWalk.cons h1 h2 hw, by omega, hn', hm, hadj, hrn, hrm⟩

/-- **predecessors on a tree**: any table satisfying `BfsSpec` has the predecessors of `bfs t src` -/
theorem spec_pred_unique (t : Tree) (f : TreeFacts t) (hconn : ∀ n ∈ t.nodes, ∀ m ∈ t.nodes, Conn t t.nodes n m)
    (src : Clique) (hsrc : src ∈ t.nodes) (T' : List Entry) (hS' : BfsSpec t src T')
    (hall' : ∀ n ∈ t.nodes, ∃ e ∈ T', e.1 = n) (n : Clique) (hn : n ∈ t.nodes) :
    predOf T' n = predOf (bfs t src) n := by
  have hnd := f.nodes_nodup
  have hS := bfs_spec t src hnd hsrc
  have hall := bfs_all_keys t hnd hconn src hsrc
  by_cases hne : n = src
  · subst hne
    rw [predOf_of_mem T' hS'.keys_nodup _ hS'.src_mem, predOf_of_mem _ hS.keys_nodup _ hS.src_mem]
  · obtain ⟨r, hrn, hrp, hrs, hcross⟩ := exists_side t f hconn src n hsrc hn hne
    obtain ⟨hp'n, hp'adj, hp'd⟩ := spec_pred hS' hall' n hn hne
    have hrp' : r (predOf T' n) = false := by
      by_contra hc
      have hc' : r (predOf T' n) = true := by simpa using hc
      have hw := spec_walk_of_dist hS' hall' hsrc _ (predOf T' n) hp'n rfl
      obtain ⟨a, m, j, hwm, hj, ha, hm, hadj, hra, hrm⟩ := TWalk.crossing r hw hsrc hrs hc'
      have hmn : m = n := (hcross m hm a ha (by rw [tree_adj_symm]; exact hadj) hrm hra).1
      subst hmn
      have := spec_dist_le_walk hS' hall' hwm hsrc
      rw [spec_dist_src hS'] at this
      omega
    exact (hcross n hn (predOf T' n) hp'n (by rw [tree_adj_symm]; exact hp'adj) hrn hrp').2

/-- **relisting the nodes of a tree changes neither `predOf (bfs · ci)` nor `distOf (bfs · ci)`** -/
theorem bfs_relist (t : Tree) (f : TreeFacts t) (hconn : ∀ n ∈ t.nodes, ∀ m ∈ t.nodes, Conn t t.nodes n m)
    (l : List Clique) (hp : l.Perm t.nodes) (ci cj : Clique) (hi : ci ∈ t.nodes) (hj : cj ∈ t.nodes) :
    predOf (bfs (t.withNodes l) ci) cj = predOf (bfs t ci) cj ∧
    distOf (bfs (t.withNodes l) ci) cj = distOf (bfs t ci) cj := by
  have hnd := f.nodes_nodup
  have hmem : ∀ x, x ∈ (t.withNodes l).nodes ↔ x ∈ t.nodes := fun x => hp.mem_iff
  have hnd' : (t.withNodes l).nodes.Nodup := hp.nodup_iff.mpr hnd
  have hS' : BfsSpec t ci (bfs (t.withNodes l) ci) :=
    bfsSpec_congr t (t.withNodes l) ci _ hmem rfl (bfs_spec (t.withNodes l) ci hnd' ((hmem ci).mpr hi))
  have hS := bfs_spec t ci hnd hi
  have hall := bfs_all_keys t hnd hconn ci hi
  -- every node is a key of the relisted table: `closed` + connectivity
  have hall' : ∀ n ∈ t.nodes, ∃ e ∈ bfs (t.withNodes l) ci, e.1 = n := by
    have key : ∀ n, Conn t t.nodes ci n → ∃ e ∈ bfs (t.withNodes l) ci, e.1 = n := by
      intro n hc
      induction hc with
      | refl => exact ⟨_, hS'.src_mem, rfl⟩
      | @tail b c _ hstep ih =>
        obtain ⟨e, he, rfl⟩ := ih
        obtain ⟨e', he', h1, _⟩ := hS'.closed e he c hstep.2 hstep.1
        exact ⟨e', he', h1⟩
    exact fun n hn => key n (hconn ci hi n hn)
  exact ⟨spec_pred_unique t f hconn ci hi _ hS' hall' cj hj, spec_dist_unique hS' hS hall' hall hi cj hj⟩

end PGM.GM

namespace PGM.GMQGen
open PGM PGM.JT PGM.GM

/-- **the networkx contract on a tree and on the same tree with its nodes relisted is the same contract** -/
theorem pathsOK_relist (cliques : List Clique) (t : Tree) (f : TreeFacts t)
    (hconn : ∀ n ∈ t.nodes, ∀ m ∈ t.nodes, Conn t t.nodes n m) (l : List Clique) (hp : l.Perm t.nodes)
    (hcl : ∀ c ∈ cliques, c ∈ t.nodes) (pred : Clique → Clique → Clique) (dist : Clique → Clique → Nat) :
    PathsOK cliques (t.withNodes l) pred dist ↔ PathsOK cliques t pred dist := by
  constructor
  · intro h ci hi cj hj
    obtain ⟨h1, h2⟩ := bfs_relist t f hconn l hp ci cj (hcl ci hi) (hcl cj hj)
    obtain ⟨h3, h4⟩ := h ci hi cj hj
    exact ⟨h3.trans h1, h4.trans h2⟩
  · intro h ci hi cj hj
    obtain ⟨h1, h2⟩ := bfs_relist t f hconn l hp ci cj (hcl ci hi) (hcl cj hj)
    obtain ⟨h3, h4⟩ := h ci hi cj hj
    exact ⟨h3.trans h1.symm, h4.trans h2.symm⟩

end PGM.GMQGen
