import PGM.Proofs.QueryBfs
import PGM.Proofs.JTWeightEdges
/-! tree facts for `calculate_many_marginals`: BFS distances are symmetric graph distances, the
predecessor is the last node before the target, and removing the last edge separates the tree -/
namespace PGM.GM
open PGM PGM.JT
set_option linter.unusedVariables false
set_option linter.unusedSectionVars false

theorem find_of_mem (T : List Entry) (hnd : (T.map (·.1)).Nodup) (e : Entry) (he : e ∈ T) :
    T.find? (fun x => x.1 == e.1) = some e := by
  induction T with
  | nil => simp at he
  | cons x xs ih =>
    rw [List.map_cons, List.nodup_cons] at hnd
    rw [List.find?_cons]
    by_cases hx : x.1 = e.1
    · have hxe : x = e := by
        rcases List.mem_cons.mp he with h | h
        · exact h.symm
        · exact absurd (hx ▸ List.mem_map_of_mem h) hnd.1
      simp [hxe]
    · have : (x.1 == e.1) = false := by simpa using hx
      rw [this]
      rcases List.mem_cons.mp he with h | h
      · exact absurd (congrArg Prod.fst h).symm hx
      · exact ih hnd.2 h

theorem distOf_of_mem (T : List Entry) (hnd : (T.map (·.1)).Nodup) (e : Entry) (he : e ∈ T) :
    distOf T e.1 = e.2.1 := by
  unfold distOf; rw [find_of_mem T hnd e he]

theorem predOf_of_mem (T : List Entry) (hnd : (T.map (·.1)).Nodup) (e : Entry) (he : e ∈ T) :
    predOf T e.1 = e.2.2 := by
  unfold predOf; rw [find_of_mem T hnd e he]

/-- walks of a given length along tree edges through nodes -/
inductive TWalk (t : Tree) : Clique → Clique → Nat → Prop
  | nil (a : Clique) : TWalk t a a 0
  | cons {a b c : Clique} {n : Nat} : t.adj a b = true → b ∈ t.nodes → TWalk t b c n → TWalk t a c (n + 1)

theorem TWalk.snoc {t : Tree} {a b c : Clique} {n : Nat} (h : TWalk t a b n) (hadj : t.adj b c = true)
    (hc : c ∈ t.nodes) : TWalk t a c (n + 1) := by
  induction h with
  | nil a => exact TWalk.cons hadj hc (TWalk.nil c)
  | cons h1 h2 _ ih => exact TWalk.cons h1 h2 (ih hadj)

theorem TWalk.reverse {t : Tree} {a b : Clique} {n : Nat} (h : TWalk t a b n) (ha : a ∈ t.nodes) :
    TWalk t b a n := by
  induction h with
  | nil a => exact TWalk.nil a
  | cons h1 h2 _ ih =>
    exact (ih h2).snoc (by rw [tree_adj_symm]; exact h1) ha

section spec
variable {t : Tree} {src : Clique} {T : List Entry} (hS : BfsSpec t src T)
  (hall : ∀ n ∈ t.nodes, ∃ e ∈ T, e.1 = n)
include hS

theorem spec_dist_src : distOf T src = 0 :=
  distOf_of_mem T hS.keys_nodup _ hS.src_mem

include hall in
theorem spec_pred (n : Clique) (hn : n ∈ t.nodes) (hne : n ≠ src) :
    predOf T n ∈ t.nodes ∧ t.adj (predOf T n) n = true ∧ distOf T n = distOf T (predOf T n) + 1 := by
  obtain ⟨e, he, rfl⟩ := hall n hn
  obtain ⟨e', he', h1, h2, h3⟩ := hS.pred_ok e he hne
  rw [predOf_of_mem T hS.keys_nodup e he, distOf_of_mem T hS.keys_nodup e he, ← h1,
    distOf_of_mem T hS.keys_nodup e' he']
  exact ⟨hS.keys_nodes e' he', by rw [h1]; exact h3, h2.symm⟩

include hall in
theorem spec_lip (u v : Clique) (hu : u ∈ t.nodes) (hv : v ∈ t.nodes) (hadj : t.adj u v = true) :
    distOf T v ≤ distOf T u + 1 := by
  obtain ⟨e, he, rfl⟩ := hall u hu
  obtain ⟨e', he', rfl, h2⟩ := hS.closed e he v hv hadj
  rw [distOf_of_mem T hS.keys_nodup e he, distOf_of_mem T hS.keys_nodup e' he']
  exact h2

include hall in
theorem spec_dist_le_walk {a n : Clique} {k : Nat} (h : TWalk t a n k) (ha : a ∈ t.nodes) :
    distOf T n ≤ distOf T a + k := by
  induction h with
  | nil a => exact Nat.le_refl _
  | cons h1 h2 _ ih =>
    have := spec_lip hS hall _ _ ha h2 h1
    have := ih h2
    omega

include hall in
theorem spec_walk_of_dist (hsrc : src ∈ t.nodes) : ∀ (k : Nat) (n : Clique), n ∈ t.nodes → distOf T n = k →
    TWalk t src n k := by
  intro k
  induction k with
  | zero =>
    intro n hn hk
    by_cases hne : n = src
    · subst hne; exact TWalk.nil n
    · have := (spec_pred hS hall n hn hne).2.2
      omega
  | succ k ih =>
    intro n hn hk
    have hne : n ≠ src := by
      intro h; subst h
      rw [spec_dist_src hS] at hk
      omega
    obtain ⟨h1, h2, h3⟩ := spec_pred hS hall n hn hne
    exact (ih _ h1 (by omega)).snoc h2 hn

end spec

section tree
variable (t : Tree) (hnd : t.nodes.Nodup)
  (hconn : ∀ n ∈ t.nodes, ∀ m ∈ t.nodes, Conn t t.nodes n m)
include hnd hconn

theorem bfs_all_keys (src : Clique) (hsrc : src ∈ t.nodes) :
    ∀ n ∈ t.nodes, ∃ e ∈ bfs t src, e.1 = n := by
  have hS := bfs_spec t src hnd hsrc
  have key : ∀ n, Conn t t.nodes src n → ∃ e ∈ bfs t src, e.1 = n := by
    intro n hc
    induction hc with
    | refl => exact ⟨_, hS.src_mem, rfl⟩
    | @tail b c _ hstep ih =>
      obtain ⟨e, he, rfl⟩ := ih
      obtain ⟨e', he', h1, _⟩ := hS.closed e he c hstep.2 hstep.1
      exact ⟨e', he', h1⟩
  intro n hn
  exact key n (hconn src hsrc n hn)

theorem bfs_dist_symm (a b : Clique) (ha : a ∈ t.nodes) (hb : b ∈ t.nodes) :
    distOf (bfs t a) b = distOf (bfs t b) a := by
  have key : ∀ a b, a ∈ t.nodes → b ∈ t.nodes → distOf (bfs t a) b ≤ distOf (bfs t b) a := by
    intro a b ha hb
    have hSa := bfs_spec t a hnd ha
    have hSb := bfs_spec t b hnd hb
    have hw := spec_walk_of_dist hSb (bfs_all_keys t hnd hconn b hb) hb _ a ha rfl
    have := spec_dist_le_walk hSa (bfs_all_keys t hnd hconn a ha) (hw.reverse hb) ha
    rw [spec_dist_src hSa] at this
    omega
  exact Nat.le_antisymm (key a b ha hb) (key b a hb ha)

theorem bfs_pred (ci cj : Clique) (hi : ci ∈ t.nodes) (hj : cj ∈ t.nodes) (hne : cj ≠ ci) :
    predOf (bfs t ci) cj ∈ t.nodes ∧ t.adj (predOf (bfs t ci) cj) cj = true ∧
      distOf (bfs t ci) cj = distOf (bfs t ci) (predOf (bfs t ci) cj) + 1 :=
  spec_pred (bfs_spec t ci hnd hi) (bfs_all_keys t hnd hconn ci hi) cj hj hne

theorem bfs_dist_eq_zero (ci n : Clique) (hi : ci ∈ t.nodes) (hn : n ∈ t.nodes)
    (h : distOf (bfs t ci) n = 0) : n = ci := by
  by_contra hne
  have := (bfs_pred t hnd hconn ci n hi hn hne).2.2
  omega

end tree

/-! ### separation -/
open SimpleGraph in
theorem exists_side (t : Tree) (f : TreeFacts t)
    (hconn : ∀ n ∈ t.nodes, ∀ m ∈ t.nodes, Conn t t.nodes n m)
    (ci cj : Clique) (hi : ci ∈ t.nodes) (hj : cj ∈ t.nodes) (hne : cj ≠ ci) :
    ∃ r : Clique → Bool, r cj = true ∧ r (predOf (bfs t ci) cj) = false ∧ r ci = false ∧
      ∀ n ∈ t.nodes, ∀ m ∈ t.nodes, t.adj n m = true → r n = true → r m = false →
        n = cj ∧ m = predOf (bfs t ci) cj := by
  classical
  have hnd := f.nodes_nodup
  obtain ⟨hl, hadj, hdist⟩ := bfs_pred t hnd hconn ci cj hi hj hne
  generalize predOf (bfs t ci) cj = cl at hl hadj hdist
  have hlj : cl ≠ cj := by
    intro h; rw [h] at hdist; omega
  -- the bridge
  have hGadj : (Gind t t.nodes).Adj ⟨cl, hl⟩ ⟨cj, hj⟩ := (Gind_adj t t.nodes _ _).mpr ⟨hlj, hadj⟩
  have hbridge := isAcyclic_iff_forall_adj_isBridge.mp f.acyclic hGadj
  rw [isBridge_iff] at hbridge
  let H := (Gind t t.nodes).deleteEdges {s(⟨cl, hl⟩, ⟨cj, hj⟩)}
  have hHadj : ∀ (n m : Clique) (hn : n ∈ t.nodes) (hm : m ∈ t.nodes), n ≠ m → t.adj n m = true →
      ¬ ((n = cl ∧ m = cj) ∨ (n = cj ∧ m = cl)) → H.Adj ⟨n, hn⟩ ⟨m, hm⟩ := by
    intro n m hn hm hnm ha hnot
    rw [deleteEdges_adj]
    refine ⟨(Gind_adj t t.nodes _ _).mpr ⟨hnm, ha⟩, ?_⟩
    intro hmem
    rw [Set.mem_singleton_iff, Sym2.eq_iff] at hmem
    apply hnot
    rcases hmem with ⟨h1, h2⟩ | ⟨h1, h2⟩
    · exact Or.inl ⟨congrArg Subtype.val h1, congrArg Subtype.val h2⟩
    · exact Or.inr ⟨congrArg Subtype.val h1, congrArg Subtype.val h2⟩
  refine ⟨fun n => decide (∃ hn : n ∈ t.nodes, H.Reachable ⟨cj, hj⟩ ⟨n, hn⟩), ?_, ?_, ?_, ?_⟩
  · exact decide_eq_true ⟨hj, Reachable.refl _⟩
  · apply decide_eq_false
    rintro ⟨_, hr⟩
    exact hbridge hr.symm
  · -- `ci` is joined to `cl` by the predecessor chain, which never visits `cj`
    have hchain : ∀ (k : Nat) (n : Clique) (hn : n ∈ t.nodes), distOf (bfs t ci) n = k →
        k < distOf (bfs t ci) cj → H.Reachable ⟨ci, hi⟩ ⟨n, hn⟩ := by
      intro k
      induction k with
      | zero =>
        intro n hn hk _
        have := bfs_dist_eq_zero t hnd hconn ci n hi hn hk
        subst this
        exact Reachable.refl _
      | succ k ih =>
        intro n hn hk hlt
        have hnci : n ≠ ci := by
          intro h; subst h
          rw [spec_dist_src (bfs_spec t n hnd hi)] at hk
          omega
        obtain ⟨h1, h2, h3⟩ := bfs_pred t hnd hconn ci n hi hn hnci
        have hr := ih _ h1 (by omega) (by omega)
        refine hr.trans (Adj.reachable (hHadj _ _ h1 hn ?_ h2 ?_))
        · intro h; rw [h] at h3; omega
        · rintro (⟨_, h⟩ | ⟨h, _⟩)
          · rw [h] at hk; omega
          · rw [h] at h3; omega
    apply decide_eq_false
    rintro ⟨_, hr⟩
    exact hbridge ((hchain _ cl hl rfl (by omega)).symm.trans hr.symm |>.symm |>.symm)
  · intro n hn m hm ha hrn hrm
    have hrn' := of_decide_eq_true hrn
    have hrm' := of_decide_eq_false hrm
    obtain ⟨_, hr⟩ := hrn'
    have hnm : n ≠ m := by
      intro h; subst h
      exact hrm' ⟨hm, hr⟩
    by_cases hcase : (n = cl ∧ m = cj) ∨ (n = cj ∧ m = cl)
    · rcases hcase with ⟨h1, h2⟩ | ⟨h1, h2⟩
      · exfalso
        subst h1
        exact hbridge hr.symm
      · exact ⟨h1, h2⟩
    · exfalso
      exact hrm' ⟨hm, hr.trans (Adj.reachable (hHadj n m hn hm hnm ha hcase))⟩

end PGM.GM
