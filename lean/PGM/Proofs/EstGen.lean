import PGM.Generated.EstimateG
import PGM.Model.Engine
/-!
# Helper definitions and lemmas for the translator tie of the estimator shell (`tools/py2est.py`)

`PGM/Generated/EstimateG.lean` (regenerated on every run) is related here to the state machine
`PGM/Model/Engine.lean`.  Core Lean only.
-/
namespace PGM.EstGen
open PGM PGM.EstG
variable {α : Type} [Scalar α] {V Cb : Type}
set_option linter.unusedSectionVars false

/-! ### the projection of the generated records onto the state machine's -/

/-- a generated model object as a model of the state machine (forgets the constructor arguments) -/
def toModel (g : GM α) : Engine.Model α := ⟨g.cliques, g.potentials, g.marginals, g.total⟩
/-- the configuration fields the state machine knows -/
def cfgOf (c : Cfg α) : Engine.Config α := ⟨c.domain, c.iters, c.warm_start, c.structural_zeros⟩
def toState (s : Est α) : Engine.State α := ⟨s.model.map toModel⟩

/-- the clique list `_setup` hands to the `GraphicalModel` constructor: measured projections, then the zero keys -/
def inCliques (c : Cfg α) (ms : List (Loss.Meas α)) : List JT.Clique :=
  ms.map (fun m => m.proj) ++ c.structural_zeros.map Prod.fst
/-- `model.cliques` -/
def modelCliques (gmC : Dom → List JT.Clique → Option (List Attr) → List JT.Clique) (c : Cfg α)
    (ms : List (Loss.Meas α)) : List JT.Clique := gmC c.domain (inCliques c ms) c.elim_order
/-- the total `_setup` uses: the given one, else the estimate -/
def totalOf (estT : List (Loss.Meas α) → α) (ms : List (Loss.Meas α)) (t : Option α) : α :=
  match t with | none => estT ms | some t => t
/-- the model object `_setup` stores, as a function of its initial parameters -/
def newGM (gmC : Dom → List JT.Clique → Option (List Attr) → List JT.Clique) (c : Cfg α)
    (ms : List (Loss.Meas α)) (tot : α) (θ : CliqueVec α) : GM α :=
  ⟨c.domain, inCliques c ms, c.elim_order, modelCliques gmC c ms, tot, θ, none⟩
/-- the initial parameters of a call: the state machine's `initialTheta` -/
def theta0 (gmC : Dom → List JT.Clique → Option (List Attr) → List JT.Clique) (s : Est α)
    (ms : List (Loss.Meas α)) : CliqueVec α :=
  Engine.initialTheta (cfgOf s.cfg) (modelCliques gmC s.cfg ms) (toState s)

/-- `_setup`, closed form: the configuration is untouched, the model is a NEW object whose parameters are
`Engine.initialTheta`, the groups are rebuilt from this call's measurements alone -/
theorem setup_eq (gmC : Dom → List JT.Clique → Option (List Attr) → List JT.Clique)
    (estT : List (Loss.Meas α) → α) (s : Est α) (ms : List (Loss.Meas α)) (t : Option α) :
    setup gmC estT s ms t =
      ⟨s.cfg, some (newGM gmC s.cfg ms (totalOf estT ms t) (theta0 gmC s ms)),
        some (InfG.setupGroups s.cfg.domain (modelCliques gmC s.cfg ms) ms)⟩ := by
  obtain ⟨c, m, g⟩ := s
  cases hw : c.warm_start <;> cases m <;> cases t <;>
    simp [setup, newGM, theta0, Engine.initialTheta, cfgOf, toState, toModel, modelCliques, inCliques, totalOf, hw]

theorem initialTheta_cold (cfg : Engine.Config α) (cl : List JT.Clique) (st st' : Engine.State α)
    (h : cfg.warmStart = false) : Engine.initialTheta cfg cl st = Engine.initialTheta cfg cl st' := by
  simp [Engine.initialTheta, h]

/-! ### solver methods -/

/-- a solver method that is `self._setup(measurements, total)` followed by a run that reads the configuration, the
fresh model object, the call's measurements and options, and writes the model object only -/
def FactorsThrough (gmC : Dom → List JT.Clique → Option (List Attr) → List JT.Clique)
    (estT : List (Loss.Meas α) → α) (solver : Est α → List (Loss.Meas α) → Option α → Opts V → Est α)
    (run : Cfg α → GM α → List (Loss.Meas α) → Opts V → GM α) : Prop :=
  ∀ s ms t o, solver s ms t o =
    { setup gmC estT s ms t with model := (setup gmC estT s ms t).model.map (fun g => run (setup gmC estT s ms t).cfg g ms o) }

/-- the options dict the solver receives (callback plumbing of `estimate`) -/
def optionsOf (logger : V) (cbVal : Option Cb → V) (log : Bool) (callback : Option Cb) (o : Opts V) : Opts V :=
  if callback.isNone && log then optSet (optSet o "callback" (cbVal callback)) "callback" logger
  else optSet o "callback" (cbVal callback)

/-- engine dispatch -/
def runOf {β : Type} (rMD rRDA rIG : β) (engine : String) : β :=
  if engine == "MD" then rMD else if engine == "RDA" then rRDA else rIG

def ValidEngine (e : String) : Prop := e = "MD" ∨ e = "RDA" ∨ e = "IG"

/-- the arguments of one `estimate` call -/
structure Args (α V Cb : Type) where
  measurements : List (RawMeas α)
  total : Option α
  engine : String
  callback : Option Cb
  options : Opts V

section est
variable (gmC : Dom → List JT.Clique → Option (List Attr) → List JT.Clique) (estT : List (Loss.Meas α) → α)
  (logger : V) (cbVal : Option Cb → V)
  (md rda ig : Est α → List (Loss.Meas α) → Option α → Opts V → Est α)
  (rMD rRDA rIG : Cfg α → GM α → List (Loss.Meas α) → Opts V → GM α)

/-- the model object one call returns, as a function of the configuration, the arguments and the initial parameters -/
def resultGM (c : Cfg α) (a : Args α V Cb) (θ : CliqueVec α) : GM α :=
  let ms := fixMeasurements c.domain a.measurements
  runOf rMD rRDA rIG a.engine c (newGM gmC c ms (totalOf estT ms a.total) θ) ms
    (optionsOf logger cbVal c.log a.callback a.options)

/-- `cliquesOf` of the state machine -/
def cliquesOfG (c : Cfg α) (a : Args α V Cb) : List JT.Clique :=
  modelCliques gmC c (fixMeasurements c.domain a.measurements)

/-- `build` of the state machine -/
def buildG (c : Cfg α) : Engine.Config α → Args α V Cb → CliqueVec α → Engine.Model α :=
  fun _ a θ => toModel (resultGM gmC estT logger cbVal rMD rRDA rIG c a θ)

/-- `estimate`, closed form (valid engine name, solver methods of the `_setup`-then-run shape) -/
theorem estimate_eq (hmd : FactorsThrough gmC estT md rMD) (hrda : FactorsThrough gmC estT rda rRDA)
    (hig : FactorsThrough gmC estT ig rIG) (s : Est α) (a : Args α V Cb) (he : ValidEngine a.engine) :
    estimate logger cbVal md rda ig s a.measurements a.total a.engine a.callback a.options =
      (let ms := fixMeasurements s.cfg.domain a.measurements
       let g := resultGM gmC estT logger cbVal rMD rRDA rIG s.cfg a (theta0 gmC s ms)
       (⟨s.cfg, some g, some (InfG.setupGroups s.cfg.domain (modelCliques gmC s.cfg ms) ms)⟩,
        optionsOf logger cbVal s.cfg.log a.callback a.options, some g)) := by
  obtain ⟨ms, tot, e, cb, o⟩ := a
  rcases he with he | he | he <;> simp only [] at he <;> subst he
  · simp only [estimate, hmd _ _ _ _, setup_eq, resultGM, runOf, optionsOf]; simp [Bool.and_comm]
  · simp only [estimate, hrda _ _ _ _, setup_eq, resultGM, runOf, optionsOf]; simp [Bool.and_comm]
  · simp only [estimate, hig _ _ _ _, setup_eq, resultGM, runOf, optionsOf]; simp [Bool.and_comm]

end est

/-! ### `Factor.active`: the advanced-index store -/

theorem range_map_getD {β : Type} (l : List β) (z : β) : (List.range l.length).map (fun k => l.getD k z) = l := by
  apply List.ext_getElem
  · simp
  · intro i h1 h2
    simp at h1
    simp [List.getD_eq_getElem?_getD, h1]

theorem idxCells_of_head (idx : List (List Nat)) (n : Nat) (h : idx.head?.map List.length = some n) :
    idxCells idx = (List.range n).map (fun j => idx.map (fun col => col.getD j 0)) := by
  cases idx with
  | nil => simp at h
  | cons c t => simp at h; subst h; rfl

theorem npArrayT_of_head (cells : List (List Nat)) (r : Nat) (h : cells.head?.map List.length = some r) :
    npArrayT cells = (List.range r).map (fun k => cells.map (fun x => x.getD k 0)) := by
  cases cells with
  | nil => simp at h
  | cons c t => simp at h; subst h; rfl

/-- transposing the list of cells into index arrays and reading the addressed cells back is the identity, for a non-empty
list of cells of one positive width -/
theorem idxCells_npArrayT (cells : List (List Nat)) (r : Nat) (hr : 0 < r) (hne : cells ≠ [])
    (hlen : ∀ c ∈ cells, c.length = r) : idxCells (npArrayT cells) = cells := by
  have hh : cells.head?.map List.length = some r := by
    cases cells with
    | nil => exact absurd rfl hne
    | cons c t => simp [hlen c (by simp)]
  rw [npArrayT_of_head cells r hh]
  have hh2 : ((List.range r).map (fun k => cells.map (fun x => x.getD k 0))).head?.map List.length = some cells.length := by
    obtain ⟨r', rfl⟩ : ∃ r', r = r' + 1 := ⟨r - 1, by omega⟩
    simp [List.range_succ_eq_map]
  rw [idxCells_of_head _ _ hh2]
  apply List.ext_getElem
  · simp
  · intro j h1 h2
    simp only [List.getElem_map, List.getElem_range, List.map_map]
    have hj : cells[j].length = r := hlen _ (List.getElem_mem h2)
    have e : (List.range r).map (fun k => cells[j].getD k 0) = cells[j] := by
      rw [← hj]; exact range_map_getD _ _
    refine Eq.trans ?_ e
    apply List.map_congr_left
    intro k _
    simp [Function.comp, List.getD_eq_getElem?_getD, h2]

theorem npArrayT_isEmpty (cells : List (List Nat)) (r : Nat) (hr : 0 < r) (hne : cells ≠ [])
    (hlen : ∀ c ∈ cells, c.length = r) : (npArrayT cells).isEmpty = false := by
  cases cells with
  | nil => exact absurd rfl hne
  | cons c t =>
    have : c.length = r := hlen c (by simp)
    obtain ⟨r', rfl⟩ : ∃ r', r = r' + 1 := ⟨r - 1, by omega⟩
    simp [npArrayT, this, List.range_succ_eq_map]

theorem ofFn_congr (s : List Nat) (f g : List Nat → α) (h : ∀ i ∈ cells s, f i = g i) :
    NdArr.ofFn s f = NdArr.ofFn s g := by
  unfold NdArr.ofFn
  rw [List.map_congr_left h]

theorem const_get (s : List Nat) (z : α) (i : List Nat) (h : i ∈ cells s) : (NdArr.const s z).get i = z := by
  have hlt := ravel_lt s i (mem_cells_inRange s i h)
  simp [NdArr.get, NdArr.const, Array.getD, hlt]

theorem const_eq_ofFn (s : List Nat) (z : α) : NdArr.const s z = NdArr.ofFn s (fun _ => z) := by
  simp [NdArr.const, NdArr.ofFn, List.map_const', length_cells]

/-- an EMPTY list of cells: the guard `len(structural_zeros) > 0` skips the store, nothing is declared impossible -/
theorem active_nil (negInf : α) (d : Dom) : EstG.active negInf d [] = Factor.active negInf d [] := by
  simp [EstG.active, Factor.active, const_eq_ofFn]

/-- **`Factor.active`**: the generated reading (`np.zeros`; under `len(cells) > 0`: transpose, advanced-index store) is the
hand model's indicator table — for every list of cells, each with one coordinate per attribute of the domain -/
theorem active_eq (negInf : α) (d : Dom) (cs : List (List Nat))
    (hlen : ∀ c ∈ cs, c.length = d.length) : EstG.active negInf d cs = Factor.active negInf d cs := by
  cases cs with
  | nil => exact active_nil negInf d
  | cons c0 t =>
    have hne : c0 :: t ≠ [] := List.cons_ne_nil _ _
    have hpos : decide ((c0 :: t).length > 0) = true := by simp
    unfold EstG.active Factor.active fancyStore
    simp only [hpos, if_true]
    congr 1
    by_cases hr : 0 < d.length
    · simp only [idxCells_npArrayT (c0 :: t) d.length hr hne hlen, npArrayT_isEmpty (c0 :: t) d.length hr hne hlen,
        Bool.false_or]
      apply ofFn_congr
      intro i hi
      by_cases hc : i ∈ c0 :: t
      · simp [hc]
      · simp only [List.contains_iff_mem, hc, if_false]
        exact const_get _ _ _ hi
    · -- a domain without attributes: one cell `()`, which every (necessarily empty) declared cell is
      have hd : d = [] := List.eq_nil_of_length_eq_zero (by omega)
      subst hd
      have hc0 : c0 = [] := List.eq_nil_of_length_eq_zero (by simpa using hlen c0 (by simp))
      subst hc0
      apply ofFn_congr
      intro i hi
      have hi' : i = [] := by simpa [NdArr.const, Dom.shape, cells] using hi
      subst hi'
      simp [npArrayT]

/-! ### `__init__`: the structural-zero vector -/

theorem dictGet_mem (zs : List (JT.Clique × List (List Nat))) (hnd : (zs.map Prod.fst).Nodup)
    (z : JT.Clique × List (List Nat)) (hz : z ∈ zs) : dictGet zs z.1 = z.2 := by
  induction zs with
  | nil => cases hz
  | cons p ps ih =>
    simp only [List.map_cons, List.nodup_cons] at hnd
    rcases List.mem_cons.mp hz with rfl | h
    · simp [dictGet, List.lookup]
    · have hne : (z.1 == p.1) = false := by
        apply beq_false_of_ne
        intro e
        exact hnd.1 (e ▸ List.mem_map_of_mem (f := Prod.fst) h)
      have := ih hnd.2 h
      simp only [dictGet, List.lookup, hne] at this ⊢
      exact this

theorem foldl_set (f : JT.Clique → Factor α) (ks : List JT.Clique) (acc : CliqueVec α) (hnd : ks.Nodup)
    (hdis : ∀ k ∈ ks, k ∉ acc.map Prod.fst) :
    ks.foldl (fun acc k => CliqueVec.set acc k (f k)) acc = acc ++ ks.map (fun k => (k, f k)) := by
  induction ks generalizing acc with
  | nil => simp
  | cons k ks ih =>
    simp only [List.nodup_cons] at hnd
    have hk : acc.any (fun p => p.1 == k) = false := by
      rw [List.any_eq_false]
      intro p hp
      have : k ∉ acc.map Prod.fst := hdis k (by simp)
      intro e
      exact this (by simpa using ⟨p.2, (by simpa using e) ▸ hp⟩)
    rw [List.foldl_cons, CliqueVec.set, if_neg (by simp [hk]), ih _ hnd.2]
    · simp
    · intro k' hk'
      simp only [List.map_append, List.map_cons, List.map_nil, List.mem_append, List.mem_singleton, not_or]
      exact ⟨hdis k' (by simp [hk']), fun e => hnd.1 (e ▸ hk')⟩

/-- `__init__`: one indicator factor per key of the zero specification (a dict: distinct keys), in its order -/
theorem init_zeros (negInf : α) (d : Dom) (zs : List (JT.Clique × List (List Nat))) (m : Metric) (lg : Bool)
    (it : Nat) (w : Bool) (eo : Option (List Attr)) (hnd : (zs.map Prod.fst).Nodup) :
    (init negInf d zs m lg it w eo).cfg.structural_zeros
      = zs.map (fun z => (z.1, EstG.active negInf (d.project z.1) z.2)) := by
  show (zs.map Prod.fst).foldl (fun acc cl => CliqueVec.set acc cl (EstG.active negInf (Dom.project d cl) (dictGet zs cl)))
    ([] : CliqueVec α) = _
  rw [foldl_set (fun cl => EstG.active negInf (Dom.project d cl) (dictGet zs cl)) _ _ hnd (by simp), List.nil_append,
    List.map_map]
  apply List.map_congr_left
  intro z hz
  simp [Function.comp, dictGet_mem zs hnd z hz]

end PGM.EstGen
