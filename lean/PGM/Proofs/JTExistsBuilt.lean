import PGM.Proofs.JTWeightReach
import PGM.Proofs.JTWeightCount
import Mathlib.Logic.Relation
/-!
# Trees built by attaching leaves with the running-intersection property

`Built ns es`: the node list `ns` and the edge list `es` arise from a single node by repeatedly
attaching a fresh leaf `c` to an existing node `k` such that every attribute of `c` that already
occurs in the tree occurs in `k` (the *running intersection* condition in its sequential form).
Such a tree is accepted by `isTree` and `rip`, for any ordering of the node list.
-/
namespace PGM.JT
open SimpleGraph Relation

inductive Built : List Clique → List (Clique × Clique) → Prop
  | single (n : Clique) : Built [n] []
  | leaf {ns : List Clique} {es : List (Clique × Clique)} (c k : Clique) :
      Built ns es → k ∈ ns → c ∉ ns →
      (∀ a ∈ c, ∀ n ∈ ns, a ∈ n → a ∈ k) → Built (c :: ns) ((c, k) :: es)

theorem Built.nodup {ns es} (h : Built ns es) : ns.Nodup := by
  induction h with
  | single n => simp
  | leaf c k _ _ hc _ ih => exact List.nodup_cons.mpr ⟨hc, ih⟩

theorem Built.length {ns es} (h : Built ns es) : es.length + 1 = ns.length := by
  induction h with
  | single n => simp
  | leaf c k _ _ _ _ ih => simp [ih]

theorem Built.ne_nil {ns es} (h : Built ns es) : ns ≠ [] := by
  cases h <;> simp

theorem Built.ends {ns es} (h : Built ns es) : ∀ e ∈ es, e.1 ∈ ns ∧ e.2 ∈ ns ∧ e.1 ≠ e.2 := by
  induction h with
  | single n => simp
  | leaf c k _ hk hc _ ih =>
    intro e he
    rcases List.mem_cons.mp he with rfl | he
    · refine ⟨by simp, by simp [hk], ?_⟩
      intro (h : c = k)
      subst h
      exact hc hk
    · obtain ⟨h1, h2, h3⟩ := ih e he
      exact ⟨by simp [h1], by simp [h2], h3⟩

/-- one step along a listed edge between two nodes of `S` -/
def Step (es : List (Clique × Clique)) (S : Clique → Prop) (u w : Clique) : Prop :=
  u ≠ w ∧ ((u, w) ∈ es ∨ (w, u) ∈ es) ∧ S u ∧ S w

theorem Step.symm {es S u w} (h : Step es S u w) : Step es S w u :=
  ⟨h.1.symm, h.2.1.symm, h.2.2.2, h.2.2.1⟩

theorem rtg_step_symm {es S u w} (h : ReflTransGen (Step es S) u w) :
    ReflTransGen (Step es S) w u := by
  induction h with
  | refl => exact ReflTransGen.refl
  | tail _ hbc ih => exact ReflTransGen.head hbc.symm ih

/-- any set of nodes closed under "leaf and something older ⇒ parent" is connected in itself -/
theorem Built.conn (P : Clique → Prop)
    (hP : ∀ (c k : Clique) (ns : List Clique), (∀ a ∈ c, ∀ n ∈ ns, a ∈ n → a ∈ k) →
      P c → (∃ n ∈ ns, P n) → P k)
    {ns es} (h : Built ns es) :
    ∀ x ∈ ns, ∀ y ∈ ns, P x → P y → ReflTransGen (Step es (fun n => n ∈ ns ∧ P n)) x y := by
  induction h with
  | single n =>
    intro x hx y hy _ _
    have hx' : x = n := by simpa using hx
    have hy' : y = n := by simpa using hy
    subst hx'; subst hy'
    exact ReflTransGen.refl
  | @leaf ns es c k hb hk hc hri ih =>
    have mono : ∀ u w, ReflTransGen (Step es (fun n => n ∈ ns ∧ P n)) u w →
        ReflTransGen (Step ((c, k) :: es) (fun n => n ∈ c :: ns ∧ P n)) u w := by
      intro u w huw
      refine ReflTransGen.mono ?_ _ _ huw
      rintro a b ⟨h1, h2, ⟨h3, h3'⟩, ⟨h4, h4'⟩⟩
      refine ⟨h1, ?_, ⟨by simp [h3], h3'⟩, ⟨by simp [h4], h4'⟩⟩
      rcases h2 with h2 | h2
      · exact Or.inl (by simp [h2])
      · exact Or.inr (by simp [h2])
    have key : ∀ y ∈ ns, P c → P y →
        ReflTransGen (Step ((c, k) :: es) (fun n => n ∈ c :: ns ∧ P n)) c y := by
      intro y hy hPc hPy
      have hPk : P k := hP c k ns hri hPc ⟨y, hy, hPy⟩
      have hck : c ≠ k := by rintro rfl; exact hc hk
      refine ReflTransGen.head ?_ (mono _ _ (ih k hk y hy hPk hPy))
      exact ⟨hck, Or.inl (by simp), ⟨by simp, hPc⟩, ⟨by simp [hk], hPk⟩⟩
    intro x hx y hy hPx hPy
    rcases List.mem_cons.mp hx with hxc | hx <;> rcases List.mem_cons.mp hy with hyc | hy
    · rw [hxc, hyc]
    · rw [hxc] at hPx ⊢
      exact key y hy hPx hPy
    · rw [hyc] at hPy ⊢
      exact rtg_step_symm (key x hx hPy hPx)
    · exact mono _ _ (ih x hx y hy hPx hPy)


theorem reachable_of_steps (t : Tree) (l : List Clique) {x y : Clique}
    (h : ReflTransGen (Step t.edges (· ∈ l)) x y) :
    ∀ (hx : x ∈ l) (hy : y ∈ l), (Gind t l).Reachable ⟨x, hx⟩ ⟨y, hy⟩ := by
  induction h with
  | refl => intro hx hy; exact Reachable.refl _
  | @tail b c _ hbc ih =>
    intro hx hy
    have hb : b ∈ l := hbc.2.2.1
    refine (ih hx hb).trans (Adj.reachable ?_)
    rw [Gind_adj]
    refine ⟨hbc.1, ?_⟩
    simpa [Tree.adj] using hbc.2.1

theorem connected_of_steps (t : Tree) (l : List Clique) (hne : l ≠ [])
    (h : ∀ x ∈ l, ∀ y ∈ l, ReflTransGen (Step t.edges (· ∈ l)) x y) :
    (Gind t l).Connected := by
  obtain ⟨a, ha⟩ := List.exists_mem_of_ne_nil l hne
  rw [connected_iff_exists_forall_reachable]
  exact ⟨⟨a, ha⟩, fun w => reachable_of_steps t l (h a ha w.1 w.2) ha w.2⟩

theorem connectedWithin_of_steps (t : Tree) (l : List Clique) (hnd : l.Nodup)
    (h : ∀ x ∈ l, ∀ y ∈ l, ReflTransGen (Step t.edges (· ∈ l)) x y) :
    connectedWithin t l = true := by
  by_cases hne : l = []
  · subst hne; rfl
  · exact (connectedWithin_iff t l hnd hne).mpr (connected_of_steps t l hne h)

/-- a leaf-built tree is accepted by the executable checks, whatever the order of the node list -/
theorem Built.isTree_rip (attrs : List Attr) {ns es} (nodes : List Clique) (hb : Built ns es)
    (hperm : ns.Perm nodes) :
    isTree ⟨nodes, es⟩ = true ∧ rip attrs ⟨nodes, es⟩ = true := by
  have hnd : nodes.Nodup := hperm.nodup_iff.mp hb.nodup
  constructor
  · simp only [isTree, Bool.and_eq_true, List.all_eq_true, List.contains_iff_mem, beq_iff_eq,
      bne_iff_ne, ne_eq]
    refine ⟨⟨⟨(nodup_iffW _).mpr hnd, ?_⟩, ?_⟩, ?_⟩
    · rw [hb.length, hperm.length_eq]
    · intro e he
      obtain ⟨h1, h2, h3⟩ := hb.ends e he
      exact ⟨⟨hperm.mem_iff.mp h1, hperm.mem_iff.mp h2⟩, h3⟩
    · apply connectedWithin_of_steps _ _ hnd
      intro x hx y hy
      have := hb.conn (fun _ => True) (fun _ _ _ _ _ _ => trivial) x (hperm.mem_iff.mpr hx)
        y (hperm.mem_iff.mpr hy) trivial trivial
      refine ReflTransGen.mono ?_ _ _ this
      rintro a b ⟨h1, h2, h3, h4⟩
      exact ⟨h1, h2, hperm.mem_iff.mp h3.1, hperm.mem_iff.mp h4.1⟩
  · simp only [rip, List.all_eq_true]
    intro a _
    apply connectedWithin_of_steps _ _ (hnd.filter _)
    intro x hx y hy
    simp only [List.mem_filter, List.contains_iff_mem] at hx hy
    have := hb.conn (fun n => a ∈ n)
      (fun c k ns h hc hn => by obtain ⟨n, hn, han⟩ := hn; exact h a hc n hn han)
      x (hperm.mem_iff.mpr hx.1) y (hperm.mem_iff.mpr hy.1) hx.2 hy.2
    refine ReflTransGen.mono ?_ _ _ this
    rintro u w ⟨h1, h2, h3, h4⟩
    refine ⟨h1, h2, ?_, ?_⟩
    · simp only [List.mem_filter, List.contains_iff_mem]
      exact ⟨hperm.mem_iff.mp h3.1, h3.2⟩
    · simp only [List.mem_filter, List.contains_iff_mem]
      exact ⟨hperm.mem_iff.mp h4.1, h4.2⟩

/-- renaming the nodes of a leaf-built tree: nodes may only grow, and whatever two distinct
renamed nodes share they already shared before -/
theorem Built.map (φ : Clique → Clique) {ns es} (hb : Built ns es)
    (H1 : ∀ n ∈ ns, ∀ a ∈ n, a ∈ φ n)
    (H2 : ∀ n ∈ ns, ∀ m ∈ ns, n ≠ m → ∀ a, a ∈ φ n → a ∈ φ m → a ∈ n ∧ a ∈ m)
    (H3 : ∀ n ∈ ns, ∀ m ∈ ns, φ n = φ m → n = m) :
    Built (ns.map φ) (es.map (fun e => (φ e.1, φ e.2))) := by
  induction hb with
  | single n => exact Built.single _
  | @leaf ns es c k hb hk hc hri ih =>
    simp only [List.map_cons]
    refine Built.leaf (φ c) (φ k)
      (ih (fun n hn => H1 n (by simp [hn]))
        (fun n hn m hm => H2 n (by simp [hn]) m (by simp [hm]))
        (fun n hn m hm => H3 n (by simp [hn]) m (by simp [hm])))
      (List.mem_map_of_mem hk) ?_ ?_
    · intro hmem
      obtain ⟨n, hn, hnc⟩ := List.mem_map.mp hmem
      have := H3 n (by simp [hn]) c (by simp) hnc
      subst this
      exact hc hn
    · intro a ha m hm ham
      obtain ⟨n, hn, rfl⟩ := List.mem_map.mp hm
      have hcn : c ≠ n := by rintro rfl; exact hc hn
      obtain ⟨h1, h2⟩ := H2 c (by simp) n (by simp [hn]) hcn a ha ham
      exact H1 k (by simp [hk]) a (hri a h1 n hn h2)

end PGM.JT
