import PGM.Proofs.GMQSynthTable
import PGM.Proofs.GMQSynth
import PGM.Proofs.GMQSupportDefs
import PGM.Proofs.GMQSupport
/-!
# the generated `synthetic_data` in ROUNDING mode: from the per-slice hypothesis `hlen` to the support induction

`Proofs/GMQSynthTable.lean` ties the generated loop to `Synth.synthTable` under `hlen` (every call of `synthetic_col` returns as
many values as asked, for EVERY slice) — false in rounding mode for slices of mass zero.  Here the loop is run a second time with
the PATCHED column function `patch sc` (`sc` on slices that are `CountsOK`, `n` zeros otherwise), for which `hlen` holds; the two
runs are the same as soon as every slice actually used is `CountsOK` (`order_both`: one induction producing the model's outcome
lists for the patched run and the implication `UsedGood P → real run = patched run`).  That every used slice is `CountsOK` is the
support induction of `Proofs/GMQSupport.lean` (model level).
-/
namespace PGM.GMQGen
open PGM PGM.Synth PGM.Synth.Table
set_option linter.unusedVariables false

variable {G : Type}

/-! ### the patched column function -/

open Classical in
/-- `sc` on slices with nonnegative entries and positive mass, `n` zeros (generator untouched) elsewhere -/
noncomputable def patch (sc : List Rat → Nat → G → List Nat × G) : List Rat → Nat → G → List Nat × G :=
  fun counts n g => if CountsOK counts then sc counts n g else (List.replicate n 0, g)

theorem patch_good (sc : List Rat → Nat → G → List Nat × G) (counts : List Rat) (h : CountsOK counts) (n : Nat) (g : G) :
    sc counts n g = patch sc counts n g := by
  unfold patch; rw [if_pos h]

theorem patch_length (sc : List Rat → Nat → G → List Nat × G)
    (hl : ∀ counts, CountsOK counts → ∀ n g, (sc counts n g).1.length = n) :
    ∀ counts n g, (patch sc counts n g).1.length = n := by
  intro counts n g
  unfold patch
  split
  · exact hl counts ‹_› n g
  · simp

/-! ### congruence of one column step -/

theorem foldl_congr_mem_round {σ ι : Type} (f f' : σ → ι → σ) (l : List ι) (h : ∀ a ∈ l, ∀ s, f s a = f' s a) (s : σ) :
    l.foldl f s = l.foldl f' s := by
  induction l generalizing s with
  | nil => rfl
  | cons a l ih =>
    rw [List.foldl_cons, List.foldl_cons, h a List.mem_cons_self s]
    exact ih (fun b hb => h b (List.mem_cons_of_mem _ hb)) _

/-- two column functions that agree on the slices a step uses give the same step -/
theorem colStep_congr (project : List Attr → Factor Rat)
    (groupby : GMQ.DF → List Attr → List (List Nat × List Nat)) (hgb : GroupbyOK groupby)
    (sc sc' : List Rat → Nat → G → List Nat × G) (col : Attr) (proj : List Attr) (df : GMQ.DF) (g : G)
    (h1 : ∀ k ∈ groupKeys (specOf project df.cols col proj).proj df.rows, ∀ n g,
      sc ((specOf project df.cols col proj).cond k) n g = sc' ((specOf project df.cols col proj).cond k) n g)
    (h2 : (specOf project df.cols col proj).proj = [] → ∀ n g,
      sc ((specOf project df.cols col proj).cond []) n g = sc' ((specOf project df.cols col proj).cond []) n g) :
    colStep project groupby sc col proj (df, g) = colStep project groupby sc' col proj (df, g) := by
  by_cases hp : proj.length ≥ 1
  · unfold colStep
    rw [if_pos (by simpa using hp), if_pos (by simpa using hp), hgb, groupbySpec_eq]
    apply foldl_congr_mem_round
    intro ig hig st
    obtain ⟨k, hk, rfl⟩ := List.mem_map.1 hig
    unfold groupStep
    have := h1 k hk (rowsWith (posOf df.cols proj) k df.rows).length st.2
    simp only [specOf] at this
    simp only [this]
  · have hp' : proj = [] := List.length_eq_zero_iff.1 (by omega)
    subst hp'
    unfold colStep
    rw [if_neg (by simp), if_neg (by simp)]
    have := h2 (by simp [specOf, posOf]) df.rows.length g
    simp only [specOf] at this
    simp only [this]

/-! ### the loop, both runs at once -/

/-- the loop `for col in order[1:]` run with `sc'` (for which `hlen` holds) is the model's run for some outcome lists, and the
run with `sc` is the same run as soon as the slices used (by the model's run) are slices on which `sc` and `sc'` agree -/
theorem loop_both (project : List Attr → Factor Rat) (set_order : List Attr → List Attr)
    (hso : ∀ s, (set_order s).Perm s)
    (groupby : GMQ.DF → List Attr → List (List Nat × List Nat)) (hgb : GroupbyOK groupby)
    (sc sc' : List Rat → Nat → G → List Nat × G) (hlen : ∀ counts n g, (sc' counts n g).1.length = n)
    (P : List Rat → Prop) (hagree : ∀ counts, P counts → ∀ n g, sc counts n g = sc' counts n g)
    (cliques : List JT.Clique) (cols : List Attr) :
    ∀ (rest : List Attr) (used : List Attr) (marg : NdArr Rat) (df : GMQ.DF) (g : G),
      df.cols = cols → (∀ a ∈ rest, a ∈ cols) → (∀ a ∈ rest, a ∉ used) → rest.Nodup →
      ∃ outs,
        (rest.foldl (loopStep project set_order groupby sc' cliques) (used, marg, df, g)).2.2.1.cols = cols ∧
        (rest.foldl (loopStep project set_order groupby sc' cliques) (used, marg, df, g)).2.2.1.rows
          = run ((stepsFrom set_order cliques used rest).map (fun s => specOf project cols s.1 s.2)) outs df.rows ∧
        OutsFact sc' ((stepsFrom set_order cliques used rest).map (fun s => specOf project cols s.1 s.2)) outs df.rows ∧
        (UsedGood P ((stepsFrom set_order cliques used rest).map (fun s => specOf project cols s.1 s.2)) outs df.rows →
          rest.foldl (loopStep project set_order groupby sc cliques) (used, marg, df, g)
            = rest.foldl (loopStep project set_order groupby sc' cliques) (used, marg, df, g)) := by
  intro rest
  induction rest with
  | nil =>
    intro used marg df g hcols _ _ _
    exact ⟨[], hcols, rfl, trivial, fun _ => rfl⟩
  | cons col rest ih =>
    intro used marg df g hcols hin hdisj hnd
    have hcolin : col ∈ cols := hin col List.mem_cons_self
    have hcu : col ∉ used := hdisj col List.mem_cons_self
    have hcp : col ∉ projOf set_order cliques used col :=
      fun h => hcu (projOf_sub set_order hso cliques used col col h)
    have hc : df.cols.idxOf col ∉ posOf df.cols (projOf set_order cliques used col) := by
      rw [hcols]; exact idxOf_notMem_posOf cols col hcolin _ hcp
    obtain ⟨hcols', o, hrows, hfact⟩ := colStep_spec project groupby hgb sc' hlen col
      (projOf set_order cliques used col) df g hc
    rw [List.nodup_cons] at hnd
    obtain ⟨outs, h1, h2, h3, h4⟩ := ih (JT.union used [col])
      (Factor.vals (project (projOf set_order cliques used col ++ [col])))
      (colStep project groupby sc' col (projOf set_order cliques used col) (df, g)).1
      (colStep project groupby sc' col (projOf set_order cliques used col) (df, g)).2
      (hcols'.trans hcols) (fun a ha => hin a (List.mem_cons_of_mem _ ha))
      (by
        intro a ha hm
        rcases (mem_union used [col] a).1 hm with h | h
        · exact hdisj a (List.mem_cons_of_mem _ ha) h
        · rw [List.mem_singleton] at h
          exact hnd.1 (h ▸ ha))
      hnd.2
    rw [hcols] at hrows hfact
    refine ⟨o :: outs, h1, ?_, ?_, ?_⟩
    · rw [hrows] at h2
      exact h2
    · rw [hrows] at h3
      exact ⟨hfact, h3⟩
    · intro hu
      have hu' : ((∀ k ∈ groupKeys (specOf project cols col (projOf set_order cliques used col)).proj df.rows,
            P ((specOf project cols col (projOf set_order cliques used col)).cond k)) ∧
          ((specOf project cols col (projOf set_order cliques used col)).proj = [] →
            P ((specOf project cols col (projOf set_order cliques used col)).cond []))) ∧
          UsedGood P ((stepsFrom set_order cliques (JT.union used [col]) rest).map (fun s => specOf project cols s.1 s.2))
            outs (genCol (specOf project cols col (projOf set_order cliques used col)) df.rows o) := hu
      obtain ⟨⟨hk, hnil⟩, htail⟩ := hu'
      have hstep : colStep project groupby sc col (projOf set_order cliques used col) (df, g)
          = colStep project groupby sc' col (projOf set_order cliques used col) (df, g) := by
        apply colStep_congr project groupby hgb sc sc' col _ df g
        · rw [hcols]; intro k hk' n g'; exact hagree _ (hk k hk') n g'
        · rw [hcols]; intro he n g'; exact hagree _ (hnil he) n g'
      rw [← hrows] at htail
      have := h4 htail
      show rest.foldl (loopStep project set_order groupby sc cliques)
          (JT.union used [col], Factor.vals (project (projOf set_order cliques used col ++ [col])),
            colStep project groupby sc col (projOf set_order cliques used col) (df, g))
        = rest.foldl (loopStep project set_order groupby sc' cliques)
          (JT.union used [col], Factor.vals (project (projOf set_order cliques used col ++ [col])),
            colStep project groupby sc' col (projOf set_order cliques used col) (df, g))
      rw [hstep]
      exact this

/-- the whole loop for `order = elimination_order[::-1]`, both runs at once -/
theorem order_both (project : List Attr → Factor Rat) (set_order : List Attr → List Attr)
    (hso : ∀ s, (set_order s).Perm s)
    (groupby : GMQ.DF → List Attr → List (List Nat × List Nat)) (hgb : GroupbyOK groupby)
    (sc sc' : List Rat → Nat → G → List Nat × G) (hlen : ∀ counts n g, (sc' counts n g).1.length = n)
    (P : List Rat → Prop) (hagree : ∀ counts, P counts → ∀ n g, sc counts n g = sc' counts n g)
    (cliques : List JT.Clique) (cols : List Attr) (N : Nat) (g : G) (order : List Attr)
    (hne : order ≠ []) (hnd : order.Nodup) (hin : ∀ a ∈ order, a ∈ cols) :
    ∃ outs,
      ((order.drop 1).foldl (loopStep project set_order groupby sc' cliques)
        ([order.getD 0 ""], Factor.vals (project [order.getD 0 ""]),
          GMQ.DF.setCol (GMQ.DF.zeros N cols) (order.getD 0 "")
            (sc' (GMQ.NpQ.row (Factor.vals (project [order.getD 0 ""])) []) N g).1,
          (sc' (GMQ.NpQ.row (Factor.vals (project [order.getD 0 ""])) []) N g).2)).2.2.1.cols = cols ∧
      ((order.drop 1).foldl (loopStep project set_order groupby sc' cliques)
        ([order.getD 0 ""], Factor.vals (project [order.getD 0 ""]),
          GMQ.DF.setCol (GMQ.DF.zeros N cols) (order.getD 0 "")
            (sc' (GMQ.NpQ.row (Factor.vals (project [order.getD 0 ""])) []) N g).1,
          (sc' (GMQ.NpQ.row (Factor.vals (project [order.getD 0 ""])) []) N g).2)).2.2.1.rows
        = run ((stepsOrd set_order cliques order).map (fun s => specOf project cols s.1 s.2)) outs
            (List.replicate N (List.replicate cols.length 0)) ∧
      OutsFact sc' ((stepsOrd set_order cliques order).map (fun s => specOf project cols s.1 s.2)) outs
        (List.replicate N (List.replicate cols.length 0)) ∧
      (UsedGood P ((stepsOrd set_order cliques order).map (fun s => specOf project cols s.1 s.2)) outs
          (List.replicate N (List.replicate cols.length 0)) →
        (order.drop 1).foldl (loopStep project set_order groupby sc cliques)
          ([order.getD 0 ""], Factor.vals (project [order.getD 0 ""]),
            GMQ.DF.setCol (GMQ.DF.zeros N cols) (order.getD 0 "")
              (sc (GMQ.NpQ.row (Factor.vals (project [order.getD 0 ""])) []) N g).1,
            (sc (GMQ.NpQ.row (Factor.vals (project [order.getD 0 ""])) []) N g).2)
        = (order.drop 1).foldl (loopStep project set_order groupby sc' cliques)
          ([order.getD 0 ""], Factor.vals (project [order.getD 0 ""]),
            GMQ.DF.setCol (GMQ.DF.zeros N cols) (order.getD 0 "")
              (sc' (GMQ.NpQ.row (Factor.vals (project [order.getD 0 ""])) []) N g).1,
            (sc' (GMQ.NpQ.row (Factor.vals (project [order.getD 0 ""])) []) N g).2)) := by
  cases order with
  | nil => exact absurd rfl hne
  | cons a rest =>
    rw [List.nodup_cons] at hnd
    unfold stepsOrd
    simp only [List.getD_cons_zero, List.drop_succ_cons, List.drop_zero]
    obtain ⟨o0, hr0, hf0⟩ := uncond_spec project sc' hlen a (GMQ.DF.zeros N cols) g N
      (by simp [GMQ.DF.zeros])
    have hr0' : (GMQ.DF.setCol (GMQ.DF.zeros N cols) a
          (sc' (GMQ.NpQ.row (Factor.vals (project [a])) []) N g).1).rows
        = genCol (specOf project cols a []) (List.replicate N (List.replicate cols.length 0)) o0 := hr0
    have hf0' : OutFact sc' (specOf project cols a [])
        (List.replicate N (List.replicate cols.length 0)) o0 := hf0
    obtain ⟨outs, h1, h2, h3, h4⟩ := loop_both project set_order hso groupby hgb sc sc' hlen P hagree cliques cols rest [a]
      (Factor.vals (project [a]))
      (GMQ.DF.setCol (GMQ.DF.zeros N cols) a (sc' (GMQ.NpQ.row (Factor.vals (project [a])) []) N g).1)
      (sc' (GMQ.NpQ.row (Factor.vals (project [a])) []) N g).2 rfl
      (fun x hx => hin x (List.mem_cons_of_mem _ hx))
      (by intro x hx hm; rw [List.mem_singleton] at hm; exact hnd.1 (hm ▸ hx)) hnd.2
    refine ⟨o0 :: outs, h1, ?_, ?_, ?_⟩
    · rw [hr0'] at h2
      exact h2
    · rw [hr0'] at h3
      exact ⟨hf0', h3⟩
    · intro hu
      have hu' : ((∀ k ∈ groupKeys (specOf project cols a []).proj (List.replicate N (List.replicate cols.length 0)),
            P ((specOf project cols a []).cond k)) ∧
          ((specOf project cols a []).proj = [] → P ((specOf project cols a []).cond []))) ∧
          UsedGood P ((stepsFrom set_order cliques [a] rest).map (fun s => specOf project cols s.1 s.2)) outs
            (genCol (specOf project cols a []) (List.replicate N (List.replicate cols.length 0)) o0) := hu
      obtain ⟨⟨_, hnil⟩, htail⟩ := hu'
      have h0 : sc (GMQ.NpQ.row (Factor.vals (project [a])) []) N g
          = sc' (GMQ.NpQ.row (Factor.vals (project [a])) []) N g :=
        hagree _ (hnil (by simp [specOf, posOf])) N g
      rw [← hr0'] at htail
      rw [h0]
      exact h4 htail

/-! ### from the chain of outcome facts of the patched run to `OutsCond` -/

theorem outsCond_of_outsFact (sc' : List Rat → Nat → G → List Nat × G) :
    ∀ (specs : List ColSpec) (outs : List (List (List Nat))) (rows : List Row),
      (∀ sp ∈ specs, ∀ k n g, CountsOK (sp.cond k) → ColGood sp k n (sc' (sp.cond k) n g).1) →
      OutsFact sc' specs outs rows → OutsCond specs outs rows := by
  intro specs
  induction specs with
  | nil =>
    intro outs rows _ hf
    cases outs with
    | nil => trivial
    | cons _ _ => exact hf.elim
  | cons sp sps ih =>
    intro outs rows hg hf
    cases outs with
    | nil => exact hf.elim
    | cons o os =>
      obtain ⟨hf0, hfs⟩ := hf
      refine ⟨⟨hf0.1, ?_⟩, ih os _ (fun sp' hsp' => hg sp' (List.mem_cons_of_mem _ hsp')) hfs⟩
      intro ko hko hc
      obtain ⟨g', e⟩ := hf0.2 ko hko
      rw [e]
      exact hg sp List.mem_cons_self ko.1 _ g' hc

/-- the generated `synthetic_col` (rounding mode, numpy contracts) is admissible on every `CountsOK` slice -/
theorem colGood_round (cr cnr : G → Nat → Nat → List Rat → List Nat × G) (sh : G → List Nat → List Nat × G)
    (hr : RngOK cr cnr sh) (method : String) (hm : method ≠ "sample") (sp : ColSpec) (k : List Nat)
    (hsize : (sp.cond k).length = sp.size) (n : Nat) (g : G) (h : CountsOK (sp.cond k)) :
    ColGood sp k n (GMQ.syntheticCol cr cnr sh method (sp.cond k) n g).1 := by
  obtain ⟨pick, hp, hperm⟩ := syntheticCol_round cr cnr sh hr method hm (sp.cond k) n g h
  refine ⟨?_, ?_, hsize, ?_⟩
  · rw [hperm.length_eq]; exact column_length _ _ _ h hp
  · intro v hv
    rw [← hsize]
    exact column_in_domain _ _ _ v (hperm.mem_iff.mp hv)
  · rw [← hsize, hist_of_perm _ _ pick _ hperm]
    exact colOK_of_pick _ _ _ h hp

/-- all entries of a table nonnegative: every slice `A[idx]` has nonnegative entries (an index out of range reads `0`) -/
theorem row_nonneg (a : NdArr Rat) (h : ∀ x ∈ a.data.toList, (0 : Rat) ≤ x) (idx : List Nat) :
    ∀ c ∈ GMQ.NpQ.row a idx, (0 : Rat) ≤ c := by
  intro c hc
  unfold GMQ.NpQ.row at hc
  obtain ⟨v, _, rfl⟩ := List.mem_map.1 hc
  unfold NdArr.get
  rw [Array.getD_eq_getD_getElem?]
  cases hx : a.data[ravel a.shape (idx ++ [v])]? with
  | none => exact le_refl _
  | some x =>
    apply h
    rw [Array.mem_toList_iff]
    exact Array.mem_of_getElem? hx

/-! ### the main theorem: rounding mode without per-slice hypotheses -/

/-- **the generated column loop in rounding mode** is `Synth.synthTable` on `genSpecs` for outcome lists that are admissible
(`outsOK`), under the numpy contracts and hypotheses about the CHAIN of projected tables only: every conditional step has an earlier
step whose clique contains its conditioning attributes (`chainWF`), the tables returned by `project` are one consistent family of
mass `S > 0` (`margConsistent`) with nonnegative entries (`hnn`) -/
theorem syntheticFrame_round (project : List Attr → Factor Rat) (set_order : List Attr → List Attr)
    (groupby : GMQ.DF → List Attr → List (List Nat × List Nat))
    (cr cnr : G → Nat → Nat → List Rat → List Nat × G) (sh : G → List Nat → List Nat × G) (hr : RngOK cr cnr sh)
    (domain : Dom) (cliques : List JT.Clique) (elimination_order : List Attr) (total : Rat)
    (rows : Option Nat) (method : String) (hm : method ≠ "sample") (g : G)
    (hgb : GroupbyOK groupby)
    (hnd : elimination_order.Nodup) (hne : elimination_order ≠ [])
    (hsub : ∀ a ∈ elimination_order, a ∈ domain.attrs)
    (hso : ∀ s, (set_order s).Perm s)
    (parent : Nat → Nat) (S : Rat) (hS : 0 < S)
    (hch : chainWF (genSpecs project set_order domain cliques elimination_order) parent = true)
    (hcons : margConsistent (genSpecs project set_order domain cliques elimination_order) parent S = true)
    (hnn : ∀ sp ∈ genSpecs project set_order domain cliques elimination_order, ∀ k, ∀ c ∈ sp.cond k, (0 : Rat) ≤ c) :
    let N := match rows with | none => (Rat.floor total).toNat | some r => r
    let F := (GMQ.syntheticFrame project set_order groupby cr cnr sh domain cliques elimination_order
      total rows method g).1
    F.cols = domain.attrs ∧
    ∃ outs : List (List (List Nat)),
      F.rows = Synth.synthTable domain.attrs.length N
        (genSpecs project set_order domain cliques elimination_order) outs ∧
      Synth.specsWF domain.attrs.length [] (genSpecs project set_order domain cliques elimination_order) = true ∧
      Synth.outsOK domain.attrs.length N (genSpecs project set_order domain cliques elimination_order) outs
        (List.replicate N (List.replicate domain.attrs.length 0)) = true := by
  intro N F
  have hlen' : ∀ counts n g, (patch (GMQ.syntheticCol cr cnr sh method) counts n g).1.length = n := by
    apply patch_length
    intro counts hc n g
    obtain ⟨pick, hp, hperm⟩ := syntheticCol_round cr cnr sh hr method hm counts n g hc
    rw [hperm.length_eq]
    exact column_length _ _ _ hc hp
  have hne' : elimination_order.reverse ≠ [] := by simpa using hne
  have hnd' := List.nodup_reverse.2 hnd
  have hin' : ∀ a ∈ elimination_order.reverse, a ∈ domain.attrs := fun a ha => hsub a (List.mem_reverse.1 ha)
  obtain ⟨outs, h1, h2, h3, h4⟩ := order_both project set_order hso groupby hgb (GMQ.syntheticCol cr cnr sh method)
    (patch (GMQ.syntheticCol cr cnr sh method)) hlen' CountsOK
    (fun counts hc n g => patch_good _ counts hc n g) cliques domain.attrs N g elimination_order.reverse hne' hnd' hin'
  have hwf := specsWF_stepsOrd project set_order hso cliques domain.attrs elimination_order.reverse hne' hnd' hin'
  have hspecs : (stepsOrd set_order cliques elimination_order.reverse).map (fun s => specOf project domain.attrs s.1 s.2)
      = genSpecs project set_order domain cliques elimination_order := rfl
  rw [hspecs] at h2 h3 h4 hwf
  have hcond := outsCond_of_outsFact (patch (GMQ.syntheticCol cr cnr sh method)) _ outs _ (by
    intro sp hsp k n g' hc
    rw [← patch_good _ _ hc]
    obtain ⟨s, _, rfl⟩ := List.mem_map.1 hsp
    exact colGood_round cr cnr sh hr method hm _ k (specOf_cond_length project domain.attrs s.1 s.2 k) n g' hc) h3
  obtain ⟨hok, hused⟩ := outsOK_of_outsCond domain.attrs.length N _ outs parent S hS hwf hch hcons hnn hcond
  have heq := h4 hused
  have hF : F = ((elimination_order.reverse.drop 1).foldl
          (loopStep project set_order groupby (GMQ.syntheticCol cr cnr sh method) cliques)
          ([elimination_order.reverse.getD 0 ""],
            Factor.vals (project [elimination_order.reverse.getD 0 ""]),
            GMQ.DF.setCol (GMQ.DF.zeros N domain.attrs) (elimination_order.reverse.getD 0 "")
              (GMQ.syntheticCol cr cnr sh method
                (GMQ.NpQ.row (Factor.vals (project [elimination_order.reverse.getD 0 ""])) []) N g).1,
            (GMQ.syntheticCol cr cnr sh method
                (GMQ.NpQ.row (Factor.vals (project [elimination_order.reverse.getD 0 ""])) []) N g).2)).2.2.1 := by
    exact congrArg Prod.fst (shape_syntheticFrame project set_order groupby cr cnr sh domain cliques elimination_order
      total rows method g)
  rw [hF, heq]
  refine ⟨h1, outs, ?_, hwf, hok⟩
  rw [h2, synthTable_eq_run]

/-- nonnegative tables give the sign hypothesis of `syntheticFrame_round` (for every key, in range or not) -/
theorem hnn_of_entries (project : List Attr → Factor Rat) (set_order : List Attr → List Attr) (domain : Dom)
    (cliques : List JT.Clique) (elimination_order : List Attr)
    (h : ∀ as, ∀ x ∈ (project as).vals.data.toList, (0 : Rat) ≤ x) :
    ∀ sp ∈ genSpecs project set_order domain cliques elimination_order, ∀ k, ∀ c ∈ sp.cond k, (0 : Rat) ≤ c := by
  intro sp hsp k c hc
  obtain ⟨s, _, rfl⟩ := List.mem_map.1 hsp
  exact row_nonneg _ (h _) k c hc

end PGM.GMQGen
