import PGM.Proofs.JTSchedule
import Mathlib.Combinatorics.SimpleGraph.Acyclic
import Mathlib.Combinatorics.SimpleGraph.Metric
import Mathlib.Data.List.Sort
/-!
# `mp_order` cannot fail: the dependency digraph of a tree is acyclic

Root the tree at any node `ρ`.  A message `(i, j)` goes *up* when `j` is nearer the root than `i`, and
*down* otherwise.  Rank an upward message by `- dist ρ i` and a downward one by `dist ρ i + 1`.  Every
arc `(k, i) → (i, j)` (`k ≠ j`) strictly increases the rank, because a node of a tree has at most one
neighbour nearer the root.  Sorting the messages by rank is therefore a topological sort.
-/
namespace PGM.JT
open SimpleGraph

/-! ## trees: at most one neighbour nearer the root -/

section Abstract
variable {V : Type*} {H : SimpleGraph V}

theorem parent_unique (hT : H.IsTree) (ρ : V) {u a b : V} (ha : H.Adj u a) (hb : H.Adj u b)
    (hda : H.dist ρ a + 1 = H.dist ρ u) (hdb : H.dist ρ b + 1 = H.dist ρ u) : a = b := by
  classical
  obtain ⟨pu, hpu, -⟩ := hT.connected.exists_path_of_dist ρ u
  have key : ∀ c, H.Adj u c → H.dist ρ c + 1 = H.dist ρ u → c = pu.penultimate := by
    intro c hc hdc
    obtain ⟨pc, hpc, hlc⟩ := hT.connected.exists_path_of_dist ρ c
    have hu : u ∉ pc.support := by
      intro hmem
      have h1 := pc.length_takeUntil_le_length hmem
      have h2 := H.dist_le (pc.takeUntil u hmem)
      omega
    have hc' : c ∈ pu.support :=
      hT.isAcyclic.mem_support_of_ne_mem_support_of_adj_of_isPath hpu hpc hc hu
    exact hT.isAcyclic.eq_penultimate_of_adj_end hpu hc hc'
  rw [key a ha hda, key b hb hdb]

/-- rank of the message `a → b` with respect to the root `ρ` -/
noncomputable def rk (H : SimpleGraph V) (ρ a b : V) : ℤ :=
  if H.dist ρ b < H.dist ρ a then -(H.dist ρ a : ℤ) else (H.dist ρ a : ℤ) + 1

/-- a chain of two dependent messages `k → i → j` (`k ≠ j`: non-backtracking) climbs in rank -/
theorem rk_lt (hT : H.IsTree) (ρ : V) {k i j : V} (hki : H.Adj k i) (hij : H.Adj i j)
    (hkj : k ≠ j) : rk H ρ k i < rk H ρ i j := by
  have h1 := hT.dist_eq_dist_add_one_of_adj ρ hki
  have h2 := hT.dist_eq_dist_add_one_of_adj ρ hij
  have h3 : ¬ (H.dist ρ k + 1 = H.dist ρ i ∧ H.dist ρ j + 1 = H.dist ρ i) :=
    fun h => hkj (parent_unique hT ρ hki.symm hij h.1 h.2)
  unfold rk
  split_ifs <;> omega

end Abstract

/-! ## sorting by a rank that every arc increases gives a topological sort -/

theorem rel_of_idxOf_lt {R : Msg → Msg → Prop} :
    ∀ (l : List Msg), l.Pairwise R → ∀ x y, y ∈ l → l.idxOf x < l.idxOf y → R x y := by
  intro l
  induction l with
  | nil => intro _ x y hy; simp at hy
  | cons a l ih =>
    intro hp x y hy hlt
    rw [List.pairwise_cons] at hp
    have hy' : a ≠ y → y ∈ l := fun hya =>
      (List.mem_cons.1 hy).resolve_left (fun e => hya e.symm)
    by_cases hya : a = y
    · subst hya
      rw [List.idxOf_cons_self] at hlt
      omega
    · by_cases hxa : a = x
      · subst hxa
        exact hp.1 y (hy' hya)
      · rw [List.idxOf_cons, List.idxOf_cons, (beq_eq_false_iff_ne).mpr hxa,
          (beq_eq_false_iff_ne).mpr hya] at hlt
        simp only [cond_false] at hlt
        exact ih hp.2 x y (hy' hya) (by omega)

theorem topo_of_rank (nodes : List Msg) (arcs : List (Msg × Msg)) (r : Msg → ℤ)
    (hn : nodes.Nodup) (harcs : ∀ a ∈ arcs, a.1 ∈ nodes ∧ a.2 ∈ nodes ∧ r a.1 < r a.2) :
    ∃ order, isTopoSort nodes arcs order = true := by
  let R : Msg → Msg → Prop := fun x y => r x ≤ r y
  have : DecidableRel R := fun x y => inferInstanceAs (Decidable (r x ≤ r y))
  have : Std.Total R := ⟨fun a b => le_total (r a) (r b)⟩
  have : IsTrans Msg R := ⟨fun a b c (h1 : r a ≤ r b) (h2 : r b ≤ r c) => le_trans h1 h2⟩
  refine ⟨nodes.insertionSort R, ?_⟩
  have hperm : (nodes.insertionSort R).Perm nodes := List.perm_insertionSort R nodes
  have hsorted : (nodes.insertionSort R).Pairwise R := List.pairwise_insertionSort R nodes
  rw [isTopoSort_iff]
  refine ⟨hperm.nodup_iff.mpr hn, hperm.length_eq, fun m hm => hperm.mem_iff.mpr hm, ?_⟩
  intro a ha
  obtain ⟨h1, h2, hlt⟩ := harcs a ha
  have h1' : a.1 ∈ nodes.insertionSort R := hperm.mem_iff.mpr h1
  by_contra hcon
  rcases Nat.lt_or_eq_of_le (Nat.le_of_not_lt hcon) with hlt' | heq
  · have : r a.2 ≤ r a.1 := rel_of_idxOf_lt _ hsorted a.2 a.1 h1' hlt'
    omega
  · have h12 : a.2 = a.1 := by
      have h2' : a.2 ∈ nodes.insertionSort R := hperm.mem_iff.mpr h2
      exact ((List.idxOf_inj h2').mp heq)
    rw [h12] at hlt
    omega

/-! ## the clique tree -/

theorem gind_isTree (t : Tree) (h : isTree t = true) : (Gind t t.nodes).IsTree := by
  have f := treeFacts t h
  have hconn : connectedWithin t t.nodes = true := by
    simp only [isTree, Bool.and_eq_true] at h
    exact h.2
  exact ⟨(connectedWithin_iff t t.nodes f.nodes_nodup f.nodes_ne).mp hconn, f.acyclic⟩

theorem msg_facts (t : Tree) (f : TreeFacts t) {a b : Clique} (h : (a, b) ∈ messages t) :
    a ∈ t.nodes ∧ b ∈ t.nodes ∧ a ≠ b ∧ t.adj a b = true := by
  have hadj := (mem_messages_iff_adj t a b).mp h
  rcases (mem_messages t (a, b)).mp h with h | h
  · have := f.ends _ h
    exact ⟨this.1, this.2.1, this.2.2, hadj⟩
  · have := f.ends _ h
    exact ⟨this.2.1, this.1, fun e => this.2.2 e.symm, hadj⟩

/-- the rank of a message of the clique tree rooted at `ρ` -/
noncomputable def msgRank (t : Tree) (ρ : ↥{n : Clique | n ∈ t.nodes}) (m : Msg) : ℤ :=
  if h : m.1 ∈ t.nodes ∧ m.2 ∈ t.nodes then rk (Gind t t.nodes) ρ ⟨m.1, h.1⟩ ⟨m.2, h.2⟩ else 0

/-- **every arc of the dependency digraph increases the rank** -/
theorem msgRank_lt (t : Tree) (h : isTree t = true) (ρ : ↥{n : Clique | n ∈ t.nodes})
    (a : Msg × Msg) (ha : a ∈ depEdges t) : msgRank t ρ a.1 < msgRank t ρ a.2 := by
  have f := treeFacts t h
  obtain ⟨⟨k, i⟩, ⟨i', j⟩⟩ := a
  obtain ⟨h1, h2, h3, h4⟩ := (depEdges_spec t _ _).mp ha
  simp only at h3 h4
  subst h3
  obtain ⟨hk, hi, hki, aki⟩ := msg_facts t f h1
  obtain ⟨-, hj, hij, aij⟩ := msg_facts t f h2
  simp only [msgRank, hk, hi, hj, and_self, dif_pos]
  exact rk_lt (gind_isTree t h) ρ
    ((Gind_adj t t.nodes ⟨k, hk⟩ ⟨i, hi⟩).mpr ⟨hki, aki⟩)
    ((Gind_adj t t.nodes ⟨i, hi⟩ ⟨j, hj⟩).mpr ⟨hij, aij⟩)
    (fun e => h4 (congrArg Subtype.val e))

/-- **the dependency digraph of a tree has a topological sort**: `nx.topological_sort` cannot raise
`NetworkXUnfeasible` in `mp_order` -/
theorem mp_order_exists (t : Tree) (h : isTree t = true) :
    ∃ order, isTopoSort (messages t) (depEdges t) order = true := by
  have f := treeFacts t h
  obtain ⟨r0, hr0⟩ := List.exists_mem_of_ne_nil t.nodes f.nodes_ne
  refine topo_of_rank (messages t) (depEdges t) (msgRank t ⟨r0, hr0⟩)
    (messages_nodup_of_facts t f) ?_
  intro a ha
  obtain ⟨h1, h2, -, -⟩ := (depEdges_spec t a.1 a.2).mp ha
  exact ⟨h1, h2, msgRank_lt t h ⟨r0, hr0⟩ a ha⟩

/-- consequently the dependency relation has no cycle: no message can (transitively) depend on
itself — stated for a closed chain given as a list of consecutive arcs -/
theorem depEdges_no_cycle (t : Tree) (h : isTree t = true) (m : Msg) (chain : List Msg)
    (hchain : List.IsChain (fun x y => (x, y) ∈ depEdges t) (m :: chain ++ [m])) :
    False := by
  have f := treeFacts t h
  obtain ⟨r0, hr0⟩ := List.exists_mem_of_ne_nil t.nodes f.nodes_ne
  have hmono : List.IsChain (fun x y => msgRank t ⟨r0, hr0⟩ x < msgRank t ⟨r0, hr0⟩ y)
      (m :: chain ++ [m]) :=
    hchain.imp (fun {x y} hxy => msgRank_lt t h ⟨r0, hr0⟩ (x, y) hxy)
  have hpw := (List.isChain_iff_pairwise (R := fun x y : Msg =>
    msgRank t ⟨r0, hr0⟩ x < msgRank t ⟨r0, hr0⟩ y)).mp hmono
  have : msgRank t ⟨r0, hr0⟩ m < msgRank t ⟨r0, hr0⟩ m := by
    rw [List.cons_append, List.pairwise_cons] at hpw
    exact hpw.1 m (by simp)
  exact absurd this (lt_irrefl _)

end PGM.JT
