import PGM.Model.RegionGraph
import PGM.Model.FactorGraph
import PGM.Proofs.RealScalar
import PGM.Proofs.Factor
import PGM.Proofs.OracleNorm
import PGM.Proofs.OracleFold
import PGM.Proofs.OracleGraph
import PGM.Proofs.OraclePos
import PGM.Proofs.OracleLbp
/-!
# Approximate oracles: every returned table is normalised; disjoint families are solved exactly
(statements for C16 and C18), real-number instance `realScalar`

`ValidTable` is defined in `OracleNorm.lean`, `Disjoint` in `OracleGraph.lean` (same namespace
`PGM.Oracle`, same definitions as in the original statement file).
-/
namespace PGM.Oracle
open PGM PGM.JT

/-! ## the common last step -/

/-- **the common last step** `belief += log(total) − logsumexp(belief); exp` produces a valid table
for every finite belief table and every total > 0 -/
theorem normalise_valid (T : ℝ) (b : Factor ℝ) (hT : 0 < T) (hne : b.vals.data.size ≠ 0) :
    ValidTable T (RG.normalise T b) ∧ (RG.normalise T b).dom = b.dom ∧
    (RG.normalise T b).vals.data.size = b.vals.data.size :=
  ⟨normalise_valid' T b hT hne, normalise_dom T b, normalise_size T b⟩

/-- each entry is `T · softmax(b)` -/
theorem normalise_entry (T : ℝ) (b : Factor ℝ) (hT : 0 < T) (i : Nat) (hi : i < b.vals.data.size) :
    (RG.normalise T b).vals.data[i]? =
      some (T * Real.exp (b.vals.data[i]'hi) / ((b.vals.data.toList.map Real.exp).sum)) := by
  have hS : 0 < expSum b := expSum_pos b (by omega)
  rw [normalise_data]
  simp only [Array.getElem?_map, Array.getElem?_eq_getElem hi, Option.map_some]
  rw [cell_eq T (expSum b) _ hT hS]
  rfl

/-- a table that is `normalise T b` for some `b` is valid as soon as it is non-empty -/
theorem valid_of_normalised (T : ℝ) (hT : 0 < T) (f : Factor ℝ) (h : ∃ b : Factor ℝ, f = RG.normalise T b)
    (hsz : f.vals.data.size ≠ 0) : ValidTable T f := by
  obtain ⟨b, rfl⟩ := h
  rw [normalise_size] at hsz
  exact normalise_valid' T b hT hsz

/-! ## every returned table is `normalise total (some belief)` -/

/-- the belief of region `r` in `generalized_belief_propagation` after the sweeps -/
noncomputable def gbpBelief (dom : Dom) (g : RG.Graph) (pots : CliqueVec ℝ) (iters : Nat) (msgs : RG.Msgs ℝ)
    (r : RG.Region) : Factor ℝ :=
  RG.addSum (pots.get r)
    (RG.pySum ((RG.look g.B r).map (RG.iterate (RG.gbpSweep g (RG.potOf dom g pots)) iters msgs).get))

theorem gbp_eq_fill (dom : Dom) (g : RG.Graph) (pots : CliqueVec ℝ) (T : ℝ) (iters : Nat) (msgs : RG.Msgs ℝ) :
    (RG.gbp dom g pots T iters msgs).1 =
      fill (fun r => RG.normalise T (gbpBelief dom g pots iters msgs r)) g.cliques [] := rfl

/-- **region-graph propagation returns normalised tables**: for every region graph (whatever its
structure), every potential vector, every total, every sweep count and every state of the
persisted messages, each returned table is `normalise total (some belief)` -/
theorem gbp_tables_normalised (dom : Dom) (g : RG.Graph) (pots : CliqueVec ℝ) (T : ℝ) (iters : Nat)
    (msgs : RG.Msgs ℝ) (p : Clique × Factor ℝ) (hp : p ∈ (RG.gbp dom g pots T iters msgs).1) :
    ∃ b : Factor ℝ, p.2 = RG.normalise T b := by
  rw [gbp_eq_fill] at hp
  rcases mem_fill _ _ _ p hp with h | h
  · simp at h
  · exact ⟨_, h.2⟩

/-- the returned dictionary has one entry per clique of the graph, in `g.cliques` order -/
theorem gbp_keys' (dom : Dom) (g : RG.Graph) (pots : CliqueVec ℝ) (T : ℝ) (iters : Nat) (msgs : RG.Msgs ℝ) :
    (RG.gbp dom g pots T iters msgs).1.map Prod.fst = RG.dedup g.cliques := by
  rw [gbp_eq_fill]; exact keys_fill_nil _ _

theorem gbp_keys (dom : Dom) (g : RG.Graph) (pots : CliqueVec ℝ) (T : ℝ) (iters : Nat) (msgs : RG.Msgs ℝ)
    (hnd : g.cliques.Nodup) :
    (RG.gbp dom g pots T iters msgs).1.map Prod.fst = g.cliques := by
  rw [gbp_keys', dedup_of_nodup _ hnd]

/-- the table of a clique of the graph is the normalised belief of that clique -/
theorem gbp_get (dom : Dom) (g : RG.Graph) (pots : CliqueVec ℝ) (T : ℝ) (iters : Nat) (msgs : RG.Msgs ℝ)
    (c : Clique) (hc : c ∈ g.cliques) :
    (RG.gbp dom g pots T iters msgs).1.get c = RG.normalise T (gbpBelief dom g pots iters msgs c) := by
  rw [gbp_eq_fill]; exact get_fill _ _ c hc

/-- … hence a valid table of mass `T` whenever it is non-empty -/
theorem gbp_tables_valid (dom : Dom) (g : RG.Graph) (pots : CliqueVec ℝ) (T : ℝ) (iters : Nat)
    (msgs : RG.Msgs ℝ) (hT : 0 < T) (p : Clique × Factor ℝ) (hp : p ∈ (RG.gbp dom g pots T iters msgs).1)
    (hsz : p.2.vals.data.size ≠ 0) : ValidTable T p.2 :=
  valid_of_normalised T hT p.2 (gbp_tables_normalised dom g pots T iters msgs p hp) hsz

/-! ### Hazan–Peng–Shashua -/

theorem hpsSweep_snd (g : RG.Graph) (pot : RG.Region → Factor ℝ) (c0 : RG.Region → ℝ) (T rho : ℝ)
    (msgs : RG.Msgs ℝ) :
    ∃ F : RG.Region → Factor ℝ, (RG.hpsSweep g pot c0 T rho msgs).2 = fill (fun r => RG.normalise T (F r)) g.regions [] :=
  ⟨_, rfl⟩

/-- whatever holds of the initial `mu` and of the result of every sweep holds of the returned `mu` -/
theorem hpsLoop_mu (g : RG.Graph) (pot : RG.Region → Factor ℝ) (c0 : RG.Region → ℝ) (T rho conv : ℝ)
    (P : CliqueVec ℝ → Prop) (hs : ∀ msgs, P (RG.hpsSweep g pot c0 T rho msgs).2) :
    ∀ (n done : Nat) (msgs : RG.Msgs ℝ) (mu : CliqueVec ℝ), P mu →
      P (RG.hpsLoop g pot c0 T rho conv n done msgs mu).1 := by
  intro n
  induction n with
  | zero => intro done msgs mu hmu; exact hmu
  | succ n ih =>
    intro done msgs mu _
    have h := hs msgs
    rw [RG.hpsLoop]
    generalize RG.hpsSweep g pot c0 T rho msgs = q at h ⊢
    obtain ⟨m, u⟩ := q
    simp only
    split
    · exact h
    · exact ih _ _ _ h

/-- with at least one sweep the initial `mu` is irrelevant -/
theorem hpsLoop_mu_succ (g : RG.Graph) (pot : RG.Region → Factor ℝ) (c0 : RG.Region → ℝ) (T rho conv : ℝ)
    (P : CliqueVec ℝ → Prop) (hs : ∀ msgs, P (RG.hpsSweep g pot c0 T rho msgs).2)
    (n done : Nat) (msgs : RG.Msgs ℝ) (mu : CliqueVec ℝ) :
    P (RG.hpsLoop g pot c0 T rho conv (n + 1) done msgs mu).1 := by
  have h := hs msgs
  rw [RG.hpsLoop]
  generalize RG.hpsSweep g pot c0 T rho msgs = q at h ⊢
  obtain ⟨m, u⟩ := q
  simp only
  split
  · exact h
  · exact hpsLoop_mu g pot c0 T rho conv P hs _ _ _ _ h

theorem hps_tables_normalised (dom : Dom) (g : RG.Graph) (counting : RG.Region → ℝ) (pots : CliqueVec ℝ)
    (T : ℝ) (iters : Nat) (rho conv : ℝ) (msgs : RG.Msgs ℝ) (p : Clique × Factor ℝ)
    (hp : p ∈ (RG.hps dom g counting pots T iters rho conv msgs).1) :
    ∃ b : Factor ℝ, p.2 = RG.normalise T b := by
  have key := hpsLoop_mu g (RG.potOf dom g pots) counting T rho conv
    (fun mu => ∀ p ∈ mu, ∃ b : Factor ℝ, p.2 = RG.normalise T b) (by
      intro msgs p hp
      obtain ⟨F, hF⟩ := hpsSweep_snd g (RG.potOf dom g pots) counting T rho msgs
      rw [hF] at hp
      rcases mem_fill _ _ _ p hp with h | h
      · simp at h
      · exact ⟨_, h.2⟩) iters 0 msgs [] (by intro p hp; simp at hp)
  exact key p hp

/-- with `iters > 0` (the Python raises otherwise) there is one table per region, in `g.regions` order -/
theorem hps_keys' (dom : Dom) (g : RG.Graph) (counting : RG.Region → ℝ) (pots : CliqueVec ℝ)
    (T : ℝ) (iters : Nat) (rho conv : ℝ) (msgs : RG.Msgs ℝ) (hi : 0 < iters) :
    (RG.hps dom g counting pots T iters rho conv msgs).1.map Prod.fst = RG.dedup g.regions := by
  obtain ⟨n, rfl⟩ : ∃ n, iters = n + 1 := ⟨iters - 1, by omega⟩
  apply hpsLoop_mu_succ g (RG.potOf dom g pots) counting T rho conv
    (fun mu => mu.map Prod.fst = RG.dedup g.regions)
  intro msgs
  obtain ⟨F, hF⟩ := hpsSweep_snd g (RG.potOf dom g pots) counting T rho msgs
  rw [hF]; exact keys_fill_nil _ _

theorem hps_keys (dom : Dom) (g : RG.Graph) (counting : RG.Region → ℝ) (pots : CliqueVec ℝ)
    (T : ℝ) (iters : Nat) (rho conv : ℝ) (msgs : RG.Msgs ℝ) (hi : 0 < iters) (hnd : g.regions.Nodup) :
    (RG.hps dom g counting pots T iters rho conv msgs).1.map Prod.fst = g.regions := by
  rw [hps_keys' dom g counting pots T iters rho conv msgs hi, dedup_of_nodup _ hnd]

/-- without a sweep nothing is returned (the Python raises `UnboundLocalError`) -/
theorem hps_zero_iters (dom : Dom) (g : RG.Graph) (counting : RG.Region → ℝ) (pots : CliqueVec ℝ)
    (T : ℝ) (rho conv : ℝ) (msgs : RG.Msgs ℝ) :
    (RG.hps dom g counting pots T 0 rho conv msgs).1 = [] := rfl

theorem hps_tables_valid (dom : Dom) (g : RG.Graph) (counting : RG.Region → ℝ) (pots : CliqueVec ℝ)
    (T : ℝ) (iters : Nat) (rho conv : ℝ) (msgs : RG.Msgs ℝ) (hT : 0 < T) (p : Clique × Factor ℝ)
    (hp : p ∈ (RG.hps dom g counting pots T iters rho conv msgs).1)
    (hsz : p.2.vals.data.size ≠ 0) : ValidTable T p.2 :=
  valid_of_normalised T hT p.2 (hps_tables_normalised dom g counting pots T iters rho conv msgs p hp) hsz

/-! ### loopy belief propagation on the factor graph -/

noncomputable def lbpBelief (dom : Dom) (cliques : List Clique) (pots : CliqueVec ℝ) (iters : Nat)
    (s : FG.State ℝ) (cl : Clique) : Factor ℝ :=
  RG.addSum (pots.get cl)
    (RG.pySum (cl.map (fun n => FG.getN (RG.iterate (FG.lbpSweep dom cliques pots) iters s) n cl)))

theorem lbp_eq_fill (dom : Dom) (cliques : List Clique) (pots : CliqueVec ℝ) (T : ℝ) (iters : Nat)
    (s : FG.State ℝ) :
    (FG.lbp dom cliques pots T iters s).1 =
      fill (fun cl => RG.normalise T (lbpBelief dom cliques pots iters s cl)) cliques [] := rfl

theorem lbp_tables_normalised (dom : Dom) (cliques : List Clique) (pots : CliqueVec ℝ) (T : ℝ)
    (iters : Nat) (s : FG.State ℝ) (p : Clique × Factor ℝ) (hp : p ∈ (FG.lbp dom cliques pots T iters s).1) :
    ∃ b : Factor ℝ, p.2 = RG.normalise T b := by
  rw [lbp_eq_fill] at hp
  rcases mem_fill _ _ _ p hp with h | h
  · simp at h
  · exact ⟨_, h.2⟩

/-- `self.cliques` is a list and may repeat a clique; the dictionary has each key once -/
theorem lbp_keys' (dom : Dom) (cliques : List Clique) (pots : CliqueVec ℝ) (T : ℝ) (iters : Nat)
    (s : FG.State ℝ) :
    (FG.lbp dom cliques pots T iters s).1.map Prod.fst = RG.dedup cliques := by
  rw [lbp_eq_fill]; exact keys_fill_nil _ _

theorem lbp_keys (dom : Dom) (cliques : List Clique) (pots : CliqueVec ℝ) (T : ℝ) (iters : Nat)
    (s : FG.State ℝ) (hnd : cliques.Nodup) :
    (FG.lbp dom cliques pots T iters s).1.map Prod.fst = cliques := by
  rw [lbp_keys', dedup_of_nodup _ hnd]

theorem lbp_get (dom : Dom) (cliques : List Clique) (pots : CliqueVec ℝ) (T : ℝ) (iters : Nat)
    (s : FG.State ℝ) (c : Clique) (hc : c ∈ cliques) :
    (FG.lbp dom cliques pots T iters s).1.get c = RG.normalise T (lbpBelief dom cliques pots iters s c) := by
  rw [lbp_eq_fill]; exact get_fill _ _ c hc

theorem lbp_tables_valid (dom : Dom) (cliques : List Clique) (pots : CliqueVec ℝ) (T : ℝ)
    (iters : Nat) (s : FG.State ℝ) (hT : 0 < T) (p : Clique × Factor ℝ)
    (hp : p ∈ (FG.lbp dom cliques pots T iters s).1) (hsz : p.2.vals.data.size ≠ 0) : ValidTable T p.2 :=
  valid_of_normalised T hT p.2 (lbp_tables_normalised dom cliques pots T iters s p hp) hsz

/-! ## validity from checkable hypotheses: no attribute of extent 0, non-empty potentials

`PosDom d` says that no attribute of `d` has extent 0 (`OraclePos.lean`).  It is preserved by every
factor operation of the sweeps, so the belief tables have `size (dom.shape) ≠ 0` cells. -/

theorem gbpBelief_size (dom : Dom) (g : RG.Graph) (pots : CliqueVec ℝ) (iters : Nat) (msgs : RG.Msgs ℝ)
    (hpot : ∀ e ∈ g.messageOrder, PosDom (RG.potOf dom g pots e.1).dom)
    (hm : PosMsgs msgs) (r : RG.Region)
    (hr : PosDom (pots.get r).dom ∧ (pots.get r).vals.data.size ≠ 0) :
    (gbpBelief dom g pots iters msgs r).vals.data.size ≠ 0 := by
  unfold gbpBelief
  apply addSum_size_ne_zero _ _ hr.1 hr.2
  apply posSum_pySum
  intro f hf
  obtain ⟨e', _, rfl⟩ := List.mem_map.mp hf
  apply PosMsgs.get
  exact iterate_inv PosMsgs _ (fun m hm' => gbpSweep_pos g _ m hpot hm') iters msgs hm

/-- **generalised propagation returns valid tables**: if no domain involved has an attribute of
extent 0 and the potentials of the model cliques are non-empty, every returned table has strictly
positive entries summing to `T` -/
theorem gbp_tables_valid_pos (dom : Dom) (g : RG.Graph) (pots : CliqueVec ℝ) (T : ℝ) (iters : Nat)
    (msgs : RG.Msgs ℝ) (hT : 0 < T)
    (hpot : ∀ e ∈ g.messageOrder, PosDom (RG.potOf dom g pots e.1).dom)
    (hcl : ∀ r ∈ g.cliques, PosDom (pots.get r).dom ∧ (pots.get r).vals.data.size ≠ 0)
    (hm : PosMsgs msgs)
    (p : Clique × Factor ℝ) (hp : p ∈ (RG.gbp dom g pots T iters msgs).1) : ValidTable T p.2 := by
  rw [gbp_eq_fill] at hp
  rcases mem_fill _ _ _ p hp with h | h
  · simp at h
  · rw [h.2]
    exact normalise_valid' T _ hT (gbpBelief_size dom g pots iters msgs hpot hm p.1 (hcl p.1 h.1))

/-- the same from the initial messages, with hypotheses on the inputs only: every size in `dom` is
non-zero, the regions on the message schedule use attributes of `dom`, the clique potentials are
non-empty tables over domains without extent 0 -/
theorem gbp_tables_valid_init (dom : Dom) (g : RG.Graph) (pots : CliqueVec ℝ) (T : ℝ) (iters : Nat)
    (hT : 0 < T) (hdom : PosDom dom)
    (hord : ∀ e ∈ g.messageOrder, (∀ a ∈ e.1, a ∈ dom.attrs) ∧ (∀ a ∈ e.2, a ∈ dom.attrs))
    (hcl : ∀ r ∈ g.cliques, PosDom (pots.get r).dom ∧ (pots.get r).vals.data.size ≠ 0)
    (p : Clique × Factor ℝ)
    (hp : p ∈ (RG.gbp dom g pots T iters (RG.initMessages dom g.messageOrder)).1) : ValidTable T p.2 := by
  apply gbp_tables_valid_pos dom g pots T iters _ hT _ hcl _ p hp
  · intro e he
    exact (potOf_pos dom g pots e.1 hdom (hord e he).1
      (fun h => hcl e.1 (List.contains_iff_mem.mp h))).1
  · exact initMessages_pos dom _ hdom (fun e he => (hord e he).2)

/-- loop invariant with a message invariant `Q` -/
theorem hpsLoop_inv (g : RG.Graph) (pot : RG.Region → Factor ℝ) (c0 : RG.Region → ℝ) (T rho conv : ℝ)
    (P : CliqueVec ℝ → Prop) (Q : RG.Msgs ℝ → Prop)
    (hs : ∀ msgs, Q msgs → Q (RG.hpsSweep g pot c0 T rho msgs).1 ∧ P (RG.hpsSweep g pot c0 T rho msgs).2) :
    ∀ (n done : Nat) (msgs : RG.Msgs ℝ) (mu : CliqueVec ℝ), Q msgs → P mu →
      P (RG.hpsLoop g pot c0 T rho conv n done msgs mu).1 := by
  intro n
  induction n with
  | zero => intro done msgs mu _ hmu; exact hmu
  | succ n ih =>
    intro done msgs mu hq _
    have h := hs msgs hq
    rw [RG.hpsLoop]
    generalize RG.hpsSweep g pot c0 T rho msgs = q at h ⊢
    obtain ⟨m, u⟩ := q
    simp only
    split
    · exact h.2
    · exact ih _ _ _ h.1 h.2

/-- **the convex oracle returns valid tables** under the same kind of hypotheses -/
theorem hps_tables_valid_pos (dom : Dom) (g : RG.Graph) (counting : RG.Region → ℝ) (pots : CliqueVec ℝ)
    (T : ℝ) (iters : Nat) (rho conv : ℝ) (msgs : RG.Msgs ℝ) (hT : 0 < T)
    (hpot : ∀ r ∈ g.regions, PosDom (RG.potOf dom g pots r).dom ∧
      ∀ p ∈ RG.look g.parents r, PosDom (RG.potOf dom g pots p).dom)
    (hsz : ∀ r ∈ g.regions, (RG.potOf dom g pots r).vals.data.size ≠ 0)
    (hm : PosMsgs msgs)
    (p : Clique × Factor ℝ) (hp : p ∈ (RG.hps dom g counting pots T iters rho conv msgs).1) :
    ValidTable T p.2 := by
  have key := hpsLoop_inv g (RG.potOf dom g pots) counting T rho conv
    (fun mu => ∀ p ∈ mu, ValidTable T p.2) PosMsgs (by
      intro msgs hm'
      have h1 := hpsSweep_pos g (RG.potOf dom g pots) counting T rho msgs hpot hm'
      refine ⟨h1, ?_⟩
      intro p hp
      rw [hpsSweep_snd_eq] at hp
      rcases mem_fill _ _ _ p hp with h | h
      · simp at h
      · rw [h.2]
        exact normalise_valid' T _ hT
          (hpsBelief_size g _ counting _ p.1 (hpot p.1 h.1).1 (hsz p.1 h.1) h1))
    iters 0 msgs [] hm (by intro p hp; simp at hp)
  exact key p hp

/-- **loopy propagation returns valid tables** -/
theorem lbp_tables_valid_pos (dom : Dom) (cliques : List Clique) (pots : CliqueVec ℝ) (T : ℝ)
    (iters : Nat) (s : FG.State ℝ) (hT : 0 < T)
    (hcl : ∀ cl ∈ cliques, PosDom (pots.get cl).dom ∧ (pots.get cl).vals.data.size ≠ 0)
    (hs : PosState s)
    (p : Clique × Factor ℝ) (hp : p ∈ (FG.lbp dom cliques pots T iters s).1) : ValidTable T p.2 := by
  rw [lbp_eq_fill] at hp
  rcases mem_fill _ _ _ p hp with h | h
  · simp at h
  · rw [h.2]
    apply normalise_valid' T _ hT
    unfold lbpBelief
    apply addSum_size_ne_zero _ _ (hcl p.1 h.1).1 (hcl p.1 h.1).2
    apply posSum_pySum
    intro f hf
    obtain ⟨e', _, rfl⟩ := List.mem_map.mp hf
    apply PosState.getN
    exact iterate_inv PosState _ (fun m hm' => lbpSweep_pos dom cliques pots m (fun cl h => (hcl cl h).1) hm')
      iters s hs

theorem lbp_tables_valid_init (dom : Dom) (cliques : List Clique) (pots : CliqueVec ℝ) (T : ℝ)
    (iters : Nat) (hT : 0 < T) (hdom : PosDom dom)
    (hsub : ∀ cl ∈ cliques, ∀ v ∈ cl, v ∈ dom.attrs)
    (hcl : ∀ cl ∈ cliques, PosDom (pots.get cl).dom ∧ (pots.get cl).vals.data.size ≠ 0)
    (p : Clique × Factor ℝ)
    (hp : p ∈ (FG.lbp dom cliques pots T iters (FG.initMessages dom cliques)).1) : ValidTable T p.2 :=
  lbp_tables_valid_pos dom cliques pots T iters _ hT hcl (fg_initMessages_pos dom cliques hdom hsub) p hp

/-! ## disjoint families: nothing is relaxed, the oracles are exact -/

theorem addScalar_zero_datavector (x : Factor ℝ) : (x.addScalar Scalar.zero).datavector = x.datavector := by
  show (x.vals.data.map (fun v => (0 : ℝ) + v)).toList = x.vals.data.toList
  simp

/-- on a graph without edges the marginals do not depend on sweeps or messages -/
theorem gbp_flat (dom : Dom) (g : RG.Graph) (hg : Flat g) (pots : CliqueVec ℝ) (T : ℝ) (iters : Nat)
    (msgs : RG.Msgs ℝ) :
    (RG.gbp dom g pots T iters msgs).1 =
      fill (fun r => RG.normalise T ((pots.get r).addScalar Scalar.zero)) g.cliques [] := by
  rw [gbp_eq_fill]
  congr 1
  funext r
  unfold gbpBelief
  rw [hg.B r]
  rfl

/-- **when nothing is relaxed the oracles coincide**: for pairwise disjoint cliques the region graph
has no edges, and generalised propagation returns `normalise total (potential)` on every clique,
for every sweep count and message state -/
theorem gbp_disjoint_msgs (dom : Dom) (cliques : List Clique) (pots : CliqueVec ℝ) (T : ℝ) (iters : Nat)
    (msgs : RG.Msgs ℝ)
    (hd : Disjoint cliques) (hnd : cliques.Nodup) (hne : ∀ c ∈ cliques, c ≠ [])
    (c : Clique) (hc : c ∈ cliques) :
    ((RG.gbp dom (RG.build cliques false true) pots T iters msgs).1.get c).datavector
      = (RG.normalise T (pots.get c)).datavector := by
  obtain ⟨h1, hflat⟩ := build_disjoint cliques false true hd hnd hne
  rw [gbp_flat dom _ hflat, get_fill]
  · exact normalise_datavector_congr T _ _ (addScalar_zero_datavector _)
  · rw [h1, buildOn_cliques, mem_sortByLen]; exact hc

theorem gbp_disjoint (dom : Dom) (cliques : List Clique) (pots : CliqueVec ℝ) (T : ℝ) (iters : Nat)
    (hd : Disjoint cliques) (hnd : cliques.Nodup) (hne : ∀ c ∈ cliques, c ≠ [])
    (c : Clique) (hc : c ∈ cliques) :
    let g := RG.build cliques false true
    ((RG.gbp dom g pots T iters (RG.initMessages dom g.messageOrder)).1.get c).datavector
      = (RG.normalise T (pots.get c)).datavector := by
  intro g
  exact gbp_disjoint_msgs dom cliques pots T iters _ hd hnd hne c hc

/-- … and that table is a valid table of mass `T` when the potential is non-empty -/
theorem gbp_disjoint_valid (dom : Dom) (cliques : List Clique) (pots : CliqueVec ℝ) (T : ℝ) (iters : Nat)
    (msgs : RG.Msgs ℝ) (hT : 0 < T)
    (hd : Disjoint cliques) (hnd : cliques.Nodup) (hne : ∀ c ∈ cliques, c ≠ [])
    (c : Clique) (hc : c ∈ cliques) (hsz : (pots.get c).vals.data.size ≠ 0) :
    ValidTable T ((RG.gbp dom (RG.build cliques false true) pots T iters msgs).1.get c) := by
  obtain ⟨h1, hflat⟩ := build_disjoint cliques false true hd hnd hne
  rw [gbp_flat dom _ hflat, get_fill]
  · apply normalise_valid'  T _ hT
    show (((pots.get c).vals.data.map (fun v => (0 : ℝ) + v))).size ≠ 0
    simpa using hsz
  · rw [h1, buildOn_cliques, mem_sortByLen]; exact hc

theorem gbp_disjoint_keys (dom : Dom) (cliques : List Clique) (pots : CliqueVec ℝ) (T : ℝ) (iters : Nat)
    (msgs : RG.Msgs ℝ) (hd : Disjoint cliques) (hnd : cliques.Nodup) (hne : ∀ c ∈ cliques, c ≠ []) :
    (RG.gbp dom (RG.build cliques false true) pots T iters msgs).1.map Prod.fst = RG.sortByLen cliques := by
  obtain ⟨h1, _⟩ := build_disjoint cliques false true hd hnd hne
  rw [gbp_keys, h1, buildOn_cliques]
  rw [h1, buildOn_cliques]
  exact sortByLen_nodup _ hnd

/-! ### the convex oracle -/

/-- the belief of the convex oracle on a graph without edges -/
noncomputable def hpsFlatBelief (pot : RG.Region → Factor ℝ) (c0 : RG.Region → ℝ) (r : RG.Region) : Factor ℝ :=
  (RG.subSum (RG.addSum (pot r) RG.PySum.zero) RG.PySum.zero).divScalar (c0 r)

theorem hpsSweep_flat (g : RG.Graph) (hg : Flat g) (pot : RG.Region → Factor ℝ) (c0 : RG.Region → ℝ)
    (T rho : ℝ) (msgs : RG.Msgs ℝ) :
    (RG.hpsSweep g pot c0 T rho msgs).2 = fill (fun r => RG.normalise T (hpsFlatBelief pot c0 r)) g.regions [] := by
  unfold RG.hpsSweep
  simp only [hg.children, hg.parents, List.map_nil, List.foldl_nil]
  rfl

theorem hps_flat (dom : Dom) (g : RG.Graph) (hg : Flat g) (counting : RG.Region → ℝ) (pots : CliqueVec ℝ)
    (T : ℝ) (iters : Nat) (rho conv : ℝ) (msgs : RG.Msgs ℝ) (hi : 0 < iters) :
    (RG.hps dom g counting pots T iters rho conv msgs).1 =
      fill (fun r => RG.normalise T (hpsFlatBelief (RG.potOf dom g pots) counting r)) g.regions [] := by
  obtain ⟨n, rfl⟩ : ∃ n, iters = n + 1 := ⟨iters - 1, by omega⟩
  apply hpsLoop_mu_succ g (RG.potOf dom g pots) counting T rho conv
    (fun mu => mu = fill (fun r => RG.normalise T (hpsFlatBelief (RG.potOf dom g pots) counting r)) g.regions [])
  intro msgs
  exact hpsSweep_flat g hg _ _ T rho msgs

theorem hpsFlatBelief_one_datavector (x : Factor ℝ) :
    (((x.addScalar Scalar.zero).subScalar Scalar.zero).divScalar (1 : ℝ)).datavector = x.datavector := by
  show (((x.vals.data.map (fun v => (0 : ℝ) + v)).map (fun v => v + -(0 : ℝ))).map
    (fun v => v / (1 : ℝ))).toList = x.vals.data.toList
  simp

theorem hps_disjoint_msgs (dom : Dom) (cliques : List Clique) (pots : CliqueVec ℝ) (T : ℝ) (iters : Nat)
    (rho conv : ℝ) (msgs : RG.Msgs ℝ) (hi : 0 < iters) (hd : Disjoint cliques) (hnd : cliques.Nodup)
    (hne : ∀ c ∈ cliques, c ≠ []) (c : Clique) (hc : c ∈ cliques) :
    ((RG.hps dom (RG.build cliques true true) (fun _ => 1) pots T iters rho conv msgs).1.get c).datavector
      = (RG.normalise T (pots.get c)).datavector := by
  obtain ⟨h1, hflat⟩ := build_disjoint cliques true true hd hnd hne
  rw [hps_flat dom _ hflat _ _ _ _ _ _ _ hi, get_fill]
  · apply normalise_datavector_congr
    have hpot : RG.potOf dom (RG.build cliques true true) pots c = pots.get c := by
      unfold RG.potOf
      rw [if_pos]
      rw [h1, buildOn_cliques]
      exact List.contains_iff_mem.mpr ((mem_sortByLen _ _).mpr hc)
    unfold hpsFlatBelief
    rw [hpot]
    exact hpsFlatBelief_one_datavector _
  · rw [h1, buildOn_regions]; exact hc

theorem hps_disjoint (dom : Dom) (cliques : List Clique) (pots : CliqueVec ℝ) (T : ℝ) (iters : Nat)
    (rho conv : ℝ) (hi : 0 < iters) (hd : Disjoint cliques) (hnd : cliques.Nodup) (hne : ∀ c ∈ cliques, c ≠ [])
    (c : Clique) (hc : c ∈ cliques) :
    let g := RG.build cliques true true
    ((RG.hps dom g (fun _ => 1) pots T iters rho conv (RG.initMessages dom g.messageOrder)).1.get c).datavector
      = (RG.normalise T (pots.get c)).datavector := by
  intro g
  exact hps_disjoint_msgs dom cliques pots T iters rho conv _ hi hd hnd hne c hc

theorem hps_disjoint_keys (dom : Dom) (cliques : List Clique) (pots : CliqueVec ℝ) (T : ℝ) (iters : Nat)
    (rho conv : ℝ) (msgs : RG.Msgs ℝ) (counting : RG.Region → ℝ) (hi : 0 < iters) (hd : Disjoint cliques)
    (hnd : cliques.Nodup) (hne : ∀ c ∈ cliques, c ≠ []) :
    (RG.hps dom (RG.build cliques true true) counting pots T iters rho conv msgs).1.map Prod.fst = cliques := by
  obtain ⟨h1, _⟩ := build_disjoint cliques true true hd hnd hne
  rw [hps_keys _ _ _ _ _ _ _ _ _ hi, h1, buildOn_regions]
  rw [h1, buildOn_regions]; exact hnd

/-! ### loopy belief propagation on a disjoint family

Here the potentials must be well-formed tables over their cliques (as the Python constructs them):
the belief is `potential + Σ_v (zero table over [v])`, and adding a table over `[v]` to a table whose
domain does not contain `v` enlarges the domain (`lbp_disjoint_needs_pots` below). -/

theorem lbp_disjoint (dom : Dom) (cliques : List Clique) (pots : CliqueVec ℝ) (T : ℝ) (iters : Nat)
    (hd : Disjoint cliques) (hnd : cliques.Nodup) (htup : ∀ cl ∈ cliques, cl.Nodup)
    (hpot : ∀ cl ∈ cliques, (pots.get cl).WF ∧ (pots.get cl).dom = dom.project cl)
    (c : Clique) (hc : c ∈ cliques) :
    ((FG.lbp dom cliques pots T iters (FG.initMessages dom cliques)).1.get c).datavector
      = (RG.normalise T (pots.get c)).datavector := by
  rw [lbp_get _ _ _ _ _ _ c hc]
  apply normalise_datavector_congr
  unfold lbpBelief
  exact belief_datavector dom cliques pots ⟨hd, hnd, htup, hpot⟩ _
    (lbp_state_inv dom cliques pots ⟨hd, hnd, htup, hpot⟩ iters) c hc

/-- all three oracles agree on a disjoint family -/
theorem oracles_agree_disjoint (dom : Dom) (cliques : List Clique) (pots : CliqueVec ℝ) (T : ℝ)
    (i1 i2 i3 : Nat) (rho conv : ℝ) (hi : 0 < i2)
    (hd : Disjoint cliques) (hnd : cliques.Nodup) (hne : ∀ c ∈ cliques, c ≠ [])
    (htup : ∀ cl ∈ cliques, cl.Nodup)
    (hpot : ∀ cl ∈ cliques, (pots.get cl).WF ∧ (pots.get cl).dom = dom.project cl)
    (c : Clique) (hc : c ∈ cliques) :
    let g1 := RG.build cliques false true
    let g2 := RG.build cliques true true
    ((RG.gbp dom g1 pots T i1 (RG.initMessages dom g1.messageOrder)).1.get c).datavector =
      ((RG.hps dom g2 (fun _ => 1) pots T i2 rho conv (RG.initMessages dom g2.messageOrder)).1.get c).datavector ∧
    ((RG.gbp dom g1 pots T i1 (RG.initMessages dom g1.messageOrder)).1.get c).datavector =
      ((FG.lbp dom cliques pots T i3 (FG.initMessages dom cliques)).1.get c).datavector := by
  intro g1 g2
  rw [gbp_disjoint dom cliques pots T i1 hd hnd hne c hc,
    hps_disjoint dom cliques pots T i2 rho conv hi hd hnd hne c hc,
    lbp_disjoint dom cliques pots T i3 hd hnd htup hpot c hc]
  exact ⟨rfl, rfl⟩

/-- `hnd` is implied by the other two hypotheses of the `*_disjoint` theorems -/
theorem nodup_of_disjoint (cliques : List Clique) (hd : Disjoint cliques) (hne : ∀ c ∈ cliques, c ≠ []) :
    cliques.Nodup := by
  unfold Disjoint at hd
  refine List.Pairwise.imp_of_mem ?_ hd
  intro a b ha _ hab heq
  subst heq
  cases a with
  | nil => exact hne [] ha rfl
  | cons x xs => exact hab x (by simp) (by simp)

/-- without the hypothesis on the potentials `lbp_disjoint` fails: an absent potential is the scalar
table `zeros []`, and the belief `zeros [] + (message over [a])` has 2 cells instead of 1 -/
theorem lbp_disjoint_needs_pots :
    ¬ (∀ (dom : Dom) (cliques : List Clique) (pots : CliqueVec ℝ) (T : ℝ) (iters : Nat),
        Disjoint cliques → cliques.Nodup → (∀ cl ∈ cliques, cl.Nodup) → ∀ c ∈ cliques,
        ((FG.lbp dom cliques pots T iters (FG.initMessages dom cliques)).1.get c).datavector
          = (RG.normalise T (pots.get c)).datavector) := by
  intro h
  have h1 := h [("a", 2)] [["a"]] [] 1 0 (by simp [Disjoint]) (by simp) (by simp) ["a"] (by simp)
  rw [lbp_get _ _ _ _ _ _ ["a"] (by simp)] at h1
  have hl := congrArg List.length h1
  simp only [Factor.datavector, Array.length_toList, normalise_size] at hl
  have hN := (initMessages_inv [("a", 2)] [["a"]] ["a"] (by simp) "a" (by simp)).1.2.1
  have hbel : (lbpBelief [("a", 2)] [["a"]] ([] : CliqueVec ℝ) 0 (FG.initMessages [("a", 2)] [["a"]]) ["a"]).vals.data.size = 2 := by
    show (Factor.binop Scalar.add (Factor.zeros [])
      ((FG.getN (FG.initMessages [("a", 2)] [["a"]]) "a" ["a"]).addScalar Scalar.zero)).vals.data.size = 2
    rw [binop_size]
    show size (Dom.shape (Dom.merge ([] : Dom) (FG.getN (FG.initMessages [("a", 2)] [["a"]] : FG.State ℝ) "a" ["a"]).dom)) = 2
    rw [hN]
    decide
  rw [hbel] at hl
  have hz : (CliqueVec.get ([] : CliqueVec ℝ) ["a"]).vals.data.size = 1 := by
    show (Factor.zeros ([] : Dom) : Factor ℝ).vals.data.size = 1
    rw [zeros_size]; rfl
  rw [hz] at hl
  exact absurd hl (by decide)

/-! ## non-vacuity: concrete instances of the hypotheses -/
section Examples

def exCliques : List Clique := [["a", "b"], ["c"]]
def exDom : Dom := [("a", 2), ("b", 3), ("c", 2)]
noncomputable def exPots : CliqueVec ℝ :=
  [(["a", "b"], Factor.zeros (exDom.project ["a", "b"])), (["c"], Factor.zeros (exDom.project ["c"]))]
noncomputable def exB : Factor ℝ := ⟨[("a", 2)], ⟨[2], #[0, 1]⟩⟩

theorem exCliques_ok : Disjoint exCliques ∧ exCliques.Nodup ∧ ∀ c ∈ exCliques, c ≠ [] := by
  refine ⟨?_, ?_, ?_⟩ <;> simp [exCliques, Disjoint]

theorem ex_sorted : RG.sortByLen exCliques = [["c"], ["a", "b"]] := by decide

/-- `normalise_valid` -/
example : ValidTable 5 (RG.normalise 5 exB) :=
  (normalise_valid 5 exB (by norm_num) (by simp [exB])).1

/-- `normalise_entry` -/
example : (RG.normalise 5 exB).vals.data[1]? = some (5 * Real.exp 1 / (Real.exp 0 + (Real.exp 1 + 0))) := by
  have := normalise_entry 5 exB (by norm_num) 1 (by simp [exB])
  simpa [exB] using this

/-- `gbp_tables_normalised` / `gbp_keys`: the returned dictionary is not empty -/
example (dom : Dom) (pots : CliqueVec ℝ) (T : ℝ) (iters : Nat) (msgs : RG.Msgs ℝ) :
    (RG.gbp dom (RG.build exCliques false true) pots T iters msgs).1.map Prod.fst = [["c"], ["a", "b"]] := by
  rw [gbp_disjoint_keys dom exCliques pots T iters msgs exCliques_ok.1 exCliques_ok.2.1 exCliques_ok.2.2]
  exact ex_sorted

/-- `hps_tables_normalised` / `hps_keys` -/
example (dom : Dom) (pots : CliqueVec ℝ) (T rho conv : ℝ) (msgs : RG.Msgs ℝ) (c0 : RG.Region → ℝ) :
    (RG.hps dom (RG.build exCliques true true) c0 pots T 3 rho conv msgs).1.map Prod.fst = exCliques :=
  hps_disjoint_keys dom exCliques pots T 3 rho conv msgs c0 (by decide) exCliques_ok.1 exCliques_ok.2.1
    exCliques_ok.2.2

/-- `lbp_tables_normalised` / `lbp_keys` -/
example (dom : Dom) (pots : CliqueVec ℝ) (T : ℝ) (iters : Nat) (s : FG.State ℝ) :
    (FG.lbp dom exCliques pots T iters s).1.map Prod.fst = exCliques :=
  lbp_keys dom exCliques pots T iters s exCliques_ok.2.1

/-- `gbp_disjoint`, `hps_disjoint` -/
example (dom : Dom) (pots : CliqueVec ℝ) (T : ℝ) (iters : Nat) :=
  gbp_disjoint dom exCliques pots T iters exCliques_ok.1 exCliques_ok.2.1 exCliques_ok.2.2 ["c"] (by simp [exCliques])

example (dom : Dom) (pots : CliqueVec ℝ) (T rho conv : ℝ) :=
  hps_disjoint dom exCliques pots T 2 rho conv (by decide) exCliques_ok.1 exCliques_ok.2.1 exCliques_ok.2.2
    ["a", "b"] (by simp [exCliques])

theorem exPots_ok : ∀ r ∈ exCliques, PosDom (exPots.get r).dom ∧ (exPots.get r).vals.data.size ≠ 0 := by
  intro r hr
  simp only [exCliques, List.mem_cons, List.mem_nil_iff, or_false] at hr
  rcases hr with rfl | rfl
  · refine ⟨?_, ?_⟩
    · intro p hp
      simp [exPots, CliqueVec.get, List.lookup, Factor.zeros, Factor.mk', exDom, Dom.project, Dom.cfg] at hp
      rcases hp with rfl | rfl <;> simp
    · simp [exPots, CliqueVec.get, List.lookup, Factor.zeros, Factor.mk', exDom, Dom.project, Dom.cfg,
        NdArr.reshape, NdArr.const, PGM.size, Dom.shape]
  · refine ⟨?_, ?_⟩
    · intro p hp
      simp [exPots, CliqueVec.get, List.lookup, Factor.zeros, Factor.mk', exDom, Dom.project, Dom.cfg] at hp
      subst hp; simp
    · simp [exPots, CliqueVec.get, List.lookup, Factor.zeros, Factor.mk', exDom, Dom.project, Dom.cfg,
        NdArr.reshape, NdArr.const, PGM.size, Dom.shape]

theorem exDom_pos : PosDom exDom := by
  intro p hp
  simp only [exDom, List.mem_cons, List.mem_nil_iff, or_false] at hp
  rcases hp with rfl | rfl | rfl <;> simp

/-- `lbp_tables_valid_init`: every table returned for the example model is a valid table -/
example (iters : Nat) (p : Clique × Factor ℝ)
    (hp : p ∈ (FG.lbp exDom exCliques exPots 10 iters (FG.initMessages exDom exCliques)).1) :
    ValidTable 10 p.2 :=
  lbp_tables_valid_init exDom exCliques exPots 10 iters (by norm_num) exDom_pos
    (by simp [exCliques, exDom, Dom.attrs]) exPots_ok p hp

/-- `gbp_tables_valid_init` on the graph of the example family -/
example (iters : Nat) (p : Clique × Factor ℝ)
    (hp : p ∈ (RG.gbp exDom (RG.build exCliques false true) exPots 10 iters
      (RG.initMessages exDom (RG.build exCliques false true).messageOrder)).1) :
    ValidTable 10 p.2 := by
  obtain ⟨h1, hflat⟩ := build_disjoint exCliques false true exCliques_ok.1 exCliques_ok.2.1 exCliques_ok.2.2
  apply gbp_tables_valid_init exDom _ exPots 10 iters (by norm_num) exDom_pos _ _ p hp
  · intro e he; rw [hflat.order] at he; simp at he
  · intro r hr
    rw [h1, buildOn_cliques, mem_sortByLen] at hr
    exact exPots_ok r hr

end Examples

end PGM.Oracle
