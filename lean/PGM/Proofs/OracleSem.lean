import PGM.Model.RegionGraph
import PGM.Model.FactorGraph
import PGM.Proofs.RealScalar
import PGM.Proofs.Factor
/-!
# Approximate oracles: every returned table is normalised; disjoint families are solved exactly
(statements for C16 and C18), real-number instance `realScalar`
-/
namespace PGM.Oracle
open PGM PGM.JT

/-- a table of mass `T`: strictly positive entries summing to `T` -/
def ValidTable (T : ℝ) (f : Factor ℝ) : Prop :=
  (∀ v ∈ f.datavector, 0 < v) ∧ f.datavector.sum = T

/-- **the common last step** `belief += log(total) − logsumexp(belief); exp` produces a valid table
for every finite belief table and every total > 0 -/
theorem normalise_valid (T : ℝ) (b : Factor ℝ) (hT : 0 < T) (hne : b.vals.data.size ≠ 0) :
    ValidTable T (RG.normalise T b) ∧ (RG.normalise T b).dom = b.dom ∧
    (RG.normalise T b).vals.data.size = b.vals.data.size := by
  sorry

/-- each entry is `T · softmax(b)` -/
theorem normalise_entry (T : ℝ) (b : Factor ℝ) (hT : 0 < T) (i : Nat) (hi : i < b.vals.data.size) :
    (RG.normalise T b).vals.data[i]? =
      some (T * Real.exp (b.vals.data[i]'hi) / ((b.vals.data.toList.map Real.exp).sum)) := by
  sorry

/-- **region-graph propagation returns normalised tables**: for every region graph (whatever its
structure), every potential vector, every total > 0, every sweep count and every state of the
persisted messages, each returned table is `normalise total (some belief)` -/
theorem gbp_tables_normalised (dom : Dom) (g : RG.Graph) (pots : CliqueVec ℝ) (T : ℝ) (iters : Nat)
    (msgs : RG.Msgs ℝ) (p : Clique × Factor ℝ) (hp : p ∈ (RG.gbp dom g pots T iters msgs).1) :
    ∃ b : Factor ℝ, p.2 = RG.normalise T b := by
  sorry

theorem hps_tables_normalised (dom : Dom) (g : RG.Graph) (counting : RG.Region → ℝ) (pots : CliqueVec ℝ)
    (T : ℝ) (iters : Nat) (rho conv : ℝ) (msgs : RG.Msgs ℝ) (p : Clique × Factor ℝ)
    (hp : p ∈ (RG.hps dom g counting pots T iters rho conv msgs).1) :
    ∃ b : Factor ℝ, p.2 = RG.normalise T b := by
  sorry

theorem lbp_tables_normalised (dom : Dom) (cliques : List Clique) (pots : CliqueVec ℝ) (T : ℝ)
    (iters : Nat) (s : FG.State ℝ) (p : Clique × Factor ℝ) (hp : p ∈ (FG.lbp dom cliques pots T iters s).1) :
    ∃ b : Factor ℝ, p.2 = RG.normalise T b := by
  sorry

/-- the cliques share no attribute -/
def Disjoint (cliques : List Clique) : Prop :=
  cliques.Pairwise (fun a b => ∀ x ∈ a, x ∉ b)

/-- **when nothing is relaxed the oracles coincide**: for pairwise disjoint cliques the region graph
has no edges, and generalised propagation returns `normalise total (potential)` on every clique,
for every sweep count and message state -/
theorem gbp_disjoint (dom : Dom) (cliques : List Clique) (pots : CliqueVec ℝ) (T : ℝ) (iters : Nat)
    (hd : Disjoint cliques) (hnd : cliques.Nodup) (hne : ∀ c ∈ cliques, c ≠ [])
    (c : Clique) (hc : c ∈ cliques) :
    let g := RG.build cliques false true
    ((RG.gbp dom g pots T iters (RG.initMessages dom g.messageOrder)).1.get c).datavector
      = (RG.normalise T (pots.get c)).datavector := by
  sorry

theorem hps_disjoint (dom : Dom) (cliques : List Clique) (pots : CliqueVec ℝ) (T : ℝ) (iters : Nat)
    (rho conv : ℝ) (hi : 0 < iters) (hd : Disjoint cliques) (hnd : cliques.Nodup) (hne : ∀ c ∈ cliques, c ≠ [])
    (c : Clique) (hc : c ∈ cliques) :
    let g := RG.build cliques true true
    ((RG.hps dom g (fun _ => 1) pots T iters rho conv (RG.initMessages dom g.messageOrder)).1.get c).datavector
      = (RG.normalise T (pots.get c)).datavector := by
  sorry

end PGM.Oracle
