import PGM.Driver.C14
import PGM.Driver.C15
import PGM.Driver.C12
import PGM.Driver.C01
import PGM.Driver.C04
import PGM.Driver.C09
import PGM.Driver.C19
import PGM.Driver.C03
import PGM.Driver.C08
import PGM.Driver.C11
import PGM.Driver.C16
import PGM.Driver.C18
/-!
Line-protocol driver: one JSON request per input line, one JSON response per output line.
Run with `lake env lean --run Main.lean` or as the compiled `pgmdriver`.
-/
open Lean PGM PGM.Driver

def dispatch (req : Json) : Except String Json := do
  let op ← (← req.getObjVal? "op").getStr?
  match op with
  | "factor" => handleC14 req
  | "dataset" => handleDataset req
  | "domain" => handleDomain req
  | "jt" => handleJT req
  | "jt_picks" => handleJTPicks req
  | "bp" => handleBP req
  | "gm_project" => handleProject req
  | "gm_datavector" => handleGMDatavector req
  | "krondot" => handleKrondot req
  | "many" => handleMany req
  | "loss" => handleLoss req
  | "total" => handleTotal req
  | "emd" => handleEmd req
  | "fw_gap" => handleFWGap req
  | "solve" => handleSolve req
  | "cv" => handleCV req
  | "bp_f" => handleBPF req
  | "mle_f" => handleMLE req
  | "col_check" => handleColCheck req
  | "synth_table" => handleSynthTable req
  | "rg_build" => handleRGBuild req
  | "gbp" => handleGBP req
  | "hps" => handleHPS req
  | "hps_cert" => handleHPSCert req
  | "lbp" => handleLBP req
  | "mda_trace" => handleMdaTrace req
  | "mda_attempt" => handleMdaAttempt req
  | _ => throw s!"unknown op {op}"

def respond (line : String) : String :=
  match Json.parse line with
  | .error e => (Json.mkObj [("ok", false), ("err", s!"parse: {e}")]).compress
  | .ok req =>
    let id := (req.getObjVal? "id").toOption.getD Json.null
    match dispatch req with
    | .ok out => (Json.mkObj [("id", id), ("ok", true), ("out", out)]).compress
    | .error e => (Json.mkObj [("id", id), ("ok", false), ("err", e)]).compress

partial def loop (h : IO.FS.Stream) (out : IO.FS.Stream) : IO Unit := do
  let line ← h.getLine
  if line.isEmpty then return ()
  let t := line.trimAscii.toString
  if t.isEmpty then loop h out else
  out.putStrLn (respond t)
  loop h out

def main : IO Unit := do
  let stdin ← IO.getStdin
  let stdout ← IO.getStdout
  loop stdin stdout
  stdout.flush
