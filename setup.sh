#!/bin/bash
# one-off build after a fresh restore (offline): translator output, Lean library, model driver
set -e
cd "$(dirname "$0")"
if [ -f tools/py2lean.py ]; then
  /venv/bin/python tools/py2lean.py --repo /repo --out lean/PGM/Generated || true
  /venv/bin/python tools/py2flow.py --repo /repo --out lean/PGM/Generated || true
  /venv/bin/python tools/py2dom.py --repo /repo --out lean/PGM/Generated || true
  /venv/bin/python tools/py2cv.py --repo /repo --out lean/PGM/Generated || true
  /venv/bin/python tools/py2factor.py --repo /repo --out lean/PGM/Generated || true
  /venv/bin/python tools/py2total.py --repo /repo --out lean/PGM/Generated || true
  /venv/bin/python tools/py2gm.py --repo /repo --out lean/PGM/Generated || true
  /venv/bin/python tools/py2inf.py --repo /repo --out lean/PGM/Generated || true
fi
cd lean
lake build PGM pgmdriver pgmgen
