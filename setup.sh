#!/bin/bash
# one-off build after a fresh restore (offline): translator output, Lean library, model driver
set -e
cd "$(dirname "$0")"
for t in tools/py2*.py; do
  /venv/bin/python "$t" --repo /repo --out lean/PGM/Generated || true
done
cd lean
lake build PGM pgmdriver pgmgen
