#!/bin/bash
# one-off build after a fresh restore (offline): translator output, Lean library, model driver
set -e
cd "$(dirname "$0")"
# two passes: a translator may read another translator's output (py2gminit reads the binder lists of JunctionTreeG.lean)
for pass in 1 2; do
  for t in tools/py2*.py; do
    /venv/bin/python "$t" --repo /repo --out lean/PGM/Generated >/dev/null 2>&1 || true
  done
done
for t in tools/py2*.py; do
  /venv/bin/python "$t" --repo /repo --out lean/PGM/Generated || true
done
cd lean
lake build PGM pgmdriver pgmgen
