import PGM.Properties.C16F
open PGM PGM.JT PGM.RG PGM.Convex PGM.Sem PGM.GbpFixed PGM.C16F

/- non-vacuity of chain_mid / chain_end with ARBITRARY potentials on AB–BC–CD (the file only instantiates zeros) -/
section
variable (pots : CliqueVec ℝ) (hp : ∀ r ∈ exChain2.regions, On exDom4 r (pots.get r))
include hp

theorem gen_on : ∀ r ∈ exChain2.regions, On exDom4 r (potOf exDom4 exChain2 pots r) := by
  intro r hr
  rw [potOf_eq _ _ _ r (exChain2_cliques r hr)]
  exact hp r hr

noncomputable def gM (pots : CliqueVec ℝ) : Msgs ℝ :=
  newDict exChain2 (potOf exDom4 exChain2 pots) (newDict exChain2 (potOf exDom4 exChain2 pots) [])

theorem gM_fixed : Hyp exDom4 exChain2 (potOf exDom4 exChain2 pots) (gM pots) ∧
    SemFixed exDom4 exChain2 (potOf exDom4 exChain2 pots) (gM pots) := by
  have hb := buildOn_ok [["A", "B"], ["B", "C"], ["C", "D"], ["B"], ["C"]] false true (by decide)
  exact depth2_fixed ⟨exDom4_wf, exChain2_regs, gen_on pots hp, hb.children_sub, hb.parents_dual⟩ exDom4_pos
    (C16F.shape_buildOn _ (by decide) (by decide)) exChain2_depth

theorem gG4 : LbpTree.GraphOK exDom4 [["A", "B"], ["B", "C"], ["C", "D"]] pots := by
  refine ⟨exDom4_wf, by decide, ?_, ?_, ?_⟩
  · intro cl hcl; exact (exChain2_regs cl (by revert cl; decide)).1
  · intro cl hcl; exact (exChain2_regs cl (by revert cl; decide)).2
  · intro cl hcl
    exact hp cl (by revert cl; decide)

example (T : ℝ) (hT : 0 < T) (σ : Attr → Nat) (hσ : exDom4.Valid σ) :
    ((RG.gbp exDom4 exChain2 pots T 0 (gM pots)).1.get ["B", "C"]).sem σ
      = T * LbpTree.marginalR exDom4 [["A", "B"], ["B", "C"], ["C", "D"]] pots ["B", "C"] σ
          / LbpTree.partitionR exDom4 [["A", "B"], ["B", "C"], ["C", "D"]] pots :=
  gbp_fixed_point_exact_chain_mid exDom4 exChain2 pots T (gM pots) (gM_fixed pots hp).1 (gM_fixed pots hp).2 hT _ (gG4 pots hp)
    ["B", "C"] (by decide) (by decide) (by decide) (["A", "B"], ["B"]) (["C", "D"], ["C"]) _ _ _ _
    (Fwd.base _ (by decide) (by decide) (by decide)) (Fwd.base _ (by decide) (by decide) (by decide))
    (by decide) (by decide) (rip_of_bounded (by decide)) (by decide) (rip_of_bounded (by decide))
    (fun a h1 h2 => (by decide : ∀ a ∈ ["A", "B"], (["C", "D"].contains a) = true → a ∈ ["B", "C"]) a
      (List.contains_iff_mem.mp h1) h2)
    (fun τ => by
      rw [potOf_eq _ _ _ _ (by decide : ["B", "C"] ∈ exChain2.cliques)]
      show LbpTree.logJoint _ _ τ = _ + (potOf exDom4 exChain2 pots ["A", "B"]).sem τ
        + (potOf exDom4 exChain2 pots ["C", "D"]).sem τ
      rw [potOf_eq _ _ _ _ (by decide : ["A", "B"] ∈ exChain2.cliques),
        potOf_eq _ _ _ _ (by decide : ["C", "D"] ∈ exChain2.cliques)]
      unfold LbpTree.logJoint
      simp only [List.map_cons, List.map_nil, List.sum_cons, List.sum_nil]
      ring) σ hσ
end
