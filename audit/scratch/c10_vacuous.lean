import PGM.Properties.C10E
open PGM PGM.JT PGM.Sem PGM.Zeros PGM.EstG PGM.EstGen PGM.C01E PGM.C13G PGM.C08E PGM.C10G PGM.E2EZeros PGM.C10E

variable {K : Type} [Field K] [LinearOrder K] [IsStrictOrderedRing K] {V Cb : Type}

theorem foldl_inv' {σ β : Type} (P : σ → Prop) (f : σ → β → σ) (l : List β) (s : σ) (h0 : P s)
    (hs : ∀ s b, P s → P (f s b)) : P (l.foldl f s) := by
  induction l generalizing s with
  | nil => exact h0
  | cons b bs ih => exact ih _ (hs s b h0)

theorem lossL2_one (d : Dom) (cl : List Clique) (ms : List (Loss.Meas (LogOf K))) (mu : CliqueVec (LogOf K)) :
    (InfG.marginalLossL2 d cl ms mu).1 = ⟨1⟩ := by
  unfold InfG.marginalLossL2
  apply foldl_inv' (fun st : LogOf K × CliqueVec (LogOf K) => st.1 = ⟨1⟩)
  · rfl
  · intro st c hst
    apply foldl_inv' (fun st : LogOf K × CliqueVec (LogOf K) => st.1 = ⟨1⟩)
    · exact hst
    · intro st' it h'
      show (⟨st'.1.v * 1⟩ : LogOf K) = ⟨1⟩
      rw [h']; simp

theorem sum_ones (l : List (LogOf K)) (h : ∀ x ∈ l, x = ⟨1⟩) : Scalar.sum l = (⟨1⟩ : LogOf K) := by
  unfold Scalar.sum
  suffices ∀ (a : LogOf K), a = ⟨1⟩ → l.foldl Scalar.add a = ⟨1⟩ from this _ rfl
  induction l with
  | nil => intro a ha; exact ha
  | cons b bs ih =>
    intro a ha
    apply ih (fun x hx => h x (List.mem_cons_of_mem _ hx))
    rw [ha, h b (List.mem_cons_self ..)]
    show (⟨1 * 1⟩ : LogOf K) = ⟨1⟩
    simp

theorem lossL1_one (d : Dom) (cl : List Clique) (ms : List (Loss.Meas (LogOf K))) (mu : CliqueVec (LogOf K)) :
    (InfG.marginalLossL1 d cl ms mu).1 = ⟨1⟩ := by
  unfold InfG.marginalLossL1
  apply foldl_inv' (fun st : LogOf K × CliqueVec (LogOf K) => st.1 = ⟨1⟩)
  · rfl
  · intro st c hst
    apply foldl_inv' (fun st : LogOf K × CliqueVec (LogOf K) => st.1 = ⟨1⟩)
    · exact hst
    · intro st' it h'
      show Scalar.add st'.1 (Scalar.sum _) = (⟨1⟩ : LogOf K)
      rw [h', sum_ones]
      · show (⟨1 * 1⟩ : LogOf K) = ⟨1⟩; simp
      · intro x hx
        simp only [List.mem_map] at hx
        obtain ⟨y, ⟨z, _, rfl⟩, rfl⟩ := hx
        show Loss.absS (⟨1⟩ : LogOf K) = ⟨1⟩
        unfold Loss.absS
        show (if decide ((1:K) < 1) then (⟨1⟩ : LogOf K) else ⟨(1:K)⁻¹⟩) = ⟨1⟩
        simp

theorem eq0_one : InfG.eq0 (⟨1⟩ : LogOf K) = true := by
  show (!decide ((1:K) < 1) && !decide ((1:K) < (1:K)⁻¹)) = true
  simp

/-- AT THE CARRIER `LogOf K` THE GENERATED `estimate(engine='MD')` ALWAYS TAKES THE EARLY RETURN: `marginals` is never stored,
and the returned potentials are those of `_setup` -/
theorem md_always_early (nx : Nx) (estT : List (Loss.Meas (LogOf K)) → LogOf K)
    (logf : Factor (LogOf K) → Factor (LogOf K)) (topEigs : List (Loss.Meas (LogOf K)) → List (LogOf K))
    (logger : V) (cbVal : Option Cb → V) (s : Est (LogOf K)) (a : Args (LogOf K) V Cb) (hMD : a.engine = "MD") :
    ∃ g, (estimateG (gmC nx) estT (bpO nx) (mleO logf nx) topEigs logger cbVal s a).2.2 = some g ∧
      g.marginals = none ∧ g.potentials = theta0 (gmC nx) s (measOf s a) := by
  obtain ⟨g, h1, _, _, _, _, ps⟩ := gen_estimate_returns_coherent_pair nx estT logf topEigs logger cbVal s a (Or.inl hMD)
  refine ⟨g, h1, ?_⟩
  have hl : (lossOf s.cfg (freshGM (gmC nx) estT s a) (measOf s a)
          (bpO nx (freshGM (gmC nx) estT s a) (freshGM (gmC nx) estT s a).potentials)).1 = ⟨1⟩ := by
    unfold lossOf
    cases s.cfg.metric
    · exact lossL2_one ..
    · exact lossL1_one ..
  rcases ps.md hMD with ⟨_, h2, h3⟩ | ⟨h2, _⟩
  · exact ⟨h2, h3⟩
  · rw [hl, eq0_one] at h2; cases h2

#print axioms md_always_early

/-- the antecedent `g.marginals = some m` of `gen_estimate_answers_valid(_closed/_nozeros)` and of clause 3 of
`gen_estimate_zeros_end_to_end*` is NEVER satisfied -/
theorem answers_valid_antecedent_false (nx : Nx) (estT : List (Loss.Meas (LogOf K)) → LogOf K)
    (logf : Factor (LogOf K) → Factor (LogOf K)) (topEigs : List (Loss.Meas (LogOf K)) → List (LogOf K))
    (logger : V) (cbVal : Option Cb → V) (s : Est (LogOf K)) (a : Args (LogOf K) V Cb) (hMD : a.engine = "MD")
    (g : GM (LogOf K)) (hg : (estimateG (gmC nx) estT (bpO nx) (mleO logf nx) topEigs logger cbVal s a).2.2 = some g)
    (m : CliqueVec (LogOf K)) : g.marginals ≠ some m := by
  obtain ⟨g', hg', hn, _⟩ := md_always_early nx estT logf topEigs logger cbVal s a hMD
  have : g' = g := Option.some.inj (hg'.symm.trans hg)
  subst this; rw [hn]; exact fun h => by cases h
#print axioms answers_valid_antecedent_false
