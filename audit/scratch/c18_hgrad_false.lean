import PGM.Properties.C18E
open PGM PGM.JT PGM.Local PGM.LocalE2E PGM.Oracle PGM.C18E

def d1 : Dom := [("a", 2)]
def ms1 : List (Loss.Meas ℝ) := [⟨[], [], 1, ["a"]⟩]
/-- a table with valid VALUES ([10], positive, sum 10) but a junk domain -/
def badF : Factor ℝ := ⟨[], ⟨[1], #[10]⟩⟩
def badMu : CliqueVec ℝ := [(["a"], badF)]

theorem cl1 : LocalG.setupCliques ms1 ([] : CliqueVec ℝ) = [["a"]] := rfl

theorem badMu_tables : TablesOn 10 [["a"]] badMu := by
  refine ⟨rfl, ?_⟩
  intro p hp
  simp only [badMu, List.mem_singleton] at hp
  subst hp
  refine ⟨?_, ?_⟩
  · intro v hv
    simp [badF, Factor.datavector] at hv
    subst hv; norm_num
  · simp [badF, Factor.datavector]

/-- hgrad of `gen_local_estimate_tables_valid_pairwise` is FALSE for the generated `_marginal_loss` -/
theorem hgrad_false_for_generated_loss :
    ¬ (∀ mu, TablesOn 10 (LocalG.setupCliques ms1 []) mu →
        Laid d1 (LocalG.setupCliques ms1 []) (LocalG.marginalLossL2 d1 (LocalG.setupCliques ms1 []) ms1 mu).2) := by
  intro h
  have h1 := h badMu (by rw [cl1]; exact badMu_tables)
  have h2 := (h1.get ["a"] (by rw [cl1]; simp)).2
  have : ((LocalG.marginalLossL2 d1 (LocalG.setupCliques ms1 []) ms1 badMu).2.get ["a"]).dom = [] := by
    rfl
  rw [this] at h2
  exact absurd h2 (by decide)

#print axioms hgrad_false_for_generated_loss
