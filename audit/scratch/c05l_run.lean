import PGM.Properties.C05L
open PGM.Flow PGM.Gen.Flow PGM.C05L
set_option maxRecDepth 100000
/-- like exI but opaque calls return 3 (so lists have 3 elements, r = 3) -/
def exJ : Interp ℕ where
  lit c := if c = "1" then 1 else if c = "2" then 2 else 0
  call f args :=
    match f, args with
    | "op:Add", [a, b] => a + b
    | "op:Sub", [a, b] => a - b
    | "fn:len", [v] => v
    | "fn:range", [b] => b
    | "fn:range", [a, b] => b - a
    | "fn:zip", [a, b] => min a b
    | _, _ => 3
  elems v := List.replicate v 0
  truthy _ := false
theorem exJ_laws : NumLaws exJ id where
  one := by decide
  two := by decide
  add := fun a b => rfl
  sub := fun a b => rfl
  len := fun v => by show v = (List.replicate v 0).length; simp
  range1 := fun b => by show (List.replicate b 0).length = b; simp
  range2 := fun a b => by show (List.replicate (b - a) 0).length = b - a; simp
#eval (exec exJ (fun _ => 3) 1000 mstProg (exS0 0)).map State.kinds
#eval (exec exJ (fun _ => 3) 1000 aimProg (exS0 0)).map State.kinds
#eval (exec exJ (fun _ => 3) 1000 adagridProg (exS0 0)).map State.kinds
#eval (exec exJ (fun _ => 3) 1000 mstProg (exS0 0)).map (fun s => (s.env "r@select15"))
