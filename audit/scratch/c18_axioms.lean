import PGM.Properties.C18E
#print axioms PGM.C18E.gen_local_estimate_tables_valid_approx
#print axioms PGM.C18E.gen_local_estimate_tables_valid_pairwise
#print axioms PGM.C18E.gen_local_estimate_tables_valid_convex
#print axioms PGM.C18E.gen_local_disjoint_exact_form
#print axioms PGM.C18E.gen_disjoint_call_is_exact
#print axioms PGM.C18E.objLBPfull_not_frame
