import PGM.Properties.C06D
open PGM PGM.MstDom PGM.MstDomG PGM.C06D
#print axioms PGM.C06D.gen_MST_original_domain
#print axioms PGM.C06D.gen_reverse_in_original_domain
#print axioms PGM.C06D.gen_compress_domain_spec

/- wrong-implementation probe 1: a `choice` that ignores `extra` (returns code 0 always) is NOT admissible,
   and the conclusion fails for it on the Ex instance (so `Admissible` is really used) -/
def badChoice : Nat → List Nat → Nat → List Nat := fun _ _ k => List.replicate k 7
example : ¬ (reverse_data badChoice 0 Ex.synth (supportsOf Ex.ms)).Over Ex.dom 4 := by
  intro h
  have := (h.2.2 ("a", 4) (by decide)).2
  revert this
  unfold ColIn
  decide

/- probe 2: hsynth cannot be dropped: an engine returning a table over the WRONG domain breaks the conclusion -/
def Obad : Oracles Int (List Int) (Dom × Nat) Dom := { Ex.O with synthetic_data := fun _ _ => { df := [], domain := [] } }
example : ¬ ∃ rows, (MST Obad Ex.choice 0 Ex.data 1 1).Over Ex.data.domain rows := by
  rintro ⟨rows, h⟩
  have := h.2.1
  revert this
  decide
