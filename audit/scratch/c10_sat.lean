import PGM.Properties.C10E
open PGM PGM.JT PGM.Sem PGM.Zeros PGM.EstG PGM.EstGen PGM.C01E PGM.C13G PGM.C08E PGM.C10G PGM.E2EZeros PGM.C10E PGM.C12G
open PGM.C01 (exD exCl)

def zs1 : List ZeroSpec := [⟨["b"], [[0]]⟩]
def cl3 : List Clique := exCl ++ [["b"]]
def estZ : Est (LogOf ℚ) := ⟨⟨exD, Metric.L2, false, 3, false, some exElim, zeroVec exD zs1⟩, none, none⟩

theorem mg : JTG.make_graph exD cl3 = JTG.make_graph exD exCl := by
  have h1 : (JTG.make_graph exD cl3).nodes = (JTG.make_graph exD exCl).nodes := by decide
  have h2 : (JTG.make_graph exD cl3).edges = (JTG.make_graph exD exCl).edges := by decide
  calc JTG.make_graph exD cl3 = ⟨(JTG.make_graph exD cl3).nodes, (JTG.make_graph exD cl3).edges⟩ := rfl
    _ = ⟨(JTG.make_graph exD exCl).nodes, (JTG.make_graph exD exCl).edges⟩ := by rw [h1, h2]
    _ = _ := rfl
theorem gt : genTree exNx exD cl3 (.given exElim) = genTree exNx exD exCl (.given exElim) := by
  show JTG.make_tree_given _ _ exD (JTG.make_graph exD (cl3.map fun c => c)) _ = JTG.make_tree_given _ _ exD (JTG.make_graph exD (exCl.map fun c => c)) _
  rw [List.map_id', List.map_id', mg]

theorem adm3 : Admissible exNx exD cl3 (.given exElim) where
  mode_ok := ex_admissible.mode_ok
  tos := ex_admissible.tos
  tos_sep := ex_admissible.tos_sep
  choice := ex_admissible.choice
  nx_tree := by
    have h := ex_admissible.nx_tree
    unfold NxContracts at h ⊢
    rw [gt, mg]; exact h
  topo_order := by rw [gt]; exact ex_admissible.topo_order
  topo_sep := by rw [gt]; exact ex_admissible.topo_sep
  dfs_cliques := by rw [gt]; exact ex_admissible.dfs_cliques
  dfs_nbrs := by rw [gt]; exact ex_admissible.dfs_nbrs

theorem inc : inCliques estZ.cfg (measOf estZ exArgs) = cl3 := by decide

example := gen_estimate_answers_valid_closed exNx (fun _ => (⟨1⟩ : LogOf ℚ)) id (fun _ => []) (0:Nat) (fun (_ : Option Nat) => (0:Nat))
  estZ exArgs rfl zs1 rfl (Or.inl rfl) (by decide) (by decide) (by decide)
  (by rw [inc]; decide) (by rw [inc]; exact adm3)
  (by
    intro z hz
    simp only [zs1, List.mem_singleton] at hz
    subst hz
    refine ⟨by decide, by decide, ["a","b"], ?_, by decide⟩
    show ["a","b"] ∈ (genInit exNx exD (inCliques estZ.cfg (measOf estZ exArgs)) () (modeOf estZ.cfg.elim_order)).cliques
    rw [inc]
    decide +kernel)
