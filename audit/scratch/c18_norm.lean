import PGM.Properties.C18E
open PGM PGM.JT PGM.Local PGM.LocalE2E PGM.Oracle PGM.C18E PGM.C18.LocalG

def d1 : Dom := [("a", 2)]
def ms1 : List (Loss.Meas ℝ) := [⟨[], [], 1, ["a"]⟩]
noncomputable def th0 : CliqueVec ℝ := CliqueVec.zerosV d1 [["a"]]
/-- the exact normalised table's VALUES under a junk domain -/
noncomputable def junk : CliqueVec ℝ := [(["a"], ⟨[], (RG.normalise 10 (th0.get ["a"])).vals⟩)]

theorem junk_normalised : NormalisedOn d1 [["a"]] 10 junk := by
  refine ⟨th0, laid_zerosV d1 [["a"]] (by intro c hc; simp at hc; subst hc; decide), ?_⟩
  intro c hc
  simp at hc; subst hc
  rfl

/-- the hgrad hypothesis of conjunct 4 of `gen_local_disjoint_exact_form` is false for the generated loss -/
theorem hgrad_disjoint_false :
    ¬ (∀ mu, NormalisedOn d1 [["a"]] 10 mu → Laid d1 [["a"]] (LocalG.marginalLossL2 d1 [["a"]] ms1 mu).2) := by
  intro h
  have h2 := ((h junk junk_normalised).get ["a"] (by simp)).2
  have : ((LocalG.marginalLossL2 d1 [["a"]] ms1 junk).2.get ["a"]).dom = [] := rfl
  rw [this] at h2
  exact absurd h2 (by decide)
#print axioms hgrad_disjoint_false
