import PGM.Properties.C17G
open PGM PGM.JT PGM.RG PGM.Convex PGM.Oracle

#print axioms PGM.C17G.gen_hps_certificate_source
#print axioms PGM.C17G.gen_hps_certificate_built

/- (c) a deliberately WRONG oracle: zero sweeps, returns the initial messages.  Conjuncts 2,3,4 of
   gen_hps_certificate_source hold for it verbatim. -/
theorem wrong_oracle_passes (dom : Dom) (cliques : List Region) (minimal : Bool) (potentials : CliqueVec ℝ) (T : ℝ)
    (hT : 0 < T) (hd : dom.WF) (hsz : ∀ p ∈ dom, 0 < p.2) (hcl : ∀ c ∈ cliques, PGM.Convex.RegOK dom c)
    (hp : ∀ r ∈ (RG.build cliques true minimal).regions, (potentials.get r).WF ∧ (potentials.get r).dom = dom.project r) :
    let g := RG.build cliques true minimal
    let pot := potOf dom g potentials
    let out2 := initMessages (α := ℝ) dom g.messageOrder
    PGM.Convex.Shape dom g pot out2 ∧
    (∀ q, PGM.Convex.LocallyConsistent dom g T q → primalValue g pot T q ≤ dualValue g pot T out2) ∧
    (PGM.Convex.LocallyConsistent dom g T (lagrangianBeliefs g pot T out2) →
      primalValue g pot T (lagrangianBeliefs g pot T out2) = dualValue g pot T out2) := by
  intro g pot out2
  have hpot : ∀ r ∈ g.regions, (pot r).WF ∧ (pot r).dom = dom.project r := by
    intro r hr
    show (potOf dom g potentials r).WF ∧ (potOf dom g potentials r).dom = dom.project r
    unfold potOf
    split
    · exact hp r hr
    · exact PGM.Convex.zeros_on ((PGM.Convex.closure_ok dom cliques hcl).2 r hr)
  have hs := (PGM.C17.build_shape dom cliques true minimal pot hd hsz hcl hpot).1
  exact ⟨hs, fun q hq => PGM.C17.weak_duality dom g pot T _ q hT hs hq,
    fun hb => (PGM.C17.strong_at_consistency dom g pot T _ hT hs hb).1⟩
