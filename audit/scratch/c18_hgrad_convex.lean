import PGM.Properties.C18E
open PGM PGM.JT PGM.Local PGM.LocalE2E PGM.Oracle PGM.C18E

/-- perfectly well-formed uniform tables on the regions [ab, bc, b] of exMeas, total 6 -/
def goodMu : CliqueVec ℝ :=
  [(["a","b"], ⟨[("a",2),("b",3)], ⟨[2,3], #[1,1,1,1,1,1]⟩⟩),
   (["b","c"], ⟨[("b",3),("c",2)], ⟨[3,2], #[1,1,1,1,1,1]⟩⟩),
   (["b"], ⟨[("b",3)], ⟨[3], #[2,2,2]⟩⟩)]

theorem regs : (genGraphConvex exDom (LocalG.setupCliques exMeas [])).regions = [["a","b"],["b","c"],["b"]] := by
  have : LocalG.setupCliques exMeas ([] : CliqueVec ℝ) = [["a","b"],["b","c"]] := rfl
  unfold genGraphConvex
  rw [this]
  decide
theorem cls : (genGraphConvex exDom (LocalG.setupCliques exMeas [])).cliques = [["b"],["a","b"],["b","c"]] := by
  have : LocalG.setupCliques exMeas ([] : CliqueVec ℝ) = [["a","b"],["b","c"]] := rfl
  unfold genGraphConvex
  rw [this]
  decide

theorem goodMu_tables : TablesOn 6 (genGraphConvex exDom (LocalG.setupCliques exMeas [])).regions goodMu := by
  rw [regs]
  refine ⟨rfl, ?_⟩
  intro p hp
  simp only [goodMu, List.mem_cons, List.not_mem_nil, or_false] at hp
  rcases hp with rfl | rfl | rfl <;> refine ⟨?_, ?_⟩ <;> simp [Factor.datavector] <;> norm_num

theorem goodMu_laid : Laid exDom [["a","b"],["b","c"],["b"]] goodMu := by
  refine ⟨rfl, ?_⟩
  intro p hp
  simp only [goodMu, List.mem_cons, List.not_mem_nil, or_false] at hp
  rcases hp with rfl | rfl | rfl <;> exact ⟨by decide, by decide⟩

/-- hgrad of `gen_local_estimate_tables_valid_convex` is FALSE for the generated `_marginal_loss`, even at well-formed marginals:
the gradient is keyed like `mu` (by `regions`), hgrad wants it keyed by `cliques = sorted(regions, key=len)` -/
theorem hgrad_convex_false :
    ¬ (∀ mu, TablesOn 6 (genGraphConvex exDom (LocalG.setupCliques exMeas [])).regions mu →
        Laid exDom (genGraphConvex exDom (LocalG.setupCliques exMeas [])).cliques
          (LocalG.marginalLossL2 exDom (genGraphConvex exDom (LocalG.setupCliques exMeas [])).cliques exMeas mu).2) := by
  intro h
  have h1 := (h goodMu goodMu_tables).1
  rw [cls] at h1
  have : (LocalG.marginalLossL2 exDom [["b"],["a","b"],["b","c"]] exMeas goodMu).2.map Prod.fst
      = [["a","b"],["b","c"],["b"]] := by rfl
  rw [this] at h1
  exact absurd h1 (by decide)

/-- and for ANY loss whose gradient has the keys of its argument (what `_marginal_loss` does: `for cl in marginals`) -/
theorem hgrad_convex_false_any (loss : CliqueVec ℝ → ℝ × CliqueVec ℝ)
    (hkeys : ∀ mu, (loss mu).2.map Prod.fst = mu.map Prod.fst) :
    ¬ (∀ mu, TablesOn 6 (genGraphConvex exDom (LocalG.setupCliques exMeas [])).regions mu →
        Laid exDom (genGraphConvex exDom (LocalG.setupCliques exMeas [])).cliques (loss mu).2) := by
  intro h
  have h1 := (h goodMu goodMu_tables).1
  rw [cls, hkeys] at h1
  exact absurd h1 (by decide)

#print axioms hgrad_convex_false
#print axioms hgrad_convex_false_any
