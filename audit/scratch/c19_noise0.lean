import PGM.Properties.C19E
open PGM PGM.Public
theorem zw0 {β γ : Type} (a : List β) (b : List γ) : (List.zipWith (fun _ _ => (0:ℝ)) a b).sum = 0 := by
  induction a generalizing b with
  | nil => simp
  | cons x xs ih => cases b <;> simp [ih]
/-- a measurement with noise 0 contributes 0 to the objective at EVERY weight vector (x/0 = 0): the never-worse
inequality is `0 ≤ 0` for it, while Python computes `1.0/noise` -> ZeroDivisionError / inf -/
example (pub : Dataset ℝ) (Q : List (List ℝ)) (y : List ℝ) (cl : List Attr) (w : List ℝ) :
    measLossL2 pub [⟨Q, y, 0, cl⟩] w = 0 ∧ measLossL1 pub [⟨Q, y, 0, cl⟩] w = 0 := by
  constructor <;> simp [measLossL2, measLossL1, resid, zw0]
