import PGM.Properties.C16F
import PGM.Properties.C17G
open PGM PGM.JT PGM.RG PGM.Convex PGM.Sem PGM.GbpFixed PGM.RGGen

/-- suggested repair: the two-clique exactness re-stated for the REGENERATED oracle (one rewrite with `gen_gbp`) -/
theorem gen_gbp_fixed_point_exact_two_cliques (dom : Dom) (g : RG.Graph) (pots : CliqueVec ℝ) (T : ℝ) (m : Msgs ℝ)
    (h : Hyp dom g (potOf dom g pots) m) (hfix : SemFixed dom g (potOf dom g pots) m) (hT : 0 < T)
    (c1 c2 s : Region) (hne : c1 ≠ c2) (hc1 : c1 ∈ g.regions) (hc1' : c1 ∈ g.cliques) (hc2' : c2 ∈ g.cliques)
    (he2 : (c2, s) ∈ g.messageOrder)
    (hN : look g.N (c2, s) = []) (hD : look g.D (c2, s) = []) (hB1 : look g.B c1 = [(c2, s)])
    (hsep : ∀ a, a ∈ s ↔ (a ∈ c1 ∧ a ∈ c2)) (σ : Attr → Nat) (hσ : dom.Valid σ) :
    ((RGG.generalizedBeliefPropagation dom g.regions g.cliques g.N g.D g.B g.messageOrder T 0 pots m).1.get c1).sem σ
      = T * LbpTree.marginalR dom [c1, c2] pots c1 σ / LbpTree.partitionR dom [c1, c2] pots := by
  rw [PGM.C17G.gen_gbp dom g pots T 0 m (fun e he => (h.order_sound e he).1)]
  exact C16F.gbp_fixed_point_exact_two_cliques dom g pots T m h hfix hT c1 c2 s hne hc1 hc1' hc2' he2 hN hD hB1 hsep σ hσ
