import PGM.Properties.C19E
open PGM
#eval Total.matVec ([[1,2]] : List (List ℚ)) (Total.solve (Total.gram [[1,2]]) (List.replicate (Total.ncols ([[1,2]] : List (List ℚ))) 1))
#eval Total.matVec ([[1,0],[1,2]] : List (List ℚ)) (Total.solve (Total.gram [[1,0],[1,2]]) (List.replicate 2 1))
#print axioms PGM.C19E.gen_reweighting_never_worse_than_uniform
#print axioms PGM.C19E.gen_reweighting_never_worse_than_uniform_estimated
#print axioms PGM.C19E.gen_lossAndGrad_is_measurement_loss
#print axioms PGM.C19E.gen_lossAndGrad_eq_lossgradQuad
#print axioms PGM.C18E.gen_local_estimate_tables_valid_approx
#print axioms PGM.C18E.gen_local_estimate_tables_valid_pairwise
#print axioms PGM.C18E.gen_local_estimate_tables_valid_convex
#print axioms PGM.C18E.gen_local_disjoint_exact_form
#print axioms PGM.C18E.gen_disjoint_call_is_exact
