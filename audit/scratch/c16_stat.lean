import PGM.Properties.C16F
open PGM PGM.JT PGM.RG PGM.Convex PGM.Sem PGM.GbpFixed

/-- On a flat graph (N = D = ∅, e.g. every two-clique junction tree), if the state reached after `n` sweeps from `m`
is a (cell-wise) fixed point, then `m` ITSELF already had the fixed-point values: the damped iteration never
reaches a fixed point it did not start at. -/
theorem stationary_forces_start {dom : Dom} {g : RG.Graph} {pot : Region → Factor ℝ}
    (hND : ∀ e ∈ g.messageOrder, look g.N e = [] ∧ look g.D e = []) :
    ∀ (n : Nat) (m : Msgs ℝ), Hyp dom g pot m → SemFixed dom g pot (iterate (gbpSweep g pot) n m) →
      ∀ e ∈ g.messageOrder, ∀ σ, dom.Valid σ → (m.get e).sem σ = (newMsg g pot [] [] e).sem σ := by
  have hindep : ∀ e ∈ g.messageOrder, ∀ msgs new : Msgs ℝ, newMsg g pot msgs new e = newMsg g pot [] [] e := by
    intro e he msgs new
    unfold newMsg
    rw [(hND e he).1, (hND e he).2]
    rfl
  have step : ∀ (m : Msgs ℝ), Hyp dom g pot m → ∀ e ∈ g.messageOrder, ∀ σ, dom.Valid σ →
      ((gbpSweep g pot m).get e).sem σ = ((m.get e).sem σ + (newMsg g pot [] [] e).sem σ) / 2 := by
    intro m h e he σ hσ
    have hs := newDict_sub h e he
    rw [gbpSweep_get g pot m h.order_nodup e, if_pos he,
      damp2_sem h.gok.dom_wf (h.msg_sub he) hs hσ,
      newDict_get g pot m h.order_nodup h.D_before e he, hindep e he]
  intro n
  induction n with
  | zero =>
    intro m h hfix e he σ hσ
    have h1 := hfix e he σ hσ
    show (m.get e).sem σ = _
    have h2 := step m h e he σ hσ
    simp only [iterate] at h1
    linarith
  | succ n ih =>
    intro m h hfix e he σ hσ
    have h1 := ih (gbpSweep g pot m) h.sweep hfix e he σ hσ
    have h2 := step m h e he σ hσ
    linarith

/-- cold start on `A-B / B-C / B`: if `gbp_stationary`'s hypothesis held for some `n0`, every fixed-point message
would be the zero function — impossible for normalised messages on a region with ≥ 2 cells. -/
example (pot : Region → Factor ℝ) (hpot : ∀ r ∈ C16F.exG.regions, On C16F.exDom r (pot r)) (n0 : Nat)
    (hstat : gbpSweep C16F.exG pot (iterate (gbpSweep C16F.exG pot) n0 []) = iterate (gbpSweep C16F.exG pot) n0 []) :
    ∀ e ∈ C16F.exG.messageOrder, ∀ σ, C16F.exDom.Valid σ → (newMsg C16F.exG pot [] [] e).sem σ = 0 := by
  have hb := buildOn_ok [["A", "B"], ["B", "C"], ["B"]] false true (by decide)
  have h0 : Hyp C16F.exDom C16F.exG pot [] :=
    hyp_nil ⟨C16F.exDom_wf, C16F.exG_regs, hpot, hb.children_sub, hb.parents_dual⟩ C16F.exDom_pos C16F.exG_shape
  intro e he σ hσ
  have := stationary_forces_start C16F.exG_flat n0 [] h0 (semFixed_of_eq _ _ _ _ hstat) e he σ hσ
  rw [← this]
  exact zeros_sem_real [] σ
#print axioms stationary_forces_start
