import PGM.Properties.C01E
open PGM PGM.JT PGM.C01E PGM.C12G
open PGM.C01 (exD exCl exT exOrd exPots)
set_option maxRecDepth 100000
-- int mode, one randomised run with draws [0,0,0]
theorem ex_int_order : (genTree exNx exD exCl (.int [[0,0,0]])).2 = ["a", "b", "c"] ∨ (genTree exNx exD exCl (.int [[0,0,0]])).2 = exElim := by
  left; decide +kernel
theorem ex_admissible_int : Admissible exNx exD exCl (.int [[0,0,0]]) where
  mode_ok := by intro p hp; simp at hp; subst hp; decide
  tos := fun l => List.Perm.refl l
  tos_sep := fun l => List.reverse_perm l
  choice := fun _ _ => rfl
  nx_tree := by
    have h : (genTree exNx exD exCl (.int [[0,0,0]])).2 = ["a", "b", "c"] := by decide +kernel
    rw [h]
    refine ⟨?_, ?_⟩
    · rw [ex_tri _ _ (Or.inr rfl)]; exact exG_family
    · exact (ex_complete ["a", "b", "c"]).symm ▸ ex_mst exT (by decide) (by decide) (by decide) (by decide)
  topo_order := by decide +kernel
  topo_sep := by decide +kernel
  dfs_cliques := by decide +kernel
  dfs_nbrs := by decide +kernel
-- can a WRONG find_cliques be admissible?  (returns only one of the two maximal cliques)
example : ¬ IsMaxCliqueFamily exG [["a","b"]] := by
  intro h
  obtain ⟨n, hn, hsub⟩ := h.complete ["b","c"] ⟨by decide, by decide, by decide⟩
  simp at hn; subst hn
  have := hsub "c" (by decide)
  revert this; decide
