import PGM.Properties.C16F
import PGM.Properties.C06
open PGM PGM.C16F
#print axioms gbp_fixed_point_consistent
#print axioms gbp_fixed_point_consistent_buildOn
#print axioms gbp_fixed_point_exact_two_cliques
#print axioms gbp_fixed_point_exact_two_cliques_separator
#print axioms gbp_stationary_exact_two_cliques
#print axioms gbp_fixed_point_exact_chain_end
#print axioms gbp_fixed_point_exact_chain_mid
#print axioms C16F.shape_buildOn
#print axioms PGM.C06.mst_noninterference
open PGM.Flow in
example : flowOK 10 [("data", .H)] (.ret (.var "data")) = false := by decide
open PGM.Flow in
example : flowOK 10 [("data", .H)] (.seq (.assign "x" (.call "f" [.var "data"])) (.ret (.var "x"))) = false := by decide
open PGM.Flow in  -- released value is L even when used as a scale later: ok by design
example : flowOK 10 [("data", .H)] (.seq (.release "y" (.var "data") (.lit "1")) (.ret (.var "y"))) = true := by decide
