import PGM.Properties.C18E
open PGM PGM.JT PGM.Local PGM.LocalE2E PGM.Oracle PGM.C18E PGM.C18.LocalG

/-! (1) pairwise headline: the `∃ mu st, …` part of the conclusion follows from `Laid dom cl m.potentials` ALONE —
no run, no `estimate` hypothesis: it does not say which tables the run stored. -/
theorem pairwise_mu_part_is_free (dom : Dom) (cl : List Clique) (T : ℝ) (inner : Nat)
    (hT : 0 < T) (hdom : PosDom dom) (hnd : cl.Nodup) (hcl : ∀ c ∈ cl, PGM.Convex.RegOK dom c)
    (θ : CliqueVec ℝ) (hθ : Laid dom cl θ) :
    ∃ mu st, FGInv T st ∧ st.total = T ∧
      mu = (FGG.loopyBeliefPropagation dom cl T inner st.messages θ).1 ∧
      mu = (FGG.loopyBeliefPropagation dom cl T inner st.messages θ).2.2.2.2 ∧
      TablesOn T cl mu := by
  let st0 : FGState ℝ := ⟨θ, (FGG.init dom cl T inner).2.2.2.2.2.2.2.2.2.1, T⟩
  have hI : FGInv T st0 := by
    refine ⟨?_, rfl⟩
    show PosState (⟨((FGG.init dom cl T inner).2.2.2.2.2.2.2.2.2.1).1, ((FGG.init dom cl T inner).2.2.2.2.2.2.2.2.2.1).2⟩ : FG.State ℝ)
    rw [C16.FGG.gen_init_messages]
    exact fg_initMessages_pos dom cl hdom (fun c hc => (hcl c hc).2)
  have hk := keeps_lbp dom cl inner T (fun _ => (0, CliqueVec.zerosV dom cl)) hT hdom hnd hcl
    (fun mu _ => laid_zerosV dom cl (fun c hc => (hcl c hc).1))
  have hb := (hk.bp st0 θ hI hθ).1
  exact ⟨_, st0, hI, rfl, rfl, rfl, hb⟩

/-! (2) 'approx': hgrad false for the generated loss (junk-domain table with valid values) -/
def d1 : Dom := [("a", 2)]
def ms1 : List (Loss.Meas ℝ) := [⟨[], [], 1, ["a"]⟩]
def badMu : CliqueVec ℝ := [(["a"], ⟨[], ⟨[1], #[10]⟩⟩)]

theorem cls1 : (genGraphApprox d1 (LocalG.setupCliques ms1 [])).cliques = [["a"]] := by
  have hcl : ∀ c ∈ LocalG.setupCliques ms1 ([] : CliqueVec ℝ), PGM.Convex.RegOK d1 c := by
    intro c hc
    have : LocalG.setupCliques ms1 ([] : CliqueVec ℝ) = [["a"]] := rfl
    rw [this] at hc; simp at hc; subst hc; exact ⟨by decide, by decide⟩
  have hr := genRegions_ok d1 (LocalG.setupCliques ms1 ([] : CliqueVec ℝ)) false hcl
  obtain ⟨f1, f2, -⟩ := C17G.genGraphN'_fields d1 (genRegions (LocalG.setupCliques ms1 ([] : CliqueVec ℝ)) false) true
    (fuelOf (genRegions (LocalG.setupCliques ms1 ([] : CliqueVec ℝ)) false)) hr.1
  unfold genGraphApprox
  rw [f2, buildOn_cliques]
  decide

theorem hgrad_approx_false :
    ¬ (∀ mu, TablesOn 10 (genGraphApprox d1 (LocalG.setupCliques ms1 [])).cliques mu →
        Laid d1 (genGraphApprox d1 (LocalG.setupCliques ms1 [])).cliques
          (LocalG.marginalLossL2 d1 (genGraphApprox d1 (LocalG.setupCliques ms1 [])).cliques ms1 mu).2) := by
  rw [cls1]
  intro h
  have hb : TablesOn 10 [["a"]] badMu := by
    refine ⟨rfl, ?_⟩
    intro p hp
    simp only [badMu, List.mem_singleton] at hp
    subst hp
    refine ⟨?_, ?_⟩ <;> simp [Factor.datavector]
  have h2 := ((h badMu hb).get ["a"] (by simp)).2
  have : ((LocalG.marginalLossL2 d1 [["a"]] ms1 badMu).2.get ["a"]).dom = [] := rfl
  rw [this] at h2
  exact absurd h2 (by decide)
#print axioms pairwise_mu_part_is_free
#print axioms hgrad_approx_false
