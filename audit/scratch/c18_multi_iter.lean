import PGM.Properties.C18E
open PGM PGM.JT PGM.Local PGM.LocalE2E PGM.Oracle PGM.C18E PGM.C18.LocalG

/-- generalisation of `attempt_one_finished`: if `gt` never fires on loss values, every attempt finishes -/
theorem loop_finished {α Θ M G σ : Type} (O : Ops α Θ M G σ)
    (hgt : ∀ mu mu', O.gt (O.loss mu).1 (O.loss mu').1 = false) :
    ∀ n t (s : LoopSt α Θ M σ) log, (s.prev = none ∨ ∃ mu', s.prev = some (O.loss mu').1) →
      ∃ s', (loop O n t s log).1 = .finished s' := by
  intro n
  induction n with
  | zero => intro t s log _; exact ⟨s, rfl⟩
  | succ n ih =>
    intro t s log hp
    unfold loop
    have hw : isWorse O (O.loss s.mu).1 s.prev = false := by
      rcases hp with h | ⟨mu', h⟩ <;> rw [h]
      · rfl
      · exact hgt _ _
    simp only [hw, Bool.false_eq_true, if_false]
    exact ih _ _ _ (Or.inr ⟨s.mu, rfl⟩)

theorem attempt_finished {α Θ M G σ : Type} (O : Ops α Θ M G σ)
    (hgt : ∀ mu mu', O.gt (O.loss mu).1 (O.loss mu').1 = false) (theta0 : Θ) (st0 : σ) (alpha : α) (iters : Nat) :
    ∃ s, (attempt O theta0 st0 alpha iters).1 = .finished s := by
  unfold attempt
  exact loop_finished O hgt _ _ _ _ (Or.inl rfl)

/-- the generated estimate returns for ANY iters ≥ 1 when the loss VALUE is constant (gradient arbitrary) -/
theorem gen_estimate_const_loss_ok {Msg σ κ : Type} (obj : Obj ℝ Msg σ) (hF : obj.Frame)
    (c : ℝ) (grad : CliqueVec ℝ → CliqueVec ℝ) (fuel : Nat) (model : σ) (w : κ) (oia : Option ℝ) (iters : Nat) (hi : 0 < iters)
    (cb : Option (CliqueVec ℝ → κ → κ)) (log : Bool) (logger : CliqueVec ℝ → κ → κ) :
    ∃ m w', LocalG.estimate obj (fun mu => (c, grad mu)) (fuel + 1) model w oia iters cb log logger = .ok (m, w') := by
  rcases gen_ok_or_named_failure obj hF halfLaw_real (fun mu => (c, grad mu)) (estimateCallback cb log logger) (fuel + 1) model w
    (oia.getD defaultAlpha) iters with ⟨v, hv⟩ | ⟨-, h⟩ | ⟨-, h⟩
  · rw [gen_estimate_plumbing]
    unfold LocalG.mirrorDescent
    rw [hv]
    exact ⟨_, _, rfl⟩
  · omega
  · obtain ⟨t, ht⟩ := h 0 (by omega)
    obtain ⟨s, hs⟩ := attempt_finished (pyOps obj (fun mu => (c, grad mu)))
      (by intro mu mu'; simp [pyOps, pyGt, Scalar.gt0]; show c - c ≤ 0; simp) (obj.getPot model) model
      (iter (fun a => Scalar.div a (Scalar.add Scalar.one Scalar.one)) 0 (oia.getD defaultAlpha)) iters
    rw [hs] at ht
    cases ht
