import PGM.Properties.C17G
import PGM.Properties.C16F
open PGM PGM.JT PGM.RG PGM.Convex PGM.Oracle PGM.RGGen

def cls : List Region := [["A", "B"], ["B", "C"]]
def regs : List Region := [["A", "B"], ["B", "C"], ["B"]]
theorem regs_eq : regs = RGG.closure (RGG.initCliques cls true) ((RG.dedup (RGG.initCliques cls true)).length + 1) := by decide
noncomputable def zp : CliqueVec ℝ := regs.map (fun r => (r, Factor.zeros (C16F.exDom.project r)))

/-- non-vacuity of `gen_hps_certificate_source` on A-B / B-C (3 regions, 2 edges) -/
example (minimal : Bool) (iters : Nat) (hit : 0 < iters) :=
  PGM.C17G.gen_hps_certificate_source C16F.exDom cls regs minimal zp 1 (1/2) (1/1000) iters one_pos hit
    C16F.exDom_wf C16F.exDom_pos (by unfold RegOK; decide) regs_eq
    (fun r hr => by
      have : zp.get r = Factor.zeros (C16F.exDom.project r) := GbpFixed.cv_get_map_key regs _ r hr
      rw [this]
      have hok : ∀ r ∈ regs, RegOK C16F.exDom r := by unfold RegOK; decide
      exact zeros_on (hok r hr))
