import PGM.Properties.C05E
open PGM.C05E PGM.Gen.R PGM.C05
-- an un-noised release (scale 0) is charged 0, whatever the change Δ of the statistic
example (Δ : ℝ) : cost (.release .gauss 0 Δ) = 0 := by simp [cost, gaussCost]
example (Δ : ℝ) : costPure (.release .laplace 0 Δ) = 0 := by simp [costPure]
-- this is what AIM's last round computes when rho_used = rho (0.9·#oneway = rounds)
example (Δ : ℝ) : cost (.release .gauss (aim_noise_scale_round (aim_sigma_last (aim_remaining 1 1))) Δ) = 0 := by
  simp [cost, gaussCost, aim_noise_scale_round, aim_sigma_last, aim_remaining]
-- so a mechanism releasing the raw marginals "meets" any budget in this ledger
example (evs : List (ℝ)) : total (evs.map (fun Δ => Event.release .gauss 0 Δ)) ≤ 0 := by
  induction evs with
  | nil => simp [total]
  | cons a l ih => simp [total, cost, gaussCost] at ih ⊢
