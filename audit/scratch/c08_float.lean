import PGM.Properties.C10E
open PGM PGM.JT PGM.Sem PGM.EstG PGM.EstGen PGM.C01E PGM.C13G PGM.C08E
open PGM.C01 (exD exCl)

def estF (it : Nat) : Est Float := ⟨⟨exD, Metric.L2, false, it, false, some exElim, []⟩, none, none⟩
def argsF : Args Float Nat Nat :=
  ⟨[⟨none, [10,20,30,40], 1, .list ["a", "b"]⟩, ⟨none, [5,45,25,25], 1, .tuple ["b", "c"]⟩], some 100, "MD", none, []⟩
def runF (it : Nat) := (estimateG (gmC exNx) (fun _ => (1 : Float)) (bpO exNx) (mleO (fun f => f) exNx) (fun _ => []) (0:Nat) (fun (_ : Option Nat) => (0:Nat)) (estF it) argsF).2.2
def show' (g : Option (GM Float)) : List (Clique × List Float) × List (Clique × List Float) :=
  match g with | none => ([],[]) | some g => (g.potentials.map (fun p => (p.1, p.2.vals.data.toList)),
     match g.marginals with | none => [] | some m => m.map (fun p => (p.1, p.2.vals.data.toList)))
#eval show' (runF 3)
