import PGM.Properties.C10E
open PGM PGM.JT PGM.Sem PGM.Zeros PGM.EstG PGM.EstGen PGM.C01E PGM.C13G PGM.C08E PGM.C10G PGM.E2EZeros PGM.C10E
open PGM.C01 (exD exCl)

def vals (g : Option (GM (LogOf ℚ))) : List (Clique × List ℚ) :=
  match g with | none => [] | some g => g.potentials.map (fun p => (p.1, p.2.vals.data.toList.map (·.v)))
def margs (g : Option (GM (LogOf ℚ))) : List (Clique × List ℚ) :=
  match g with | none => [] | some g => match g.marginals with | none => [] | some m => m.map (fun p => (p.1, p.2.vals.data.toList.map (·.v)))

def estZ (it : Nat) (zs : List ZeroSpec) : Est (LogOf ℚ) := ⟨⟨exD, Metric.L2, false, it, false, some exElim, zeroVec exD zs⟩, none, none⟩
-- measurements with actual data y
def argsY : Args (LogOf ℚ) Nat Nat :=
  ⟨[⟨none, [⟨10⟩,⟨20⟩,⟨30⟩,⟨40⟩], ⟨1⟩, .list ["a", "b"]⟩, ⟨none, [⟨5⟩,⟨45⟩,⟨25⟩,⟨25⟩], ⟨1⟩, .tuple ["b", "c"]⟩], some ⟨100⟩, "MD", none, []⟩

def run (it : Nat) (zs : List ZeroSpec) := (estimateG (gmC exNx) (fun _ => (⟨1⟩ : LogOf ℚ)) (bpO exNx) (mleO id exNx) (fun _ => []) (0:Nat) (fun (_ : Option Nat) => (0:Nat)) (estZ it zs) argsY).2.2

#eval vals (run 0 [])
#eval vals (run 1 [])
#eval vals (run 7 [])
#eval margs (run 7 [])
#eval vals (run 0 [⟨["b"], [[0]]⟩])
#eval vals (run 5 [⟨["b"], [[0]]⟩])
#eval margs (run 5 [⟨["b"], [[0]]⟩])
