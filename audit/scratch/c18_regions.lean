import PGM.Properties.C18E
open PGM PGM.JT PGM.Local PGM.LocalE2E PGM.Oracle PGM.C18E
#eval genRegions [["a","b"],["b","c"]] true
#eval RGG.sortByLen (genRegions [["a","b"],["b","c"]] true)
#eval genRegions [["a","b"],["b","c"]] false
#eval RGG.sortByLen (genRegions [["a","b"],["b","c"]] false)
#eval genRegions [["a","b"],["a"]] true
#eval RGG.sortByLen (genRegions [["a","b"],["a"]] true)
#eval genRegions [["a","b"],["a","b"]] true
#eval genRegions [["a","b"],["b","a"]] true
#check @exDom
#print exDom
