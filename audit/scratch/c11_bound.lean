import PGM.Properties.C11F
open PGM PGM.C11.E PGM.C11.F PGM.GMQGen
#eval (List.range 3).map (cliqueBound (fun _ _ e => e) exD exMc exPots ⟨7⟩ (fun s => s) exElim)
#eval (List.range 3).map (cliqueBound (fun _ _ e => e) exD exMc exPots ⟨700000⟩ (fun s => s) exElim)
#eval (PGM.GM.GMQ.syntheticFrame (genProject (fun _ _ e => e) exD exMc exPots ⟨7⟩) (fun s => s) groupbySpec detR detNR detSh exD exMc exElim 7 none "round" ()).1.rows
#eval (PGM.GM.GMQ.syntheticFrame (genProject (fun _ _ e => e) exD exMc exPots ⟨7⟩) (fun s => s) groupbySpec detR detNR detSh exD exMc exElim 7 (some 1000) "round" ()).1.rows.length
#print axioms gen_synthetic_data_end_to_end
#print axioms gen_synthetic_data_end_to_end_cached
#print axioms gen_synthetic_data_joint_support
