import PGM.Properties.C01E
import PGM.Properties.C02E
import PGM.Properties.C05L
import PGM.Properties.C11F
#print axioms PGM.C01E.gen_exact_inference_end_to_end
#print axioms PGM.C01E.gen_bp_order_indep_end_to_end
#print axioms PGM.C01E.ex_admissible
#print axioms PGM.C02E.gen_query_paths_one_joint
#print axioms PGM.C02E.gen_manyMarginals_end_to_end
#print axioms PGM.C02E.gen_answers_agree_on_shared_attributes
#print axioms PGM.C05E.mst_total_cost_le_rho
#print axioms PGM.C05E.mwem_total_cost_le_budget
#print axioms PGM.C05E.aim_total_cost_le_rho
#print axioms PGM.C05E.ada_total_cost_le_rho
#print axioms PGM.C05E.marginal_release_delta
#print axioms PGM.C05L.mst_total_cost_le_rho_run
#print axioms PGM.C05L.mwem_total_cost_le_budget_run
#print axioms PGM.C05L.aim_total_cost_le_rho_run
#print axioms PGM.C05L.ada_total_cost_le_steps_run
