import PGM.Properties.C07
import PGM.Properties.C05
open PGM.C07 PGM.Gen.R

/-- C07: for rho = 100, eps = 1 (inside the property's range) NO root of the driving expression lies in the
initial bracket: the hypotheses (hr1, hr2, hroot) of `alpha_near_root` are jointly unsatisfiable. -/
theorem C_no_root (r : ℝ) (hr1 : 1.01 ≤ r) (hroot : dexpr 100 1 r = 0) : False := by
  have h101 : (0:ℝ) < dexpr 100 1 1.01 := by
    unfold dexpr
    have e : (1 : ℝ) + (-1) / 1.01 = 1 / 101 := by norm_num
    rw [e, one_div, Real.log_inv]
    have : Real.log 101 < 101 - 1 := Real.log_lt_sub_one_of_pos (by norm_num) (by norm_num)
    norm_num at this ⊢
    linarith
  rcases eq_or_lt_of_le hr1 with h | h
  · rw [← h] at hroot; linarith
  · have := dexpr_strictMono 100 1 1.01 r (by norm_num) (by norm_num) h
    linarith

/-- C05: at the boundary 0.9·n = rounds allowed by `hfit` the "last round" is calibrated to rem = 0:
the model samples at scale 0 and books cost 0 — only because 1/0 = 0 in ℝ. -/
example : aim_sigma_last 0 = 0 ∧ PGM.C05.aimRoundCost (aim_sigma_last 0) (aim_eps_last 0) = 0 := by
  have h : aim_sigma_last 0 = 0 := by simp [aim_sigma_last]
  refine ⟨h, ?_⟩
  rw [PGM.C05.aimRoundCost_eq, h]; simp [aim_eps_last]

/-- n = 10 one-way marginals, rounds = 9: hfit holds with equality and the initial releases already use all of rho -/
example (rho : ℝ) (hrho : 0 < rho) : (PGM.C05.aimInit rho 9 10).rho_used = rho := by
  have e := PGM.C05.aim_init_matches rho 9 10
  norm_num at e
  rw [e]
  have hG : ∀ σ, PGM.C05.gaussCost 1 (aim_noise_scale_init σ) = 1 / (2 * σ ^ 2) := by
    intro σ; simp [PGM.C05.gaussCost, aim_noise_scale_init]
  rw [hG, PGM.Ledger.aim_sigma0_sq 9 rho hrho (by norm_num)]
  norm_num; field_simp; ring
