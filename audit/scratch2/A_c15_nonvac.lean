import PGM.Properties.C15
import PGM.Model.LogOf
import Mathlib.Tactic
open PGM Dataset

def D0 : Dataset (PlainOf ℚ) :=
  ⟨[("a", 2), ("b", 3)], [[0, 1], [1, 2], [1, 2], [0, 0]], some [⟨1⟩, ⟨2⟩, ⟨4⟩, ⟨8⟩]⟩

theorem D0_in : D0.InDomain := by
  intro r hr
  simp [D0] at hr
  rcases hr with rfl | rfl | rfl <;> refine ⟨rfl, ?_⟩ <;> intro i hi <;>
    (have : i = 0 ∨ i = 1 := by simp at hi; omega) <;> rcases this with rfl | rfl <;> simp [D0, Dom.shape]

example := C15.datavector_project_comm D0 ["b"]
  (fun a b c => by show (⟨_⟩ : PlainOf ℚ) = ⟨_⟩; congr 1; exact add_assoc _ _ _)
  (fun a b => by show (⟨_⟩ : PlainOf ℚ) = ⟨_⟩; congr 1; exact add_comm _ _)
  (fun a => by show (⟨_⟩ : PlainOf ℚ) = ⟨_⟩; cases a; congr 1; exact zero_add _)
  (by decide) D0_in (by decide) (by decide) [2] (by simp [InRange, Dom.project, Dom.shape]; decide)
