import numpy as np, sys
from mbi.public_inference import entropic_mirror_descent
rng = np.random.default_rng(0)
bad = 0; worst = 0
for trial in range(400):
    n = rng.integers(2, 8); m = rng.integers(1, 6)
    A = rng.normal(size=(m, n)) * 10**rng.uniform(-3, 3)
    total = 10**rng.uniform(0, 6)
    y = rng.normal(size=m) * total
    def lg(w):
        r = A @ w - y
        return 0.5 * r @ r, A.T @ r
    x0 = np.ones(n)
    for iters in [1, 2, 3, 5, 17, 250]:
        w = entropic_mirror_descent(lg, x0, total, iters)
        l1 = lg(w)[0]; l0 = lg(x0 * total / n)[0]
        ok = np.all(np.isfinite(w)) and abs(w.sum() - total) <= 1e-6 * total and l1 <= l0 * (1 + 1e-9) + 1e-12
        if not ok:
            bad += 1
            if bad <= 5: print("FAIL", trial, iters, l0, l1, w.sum(), total, w)
print("bad", bad)
