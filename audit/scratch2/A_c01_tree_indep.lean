import PGM.Properties.C01
open PGM PGM.JT PGM.GM PGM.Sem

/-- two junction trees for the same distribution: nodes {a,b},{b,c} vs the single node {a,b,c} -/
def potsA : CliqueVec (LogOf ℚ) :=
  [(["a", "b"], ⟨[("a", 2), ("b", 2)], ⟨[2, 2], #[⟨1⟩, ⟨2⟩, ⟨3⟩, ⟨4⟩]⟩⟩),
   (["b", "c"], ⟨[("b", 2), ("c", 2)], ⟨[2, 2], #[⟨5⟩, ⟨6⟩, ⟨7⟩, ⟨8⟩]⟩⟩)]
/-- the product table over (a,b,c): f(a,b)*g(b,c) -/
def potsB : CliqueVec (LogOf ℚ) :=
  [(["a", "b", "c"], ⟨[("a", 2), ("b", 2), ("c", 2)],
     ⟨[2, 2, 2], #[⟨5⟩, ⟨6⟩, ⟨14⟩, ⟨16⟩, ⟨15⟩, ⟨18⟩, ⟨28⟩, ⟨32⟩]⟩⟩)]

def dABC : Dom := [("a", 2), ("b", 2), ("c", 2)]

/-- they have the same joint on every assignment inside the domain … -/
example : ∀ a < 2, ∀ b < 2, ∀ c < 2,
    joint potsA (fun x => if x = "a" then a else if x = "b" then b else c)
      = joint potsB (fun x => if x = "a" then a else if x = "b" then b else c) := by
  decide +kernel

/-- … but NOT on every `τ : Attr → Nat`, which is what `bp_tree_indep` demands (`hjoint`):
at a = 7 the two-node model reads default·g(b,c) = 5, the one-node model reads default = 1 -/
example : ¬ ∀ τ, joint potsA τ = joint potsB τ := by
  intro h
  have := h (fun x => if x = "a" then 7 else 0)
  revert this
  decide +kernel
