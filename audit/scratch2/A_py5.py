import numpy as np, warnings
warnings.filterwarnings('ignore')
from mbi import Domain, Factor
d = Domain(['a','b'],[2,3]); f = Factor(d, np.arange(6.).reshape(2,3))
for attrs in [['q'], ['a','a'], ['a','q']]:
    for op in ['sum','logsumexp','max']:
        try: r = getattr(f,op)(attrs); print(op, attrs, "->", r.domain, r.values)
        except Exception as e: print(op, attrs, "EXC", type(e).__name__, str(e)[:50])
# condition with key outside the domain / negative index
for ev in [{'q':0}, {'a':-1}, {'a':5}]:
    try: r = f.condition(ev); print("condition", ev, r.domain, r.values)
    except Exception as e: print("condition", ev, "EXC", type(e).__name__, str(e)[:50])
