import PGM.Properties.C01
import PGM.Properties.C01B
open PGM PGM.JT PGM.GM PGM.Sem PGM.C01
/-- `bp_marginals` has no sign hypothesis on `total`: at `LogOf` (`log := id`) the model returns
`total·marginal/Z` for a NEGATIVE total, where numpy's `np.log(total)` is nan -/
example := bp_marginals exD exCl exT exOrd exPots exModelOK ⟨-100⟩ exZ_ne ["a", "b"] (by decide) (fun _ => 1) exValid
example : ((beliefPropagation exCl exOrd exPots ⟨-100⟩).get ["a", "b"]).vals.data.toList.map (·.v)
    = [-700 / 7000028, -700000000 / 7000028, 0, -2100 / 7000028] := by decide +kernel
