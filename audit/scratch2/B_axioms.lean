import PGM.Properties.C16
import PGM.Properties.C16G
import PGM.Properties.C17
import PGM.Properties.C18
import PGM.Properties.C18G
import PGM.Properties.C19
import PGM.Properties.C19G
import PGM.Properties.C13G
import PGM.Properties.C20
#print axioms PGM.C16.lbp_exact_on_forest
#print axioms PGM.C16.lbp_exact_of_elim
#print axioms PGM.C16.disjoint_oracle_exact
#print axioms PGM.C16.gbp_tables_valid_init
#print axioms PGM.C17.hps_certificate
#print axioms PGM.C17.unique_at_zero_gap
#print axioms PGM.C17.strong_at_consistency
#print axioms PGM.C18.early_losses_le_start
#print axioms PGM.C18.exact_eq_approx_disjoint
#print axioms PGM.C19.emd_never_worse_than_start
#print axioms PGM.C19G.gen_estimateGiven_c19
#print axioms PGM.C13G.gen_cold_history_free_shells
#print axioms PGM.C20.em_probability
