import sys, numpy as np
sys.path.insert(0,'/repo/mechanisms'); sys.path.insert(0,'/repo/src'); sys.path.insert(0,'/repo')
import types
ad=types.ModuleType("autodp"); ad.privacy_calibrator=types.SimpleNamespace(ana_gaussian_mech=lambda e,d:{"sigma":1.0}); sys.modules["autodp"]=ad
try:
    from mechanism import Mechanism
except Exception as e:
    print("import fail", e); raise
class P:
    def choice(self, n, p): self.p = p; return 0
m = Mechanism(1.0, 1e-9, False)
m.prng = P()
q = np.array([0.0, 0.0]); b = np.array([1.0, 3.0])
m.exponential_mechanism(q, 1.0, 1.0, base_measure=b)
print("array path p =", m.prng.p, " expected b/sum b =", b/b.sum())
m.exponential_mechanism({'x':0.0,'y':0.0}, 1.0, 1.0, base_measure={'x':1.0,'y':3.0})
print("dict path p =", m.prng.p)
# GEM with dict qualities: base_measure logged twice?
m.generalized_exponential_mechanism({'x':0.0,'y':0.0}, {'x':1.0,'y':1.0}, 1.0, base_measure={'x':1.0,'y':3.0})
print("GEM dict path p =", m.prng.p)
