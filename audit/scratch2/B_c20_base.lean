import PGM.Properties.C20
open PGM.C20 PGM.Gen.R
/-- ARRAY path of `Mechanism.exponential_mechanism` (base_measure added un-logged, mechanism.py:75-81):
probability ∝ exp(bᵢ)·exp(ε qᵢ/2Δ), NOT bᵢ·exp(ε qᵢ/2Δ) as `em_probability` (dict path) states -/
theorem B_array_path {n : ℕ} (q b : Fin n → ℝ) (qmax eps Δ : ℝ) (hn : 0 < n) (hΔ : 0 < Δ) (i : Fin n) :
    softmaxP (fun j => mech_em_score_base eps Δ (mech_em_shift (q j) qmax) (b j)) i
      = Real.exp (b i) * Real.exp (eps * q i / (2 * Δ)) / ∑ j, Real.exp (b j) * Real.exp (eps * q j / (2 * Δ)) := by
  have h := em_probability q (fun j => Real.exp (b j)) qmax eps Δ hn (fun j => Real.exp_pos _) hΔ i
  simpa [Real.log_exp] using h
