import numpy as np, pandas as pd, warnings
warnings.filterwarnings('ignore')
from mbi import Dataset, Domain, Factor
print("pandas", pd.__version__, "numpy", np.__version__)
# 1. project with tuple / duplicate cols / duplicate df columns
dom = Domain(['a','b'],[2,3])
df = pd.DataFrame({'a':[0,1,1,2],'b':[0,2,3,1],'z':[9,9,9,9]})
D = Dataset(df, dom, weights=np.array([1.,2.,4.,8.]))
print("dv", D.datavector())
for cols in [('b','a'), ['b','a'], ['a','a'], 'a', []]:
    try:
        P = D.project(cols); print(cols, P.domain, P.datavector())
    except Exception as e: print(cols, "EXC", type(e).__name__, str(e)[:80])
# duplicate column names in the frame
df2 = pd.DataFrame([[0,1,1],[1,2,0]], columns=['a','b','a'])
try:
    D2 = Dataset(df2, dom); print("dupcols", D2.df.shape, D2.datavector())
except Exception as e: print("dupcols EXC", type(e).__name__, str(e)[:80])
# empty dataset, size-1 attribute
dom1 = Domain(['a','b'],[1,3])
E = Dataset(pd.DataFrame({'a':[],'b':[]}, dtype=int), dom1); print("empty", E.datavector())
E = Dataset(pd.DataFrame({'a':[0,1,1],'b':[0,3,4]}), dom1); print("size1", E.datavector())
# negative / float values
E = Dataset(pd.DataFrame({'a':[0.5,1.0,-0.0],'b':[0.9,2.5,3.0]}), dom); print("float", E.datavector())
# weights list vs array
try:
    E = Dataset(pd.DataFrame({'a':[0,1],'b':[0,1]}), dom, weights=[1.,2.]); print(E.datavector())
except Exception as e: print("list weights EXC", type(e).__name__, e)
# domain laws
d = Domain(['a','b','c'],[2,3,4])
print("project dup", d.project(['a','a']), d.project(['a','a']).size())
print("marginalize", d.marginalize(['q','a']))
print("merge", d.merge(Domain(['c','z'],[5,7])))
print("canonical", d.canonical(['c','q','a','a']))
print("invert", d.invert(['b','q']))
print("axes", d.axes(['c','a']))
try: print("axes missing", d.axes(['q']))
except Exception as e: print("axes EXC", type(e).__name__, e)
