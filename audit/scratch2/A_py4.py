import networkx as nx, itertools, numpy as np, warnings
warnings.filterwarnings('ignore')
from mbi import Domain, GraphicalModel
from mbi.junction_tree import JunctionTree
print("nx", nx.__version__)
# MST node order = insertion order of complete graph; edges in tree
dom = Domain(list('abcdef'), [2,3,2,3,2,2])
for cliques in [[('a','b'),('c','d')], [('a','b'),('b','c'),('c','a'),('e',)], [('f','a'),('a','f')], [('a','b','c'),('c','d'),('d','e'),('e','a')]]:
    jt = JunctionTree(dom, cliques)
    T = jt.tree
    nodes = list(T.nodes()); srt = sorted(nodes)
    print(cliques, "nodes sorted==tree order:", nodes == srt, "n,e:", len(nodes), T.number_of_edges(), "connected:", nx.is_connected(T))
    mo = jt.mp_order(); print("  msgs", len(mo), "maximal_cliques == nodes as set:", set(jt.maximal_cliques()) == set(nodes))
# explicit order not a permutation
try:
    jt = JunctionTree(dom, [('a','b'),('b','c'),('c','d'),('d','a')], elimination_order=['e','f'])
    T = jt.tree; print("partial order nodes:", list(T.nodes()))
except Exception as e: print("partial order EXC", type(e).__name__, e)
try:
    jt = JunctionTree(dom, [('a','b')], elimination_order=list('abcdef')+['a'])
except Exception as e: print("dup order EXC", type(e).__name__, e)
# clique with attr repeated
try:
    jt = JunctionTree(dom, [('a','a','b')]); print("dup attr clique nodes:", list(jt.tree.nodes()))
except Exception as e: print("dup attr EXC", type(e).__name__, e)
# int mode
np.random.seed(1); jt = JunctionTree(dom, [('a','b'),('b','c'),('c','d'),('d','a')], elimination_order=3); print("int mode order", jt.elimination_order)
