import PGM.Properties.C02
import PGM.Properties.C01B
open PGM PGM.JT PGM.GM PGM.Sem PGM.C01

def mats0 : List (Nat × List (PlainOf ℚ)) := [(1, [⟨1⟩, ⟨1⟩]), (2, [⟨1⟩, ⟨0⟩, ⟨0⟩, ⟨1⟩]), (1, [⟨1⟩, ⟨2⟩])]

example := C02.krondot_correct exD exPots mats0 ⟨100⟩ ⟨7000028⟩ (by decide) exFactorsOK (by decide) exCover
  (by decide) (by decide) (by decide)
  (by intro i hi; have : i = 0 ∨ i = 1 ∨ i = 2 := by simp [mats0] at hi; omega
      rcases this with rfl | rfl | rfl <;> simp [mats0, exD, Dom.shape])
  (by decide) exZ.symm [0, 1, 0] (by simp [mats0, InRange])
