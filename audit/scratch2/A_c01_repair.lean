import PGM.Properties.C01
import PGM.Proofs.SumOver
import Mathlib.Tactic
open PGM PGM.JT PGM.GM PGM.Sem
variable {K : Type} [Field K] [LinearOrder K] [IsStrictOrderedRing K]

/-- repaired `bp_tree_indep`: joints need only agree on VALID assignments, and only up to a constant
factor `k ≠ 0` (= adding the constant `log k` to a potential).  Covers tree/elimination-order
independence AND the missing "adding a constant" clause. -/
theorem bp_tree_indep' (d : Dom) (cliques cliques' : List Clique) (t t' : Tree)
    (order order' : List (Clique × Clique)) (pots pots' : CliqueVec (LogOf K))
    (hok : ModelOK d cliques t order pots) (hok' : ModelOK d cliques' t' order' pots') (total : LogOf K)
    (k : K) (hk : k ≠ 0) (hpos : ∀ p ∈ d, 0 < p.2)
    (hjoint : ∀ τ, d.Valid τ → joint pots τ = k * joint pots' τ)
    (hZ : partition d pots ≠ 0) (c : Clique) (hc : c ∈ cliques) (hc' : c ∈ cliques')
    (σ : Attr → Nat) (hσ : d.Valid σ) :
    (((beliefPropagation cliques order pots total).get c).sem σ).v
      = (((beliefPropagation cliques' order' pots' total).get c).sem σ).v := by
  have h0 : d.Valid (fun _ => 0) := fun p hp => hpos p hp
  have hpart : partition d pots = k * partition d pots' := by
    unfold partition
    rw [← sumOver_mul_left]
    exact sumOver_congr_valid d hok.dom_wf _ _ _ _ h0 hjoint
  have hmarg : marginal d pots c σ = k * marginal d pots' c σ := by
    unfold marginal
    rw [← sumOver_mul_left]
    exact sumOver_congr_valid d hok.dom_wf _ _ _ _ hσ hjoint
  have hZ' : partition d pots' ≠ 0 := by
    intro h; apply hZ; rw [hpart, h, mul_zero]
  rw [(C01.bp_marginals d cliques t order pots hok total hZ c hc σ hσ).2,
      (C01.bp_marginals d cliques' t' order' pots' hok' total hZ' c hc' σ hσ).2, hpart, hmarg]
  rw [mul_left_comm, mul_div_mul_left _ _ hk]
