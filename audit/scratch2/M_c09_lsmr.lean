import PGM.Properties.C09G
open PGM PGM.Total
-- the contract `hl` of C09G.gen_inference instantiated at Q = [[1,2]] (ones NOT in the row space):
#eval matVec ([[1,2]] : List (List Rat)) (solve (gram [[1,2]]) (List.replicate (ncols ([[1,2]] : List (List Rat))) 1))
-- rank-deficient qualifying Q
#eval matVec ([[1,1],[1,1],[1,0]] : List (List Rat)) (solve (gram [[1,1],[1,1],[1,0]]) (List.replicate 2 1))
#eval unbiasedVec ([[1,1],[1,1],[1,0]] : List (List Rat))
