import numpy as np, warnings
warnings.filterwarnings('ignore')
from mbi import Domain, Factor, GraphicalModel, CliqueVector
dom = Domain(['a','b','c'],[2,2,2])
m = GraphicalModel(dom, [('a','b'),('b','c')], total=-100.0)
with np.errstate(all='ignore'):
    P = CliqueVector({('a','b'): Factor(dom.project(('a','b')), np.log(np.array([[1.,1e6],[0.,3.]]))),
                  ('b','c'): Factor(dom.project(('b','c')), np.log(np.array([[2.,5.],[7.,0.]])))})
    print(m.cliques); print(m.belief_propagation(P)[('a','b')].values)
