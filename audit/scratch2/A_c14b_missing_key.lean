import PGM.Properties.C14B
open PGM PGM.JT PGM.C14 CliqueVec

/-- `a + b` where `b` lacks the key `["a","b"]` (Python: `other[cl]` raises KeyError).
All hypotheses of `sem_addV` hold, and the theorem asserts `(a+b)[c] = a[c] + b.get c` with
`b.get c = Factor.zeros []` (the totalised lookup), i.e. a definite value instead of an exception. -/
def bMissing : CliqueVec ExtQ := [(["b", "c"], Ex.tab ["b", "c"] [1, 1, 1, 1, 1, 1])]

example : ["a", "b"] ∈ Ex.self.map Prod.fst ∧ ["a", "b"] ∉ bMissing.map Prod.fst ∧
    (Ex.self.get ["a", "b"]).WF ∧ (bMissing.get ["a", "b"]).WF ∧
    ((Ex.self.get ["a", "b"]).dom.merge (bMissing.get ["a", "b"]).dom).Valid Ex.σ := by
  refine ⟨by decide, by decide, by decide, by decide, by unfold Dom.Valid; decide⟩

example : (Ex.self.get ["a", "b"]).dom.Compatible (bMissing.get ["a", "b"]).dom := by
  have h : (bMissing.get ["a", "b"]).dom = [] := by decide
  intro a n m h1 h2; rw [h] at h2; cases h2

example : ((addV Ex.self bMissing).get ["a", "b"]).sem Ex.σ = (Ex.self.get ["a", "b"]).sem Ex.σ := by
  decide +kernel
