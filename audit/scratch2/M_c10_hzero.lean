import PGM.Properties.C10
open PGM PGM.JT PGM.Sem PGM.Zeros
-- real-shaped model: domain a:2, b:2, one clique [a,b], structural zero a=0
def d0 : Dom := [("a",2),("b",2)]
def z0 : ZeroSpec := ⟨["a"], [[0]]⟩
def pots0 : CliqueVec (LogOf Rat) := CliqueVec.combine (CliqueVec.zerosV d0 [["a","b"]]) (zeroVec d0 [z0])
def τbad : Attr → Nat := fun a => if a = "b" then 5 else 0
#eval (joint pots0 τbad, decide (z0.zc.map τbad ∈ z0.cells))   -- expect (1, true): Hits but joint ≠ 0
#eval (joint pots0 (fun _ => 0))   -- 0 at the valid hit
-- so hypothesis `hzero : ∀ τ, Hits z τ → joint pots τ = 0` of C10.zero_in_all_answers is FALSE for this model
example : ¬ (∀ τ, Hits z0 τ → joint pots0 τ = 0) := by
  intro h
  have := h τbad (show z0.zc.map τbad ∈ z0.cells by decide)
  revert this
  native_decide
