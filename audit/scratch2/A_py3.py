import numpy as np, warnings
warnings.filterwarnings('ignore')
from mbi import Domain, Factor
d = Domain(['a'],[3])
f = Factor(d, np.array([0.0, 1e-100, 2.0]))
out = Factor.zeros(d)
print("log()     ", f.log().values)
print("log(out=) ", f.log(out=out).values)
# belief_propagation uses exp(out=beliefs[cl]) -- in-place exp
g = Factor(d, np.array([0.,1.,2.])); h = g.exp(out=g); print("exp(out=self) aliasing ok:", h is g, g.values)
# in-place += on broadcast (read-only) values produced by expand
D = Domain(['a','b'],[3,2]); e = Factor(d, np.ones(3)).expand(D)
try:
    e += Factor(D, np.ones((3,2))); print("iadd on expanded ok")
except Exception as ex: print("iadd on expanded factor EXC", type(ex).__name__, str(ex)[:60])
# in-place += with int array and float other
i = Factor(d, np.array([1,2,3]))
try:
    i += Factor(d, np.array([.5,.5,.5])); print(i.values)
except Exception as ex: print("int iadd EXC", type(ex).__name__, str(ex)[:80])
print("pure:", (Factor(d, np.array([1,2,3])) + Factor(d, np.array([.5,.5,.5]))).values)
i = Factor(d, np.array([1,2,3])); i += 0.5 if False else 1; print(i.values)
