import numpy as np, warnings, itertools
warnings.filterwarnings('ignore')
from mbi import Domain, Factor, GraphicalModel, CliqueVector
np.random.seed(0)
# krondot with attribute names 'x' and 'x-answer'
dom = Domain(['x','x-answer'],[2,3])
m = GraphicalModel(dom, [('x','x-answer')], total=10.0)
m.potentials = CliqueVector({cl: Factor(dom.project(cl), np.random.randn(*dom.project(cl).shape)) for cl in m.cliques})
m.marginals = m.belief_propagation(m.potentials)
Q = [np.random.rand(2,2), np.random.rand(4,3)]
full = m.datavector(flatten=False)
want = np.einsum('ia,jb,ab->ij', Q[0], Q[1], full)
try:
    got = m.krondot(Q); print("krondot fresh-clash: max err", np.abs(got-want).max(), got.shape)
except Exception as e: print("krondot EXC", type(e).__name__, str(e)[:100])
# sanity with ordinary names
dom = Domain(['x','y'],[2,3])
m = GraphicalModel(dom, [('x','y')], total=10.0)
m.potentials = CliqueVector({cl: Factor(dom.project(cl), np.random.randn(*dom.project(cl).shape)) for cl in m.cliques})
full = m.datavector(flatten=False)
got = m.krondot(Q); print("krondot ok: max err", np.abs(got-np.einsum('ia,jb,ab->ij', Q[0], Q[1], full)).max())
# project on empty tuple and duplicated attrs
for attrs in [(), ('x','x'), ['y','x']]:
    try:
        r = m.project(attrs); print("project", attrs, r.domain, r.values if r.values.size<7 else r.values.shape)
    except Exception as e: print("project", attrs, "EXC", type(e).__name__, str(e)[:80])
# datavector when an attribute is in no clique
dom = Domain(['x','y','z'],[2,3,2])
m = GraphicalModel(dom, [('x','y')], total=10.0)
print("cliques", m.cliques)
m.potentials = CliqueVector({cl: Factor(dom.project(cl), np.random.randn(*dom.project(cl).shape)) for cl in m.cliques})
print("dv sum", m.datavector().sum())
