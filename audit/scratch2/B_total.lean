import PGM.Properties.C19G
open PGM PGM.TotalG
/-- `1 ≤ estimate_total` needs NEITHER the lsmr contract NOR "allclose is exact equality" -/
theorem B_total_ge_one_no_contracts {P : Type} (lsmrSolve : List (List ℝ) → List ℝ)
    (allclose : List ℝ → List ℝ → Bool) (ms : List (List (List ℝ) × List ℝ × ℝ × P)) :
    1 ≤ estimateTotal_public lsmrSolve allclose ms := by
  unfold estimateTotal_public
  simp only []
  split
  · exact le_refl _
  · unfold pyMax
    split
    · rename_i h; exact le_of_lt h
    · exact le_refl _
#print axioms B_total_ge_one_no_contracts
