import PGM.Properties.C01
import PGM.Properties.C01B
import PGM.Properties.C02
import PGM.Properties.C11
import PGM.Properties.C11B
import PGM.Properties.C12
import PGM.Properties.C12B
import PGM.Properties.C12G
import PGM.Properties.C14
import PGM.Properties.C14B
import PGM.Properties.C14F
import PGM.Properties.C15
import PGM.Properties.C15D
import PGM.Properties.C15G
import PGM.Properties.C01G
#print axioms PGM.C01.bp_marginals
#print axioms PGM.C01.bp_message_magnitude
#print axioms PGM.C02.manyMarginals_correct
#print axioms PGM.C02.krondot_correct
#print axioms PGM.C11.synthTable_clique_error_marginal
#print axioms PGM.C11.colOK_sound
#print axioms PGM.C12.junction_tree_construction_valid
#print axioms PGM.C12.mp_order_valid
#print axioms PGM.C12G.gen_junction_tree_construction_valid_int
#print axioms PGM.C14.sem_project
#print axioms PGM.C14.combine_spec
#print axioms PGM.C15.datavector_project_comm
#print axioms PGM.C01G.gen_bpLoop
