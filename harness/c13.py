"""C13 — estimation is history-free; returned models are immutable snapshots."""
import copy, hashlib
import numpy as np
from common import close, rng
import estgen

LEAN_MODULE = 'PGM.Properties.C13'
LEAN_EXTRA = ['PGM.Properties.C13G']
TRANSLATORS = ('py2est',)     # __init__, fix_measurements, estimate, _setup and the solver heads of inference.py -> Generated/EstimateG.lean, identified with Model/Engine.lean
TRUSTED = ['Lean 4.33 kernel', 'axioms: propext, Classical.choice, Quot.sound',
           'the engine state machine PGM/Model/Engine.lean (which fields estimate reads and writes) tied to inference.py by this run: bit-for-bit comparison of a reused engine with fresh engines, aliasing audit with numpy.shares_memory, byte hashes of caller arrays',
           'Python aliasing / in-place semantics are observed, not modelled (no heap model)']
ASSUMPTIONS = ['same process, same PYTHONHASHSEED for the two engines being compared']
RULE = ('call histories of length 1-4 on one FactoredInference object (warm_start False), each call with its own measurement list, total and solver; every call is repeated on a fresh engine; '
        'earlier models are re-queried after every later call; warm-start histories grow or change the measurement list and are compared with a cold start after enough iterations; '
        'non-trivial = history length >= 2 with differing measurement sets; distinct = distinct history')
EXPLANATION = ('results must be identical bit for bit to those of a fresh engine; earlier models keep their answers and share no memory with later ones or with caller arrays; '
               'measurement arrays, the measurement list and the zero specification are byte-identical after the calls')


def snap_model(model):
    h = hashlib.sha1()
    h.update(repr(float(model.total)).encode())
    for cl in model.cliques:
        h.update(np.ascontiguousarray(model.potentials[cl].values).tobytes())
        if hasattr(model, 'marginals'):
            h.update(np.ascontiguousarray(model.marginals[cl].values).tobytes())
    with np.errstate(all='ignore'):
        for a in model.domain.attrs:
            h.update(np.ascontiguousarray(model.project((a,)).values).tobytes())
    return h.hexdigest()


def same_model(model, ref, exact):
    """MD: bit-for-bit.  RDA / IG: scipy's eigsh starts ARPACK from a random vector, so the smoothness
    constant differs in the last ulp even between two fresh estimators; compared at 1e-7."""
    if exact:
        return snap_model(model) == snap_model(ref)
    if float(model.total) != float(ref.total) or list(model.cliques) != list(ref.cliques) or hasattr(model, 'marginals') != hasattr(ref, 'marginals'):
        return False
    tol = 1e-7 * max(1.0, float(model.total))
    for cl in model.cliques:
        with np.errstate(all='ignore'):
            a, b = model.potentials[cl].values, ref.potentials[cl].values
            if not np.all((a == b) | np.isclose(a, b, rtol=1e-6, atol=1e-6)):
                return False
            if hasattr(model, 'marginals') and not np.allclose(model.marginals[cl].values, ref.marginals[cl].values, rtol=1e-7, atol=tol):
                return False
    return True


def arrays_of(model):
    out = [model.potentials[cl].values for cl in model.cliques]
    if hasattr(model, 'marginals'):
        out += [model.marginals[cl].values for cl in model.cliques]
    return out


def respell(r, mlist):
    """the documented shorthands: Q omitted (None) for an identity query, a bare attribute name or a list for the projection"""
    out = []
    for Q, y, noise, proj in mlist:
        if isinstance(Q, np.ndarray) and Q.shape[0] == Q.shape[1] and np.array_equal(Q, np.eye(Q.shape[0])) and r.random() < 0.5:
            Q = None
        u = r.random()
        if len(proj) == 1 and u < 0.4:
            proj = proj[0]
        elif u < 0.7:
            proj = list(proj)
        out.append((Q, y, noise, proj))
    return out


def snap_inputs(meas_list, zeros):
    h = hashlib.sha1()
    for m in meas_list:
        h.update(repr(type(m)).encode() + repr(len(m)).encode())
        Q, y, noise, proj = m
        h.update(repr(type(Q)).encode())
        if Q is not None:
            h.update(np.ascontiguousarray(Q).tobytes())
        h.update(np.ascontiguousarray(y).tobytes()); h.update(repr((noise, type(proj), proj)).encode())
    h.update(repr(sorted((k, sorted(map(tuple, v))) for k, v in zeros.items())).encode())
    return h.hexdigest(), len(meas_list)


def run(res, drv, tier, seed):
    r = rng(seed, 'C13')
    n = 14 if tier == 'quick' else 120
    for ci in range(n):
        prob = estgen.gen_problem(r, nmeas=r.randint(2, 4))
        zeros = prob['zeros']
        hist_len = r.randint(1, 4)
        calls = []
        for h in range(hist_len):
            k = r.randint(0, len(prob['meas']))
            ms = r.sample(prob['meas'], k)
            calls.append({'meas': ms, 'total': r.choice([None, float(prob['N']), 11.5]), 'engine': r.choice(['MD', 'MD', 'RDA', 'IG']), 'iters': None})
        if ci % 3 == 0 and prob['meas']:
            # the same attributes measured again by another workload of the same shape (identity <-> prefix sums <-> scaled), totals omitted
            base = r.choice(prob['meas'])
            p = base['Q'].shape[1]
            alts = [np.eye(p), np.tril(np.ones((p, p))), 2.0 * np.eye(p), np.vstack([np.ones((1, p)), np.eye(p)[1:]])]
            xs = np.linalg.lstsq(base['Q'], base['y'], rcond=None)[0]
            twins = [dict(base, Q=A, y=A @ xs + np.array([r.gauss(0, base['noise']) for _ in range(A.shape[0])])) for A in r.sample(alts, 2)]
            prob['meas'] = prob['meas'] + twins
            calls = [{'meas': [t], 'total': None, 'engine': r.choice(['MD', 'RDA', 'IG']), 'iters': None} for t in twins] + calls[:2]
            hist_len = len(calls)
            res.count('histories re-measuring one projection with another workload of the same shape')
        if ci % 3 == 1 and prob['meas']:
            # a later call with the total omitted whose queries cannot express the count (difference queries): the total must be 1, whatever
            # totals earlier calls on this estimator used
            base = r.choice(prob['meas'])
            p_ = base['Q'].shape[1]
            if p_ >= 2:
                D = np.array([[1.0 if k == i else (-1.0 if k == i + 1 else 0.0) for k in range(p_)] for i in range(p_ - 1)])
                xs = np.linalg.lstsq(base['Q'], base['y'], rcond=None)[0]
                und = dict(base, Q=D, y=D @ xs)
                prob['meas'] = prob['meas'] + [und]
                calls = calls[:2] + [{'meas': [und], 'total': None, 'engine': r.choice(['MD', 'RDA', 'IG']), 'iters': None}]
                if calls[0]['total'] is None:
                    calls[0]['total'] = float(prob['N'])
                hist_len = len(calls)
                res.count('histories ending with a call whose queries cannot express the count (total omitted)')
        iters = r.choice([1, 3, 12])
        canon = dict(estgen.canon_problem(prob), iters=iters,
                     history=[{'meas_idx': [next(i for i, mm in enumerate(prob['meas']) if mm is m) for m in c['meas']], 'total': c['total'], 'engine': c['engine']} for c in calls])
        res.case(canon, hist_len >= 2, sample={'dom': prob['dom'], 'history': canon['history'], 'iters': iters} if ci < 3 else None)
        res.count('history length %d' % hist_len)
        zeros_caller = copy.deepcopy(zeros)
        eng = estgen.make_engine(prob['dom'], zeros_caller, iters=iters, warm_start=False)
        models, snaps, bad = [], [], None
        try:
            for k, c in enumerate(calls):
                mlist = estgen.to_measurements(c['meas'])
                if ci % 2 == 1:
                    mlist = respell(r, mlist)
                    res.count('calls with shorthand spellings (Q=None, bare name, list)')
                before = snap_inputs(mlist, zeros_caller)
                model = estgen.estimate(eng, c['meas'], c['total'], c['engine'])
                # estgen.estimate builds its own list; call again through the raw API with the caller's list to audit it
                import contextlib, io
                with contextlib.redirect_stdout(io.StringIO()), np.errstate(all='ignore'):
                    model = eng.estimate(mlist, total=c['total'], engine=c['engine'], options={})
                after = snap_inputs(mlist, zeros_caller)
                if before != after:
                    bad = f'call {k + 1}: the caller\'s measurement list / arrays / zero specification were modified'
                    break
                fresh = estgen.make_engine(prob['dom'], copy.deepcopy(zeros), iters=iters, warm_start=False)
                with contextlib.redirect_stdout(io.StringIO()), np.errstate(all='ignore'):
                    ref = fresh.estimate(estgen.to_measurements(c['meas']), total=c['total'], engine=c['engine'], options={})
                if not same_model(model, ref, exact=(c['engine'] == 'MD')):
                    bad = f'call {k + 1} ({c["engine"]}) on the reused estimator differs from a fresh estimator given the same arguments'
                    break
                caller_arrays = [a for (Q, y, _, _) in mlist for a in (Q, y)]
                for arr in arrays_of(model):
                    for ca in caller_arrays:
                        if isinstance(ca, np.ndarray) and np.shares_memory(arr, ca):
                            bad = f'call {k + 1}: a returned table shares memory with a caller array'
                    for j, old in enumerate(models):
                        for oa in arrays_of(old):
                            if np.shares_memory(arr, oa):
                                bad = f'call {k + 1}: a returned table shares memory with the model returned by call {j + 1}'
                if bad:
                    break
                for j, (old, s) in enumerate(zip(models, snaps)):
                    if snap_model(old) != s:
                        bad = f'the model returned by call {j + 1} changed its answers after call {k + 1}'
                        break
                if bad:
                    break
                models.append(model); snaps.append(snap_model(model))
        except Exception as e:
            bad = f'estimate raises {type(e).__name__}: {str(e)[:120]}'
        if bad:
            res.violation('failing-input', bad, {'request': canon, 'expected': bad}, key='history:' + bad.split(':')[0][:20].replace(' ', '-'))
    warm_start_clause(res, r, tier)


def warm_start_clause(res, r, tier):
    """with warm start, estimation over a grown measurement list reaches the cold-start optimum (a test)"""
    import contextlib, io
    for _ in range(4 if tier == 'quick' else 30):
        wz = (_ % 2 == 1)
        prob = estgen.gen_problem(r, nmeas=3, with_zeros=wz)
        total = float(prob['N'])
        warm = estgen.make_engine(prob['dom'], prob['zeros'] if wz else {}, iters=400, warm_start=True)
        cold = estgen.make_engine(prob['dom'], prob['zeros'] if wz else {}, iters=400, warm_start=False)
        if wz:
            res.count('warm-start clause with structural zeros')
        kept, bad = [], None
        with contextlib.redirect_stdout(io.StringIO()), np.errstate(all='ignore'):
            # grown lists, then the full list again with fresh noisy answers (same structure, new data) and a changed total;
            # every model handed back is kept by the caller and re-queried after each later call
            steps = [(prob['meas'][:k], total) for k in range(1, len(prob['meas']) + 1)]
            if wz:
                # a changed list: the first measurement alone again, then the others without it (cliques that carried zeros may disappear)
                steps += [(prob['meas'][:1], total), (prob['meas'][1:], total)]
            again = [dict(m, y=m['y'] + np.array([r.gauss(0, m['noise']) for _ in range(len(m['y']))])) for m in prob['meas']]
            steps += [(again, total), (prob['meas'], total * 1.5), (prob['meas'], total)]
            eng_cycle = ['MD', 'MD', 'IG', 'RDA']
            for si, (ms, tt) in enumerate(steps):
                engine = 'MD' if si < len(prob['meas']) or si == len(steps) - 1 else r.choice(eng_cycle)
                mw = warm.estimate(estgen.to_measurements(ms), total=tt, engine=engine, options={})
                for j, (old, snap) in enumerate(kept):
                    if old is mw:
                        bad = f'warm start: call {si + 1} returned the very object handed back by call {j + 1}'
                    elif snap_model(old) != snap:
                        bad = f'warm start: the model returned by call {j + 1} changed its answers after call {si + 1}'
                    elif any(np.shares_memory(a, b) for a in arrays_of(old) for b in arrays_of(mw)):
                        bad = f'warm start: the model returned by call {si + 1} shares memory with the one returned by call {j + 1}'
                    if bad:
                        break
                if bad:
                    break
                kept.append((mw, snap_model(mw)))
            if bad:
                res.case({'warm-start': estgen.canon_problem(prob)}, True)
                res.violation('failing-input', bad, {'request': estgen.canon_problem(prob), 'expected': bad}, key='history:warm-' + bad.split(':')[1][:24].strip().replace(' ', '-'))
                continue
            if wz and not bad:
                import c10
                zbad = c10.check_zeros(mw, prob, r, synth=False)
                if zbad:
                    bad = 'warm start with structural zeros: ' + zbad
                    res.case({'warm-start': estgen.canon_problem(prob)}, True)
                    res.violation('failing-input', bad, {'request': estgen.canon_problem(prob), 'expected': bad}, key='history:warm-zeros')
                    continue
            mc = cold.estimate(estgen.to_measurements(prob['meas']), total=total, options={})
            lw = warm._marginal_loss(mw.belief_propagation(mw.potentials))[0]
            lc = cold._marginal_loss(mc.belief_propagation(mc.potentials))[0]
            # "still converges": before a gap is reported the warm-started estimator is given more iterations (each further call continues
            # from its own result), and the cold one is re-run with the same overall budget
            rounds = 0
            while lw > lc + 1e-3 * (abs(lc) + 1) and lw > lc * 1.05 and rounds < 6:
                rounds += 1
                mw = warm.estimate(estgen.to_measurements(prob['meas']), total=total, engine='MD', options={})
                lw = warm._marginal_loss(mw.belief_propagation(mw.potentials))[0]
            if rounds:
                res.count('warm-start optimum test: budget escalated')
        res.case({'warm-start': estgen.canon_problem(prob)}, True)
        res.count('warm-start optimum test')
        if lw > lc + 1e-3 * (abs(lc) + 1) and lw > lc * 1.05:
            res.violation('failing-input', f'warm-started estimation over a grown measurement list ends at loss {lw:.6g}, a cold start at {lc:.6g} (convergence test: 400 iterations cold, up to 2800 warm)',
                          {'request': estgen.canon_problem(prob), 'observed': [lw, lc]}, key='history:warm-start-optimum')


def search(res, tier, seed, broken):
    run(res, None, 'quick', seed + 1)


def replay(res, drv, rp):
    res.case(rp['request'])
    run(res, None, 'quick', rp.get('seed', 0))
