"""C02 — every query path answers from one and the same joint distribution."""
import itertools, math, os, tempfile, shutil
import numpy as np
from common import Fr, enc_q, dec_q, close, rng
import gmgen

LEAN_MODULE = 'PGM.Properties.C02'
LEAN_EXTRA = ['PGM.Properties.C02G', 'PGM.Properties.C02E']
TRANSLATORS = ('py2gm', 'py2gmq', 'py2jt', 'py2gminit')   # project (cached / uncached), krondot, calculate_many_marginals of graphical_model.py -> Generated/GraphicalModelQG.lean (imports GraphicalModelG.lean); py2jt + py2gminit: junction_tree.py, GraphicalModel.__init__ -> JunctionTreeG / GraphicalModelInitG.lean (C02E: the query paths end to end on the generated __init__)
TRUSTED = ['Lean 4.33 kernel', 'axioms: propext, Classical.choice, Quot.sound',
           'hand model PGM/Model/GM.lean (variable elimination in both spaces, project, krondot, calculate_many_marginals, datavector) tied to src/mbi/graphical_model.py by this correspondence run',
           'networkx floyd_warshall_predecessor_and_distance modelled by its contract on trees (BFS predecessor table)',
           'pickle round trip (save/load) is a contract: exercised by the differential run only',
           'IEEE rounding not modelled (rel 1e-9 against exact rationals)']
ASSUMPTIONS = ['Z != 0', 'attribute tuples are duplicate-free']
RULE = ('models as in C01 (chain/star/cycle/grid/disconnected/nested/duplicated/single/3-cliques/random); for <=5 attributes every subset of attributes in a random order, '
        'random tuples above; asked through project (before and after caching), calculate_many_marginals in random batches, krondot with random small integer matrices, '
        'datavector, and again after save/load; non-trivial = the tuple is not contained in a single model clique (out-of-clique path) or is permuted; distinct = distinct (model, query path, tuple)')
EXPLANATION = ('every answer of the implementation is compared with the brute-force marginal of the explicit joint (rel 1e-9) and with the Lean model of the same query path over exact rationals; '
               'the model is compared with the brute-force marginal exactly')


def tuples_for(r, attrs, tier):
    n = len(attrs)
    if n <= 5:
        subs = [list(c) for k in range(n + 1) for c in itertools.combinations(attrs, k)]
        if tier == 'quick' and len(subs) > 12:
            subs = r.sample(subs, 12) + [[], list(attrs)]
    else:
        subs = [r.sample(attrs, r.randint(0, min(n, 4))) for _ in range(10)] + [[]]
    return [r.sample(s, len(s)) for s in subs]


def fvals(F):
    return [float(v) for v in np.asarray(F.values).flatten()]


def run(res, drv, tier, seed):
    r = rng(seed, 'C02')
    nmodels = 40 if tier == 'quick' else 300
    max_cells = 700 if tier == 'quick' else 2500
    np.random.seed(seed % 2**32)
    tmpdir = tempfile.mkdtemp(prefix='verif_c02_')
    reqs, checks = [], []   # checks: (kind, canon, impl_value(list), spec(list)|None, tol_abs)
    try:
        from mbi import GraphicalModel
        for mi in range(nmodels):
            dom, cl, kind = gmgen.gen_structure(r, max_cells, nmax=6)
            order = gmgen.gen_order(r, dom)
            total = r.choice([Fr(1), Fr(10), Fr(1, 2), Fr(1000)])
            model = gmgen.build_model(dom, cl, float(total), order)
            pots = gmgen.gen_potentials(r, model)
            joint = gmgen.brute_joint(dom, pots)
            if sum(joint.values()) == 0:
                continue
            model.potentials = gmgen.impl_potentials(pots)
            attrs = [a for a, _ in dom]
            sizes = dict(map(tuple, dom))
            base = {'dom': dom, 'cliques': cl, 'order': order, 'total': str(total), 'pots': gmgen.enc_pots(pots)}
            tol = 1e-12 * float(total)
            mcl = [list(c) for c in model.cliques]
            mord = [[list(a), list(b)] for a, b in model.message_order]
            common = {'dom': dom, 'cliques': mcl, 'order': mord, 'pots': gmgen.enc_pots(pots), 'total': enc_q(total)}
            tups = tuples_for(r, attrs, tier)
            with np.errstate(all='ignore'):
                # (a) uncached project
                for t in tups:
                    F = model.project(tuple(t))
                    spec = gmgen.brute_marginal(dom, joint, t, total)
                    inclique = any(set(t) <= set(c) for c in model.cliques)
                    checks.append(('project', dict(base, path='project', attrs=t), (list(F.domain.attrs), fvals(F)), (t, spec), tol, not inclique or t != [a for a in attrs if a in t]))
                    reqs.append(dict(common, op='gm_project', attrs=t))
                # (e) datavector
                v = model.datavector()
                spec = gmgen.brute_marginal(dom, joint, attrs, total)
                checks.append(('datavector', dict(base, path='datavector'), (attrs, [float(x) for x in v]), (attrs, spec), tol, True))
                reqs.append(dict(common, op='gm_datavector'))
                # (d) krondot
                mats = []
                for a in attrs:
                    rows = r.randint(1, 2)
                    mats.append(np.array([[r.randint(-2, 3) for _ in range(sizes[a])] for _ in range(rows)], dtype=float))
                kd = model.krondot(mats)
                jt = np.array([float(joint[x]) for x in itertools.product(*[range(sizes[a]) for a in attrs])]).reshape([sizes[a] for a in attrs])
                Zf = float(sum(joint.values()))
                # exact spec of krondot with Fractions
                specK = []
                for ridx in itertools.product(*[range(m.shape[0]) for m in mats]):
                    s = Fr(0)
                    for x, p in joint.items():
                        if p == 0:
                            continue
                        w = Fr(1)
                        for k, (ri, xi) in enumerate(zip(ridx, x)):
                            w *= Fr(int(mats[k][ri, xi]))
                            if w == 0:
                                break
                        s += w * p
                    specK.append(s * total / sum(joint.values()))
                checks.append(('krondot', dict(base, path='krondot', mats=[m.tolist() for m in mats]), ([a + '-answer' for a in attrs], [float(x) for x in kd.flatten()]),
                               ([a + '-answer' for a in attrs], specK), max(tol, 1e-9 * max(1.0, max(abs(float(x)) for x in specK))), True))
                reqs.append(dict(common, op='krondot', mats=[{'rows': m.shape[0], 'vals': [enc_q(int(x)) for x in m.flatten()]} for m in mats]))
                # (c) calculate_many_marginals (this also populates the cache)
                batch = [tuple(t) for t in tups if len(t) > 0]
                batch = r.sample(batch, min(len(batch), 8))
                ans = model.calculate_many_marginals(batch)
                edges = [[list(a), list(b)] for a, b in model.junction_tree.tree.edges()]
                reqs.append(dict(common, op='many', edges=edges, projections=[list(b) for b in batch]))
                manyvals = []
                for b in batch:
                    F = ans[b]
                    spec = gmgen.brute_marginal(dom, joint, list(b), total)
                    manyvals.append((list(b), list(F.domain.attrs), fvals(F), spec))
                checks.append(('many', dict(base, path='calculate_many_marginals', projections=[list(b) for b in batch]), manyvals, None, tol, True))
                # (b) cached project
                assert hasattr(model, 'marginals')
                for t in tups:
                    F = model.project(list(t))
                    spec = gmgen.brute_marginal(dom, joint, t, total)
                    checks.append(('project-cached', dict(base, path='project(cached)', attrs=t), (list(F.domain.attrs), fvals(F)), (t, spec), tol, True))
                    reqs.append(None)
                # (b') the library's own consumers of answers (synthetic_data rescales the tables it is handed,
                # in place) must not disturb later answers: query every full clique, generate data, ask again
                if float(total) >= 1:
                    for c in model.cliques:
                        model.project(tuple(c))
                    np.random.seed(r.randrange(2 ** 31))
                    try:
                        model.synthetic_data()
                    except Exception:
                        pass
                    for t in [list(c) for c in model.cliques] + r.sample(tups, min(3, len(tups))):
                        F = model.project(tuple(t))
                        spec = gmgen.brute_marginal(dom, joint, t, total)
                        checks.append(('project-after-synth', dict(base, path='project(cached, after synthetic_data)', attrs=t), (list(F.domain.attrs), fvals(F)), (t, spec), tol, True))
                        reqs.append(None)
                # (f) save / load
                path = os.path.join(tmpdir, f'm{mi}.pkl')
                GraphicalModel.save(model, path)
                m2 = GraphicalModel.load(path)
                for t in r.sample(tups, min(4, len(tups))):
                    F = m2.project(tuple(t))
                    spec = gmgen.brute_marginal(dom, joint, t, total)
                    checks.append(('project-loaded', dict(base, path='project(after save/load)', attrs=t), (list(F.domain.attrs), fvals(F)), (t, spec), tol, True))
                    reqs.append(None)
                del m2.marginals
                F = m2.project(tuple(tups[-1]))
                spec = gmgen.brute_marginal(dom, joint, tups[-1], total)
                checks.append(('project-loaded', dict(base, path='project(after save/load, cache dropped)', attrs=tups[-1]), (list(F.domain.attrs), fvals(F)), (tups[-1], spec), tol, True))
                reqs.append(None)
    finally:
        shutil.rmtree(tmpdir, ignore_errors=True)
    live = [q for q in reqs if q is not None]
    resps = iter(drv.run(live, timeout=1200)) if drv else None
    for (kind, canon, impl, spec, tol, nontriv), q in zip(checks, reqs):
        res.case(canon, nontriv, sample={k: canon[k] for k in ('dom', 'cliques', 'path') if k in canon} | ({'attrs': canon['attrs']} if 'attrs' in canon else {}) if kind in ('project', 'many') and nontriv else None)
        res.count('path:' + kind)
        resp = next(resps) if (resps is not None and q is not None) else None
        bad = None
        if kind == 'many':
            for b, attrs_i, vals_i, sp in impl:
                if attrs_i != b:
                    bad = f'answer for {b} laid out as {attrs_i}'
                    break
                for k, (sv, iv) in enumerate(zip(sp, vals_i)):
                    if not close(float(sv), iv, 1e-9, tol):
                        bad = f'projection {b} cell {k}: implementation {iv}, marginal of the joint {float(sv)}'
                        break
                if bad:
                    break
        else:
            attrs_i, vals_i = impl
            want, sp = spec
            if attrs_i != list(want):
                bad = f'answer laid out as {attrs_i}, requested {want}'
            elif len(sp) != len(vals_i):
                bad = f'answer has {len(vals_i)} cells, expected {len(sp)}'
            else:
                for k, (sv, iv) in enumerate(zip(sp, vals_i)):
                    if not close(float(sv), iv, 1e-9, tol):
                        bad = f'cell {k}: implementation {iv}, marginal of the joint {float(sv)}'
                        break
                if not bad and kind != 'krondot' and not close(sum(vals_i), float(Fr(canon['total'])), 1e-9, tol):
                    bad = f'answer sums to {sum(vals_i)}, model total is {canon["total"]}'
        rp = {'request': canon, 'observed': impl}
        if bad:
            res.violation('failing-input', f'{canon["path"]}: {bad}', dict(rp, expected=bad), key='query:' + kind)
            continue
        if resp is None:
            continue
        if not resp['ok']:
            res.violation('correspondence', f'{canon["path"]}: driver error {resp["err"]}', dict(rp, stream='C02.' + kind))
            continue
        d = None
        o = resp['out']
        if kind == 'project':
            if [a for a, _ in o['dom']] != impl[0]:
                d = f'layout: model {o["dom"]} impl {impl[0]}'
            else:
                d = cmp_vals(o['vals'], impl[1], spec[1], tol)
        elif kind == 'datavector':
            d = cmp_vals(o['vec'], impl[1], spec[1], tol)
        elif kind == 'krondot':
            d = cmp_vals(o['vals'], impl[1], spec[1], tol)
        elif kind == 'many':
            for e, (b, attrs_i, vals_i, sp) in zip(o, impl):
                if e['proj'] != b or [a for a, _ in e['dom']] != attrs_i:
                    d = f'layout of {b}: model {e["dom"]} impl {attrs_i}'
                    break
                d = cmp_vals(e['vals'], vals_i, sp, tol)
                if d:
                    d = f'projection {b}: ' + d
                    break
        if d:
            res.violation('correspondence', f'{canon["path"]}: {d}; implementation agrees with the marginal of the joint',
                          dict(rp, model=o, stream='C02.' + kind))
    history_stream(res, tier, seed)


def cmp_vals(mvals, ivals, spec, tol):
    if len(mvals) != len(ivals):
        return f'sizes: model {len(mvals)} impl {len(ivals)}'
    for k, (mv, iv) in enumerate(zip(mvals, ivals)):
        m = dec_q(mv)
        if isinstance(m, float):
            if not (math.isnan(m) and math.isnan(iv)) and m != iv:
                return f'cell {k}: model {m} impl {iv}'
        elif not close(float(m), iv, 1e-9, tol):
            return f'cell {k}: model {m} impl {iv}'
        elif spec is not None and m != spec[k]:
            return f'cell {k}: MODEL {m} differs from the brute-force value {spec[k]}'
    return None


def history_stream(res, tier, seed):
    """one model object queried, then its parameters are changed WITHOUT replacing the potentials object (the total re-assigned, a
    table re-assigned inside the container, a table updated in place, combine), then queried again through every path: each answer
    must come from the joint distribution the model has at that moment"""
    r = rng(seed, 'C02-history')
    for ci in range(15 if tier == 'quick' else 150):
        dom, cl, kind = gmgen.gen_structure(r, 400, nmax=5)
        attrs = [a for a, _ in dom]
        sizes = dict(map(tuple, dom))
        total = float(r.choice([1, 10, 1000]))
        model = gmgen.build_model(dom, cl, total, None)
        pots = gmgen.gen_potentials(r, model, zero_p=0.05)
        model.potentials = gmgen.impl_potentials(pots)
        cur = [(c, fd, list(v)) for c, fd, v in pots]
        tups = [t for t in tuples_for(r, attrs, 'quick') if len(t) > 0][:6]
        steps, bad = [], None
        canon = {'dom': dom, 'cliques': cl, 'history': steps, 'pots': gmgen.enc_pots(pots)}
        for step in range(r.randint(2, 4)):
            if step > 0:
                k = r.randrange(len(cur))
                c, fd, vals = cur[k]
                how = r.choice(['total', 'assign', 'iadd', 'total', 'cache'])
                if how == 'total':
                    total = float(r.choice([2, 50, 12345]))
                    model.total = total
                elif how == 'assign':
                    new = gmgen.gen_potentials(r, model, zero_p=0.05)[k][2]
                    cur[k] = (c, fd, list(new))
                    model.potentials[tuple(c)] = gmgen.impl_potentials([cur[k]])[tuple(c)]
                elif how == 'iadd':
                    f = [r.choice([Fr(1, 2), Fr(2), Fr(5), Fr(1)]) for _ in vals]
                    cur[k] = (c, fd, [a * b for a, b in zip(vals, f)])
                    model.potentials[tuple(c)] += gmgen.impl_potentials([(c, fd, f)])[tuple(c)]
                else:
                    with np.errstate(all='ignore'):
                        model.marginals = model.belief_propagation(model.potentials)
                if how != 'cache' and hasattr(model, 'marginals'):
                    del model.marginals          # the cache belongs to the old parameters; the caller drops it
                steps.append([how, list(c)])
            joint = gmgen.brute_joint(dom, cur)
            if sum(joint.values()) == 0:
                break
            with np.errstate(all='ignore'):
                answers = [('project', t, model.project(tuple(t))) for t in tups]
                many = model.calculate_many_marginals([tuple(t) for t in tups])
                answers += [('calculate_many_marginals', t, many[tuple(t)]) for t in tups]
                dv = model.datavector()
            # the model saved and re-loaded at this point of the history must answer from the same (current) joint
            if step > 0 and r.random() < 0.6:
                from mbi import GraphicalModel
                tmpd = tempfile.mkdtemp(prefix='c02hist')
                try:
                    path_ = os.path.join(tmpd, 'model.pkl')
                    GraphicalModel.save(model, path_)
                    loaded = GraphicalModel.load(path_)
                    with np.errstate(all='ignore'):
                        answers += [('project after save/load', t, loaded.project(tuple(t))) for t in tups[:3]]
                    res.count('history: model saved and re-loaded after in-place parameter changes')
                finally:
                    shutil.rmtree(tmpd, ignore_errors=True)
            for path, t, F in answers:
                spec = gmgen.brute_marginal(dom, joint, list(F.domain.attrs), Fr(total))
                got = fvals(F)
                if list(F.domain.attrs) != list(t) or any(not close(float(sv), iv, 1e-9, 1e-12 * total) for sv, iv in zip(spec, got)):
                    bad = f'query {step + 1} after in-place parameter changes {steps}: {path}({t}) does not answer from the model\'s current joint distribution (first cells {got[:3]}, marginal of the current joint {[float(x) for x in spec[:3]]})'
                    break
            if not bad:
                spec = gmgen.brute_marginal(dom, joint, attrs, Fr(total))
                if any(not close(float(sv), float(iv), 1e-9, 1e-12 * total) for sv, iv in zip(spec, dv)):
                    bad = f'query {step + 1} after in-place parameter changes {steps}: datavector() does not match the current joint'
            if bad:
                break
        res.case(canon, len(steps) >= 1)
        res.count('history: queries repeated on one model after in-place parameter changes')
        if bad:
            res.violation('failing-input', bad, {'request': canon, 'expected': bad}, key='query:history')


def search(res, tier, seed, broken):
    run(res, None, 'quick', seed + 1)


def replay(res, drv, rp):
    if 'history' in rp.get('request', {}):
        res.case(rp['request'])
        history_stream(res, 'quick', rp.get('seed', 0))
        return
    q = rp['request']
    dom, cl, order, total = q['dom'], q['cliques'], q['order'], Fr(q['total'])
    pots = [(e['clique'], e['dom'], [Fr(v) for v in e['vals']]) for e in q['pots']]
    np.random.seed(rp.get('seed', 0) % 2**32)
    model = gmgen.build_model(dom, cl, float(total), order)
    model.potentials = gmgen.impl_potentials(pots)
    joint = gmgen.brute_joint(dom, pots)
    res.case(q)
    attrs = [a for a, _ in dom]
    tups = [q['attrs']] if 'attrs' in q else q.get('projections', [attrs])
    with np.errstate(all='ignore'):
        if q['path'].startswith('calculate_many'):
            ans = model.calculate_many_marginals([tuple(t) for t in tups])
            got = [(t, fvals(ans[tuple(t)])) for t in tups]
        elif 'cached' in q['path']:
            model.marginals = model.belief_propagation(model.potentials)
            got = [(t, fvals(model.project(list(t)))) for t in tups]
        elif q['path'] == 'datavector':
            got = [(attrs, [float(x) for x in model.datavector()])]
        else:
            got = [(t, fvals(model.project(tuple(t)))) for t in tups]
    for t, vals in got:
        spec = gmgen.brute_marginal(dom, joint, t, total)
        for k, (sv, iv) in enumerate(zip(spec, vals)):
            if not close(float(sv), iv, 1e-9, 1e-12 * float(total)):
                res.violation('failing-input', f'{q["path"]}: {t} cell {k}: implementation {iv}, marginal of the joint {float(sv)}', {'request': q}, key='query:replay')
                return
