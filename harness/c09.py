"""C09 — known totals are honoured; unknown totals are the best linear estimate."""
import math
import numpy as np
from common import Fr, enc_q, dec_q, close, rng

LEAN_MODULE = 'PGM.Properties.C09'
LEAN_EXTRA = ['PGM.Properties.C09G']
TRANSLATORS = ('py2total',)   # the estimate-the-total block of inference.py / local_inference.py / public_inference.py -> Generated/TotalG.lean
TRUSTED = ['Lean 4.33 kernel', 'axioms: propext, Classical.choice, Quot.sound',
           'scipy lsmr modelled by its contract (minimum-norm least-squares solution of Q^T v = 1); the model computes it exactly by certified Gauss-Jordan elimination over Q',
           'hand model PGM/Model/Total.lean tied to inference.py:289-304 and its copies (local_inference, public_inference) by this correspondence run',
           'numpy allclose tolerance: systems are generated either exactly consistent or clearly inconsistent']
ASSUMPTIONS = ['query matrices with integer / dyadic entries', 'mixture_inference needs jax (absent) and is not exercised']
RULE = ('1-3 measurements with query matrices in {identity, scaled, prefix, all-range, random full-rank integer, random dyadic, rank-deficient without ones, rank-deficient with ones}, '
        'sizes 1..64 (quick: <=24), given as dense / sparse / LinearOperator, noise in {0.5,1,2,3.5}; y = Qx exactly (noise-free) or Qx + integer noise; '
        'non-trivial = matrix is not a (scaled) identity; distinct = distinct (matrices, y, noise)')
EXPLANATION = ('model.total of FactoredInference / LocalInference and PublicInference.estimate_total vs the exact rational model; '
               'noise-free datasets with the ones vector in the row space must give exactly N; a supplied total must be used unchanged by every engine')


def gen_matrix(r, n, kind):
    if kind == 'identity':
        return np.eye(n)
    if kind == 'scaled':
        return np.eye(n) * r.choice([0.5, 2.0, 4.0])
    if kind == 'prefix':
        return np.tril(np.ones((n, n)))
    if kind == 'range':
        rows = [[1.0 if i <= k <= j else 0.0 for k in range(n)] for i in range(n) for j in range(i, n)]
        if len(rows) > 80:
            rows = r.sample(rows, 80) + [[1.0] * n]
        return np.array(rows)
    if kind == 'fullrank':
        while True:
            M = np.array([[r.randint(-2, 3) for _ in range(n)] for _ in range(n + r.randint(0, 2))], dtype=float)
            if np.linalg.matrix_rank(M) == n:
                return M
    if kind == 'dyadic':
        while True:
            M = np.array([[r.choice([0, 0.5, 1, -0.25, 2, 1.5]) for _ in range(n)] for _ in range(n)], dtype=float)
            if np.linalg.matrix_rank(M) == n:
                return M
    if kind == 'deficient-noones':
        # rows all orthogonal to ... : use differences e_i - e_{i+1}: ones not in row space (n>=2)
        if n == 1:
            return np.zeros((1, 1))
        return np.array([[1.0 if k == i else (-1.0 if k == i + 1 else 0.0) for k in range(n)] for i in range(n - 1)])
    if kind == 'deficient-ones':
        # total query plus a few others: rank-deficient, ones in row space
        rows = [[1.0] * n]
        for _ in range(max(0, n // 2 - 1)):
            rows.append([float(r.randint(0, 1)) for _ in range(n)])
        return np.array(rows)
    raise ValueError(kind)


KINDS = ['identity', 'scaled', 'prefix', 'range', 'fullrank', 'dyadic', 'deficient-noones', 'deficient-ones']


def gen_case(r, maxn):
    ms = []
    k = r.randint(1, 3)
    twin = r.random() < 0.35       # several workloads of the same shape over the same attribute (identity, then prefix sums, ...)
    for _ in range(k):
        n = r.choice([1, 2, 3, 4, 5, 8, 8, 12, 16, maxn])
        kind = r.choice(KINDS)
        if twin and ms:
            n = ms[0]['Q'].shape[1]
            kind = r.choice(['identity', 'scaled', 'prefix', 'fullrank', 'dyadic', 'deficient-ones'] if n > 1 else KINDS)
        if kind == 'range' and n > 12:
            n = 12
        Q = gen_matrix(r, n, kind)
        x = np.array([r.randint(0, 9) for _ in range(n)], dtype=float)
        if x.sum() == 0:
            x[0] = 1
        ms.append({'Q': Q, 'x': x, 'kind': kind, 'noise': r.choice([0.5, 1.0, 2.0, 3.5])})
    noise_free = r.random() < 0.6
    if noise_free:
        N = float(r.randint(1, 300))
        for m in ms:
            # same dataset size for all measurements: rescale x to integer vector with sum N
            n = len(m['x'])
            x = np.zeros(n)
            for _ in range(int(N)):
                x[r.randrange(n)] += 1
            m['x'] = x
            m['y'] = m['Q'] @ x
    else:
        N = None
        for m in ms:
            m['y'] = m['Q'] @ m['x'] + np.array([r.randint(-3, 3) for _ in range(m['Q'].shape[0])], dtype=float)
    return ms, N


def spell(r, Q):
    from scipy import sparse
    from scipy.sparse.linalg import aslinearoperator
    k = r.choice(['dense', 'sparse', 'op', 'csc', 'coo', 'dia'])
    return {'dense': lambda: Q, 'sparse': lambda: sparse.csr_matrix(Q), 'op': lambda: aslinearoperator(sparse.csr_matrix(Q)),
            'csc': lambda: sparse.csc_matrix(Q), 'coo': lambda: sparse.coo_matrix(Q), 'dia': lambda: sparse.dia_matrix(Q)}[k](), k


def impl_totals(r, ms):
    """total as computed by each engine class for total=None"""
    from mbi import Domain, FactoredInference, LocalInference
    from mbi import public_inference
    out = {}
    # one attribute per size (measurements of the same width share their attribute half of the time), so that any sizes can coexist
    attrs, sizes, by_size = [], {}, {}
    for i, m in enumerate(ms):
        n = m['Q'].shape[1]
        if n in by_size and r.random() < 0.6:
            attrs.append(by_size[n])
        else:
            a = f'a{i}'
            attrs.append(a); sizes[a] = n; by_size[n] = a
    dom = Domain(list(sizes), [sizes[a] for a in sizes])
    meas, kinds = [], []
    for a, m in zip(attrs, ms):
        Qs, k = spell(r, m['Q'])
        kinds.append(k)
        meas.append((Qs, m['y'], m['noise'], (a,)))
    with np.errstate(all='ignore'):
        SHARED[0] += len(ms) - len(sizes)
        eng = FactoredInference(dom, iters=1)
        eng._setup(eng.fix_measurements(list(meas)), None)
        out['FactoredInference'] = float(eng.model.total)
        loc = LocalInference(dom, iters=1)
        loc._setup(list(meas), None)
        out['LocalInference'] = float(loc.model.total)
        out['PublicInference'] = float(public_inference.estimate_total(list(meas)))
    return out, kinds


SHARED = [0]


def float_blue(ms):
    """the property's specification in floating point: inverse-variance combination of the unbiased linear estimates available from
    exactly those measurements whose queries can express the count, at least 1"""
    ests, vars_ = [], []
    for m in ms:
        Q = m['Q']
        v = np.linalg.pinv(Q.T) @ np.ones(Q.shape[1])
        if np.allclose(Q.T @ v, 1.0, atol=1e-9):
            ests.append(v @ m['y']); vars_.append(m['noise'] ** 2 * (v @ v))
    if not ests:
        return 1.0
    var = 1 / sum(1 / x for x in vars_)
    return max(1.0, var * sum(e / x for e, x in zip(ests, vars_)))


def workspace_history(res, r, tier):
    """an adaptive loop that keeps ONE query array and ONE answer array and overwrites them in place between rounds (and, separately,
    builds a fresh array of the same shape every round while dropping the old one): the estimate of every round must come from that
    round's contents"""
    from mbi import Domain, FactoredInference, LocalInference, public_inference
    import contextlib, io
    for _ in range(2 if tier == 'quick' else 12):
        n = r.choice([3, 4, 6])
        dom = Domain(['a'], [n])
        work = np.zeros((n, n)); ywork = np.zeros(n)
        seq = []
        for rnd in range(6):
            N = r.randint(5, 300)
            x = np.zeros(n)
            for _k in range(N):
                x[r.randrange(n)] += 1
            Q = [np.eye(n), float(r.choice([2.0, 4.0, 0.5])) * np.eye(n), np.tril(np.ones((n, n))), np.triu(np.ones((n, n)))][r.randrange(4)]
            inplace = rnd % 2 == 0
            if inplace:
                work[:] = Q; ywork[:] = Q @ x
                meas = [(work, ywork, 1.0, ('a',))]
            else:
                meas = [(Q.copy(), Q @ x, 1.0, ('a',))]
            got = {}
            with contextlib.redirect_stdout(io.StringIO()), np.errstate(all='ignore'):
                got['PublicInference'] = float(public_inference.estimate_total(list(meas)))
                eng = FactoredInference(dom, iters=1); eng._setup(eng.fix_measurements(list(meas)), None); got['FactoredInference'] = float(eng.model.total)
                loc = LocalInference(dom, iters=1); loc._setup(list(meas), None); got['LocalInference'] = float(loc.model.total)
            seq.append((rnd, 'in place' if inplace else 'fresh array', N, got))
            res.case({'workspace': n, 'round': rnd, 'N': N, 'q': int(Q.sum())}, True)
            res.count('workspace rounds')
            for k, v in got.items():
                if not close(v, float(N), 1e-6, 1e-9):
                    res.violation('failing-input', f'{k}: round {rnd} of a loop that re-uses its query / answer arrays ({"overwritten in place" if inplace else "fresh array of the same shape"}): '
                                  f'total {v} for noise-free answers of {N} records (rounds so far: {seq})', {'request': {'history': 'c09.workspace_history', 'n': n, 'rounds': [(a, b, c) for a, b, c, _ in seq]}}, key='total:workspace')
                    return
            del meas


def given_total_used(r):
    """a supplied total reaches model.total unchanged, every solver / engine class"""
    from mbi import Domain, FactoredInference, LocalInference, PublicInference, Dataset
    import pandas as pd
    dom = Domain(['a', 'b'], [2, 3])
    T = r.choice([7.0, 0.5, 123456.0, 3.25])
    meas = [(np.eye(2), np.array([3.0, 4.0]), 1.0, ('a',)), (np.eye(3), np.array([1.0, 2.0, 4.0]), 2.0, ('b',))]
    got = {}
    with np.errstate(all='ignore'):
        import io, contextlib
        for engine in ('MD', 'RDA', 'IG'):
            with contextlib.redirect_stdout(io.StringIO()):
                m = FactoredInference(dom, iters=2).estimate(list(meas), total=T, engine=engine)
            got['Factored/' + engine] = float(m.total)
        for oracle in ('convex', 'approx', 'pairwise'):
            m = LocalInference(dom, iters=2, marginal_oracle=oracle).estimate(list(meas), total=T)
            got['Local/' + oracle] = float(m.total)
        pub = Dataset(pd.DataFrame({'a': [0, 1, 1, 0], 'b': [0, 1, 2, 2]}), dom)
        est = PublicInference(pub).estimate(list(meas), total=T)
        got['Public'] = float(est.weights.sum())
    return T, got


def run(res, drv, tier, seed):
    r = rng(seed, 'C09')
    n = 80 if tier == 'quick' else 600
    maxn = 24 if tier == 'quick' else 64
    cases, reqs = [], []
    for _ in range(n):
        ms, N = gen_case(r, maxn)
        impl, kinds = impl_totals(r, ms)
        cases.append((ms, N, impl, kinds))
        reqs.append({'op': 'total', 'meas': [{'Q': [[enc_q(v) for v in row] for row in m['Q']], 'y': [enc_q(v) for v in m['y']],
                                              'noise': enc_q(m['noise'])} for m in ms], 'total': None})
    resps = drv.run(reqs, timeout=1200) if drv else [None] * n
    for (ms, N, impl, kinds), resp in zip(cases, resps):
        canon = {'meas': [{'kind': m['kind'], 'n': int(m['Q'].shape[1]), 'Q': m['Q'].tolist(), 'y': m['y'].tolist(), 'noise': m['noise']} for m in ms], 'N': N}
        nt = any(m['kind'] not in ('identity', 'scaled') for m in ms)
        res.case(canon, nt, sample={'kinds': [m['kind'] for m in ms], 'sizes': [int(m['Q'].shape[1]) for m in ms], 'N': N, 'impl': impl} if nt and N else None)
        for m, k in zip(ms, kinds):
            res.count('matrix:' + m['kind']); res.count('spelling:' + k)
        rp = {'request': canon, 'observed': impl}
        bad = None
        # specification: noise-free data with the ones vector in some row space => exactly N
        if N is not None:
            has_ones = False
            for m in ms:
                Q = m['Q']
                v, *_ = np.linalg.lstsq(Q.T, np.ones(Q.shape[1]), rcond=None)
                if np.allclose(Q.T @ v, 1.0, atol=1e-9):
                    has_ones = True
            want = N if has_ones else 1.0
            for eng, t in impl.items():
                if not close(t, want, 1e-6, 1e-9):
                    bad = (f'{eng}: total {t} for a noise-free dataset of N={N} records ' +
                           ('(ones vector in the row space of a query matrix)' if has_ones else '(no query can express the count: total must be 1)'))
                    break
        if bad:
            kinds_s = '+'.join(sorted(set(m['kind'] for m in ms)))
            res.violation('failing-input', bad, dict(rp, expected=bad), key='total:noise-free')
            continue
        if resp is None:
            # no model available (a broken build / translation): the property's own specification decides alone
            if N is None:
                blue = float_blue(ms)
                for eng, t in impl.items():
                    if not close(t, blue, 1e-6, 1e-9):
                        res.violation('failing-input', f'{eng}: total {t}, but the inverse-variance combination of the unbiased linear estimates is {blue}',
                                      dict(rp, expected=blue), key='total:blue')
                        break
            continue
        if not resp['ok']:
            res.violation('correspondence', 'driver error ' + resp['err'], dict(rp, stream='C09.total'))
            continue
        mt = float(dec_q(resp['out']['total']))
        for eng, t in impl.items():
            if not close(t, mt, 1e-6, 1e-9):
                # independent BLUE in floating point decides who is right
                ests, vars_ = [], []
                for m in ms:
                    Q = m['Q']
                    v = np.linalg.pinv(Q.T) @ np.ones(Q.shape[1])
                    if np.allclose(Q.T @ v, 1.0, atol=1e-9):
                        ests.append(v @ m['y']); vars_.append(m['noise'] ** 2 * (v @ v))
                if ests:
                    var = 1 / sum(1 / x for x in vars_)
                    blue = max(1.0, var * sum(e / x for e, x in zip(ests, vars_)))
                else:
                    blue = 1.0
                if close(blue, mt, 1e-6, 1e-9):
                    res.violation('failing-input', f'{eng}: total {t}, but the inverse-variance combination of the unbiased linear estimates is {blue}',
                                  dict(rp, expected=blue, model=resp['out']), key='total:blue')
                else:
                    res.violation('correspondence', f'{eng}: total {t}, model {mt}, float BLUE {blue}', dict(rp, model=resp['out'], stream='C09.total'))
                break
    # clause: the estimate is a function of *this call's* measurements, also on a reused / warm-started estimator
    history_totals(res, drv, r, tier)
    workspace_history(res, rng(seed, 'C09-workspace'), tier)
    # clause: a supplied total is used exactly
    for _ in range(3 if tier == 'quick' else 12):
        T, got = given_total_used(r)
        res.case({'given_total': T}, True)
        res.count('given-total runs')
        for k, v in got.items():
            if not close(v, T, 1e-12, 0):
                res.violation('failing-input', f'{k}: supplied total {T} but the model uses {v}', {'request': {'given_total': T}, 'observed': got}, key='total:given')
                break


def history_totals(res, drv, r, tier):
    """several estimate calls on one estimator object (cold and warm start), some with a supplied total, some
    without: each omitted total must be the estimate from that call's own measurement list"""
    from mbi import Domain, FactoredInference, LocalInference
    import contextlib, io
    for _ in range(4 if tier == 'quick' else 30):
        n1, n2 = r.choice([2, 3, 4]), r.choice([2, 3])
        dom = Domain(['a', 'b'], [n1, n2])
        N = r.randint(5, 200)
        xa = np.zeros(n1); xb = np.zeros(n2)
        for _k in range(N):
            xa[r.randrange(n1)] += 1; xb[r.randrange(n2)] += 1
        diff = np.array([[1.0 if k == i else (-1.0 if k == i + 1 else 0.0) for k in range(n1)] for i in range(n1 - 1)])
        calls = [([(diff, diff @ xa, 1.0, ('a',))], None, 1.0),                                       # no query expresses the count
                 ([(np.eye(n1), xa.copy(), 1.0, ('a',)), (np.tril(np.ones((n2, n2))), np.tril(np.ones((n2, n2))) @ xb, 2.0, ('b',))], None, float(N)),
                 ([(np.eye(n1), xa.copy(), 1.0, ('a',))], 55.5, 55.5),
                 ([(np.eye(n2), xb.copy(), 0.5, ('b',))], None, float(N)),
                 # other workloads of the same shape over the same attribute as an earlier / later call
                 ([(np.tril(np.ones((n1, n1))), np.tril(np.ones((n1, n1))) @ xa, 1.0, ('a',))], None, float(N)),
                 ([(np.vstack([diff, np.zeros((1, n1))]), np.vstack([diff, np.zeros((1, n1))]) @ xa, 1.0, ('a',))], None, 1.0),
                 ([(2.0 * np.eye(n2), 2.0 * xb, 0.5, ('b',))], None, float(N))]
        r.shuffle(calls)
        for warm in (False, True):
            for cls, kw in ((FactoredInference, {}), (LocalInference, {'marginal_oracle': 'convex'})):
                eng = cls(dom, iters=2, warm_start=warm, **kw)
                seq = []
                for meas, given, want in calls:
                    with contextlib.redirect_stdout(io.StringIO()), np.errstate(all='ignore'):
                        try:
                            # FactoredInference.estimate has a mutable default `options={}` shared by every call in the process: half of the histories
                            # rely on it (the way every mechanism calls estimate), half pass their own dict
                            m = eng.estimate(list(meas), total=given) if (cls is LocalInference or warm) else eng.estimate(list(meas), total=given, options={})
                        except Exception as e:
                            res.violation('failing-input', f'{cls.__name__}(warm_start={warm}).estimate raises {type(e).__name__} in a call history', {'request': {'history': 'see c09.history_totals'}}, key='total:history-raises')
                            break
                    seq.append((given, want, float(m.total)))
                    if not close(float(m.total), want, 1e-6, 1e-9):
                        res.violation('failing-input', f'{cls.__name__}(warm_start={warm}): call {len(seq)} of a history (total {"omitted" if given is None else given}) uses total {float(m.total)}; '
                                      f'the estimate from that call\'s own measurements is {want} (history so far: {seq})',
                                      {'request': {'N': N, 'sizes': [n1, n2], 'warm_start': warm, 'engine': cls.__name__, 'history': seq}}, key='total:history')
                        break
                res.case({'history': [c[1] for c in calls], 'warm': warm, 'cls': cls.__name__, 'N': N}, True)
                res.count('history runs')


def search(res, tier, seed, broken):
    run(res, None, 'quick', seed + 1)


def replay(res, drv, rp):
    res.case(rp['request'])
    q = rp['request']
    if 'meas' not in q:
        return
    r = rng(0, 'replay')
    ms = [{'Q': np.array(m['Q'], dtype=float), 'y': np.array(m['y'], dtype=float), 'noise': m['noise'], 'kind': m['kind']} for m in q['meas']]
    impl, _ = impl_totals(r, ms)
    N = q.get('N')
    if N is not None:
        for eng, t in impl.items():
            if not close(t, N, 1e-6, 1e-9) and not close(t, 1.0, 1e-9, 0):
                res.violation('failing-input', f'{eng}: total {t} for noise-free N={N}', {'request': q, 'observed': impl}, key='total:noise-free')
                return
            if close(t, 1.0, 1e-9, 0) and N != 1:
                res.violation('failing-input', f'{eng}: total {t} for noise-free N={N}', {'request': q, 'observed': impl}, key='total:noise-free')
                return
