"""C17 — the convex region-graph oracle solves its variational problem."""
import itertools, math
import numpy as np
from common import Fr, enc_f, dec_f, close, rng
import gmgen, rggen

LEAN_MODULE = 'PGM.Properties.C17'
LEAN_EXTRA = [
    'PGM.Properties.C17G',
]
TRANSLATORS = (
    'py2rg',      # region_graph.py (hazan_peng_shashua, generalized_belief_propagation, primal_feasibility, build_graph) -> Generated/RegionGraphG.lean, proved equal to Model/RegionGraph.lean in C17G
)
TRUSTED = ['Lean 4.33 kernel', 'axioms: propext, Classical.choice, Quot.sound',
           'hand model PGM/Model/RegionGraph.lean (hazan_peng_shashua with persisted messages, primal_feasibility, dualValue, primalValue) '
           'tied to src/mbi/region_graph.py by this correspondence run (Float instance, rel 1e-9)',
           'CONVERGENCE IS TESTED, NOT PROVED: per run, iterations are escalated until the mean edge disagreement is <= 1e-6*total (or a cap); '
           'optimality is then decided by the weak-duality certificate D(lambda) - F(b) computed independently in numpy and in the Lean model',
           'weak duality F(q) <= D(lambda) for every locally consistent q is additionally spot-checked on marginals of explicit joint distributions']
ASSUMPTIONS = ['finite potentials log(p/q) on every region', 'damping in (0,1)', 'all counting numbers 1 (convex=True)']
RULE = ('clique-set classes {chain, star, fgtree, rip (trees); loop; dense, arbitrary, nested, sameset} on 2-6 attributes of sizes 1-4; potentials on every '
        'region, optionally with permuted attribute order; totals {1/2,1,10,1000}; damping in {0.05..0.95} or uniform(0,1); minimal and saturated graphs; '
        'sweep schedule 50,50,100,200,... on one oracle object until feasibility 1e-6*total or the cap; '
        'non-trivial = region graph with >= 2 edges; distinct = distinct (structure, potentials, total, damping)')
EXPLANATION = ('hazan_peng_shashua run to (tested) convergence; (a) returned tables equal total*softmax of the reparametrised potentials built from the '
               'object\'s upward messages (Lagrangian form); (b) duality gap D(lambda)-F(b) <= 1e-5(|D|+1) and F(b) >= F(q)-tol for marginals q of explicit joints; '
               '(c) all pairs of tables agree on shared attributes within the summed edge disagreement; (d) tables, sweep counts, feasibility, dual, primal vs the Lean model')

TOTALS = [0.5, 1.0, 10.0, 1000.0]
DAMPINGS = [0.05, 0.1, 0.3, 0.5, 0.5, 0.7, 0.9, 0.95]
SCHEDULE = [50, 50, 100, 200, 400, 800, 1600, 3200, 6400]
KINDS = ['chain', 'star', 'fgtree', 'rip', 'loop', 'loop', 'dense', 'dense', 'arbitrary', 'nested', 'sameset', 'deep', 'ring', 'ring']


# ---------------------------------------------------------------------------------------------
# independent numpy computations on (attrs, array) tables

def arr_of(attrs, vals, size):
    return np.array(vals, dtype=float).reshape([size[a] for a in attrs])


def expand_to(attrs, arr, target, size):
    """array over `attrs` (subset of target) broadcast to the axes of `target`"""
    perm = sorted(range(len(attrs)), key=lambda i: target.index(attrs[i]))
    a = np.transpose(arr, perm)
    have = [attrs[i] for i in perm]
    shape = [size[t] if t in have else 1 for t in target]
    return np.broadcast_to(a.reshape(shape), [size[t] for t in target])


def marg_onto(attrs, arr, onto):
    drop = tuple(i for i, a in enumerate(attrs) if a not in onto)
    a = arr.sum(axis=drop) if drop else arr
    rest = [x for x in attrs if x in onto]
    return np.transpose(a, [rest.index(x) for x in onto])


def lse(a):
    m = a.max()
    return m + math.log(np.exp(a - m).sum())


def entropy(b, total):
    nz = b[b > 0]
    return float(-(nz * np.log(nz / total)).sum())


def certificate(rg, fpots, tab, total, size):
    """theta~ from the object's upward messages; returns (max |b - total softmax(theta~)|, D, F(b))"""
    pot = {tuple(cl): ([a for a, _ in fdom], np.array(fl, dtype=float).reshape([s for _, s in fdom])) for cl, fdom, fl in fpots}
    D, F, lag = 0.0, 0.0, 0.0
    for r in rg.regions:
        tattrs = tab[r][0]
        th = expand_to(*pot[r], tattrs, size).astype(float).copy()
        for c in rg.children[r]:
            m = rg.messages[c, r]
            th = th + expand_to(list(m.domain.attrs), m.values, tattrs, size)
        for p in rg.parents[r]:
            m = rg.messages[r, p]
            th = th - expand_to(list(m.domain.attrs), m.values, tattrs, size)
        z = lse(th)
        D += total * z
        b = arr_of(tattrs, tab[r][1], size)
        lag = max(lag, float(np.abs(b - total * np.exp(th - z)).max()))
        F += float((expand_to(*pot[r], tattrs, size) * b).sum()) + entropy(b, total)
    return lag, D, F


def primal_of(rg, fpots, q, total, size):
    """F(q) for tables q[r] = (attrs, array)"""
    F = 0.0
    for cl, fdom, fl in fpots:
        r = tuple(cl)
        qa, qb = q[r]
        F += float((expand_to([a for a, _ in fdom], np.array(fl, dtype=float).reshape([s for _, s in fdom]), qa, size) * qb).sum())
        F += entropy(qb, total)
    return F


def edge_errors(rg, tab, size):
    """aligned L1 disagreement on every region-graph edge"""
    out = []
    for r in rg.regions:
        br = arr_of(tab[r][0], tab[r][1], size)
        for s in rg.children[r]:
            bs = arr_of(tab[s][0], tab[s][1], size)
            out.append(float(np.abs(marg_onto(tab[r][0], br, list(s)) - marg_onto(tab[s][0], bs, list(s))).sum()))
    return out


def pair_disagreement(rg, tab, size):
    worst, where = 0.0, None
    regs = list(rg.regions)
    for r, s in itertools.combinations(regs, 2):
        d = [a for a in r if a in s]
        if not d:
            continue
        x = marg_onto(tab[r][0], arr_of(tab[r][0], tab[r][1], size), d)
        y = marg_onto(tab[s][0], arr_of(tab[s][0], tab[s][1], size), d)
        e = float(np.abs(x - y).sum())
        if e > worst:
            worst, where = e, (r, s, d)
    return worst, where


def joint_marginals(dom, regions, tab, total, r=None):
    """marginals (on every region) of an explicit joint distribution with mass `total`: locally consistent by construction"""
    shape = [s for _, s in dom]
    attrs = [a for a, _ in dom]
    if r is None:
        J = np.ones(shape)
    else:
        J = np.array([r.choice([0.05, 0.2, 1.0, 1.0, 3.0]) for _ in range(int(np.prod(shape)))]).reshape(shape)
    J = J * (total / J.sum())
    return {reg: (tab[reg][0], marg_onto(attrs, J, tab[reg][0])) for reg in regions}


# ---------------------------------------------------------------------------------------------

# inputs on which an earlier (thorough) run failed, re-run every time: (dom, cliques, total, damping, minimal, sweep cap)
PINNED = [
    # two regions naming the same attribute set: no edge links them
    ([['d', 2], ['e', 3]], [['e', 'd'], ['d', 'e']], 1.0, 0.5, True, 400),
    # sub-cliques listed in non-alphabetical order (twin regions (g,f)/(f,g), (h,f)/(f,h)) and damping 0.1: the messages grow without bound
    ([['g', 3], ['f', 3], ['h', 4], ['c', 3], ['b', 4]], [['c', 'b'], ['g', 'f', 'h'], ['g', 'f'], ['c', 'h'], ['h', 'f']], 10.0, 0.1, True, 400),
]


def make_case(r, max_cells):
    dom, cl, kind = rggen.gen_case(r, max_cells, kinds=KINDS)
    total = r.choice(TOTALS)
    damping = r.choice(DAMPINGS) if r.random() < 0.7 else round(r.uniform(0.02, 0.98), 3)
    minimal = r.random() < 0.85
    return dom, cl, kind, total, damping, minimal


def solve(dom, cl, total, damping, minimal, fpots, cap, pre=None):
    # a third of the objects start with another damping value, which is re-assigned on the live object after the first call
    # (LocalInference does this when the loss rises late: model.damping = (0.9 + model.damping)/2)
    first = (0.9 + damping) / 2.0 if int(damping * 1000) % 3 == 0 else damping
    rg = rggen.build_rg(dom, cl, total, convex=True, minimal=minimal, iters=SCHEDULE[0], convergence=1e-6 * total, damping=first)
    size = dict(map(tuple, dom))
    cv = rggen.impl_cv(fpots)
    calls, used = [], 0
    if pre is not None:
        # a history on the oracle AND on the parameter container: solved once for other potentials, then every entry of the same
        # CliqueVector is re-bound to the potentials of this case (messages persist: hps_certificate_warm covers the warm state)
        cv = rggen.impl_cv(pre)
        rg.iters = 400
        cnt = [0]
        with np.errstate(all='ignore'):
            mu = rg.belief_propagation(cv, callback=lambda m: cnt.__setitem__(0, cnt[0] + 1))
            pf_impl = float(rg.primal_feasibility(mu))
        tab = rggen.table(mu)
        errs = edge_errors(rg, tab, size)
        calls.append({'iters': 400, 'sweeps': cnt[0], 'tab': tab, 'pf_impl': pf_impl, 'pf': sum(errs) / len(errs) if errs else 0.0, 'errs': errs,
                      'damping': float(rg.damping), 'fp': pre})
        new = rggen.impl_cv(fpots)
        for k_ in new:
            cv[k_] = new[k_]
        PREHIST[0] += 1
    for ci, it in enumerate(SCHEDULE):
        if used >= cap:
            break
        it = min(it, cap - used)
        rg.iters = it
        if ci == 1:
            rg.damping = damping
        cnt = [0]
        with np.errstate(all='ignore'):
            mu = rg.belief_propagation(cv, callback=lambda m: cnt.__setitem__(0, cnt[0] + 1))
            pf_impl = float(rg.primal_feasibility(mu))
        tab = rggen.table(mu)
        errs = edge_errors(rg, tab, size)
        pf = sum(errs) / len(errs) if errs else 0.0
        calls.append({'iters': it, 'sweeps': cnt[0], 'tab': tab, 'pf_impl': pf_impl, 'pf': pf, 'errs': errs, 'damping': float(rg.damping), 'fp': fpots})
        used += cnt[0]
        if pf <= 1e-6 * total:
            break
    # "run to convergence" is a limit statement: a run that reaches the cap while the disagreement is still contracting (it fell to
    # <= 0.7 of its value over the last stage, and every stage is as long as all earlier ones together) has not failed to converge, it
    # is slow (damping close to 1 moves 5% per sweep).  Such runs are continued, stage by stage, up to 16x the cap; only a run whose
    # disagreement has stopped contracting, or that exhausts this budget, is handed on as not converged.
    ext = 0
    while (calls and len(calls) >= 2 and used >= cap and used < 16 * cap and calls[-1]['pf'] > 1e-6 * total
           and math.isfinite(calls[-1]['pf']) and calls[-1]['pf'] <= 0.7 * calls[-2]['pf'] and float(rg.damping) > 0.1):
        it = min(max(used, 400), 16 * cap - used)
        rg.iters = it
        cnt = [0]
        with np.errstate(all='ignore'):
            mu = rg.belief_propagation(cv, callback=lambda m: cnt.__setitem__(0, cnt[0] + 1))
            pf_impl = float(rg.primal_feasibility(mu))
        tab = rggen.table(mu)
        errs = edge_errors(rg, tab, size)
        pf = sum(errs) / len(errs) if errs else 0.0
        calls.append({'iters': it, 'sweeps': cnt[0], 'tab': tab, 'pf_impl': pf_impl, 'pf': pf, 'errs': errs, 'damping': float(rg.damping), 'fp': fpots})
        used += cnt[0]
        ext += 1
        EXTENDED[0] += 1
        if cnt[0] == 0:
            break
    return rg, calls, used, size


EXTENDED = [0]
KILLED = [0]


PREHIST = [0]


def cert_request(dom, rg, total, fpots, tab, size):
    """the implementation's final messages and tables, for the Lean evaluation of the certificate"""
    msgs = [{'from': list(k[0]), 'to': list(k[1]), 'dom': [[a, int(n)] for a, n in zip(m.domain.attrs, m.domain.shape)],
             'vals': [enc_f(v) for v in m.values.flatten()]} for k, m in rg.messages.items()]
    marg = [{'clique': list(r), 'dom': [[a, size[a]] for a in attrs], 'vals': [enc_f(v) for v in vals]} for r, (attrs, vals) in tab.items()]
    return {'op': 'hps_cert', 'dom': dom, 'rg': rggen.slim_rg(rggen.export_rg(rg)), 'total': enc_f(total), 'pots': rggen.enc_fpots(fpots),
            'msgs': msgs, 'marg': marg}


def check(res, drv_resp, cert_resp, case, rg, calls, used, size, fpots, pots, r_aux, cap):
    dom, cl, kind, total, damping, minimal = case
    canon = {'dom': dom, 'cliques': cl, 'total': total, 'damping': damping, 'minimal': minimal, 'pots': gmgen.enc_pots(pots), 'cap': cap}
    res.case(canon, len(rg.message_order) >= 2,
             sample={'cliques': cl, 'damping': damping, 'total': total, 'sweeps': used, 'feasibility/total': calls[-1]['pf'] / total}
             if kind in ('loop', 'dense') else None)
    res.count('kind:' + kind)
    res.count('graph:' + ('minimal' if minimal else 'saturated'))
    last = calls[-1]
    tab = last['tab']
    rp = {'request': canon, 'sweeps': used, 'feasibility': last['pf']}
    converged = last['pf'] <= 1e-6 * total
    res.count('converged to 1e-6*total' if converged else 'cap reached before 1e-6*total')
    res.extra['max_sweeps'] = max(res.extra.get('max_sweeps', 0), used)
    ok = True
    # every clique the caller listed (nested ones included: each is a region with its own potential and entropy term) gets a table
    missing = [list(c) for c in cl if tuple(rggen.fresh_clique(c)) not in {tuple(k) for k in tab}]
    if missing:
        res.violation('failing-input', f'hazan_peng_shashua returns no table for the listed clique(s) {missing} (cliques {cl}): their potentials and entropy terms are '
                      f'not part of the programme that was solved', rp, key='hps:missing-clique')
        return
    bad = rggen.validity(tab, total, 1e-9)
    if bad:
        mm0 = rggen.max_abs_message(rg)
        res.violation('failing-input', f'hazan_peng_shashua: {bad}; largest |message| {mm0:.3e}', rp,
                      key='hps:not-normalised' + (':diverged-messages' if rggen.explained_by_message_growth(tab, total, mm0) else ''))
        ok = False
    # the implementation's own feasibility figure (it compares flat vectors without aligning attribute orders)
    if not close(last['pf_impl'], last['pf'], 1e-6, 1e-9 * total):
        res.count('primal_feasibility differs from the aligned disagreement (potential with permuted attribute order)')
    # (a) Lagrangian form
    lag, D, F = certificate(rg, fpots, tab, total, size)
    gap = D - F
    tolD = 1e-5 * (abs(D) + 1.0)
    res.extra['worst_gap_over_scale'] = max(res.extra.get('worst_gap_over_scale', 0.0), abs(gap) / (abs(D) + 1.0))
    maxmsg = max((float(np.abs(m.values).max()) for m in rg.messages.values()), default=0.0)
    res.extra['max_abs_message'] = max(res.extra.get('max_abs_message', 0.0), maxmsg if math.isfinite(maxmsg) else 1e308)
    # a -inf cell in the potential of a NON-MAXIMAL region, one that has a parent (recorded finding: the messages overflow)
    def _nparents(c_):
        k_ = next((k for k in rg.parents if tuple(k) == tuple(rggen.fresh_clique(c_))), None)
        return len(rg.parents[k_]) if k_ is not None else 0
    shared_kill = any(any(v == -math.inf for v in fl_) and _nparents(c_) >= 1 for c_, fd_, fl_ in fpots)
    if not converged:
        res.violation('failing-input',
                      f'convergence test: hazan_peng_shashua with damping {damping} did not reach feasibility 1e-6*total within {used} sweeps (cap {cap}): '
                      f'mean edge disagreement {last["pf"]!r}, total {total}, largest |message| {maxmsg:.3e}, cliques {cl}'
                      + (' (the potential of a non-maximal region has a -inf cell)' if shared_kill else ''), rp,
                      key='hps:no-convergence' + (':impossible-cell-on-shared-subregion' if shared_kill else ':low-damping' if damping <= 0.2 else ':diverged-messages' if not (maxmsg < rggen.DIVERGED) else ''))
        ok = False          # the optimality clauses are about the converged state: nothing further is claimed for this run
    killed = [(c_, fd_, [i for i, v in enumerate(fl_) if v == -math.inf]) for c_, fd_, fl_ in fpots if any(v == -math.inf for v in fl_)]
    if killed:
        # an impossible cell: the certificate (entropies, 0*log 0, strictly positive beliefs) is stated for finite potentials; what is checked
        # here is convergence / consistency (above) and that the impossible cell carries no mass in the table of its clique
        res.count('impossible cell: convergence, consistency and zero mass checked; certificate not evaluated')
        if ok:
            for c_, fd_, idxs in killed:
                key_ = next((k for k in tab if tuple(k) == tuple(rggen.fresh_clique(c_))), None)
                if key_ is None:
                    continue
                attrs_t, vals_t = tab[key_]
                if list(attrs_t) != [a for a, _ in fd_]:
                    continue        # table laid out in another attribute order than the potential: cell indices do not correspond
                for i in idxs:
                    if abs(vals_t[i]) > 1e-9 * total:
                        res.violation('failing-input', f'hazan_peng_shashua: cell {i} of clique {list(c_)} has potential -inf but carries mass {vals_t[i]!r} (total {total})',
                                      rp, key='hps:mass-on-impossible-cell')
                        return
        return
    if ok and lag > 1e-9 * total and maxmsg < 1e12:
        res.violation('correspondence', f'hazan_peng_shashua: returned tables differ from total*softmax(pot + sum child messages - sum parent messages) '
                      f'by {lag!r} (total {total})', dict(rp, stream='C17.lagrangian'), key='hps:lagrangian-form')
        ok = False
    # (b) optimality certificate — a convergence TEST
    if ok and abs(gap) > tolD:
        res.violation('failing-input',
                      f'convergence test: after {used} sweeps (cap {cap}, damping {damping}, feasibility {last["pf"]:.3e}, total {total}) the duality gap '
                      f'D(lambda)-F(b) = {gap!r} exceeds 1e-5(|D|+1) = {tolD!r} on cliques {cl}', dict(rp, dual=D, primal=F), key='hps:gap')
        ok = False
    # weak duality / optimality against explicit locally consistent points
    slack = 2 * tolD        # F(q) <= D(lambda) = F(b) + gap
    for name, q in (('uniform', joint_marginals(dom, rg.regions, tab, total)),
                    ('random joint', joint_marginals(dom, rg.regions, tab, total, r_aux)),
                    ('random joint', joint_marginals(dom, rg.regions, tab, total, r_aux))):
        Fq = primal_of(rg, fpots, q, total, size)
        res.count('weak duality spot checks')
        if Fq > D + 1e-9 * (abs(D) + 1.0):
            res.violation('failing-input', f'weak duality fails: F(marginals of a {name}) = {Fq!r} > D(lambda) = {D!r}', dict(rp, dual=D), key='hps:weak-duality')
            ok = False
        elif ok and Fq > F + slack:
            res.violation('failing-input', f'convergence test: the returned tables are not optimal: F(b) = {F!r} < F(marginals of a {name}) = {Fq!r} '
                          f'after {used} sweeps (feasibility {last["pf"]:.3e})', dict(rp, primal=F), key='hps:not-optimal')
            ok = False
    # (c) agreement on every shared sub-region — a convergence TEST
    worst, where = pair_disagreement(rg, tab, size)
    bound = 2.0 * sum(last['errs']) + 1e-9 * total
    if worst > bound:
        res.violation('failing-input',
                      f'convergence test: tables {list(where[0])} and {list(where[1])} disagree on {where[2]} by {worst!r} (L1) while all region-graph edges '
                      f'together disagree by {sum(last["errs"])!r} after {used} sweeps (total {total}, cliques {cl})'
                      + ('; the two regions name the same attribute set and the region graph has no edge between them' if set(where[0]) == set(where[1]) else ''),
                      rp, key=('hps:same-set-regions' if (tuple(where[0]) in [tuple(c) for c in cl] or tuple(where[1]) in [tuple(c) for c in cl]) else 'hps:same-set-regions:derived')
                      if set(where[0]) == set(where[1]) else 'hps:shared-subregion')
        ok = False
    # the same certificate evaluated by the Lean model on the implementation's messages and tables
    if cert_resp is not None and not (math.isfinite(D) and math.isfinite(F)):
        # diverged messages (inf - inf in the dual value): the run was already reported as not converged; there is no certificate to compare
        res.count('certificate not compared: non-finite dual / primal value (diverged messages)')
    elif cert_resp is not None:
        if not cert_resp['ok']:
            res.violation('correspondence', 'hps_cert driver error ' + cert_resp['err'], dict(rp, stream='C17.hps_cert'), key='hps:driver')
        else:
            c = cert_resp['out']
            LD, LF, Llag = dec_f(c['dual']), dec_f(c['primal']), dec_f(c['lagr_err'])
            res.count('certificate evaluated in Lean')
            if not c.get('graph_check', False):
                # the hypotheses of Convex.hps_certificate_checked are not met by the implementation's graph: weak duality is not known for it
                res.violation('correspondence', 'the region graph exported from the implementation fails the verified checker of the certificate\'s hypotheses '
                              '(RG.graphCheck: children inside parents, parents dual to children, no duplicates, message order = edge list, no 2-cycles)',
                              dict(rp, stream='C17.graph_check'), key='hps:graph-check')
            elif not c.get('layout_check', False):
                # potentials supplied in a permuted attribute order (a legitimate input) put tables and messages on permuted domains; the certificate
                # theorem is stated for the canonical layout only, so on these inputs the weak-duality bound is a tested quantity, not a proved one
                res.count('certificate hypotheses NOT met: a potential / message is laid out in another attribute order (bound tested, not proved, on this input)')
            else:
                res.count('certificate hypotheses verified on the implementation\'s graph and messages (graphCheck, layout)')
            if Llag > 1e-9 * total:
                res.violation('correspondence', f'hazan_peng_shashua: Lean evaluation: returned tables differ from the Lagrangian form by {Llag!r} (total {total})',
                              dict(rp, stream='C17.hps_cert'), key='hps:lagrangian-form')
            elif not (close(LD, D, 1e-9, 1e-9) and close(LF, F, 1e-9, 1e-9)):
                res.violation('correspondence', f'certificate: Lean dual/primal {LD!r}/{LF!r}, numpy {D!r}/{F!r}', dict(rp, stream='C17.hps_cert'), key='hps:certificate-mismatch')
            elif ok and converged and abs(LD - LF) > tolD:
                res.violation('failing-input', f'convergence test (Lean certificate): gap {LD - LF!r} exceeds {tolD!r} after {used} sweeps', rp, key='hps:gap')
    # (d) model
    if drv_resp is None:
        return
    rpm = dict(rp, stream='C17.hps')
    if not drv_resp['ok']:
        res.violation('correspondence', 'hps driver error ' + drv_resp['err'], rpm, key='hps:driver')
        return
    d = None
    for ci, (c, m) in enumerate(zip(calls, drv_resp['out']['results'])):
        if rggen.validity(c['tab'], total, 1e-9, strict=True) or (ci > 0 and not c['pf'] <= calls[ci - 1]['pf']):
            # the iteration is diverging: rounding-level differences are amplified from here on
            res.count('model comparison stopped at a diverging call')
            return
        d, w = rggen.compare_tables(rggen.dec_marg(m['marg']), c['tab'], total)
        res.extra['worst_rel_gap_model'] = max(res.extra.get('worst_rel_gap_model', 0.0), w)
        if d is None and m['sweeps'] != c['sweeps']:
            d = f'early exit after {c["sweeps"]} sweeps in the implementation, {m["sweeps"]} in the model'
        if d is None and not close(dec_f(m['pf']), c['pf_impl'], 1e-6, 1e-12 * total):
            d = f'primal_feasibility model {dec_f(m["pf"])!r} implementation {c["pf_impl"]!r}'
        if d:
            d = f'call {ci} ({c["iters"]} sweeps): ' + d
            break
    if d is None:
        m = drv_resp['out']['results'][-1]
        mD, mF, mlag = dec_f(m['dual']), dec_f(m['primal']), dec_f(m['lagr_err'])
        if not close(mD, D, 1e-9, 1e-9):
            d = f'dual value: model {mD!r}, numpy {D!r}'
        elif not close(mF, F, 1e-9, 1e-9):
            d = f'primal value: model {mF!r}, numpy {F!r}'
        elif mlag > 1e-9 * total:
            d = f'model tables differ from the model\'s Lagrangian form by {mlag!r}'
    if d:
        res.violation('correspondence', 'hazan_peng_shashua: ' + d + ('; the property holds on this input' if ok else ''), dict(rpm, model=drv_resp['out']['results'][-1]),
                      key='hps:model-mismatch')


def run(res, drv, tier, seed):
    r = rng(seed, 'C17')
    n = 30 if tier == 'quick' else 150
    max_cells = 400 if tier == 'quick' else 1500
    cap = 3200 if tier == 'quick' else 6400
    np.random.seed(seed % 2**32)
    work, reqs = [], []
    rp_ = rng(seed, 'C17-pinned')
    plan = [((dom, cl, 'pinned', total, damping, minimal), pcap, rp_) for dom, cl, total, damping, minimal, pcap in PINNED]
    plan += [(None, cap, r)] * n
    caps = []
    for case, ccap, r in plan:
        generated = case is None
        case = case or make_case(r, max_cells)
        dom, cl, kind, total, damping, minimal = case
        if generated and tier == 'quick' and damping <= 0.2:
            ccap = min(ccap, 800)       # nearly undamped runs that do not converge (recorded finding) are not pursued to the full cap in the quick tier
        caps.append(ccap)
        probe = rggen.build_rg(dom, cl, total, convex=True, minimal=minimal)
        pots = rggen.gen_pots(r, dom, list(probe.cliques), transposed=0.3 if r.random() < 0.25 else 0.0)
        if generated and r.random() < 0.2:
            # one structurally impossible cell (potential -inf) in a clique of >= 2 attributes that all have >= 2 values: no whole row of
            # any region is ruled out, the optimum stays unique and strictly positive elsewhere
            cand = [i for i, (c_, fd_, v_) in enumerate(pots) if len(fd_) >= 2 and all(s_ >= 2 for _, s_ in fd_)]
            if cand:
                i_ = r.choice(cand)
                c_, fd_, v_ = pots[i_]
                v_ = list(v_)
                v_[r.randrange(len(v_))] = Fr(0)
                pots[i_] = (c_, fd_, v_)
                KILLED[0] += 1
                k_ = next((k for k in probe.parents if tuple(k) == tuple(rggen.fresh_clique(c_))), None)
                if tier == 'quick' and k_ is not None and len(probe.parents[k_]) >= 1:
                    # a -inf cell on a non-maximal region: the recorded non-convergence is not pursued to the full cap in the quick tier
                    ccap = min(ccap, 400)
                    caps[-1] = ccap
        fpots = rggen.pots_float(pots)
        pre = rggen.pots_float(rggen.gen_pots(r, dom, list(probe.cliques))) if (generated and len(work) % 3 == 2) else None
        try:
            rg, calls, used, size = solve(dom, cl, total, damping, minimal, fpots, ccap, pre=pre)
        except Exception as e:      # the oracle raises on a valid input: a failing input, never an infrastructure error
            canon = {'dom': dom, 'cliques': cl, 'total': total, 'damping': damping, 'minimal': minimal, 'pots': gmgen.enc_pots(pots), 'cap': ccap}
            res.case(canon, True)
            res.violation('failing-input', f'hazan_peng_shashua raises {type(e).__name__}: {str(e)[:160]} (cliques {cl}, domain {dom}, damping {damping})',
                          {'request': canon}, key=f'hps:raises:{type(e).__name__}')
            caps.pop()
            continue
        work.append((case, rg, calls, used, size, fpots, pots))
        reqs.append(cert_request(dom, rg, total, fpots, calls[-1]['tab'], size))
        reqs.append({'op': 'hps', 'dom': dom, 'rg': rggen.slim_rg(rggen.export_rg(rg)), 'total': enc_f(total), 'damping': enc_f(damping),
                     'convergence': enc_f(rg.convergence), 'calls': [{'iters': c['iters'], 'pots': rggen.enc_fpots(c.get('fp', fpots)), 'damping': enc_f(c['damping'])} for c in calls]})
    resps = drv.run(reqs, timeout=3000) if drv else [None] * (2 * len(work))
    res.extra['stages_continued_beyond_cap_while_contracting'] = EXTENDED[0]
    res.extra['cases_with_one_impossible_cell'] = KILLED[0]
    r_aux = rng(seed, 'C17-aux')
    for i, (case, rg, calls, used, size, fpots, pots) in enumerate(work):
        check(res, resps[2 * i + 1], resps[2 * i], case, rg, calls, used, size, fpots, pots, r_aux, caps[i])


def search(res, tier, seed, broken):
    run(res, None, 'quick', seed + 1)


def replay(res, drv, rp):
    q = rp['request']
    dom, cl, total, damping, minimal = q['dom'], q['cliques'], float(q['total']), float(q['damping']), bool(q['minimal'])
    pots = [(p['clique'], p['dom'], [Fr(v) for v in p['vals']]) for p in q['pots']]
    fpots = rggen.pots_float(pots)
    cap = int(q.get('cap', 3200))
    rg, calls, used, size = solve(dom, cl, total, damping, minimal, fpots, cap)
    resp = cert = None
    if drv:
        cert = drv.one(cert_request(dom, rg, total, fpots, calls[-1]['tab'], size))
        resp = drv.one({'op': 'hps', 'dom': dom, 'rg': rggen.slim_rg(rggen.export_rg(rg)), 'total': enc_f(total), 'damping': enc_f(damping),
                        'convergence': enc_f(rg.convergence), 'calls': [{'iters': c['iters'], 'pots': rggen.enc_fpots(c.get('fp', fpots)), 'damping': enc_f(c['damping'])} for c in calls]})
    check(res, resp, cert, (dom, cl, 'replay', total, damping, minimal), rg, calls, used, size, fpots, pots, rng(0, 'C17-aux'), cap)
