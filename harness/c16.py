"""C16 — approximate marginal oracles are normalised, and exact on acyclic structures."""
import math
import numpy as np
from common import Fr, enc_f, dec_f, close, rng
import gmgen, rggen

LEAN_MODULE = 'PGM.Properties.C16'
LEAN_EXTRA = [
    'PGM.Properties.C16G',
    'PGM.Properties.C17G',
    'PGM.Properties.C16F',    # fixed-point form of "generalised propagation is exact on junction trees" (local consistency at a fixed point; exactness for two maximal cliques; stationarity corollary)
]
TRANSLATORS = (
    'py2fg',      # the non-convex path of factor_graph.py (__init__, init_messages, loopy_belief_propagation, clique_marginals, primal_feasibility) -> Generated/FactorGraphG.lean, proved equal to Model/FactorGraph.lean in C16G
    'py2rg',      # region_graph.py (hazan_peng_shashua, generalized_belief_propagation, primal_feasibility, build_graph) -> Generated/RegionGraphG.lean, proved equal to Model/RegionGraph.lean in C17G
)
TRUSTED = ['Lean 4.33 kernel', 'axioms: propext, Classical.choice, Quot.sound',
           'hand models PGM/Model/RegionGraph.lean (build_graph, generalized_belief_propagation, hazan_peng_shashua, primal_feasibility) and '
           'PGM/Model/FactorGraph.lean (init_messages, loopy_belief_propagation, clique_marginals, primal_feasibility) tied to '
           'src/mbi/region_graph.py / factor_graph.py by this correspondence run',
           'set iteration order of the implementation (PYTHONHASHSEED) is an input of the model: the exported regions / N / D / B orders are '
           'validated against the model\'s own construction as sets and then used for message passing',
           'networkx (DiGraph adjacency order, transitive_closure) and disjoint_set 0.9.0 (root of the second argument wins) modelled by contract',
           'IEEE: the Float instance repeats the operation order of the code; numpy pairwise summation and scipy\'s logsumexp formula '
           '(log1p of the non-maximal terms) are not modelled bit-for-bit: compared at rel 1e-9 / abs 1e-12*total (observed ~1e-14)',
           'exactness oracle: brute-force marginals of the product of all potentials in exact rational arithmetic (gmgen.brute_joint)']
ASSUMPTIONS = ['finite potentials (no structural zeros) of the form log(p/q)',
               'running-intersection property decided independently (maximum-weight spanning forest criterion)',
               'tree factor graph = the bipartite variable/factor graph is a forest and no clique is listed twice']
RULE = ('clique-set classes {arbitrary, rip (grown junction tree), fgtree (grown factor tree), loop, dense, chain, star, disjoint, nested, sameset} on 2-6 '
        'attributes of sizes 1-4; potentials log(p/q) on every region (or on the maximal cliques only), optionally with permuted attribute order; '
        'totals {1/2,1,10,1e6}; sweeps {1,5,25,100,200}; one or two calls on the same oracle object (persisted messages), same or fresh potentials; '
        'non-trivial = at least one region-graph edge (RegionGraph) / a clique with >= 2 attributes (FactorGraph); '
        'distinct = distinct (structure, potentials, sweeps, oracle)')
EXPLANATION = ('(1) RegionGraph.build_graph exported from the object vs the Lean transcription (regions, cover edges, minimal pruning, closures, counting '
               'numbers, N/D/B, message order) for convex/non-convex x minimal/saturated; (2) generalized_belief_propagation, hazan_peng_shashua, '
               'loopy_belief_propagation vs the Lean Float models call by call; (3) every returned table finite, nonnegative, summing to total (1e-9); '
               '(4) exactness vs brute-force marginals: GBP on RIP clique sets at >= 100 sweeps (1e-6), LBP on tree factor graphs at >= diameter sweeps (1e-9)')

TOTALS = [0.5, 1.0, 10.0, 1e6]
SWEEPS = [1, 5, 25, 100, 200]
MAX_PER_KEY = 2


class Cap:
    """at most MAX_PER_KEY violations per key; the rest are only counted"""

    def __init__(self, res):
        self.res, self.n = res, {}

    def __call__(self, kind, what, replay, key):
        self.n[key] = self.n.get(key, 0) + 1
        self.res.count('violations:' + key)
        if self.n[key] <= MAX_PER_KEY:
            self.res.violation(kind, what, replay, key=key)


# ---------------------------------------------------------------------------------------------
# (1) structure

def directed_exactness(dom, cl, minimal, r):
    """GBP on a junction-tree-structured clique set, potentials on the maximal cliques only, 300 sweeps, against brute-force marginals"""
    total = 10.0
    obj = rggen.build_rg(dom, cl, total, convex=False, minimal=minimal)
    maximal = set(rggen.init_cliques([tuple(c) for c in cl], False))
    if len({frozenset(x) for x in obj.regions}) != len(obj.regions):
        return None
    pots = rggen.gen_pots(r, dom, list(obj.cliques), support=maximal)
    fp = rggen.pots_float(pots)
    obj.iters = 300
    with np.errstate(all='ignore'):
        mu = obj.belief_propagation(rggen.impl_cv(fp))
    tab = rggen.table(mu)
    if rggen.validity(tab, total, 1e-9):
        return None
    ex = rggen.exact_tables(dom, pots, tab, Fr(total))
    e, where = rggen.max_err(ex, tab)
    if e > 1e-6 * total:
        return (f'generalized_belief_propagation: clique set {cl} has the running-intersection property, potentials on the maximal cliques only, 300 sweeps, '
                f'minimal={minimal}: table {list(where[0])} cell {where[1]} is {where[3]!r}, exact marginal {where[2]!r} (total {total})',
                {str(a): b[1] for a, b in tab.items()})
    return None


def structure_stream(res, drv, tier, seed, viol):
    directed = {}
    r = rng(seed, 'C16-structure')
    n = 80 if tier == 'quick' else 800
    reqs, meta = [], []
    for i in range(n):
        # the first tenth of the cases are region graphs with four or more levels (descendants != children, ancestors != parents)
        dom, cl, kind = rggen.gen_case(r, 3000, nmax=7, kinds=['deep'] if i < max(8, n // 10) else rggen.KINDS)
        for convex in (True, False):
            for minimal in (True, False):
                rg = rggen.build_rg(dom, cl, 1.0, convex, minimal)
                twin = rggen.build_rg(dom, rggen.init_cliques(cl, convex), 1.0, True, False)
                ex = rggen.export_rg(rg, twin)
                reqs.append({'op': 'rg_build', 'cliques': cl, 'convex': convex, 'minimal': minimal, 'impl': ex})
                meta.append((dom, cl, kind, convex, minimal))
    resps = drv.run(reqs) if drv else [None] * len(reqs)
    for (dom, cl, kind, convex, minimal), q, resp in zip(meta, reqs, resps):
        canon = {'stream': 'structure', 'dom': dom, 'cliques': cl, 'convex': convex, 'minimal': minimal}
        res.case(canon, len(q['impl']['message_order']) > 0,
                 sample={'cliques': cl, 'convex': convex, 'minimal': minimal, 'regions': q['impl']['regions'],
                         'message_order': q['impl']['message_order']} if kind in ('dense', 'nested') else None)
        res.count('structure:' + kind)
        # independent sanity of the exported structure: regions closed under intersection
        regs = [tuple(x) for x in q['impl']['regions']]
        for a in regs:
            for b in regs:
                if a == b:
                    continue
                z = tuple(sorted(set(a) & set(b)))
                if z and z not in regs:
                    viol('failing-input', f'build_graph: regions not closed under intersection ({a} & {b})', {'request': canon}, 'rg:not-closed')
        if resp is None:
            continue
        if not resp['ok']:
            viol('correspondence', 'rg_build driver error ' + resp['err'], {'request': canon, 'stream': 'C16.rg_build'}, 'rg:driver')
            continue
        out = resp['out']
        if out['mismatch']:
            viol('correspondence', 'build_graph: ' + '; '.join(out['mismatch'][:4]),
                 {'request': canon, 'impl': q['impl'], 'model': out, 'stream': 'C16.rg_build'}, 'rg:structure')
            # the structure differs from the transcription: look for a concrete failing input on this very structure
            if not convex and rggen.has_rip(cl) and not directed.get('found') and directed.get('tried', 0) < 6:
                directed['tried'] = directed.get('tried', 0) + 1
                bad = directed_exactness(dom, cl, minimal, rng(seed, 'C16-directed'))
                if bad:
                    directed['found'] = True
                    viol('failing-input', bad[0], {'request': dict(canon, stream='directed'), 'observed': bad[1]}, 'gbp:rip-inexact')
        for o in out['order']:
            name = o.split('[')[0]
            res.count('order differs (same set): ' + name)
            if name in ('children', 'parents', 'children0', 'parents0', 'message_order', 'cliques'):
                # these orders are claimed reproducible from the regions order (networkx adjacency is insertion ordered)
                viol('correspondence', f'build_graph: {o} has the same entries as the model but in another order',
                     {'request': canon, 'impl': q['impl'], 'stream': 'C16.rg_build'}, 'rg:order')
        if 'children0' in q['impl']:
            res.count('un-pruned twin compared')


# ---------------------------------------------------------------------------------------------
# (2)-(4) oracles

def pick_iters(r, want_exact):
    first = r.choice([100, 200]) if want_exact and r.random() < 0.7 else r.choice(SWEEPS)
    it = [first]
    if r.random() < 0.55:
        it.append(r.choice([100, 200]) if want_exact and r.random() < 0.5 else r.choice(SWEEPS[:4]))
    return it


def run_calls(obj, calls_fp, count_sweeps=False, with_callback=False, rebind=False):
    """calls_fp: list of (iters, float potentials[, identity of the potential vector]).  Returns [(tables, sweeps or None, pf)].
    Consecutive calls on the same potential vector hand the oracle the SAME CliqueVector object (as LocalInference does on a
    restart and in its feasibility phase): an oracle that writes into the caller's potentials then answers the later call wrongly."""
    out = []
    last_key, cv = None, None
    for call in calls_fp:
        iters, fp = call[0], call[1]
        key = call[2] if len(call) > 2 else None
        obj.iters = iters
        cnt = [0]
        cb = (lambda m: cnt.__setitem__(0, cnt[0] + 1)) if (count_sweeps or with_callback) else None
        if key is None or cv is None:
            cv = rggen.impl_cv(fp)
        elif key != last_key:
            if rebind:
                # new parameters, same container: every entry re-bound to a new Factor (theta[cl] = theta[cl] + g is the ordinary idiom)
                new = rggen.impl_cv(fp)
                for k_ in list(cv):
                    if k_ not in new:
                        del cv[k_]
                for k_ in new:
                    cv[k_] = new[k_]
                REBOUND[0] += 1
            else:
                cv = rggen.impl_cv(fp)
        else:
            REUSED[0] += 1
        last_key = key
        with np.errstate(all='ignore'):
            mu = obj.belief_propagation(cv, callback=cb)
            pf = float(obj.primal_feasibility(mu))
        out.append((rggen.table(mu), cnt[0] if count_sweeps else None, pf))
    return out


REUSED = [0]
REBOUND = [0]


def make_case(r, op, max_cells, scale=None):
    kinds = {'gbp': ['rip', 'rip', 'deep', 'deep', 'chain', 'star', 'nested', 'arbitrary', 'loop', 'dense', 'disjoint', 'sameset', 'fgtree'],
             'hps': ['arbitrary', 'rip', 'deep', 'loop', 'dense', 'chain', 'nested', 'sameset', 'fgtree', 'disjoint'],
             'lbp': ['fgtree', 'fgtree', 'chain', 'star', 'disjoint', 'loop', 'dense', 'arbitrary', 'nested', 'rip']}[op]
    dom, cl, kind = rggen.gen_case(r, max_cells, kinds=kinds)
    total = r.choice(TOTALS)
    if op == 'lbp':
        obj = rggen.build_fg(dom, cl, total)
        keys = list(dict.fromkeys(tuple(c) for c in cl))
        structure = None
    else:
        # the `damping` argument belongs to the convex oracle; generalised propagation is documented to ignore it (fixed 1/2), so any value is legal there
        kw = {'damping': r.choice([0.5, 0.5, 0.5, 0.9, 0.1, 0.05])} if op == 'hps' else ({'damping': r.choice([0.0, 0.1, 0.9, 1.0])} if r.random() < 0.3 else {})
        obj = rggen.build_rg(dom, cl, total, convex=(op == 'hps'), minimal=True if r.random() < 0.85 else False, **kw)
        keys = list(obj.cliques)
        structure = rggen.slim_rg(rggen.export_rg(obj))
    rip = rggen.has_rip(cl)
    diam = rggen.factor_graph_diameter(dom, cl)
    want_exact = (op == 'gbp' and rip) or (op == 'lbp' and diam is not None)
    iters = pick_iters(r, want_exact and scale is None)
    maximal = set(rggen.init_cliques(cl, False))
    support = 'maximal' if (op == 'gbp' and r.random() < 0.5) else 'all'
    same = r.random() < 0.5
    killed = (op == 'lbp' and scale is None and r.random() < 0.3)
    if killed:
        same = True         # (-inf potentials first and finite ones later on one object is a separate matter: the persisted messages hold -inf)
    calls, pots0 = [], None
    for k in iters:
        if pots0 is None or not same:
            pots0 = rggen.gen_pots(r, dom, keys, support=maximal if support == 'maximal' else None, transposed=0.25 if r.random() < 0.4 else 0.0)
            if killed:
                # a structural zero that forbids one value of an attribute outright: a whole slice of one clique potential is -inf
                ci_ = r.randrange(len(pots0))
                cl_, fdom_, vals_ = pots0[ci_]
                ax = r.randrange(len(fdom_))
                if fdom_[ax][1] >= 2:
                    v_ = r.randrange(fdom_[ax][1])
                    import itertools as _it
                    cells_ = list(_it.product(*[range(s_) for _, s_ in fdom_]))
                    pots0[ci_] = (cl_, fdom_, [Fr(0) if c_[ax] == v_ else x_ for c_, x_ in zip(cells_, vals_)])
        calls.append((k, pots0, rggen.pots_float(pots0, scale)))
    return dict(dom=dom, cl=cl, kind=kind + ('+killed-value' if killed else ''), total=total, obj=obj, keys=keys, structure=structure, rip=rip, diam=diam,
                support=support, calls=calls, op=op, scale=scale)


def stress_case(r, op):
    """dense triples on five attributes, two calls of 200 sweeps on one object (persisted messages)"""
    import itertools
    dom = rggen.gen_domain(r, 5, 200)
    A = [a for a, _ in dom]
    cl = [list(c) for c in r.sample(list(itertools.combinations(A, 3)), 8)]
    total = r.choice(TOTALS)
    obj = rggen.build_rg(dom, cl, total, convex=(op == 'hps'), minimal=True)
    pots = rggen.gen_pots(r, dom, list(obj.cliques), support=set(rggen.init_cliques(cl, False)))
    fp = rggen.pots_float(pots)
    return dict(dom=dom, cl=cl, kind='dense-triples (stress)', total=total, obj=obj, keys=list(obj.cliques), structure=rggen.slim_rg(rggen.export_rg(obj)),
                rip=rggen.has_rip(cl), diam=None, support='maximal', calls=[(200, pots, fp)] * 2, op=op, scale=None)


def pinned_hps_case(r):
    """found by C17's thorough run: sub-cliques named in non-alphabetical order (twin regions) and damping 0.1"""
    dom = [['g', 3], ['f', 3], ['h', 4], ['c', 3], ['b', 4]]
    cl = [['c', 'b'], ['g', 'f', 'h'], ['g', 'f'], ['c', 'h'], ['h', 'f']]
    obj = rggen.build_rg(dom, cl, 10.0, convex=True, minimal=True, damping=0.1)
    pots = rggen.gen_pots(r, dom, list(obj.cliques))
    fp = rggen.pots_float(pots)
    return dict(dom=dom, cl=cl, kind='pinned: twin regions, damping 0.1', total=10.0, obj=obj, keys=list(obj.cliques),
                structure=rggen.slim_rg(rggen.export_rg(obj)), rip=rggen.has_rip(cl), diam=None, support='all', calls=[(200, pots, fp)] * 2, op='hps', scale=None)


def request_of(c):
    q = {'op': c['op'], 'dom': c['dom'], 'total': enc_f(c['total']),
         'calls': [{'iters': k, 'pots': rggen.enc_fpots(fp)} for k, _, fp in c['calls']]}
    if c['op'] == 'lbp':
        q['cliques'] = c['cl']
    else:
        q['rg'] = c['structure']
    if c['op'] == 'hps':
        q['damping'] = enc_f(c['obj'].damping)
        q['convergence'] = enc_f(c['obj'].convergence)
    return q


def canon_of(c):
    return {'stream': 'oracle', 'op': c['op'], 'dom': c['dom'], 'cliques': c['cl'], 'total': c['total'], 'support': c['support'],
            'damping': getattr(c['obj'], 'damping', None),
            'minimal': getattr(c['obj'], 'minimal', None), 'scale': c['scale'], 'with_callback': c.get('with_callback', False), 'rebind': c.get('rebind', False),
            'calls': [{'iters': k, 'pots': gmgen.enc_pots(p)} for k, p, _ in c['calls']]}


def check_case(res, c, impl, resp, viol):
    """impl: [(tables, sweeps, pf)] per call"""
    op, total, dom = c['op'], c['total'], c['dom']
    canon = canon_of(c)
    nontrivial = (len(c['structure']['message_order']) > 0) if c['structure'] else any(len(x) >= 2 for x in c['cl'])
    res.case(canon, nontrivial)
    res.count(f'{op}:{c["kind"]}')
    if len(c['calls']) > 1:
        res.count(f'{op}: repeated call on the same object')
    name = {'gbp': 'generalized_belief_propagation', 'hps': 'hazan_peng_shashua', 'lbp': 'loopy_belief_propagation'}[op]
    property_ok = True
    regs = c['structure']['regions'] if c['structure'] else []
    sameset = len({frozenset(x) for x in regs}) != len(regs)
    for ci, ((k, pots, fp), (tab, sweeps, pf)) in enumerate(zip(c['calls'], impl)):
        rp = {'request': canon, 'call': ci, 'observed': {str(a): b for a, b in tab.items()}}
        # (3) normalisation
        bad = rggen.validity(tab, total, 1e-9 if c['scale'] is None else 1e-6)
        if bad:
            property_ok = False
            mm = rggen.max_abs_message(c['obj'])
            div = rggen.explained_by_message_growth(tab, total, mm)
            viol('failing-input', f'{name} (call {ci}, {k} sweeps): {bad}; largest |message| on the object {mm:.3e}', rp,
                 f'{op}:not-normalised' + (':diverged-messages' if div else ''))
            continue
        if c['scale'] is not None:
            res.count('range stream (potentials x %g)' % c['scale'])
            continue
        # (4) exactness
        if op == 'gbp' and c['rip'] and k >= 100:
            ex = rggen.exact_tables(dom, pots, tab, Fr(total))
            e, where = rggen.max_err(ex, tab)
            res.count('gbp exactness checked (RIP, >=100 sweeps, potentials on %s)' % c['support'])
            if e > 1e-6 * total:
                property_ok = False
                maximal = set(rggen.init_cliques(c['cl'], False))
                sub = any(any(v != 1 for v in vals) for cl_, _, vals in pots if tuple(cl_) not in maximal)
                # (the recorded finding is keyed by this property of the input; the numerical behaviour on such inputs is pinned down separately by
                #  the comparison with the Lean model, which transcribes the same treatment of sub-region potentials)
                key = 'gbp:same-set-regions' if sameset else ('gbp:subregion-potential' if sub else 'gbp:rip-inexact')
                viol('failing-input',
                     f'{name}: clique set {c["cl"]} has the running-intersection property, {k} sweeps, but table {list(where[0])} cell {where[1]} is '
                     f'{where[3]!r}, exact marginal {where[2]!r} (total {total}); '
                     + ('the same attribute set is listed as two regions' if sameset else
                        'a non-maximal region carries a non-zero potential' if sub else 'potentials on maximal cliques only'),
                     dict(rp, expected={str(a): [float(x) for x in b[1]] for a, b in ex.items()}), key)
        if op == 'lbp' and c['diam'] is not None and k >= max(1, c['diam']):
            ex = rggen.exact_tables(dom, pots, tab, Fr(total))
            e, where = rggen.max_err(ex, tab)
            res.count('lbp exactness checked (tree factor graph, sweeps >= diameter)')
            if e > 1e-9 * total:
                property_ok = False
                viol('failing-input',
                     f'{name}: factor graph of {c["cl"]} is a tree of diameter {c["diam"]}, {k} sweeps, but table {list(where[0])} cell {where[1]} is '
                     f'{where[3]!r}, exact marginal {where[2]!r} (total {total})',
                     dict(rp, expected={str(a): [float(x) for x in b[1]] for a, b in ex.items()}), 'lbp:tree-inexact')
    # (2) correspondence
    if resp is None:
        return
    rp = {'request': canon, 'stream': 'C16.' + op}
    if not resp['ok']:
        viol('correspondence', f'{op} driver error ' + resp['err'], rp, f'{op}:driver')
        return
    for ci, ((tab, sweeps, pf), mres) in enumerate(zip(impl, resp['out']['results'])):
        if rggen.validity(tab, total, 1e-9 if c['scale'] is None else 1e-6, strict=True):
            res.count('model comparison stopped at an invalid (diverged) call')
            return
        d, worst = rggen.compare_tables(rggen.dec_marg(mres['marg']), tab, total)
        res.extra['worst_rel_gap_' + op] = max(res.extra.get('worst_rel_gap_' + op, 0.0), worst)
        if d is None and sweeps is not None and mres['sweeps'] != sweeps:
            d = f'early exit after {sweeps} sweeps in the implementation, {mres["sweeps"]} in the model'
        if d is None and not close(dec_f(mres['pf']), pf, 1e-7, 1e-12 * total):
            d = f'primal_feasibility: model {dec_f(mres["pf"])!r} implementation {pf!r}'
        if d:
            viol('correspondence', f'{name} call {ci}: {d}' + ('; the property holds on this input' if property_ok else ''),
                 dict(rp, call=ci, model=mres), f'{op}:model-mismatch')
            return


def oracle_stream(res, drv, tier, seed, viol):
    r = rng(seed, 'C16-oracle')
    n = {'gbp': 40, 'hps': 20, 'lbp': 40} if tier == 'quick' else {'gbp': 500, 'hps': 250, 'lbp': 500}
    max_cells = 400 if tier == 'quick' else 1500
    cases = []
    for op in ('gbp', 'hps', 'lbp'):
        for i in range(n[op]):
            scale = r.choice([1e2, 1e4, 1e6]) if i % 9 == 8 else None
            cases.append(make_case(r, op, max_cells, scale))
    for i in range(1 if tier == 'quick' else 6):
        cases.append(stress_case(r, 'gbp' if i % 3 != 2 else 'hps'))
    cases.append(pinned_hps_case(r))
    for i, c in enumerate(cases):
        c['with_callback'] = (i % 2 == 1)
        c['rebind'] = (i % 3 != 1)
    impls = []
    for c in cases:
        try:
            impls.append(run_calls(c['obj'], [(k, fp, id(p)) for k, p, fp in c['calls']], count_sweeps=(c['op'] == 'hps'), with_callback=c['with_callback'],
                                   rebind=c['rebind']))
        except Exception as e:      # an oracle that raises on a valid input is a failing input, never an infrastructure error
            impls.append(e)
    res.extra['calls_reusing_the_callers_potential_object'] = REUSED[0]
    res.extra['calls_with_entries_rebound_in_the_same_container'] = REBOUND[0]
    resps = drv.run([request_of(c) for c in cases], timeout=3000) if drv else [None] * len(cases)
    for c, impl, resp in zip(cases, impls, resps):
        if isinstance(impl, Exception):
            res.case(canon_of(c), True)
            name = {'gbp': 'generalized_belief_propagation', 'hps': 'hazan_peng_shashua', 'lbp': 'loopy_belief_propagation'}[c['op']]
            viol('failing-input', f'{name} raises {type(impl).__name__}: {str(impl)[:160]} (cliques {c["cl"]}, domain {c["dom"]})',
                 {'request': canon_of(c)}, f'{c["op"]}:raises:{type(impl).__name__}')
            continue
        check_case(res, c, impl, resp, viol)


def run(res, drv, tier, seed):
    np.random.seed(seed % 2**32)
    viol = Cap(res)
    structure_stream(res, drv, tier, seed, viol)
    oracle_stream(res, drv, tier, seed, viol)
    res.extra['oracle_objects_total_assigned_after_construction'] = rggen.RETOTAL['late']
    res.extra['oracle_objects_total_given_to_constructor'] = rggen.RETOTAL['constructor']


def search(res, tier, seed, broken):
    run(res, None, 'quick', seed + 1)


def replay(res, drv, rp):
    q = rp['request']
    viol = Cap(res)
    if q.get('stream') == 'structure':
        dom, cl, convex, minimal = q['dom'], q['cliques'], q['convex'], q['minimal']
        rg = rggen.build_rg(dom, cl, 1.0, convex, minimal)
        twin = rggen.build_rg(dom, rggen.init_cliques(cl, convex), 1.0, True, False)
        ex = rggen.export_rg(rg, twin)
        res.case(q)
        if drv:
            resp = drv.one({'op': 'rg_build', 'cliques': cl, 'convex': convex, 'minimal': minimal, 'impl': ex})
            if not resp['ok'] or resp['out']['mismatch']:
                viol('correspondence', 'build_graph: ' + (resp.get('err') or '; '.join(resp['out']['mismatch'][:4])),
                     {'request': q, 'impl': ex, 'stream': 'C16.rg_build'}, 'rg:structure')
        return
    op, dom, cl, total = q['op'], q['dom'], q['cliques'], float(q['total'])
    if op == 'lbp':
        obj = rggen.build_fg(dom, cl, total)
        structure = None
    else:
        kw = {'damping': float(q['damping'])} if op == 'hps' and q.get('damping') is not None else {}
        obj = rggen.build_rg(dom, cl, total, convex=(op == 'hps'), minimal=q.get('minimal', True) is not False, **kw)
        structure = rggen.slim_rg(rggen.export_rg(obj))
    calls = []
    for e in q['calls']:
        pots = [(p['clique'], p['dom'], [Fr(v) for v in p['vals']]) for p in e['pots']]
        calls.append((e['iters'], pots, rggen.pots_float(pots, q.get('scale'))))
    c = dict(dom=dom, cl=cl, kind='replay', total=total, obj=obj, keys=None, structure=structure, rip=rggen.has_rip(cl),
             diam=rggen.factor_graph_diameter(dom, cl), support=q.get('support', 'all'), calls=calls, op=op, scale=q.get('scale'))
    impl = run_calls(obj, [(k, fp, repr(p)) for k, p, fp in calls], count_sweeps=(op == 'hps'), with_callback=q.get('with_callback', False), rebind=q.get('rebind', False))
    resp = drv.one(request_of(c)) if drv else None
    check_case(res, c, impl, resp, viol)
