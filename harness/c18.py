"""C18 — approximate (local) estimation is valid, and exact when nothing is relaxed."""
import math, time
import numpy as np
from common import Fr, enc_f, dec_f, close, rng
import rggen

LEAN_MODULE = 'PGM.Properties.C18'
LEAN_EXTRA = ['PGM.Properties.C18G', 'PGM.Properties.C18E', 'PGM.Properties.C18H']
TRANSLATORS = ('py2local', 'py2fg', 'py2rg')    # local_inference.py (mirror_descent_auto, mirror_descent, estimate, _marginal_loss, _setup) -> Generated/LocalG.lean, proved equal to Model/Local.lean + LocalPy.lean
TRUSTED = ['Lean 4.33 kernel', 'axioms: propext, Classical.choice, Quot.sound',
           'the marginal oracles called inside LocalInference are the ones modelled in PGM/Model/RegionGraph.lean / FactorGraph.lean; their calls '
           '(fresh potentials, persisted messages, one sweep per call) are recorded during estimation and replayed through the Lean models',
           'CONVERGENCE IS TESTED, NOT PROVED: the exactness clause compares the attained loss with the closed-form optimum (Euclidean projection on the '
           'scaled simplex, valid for identity queries on disjoint cliques) and with FactoredInference (mirror descent)',
           'pairwise-convex is skipped (needs cvxopt, not installed)']
ASSUMPTIONS = ['measurements (I, y, sigma, clique) with y = total * marginal of a random distribution + Gaussian noise', 'metric L2']
RULE = ('measurement sets over clique classes {chain, star, loop, dense, arbitrary, nested, rip, fgtree, disjoint, sameset} on 2-5 attributes of sizes 1-4; '
        'totals {1, 100, 1e4} or estimated (None); oracles {convex, approx, pairwise}; iterations {1,10,60,200}; '
        'non-trivial = at least two measured cliques; distinct = distinct (measurements, total, oracle, iterations)')
EXPLANATION = ('LocalInference.estimate per (measurement set, oracle, iterations): exception class recorded; model.project(clique) finite, nonnegative, summing to '
               'the total; estimator objective at the returned tables <= at the uniform start; convex: mean L1 disagreement over region-graph edges < 1.0 '
               '(the threshold mirror_descent_auto enforces); disjoint families: loss vs closed-form optimum and vs FactoredInference; oracle calls replayed in Lean')

TOTALS = [1.0, 100.0, 1e4]
ITERS = [1, 10, 60, 200]
ORACLES = ['convex', 'approx', 'pairwise']
KINDS = ['chain', 'star', 'loop', 'dense', 'arbitrary', 'nested', 'rip', 'fgtree', 'disjoint', 'disjoint', 'disjoint', 'sameset', 'deep']


def gen_measurements(r, dom, cl, total, sigma, seed):
    prng = np.random.RandomState(seed)
    shape = [s for _, s in dom]
    attrs = [a for a, _ in dom]
    J = prng.dirichlet(np.ones(int(np.prod(shape)))).reshape(shape) * (total if total is not None else 50.0)
    meas = []
    for c in cl:
        t = rggen.project_table(attrs, shape, J.flatten(), list(c)).flatten()
        y = t + prng.normal(0, sigma, t.size)
        meas.append((np.eye(t.size), y, float(sigma), tuple(c)))
    return meas


def assign(domain, cliques, proj):
    """the estimator's grouping rule (_setup): first model clique, by increasing domain size, that contains proj"""
    for c in sorted(cliques, key=domain.size):
        if set(proj) <= set(c):
            return c
    return None


def objective(domain, cliques, marginals, meas):
    """the estimator's L2 objective at a dictionary of tables, computed independently"""
    L = 0.0
    for Q, y, sigma, proj in meas:
        c = assign(domain, cliques, proj)
        if c is None:
            continue
        f = marginals[c]
        t = rggen.project_table(list(f.domain.attrs), list(f.domain.shape), f.values.flatten(), list(proj)).flatten()
        d = (Q @ t - y) / sigma
        L += 0.5 * float(d @ d)
    return L


def simplex_projection(y, total):
    """argmin ||x - y|| subject to x >= 0, sum x = total"""
    u = np.sort(y)[::-1]
    css = np.cumsum(u) - total
    k = np.nonzero(u - css / (np.arange(len(u)) + 1) > 0)[0][-1]
    tau = css[k] / (k + 1.0)
    return np.maximum(y - tau, 0.0)


def disjoint(cl):
    seen = set()
    for c in cl:
        if seen & set(c):
            return False
        seen |= set(c)
    return True


class Recorder:
    """records the oracle calls made during estimation (segments = runs of calls on the same message dictionary;
    mirror_descent_auto swaps in a fresh copy of the initial messages when it restarts with a smaller step)"""

    def __init__(self):
        self.segments = []
        self.last = None          # the message dictionary seen after the previous call (kept alive: no id reuse)

    @staticmethod
    def key(model):
        return model.messages[0] if isinstance(model.messages, tuple) else model.messages

    def wrap(self, model):
        inner = model.belief_propagation
        rec = self

        def bp(potentials, callback=None):
            if rec.last is not rec.key(model):
                rec.segments.append([])
            fp = [(list(cl), [[a, int(n)] for a, n in zip(f.domain.attrs, f.domain.shape)], [float(v) for v in f.values.flatten()]) for cl, f in potentials.items()]
            mu = inner(potentials, callback)
            rec.segments[-1].append((fp, rggen.table(mu)))
            rec.last = rec.key(model)
            return mu
        model.belief_propagation = bp


def digest(obj):
    """a hashable, content-only digest of an oracle's message state (dicts / tuples of Factors)"""
    if isinstance(obj, dict):
        return tuple(sorted((repr(k), digest(v)) for k, v in obj.items()))
    if isinstance(obj, (tuple, list)):
        return tuple(digest(v) for v in obj)
    if hasattr(obj, 'values') and hasattr(obj, 'domain'):
        return (tuple(obj.domain.attrs), np.asarray(obj.values, dtype=float).tobytes())
    return repr(obj)


class Control:
    """records what mirror_descent_auto does: activations (with their step size), oracle calls (potentials, message state before the call),
    loss evaluations, feasibility evaluations — the observable side of the control structure modelled in PGM/Model/Local.lean"""

    def __init__(self):
        self.attempts = []
        self.damping0 = None
        self.in_bp = False

    def install(self, eng):
        ctl = self
        inner_mda = eng.mirror_descent_auto
        inner_loss = eng._marginal_loss

        def mda(alpha, iters, callback=None):
            ctl.attempts.append({'alpha': float(alpha), 'loss': [], 'dL': [], 'feas': [], 'theta': [], 'msgs': [], 'mu': []})
            return inner_mda(alpha, iters, callback)

        def loss(mu, metric=None):
            l, dL = inner_loss(mu, metric)
            if ctl.attempts:
                ctl.attempts[-1]['loss'].append(float(l))
                ctl.attempts[-1]['dL'].append(dL)
            return l, dL
        eng.mirror_descent_auto = mda
        eng._marginal_loss = loss

    def wrap_model(self, model):
        ctl = self
        inner_bp = model.belief_propagation
        inner_pf = model.primal_feasibility
        self.damping0 = getattr(model, 'damping', None)

        def bp(potentials, callback=None):
            if ctl.attempts:
                a = ctl.attempts[-1]
                a['theta'].append(potentials)
                a['msgs'].append(digest(model.messages))
            ctl.in_bp = True
            try:
                mu = inner_bp(potentials, callback)
            finally:
                ctl.in_bp = False
            if ctl.attempts:
                ctl.attempts[-1]['mu'].append(mu)
            return mu

        def pf(mu):
            v = inner_pf(mu)
            if ctl.attempts and not ctl.in_bp:      # the convex oracle calls it too (is_converged)
                ctl.attempts[-1]['feas'].append(float(v))
            return v
        model.belief_propagation = bp
        model.primal_feasibility = pf


def same_vec(a, b):
    return set(a.keys()) == set(b.keys()) and all(np.array_equal(np.asarray(a[k].values), np.asarray(b[k].values)) for k in a.keys())


def check_control(res, drv, out, iters, viol_cap, canon):
    """the recorded control decisions against PGM.Local.mda run on the recorded losses / feasibilities (exact: every quantity the
    decisions depend on is a recorded double)"""
    ctl = out.get('ctl')
    if drv is None or ctl is None or not ctl.attempts:
        return
    model = out.get('model')
    att = ctl.attempts
    has = ctl.damping0 is not None
    rp = {'request': canon, 'stream': 'C18.mda_trace'}
    recs = []
    for a in att:
        # the first evaluation (l0, line 90) repeats on the same iterate at t = 0
        if len(a['loss']) >= 2 and a['loss'][0] != a['loss'][1] and not (math.isnan(a['loss'][0]) and math.isnan(a['loss'][1])):
            viol_cap('correspondence', f'the loss of the starting iterate is evaluated twice with different results {a["loss"][:2]}', rp, 'local:ctl:l0')
            return
        recs.append({'alpha': enc_f(a['alpha']), 'losses': [enc_f(v) for v in a['loss'][1:]], 'feas': [enc_f(v) for v in a['feas']]})
    base = {'iters': iters, 'has_damping': has, 'damping0': enc_f(ctl.damping0 if has else 0.0), 'attempts': recs}
    raised = out['exc'][0] if out['exc'] else None
    if raised not in (None, 'RecursionError'):
        return
    res.count('control traces replayed in Lean (mda_trace)')
    # (a) every attempt starts from the saved potentials and messages
    for i, a in enumerate(att):
        if not a['theta']:
            continue
        if not same_vec(a['theta'][0], att[0]['theta'][0]):
            viol_cap('failing-input', f'activation {i} of mirror_descent_auto does not start from the saved potentials', rp, 'local:ctl:theta0')
            return
        if a['msgs'][0] != att[0]['msgs'][0]:
            viol_cap('failing-input', f'activation {i} of mirror_descent_auto does not start from the saved messages (restart without restoring the oracle state)',
                     rp, 'local:ctl:messages0')
            return
        if a['alpha'] != att[0]['alpha'] / 2.0 ** i:
            viol_cap('correspondence', f'activation {i} has step size {a["alpha"]!r}, model: {att[0]["alpha"] / 2.0 ** i!r}', rp, 'local:ctl:alpha')
            return
    # (b) per activation: where the model restarts
    for i, a in enumerate(att[:-1] if raised is None else att):
        if raised == 'RecursionError' and i == len(att) - 1:
            break                       # the last activation was cut short by the interpreter
        r = drv.one(dict(base, op='mda_attempt', alpha=enc_f(a['alpha'])))
        if not r['ok']:
            viol_cap('correspondence', f'mda_attempt driver error {r["err"]}', rp, 'local:driver')
            return
        o = r['out']
        n_loop = len(a['loss']) - 1
        if o['outcome'] != 'restart' or o['t'] + 1 != n_loop:
            viol_cap('correspondence', f'activation {i} (alpha {a["alpha"]}): implementation restarted after {n_loop} iterations, model: {o["outcome"]} '
                     f'{o.get("t")}', dict(rp, attempt=i), 'local:ctl:restart-point')
            return
        res.count('restarted activations checked')
    # (c) the whole call
    r = drv.one(dict(base, op='mda_trace', alpha0=enc_f(att[0]['alpha']), fuel=len(att) if raised is None else len(att) - 1))
    if not r['ok']:
        viol_cap('correspondence', f'mda_trace driver error {r["err"]}', rp, 'local:driver')
        return
    o = r['out']
    if raised == 'RecursionError':
        if o['outcome'] != 'recursion':
            viol_cap('correspondence', f'implementation raised RecursionError after {len(att)} activations; model outcome {o["outcome"]}', rp, 'local:ctl:outcome')
        return
    if o['outcome'] != 'ok':
        viol_cap('correspondence', f'implementation returned after {len(att)} activations; model outcome {o["outcome"]}', rp, 'local:ctl:outcome')
        return
    a = att[-1]
    log = o['log']
    if o['restarts'] != len(att) - 1 or dec_f(o['alpha']) != a['alpha'] or len(log) != iters or len(a['loss']) - 1 != iters:
        viol_cap('correspondence', f'model: {o["restarts"]} restarts, final activation alpha {dec_f(o["alpha"])}, {len(log)} iterations; implementation: '
                 f'{len(att) - 1} restarts, alpha {a["alpha"]}, {len(a["loss"]) - 1} iterations', rp, 'local:ctl:shape')
        return
    # step sizes: theta_{t+1} == theta_t - alpha_t * dL_t with the model's alpha_t (same float operations: exact)
    for t, (tt, l, al, worse) in enumerate(log):
        if dec_f(l) != a['loss'][t + 1] and not (math.isnan(dec_f(l)) and math.isnan(a['loss'][t + 1])):
            viol_cap('correspondence', f'iteration {t}: model reads loss {dec_f(l)!r}, implementation {a["loss"][t + 1]!r}', rp, 'local:ctl:loss')
            return
        want = a['theta'][t] - dec_f(al) * a['dL'][t + 1]
        if not same_vec(want, a['theta'][t + 1]):
            viol_cap('correspondence', f'iteration {t}: the potentials passed to the oracle are not theta - alpha*dL with the model\'s alpha = {dec_f(al)!r} '
                     f'(loss rose: {worse})', dict(rp, iteration=t), 'local:ctl:step')
            return
    post = len(a['theta']) - 1 - iters
    if o['post'] != post:
        viol_cap('correspondence', f'model makes {o["post"]} extra oracle calls for feasibility, implementation {post} (feasibilities {a["feas"][:5]}…)', rp, 'local:ctl:post')
        return
    for j in range(post):
        if not same_vec(a['theta'][iters + 1 + j], a['theta'][iters]):
            viol_cap('correspondence', f'extra oracle call {j} uses different potentials', rp, 'local:ctl:post-theta')
            return
    if has and dec_f(o['damping']) != float(model.damping):
        viol_cap('correspondence', f'model damping after the call {dec_f(o["damping"])!r}, implementation {float(model.damping)!r}', rp, 'local:ctl:damping')
        return
    if dec_f(o['l']) != a['loss'][-1] and not math.isnan(a['loss'][-1]):
        viol_cap('correspondence', f'returned loss: model {dec_f(o["l"])!r}, implementation {a["loss"][-1]!r}', rp, 'local:ctl:l')
        return
    if model.marginals is not a['mu'][-1] or not same_vec(model.potentials, a['theta'][-1]):
        viol_cap('failing-input', 'model.marginals / model.potentials after estimate are not the last oracle call\'s output / input', rp, 'local:ctl:result')
        return
    res.count('control traces agreeing with the model')
    res.count(f'restarts:{min(len(att) - 1, 5)}{"+" if len(att) > 6 else ""}')
    if any(e[3] for e in log):
        res.count('traces with a late (t>50) step halving')
    if post:
        res.count('traces with extra feasibility calls')


def run_local(dom, meas, total, oracle, iters, record=False, control=True, prior=None):
    from mbi import LocalInference
    d = rggen.mk_domain(dom)
    eng = LocalInference(d, marginal_oracle=oracle, iters=iters)
    out = {'exc': None, 'rec': None}
    rec = Recorder() if record else None
    ctl = Control() if control else None
    out['ctl'] = ctl
    if ctl:
        ctl.install(eng)
    if rec or ctl:
        orig_setup = eng._setup

        def setup(m, t):
            orig_setup(m, t)
            if rec:
                rec.wrap(eng.model)
            if ctl:
                ctl.wrap_model(eng.model)
        eng._setup = setup
    t0 = time.time()
    try:
        with np.errstate(all='ignore'):
            for pm, pt in (prior or []):
                eng.estimate(pm, pt)          # earlier calls on the same estimator object
            if ctl:
                ctl.attempts.clear()
            if rec:
                rec.segments.clear(); rec.last = None
            model = eng.estimate(meas, total)
    except Exception as e:          # recorded, never hidden
        out['exc'] = (type(e).__name__, str(e)[:200])
        out['time'] = time.time() - t0
        out['rec'] = rec
        out['model'] = getattr(eng, 'model', None)
        return out
    out['time'] = time.time() - t0
    out['model'] = model
    out['domain'] = d
    out['rec'] = rec
    return out


def aligned_feasibility(model):
    size = {a: n for a, n in zip(model.domain.attrs, model.domain.shape)}
    errs = []
    mu = model.marginals
    for r in model.regions:
        fr = mu[r]
        for s in model.children[r]:
            fs = mu[s]
            x = rggen.project_table(list(fr.domain.attrs), list(fr.domain.shape), fr.values.flatten(), list(s))
            y = rggen.project_table(list(fs.domain.attrs), list(fs.domain.shape), fs.values.flatten(), list(s))
            errs.append(float(np.abs(x - y).sum()))
    return (sum(errs) / len(errs)) if errs else 0.0


def check_run(res, canon, dom, cl, meas, total, oracle, iters, out, viol_cap):
    rp = {'request': canon}
    res.count(f'oracle:{oracle}')
    res.count(f'iters:{iters}')
    if out['exc']:
        cls, msg = out['exc']
        res.count(f'exception:{cls}')
        if oracle == 'pairwise' and cls == 'AttributeError' and "'damping'" in msg:
            key = 'local:pairwise-damping'
        else:
            key = f'local:exception:{cls}:{oracle}'
        viol_cap('failing-input', f'LocalInference(marginal_oracle={oracle!r}, iters={iters}).estimate raises {cls}: {msg} '
                 f'(cliques {cl}, total {total})', dict(rp, exception=[cls, msg]), key)
        return None
    model, d = out['model'], out['domain']
    T = float(model.total)
    if total is not None and T != float(total):
        viol_cap('failing-input', f'model.total is {T!r}, requested {total!r}', rp, 'local:total')
    # validity of the table of every measured clique
    for Q, y, sigma, proj in meas:
        try:
            with np.errstate(all='ignore'):
                f = model.project(proj)
        except Exception as e:
            viol_cap('failing-input', f'model.project({proj}) raises {type(e).__name__}: {str(e)[:120]} after estimation with oracle {oracle!r}', rp,
                     f'local:project-exception:{type(e).__name__}')
            return None
        if list(f.domain.attrs) != list(proj):
            viol_cap('failing-input', f'model.project({proj}) returns attributes {list(f.domain.attrs)}', rp, 'local:project-order')
            return None
        bad = rggen.validity({proj: (list(proj), [float(v) for v in f.values.flatten()])}, T, 1e-9)
        if bad:
            mm = rggen.max_abs_message(model)
            viol_cap('failing-input', f'oracle {oracle!r}, iters {iters}, total {T}: {bad} (cliques {cl}); largest |message| {mm:.3e}',
                     dict(rp, observed=[float(v) for v in f.values.flatten()]),
                     f'local:{oracle}:invalid-table' + (':diverged-messages' if rggen.explained_by_message_growth({proj: (list(proj), [float(v) for v in f.values.flatten()])}, T, mm) else ''))
            return None
    bad = rggen.validity(rggen.table(model.marginals), T, 1e-9)
    if bad:
        mm = rggen.max_abs_message(model)
        viol_cap('failing-input', f'oracle {oracle!r}, iters {iters}, total {T}: model.marginals: {bad}; largest |message| {mm:.3e}', rp,
                 f'local:{oracle}:invalid-table' + (':diverged-messages' if rggen.explained_by_message_growth(rggen.table(model.marginals), T, mm) else ''))
        return None
    # fit no worse than the uniform start
    from mbi import CliqueVector
    uni = CliqueVector.uniform(d, model.cliques) * T
    L = objective(d, model.cliques, model.marginals, meas)
    L0 = objective(d, model.cliques, uni, meas)
    if L > L0 * (1 + 1e-9) + 1e-12:
        # which part of mirror_descent_auto let it happen (the recorded findings are keyed by this cause, read off the recorded trace)
        cause, why = '', ''
        ctl = out.get('ctl')
        att = ctl.attempts[-1] if ctl and ctl.attempts else None
        if iters == 1:
            cause, why = ':single-step', '; with iters=1 the single step of size initial_alpha=10 is never tested'
        elif att and len(att['mu']) > iters and len(att['loss']) == iters + 1:
            L_loop_end = objective(d, model.cliques, att['mu'][iters], meas)
            late = [t for t in range(51, iters) if att['loss'][t + 1] > att['loss'][t]]
            post = len(att['mu']) - 1 - iters
            if post > 0 and L_loop_end <= L0 * (1 + 1e-9) + 1e-12:
                cause = ':post-phase'
                why = (f'; the descent itself ended at loss {L_loop_end!r}, the {post} extra oracle calls of the feasibility phase (no gradient step, same '
                       f'potentials) then moved the tables to a much worse fit')
            elif late:
                cause, why = ':late-increase', f'; the loss rose at iteration(s) {late[:5]} > 50, where the loop only halves the step and continues'
            elif att['loss'][-1] <= L0 * (1 + 1e-9) + 1e-12 and post == 0:
                cause, why = ':last-step', f'; the last loss the loop looked at was {att["loss"][-1]!r}; the step taken from there is never evaluated'
        viol_cap('failing-input', f'oracle {oracle!r}, iters {iters}, total {T}: loss at the returned tables {L!r} exceeds the loss at the uniform start {L0!r} '
                 f'(cliques {cl})' + why, dict(rp, loss=L, uniform_loss=L0), 'local:worse-than-uniform' + cause)
    # convex: overlapping tables agree up to the tolerance the estimator enforces (mean edge L1 < 1.0)
    if oracle == 'convex':
        pf = aligned_feasibility(model)
        res.extra['worst_convex_feasibility'] = max(res.extra.get('worst_convex_feasibility', 0.0), pf)
        if not pf < 1.0:
            viol_cap('failing-input', f'convex oracle, iters {iters}, total {T}: mean L1 disagreement over region-graph edges is {pf!r} >= 1.0, the threshold '
                     f'mirror_descent_auto enforces (cliques {cl})', dict(rp, feasibility=pf), 'local:convex:infeasible')
    return L, L0


def exactness(res, canon, dom, cl, meas, total, results, viol_cap, fact_iters):
    """disjoint families with identity queries: closed-form optimum, and FactoredInference"""
    T = float(total)
    Lstar = 0.0
    for Q, y, sigma, proj in meas:
        x = simplex_projection(y, T)
        Lstar += 0.5 * float(((x - y) / sigma) @ ((x - y) / sigma))
    from mbi import FactoredInference
    d = rggen.mk_domain(dom)
    eng = FactoredInference(d, iters=fact_iters)
    with np.errstate(all='ignore'):
        gm = eng.estimate(meas, T, engine='MD')
    Lf = 0.0
    for Q, y, sigma, proj in meas:
        t = gm.project(proj).datavector()
        Lf += 0.5 * float(((Q @ t - y) / sigma) @ ((Q @ t - y) / sigma))
    res.count('exactness: disjoint families compared with the closed form and FactoredInference')
    for (oracle, iters), (L, L0) in results.items():
        scale = max(L0 - Lstar, 1e-12)
        sub_local = (L - Lstar) / scale
        sub_exact = (Lf - Lstar) / scale
        res.extra.setdefault('suboptimality', []).append([oracle, iters, sub_local, sub_exact])
        if L < Lstar - 1e-9 * (abs(Lstar) + 1):
            viol_cap('failing-input', f'oracle {oracle!r}: loss {L!r} below the closed-form optimum {Lstar!r} (tables cannot be valid)', {'request': canon}, 'local:below-optimum')
        thr = max(1e-3, 10 * sub_exact)
        if iters >= 200 and sub_local > thr:
            # "attains the same optimum" is a statement about the limit: escalate the iteration budget before calling it a failure
            for more in (1000, 5000):
                o2 = run_local(dom, meas, T, oracle, more, control=False)
                res.count(f'exactness: budget escalated to {more}')
                if o2['exc']:
                    break
                L = objective(o2['domain'], o2['model'].cliques, o2['model'].marginals, meas)
                sub_local, iters = (L - Lstar) / scale, more
                if sub_local <= thr:
                    break
        if iters >= 200 and sub_local > thr:
            viol_cap('failing-input',
                     f'convergence test: disjoint cliques {cl}, oracle {oracle!r}, iters {iters}, total {T}: loss {L!r}; exact estimation (FactoredInference MD, '
                     f'{fact_iters} iters) {Lf!r}; closed-form optimum {Lstar!r}; uniform start {L0!r}; relative suboptimality {sub_local:.3e} (exact estimation {sub_exact:.3e})',
                     {'request': canon, 'loss': L, 'factored': Lf, 'optimum': Lstar}, f'local:{oracle}:disjoint-not-exact')


def replay_oracle_calls(res, drv, dom, oracle, out, viol_cap, canon, max_calls=40):
    """the recorded oracle calls of the last segment, replayed through the Lean model"""
    rec, model = out.get('rec'), out.get('model')
    if drv is None or rec is None or model is None or not rec.segments:
        return
    seg = rec.segments[-1][:max_calls]
    if not seg:
        return
    T = float(model.total)
    calls = [{'iters': 1, 'pots': rggen.enc_fpots(fp)} for fp, _ in seg]
    if oracle == 'pairwise':
        q = {'op': 'lbp', 'dom': dom, 'cliques': [list(c) for c in model.cliques], 'total': enc_f(T), 'calls': calls}
    else:
        q = {'op': 'hps' if oracle == 'convex' else 'gbp', 'dom': dom, 'rg': rggen.slim_rg(rggen.export_rg(model)), 'total': enc_f(T), 'calls': calls}
        if oracle == 'convex':
            q['damping'] = enc_f(0.5)           # the estimator may change model.damping only after iteration 50; the replay stops before
            q['convergence'] = enc_f(model.convergence)
    resp = drv.one(q)
    res.count('oracle-call segments replayed in Lean')
    if not resp['ok']:
        viol_cap('correspondence', f'{q["op"]} driver error {resp["err"]}', {'request': canon, 'stream': 'C18.' + q['op']}, 'local:driver')
        return
    for ci, ((fp, tab), m) in enumerate(zip(seg, resp['out']['results'])):
        d, w = rggen.compare_tables(rggen.dec_marg(m['marg']), tab, T)
        res.extra['worst_rel_gap_model'] = max(res.extra.get('worst_rel_gap_model', 0.0), w)
        if d:
            viol_cap('correspondence', f'oracle {oracle!r} call {ci} inside LocalInference: {d}', {'request': canon, 'stream': 'C18.' + q['op'], 'call': ci}, 'local:model-mismatch')
            return


class Cap:
    def __init__(self, res, per_key=2):
        self.res, self.n, self.per_key = res, {}, per_key

    def __call__(self, kind, what, replay, key):
        self.n[key] = self.n.get(key, 0) + 1
        self.res.count('violations:' + key)
        if self.n[key] <= self.per_key:
            self.res.violation(kind, what, replay, key=key)


def one_case(res, drv, r, tier, viol_cap, idx, budget_left):
    kind = r.choice(KINDS)
    if kind == 'deep':
        dom, cl, _ = rggen.gen_case(r, kinds=['deep'])
    else:
        n = r.randint(2, 5)
        dom = rggen.gen_domain(r, n, 120 if tier == 'quick' else 400)
        cl = rggen.gen_cliques(r, kind, [a for a, _ in dom])
    total = r.choice(TOTALS + [None]) if not disjoint(cl) else r.choice(TOTALS)
    scale = total if total is not None else 50.0
    sigma = r.choice([0.01, 0.05]) * scale
    mseed = r.randrange(2**31)
    meas = gen_measurements(r, dom, cl, total, sigma, mseed)
    results = {}
    its = ITERS if tier != 'quick' else sorted(set([r.choice([1, 10]), 200 if disjoint(cl) else r.choice([60, 200])]))
    for oracle in ORACLES:
        for iters in its:
            canon = {'dom': dom, 'cliques': cl, 'total': total, 'sigma': sigma, 'mseed': mseed, 'oracle': oracle, 'iters': iters}
            record = drv is not None and iters <= 60
            out = run_local(dom, meas, total, oracle, iters, record=record)
            res.case(canon, len(cl) >= 2, sample={'cliques': cl, 'oracle': oracle, 'iters': iters, 'total': total} if idx < 2 and iters == its[-1] else None)
            res.count('kind:' + kind)
            res.count('total:' + str(total))
            got = check_run(res, canon, dom, cl, meas, total, oracle, iters, out, viol_cap)
            if got:
                results[(oracle, iters)] = got
            check_control(res, drv, out, iters, viol_cap, canon)
            if record and idx % 2 == 0:
                replay_oracle_calls(res, drv, dom, oracle, out, viol_cap, canon)
    if disjoint(cl) and results and total is not None:
        exactness(res, {'dom': dom, 'cliques': cl, 'total': total, 'sigma': sigma, 'mseed': mseed, 'oracle': 'all', 'iters': its}, dom, cl, meas, total, results,
                  viol_cap, 300 if tier == 'quick' else 1000)
    if idx % 2 == 1:
        history_free(res, dom, cl, meas, total, sigma, mseed, its[0], r.choice(ORACLES), viol_cap)


def history_free(res, dom, cl, meas, total, sigma, mseed, iters, oracle, viol_cap):
    """the same estimate call after an earlier call (other answers, some measurements dropped) on the same estimator object: LocalInference keeps no
    warm start, so the result must be the one a fresh estimator returns"""
    prior_meas = gen_measurements(None, dom, cl, total, sigma * 3, mseed + 1)
    if len(prior_meas) > 1 and mseed % 2 == 0:
        prior_meas = prior_meas[:-1]
    canon = {'dom': dom, 'cliques': cl, 'total': total, 'sigma': sigma, 'mseed': mseed, 'oracle': oracle, 'iters': iters, 'history': 'second-call'}
    a = run_local(dom, meas, total, oracle, iters, control=False)
    b = run_local(dom, meas, total, oracle, iters, control=False, prior=[(prior_meas, total)])
    res.case(canon, True)
    res.count('history: second call on the same estimator vs a fresh one')
    if a['exc'] or b['exc']:
        if bool(a['exc']) != bool(b['exc']):
            viol_cap('failing-input', f'oracle {oracle!r}: the call {"raises " + str(b["exc"]) if b["exc"] else "succeeds"} after an earlier call on the same estimator '
                     f'but {"raises " + str(a["exc"]) if a["exc"] else "succeeds"} on a fresh one', {'request': canon}, 'local:history:exception')
        return
    ta, tb = rggen.table(a['model'].marginals), rggen.table(b['model'].marginals)
    T = float(a['model'].total)
    d, w = rggen.compare_tables(ta, tb, T)
    if d or float(b['model'].total) != T:
        viol_cap('failing-input', f'oracle {oracle!r}, iters {iters}: the tables returned after an earlier estimate call on the same LocalInference object differ from '
                 f'those of a fresh estimator given the same arguments: {d}', {'request': canon}, 'local:history:differs')


# found by a thorough run (replayed in the thorough tier only: the 1000 extra oracle calls take ~15 s):
# eight triples on five attributes, total 1e4, oracle 'approx': the GBP messages grow without bound; iters 1/10 return a table summing to 1,
# iters 60/200 restart with alpha/2 until RecursionError
PINNED = [{'dom': [['g', 2], ['a', 2], ['e', 2], ['b', 3], ['c', 4]],
           'cliques': [['a', 'g', 'e'], ['e', 'c', 'a'], ['a', 'e', 'b'], ['g', 'b', 'c'], ['a', 'b', 'c'], ['g', 'a', 'b'], ['b', 'e', 'g'], ['g', 'e', 'c']],
           'total': 10000.0, 'sigma': 100.0, 'mseed': 338760130, 'oracle': 'approx', 'iters': 1}]


def zeros_warm_history(res, r, tier, viol_cap):
    """structural zeros + warm start on disjoint families: two estimate calls on one LocalInference object whose clique families differ
    (the clique that carried the zeros disappears); nothing is relaxed on a disjoint family, so every call must return, per clique, the
    closed-form optimum restricted to the allowed cells"""
    from mbi import LocalInference
    names = ['A', 'B', 'C', 'D']
    r.shuffle(names)
    dom = [[a, r.choice([2, 3, 3, 4])] for a in names]
    sizes = dict(map(tuple, dom))
    za = r.choice([a for a in names if sizes[a] >= 3] or names[:1])
    if sizes[za] < 2:
        return
    dead = r.sample(range(sizes[za]), 1 if sizes[za] < 4 else 2)
    zeros = {(za,): [(v,) for v in dead]}
    a, b, c, d = names
    fams = [[[a, b], [c, d]], [[a, c], [b, d]]]
    if r.random() < 0.5:
        fams.reverse()
    T = r.choice([50.0, 200.0, 1000.0])
    sigma = 0.02 * T
    d_obj = rggen.mk_domain(dom)
    for oracle in ORACLES:
        warm = r.random() < 0.75
        prng = np.random.RandomState(r.randrange(2**31))
        canon = {'dom': dom, 'zeros': {za: dead}, 'families': fams, 'total': T, 'oracle': oracle, 'warm_start': warm, 'history': 'zeros+warm'}
        res.case(canon, True)
        res.count('structural zeros on disjoint families, two calls' + (' (warm start)' if warm else ''))
        budget = 600
        seed_meas = prng.randint(2**31)
        while True:
          prng = np.random.RandomState(seed_meas)
          retry = False
          eng = LocalInference(d_obj, iters=budget, marginal_oracle=oracle, structural_zeros=dict(zeros), warm_start=warm)
          for k, fam in enumerate(fams):
              meas = []
              for cl in fam:
                  n = int(np.prod([sizes[x] for x in cl]))
                  y = prng.dirichlet(np.ones(n)) * T + prng.normal(0, sigma, n)
                  meas.append((np.eye(n), y, sigma, tuple(cl)))
              try:
                  with np.errstate(all='ignore'):
                      model = eng.estimate(meas, total=T)
              except Exception as e:
                  viol_cap('failing-input', f'oracle {oracle!r}, structural zeros on {za}={dead}, call {k + 1} (warm_start={warm}): estimate raises {type(e).__name__}: {str(e)[:100]}',
                           {'request': canon}, f'local:zeros:raises:{type(e).__name__}')
                  break
              bad = None
              for Q, y, sg, cl in meas:
                  x = np.asarray(model.project(cl).datavector(), dtype=float)
                  shape = [sizes[t] for t in cl]
                  mask = np.ones(shape, dtype=bool)
                  if za in cl:
                      idx = [slice(None)] * len(cl)
                      for v in dead:
                          idx[list(cl).index(za)] = v
                          mask[tuple(idx)] = False
                  mask = mask.flatten()
                  ref = np.zeros(mask.size)
                  ref[mask] = simplex_projection(y[mask], T)
                  if not np.all(np.isfinite(x)) or x.min() < -1e-9 * T or abs(x.sum() - T) > 1e-6 * T:
                      bad = f'table {list(cl)} is not a valid table (sum {x.sum()!r}, min {x.min()!r})'
                  elif x[~mask].sum() > 1e-6 * T:
                      bad = f'table {list(cl)} puts mass {x[~mask].sum():.6g} on structurally impossible cells'
                  elif np.abs(x - ref).max() > 1e-3 * T:
                      bad = f'table {list(cl)} differs from the exact optimum on the allowed cells by {np.abs(x - ref).max():.4g} records ({budget} iterations)'
                  if bad:
                      break
              if bad and 'differs from the exact optimum' in bad and budget < 3000:
                  retry = True      # a convergence statement: the budget is escalated once before a failure is reported
                  break
              if bad:
                  viol_cap('failing-input', f'oracle {oracle!r}, structural zeros on {za}={dead}, call {k + 1} of 2 on one estimator (warm_start={warm}), disjoint cliques {fam}, total {T}: {bad}',
                           {'request': canon}, 'local:zeros:' + bad.split()[0] + ':' + bad.split()[2][:6])
                  break
          if not retry:
              break
          budget = 3000
          res.count('zeros+warm history: budget escalated to 3000')


# only the totals of a chain (a,d),(d,b) and of (e) are measured, total 100: the uniform start is optimal, the loss is rounding noise
# (1e-26) that goes up as often as down while the oracle's persisted messages settle, and every rise restarts with alpha/2 (known finding)
PINNED_STATIONARY = ([['a', 2], ['d', 3], ['b', 3], ['e', 2]], [['a', 'd'], ['d', 'b'], ['e']], 100.0, True)


def stationary_start(res, r, viol_cap, pinned=None):
    """measurements the uniform start already explains exactly (noise-free answers of a uniform population, or only the total measured):
    the loss cannot decrease, and estimation must still complete and hand back the (optimal) uniform tables"""
    from mbi import LocalInference
    names = r.sample(['a', 'b', 'c', 'd', 'e'], 4)
    dom = [[a, r.choice([2, 3])] for a in names]
    fam = [[names[0], names[1]], [names[2], names[3]]] if r.random() < 0.5 else [[names[0], names[1]], [names[1], names[2]], [names[3]]]
    T = r.choice([1.0, 100.0, 1e4])
    totals_only = r.random() < 0.5
    if pinned is not None:
        dom, fam, T, totals_only = pinned
    sizes = dict(map(tuple, dom))
    meas = []
    for cl in fam:
        n = int(np.prod([sizes[x] for x in cl]))
        if totals_only:
            meas.append((np.ones((1, n)), np.array([T]), 1.0, tuple(cl)))
        else:
            meas.append((np.eye(n), np.full(n, T / n), 1.0, tuple(cl)))
    for oracle in ORACLES:
        iters = r.choice([1, 10, 60]) if pinned is None else 10
        canon = {'dom': dom, 'cliques': fam, 'total': T, 'oracle': oracle, 'iters': iters, 'history': 'stationary-start', 'totals_only': totals_only}
        res.case(canon, True)
        res.count('stationary start (the uniform tables are already optimal)')
        try:
            with np.errstate(all='ignore'):
                model = LocalInference(rggen.mk_domain(dom), marginal_oracle=oracle, iters=iters).estimate(meas, total=T)
        except BaseException as e:
            if isinstance(e, KeyboardInterrupt):
                raise
            viol_cap('failing-input', f'oracle {oracle!r}, iters {iters}, total {T}: estimate raises {type(e).__name__} on measurements the uniform start explains exactly '
                     f'(cliques {fam}, {"totals only" if totals_only else "exact uniform answers"})', {'request': canon}, f'local:stationary:raises:{type(e).__name__}:{oracle}')
            continue
        for Q, y, sg, cl in meas:
            x = np.asarray(model.project(cl).datavector(), dtype=float)
            if not np.all(np.isfinite(x)) or x.min() < 0 or abs(x.sum() - T) > 1e-6 * T or float(np.abs(Q @ x - y).max()) > 1e-6 * T:
                viol_cap('failing-input', f'oracle {oracle!r}, iters {iters}, total {T}: the uniform start fits the measurements on {list(cl)} exactly, the returned table does not '
                         f'(sum {x.sum()!r}, residual {float(np.abs(Q @ x - y).max())!r})', {'request': canon}, 'local:stationary:worse')
                break


def object_oracle(res, r, viol_cap):
    """the documented form marginal_oracle=<a RegionGraph object>: the caller builds the oracle (with its default total), LocalInference assigns
    the total of the call to it afterwards; on a disjoint family the result must be the closed-form optimum with that total"""
    from mbi import LocalInference
    from mbi.region_graph import RegionGraph
    names = r.sample(['a', 'b', 'c', 'd', 'e'], 4)
    dom = [[a, r.choice([2, 3])] for a in names]
    sizes = dict(map(tuple, dom))
    fam = [[names[0], names[1]], [names[2], names[3]]]
    T = r.choice([50.0, 1000.0])
    sigma = 0.02 * T
    prng = np.random.RandomState(r.randrange(2**31))
    meas = []
    for cl in fam:
        n = int(np.prod([sizes[x] for x in cl]))
        meas.append((np.eye(n), prng.dirichlet(np.ones(n)) * T + prng.normal(0, sigma, n), sigma, tuple(cl)))
    d_obj = rggen.mk_domain(dom)
    for convex in (True, False):
        canon = {'dom': dom, 'cliques': fam, 'total': T, 'oracle': 'RegionGraph object (convex=%s), total assigned by LocalInference' % convex, 'history': 'object-oracle'}
        res.case(canon, True)
        res.count('oracle object supplied by the caller (total assigned after construction)')
        try:
            with np.errstate(all='ignore'):
                oracle = RegionGraph(d_obj, [tuple(c) for c in fam], convex=convex, iters=1)
                model = LocalInference(d_obj, marginal_oracle=oracle, iters=600).estimate(meas, total=T)
        except Exception as e:
            viol_cap('failing-input', f'LocalInference with a RegionGraph object (convex={convex}) as oracle raises {type(e).__name__}: {str(e)[:100]}', {'request': canon}, 'local:object-oracle:raises')
            continue
        for Q, y, sg, cl in meas:
            x = np.asarray(model.project(cl).datavector(), dtype=float)
            ref = simplex_projection(y, T)
            if not np.all(np.isfinite(x)) or x.min() < -1e-9 * T or abs(x.sum() - T) > 1e-6 * T:
                viol_cap('failing-input', f'oracle object (convex={convex}), total {T}: table {list(cl)} is not a valid table (sum {x.sum()!r}, total {T})', {'request': canon}, 'local:object-oracle:invalid')
                break
            if np.abs(x - ref).max() > 1e-3 * T:
                viol_cap('failing-input', f'oracle object (convex={convex}), total {T}, disjoint cliques: table {list(cl)} differs from the exact optimum by {np.abs(x - ref).max():.4g} records (600 iterations)',
                         {'request': canon}, 'local:object-oracle:not-exact')
                break


def run(res, drv, tier, seed):
    if tier != 'quick':
        for q in PINNED:
            replay(res, drv, {'request': q})
    r = rng(seed, 'C18')
    np.random.seed(seed % 2**32)
    viol_cap = Cap(res)
    n = 14 if tier == 'quick' else 60
    t0 = time.time()
    limit = 48 if tier == 'quick' else 1500
    for idx in range(n):
        if time.time() - t0 > limit:
            res.count('cases skipped by the time budget', n - idx)
            break
        one_case(res, drv, r, tier, viol_cap, idx, limit - (time.time() - t0))
    # the directed histories draw from their own stream: what they exercise must not depend on how many of the cases above fitted into
    # the time budget (a loaded machine once shifted the stream onto the input pinned below, an idle one never did)
    r2 = rng(seed, 'C18-directed')
    stationary_start(res, r2, viol_cap, pinned=PINNED_STATIONARY)
    for _ in range(1 if tier == 'quick' else 8):
        zeros_warm_history(res, r2, tier, viol_cap)
        stationary_start(res, r2, viol_cap)
        object_oracle(res, r2, viol_cap)
    sub = res.extra.get('suboptimality', [])
    if sub:
        res.extra['worst_suboptimality_local_at_200'] = max([s[2] for s in sub if s[1] >= 200], default=None)
        res.extra['worst_suboptimality_exact'] = max(s[3] for s in sub)


def search(res, tier, seed, broken):
    run(res, None, 'quick', seed + 1)


def replay(res, drv, rp):
    q = rp['request']
    dom, cl, total, sigma, mseed = q['dom'], q['cliques'], q['total'], q['sigma'], q['mseed']
    total = None if total in (None, 'None') else float(total)
    meas = gen_measurements(None, dom, cl, total, float(sigma), int(mseed))
    viol_cap = Cap(res)
    if q.get('history') == 'second-call':
        history_free(res, dom, cl, meas, total, float(sigma), int(mseed), int(q['iters']), q['oracle'], viol_cap)
        return
    oracles = ORACLES if q['oracle'] == 'all' else [q['oracle']]
    its = q['iters'] if isinstance(q['iters'], list) else [q['iters']]
    results = {}
    for oracle in oracles:
        for iters in its:
            canon = dict(q, oracle=oracle, iters=iters)
            out = run_local(dom, meas, total, oracle, iters, record=drv is not None and iters <= 60)
            res.case(canon)
            got = check_run(res, canon, dom, cl, meas, total, oracle, iters, out, viol_cap)
            if got:
                results[(oracle, iters)] = got
            check_control(res, drv, out, iters, viol_cap, canon)
            if drv is not None and iters <= 60:
                replay_oracle_calls(res, drv, dom, oracle, out, viol_cap, canon)
    if disjoint(cl) and results and total is not None:
        exactness(res, q, dom, cl, meas, total, results, viol_cap, 300)
