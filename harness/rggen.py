"""shared generators / exporters / oracles for the approximate marginal oracles (C16, C17, C18):
region graphs (`mbi.RegionGraph`) and factor graphs (`mbi.FactorGraph`)."""
import itertools, math
import numpy as np
from common import Fr, enc_q, enc_f, dec_f, close
import gmgen

# two-character attribute names: one-character strings are singletons in CPython, longer ones built at run time are not, so the
# implementation can be handed cliques whose names are EQUAL to the domain's but not the same objects (a domain read from JSON and
# cliques parsed from a string, say) - see fresh()
NAMES = ['a_', 'b_', 'c_', 'd_', 'e_', 'f_', 'g_', 'h_']


def fresh(a):
    """an equal but distinct string object"""
    return ''.join(list(a)) if isinstance(a, str) and len(a) >= 2 else a


def fresh_clique(c):
    return tuple(fresh(a) for a in c)
VALS = gmgen.VALS[1:]          # strictly positive rationals: finite log-potentials only


# ---------------------------------------------------------------------------------------------
# structures

def gen_domain(r, n, max_cells):
    while True:
        attrs = r.sample(NAMES, n)
        dom = [[a, r.choice([1, 2, 2, 2, 3, 3, 4])] for a in attrs]
        if math.prod(s for _, s in dom) <= max_cells:
            return dom


def grow_junction_tree(r, attrs, kmax=3):
    """clique set with the running-intersection property, grown clique by clique: every new clique
    is (non-empty subset of one existing clique) + (new attributes), or a sub-clique"""
    pool = list(attrs)
    r.shuffle(pool)
    k = min(len(pool), r.randint(1, kmax))
    cl = [pool[:k]]
    pool = pool[k:]
    while pool:
        base = r.choice(cl)
        sep = r.sample(base, r.randint(1, min(len(base), kmax - 1)))
        k = r.randint(1, max(1, min(len(pool), kmax - len(sep))))
        cl.append(sep + pool[:k])
        pool = pool[k:]
    if r.random() < 0.3:
        base = r.choice(cl)
        cl.append(r.sample(base, r.randint(1, len(base))))
    return cl


def grow_factor_tree(r, attrs, kmax=3):
    """cliques whose factor graph (bipartite variable/factor graph) is a forest: every new factor
    touches at most one existing variable"""
    pool = list(attrs)
    r.shuffle(pool)
    k = min(len(pool), r.randint(1, kmax))
    cl = [pool[:k]]
    used = list(pool[:k])
    pool = pool[k:]
    while pool:
        k = r.randint(1, min(len(pool), kmax - 1))
        if r.random() < 0.12:
            new = pool[:k]                       # a new component
        else:
            new = [r.choice(used)] + pool[:k]
        cl.append(new)
        used += pool[:k]
        pool = pool[k:]
    # unary leaf factors on existing variables
    for v in r.sample(used, r.randint(0, min(2, len(used)))):
        if [v] not in cl:
            cl.append([v])
    return cl


KINDS = ['arbitrary', 'rip', 'fgtree', 'loop', 'dense', 'chain', 'star', 'disjoint', 'nested', 'sameset', 'deep', 'ring']


def gen_cliques(r, kind, attrs):
    A, n = list(attrs), len(attrs)
    if kind == 'rip':
        cl = grow_junction_tree(r, A)
    elif kind == 'fgtree':
        cl = grow_factor_tree(r, A)
    elif kind == 'loop':
        cl = [[A[i], A[(i + 1) % n]] for i in range(n)] if n >= 3 else [[A[0], A[-1]]]
        if n >= 4 and r.random() < 0.4:
            cl.append([A[0], A[n // 2]])
    elif kind == 'dense':
        k = 2 if n <= 3 or r.random() < 0.6 else 3
        cl = [list(c) for c in itertools.combinations(A, min(k, n))]
        if len(cl) > 8:
            cl = r.sample(cl, 8)
    elif kind == 'chain':
        cl = [[A[i], A[i + 1]] for i in range(n - 1)] or [[A[0]]]
    elif kind == 'star':
        cl = [[A[0], A[i]] for i in range(1, n)] or [[A[0]]]
    elif kind == 'disjoint':
        cl, i = [], 0
        while i < n:
            k = r.randint(1, min(3, n - i))
            cl.append(A[i:i + k]); i += k
    elif kind == 'nested':
        k = min(3, n)
        cl = [A[:k], A[:max(1, k - 1)], [A[0]]] + [[A[i], A[i + 1]] for i in range(k - 1, n - 1)]
    elif kind == 'deep':
        # junction trees whose separators nest three deep (sliding windows of width 4, or a tapering tail): region graphs with four levels,
        # where descendants, children, ancestors and parents all differ
        w = min(4, max(2, n - 1))
        if n >= 6 and r.random() < 0.4:
            cl = [A[0:4], A[1:5], [A[2], A[3], A[5]]] + ([[A[3], A[6]]] if n >= 7 else [])
        else:
            cl = [A[i:i + w] for i in range(n - w + 1)]
    elif kind == 'ring':
        # maximal cliques arranged in a ring of triples plus measured pairs: a sub-region whose parents have no common ancestor although a chain of
        # siblings (parents of OTHER regions) links them
        if n >= 5:
            P, Q, S, T, U = A[:5]
            cl = [[P, Q, S], [P, S, U], [S, T, U], [Q, T, U], [P, Q], [Q, T]]
            if n >= 6:
                cl.append([U, A[5]])
        else:
            cl = [[A[i], A[(i + 1) % n], A[(i + 2) % n]] for i in range(n)] if n >= 4 else [[A[i], A[(i + 1) % n]] for i in range(n)]
    elif kind == 'sameset':
        # the same attribute set named in two orders: two distinct regions
        cl = [[A[i], A[i + 1]] for i in range(n - 1)] or [[A[0]]]
        if n >= 3:
            cl += [[A[1], A[0]], [A[0], A[1], A[2]]]
    else:
        cl = [r.sample(A, min(n, r.choice([1, 2, 2, 3, 3]))) for _ in range(r.randint(1, n + 1))]
    cl = [r.sample(c, len(c)) if r.random() < 0.4 else list(c) for c in cl if len(c) > 0]
    r.shuffle(cl)
    return cl


def gen_case(r, max_cells=1500, nmin=2, nmax=6, kinds=KINDS):
    kind = r.choice(kinds)
    if kind == 'ring':
        n = r.choice([5, 5, 6])
        attrs = r.sample(NAMES, n)
        dom = [[a, 2] for a in attrs]
        dom[r.randrange(n)][1] = r.choice([2, 3])
        return dom, gen_cliques(r, kind, attrs), kind
    n = r.randint(max(nmin, 3 if kind == 'loop' else nmin), nmax)
    if kind == 'deep':
        n = r.choice([5, 6, 7, 7, 7, 8])
        attrs = r.sample(NAMES, n)
        dom = [[a, r.choice([2, 2, 2, 3] if i < 2 else [1, 2, 2, 2])] for i, a in enumerate(attrs)]
        return dom, gen_cliques(r, kind, attrs), kind
    dom = gen_domain(r, n, max_cells)
    return dom, gen_cliques(r, kind, [a for a, _ in dom]), kind


def has_rip(cliques):
    """independent decision: the family of attribute sets admits a junction tree iff a maximum-weight
    spanning forest of the intersection graph has weight sum_v (n_v - 1)"""
    sets = []
    for c in cliques:
        if set(c) not in sets:
            sets.append(set(c))
    edges = sorted(((len(sets[i] & sets[j]), i, j) for i in range(len(sets)) for j in range(i)), reverse=True)
    comp = list(range(len(sets)))

    def find(x):
        while comp[x] != x:
            x = comp[x]
        return x
    w = 0
    for wt, i, j in edges:
        if wt == 0:
            break
        a, b = find(i), find(j)
        if a != b:
            comp[a] = b
            w += wt
    cnt = {}
    for s in sets:
        for v in s:
            cnt[v] = cnt.get(v, 0) + 1
    return w == sum(c - 1 for c in cnt.values())


def factor_graph_diameter(dom, cliques):
    """None when the bipartite variable/factor graph has a cycle (or a repeated clique); otherwise the
    largest eccentricity (in bipartite edges) over its components"""
    import networkx as nx
    keys = [tuple(c) for c in cliques]
    if len(set(keys)) != len(keys) or any(len(set(c)) != len(c) for c in cliques):
        return None
    G = nx.Graph()
    for a, _ in dom:
        G.add_node(('v', a))
    for c in keys:
        G.add_node(('f', c))
        for v in c:
            G.add_edge(('f', c), ('v', v))
    if not nx.is_forest(G):
        return None
    d = 0
    for comp in nx.connected_components(G):
        d = max(d, nx.diameter(G.subgraph(comp)))
    return d


# ---------------------------------------------------------------------------------------------
# implementation objects

def mk_domain(dom):
    from mbi import Domain
    return Domain([a for a, _ in dom], [s for _, s in dom])


RETOTAL = {'late': 0, 'constructor': 0}


def _late_total(cliques, total):
    """half of the oracle objects are built with the default total and get `.total` assigned afterwards — what LocalInference._setup does with a
    user-supplied oracle object; the other half receive it in the constructor"""
    late = (len(cliques) + sum(len(c) for c in cliques) + int(float(total) * 7)) % 2 == 1
    RETOTAL['late' if late else 'constructor'] += 1
    return late


def build_rg(dom, cliques, total, convex, minimal=True, **kw):
    from mbi import RegionGraph
    if _late_total(cliques, total):
        obj = RegionGraph(mk_domain(dom), [fresh_clique(c) for c in cliques], convex=convex, minimal=minimal, **kw)
        obj.total = total
        return obj
    return RegionGraph(mk_domain(dom), [fresh_clique(c) for c in cliques], total=total, convex=convex, minimal=minimal, **kw)


def build_fg(dom, cliques, total, iters=25):
    from mbi import FactorGraph
    if _late_total(cliques, total):
        obj = FactorGraph(mk_domain(dom), [fresh_clique(c) for c in cliques], convex=False, iters=iters)
        obj.total = total
        return obj
    return FactorGraph(mk_domain(dom), [fresh_clique(c) for c in cliques], total=total, convex=False, iters=iters)


def init_cliques(cliques, convex):
    """what RegionGraph.__init__ keeps of the clique argument"""
    cl = [tuple(c) for c in cliques]
    return cl if convex else [r for r in cl if not any(set(r) < set(s) for s in cl)]


def _adj(d, keyf=list):
    return [[keyf(k), [list(v) for v in vs]] for k, vs in d.items()]


def _pairs(es):
    return [[list(a), list(b)] for a, b in es]


def export_rg(rg, twin=None):
    """the structure stored on the object by build_graph, in the object's own iteration orders"""
    out = {
        'regions': [list(x) for x in rg.regions],
        'cliques': [list(x) for x in rg.cliques],
        'children': _adj(rg.children), 'parents': _adj(rg.parents),
        'descendants': _adj(rg.descendants), 'ancestors': _adj(rg.ancestors),
        'counting': [[list(k), enc_q(Fr(v))] for k, v in rg.counting_numbers.items()],
        'message_order': _pairs(rg.message_order),
        'message_keys': _pairs(rg.messages.keys()),
    }
    if hasattr(rg, 'N'):
        out['N'] = [[[list(k[0]), list(k[1])], _pairs(v)] for k, v in rg.N.items()]
        out['D'] = [[[list(k[0]), list(k[1])], _pairs(v)] for k, v in rg.D.items()]
        out['B'] = [[list(k), _pairs(v)] for k, v in rg.B.items()]
    if twin is not None and [list(x) for x in twin.regions] == out['regions']:
        out['children0'] = _adj(twin.children)
        out['parents0'] = _adj(twin.parents)
    return out


def slim_rg(ex):
    """what the message-passing ops need"""
    return {k: ex[k] for k in ('regions', 'cliques', 'children', 'parents', 'counting', 'message_order', 'N', 'D', 'B') if k in ex}


# ---------------------------------------------------------------------------------------------
# potentials

def gen_pots(r, dom, keys, support=None, transposed=0.0):
    """exp-space rational potentials on `keys` (all equal to 1 outside `support`):
    list of (clique, factor domain [[attr,size]..], [Fraction..])"""
    size = dict(map(tuple, dom))
    out = []
    for cl in keys:
        fa = list(cl)
        if r.random() < transposed:
            fa = r.sample(fa, len(fa))
        fdom = [[a, size[a]] for a in fa]
        n = math.prod(s for _, s in fdom)
        if support is not None and tuple(cl) not in support:
            vals = [Fr(1)] * n
        else:
            vals = [r.choice(VALS) for _ in range(n)]
        out.append((list(cl), fdom, vals))
    return out


def pots_float(pots, scale=None):
    """the doubles handed to both sides: log of the rational, optionally scaled"""
    out = []
    for cl, fdom, vals in pots:
        fl = [(math.log(v) * (scale or 1.0)) if v > 0 else -math.inf for v in vals]
        out.append((cl, fdom, fl))
    return out


def impl_cv(fpots):
    from mbi import Domain, Factor, CliqueVector
    return CliqueVector({tuple(cl): Factor(Domain([a for a, _ in fdom], [s for _, s in fdom]), np.array(fl, dtype=float))
                         for cl, fdom, fl in fpots})


def enc_fpots(fpots):
    return [{'clique': cl, 'dom': fdom, 'vals': [enc_f(v) for v in fl]} for cl, fdom, fl in fpots]


def table(mu):
    return {tuple(cl): (list(mu[cl].domain.attrs), [float(v) for v in mu[cl].values.flatten()]) for cl in mu}


def dec_marg(resp_marg):
    return {tuple(e['clique']): ([a for a, _ in e['dom']], [dec_f(v) for v in e['vals']]) for e in resp_marg}


def validity(tab, total, tol=1e-9, strict=False):
    """finite, nonnegative, sums to total; returns a description of the first defect or None.
    The tables are total*exp(b - logsumexp(b)); the rounding error of that sum grows with the magnitude of
    the log-beliefs b (|b| ~ 1e7 gives ~1e-9 relative), so anything tighter than 1e-6 relative would report
    float rounding, not a failure to normalise."""
    if not strict:
        tol = max(tol, 1e-6)
    for cl, (attrs, vals) in tab.items():
        if not all(math.isfinite(v) for v in vals):
            return f'table on {list(cl)} has non-finite entries'
        if any(v < 0 for v in vals):
            return f'table on {list(cl)} has negative entries'
        s = math.fsum(vals)
        if abs(s - total) > tol * max(1.0, abs(total)):
            return f'table on {list(cl)} sums to {s!r}, total is {total!r}'
    return None


def compare_tables(model_tab, impl_tab, total, rel=1e-9, abs_=1e-12):
    """first disagreement between model and implementation tables, or None; also the worst relative gap"""
    worst = 0.0
    if set(model_tab) != set(impl_tab):
        return f'key sets differ: model {sorted(model_tab)} implementation {sorted(impl_tab)}', worst
    for cl, (ma, mv) in model_tab.items():
        ia, iv = impl_tab[cl]
        if ma != ia:
            return f'table {list(cl)}: attribute order model {ma} implementation {ia}', worst
        if len(mv) != len(iv):
            return f'table {list(cl)}: {len(mv)} vs {len(iv)} cells', worst
        for k, (m, i) in enumerate(zip(mv, iv)):
            if math.isfinite(m) and math.isfinite(i):
                worst = max(worst, abs(m - i) / max(abs(m), abs(i), abs_ * abs(total) / rel if rel else 1.0, 1e-300))
            if not close(m, i, rel, abs_ * abs(total)):
                return f'table {list(cl)} cell {k}: model {m!r} implementation {i!r}', worst
    return None, worst


def exact_tables(dom, pots, impl_tab, total):
    """brute-force marginals of the product of all potentials, in the attribute orders of impl_tab"""
    joint = gmgen.brute_joint(dom, pots)
    return {cl: (attrs, gmgen.brute_marginal(dom, joint, attrs, total)) for cl, (attrs, _) in impl_tab.items()}


def max_err(exact, impl_tab):
    e = 0.0
    where = None
    for cl, (attrs, ev) in exact.items():
        for k, (x, y) in enumerate(zip(ev, impl_tab[cl][1])):
            d = abs(float(x) - y)
            if not (d <= e):
                e, where = d, (cl, k, float(x), y)
    return e, where


# ---------------------------------------------------------------------------------------------
# independent numpy helpers on tables (used by C17/C18)

def project_table(attrs, shape, vals, onto):
    """sum a row-major table over the attributes not in `onto`; result in `onto` order"""
    arr = np.array(vals, dtype=float).reshape(shape)
    keep = [attrs.index(a) for a in onto]
    drop = tuple(i for i in range(len(attrs)) if i not in keep)
    arr = arr.sum(axis=drop) if drop else arr
    rest = [a for a in attrs if a in onto]
    return np.transpose(arr, [rest.index(a) for a in onto])



def max_abs_message(obj):
    """largest |entry| over the persisted messages of a RegionGraph / FactorGraph object (inf if any is not finite)"""
    import numpy as np

    def walk(x):
        if isinstance(x, dict):
            for v in x.values():
                yield from walk(v)
        elif isinstance(x, (tuple, list)):
            for v in x:
                yield from walk(v)
        elif hasattr(x, 'values') and hasattr(x, 'domain'):
            yield x
    m = 0.0
    for f in walk(getattr(obj, 'messages', None)):
        a = np.asarray(f.values, dtype=float)
        if a.size == 0:
            continue
        if not np.all(np.isfinite(a)):
            return float('inf')
        m = max(m, float(np.abs(a).max()))
    return m


DIVERGED = 1e12      # messages of this magnitude absorb log(total) in double precision: the cause of the recorded normalisation findings


def explained_by_message_growth(tab, total, mm):
    """is the normalisation defect of `tab` the float absorption caused by messages of magnitude `mm`?  The tables are
    total*exp(b - logsumexp(b)) with |b| ~ mm, so the relative error of a cell is about ulp(mm) = 2.2e-16*mm: a deviation of the sums up to a small
    multiple of that (or anything at all once mm >= 1e15, where log(total) is absorbed completely) is that phenomenon; a larger deviation, or any
    deviation while the messages are small, is something else"""
    if not (mm >= 1e6):
        return False
    if not (mm < 1e15):
        return True
    dev = 0.0
    for cl, (attrs, vals) in tab.items():
        if not all(math.isfinite(v) for v in vals) or any(v < 0 for v in vals):
            return False
        dev = max(dev, abs(math.fsum(vals) - total) / max(1.0, abs(total)))
    return dev <= 64 * 2.22e-16 * mm
