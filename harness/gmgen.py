"""shared generators / oracles for the graphical-model properties (C01, C02, C08, C10, C16 ...)."""
import itertools, math
import numpy as np
from common import Fr, enc_q

# two-character names (see rggen.fresh): cliques reach the implementation as string objects EQUAL to the domain's names, not identical
NAMES = ['a_', 'b_', 'c_', 'd_', 'e_', 'f_', 'g_']


def fresh(a):
    return ''.join(list(a)) if isinstance(a, str) and len(a) >= 2 else a
VALS = [Fr(0), Fr(1, 8), Fr(1, 4), Fr(1, 2), Fr(1), Fr(1), Fr(2), Fr(3), Fr(5)]


def gen_structure(r, max_cells=3000, nmin=2, nmax=7):
    """returns (dom [[attr,size]..], cliques [[attr..]..], class)"""
    while True:
        n = r.randint(nmin, nmax)
        attrs = r.sample(NAMES, n)
        dom = [[a, r.choice([1, 2, 2, 2, 3, 3, 4])] for a in attrs]
        if math.prod(s for _, s in dom) <= max_cells:
            break
    kind = r.choice(['chain', 'star', 'cycle', 'grid', 'disconnected', 'nested', 'duplicated', 'single', 'tri', 'random'])
    A = attrs
    if kind == 'chain':
        cl = [[A[i], A[i + 1]] for i in range(n - 1)]
    elif kind == 'star':
        cl = [[A[0], A[i]] for i in range(1, n)]
    elif kind == 'cycle':
        cl = [[A[i], A[(i + 1) % n]] for i in range(n)] if n >= 3 else [[A[0], A[1]]]
    elif kind == 'grid':
        cl = [[A[i], A[i + 1]] for i in range(n - 1)] + [[A[i], A[i + 2]] for i in range(n - 2)]
    elif kind == 'disconnected':
        h = max(1, n // 2)
        cl = [[A[i], A[i + 1]] for i in range(h - 1)] + [[A[i], A[i + 1]] for i in range(h, n - 1)]
    elif kind == 'nested':
        k = min(3, n)
        cl = [A[:k], A[:k - 1] if k > 1 else A[:1], [A[0]]] + [[A[i], A[i + 1]] for i in range(k - 1, n - 1)]
    elif kind == 'duplicated':
        cl = [[A[i], A[i + 1]] for i in range(n - 1)]
        cl = cl + [list(cl[0]), list(reversed(cl[-1]))]
    elif kind == 'single':
        cl = [list(A)] if math.prod(s for _, s in dom) <= 600 else [A[:3]]
    elif kind == 'tri':
        cl = [A[i:i + 3] for i in range(0, max(1, n - 2), 2)]
        if n >= 4:
            cl.append([A[-1], A[0]])
    else:
        cl = [r.sample(A, min(n, r.choice([1, 2, 2, 3]))) for _ in range(r.randint(1, n + 1))]
    cl = [list(c) for c in cl if len(c) > 0]
    # name attributes inside cliques in random order
    cl = [r.sample(c, len(c)) if r.random() < 0.5 else c for c in cl]
    r.shuffle(cl)
    return dom, cl, kind


def gen_order(r, dom):
    attrs = [a for a, _ in dom]
    m = r.choice(['none', 'none', 'perm', 'perm', 'int'])
    if m == 'none':
        return None
    if m == 'perm':
        return r.sample(attrs, len(attrs))
    return r.randint(1, 4)


def build_model(dom, cliques, total, order, form=None):
    from mbi import Domain, GraphicalModel
    d = Domain([a for a, _ in dom], [s for _, s in dom])
    return GraphicalModel(d, [tuple(fresh(a) for a in c) for c in cliques], total=total, elimination_order=order_form(order, form))


ORDER_FORMS = ['list', 'tuple', 'iter', 'generator', 'reversed', 'map', 'dict_keys']


def order_form(order, form):
    """a given elimination order (a permutation of the attributes) in another legal spelling: any iterable, one-shot ones included"""
    if form is None or form == 'list' or not isinstance(order, (list, tuple)):
        return order
    order = list(order)
    if form == 'tuple':
        return tuple(order)
    if form == 'iter':
        return iter(order)
    if form == 'generator':
        return (a for a in order)
    if form == 'reversed':
        return reversed(order[::-1])
    if form == 'map':
        return map(str, order)
    if form == 'dict_keys':
        return dict.fromkeys(order).keys()
    return order


def gen_potentials(r, model, zero_p=0.15, transposed=True):
    """exact exp-space potentials on the model's cliques: list of (clique, [[attr,size]..] factor order, [Fraction...])"""
    out = []
    for cl in model.cliques:
        fa = list(cl)
        if transposed and r.random() < 0.3:
            fa = r.sample(fa, len(fa))
        fdom = [[a, model.domain[a]] for a in fa]
        n = math.prod(s for _, s in fdom)
        vals = [Fr(0) if r.random() < zero_p else r.choice(VALS[1:]) for _ in range(n)]
        out.append((list(cl), fdom, vals))
    return out


def impl_potentials(pots, scale=None, offsets=None):
    """CliqueVector of log-space Factors for the implementation (optionally scaled, then shifted by one constant per clique)"""
    from mbi import Domain, Factor, CliqueVector
    d = {}
    for i, (cl, fdom, vals) in enumerate(pots):
        with np.errstate(divide='ignore'):
            arr = np.array([math.log(v) if v > 0 else -math.inf for v in vals], dtype=float)
        if scale is not None:
            arr = arr * scale
        if offsets is not None:
            arr = arr + offsets[i]
        d[tuple(cl)] = Factor(Domain([a for a, _ in fdom], [s for _, s in fdom]), arr)
    return CliqueVector(d)


def enc_pots(pots):
    return [{'clique': cl, 'dom': fdom, 'vals': [enc_q(v) for v in vals]} for cl, fdom, vals in pots]


def random_linear_extension(r, edges_directed):
    """edges_directed: list of messages (i,j) (both directions of every tree edge).  dependency:
    (k,i) before (i,j) for k != j.  returns a uniformly-ish random linear extension."""
    msgs = list(edges_directed)
    deps = {m: set() for m in msgs}
    for m1 in msgs:
        for m2 in msgs:
            if m1[1] == m2[0] and m1[0] != m2[1]:
                deps[m2].add(m1)
    done, out = set(), []
    while len(out) < len(msgs):
        ready = [m for m in msgs if m not in done and deps[m] <= done]
        m = r.choice(ready)
        out.append(m); done.add(m)
    return out


def brute_joint(dom, pots):
    """dict assignment-tuple (in dom order) -> Fraction product of potentials"""
    attrs = [a for a, _ in dom]
    sizes = [s for _, s in dom]
    pos = {a: i for i, a in enumerate(attrs)}
    tabs = []
    for cl, fdom, vals in pots:
        fa = [a for a, _ in fdom]
        fs = [s for _, s in fdom]
        tabs.append(([pos[a] for a in fa], fs, vals))
    joint = {}
    for x in itertools.product(*[range(s) for s in sizes]):
        p = Fr(1)
        for idxs, fs, vals in tabs:
            k = 0
            for i, s in zip(idxs, fs):
                k = k * s + x[i]
            p *= vals[k]
            if p == 0:
                break
        joint[x] = p
    return joint


def brute_marginal(dom, joint, attrs_out, total):
    """list of Fractions, row-major in attrs_out order: total * marg / Z ; None when Z == 0"""
    attrs = [a for a, _ in dom]
    sizes = dict(map(tuple, dom))
    pos = [attrs.index(a) for a in attrs_out]
    Z = sum(joint.values())
    if Z == 0:
        return None
    acc = {}
    for x, p in joint.items():
        key = tuple(x[i] for i in pos)
        acc[key] = acc.get(key, Fr(0)) + p
    return [acc.get(c, Fr(0)) * total / Z for c in itertools.product(*[range(sizes[a]) for a in attrs_out])]
