"""C05 — mechanisms never spend more privacy than the (eps, delta) budget (real neighbouring runs)."""
import math
import numpy as np
from common import enc_f, dec_f, close, rng
import mechrun

LEAN_MODULE = 'PGM.Properties.C05'
LEAN_EXTRA = ['PGM.Properties.C05B', 'PGM.Properties.C05S', 'PGM.Properties.C05E', 'PGM.Properties.C05L']   # C05L: the loop bounds of the C05E ledgers, from the regenerated control flow (py2flow)
NEEDS_GENERATED = True
TRANSLATORS = ('py2lean', 'py2flow', 'py2sel')   # py2sel: the selection sites (score functions, declared sensitivities, exponential mechanisms) of the four mechanisms -> Generated/SelectG.lean; C05S proves that the declared sensitivity bounds the score change and the per-selection cost
TRUSTED = ['Lean 4.33 kernel', 'axioms: propext, Classical.choice, Quot.sound',
           'tools/py2lean.py slices: every budget / scale expression of the four mechanisms is regenerated from mechanisms/*.py on each run; the hand-written ledger skeletons compose them as the control flow does',
           'the DP calculus (Gaussian Delta^2/2sigma^2 zCDP, selection eps\'^2/8, Laplace Delta_1/b, additive composition) is the charging rule the property prescribes, not derived',
           'the instrumented runs (harness/mechrun.py) observe operands, scales and probability vectors from outside; numpy samplers trusted']
ASSUMPTIONS = ['AIM with rounds < 0.9*#attributes is outside aim_budget\'s hypothesis and is executed on the real code by the check',
               'adaptive grid query matrices have column norm <= 1 (measured on the real matrices through the realised statistic change)']
RULE = ('datasets of 20-120 records over 3-4 attributes (sizes 2-4); neighbour = add/remove one record (unbounded) or replace one (bounded MWEM), random and directed '
        '(record moved between the cells maximising the change of selection scores); parameters: eps in {0.5,1,3}, delta in {1e-6,1e-9}, rounds, noise kind, bounded flag, '
        'split strategy, workload; each pair: record all primitive outcomes on D, replay them on D\'; non-trivial = at least one selection and two releases; '
        'distinct = distinct (mechanism, parameters, D, D\')')
EXPLANATION = ('per release the actual change of the released statistic between the two datasets and the scale passed to the sampler, per selection the actual '
               'max log-ratio of the two probability vectors, are charged by the property\'s rule and summed; the sum must not exceed rho(eps,delta) (resp. eps)')

DOMS = [[['a', 2], ['b', 3], ['c', 2]], [['a', 2], ['b', 2], ['c', 2], ['d', 3]], [['a', 3], ['b', 4], ['c', 2]]]


def gen_rows(r, dom, n):
    # skewed so that selections have something to find
    rows = []
    for _ in range(n):
        base = [r.randrange(s) for _, s in dom]
        if r.random() < 0.6:
            base[1] = base[0] % dom[1][1]
        rows.append(base)
    return rows


def neighbour(r, dom, rows, bounded, directed):
    rows2 = [list(x) for x in rows]
    if bounded:
        i = r.randrange(len(rows2))
        if directed:
            # move a record from a rare cell to the most frequent one
            from collections import Counter
            c = Counter(map(tuple, rows2))
            rare = min(c, key=c.get)
            common_ = max(c, key=c.get)
            i = next(k for k, x in enumerate(rows2) if tuple(x) == rare)
            rows2[i] = list(common_)
        else:
            rows2[i] = [r.randrange(s) for _, s in dom]
    else:
        if r.random() < 0.5 and len(rows2) > 2:
            rows2.pop(r.randrange(len(rows2)))
        else:
            if directed:
                from collections import Counter
                c = Counter(map(tuple, rows2))
                rows2.append(list(max(c, key=c.get)))
            else:
                rows2.append([r.randrange(s) for _, s in dom])
    return rows2


def gen_params(r, name, dom):
    attrs = [a for a, _ in dom]
    import itertools
    pairs = [list(p) for p in itertools.combinations(attrs, 2)]
    p = {'epsilon': r.choice([0.5, 1.0, 3.0]), 'delta': r.choice([1e-6, 1e-9])}
    if name == 'aim':
        p['rounds'] = r.choice([None, 4, 6, 10])
        p['workload'] = r.sample(pairs, r.randint(2, len(pairs)))
        # AIM(epsilon, delta, prng=...) : the constructor hands its third argument to the base class, whose third parameter is `bounded`
        p['prng'] = r.random() < 0.5
        # workload weights other than 1 (the selection sensitivity is the largest candidate weight)
        if r.random() < 0.5:
            p['weights'] = [r.choice([1.0, 0.5, 2.0, 3.0]) for _ in p['workload']]
        # a size limit that actually binds: a few times the size of the model over the one-way marginals (in MB), so that the early rounds
        # may only select marginals that are already covered and heavier ones become admissible as the budget is used up
        if r.random() < 0.4:
            p['max_model_size'] = sum(s for _, s in dom) * 8 / 2 ** 20 * r.choice([2.0, 4.0, 8.0])
        # a call history on one mechanism object: a run on a light workload (one single-attribute query) first, then the run that is audited
        if r.random() < 0.4:
            p['first_workload'] = [[r.choice(attrs)]]
    elif name == 'mwem':
        p['rounds'] = r.choice([1, 2, 3])
        p['workload'] = r.sample(pairs, r.randint(2, len(pairs)))
        p['noise'] = r.choice(['gaussian', 'gaussian', 'laplace'])
        p['bounded'] = r.random() < 0.5
        p['alpha'] = r.choice([0.9, 0.5, 0.7])
    elif name == 'adagrid':
        p['threshold'] = r.choice([5.0, 1.0])
        p['split_strategy'] = r.choice([None, [0.1, 0.1, 0.8], [1, 1, 2]])
        p['targets'] = r.choice([[], [], [attrs[-1]]])
    return p


def one_pair(res, name, dom, rows, rows2, params, seed, tag):
    rec, out = mechrun.run(name, dom, rows, params, seed)
    canon = {'mechanism': name, 'dom': dom, 'rows': rows, 'rows2': rows2, 'params': params, 'seed': seed}
    nsel = sum(1 for e in rec.events if e['kind'] == 'select')
    nrel = sum(1 for e in rec.events if e['kind'] == 'release')
    res.case(canon, nsel >= 1 and nrel >= 2, sample={'mechanism': name, 'params': params, 'events': [(e['kind'], e.get('scale')) for e in rec.events][:8]} if tag == 'directed' else None)
    res.count(f'{name}:{tag}')
    if 'raise' in out:
        res.count(f'{name}: raises (no output)')
        res.extra.setdefault('raised', []).append({'mechanism': name, 'params': params, 'error': out['raise']})
        return None
    if rec.unpaired:
        res.violation('correspondence', f'{name}: {rec.unpaired} noise draw(s) were not added to a statistic (instrumentation cannot see the release)',
                      {'request': canon, 'stream': 'C05.instrument'})
        return None
    rec2, out2 = mechrun.run(name, dom, rows2, params, seed, forced=rec.outcomes())
    if 'raise' in out2:
        res.count(f'{name}: neighbour run raises')
        return None
    ev, ev2 = rec.events, rec2.events
    n = min(len(ev), len(ev2))
    kind, B = mechrun.budget(name, params)
    ch = mechrun.charges(ev[:n], ev2[:n], laplace_pure=(kind == 'eps'))
    total = 0.0
    for c in ch:
        if c is None:
            continue   # structural mismatch: reported by C06
        total += c[1]
    res.extra['max_spent_fraction'] = max(res.extra.get('max_spent_fraction', 0.0), total / B if B > 0 else 0.0)
    if total > B * (1 + 1e-6) + 1e-12:
        what = (f'{name} {params}: cost charged over {n} releases/selections on a neighbouring pair is {total:.6g} {kind}, budget implied by (eps, delta) is {B:.6g}')
        res.violation('failing-input', what, {'request': canon, 'observed': {'charges': [c for c in ch], 'total': total, 'budget': B}},
                      key=f'{name}:overspend' + (':bounded' if params.get('bounded') else ''))
    return total / B if B > 0 else (float("inf") if total > 0 else 0.0)


def directed_mwem_bounded(res, seed):
    """rounds = 1, replace-one adjacency: the neighbour moves one record so that one candidate's L1
    error rises by 2 and another's falls by 2 — the worst case the selection must be calibrated for"""
    dom = [['a', 2], ['b', 2], ['c', 2]]
    # (a,b) strongly correlated (dominant candidate), (a,c) and (b,c) almost uniform
    counts = {(0, 0, 0): 21, (0, 0, 1): 19, (0, 1, 0): 5, (0, 1, 1): 5, (1, 0, 0): 5, (1, 0, 1): 5, (1, 1, 0): 19, (1, 1, 1): 21}
    rows = [list(k) for k, v in counts.items() for _ in range(v)]
    best = None
    # replace (0,0,1) by (1,0,1): the (a,b) error falls by 2, the (a,c) error rises by 2
    for mv_from, mv_to in [([0, 0, 1], [1, 0, 1]), ([1, 1, 0], [0, 1, 0])]:
        rows2 = [list(x) for x in rows]
        i = rows2.index(mv_from)
        rows2[i] = list(mv_to)
        for alpha in (0.5, 0.9):
            for noise in ('gaussian', 'laplace'):
                params = {'epsilon': 1.0, 'delta': 1e-6, 'rounds': 1, 'workload': [['a', 'b'], ['b', 'c'], ['a', 'c']], 'noise': noise, 'bounded': True, 'alpha': alpha}
                for s in range(2):
                    frac = one_pair(res, 'mwem', dom, rows, rows2, params, seed + s, 'directed')
                    if frac is not None:
                        best = max(best or 0, frac)
    res.extra['mwem_bounded_directed_max_fraction'] = best


def directed_adagrid_targets(res, r, seed):
    """target columns enlarge step 1 to the downward closure of (attribute, targets): every release must be paid for"""
    dom = DOMS[1]
    rows = gen_rows(r, dom, 80)
    for targets, split in ((['d'], None), (['d', 'b'], [0.1, 0.1, 0.8])):
        params = {'epsilon': 1.0, 'delta': 1e-6, 'threshold': 5.0, 'targets': targets, 'split_strategy': split}
        one_pair(res, 'adagrid', dom, rows, rows[:-1], params, seed, 'directed')


def directed_mwem_alpha(res, r, seed):
    """`alpha` is the share of each round's budget that goes to the measurement; the rest pays the selection.  Every value the
    mechanism ACCEPTS must keep the total within the budget (a share above 1 would pay alpha*eps for the Laplace releases alone)"""
    dom = DOMS[1]
    rows = gen_rows(r, dom, 60)
    rows2 = neighbour(r, dom, rows, False, True)
    for alpha in (1.0, 1.5, 3.0):
        for noise in ('laplace', 'gaussian'):
            params = {'epsilon': 1.0, 'delta': 1e-6, 'rounds': 2, 'workload': [['a', 'b'], ['b', 'c'], ['c', 'd']], 'noise': noise, 'bounded': False, 'alpha': alpha}
            one_pair(res, 'mwem', dom, rows, rows2, params, seed * 1000 + 700, 'directed-alpha')


def directed_pure_dp(res, r, seed):
    """delta = 0 (adagrid's docstring: "set delta to 0 if pure DP is required"; mwem_pgm's default): a mechanism that adds Gaussian noise
    must not produce output - no zCDP budget rho > 0 is (eps, 0)-DP, so whatever it releases is charged against a budget of 0"""
    dom = DOMS[1]
    rows = gen_rows(r, dom, 40)
    rows2 = neighbour(r, dom, rows, False, True)
    for name, extra in (('mst', {}), ('adagrid', {'threshold': 5.0, 'targets': [], 'split_strategy': None}),
                        ('mwem', {'rounds': 2, 'workload': [['a', 'b'], ['b', 'c']], 'noise': 'gaussian', 'bounded': False, 'alpha': 0.9}),
                        ('aim', {'rounds': 6, 'workload': [['a', 'b'], ['c', 'd']], 'prng': False})):
        one_pair(res, name, dom, rows, rows2, dict({'epsilon': 1.0, 'delta': 0.0}, **extra), seed * 1000 + 800, 'directed-delta-0')


def directed_aim(res, r, seed):
    """AIM's selection sensitivity is the largest weight among the CURRENT candidates of the CURRENT run: (i) a call history on one
    mechanism object (a light workload first, then all pairs), (ii) a size limit that binds, so that the candidate set grows from round
    to round, (iii) unequal workload weights — each on a directed neighbouring pair (one more copy of the most frequent record)"""
    import itertools
    dom = DOMS[1]
    attrs = [a for a, _ in dom]
    pairs = [list(p) for p in itertools.combinations(attrs, 2)]
    rows = gen_rows(r, dom, 60)
    rows2 = neighbour(r, dom, rows, False, True)
    base = {'epsilon': 1.0, 'delta': 1e-6, 'rounds': 8, 'prng': False}
    for k, extra in enumerate((
            # a workload that does not mention every attribute, few rounds: every release made must be one that is paid for
            {'workload': [pairs[0]], 'rounds': 4},
            {'workload': [[attrs[0], attrs[1]], [attrs[0], attrs[2]]], 'rounds': 4},
            {'workload': pairs, 'first_workload': [[attrs[0]]]},
            {'workload': pairs, 'max_model_size': sum(s for _, s in dom) * 8 / 2 ** 20 * 3.0, 'weights': [3.0, 1.0, 1.0, 2.0, 1.0, 1.0]},
            {'workload': pairs[:4], 'weights': [0.5, 3.0, 1.0, 2.0], 'first_workload': [pairs[5]]})):
        one_pair(res, 'aim', dom, rows, rows2, dict(base, **extra), seed * 1000 + 500 + k, 'directed-history' if 'first_workload' in extra else 'directed-size-limit')


def adagrid_queries(res, drv, r, seed, tier):
    """Adaptive Grid: "Q has sensitivity 1 by construction" (C05B.query_sensitivity_le_one / adagrid_queries_sensitivity).  The query
    matrix of every measured clique is captured from a real run together with the selection (get_identity), the child matrices and the
    aggregate (get_aggregate); the Lean model rebuilds it from those pieces — it must agree bit for bit — and every column of the
    implementation's matrix must have Euclidean norm at most 1, the sensitivity the noise scales are calibrated to"""
    import itertools
    import mechs
    m = mechs.load('adagrid')
    for k in range(2 if tier == 'quick' else 10):
        dom = r.choice(DOMS)
        attrs = [a for a, _ in dom]
        sizes = dict(map(tuple, dom))
        rows = gen_rows(r, dom, r.choice([60, 200, 600]))
        params = {'epsilon': r.choice([1.0, 5.0]), 'delta': 1e-6, 'threshold': r.choice([0.5, 1.0, 5.0]),
                  'targets': r.choice([[], [attrs[-1]], [attrs[-1], attrs[0]] if len(attrs) >= 4 else [attrs[0]]]), 'split_strategy': r.choice([None, [0.2, 0.2, 0.6]])}
        recs, cur, mats = [], {}, {}
        o_id, o_agg = m.get_identity, m.get_aggregate

        def get_identity(cl, pp, domain, _f=o_id):
            Q = _f(cl, pp, domain)
            cur.clear()
            cur.update(cl=tuple(cl), sel=sorted(int(i) for i in np.nonzero(Q.diagonal())[0]), n=int(Q.shape[0]))
            return Q

        def get_aggregate(cl, matrices, domain, _f=o_agg):
            A = _f(cl, matrices, domain)
            mats['ref'] = matrices
            children = [c for c in matrices if set(c) < set(cl) and len(c) + 1 == len(cl)]
            recs.append(dict(cur, children=[(tuple(c), np.asarray(matrices[c].todense(), dtype=float)) for c in children],
                             agg=np.asarray(A.todense(), dtype=float)))
            return A
        meas_lists = []
        import mbi
        o_est = mbi.FactoredInference.estimate
        m.get_identity, m.get_aggregate = get_identity, get_aggregate
        try:
            rec = mechrun.Recorder(seed * 77 + k, None, 20)
            with mechrun.patched(rec):
                p_est = mbi.FactoredInference.estimate

                def est(self, measurements, *a, _f=p_est, **kw):
                    meas_lists.append(list(measurements))
                    return _f(self, measurements, *a, **kw)
                mbi.FactoredInference.estimate = est
                try:
                    m.adagrid(mechrun.make_dataset(dom, rows), params['epsilon'], params['delta'], params['threshold'], targets=list(params['targets']),
                              split_strategy=params['split_strategy'], iters=20)
                finally:
                    mbi.FactoredInference.estimate = p_est
        except Exception as e:
            res.extra.setdefault('raised', []).append({'mechanism': 'adagrid (query capture)', 'error': type(e).__name__ + ': ' + str(e)[:120]})
            continue
        finally:
            m.get_identity, m.get_aggregate = o_id, o_agg
        canon = {'mechanism': 'adagrid', 'dom': dom, 'rows': rows, 'params': params, 'seed': seed * 77 + k, 'audit': 'query matrices'}
        res.case(canon, True)
        final = meas_lists[-1] if meas_lists else []
        if len(final) != len(recs):
            res.violation('correspondence', f'adagrid: {len(recs)} query constructions recorded, {len(final)} measurements handed to the estimator', {'request': canon, 'stream': 'C05.adagrid-queries'})
            continue
        reqs = []
        for rc, (Q, y, noise, cl) in zip(recs, final):
            cl = tuple(cl)
            cells = list(itertools.product(*[range(sizes[a]) for a in cl]))
            ch = []
            for c, Qc in rc['children']:
                cc = list(itertools.product(*[range(sizes[a]) for a in c]))
                idx = {x: i for i, x in enumerate(cc)}
                pos = [cl.index(a) for a in c]
                ch.append({'Q': [[enc_f(v) for v in row] for row in Qc.tolist()], 'sigma': [idx[tuple(x[i] for i in pos)] for x in cells]})
            coef = float(1.0 / np.sqrt(len(ch))) if ch else 1.0
            reqs.append({'op': 'ada_query', 'n': rc['n'], 'sel': rc['sel'], 'coef': enc_f(coef), 'children': ch})
        resps = drv.run(reqs) if drv else [None] * len(reqs)
        for rc, (Q, y, noise, cl), o in zip(recs, final, resps):
            Qd = np.asarray(Q.todense(), dtype=float)
            res.count('adagrid query matrices audited')
            if rc['children']:
                res.count('adagrid query matrices with aggregated child measurements')
            norms = (Qd ** 2).sum(axis=0)
            if tuple(cl) != rc['cl'] or norms.max(initial=0.0) > 1.0 + 1e-12:
                j = int(np.argmax(norms))
                res.violation('failing-input', f'adagrid: the query matrix measured on {list(cl)} has a column (cell {j}) of squared norm {float(norms[j])!r} > 1: one record changes the released '
                              f'statistic by more than the sensitivity 1 its noise scale is calibrated to (over-spend factor {float(norms[j]):.3f})', {'request': canon}, key='adagrid:sensitivity')
                break
            if o is None:
                continue
            if not o['ok']:
                res.violation('correspondence', 'driver error ' + o['err'], {'request': canon, 'stream': 'C05.adagrid-queries'})
                break
            mq = np.array([[dec_f(v) for v in row] for row in o['out']['Q']], dtype=float).reshape(-1, rc['n'])
            ma = np.array([[dec_f(v) for v in row] for row in o['out']['agg']], dtype=float).reshape(-1, rc['n'])
            if ma.shape != rc['agg'].shape or not np.array_equal(ma, rc['agg']):
                res.violation('correspondence', f'adagrid get_aggregate on {list(cl)}: model and implementation differ (shapes {ma.shape} / {rc["agg"].shape})', {'request': canon, 'stream': 'C05.adagrid-queries'})
                break
            if mq.shape != Qd.shape or not np.array_equal(mq, Qd):
                res.violation('correspondence', f'adagrid query matrix on {list(cl)}: model and implementation differ (shapes {mq.shape} / {Qd.shape})', {'request': canon, 'stream': 'C05.adagrid-queries'})
                break


def run(res, drv, tier, seed):
    r = rng(seed, 'C05')
    names = ['mst', 'aim', 'mwem', 'adagrid']
    per = 3 if tier == 'quick' else 25
    for name in names:
        for k in range(per):
            dom = r.choice(DOMS)
            rows = gen_rows(r, dom, r.choice([20, 60, 120]))
            params = gen_params(r, name, dom)
            bounded = bool(params.get('bounded'))
            directed = (k % 2 == 1)
            rows2 = neighbour(r, dom, rows, bounded, directed)
            one_pair(res, name, dom, rows, rows2, params, seed * 1000 + k, 'directed' if directed else 'random')
    directed_mwem_bounded(res, seed)
    directed_adagrid_targets(res, r, seed)
    directed_aim(res, rng(seed, 'C05-aim'), seed)
    directed_mwem_alpha(res, rng(seed, 'C05-alpha'), seed)
    directed_pure_dp(res, rng(seed, 'C05-delta0'), seed)
    adagrid_queries(res, drv, r, seed, tier)
    # the region excluded by aim_budget's hypothesis, on the real code
    dom = DOMS[1]
    rows = gen_rows(r, dom, 40)
    rec, out = mechrun.run('aim', dom, rows, {'epsilon': 1.0, 'delta': 1e-6, 'rounds': 2, 'workload': [['a', 'b'], ['c', 'd']]}, seed)
    res.extra['aim_rounds_below_0.9d'] = out.get('raise', 'produced output') if isinstance(out, dict) else str(out)
    res.count('aim excluded region executed')
    if 'raise' not in out:
        # produced output although 0.9*#oneway > rounds: charge it like any other run
        one_pair(res, 'aim', dom, rows, rows[:-1], {'epsilon': 1.0, 'delta': 1e-6, 'rounds': 2, 'workload': [['a', 'b'], ['c', 'd']]}, seed, 'excluded-region')


def search(res, tier, seed, broken):
    directed_mwem_bounded(res, seed + 1)
    if not any(v['kind'] == 'failing-input' for v in res.violations):
        run(res, None, 'quick', seed + 1)


def replay(res, drv, rp):
    q = rp['request']
    one_pair(res, q['mechanism'], q['dom'], q['rows'], q['rows2'], q['params'], q['seed'], 'replay')
